package main

// ACME finalize through the real JWS-authenticated handler: the acme/api routes are mounted
// on the fixture authority as ca.CA.Init mounts them, the ACME nosql database sits on the same
// fault-injecting nosql.DB as the authority's tables, and the client side (account, order,
// http-01 validation, JWS bodies) is the one of harness/cmd/c12/acmeenv.

import (
	"context"
	"crypto/tls"
	"encoding/base64"
	"encoding/json"
	"errors"
	"fmt"
	"io"
	"net/http"
	"net/url"
	"os"
	"strings"
	"sync"

	"github.com/go-chi/chi/v5"

	"github.com/smallstep/certificates/acme"
	acmeAPI "github.com/smallstep/certificates/acme/api"
	acmenosql "github.com/smallstep/certificates/acme/db/nosql"
	"github.com/smallstep/certificates/authority"
	"verif/harness/cmd/c12/acmeenv"
	c "verif/harness/common"
	"verif/harness/fixture"
)

// valClient answers the http-01 fetch with the registered key authorization.
type valClient struct {
	mu sync.Mutex
	m  map[string]string
}

func (v *valClient) Get(u string) (*http.Response, error) {
	pu, err := url.Parse(u)
	if err != nil {
		return nil, err
	}
	v.mu.Lock()
	body, ok := v.m[pu.Path]
	v.mu.Unlock()
	if !ok {
		return &http.Response{StatusCode: 404, Body: io.NopCloser(strings.NewReader(""))}, nil
	}
	return &http.Response{StatusCode: 200, Body: io.NopCloser(strings.NewReader(body))}, nil
}
func (v *valClient) LookupTxt(string) ([]string, error) { return nil, errors.New("no dns") }
func (v *valClient) TLSDial(string, string, *tls.Config) (*tls.Conn, error) {
	return nil, errors.New("no tls")
}

type mergedCtx struct {
	context.Context
	base context.Context
}

func (m mergedCtx) Value(k any) any {
	if v := m.Context.Value(k); v != nil {
		return v
	}
	return m.base.Value(k)
}

func runACME(k *Case) result {
	e, err := newEnv(k)
	if err != nil {
		return result{out: "setup-failed"}
	}
	defer e.Close()
	fail := func(what string, err error) result {
		if os.Getenv("VERIF_DEBUG") != "" {
			fmt.Fprintln(os.Stderr, "acme setup:", what, err)
		}
		return result{out: "setup-failed"}
	}
	adb, err := acmenosql.New(e.fdb)
	if err != nil {
		return fail("db", err)
	}
	vc := &valClient{m: map[string]string{}}
	base := authority.NewContext(context.Background(), e.ca.Auth)
	base = acme.NewContext(base, adb, vc, acme.NewLinker(acmeenv.Host, "acme"), nil)
	mux := chi.NewRouter()
	mux.Route("/acme", func(r chi.Router) { acmeAPI.Route(r) })
	env := &acmeenv.Env{Auth: e.ca.Auth, NoSQL: e.fdb, RealDB: adb, DB: adb,
		Router: http.HandlerFunc(func(w http.ResponseWriter, r *http.Request) {
			mux.ServeHTTP(w, r.WithContext(mergedCtx{r.Context(), base}))
		})}

	names := []string{"acme.verif.test"}
	if strings.HasPrefix(k.Var, "ids2") {
		names = append(names, "second.verif.test")
	}
	acct, err := env.NewAccount("acme", acmeenv.NewKey("es256", 0))
	if err != nil {
		return fail("account", err)
	}
	// new-order for all names, then every authorization's http-01 challenge is validated
	var idl []map[string]string
	for _, n := range names {
		idl = append(idl, map[string]string{"type": "dns", "value": n})
	}
	pl, _ := json.Marshal(map[string]any{"identifiers": idl})
	rec0 := env.Post(acct, acmeenv.Path("acme", "new-order"), pl)
	if rec0.Code != 201 {
		return fail("new-order", fmt.Errorf("%d %s", rec0.Code, rec0.Body.String()))
	}
	orderID := acmeenv.LastPathElem(rec0.Header().Get("Location"))
	var no struct {
		Authorizations []string `json:"authorizations"`
	}
	json.Unmarshal(rec0.Body.Bytes(), &no)
	if len(no.Authorizations) != len(names) {
		return fail("new-order", fmt.Errorf("%d authorizations", len(no.Authorizations)))
	}
	for _, au := range no.Authorizations {
		azID := acmeenv.LastPathElem(au)
		ra := env.Post(acct, acmeenv.Path("acme", "authz", azID), nil)
		var az struct {
			Challenges []struct{ Type, URL, Token string } `json:"challenges"`
		}
		json.Unmarshal(ra.Body.Bytes(), &az)
		done := false
		for _, ch := range az.Challenges {
			if ch.Type != "http-01" {
				continue
			}
			vc.mu.Lock()
			vc.m["/.well-known/acme-challenge/"+ch.Token] = ch.Token + "." + acct.Key.Thumb()
			vc.mu.Unlock()
			if rc := env.Post(acct, acmeenv.Path("acme", "challenge", azID, acmeenv.LastPathElem(ch.URL)), []byte("{}")); rc.Code != 200 {
				return fail("challenge", fmt.Errorf("%d %s", rc.Code, rc.Body.String()))
			}
			done = true
		}
		if !done {
			return fail("authz", fmt.Errorf("no http-01 challenge in %s", ra.Body.String()))
		}
	}
	if !strings.HasSuffix(k.Var, "pending") { // the client polls the order: it becomes ready in the database
		if rec := env.Post(acct, acmeenv.Path("acme", "order", orderID), nil); rec.Code != 200 {
			return fail("order poll", fmt.Errorf("%d %s", rec.Code, rec.Body.String()))
		}
	}
	csrNames := names
	if k.Chk >= 0 { // CSR names differ from the order's identifiers
		csrNames = []string{"other.verif.test"}
	}
	csr, _, err := fixture.CSR(csrNames[0], csrNames)
	if err != nil {
		return fail("csr", err)
	}
	cpl, _ := json.Marshal(map[string]string{"csr": base64.RawURLEncoding.EncodeToString(csr.Raw)})
	path := acmeenv.Path("acme", "order", orderID, "finalize")
	body := env.KidBody(acct, "acme", path, cpl) // fetches its nonce before the recording starts

	count := func() map[string]int {
		m := e.snapshot()
		m["acme_certs"] = e.fdb.count("acme_certs")
		return m
	}
	before := count()
	e.rec.start(k.Faults)
	rec := env.Do("POST", path, body)
	ev := e.rec.stop()
	ids := e.rec.endpoints()
	after := count()

	cl, got, valid := "err", "none", 0
	var hs []handed
	var o struct {
		Status      string `json:"status"`
		Certificate string `json:"certificate"`
	}
	if rec.Code == 200 && json.Unmarshal(rec.Body.Bytes(), &o) == nil && o.Status == "valid" && o.Certificate != "" {
		cl = "ok"
		// the certificate the response points to, fetched as the client would
		if r2 := env.Post(acct, acmeenv.Path("acme", "certificate", acmeenv.LastPathElem(o.Certificate)), nil); r2.Code == 200 {
			if h, ok := x509Handed(r2.Body.String()); ok {
				got = "cert"
				hs = append(hs, h)
			}
		}
	} else if rec.Code == 200 {
		cl = "ok" // a success response that does not hand out a certificate
	}
	if o2, err := adb.GetOrder(context.Background(), orderID); err == nil && o2.Status == acme.StatusValid && o2.CertificateID != "" {
		valid = 1
	}
	if os.Getenv("VERIF_DEBUG") != "" {
		fmt.Fprintf(os.Stderr, "%s -> %d %s\n", k.render()[:70], rec.Code, acmeenv.Class(rec))
	}
	d := func(t string) int { return after[t] - before[t] }
	nrec := e.recorded(hs)
	fc := failClosed(cl, got, ev, ids, len(hs), nrec, 1, 0, "na", false)
	if cl == "ok" && standingDenial(k) {
		fc = "BROKEN"
	}
	if cl == "ok" && (d("acme_certs") == 0 || got != "cert") {
		fc = "BROKEN"
	}
	out := fmt.Sprintf("%s got=%s tok=0 stored=%d data=%d acme=%d valid=%d handed=%d recorded=%d fc=%s trace=%s", cl, got,
		d("x509_certs"), d("x509_certs_data"), d("acme_certs"), valid, len(hs), nrec, fc, c.List(ev))
	return result{out: out, trace: ev}
}
