package main

// ACME finalize: Order.Finalize of /repo/acme on a ready order, with the ACME nosql database
// opened on the same fault-injecting nosql.DB the authority uses.

import (
	"context"
	"fmt"
	"os"
	"time"

	"github.com/smallstep/certificates/acme"
	acmenosql "github.com/smallstep/certificates/acme/db/nosql"
	"github.com/smallstep/certificates/authority"
	"github.com/smallstep/certificates/authority/provisioner"
	c "verif/harness/common"
	"verif/harness/fixture"
)

func runACME(k *Case) result {
	e, err := newEnv(k)
	if err != nil {
		return result{out: "setup-failed"}
	}
	defer e.Close()
	fail := func(what string, err error) result {
		if os.Getenv("VERIF_DEBUG") != "" {
			fmt.Fprintln(os.Stderr, "acme setup:", what, err)
		}
		return result{out: "setup-failed"}
	}
	adb, err := acmenosql.New(e.fdb)
	if err != nil {
		return fail("db", err)
	}
	pi, err := e.ca.Auth.LoadProvisionerByName("acme")
	if err != nil {
		return fail("provisioner", err)
	}
	prov, ok := pi.(acme.Provisioner)
	if !ok {
		return fail("provisioner type", nil)
	}
	ctx := authority.NewContext(context.Background(), e.ca.Auth)
	ctx = provisioner.NewContextWithMethod(ctx, provisioner.SignMethod)
	const name = "acme.verif.test"
	acc := &acme.Account{Status: acme.StatusValid, ProvisionerID: prov.GetID(), ProvisionerName: prov.GetName(), Key: e.ca.JWK}
	pub := e.ca.JWK.Public()
	acc.Key = &pub
	if err := adb.CreateAccount(ctx, acc); err != nil {
		return fail("account", err)
	}
	az := &acme.Authorization{AccountID: acc.ID, Identifier: acme.Identifier{Type: acme.DNS, Value: name},
		Status: acme.StatusValid, ExpiresAt: time.Now().Add(time.Hour), Token: "tok"}
	if err := adb.CreateAuthorization(ctx, az); err != nil {
		return fail("authz", err)
	}
	o := &acme.Order{AccountID: acc.ID, ProvisionerID: prov.GetID(), Status: acme.StatusReady, ExpiresAt: time.Now().Add(time.Hour),
		Identifiers: []acme.Identifier{{Type: acme.DNS, Value: name}}, AuthorizationIDs: []string{az.ID}}
	if err := adb.CreateOrder(ctx, o); err != nil {
		return fail("order", err)
	}
	sans := []string{name}
	if k.Chk == 0 { // CSR names differ from the order's identifiers
		sans = []string{"other.verif.test"}
	}
	csr, _, err := fixture.CSR(name, sans)
	if err != nil {
		return fail("csr", err)
	}
	count := func() map[string]int {
		m := e.snapshot()
		m["acme_certs"] = e.fdb.count("acme_certs")
		return m
	}
	before := count()
	e.rec.start(k.Faults)
	ferr := o.Finalize(ctx, adb, csr, e.ca.Auth, prov)
	ev := e.rec.stop()
	after := count()
	// what a client polling the order now sees
	valid, got := 0, "none"
	if o2, err := adb.GetOrder(ctx, o.ID); err == nil && o2.Status == acme.StatusValid && o2.CertificateID != "" {
		valid = 1
		if crt, err := adb.GetCertificate(ctx, o2.CertificateID); err == nil && crt.Leaf != nil && ferr == nil {
			got = "cert"
		}
	}
	cl := "err"
	if ferr == nil {
		cl = "ok"
	} else if os.Getenv("VERIF_DEBUG") != "" {
		fmt.Fprintln(os.Stderr, "finalize:", ferr)
	}
	d := func(t string) int { return after[t] - before[t] }
	fc := failClosed(cl, got, ev, d("x509_certs"), 1, 0, "na", false)
	if cl == "ok" && d("acme_certs") == 0 {
		fc = "BROKEN"
	}
	out := fmt.Sprintf("%s got=%s tok=0 stored=%d data=%d acme=%d valid=%d fc=%s trace=%s", cl, got,
		d("x509_certs"), d("x509_certs_data"), d("acme_certs"), valid, fc, c.List(ev))
	return result{out: out, trace: ev}
}
