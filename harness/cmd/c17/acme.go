package main

func runACME(k *Case) result { return result{out: "todo"} }
