package main

// SCEP enrolment: a PKCSReq built with the SCEP library's own client code, sent through the
// real scep/api routes (mounted as ca.CA.Init mounts them) of the fixture authority.

import (
	"bytes"
	"context"
	"crypto"
	"crypto/ecdsa"
	"crypto/elliptic"
	"crypto/rand"
	"crypto/x509"
	"crypto/x509/pkix"
	"encoding/asn1"
	"fmt"
	"math/big"
	"net/http"
	"net/http/httptest"
	"os"
	"time"

	"github.com/go-chi/chi/v5"
	"github.com/smallstep/pkcs7"
	smallscep "github.com/smallstep/scep"
	scepx509 "github.com/smallstep/scep/x509util"

	"github.com/smallstep/certificates/authority"
	"github.com/smallstep/certificates/db"
	"github.com/smallstep/certificates/scep"
	scepAPI "github.com/smallstep/certificates/scep/api"
	c "verif/harness/common"
)

const scepSecret = "s3cret"

var oidPKIStatus = asn1.ObjectIdentifier{2, 16, 840, 1, 113733, 1, 9, 3}

func selfSigned(cn string, k crypto.Signer) (*x509.Certificate, error) {
	tpl := &x509.Certificate{SerialNumber: big.NewInt(1), Subject: pkix.Name{CommonName: cn},
		NotBefore: time.Now().Add(-time.Hour), NotAfter: time.Now().Add(time.Hour),
		KeyUsage: x509.KeyUsageDigitalSignature | x509.KeyUsageKeyEncipherment}
	der, err := x509.CreateCertificate(rand.Reader, tpl, tpl, k.Public(), k)
	if err != nil {
		return nil, err
	}
	return x509.ParseCertificate(der)
}

func runSCEP(k *Case) result {
	e, err := newEnv(k)
	if err != nil {
		return result{out: "setup-failed"}
	}
	defer e.Close()
	fail := func(what string, err error) result {
		if os.Getenv("VERIF_DEBUG") != "" {
			fmt.Fprintln(os.Stderr, "scep setup:", what, err)
		}
		return result{out: "setup-failed"}
	}
	scepAuth := e.ca.Auth.GetSCEP()
	if scepAuth == nil {
		return fail("no SCEP authority", nil)
	}
	mux := chi.NewRouter()
	mux.Route("/scep", func(r chi.Router) { scepAPI.Route(r) })
	base := authority.NewContext(context.Background(), e.ca.Auth)
	base = db.NewContext(base, e.ca.Auth.GetDatabase())
	base = scep.NewContext(base, scepAuth)

	// requester: an RSA key (the shared one; it is the client's key here, nothing depends on
	// it being different from the CA's), or — for the "reply cannot be encrypted" case — EC
	const name = "device.verif.test"
	var key crypto.Signer = sharedRSA()
	encIdx := 5
	if k.CH > 0 {
		encIdx = 4 // no static-challenge decision in front
	}
	if k.Chk == encIdx {
		key, err = ecdsa.GenerateKey(elliptic.P256(), rand.Reader)
		if err != nil {
			return fail("ec key", err)
		}
	}
	challenge := scepSecret
	if k.Chk == 1 && k.CH == 0 {
		challenge = "wrong"
	}
	der, err := scepx509.CreateCertificateRequest(rand.Reader, &scepx509.CertificateRequest{
		CertificateRequest: x509.CertificateRequest{Subject: pkix.Name{CommonName: name}, DNSNames: []string{name}},
		ChallengePassword:  challenge}, key)
	if err != nil {
		return fail("csr", err)
	}
	csr, err := x509.ParseCertificateRequest(der)
	if err != nil {
		return fail("csr parse", err)
	}
	sc, err := selfSigned(name, key)
	if err != nil {
		return fail("self-signed", err)
	}
	cacert := e.extra["cacert"].(*x509.Certificate)
	mt := smallscep.PKCSReq
	switch k.Var {
	case "renewal":
		mt = smallscep.RenewalReq
	case "update":
		mt = smallscep.UpdateReq
	}
	msg, err := smallscep.NewCSRRequest(csr, &smallscep.PKIMessage{MessageType: mt,
		Recipients: []*x509.Certificate{cacert}, SignerCert: sc, SignerKey: key})
	if err != nil {
		return fail("pkcsreq", err)
	}
	req := httptest.NewRequest(http.MethodPost, "/scep/scep?operation=PKIOperation", bytes.NewReader(msg.Raw))
	req = req.WithContext(base)

	before := e.snapshot()
	e.rec.start(k.Faults)
	rec := httptest.NewRecorder()
	mux.ServeHTTP(rec, req)
	ev := e.rec.stop()
	after := e.snapshot()

	// the reply as a client reads it
	cl, got := "err", "none"
	var hs []handed
	why := fmt.Sprintf("http %d", rec.Code)
	if rec.Code == http.StatusOK {
		p7, err := pkcs7.Parse(rec.Body.Bytes())
		if err != nil {
			why = "reply does not parse: " + err.Error()
		} else if verr := p7.Verify(); verr != nil {
			why = "reply signature: " + verr.Error()
		}
		if err == nil && p7.Verify() == nil {
			why = "status not SUCCESS"
			var st smallscep.PKIStatus
			if p7.UnmarshalSignedAttribute(oidPKIStatus, &st) == nil && st == smallscep.SUCCESS {
				cl = "ok"
			}
			// whatever the status says: does the reply carry a certificate the requester can read?
			if len(p7.Content) > 0 {
				if inner, err := pkcs7.Parse(p7.Content); err == nil {
					if dec, ok := key.(crypto.Decrypter); ok {
						if content, err := inner.Decrypt(sc, dec); err == nil {
							if certs, err := smallscep.CACerts(content); err == nil && len(certs) > 0 {
								got = "cert"
								hs = append(hs, handed{"x509_certs", certs[0].SerialNumber.String()})
							}
						}
					}
				}
			}
		}
	}
	if os.Getenv("VERIF_DEBUG") != "" {
		fmt.Fprintf(os.Stderr, "%s -> %d %s %s (%s)\n", k.render()[:70], rec.Code, cl, got, why)
	}
	d := func(t string) int { return after[t] - before[t] }
	stored := d("x509_certs")
	nrec := e.recorded(hs)
	fc := failClosed(cl, got, ev, e.rec.endpoints(), len(hs), nrec, 0, 0, "na", false)
	if cl == "ok" && standingDenial(k) {
		fc = "BROKEN"
	}
	if cl == "ok" && k.CH > 0 && k.Var != "badhook" { // challenge webhooks are configured: one of them must have allowed
		allowed := false
		for _, x := range ev {
			allowed = allowed || x == "challenge:ok"
		}
		if !allowed {
			fc = "BROKEN"
		}
	}
	out := fmt.Sprintf("%s got=%s tok=0 stored=%d data=%d rev=0 reuse=na handed=%d recorded=%d fc=%s trace=%s", cl, got, stored,
		d("x509_certs_data"), len(hs), nrec, fc, c.List(ev))
	return result{out: out, trace: ev}
}
