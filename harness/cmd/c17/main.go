// Harness for C17 (issuance fails closed when a webhook or the database fails).
//
// For every operation (sign, renew, rekey, revoke, SSH sign / renew / rekey / revoke, ACME
// finalize) the harness runs the real HTTP handler against the shared fixture CA with a
// fault layer under it (fault.go), first fault-free to learn the sequence of external calls
// the request makes, then once per (position, failure kind) — exhaustively — plus pairs of
// positions. Each case line is `<model input>\t<implementation output>`:
//
//	run op=sign e=2 a=1 chk=- faults=3:deny sub=deny case=x…   \t
//	err got=none tok=1 stored=0 data=0 rev=0 reuse=err trace=useToken:ok,enrich:ok,enrich:ok,authorize:deny
//
// The Lean driver predicts the whole right-hand side from the model's step list for the
// operation. `src fn=…` lines (src.go) re-derive the call order of the anchored functions
// from the Go source and are compared with the same step lists.
package main

import (
	"encoding/hex"
	"encoding/json"
	"flag"
	"fmt"
	"io"
	"log"
	"os"
	"os/exec"
	"runtime/debug"
	"strconv"
	"strings"
	"sync"

	c "verif/harness/common"
)

type Case struct {
	Op     string  // sign renew rekey revoke revokemtls sshsign sshrenew sshrekey sshrevoke acme | src
	E, A   int     // enriching / authorizing webhooks configured on the provisioner
	CH, N  int     `json:",omitempty"` // SCEP challenge / notifying webhooks
	CRL    bool    `json:",omitempty"` // crl.enabled + generateOnRevoke
	NoDB   bool    `json:",omitempty"` // the authority runs without a database (db.SimpleDB)
	CT     string  `json:",omitempty"` // certType of the enriching / authorizing webhooks: "" (ALL) | unset | typed | other
	Deny   bool    `json:",omitempty"` // every enriching / authorizing webhook answers allow=false whenever asked
	DenyK  string  `json:",omitempty"` // … only the webhooks of this kind do: "" (both) | enrich | authorize
	Tok    string  `json:",omitempty"` // shape of the token: "" | nojti (no jti claim)
	Names  string  `json:",omitempty"` // names of the webhooks: "" (all different) | dup (all the same)
	Var    string  `json:",omitempty"` // variant of the request: scep renewal | update; acme ids2 | pending | ids2pending
	Chk    int     // index of the in-process check made to fail by the request's content, -1 = none
	Faults []Fault `json:",omitempty"`
	Fn     string  `json:",omitempty"` // src lines: function name
}

func (k *Case) render() string {
	js, _ := json.Marshal(k)
	cs := " case=x" + hex.EncodeToString(js)
	if k.Op == "src" {
		return "src fn=" + k.Fn + cs
	}
	chk := "-"
	if k.Chk >= 0 {
		chk = strconv.Itoa(k.Chk)
	}
	var fs, subs []string
	for _, f := range k.Faults {
		fs = append(fs, fmt.Sprintf("%d:%s", f.Pos, f.Kind))
		if f.Sub != "" {
			subs = append(subs, f.Sub)
		}
	}
	v := k.Var
	if v == "" {
		v = "-"
	}
	ct := k.CT
	if ct == "" {
		ct = "all"
	}
	tokv, names := k.Tok, k.Names
	if tokv == "" {
		tokv = "-"
	}
	if names == "" {
		names = "-"
	}
	return fmt.Sprintf("run op=%s var=%s tok=%s names=%s ct=%s whdeny=%s e=%d a=%d ch=%d n=%d crl=%s db=%s chk=%s faults=%s sub=%s", k.Op, v, tokv, names, ct, denyField(k), k.E, k.A, k.CH, k.N, c.B(k.CRL),
		c.B(!k.NoDB), chk, c.List(fs), c.List(subs)) + cs
}

// denyField renders the standing denial: 0 | 1 (both kinds) | enrich | authorize.
func denyField(k *Case) string {
	if !k.Deny {
		return "0"
	}
	if k.DenyK != "" {
		return k.DenyK
	}
	return "1"
}

func hasToken(op string) bool {
	switch op {
	case "renew", "rekey", "revokemtls", "sshsignk8s": // no token, or a token that is reusable by design
		return false
	}
	return true
}

// failClosed evaluates the property itself on what the implementation did, independently of
// the model: "BROKEN" when the client got a success although a call the request depends on
// failed decisively, when a certificate / acknowledgement was handed out without the record
// being written, or when a recorded token was accepted again.
//
// A failure is decisive unless it is a read whose error the code may ignore, or a webhook
// attempt with a retryable failure that is followed by a further attempt at the same kind of
// webhook (the later attempt decides).
// standingDenial: the case configures enriching / authorizing webhooks that apply to the request
// (certType ALL, unset or the issued type) and answer allow=false whenever asked.
func standingDenial(k *Case) bool {
	if !k.Deny || k.E+k.A == 0 || k.Var == "badhook" {
		return false
	}
	if (k.DenyK == "enrich" && k.E == 0) || (k.DenyK == "authorize" && k.A == 0) {
		return false
	}
	// an unknown spelling of kind or certType makes the provisioner refuse everything (or, for a
	// certType that went through the admin database, reads as ALL): a success is never right
	if k.CT == "other" { // written for the other certificate type: deliberately not consulted
		return false
	}
	return true
}

func failClosed(cl, got string, trace, ids []string, handedN, recordedN, rev, tok int, reuse string, noDB bool) string {
	if cl == "ok" {
		asked, allowed := false, false
		for _, ev := range trace {
			if stepOf(ev) == "challenge" {
				asked = true
				allowed = allowed || ev == "challenge:ok"
			}
		}
		if asked && !allowed { // SCEP: no challenge webhook accepted the challenge
			return "BROKEN"
		}
		for i, ev := range trace {
			st, o := stepOf(ev), ev[strings.LastIndex(ev, ":")+1:]
			if o == "ok" || st == "readCert" || st == "readData" || st == "notify" {
				continue
			}
			if st == "challenge" && o == "deny" { // one SCEP challenge webhook saying no; another must allow
				continue
			}
			// a retryable failure is repaired only by a further attempt at the very same endpoint
			if (st == "enrich" || st == "authorize" || st == "challenge") && o == "error" && i+1 < len(trace) &&
				i+1 < len(ids) && ids[i] != "" && ids[i+1] == ids[i] {
				continue
			}
			return "BROKEN"
		}
		if recordedN < handedN && !noDB { // a certificate in the response is not in the database
			return "BROKEN"
		}
		if got == "cert" && handedN == 0 {
			return "BROKEN"
		}
		if got == "ack" && rev == 0 {
			return "BROKEN"
		}
	} else if got != "none" {
		return "BROKEN"
	}
	if tok > 0 && strings.Contains(reuse, "ok") {
		return "BROKEN"
	}
	return "ok"
}

type result struct {
	out   string
	trace []string
}

func runCase(k *Case) (res result) {
	defer func() {
		if r := recover(); r != nil {
			if os.Getenv("VERIF_DEBUG") != "" {
				fmt.Fprintf(os.Stderr, "panic: %v\n%s\n", r, debug.Stack())
			}
			res = result{out: "crash"}
		}
	}()
	if k.Op == "src" {
		return result{out: srcOrder(k.Fn)}
	}
	if k.Op == "acme" {
		return runACME(k)
	}
	if k.Op == "scep" {
		return runSCEP(k)
	}
	e, err := newEnv(k)
	if err != nil {
		return result{out: "setup-failed"}
	}
	defer e.Close()
	q, err := e.prepare(k)
	if err != nil {
		if os.Getenv("VERIF_DEBUG") != "" {
			fmt.Fprintln(os.Stderr, "prepare:", err)
		}
		return result{out: "setup-failed"}
	}
	before := e.snapshot()
	e.rec.start(k.Faults)
	r := e.do(q)
	ev := e.rec.stop()
	ids := e.rec.endpoints()
	after := e.snapshot()
	hs := r.certs()
	nrec := e.recorded(hs)
	// the identical request again: (1) with the same failures still present, (2) with the
	// failures gone, (3) after a restart of the authority on the same database (the token is
	// issued-at 45 s ahead, so only the token record — not the "issued before the CA started"
	// rule — can refuse it then)
	reuse := "na"
	if hasToken(k.Op) {
		cls := func(r httpResp) string {
			if r.status >= 200 && r.status <= 299 {
				return "ok"
			}
			return "err"
		}
		e.rec.start(k.Faults)
		again := cls(e.do(q))
		e.rec.stop()
		plain := cls(e.do(q))
		restart := "fail"
		if e.real { // the CA built from a configuration on disk is reloaded (CA.Reload, what SIGHUP does)
			if err := e.reload(); err == nil {
				restart = cls(e.do(q))
			} else if os.Getenv("VERIF_DEBUG") != "" {
				fmt.Fprintln(os.Stderr, "reload:", err)
			}
		} else if ca2, err := e.ca.Restart(); err == nil {
			e.ca = ca2
			restart = cls(e.do(q))
		}
		reuse = again + "/" + plain + "/" + restart
	}
	if os.Getenv("VERIF_DEBUG") != "" {
		fmt.Fprintf(os.Stderr, "%s -> %d %v\n", k.render()[:60], r.status, r.body["message"])
	}
	cl := "err"
	if r.status >= 200 && r.status <= 299 {
		cl = "ok"
	}
	d := func(t string) int { return after[t] - before[t] }
	stored, rev := d("x509_certs")+d("ssh_certs"), d("revoked_x509_certs")+d("revoked_ssh_certs")
	fc := failClosed(cl, r.got(), ev, ids, len(hs), nrec, rev, d("used_ott"), reuse, k.NoDB)
	if cl == "ok" && standingDenial(k) { // a webhook that applies to the request says no, and the request succeeded
		fc = "BROKEN"
	}
	// the token record is the first external call of a token operation (token_recorded_first): a
	// request that got as far as any other call without it has a token nobody recorded
	if hasToken(k.Op) && !k.NoDB && len(ev) > 0 && stepOf(ev[0]) != "useToken" {
		fc = "BROKEN"
	}
	if e.real { // CA.Reload hands the open database (also the in-memory one) over: what was refused before is refused after
		if f := strings.Split(reuse, "/"); len(f) == 3 && f[1] == "err" && f[2] == "ok" {
			fc = "BROKEN"
		}
	}
	if e.linked != nil && cl == "ok" { // a linked CA is configured: the records must have gone through it
		if int(e.linked.stores.Load()) < len(hs) || (r.got() == "ack" && e.linked.revokes.Load() == 0) {
			fc = "BROKEN"
		}
	}
	out := fmt.Sprintf("%s got=%s tok=%d stored=%d data=%d rev=%d reuse=%s handed=%d recorded=%d fc=%s trace=%s", cl, r.got(),
		d("used_ott"), stored, d("x509_certs_data"), rev, reuse, len(hs), nrec, fc, c.List(ev))
	return result{out: out, trace: ev}
}

// faultKinds lists the failure kinds that can be realised at a step of the given kind.
func faultKinds(step string) []Fault {
	switch step {
	case "acmeNonceUse":
		return []Fault{{Kind: "error"}, {Kind: "timeout"}}
	case "useToken", "storeRev", "acmeStoreCert", "acmeIndex", "acmeUpdateOrder", "acmeNonceNew", "acmeAuthzUpdate", "acmeOrderReady":
		return []Fault{{Kind: "error"}, {Kind: "timeout"}, {Kind: "deny"}}
	case "isRevoked":
		return []Fault{{Kind: "error"}, {Kind: "timeout"}, {Kind: "deny"}, {Kind: "malformed"}}
	case "readCert", "readData":
		return []Fault{{Kind: "error"}, {Kind: "malformed"}}
	case "acmeRead":
		return []Fault{{Kind: "error"}, {Kind: "timeout"}, {Kind: "malformed"}}
	case "store":
		return []Fault{{Kind: "error"}, {Kind: "timeout"}}
	case "casSign", "casRevoke", "casCRL", "crlStore":
		return []Fault{{Kind: "error"}, {Kind: "timeout"}}
	case "crlRead", "crlList":
		return []Fault{{Kind: "error"}, {Kind: "malformed"}}
	case "enrich", "authorize", "challenge", "notify":
		return []Fault{{Kind: "error", Sub: "5xx"}, {Kind: "error", Sub: "refused"}, {Kind: "error", Sub: "eof"}, {Kind: "error", Sub: "tls"},
			{Kind: "deny", Sub: "deny"}, {Kind: "deny", Sub: "null"}, {Kind: "deny", Sub: "emptyobj"},
			{Kind: "malformed", Sub: "4xx"}, {Kind: "malformed", Sub: "garbage"}, {Kind: "malformed", Sub: "empty"},
			{Kind: "malformed", Sub: "truncated"}, {Kind: "malformed", Sub: "wrongtype"}, {Kind: "timeout"}}
	}
	return []Fault{{Kind: "error"}}
}

func stepOf(ev string) string {
	if i := strings.LastIndex(ev, ":"); i >= 0 {
		return ev[:i]
	}
	return ev
}

type scenario struct {
	Op       string
	E, A     int
	CH, N    int
	CRL      bool
	NoDB     bool
	Var      string
	CT       string
	Tok      string
	Names    string
	Deny     bool
	DenyK    string
	Chks     []int // indices of the in-process decisions the request content can make fail
	Thorough bool  // only in the thorough tier
}

func (s scenario) newCase(chk int, fs ...Fault) *Case {
	return &Case{Op: s.Op, E: s.E, A: s.A, CH: s.CH, N: s.N, CRL: s.CRL, NoDB: s.NoDB, Var: s.Var, CT: s.CT, Tok: s.Tok, Names: s.Names, Deny: s.Deny, DenyK: s.DenyK, Chk: chk, Faults: fs}
}

var scenarios = []scenario{
	{Op: "sign", Chks: []int{0, 1, 2}}, {Op: "sign", E: 2, A: 1, Chks: []int{0, 1, 2}},
	{Op: "renew"}, {Op: "rekey"},
	{Op: "revoke", Chks: []int{0}}, {Op: "revokemtls"},
	// crl.enabled + generateOnRevoke: the CRL is regenerated after the revocation is recorded
	{Op: "revoke", CRL: true}, {Op: "revokemtls", CRL: true},
	// sshsign: 0 token, 1 options, (2 policy), (3 signing), 4 certificate validators
	{Op: "sshsign", Chks: []int{0, 1, 4}}, {Op: "sshsign", E: 1, A: 2, Chks: []int{0, 1, 4}},
	{Op: "sshrenew", Chks: []int{0}}, {Op: "sshrekey", Chks: []int{0}}, {Op: "sshrevoke", Chks: []int{0}},
	{Op: "sshrevoke", CRL: true},
	// SSH renew / rekey over mTLS: the X.509 identity certificate is renewed in the same request
	{Op: "sshrenew", Var: "identity"}, {Op: "sshrekey", Var: "identity"},
	// the SSH sign handler issuing three certificates: user, add-user, X.509 identity
	{Op: "sshsignfull"}, {Op: "sshsignfull", E: 1, A: 1},
	// acme: 0 JWS shape, 1 signature / payload, 2 order ownership, 3 CSR vs identifiers
	{Op: "acme", Chks: []int{3}}, {Op: "acme", E: 1, A: 1, Chks: []int{3}},
	// SCEP: 0 parse+decrypt, (1 static challenge when ch=0), then AuthorizeSign, request
	// validators, template/policy, encryption of the reply (fails for an EC requester), signing
	{Op: "scep", Chks: []int{1, 5}}, {Op: "scep", CH: 2, N: 1, Chks: []int{4}}, {Op: "scep", E: 1, A: 1, CH: 1, N: 2},
	// webhook definitions that cannot be used (secret not base64): refused before any call
	{Op: "sign", Var: "badhook", E: 1, A: 1}, {Op: "sign", Var: "badhook", A: 1}, {Op: "sshsign", Var: "badhook", E: 1},
	{Op: "scep", Var: "badhook", CH: 1, N: 1}, {Op: "scep", Var: "badhook", N: 1}, {Op: "acme", Var: "badhook", A: 1},
	// certType of the webhooks: not written at all (means all), the issued type, the other type (not consulted)
	{Op: "sign", CT: "unset", E: 1, A: 1}, {Op: "sshsign", CT: "unset", E: 1, A: 1}, {Op: "acme", CT: "unset", A: 1},
	{Op: "scep", CT: "unset", E: 1, A: 1}, {Op: "sign", CT: "typed", E: 1, A: 1}, {Op: "sshsign", CT: "typed", A: 1},
	{Op: "sign", CT: "other", E: 1, A: 1}, {Op: "sshsign", CT: "other", E: 1, A: 1},
	// a standing denial: the provisioner's enriching / authorizing webhooks say no whenever they are asked
	{Op: "sign", Deny: true, E: 1, A: 1}, {Op: "sign", Deny: true, CT: "unset", E: 1}, {Op: "sign", Deny: true, CT: "unset", A: 1},
	{Op: "sign", Deny: true, CT: "typed", A: 1}, {Op: "sign", Deny: true, CT: "other", E: 1, A: 1},
	{Op: "sshsign", Deny: true, CT: "unset", A: 1}, {Op: "sshsign", Deny: true, CT: "typed", E: 1}, {Op: "sshsign", Deny: true, CT: "other", E: 1, A: 1},
	{Op: "acme", Deny: true, CT: "unset", A: 1}, {Op: "scep", Deny: true, CT: "unset", A: 1}, {Op: "sshsignfull", Deny: true, CT: "unset", A: 1},
	// spellings the code does not know: certType "x509" / "ssh", kind "authorizing"
	{Op: "sign", CT: "lower", E: 1, A: 1}, {Op: "sign", Deny: true, CT: "lower", A: 1}, {Op: "sshsign", Deny: true, CT: "lower", A: 1},
	{Op: "sign", Deny: true, CT: "kindlower", E: 1, A: 1}, {Op: "sign", Deny: true, CT: "kindlower", Var: "admin", A: 1},
	// enableAdmin: provisioners (and their webhooks) go ca.json -> admin database (migration on the first start) -> back
	{Op: "sign", Var: "admin", E: 1, A: 1}, {Op: "sign", Var: "admin", Deny: true, A: 1}, {Op: "sign", Var: "admin", Deny: true, CT: "unset", E: 1},
	{Op: "sign", Var: "admin", Deny: true, CT: "typed", A: 1}, {Op: "sign", Var: "admin", Deny: true, CT: "other", A: 1},
	{Op: "sign", Var: "admin", Deny: true, CT: "lower", A: 1}, {Op: "sshsign", Var: "admin", Deny: true, CT: "lower", E: 1},
	{Op: "sign", Var: "adminreboot", E: 1, A: 1}, {Op: "sign", Var: "adminreboot", Deny: true, CT: "unset", A: 1},
	{Op: "sign", Var: "adminreload", Deny: true, A: 1}, {Op: "sshsign", Var: "adminreboot", Deny: true, E: 1},
	{Op: "acme", Var: "adminreboot", Deny: true, A: 1}, {Op: "scep", Var: "adminreboot", CH: 1, N: 1}, {Op: "scep", Var: "admin", Deny: true, A: 1, CH: 1},
	{Op: "sshrenew", Var: "adminreboot"}, {Op: "renew", Var: "adminreboot"}, {Op: "revoke", Var: "adminreload"},
	// how the webhook client authenticates: bearer token, basic auth, its own client without TLS client certificate
	{Op: "sign", Var: "bearer", E: 1, A: 1}, {Op: "sshsign", Var: "basic", E: 1, A: 1}, {Op: "sign", Var: "notlsauth", E: 1, A: 1},
	{Op: "sign", Var: "notlsauth", Deny: true, A: 1}, {Op: "scep", Var: "bearer", A: 1, CH: 1},
	// … and the same after the provisioner went through the admin database (every webhook field converted both ways)
	{Op: "sign", Var: "adminrebootbearer", E: 1, A: 1}, {Op: "sign", Var: "adminrebootbasic", A: 1}, {Op: "sign", Var: "adminrebootnotlsauth", Deny: true, A: 1},
	// a provisioner type with reusable tokens (Kubernetes service accounts): SSH sign, its webhooks
	{Op: "sshsignk8s", Chks: []int{4}}, {Op: "sshsignk8s", E: 1, A: 1}, {Op: "sshsignk8s", Deny: true, CT: "typed", A: 1}, {Op: "sshsignk8s", Deny: true, CT: "typed", E: 1},
	{Op: "sshsignk8s", Deny: true, CT: "other", E: 1, A: 1},
	// a less used provisioner type (X5C): same signing path, its own webhooks
	{Op: "signx5c", Chks: []int{1}}, {Op: "signx5c", E: 1, A: 1}, {Op: "signx5c", Deny: true, CT: "unset", A: 1},
	// through the handler ca.New / Init assemble from a configuration on disk (routers, middleware, base context)
	{Op: "sign", Var: "real", Chks: []int{0, 2}}, {Op: "renew", Var: "real"}, {Op: "rekey", Var: "real"}, {Op: "revoke", Var: "real"},
	{Op: "revokemtls", Var: "real"}, {Op: "sshsign", Var: "real"}, {Op: "sshsignfull", Var: "real"}, {Op: "sshrenew", Var: "real"},
	{Op: "sshrevoke", Var: "real"}, {Op: "revoke", Var: "real", CRL: true},
	// … and without a "db" section: the used tokens live in memory and must survive CA.Reload
	{Op: "sign", Var: "real", NoDB: true, Chks: []int{2}}, {Op: "revoke", Var: "real", NoDB: true}, {Op: "sshsign", Var: "real", NoDB: true},
	// tokens without a jti claim (recorded under a hash of the token): every token provisioner type driven here
	{Op: "sign", Tok: "nojti", E: 1, A: 1, Chks: []int{2}}, {Op: "signx5c", Tok: "nojti", A: 1, Chks: []int{1}}, {Op: "revoke", Tok: "nojti"},
	{Op: "sshsign", Tok: "nojti", A: 1}, {Op: "sshrenew", Tok: "nojti"}, {Op: "sshrevoke", Tok: "nojti"}, {Op: "sign", Tok: "nojti", Var: "real", NoDB: true},
	{Op: "sign", Tok: "nojti", Deny: true, A: 1}, {Op: "signx5c", Tok: "nojti", Deny: true, E: 1},
	// webhooks that share a name (one back-end for the enriching and the authorizing call)
	{Op: "sign", Names: "dup", E: 1, A: 1}, {Op: "sign", Names: "dup", Deny: true, DenyK: "authorize", E: 1, A: 1},
	{Op: "sign", Deny: true, DenyK: "authorize", E: 2, A: 1}, {Op: "sshsign", Deny: true, DenyK: "authorize", E: 1, A: 1},
	{Op: "sign", Deny: true, DenyK: "enrich", E: 1, A: 1}, {Op: "acme", Names: "dup", Deny: true, DenyK: "authorize", E: 1, A: 1}, {Op: "sshsign", Names: "dup", E: 1, A: 2},
	{Op: "acme", Names: "dup", E: 1, A: 1}, {Op: "scep", Names: "dup", E: 1, A: 1, CH: 1}, {Op: "sign", Names: "dup", Var: "adminreboot", E: 1, A: 1},
	// the legacy route names
	{Op: "renew", Var: "legacy"},
	// a linked CA as adminDB: it keeps the records (store / revoke / revocation checks / certificate data)
	{Op: "sign", Var: "linked", Chks: []int{2}}, {Op: "renew", Var: "linked"}, {Op: "rekey", Var: "linked"}, {Op: "revoke", Var: "linked"},
	{Op: "revokemtls", Var: "linked"}, {Op: "sshsign", Var: "linked"}, {Op: "sshsignfull", Var: "linked"}, {Op: "sshrenew", Var: "linked"},
	{Op: "sshrekey", Var: "linked"}, {Op: "sshrevoke", Var: "linked"}, {Op: "acme", Var: "linked"}, {Op: "scep", Var: "linked"},
	// authority.enableAdmin with the local database (adminDB = nosql admin store, which stores no certificates)
	{Op: "sign", Var: "admin"}, {Op: "renew", Var: "admin"}, {Op: "rekey", Var: "admin"}, {Op: "revoke", Var: "admin"},
	{Op: "sshsign", Var: "admin"}, {Op: "sshrenew", Var: "admin"}, {Op: "sshrevoke", Var: "admin"}, {Op: "sshrenew", Var: "adminidentity"},
	// SCEP message types: RenewalReq validates the challenge like PKCSReq, UpdateReq does not (as coded; C15)
	{Op: "scep", Var: "renewal", CH: 1, N: 1}, {Op: "scep", Var: "update", CH: 2, N: 1},
	// ACME: two identifiers; an order still pending in the database (Finalize makes it ready itself)
	{Op: "acme", Var: "ids2"}, {Op: "acme", Var: "pending"}, {Op: "acme", Var: "ids2pending", E: 1, A: 1},
	// no database: db.SimpleDB (ErrNotImplemented is tolerated when storing, not when revoking)
	{Op: "sign", E: 1, A: 1, NoDB: true, Chks: []int{0, 2}}, {Op: "renew", NoDB: true}, {Op: "revoke", NoDB: true},
	{Op: "revokemtls", NoDB: true}, {Op: "sshsign", A: 1, NoDB: true, Chks: []int{4}}, {Op: "sshrenew", NoDB: true},
	{Op: "sshrevoke", NoDB: true},
	// thorough: larger webhook configurations as well
	{Op: "sign", E: 2, A: 2, Thorough: true}, {Op: "sshsign", E: 2, A: 2, Thorough: true}, {Op: "acme", E: 2, A: 1, Thorough: true},
	{Op: "sign", E: 2, A: 1, NoDB: true, Thorough: true}, {Op: "scep", E: 1, A: 1, CH: 3, N: 2, Thorough: true},
}

var srcFns = []string{"authorizeToken", "authorizeSign", "signX509", "authorizeRenew", "renewContext", "Revoke",
	"signSSH", "SignSSHAddUser", "renewSSH", "rekeySSH", "Finalize", "FinalizeOrder", "PKIOperation", "SignCSR", "Validate", "DoWithContext", "@signers", "@callers", "@scepTypes", "@storers", "@adminStore", "@hookControllers", "@routes", "@reloadOptions", "@tokenIDs"}

// sink appends case lines to the output file, flushed per line; the first `skip` lines are
// already there (written by an earlier worker process that died) and are not written again.
type sink struct {
	mu   sync.Mutex
	f    *os.File
	skip int
	seen int
}

func (s *sink) emit(line, out string) {
	if s.seen >= s.skip {
		fmt.Fprintf(s.f, "%s\t%s\n", line, out)
	}
	s.seen++
}

// runAll runs the cases on `workers` goroutines and emits the lines in order as soon as a
// prefix is complete (so that a process killed half-way has lost at most the cases in flight).
// Cases whose line is already in the output file are run only when force is set (their result
// is needed to generate later cases).
func runAll(ks []*Case, workers int, s *sink, force bool) []result {
	out := make([]result, len(ks))
	done := make([]bool, len(ks))
	base := s.seen
	next := 0
	var wg sync.WaitGroup
	ch := make(chan int)
	for w := 0; w < workers; w++ {
		wg.Add(1)
		go func() {
			defer wg.Done()
			for i := range ch {
				if force || base+i >= s.skip {
					out[i] = runCase(ks[i])
				}
				s.mu.Lock()
				done[i] = true
				for next < len(ks) && done[next] {
					s.emit(ks[next].render(), out[next].out)
					next++
				}
				s.mu.Unlock()
			}
		}()
	}
	for i := range ks {
		ch <- i
	}
	close(ch)
	wg.Wait()
	return out
}

// defaultWorkers: most cases wait (a retried webhook sleeps a second), so the number of workers is
// not tied to the load of the machine; after the death of a worker process the supervisor asks
// for fewer (VERIF_C17_WORKERS).
func defaultWorkers() int { return 12 }

// supervise runs the actual work in a child process (this binary with -child) and restarts it,
// continuing after the lines already written, when it ends abnormally: killed by the kernel's
// out-of-memory handling on an overloaded machine, for instance. Whatever happens is said on
// stderr (which ./check keeps in the failure detail): exit status or signal, lines written.
func supervise(outPath string) int {
	if f, err := os.Create(outPath); err == nil { // start from an empty file
		f.Close()
	}
	self, err := os.Executable()
	if err != nil {
		fmt.Fprintln(os.Stderr, "c17 harness: cannot find own executable:", err)
		return 2
	}
	lines := func() int {
		b, err := os.ReadFile(outPath)
		if err != nil {
			return 0
		}
		return strings.Count(string(b), "\n")
	}
	for attempt := 1; ; attempt++ {
		before := lines()
		args := append([]string{}, os.Args[1:]...)
		args = append(args, "-child", "-skip", strconv.Itoa(before))
		cmd := exec.Command(self, args...)
		cmd.Stdout, cmd.Stderr = os.Stdout, os.Stderr
		cmd.Env = append(os.Environ(), "GOMEMLIMIT=2GiB") // the work needs a few hundred MiB; keep the heap small on a crowded machine
		if attempt > 1 {                                  // after a death: less parallelism
			cmd.Env = append(cmd.Env, "VERIF_C17_WORKERS=4")
		}
		err := cmd.Run()
		if err == nil {
			return 0
		}
		after := lines()
		state := err.Error()
		if cmd.ProcessState != nil {
			state = cmd.ProcessState.String()
		}
		fmt.Fprintf(os.Stderr, "c17 harness: worker process (attempt %d) ended abnormally: %s; %d lines written before, %d now\n",
			attempt, state, before, after)
		if ee, ok := err.(*exec.ExitError); ok && ee.ExitCode() == 2 {
			return 2 // usage / setup error reported by the worker itself
		}
		if attempt >= 4 || after == before {
			fmt.Fprintln(os.Stderr, "c17 harness: giving up (no progress or too many restarts)")
			return 1
		}
		fmt.Fprintln(os.Stderr, "c17 harness: restarting the worker process after the lines already written")
	}
}

func main() {
	n := flag.Int("n", 40, "number of random fault pairs per scenario (quick tier)")
	pairs := flag.Bool("pairs", false, "enumerate all pairs of fault positions (thorough tier)")
	outp := flag.String("out", "", "output file (input<TAB>impl)")
	replay := flag.String("replay", "", "file of case lines (case=… field) to re-run instead of generating")
	workers := flag.Int("workers", 0, "parallel cases (0 = 12, fewer on an oversubscribed machine)")
	only := flag.String("op", "", "restrict to one operation (debugging)")
	child := flag.Bool("child", false, "internal: do the work (the default is to supervise a child that does)")
	skip := flag.Int("skip", 0, "internal: lines already in the output file")
	flag.Parse()
	if !*child {
		os.Exit(supervise(*outp))
	}
	log.SetOutput(io.Discard) // the repository logs start-up messages through the default logger
	if *workers == 0 {
		*workers = defaultWorkers()
		if v, err := strconv.Atoi(os.Getenv("VERIF_C17_WORKERS")); err == nil && v > 0 {
			*workers = v
		}
	}
	f, err := os.OpenFile(*outp, os.O_WRONLY|os.O_APPEND|os.O_CREATE, 0o644)
	if err != nil {
		fmt.Fprintln(os.Stderr, err)
		os.Exit(2)
	}
	defer f.Close()
	snk := &sink{f: f, skip: *skip}
	emitAll := func(ks []*Case) []result { return runAll(ks, *workers, snk, false) }
	emitNeeded := func(ks []*Case) []result { return runAll(ks, *workers, snk, true) } // results feed the generator
	if *replay != "" {
		data, err := os.ReadFile(*replay)
		if err != nil {
			fmt.Fprintln(os.Stderr, err)
			os.Exit(2)
		}
		var ks []*Case
		for _, l := range strings.Split(string(data), "\n") {
			i := strings.Index(l, "case=x")
			if i < 0 {
				continue
			}
			h := l[i+6:]
			if j := strings.IndexAny(h, " \t"); j >= 0 {
				h = h[:j]
			}
			js, err := hex.DecodeString(h)
			if err != nil {
				continue
			}
			k := &Case{}
			if json.Unmarshal(js, k) == nil {
				ks = append(ks, k)
			}
		}
		emitAll(ks)
		return
	}

	// 1. source order of the anchored functions
	var src []*Case
	for _, fn := range srcFns {
		src = append(src, &Case{Op: "src", Fn: fn, Chk: -1})
	}
	if *only == "" || *only == "src" {
		emitAll(src)
	}

	// 2. fault-free runs: learn each scenario's sequence of external calls
	var scs []scenario
	for _, s := range scenarios {
		if s.Thorough && !*pairs {
			continue
		}
		if *only == "" || *only == s.Op {
			scs = append(scs, s)
		}
	}
	var base []*Case
	for _, s := range scs {
		base = append(base, s.newCase(-1))
	}
	baseRes := emitNeeded(base)

	// 3. faults
	i0 := int(c.Seed() % 7) // which realisation goes with which position varies with the seed
	rng := c.NewRng(c.Seed())
	var ks []*Case
	for i, s := range scs {
		tr := baseRes[i].trace
		mk := func(fs ...Fault) *Case { return s.newCase(-1, fs...) }
		at := func(p int, f Fault) Fault { f.Pos = p; return f }
		for _, chk := range s.Chks {
			ks = append(ks, s.newCase(chk))
		}
		// configuration variants of an operation already enumerated in full: in the quick tier single
		// faults only, one realisation per outcome kind (rotating with position and seed)
		variant := s.CT != "" || s.Deny || s.Var != "" || s.Tok != "" || s.Names != "" // a configuration variant of an operation enumerated in full
		light := !*pairs && variant
		// every position, every kind (every realisation)
		for p, ev := range tr {
			all := faultKinds(stepOf(ev))
			cnt, idx := map[string]int{}, map[string]int{}
			for _, f := range all {
				cnt[f.Kind]++
			}
			for _, f := range all {
				i := idx[f.Kind]
				idx[f.Kind]++
				if !light || i == (p+i0)%cnt[f.Kind] {
					ks = append(ks, mk(at(p, f)))
				}
			}
		}
		// a webhook attempt that fails retryably is followed by a second attempt at p+1
		for p, ev := range tr {
			if light {
				break
			}
			if st := stepOf(ev); st == "enrich" || st == "authorize" || st == "challenge" || st == "notify" {
				// second answers: all realisations in the thorough tier; in the quick tier one
				// realisation per outcome kind, rotating with the position (the single-fault
				// cases above already run every realisation at every position)
				all := faultKinds(st)
				seen := map[string]int{}
				for _, f2 := range all {
					seen[f2.Kind]++
				}
				idx := map[string]int{}
				for _, f2 := range all {
					i := idx[f2.Kind]
					idx[f2.Kind]++
					if *pairs || i == (p+i0)%seen[f2.Kind] {
						ks = append(ks, mk(at(p, Fault{Kind: "error", Sub: "5xx"}), at(p+1, f2)))
					}
				}
				ks = append(ks, mk(at(p, Fault{Kind: "error", Sub: "refused"}), at(p+1, Fault{Kind: "error", Sub: "refused"})))
				ks = append(ks, mk(at(p, Fault{Kind: "error", Sub: "eof"}), at(p+1, Fault{Kind: "error", Sub: "eof"})))
				ks = append(ks, mk(at(p, Fault{Kind: "error", Sub: "tls"}), at(p+1, Fault{Kind: "error", Sub: "tls"})))
			}
		}
		// a check failing in a request that also meets a storage fault
		if len(s.Chks) > 0 && len(tr) > 0 {
			ks = append(ks, s.newCase(s.Chks[len(s.Chks)-1], at(0, Fault{Kind: "timeout"})))
		}
		// pairs of positions (positions after the first fault may name different calls, or none)
		if *pairs && !variant { // all pairs for the base configurations; variants get singles, retries and a sample
			for p1 := range tr {
				for p2 := p1 + 1; p2 <= len(tr); p2++ {
					k2 := "enrich"
					if p2 < len(tr) {
						k2 = stepOf(tr[p2])
					}
					for _, f1 := range faultKinds(stepOf(tr[p1])) {
						for _, f2 := range faultKinds(k2) {
							ks = append(ks, mk(at(p1, f1), at(p2, f2)))
						}
					}
				}
			}
		} else if len(tr) > 1 && !light {
			if *pairs && *n == 0 {
				*n = 40
			}
			for j := 0; j < *n; j++ {
				p1 := rng.Intn(len(tr))
				p2 := rng.Intn(len(tr) + 1)
				if p1 == p2 {
					continue
				}
				if p2 < p1 {
					p1, p2 = p2, p1
				}
				k2 := "enrich"
				if p2 < len(tr) {
					k2 = stepOf(tr[p2])
				}
				ks = append(ks, mk(at(p1, c.Pick(rng, faultKinds(stepOf(tr[p1])))), at(p2, c.Pick(rng, faultKinds(k2)))))
			}
		}
	}
	emitAll(ks)
}
