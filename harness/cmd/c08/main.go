// Harness for C08 (CRL publication). Runs the real authority of /repo with CRL enabled on a bbolt
// file; every list is obtained through Authority.GetCertificateRevocationList (what GET /1.0/crl
// serves), parsed with x509.ParseRevocationList and its signature checked against the issuing
// certificate. Writes "<model input line>\t<implementation output>" (stage hist, compared with the
// Lean driver drv_c08) or "<input>\t<implementation>\t<what the property demands>" (stage race).
//
//	-stage hist   sequential histories of revocations (token route for certificates the CA issued and for
//	              serials it does not know; certificate-carrying route and token route for certificates of the CA's
//	              certificate table with expiry times around the 1 h retention boundary, incl. long expired), forced regenerations (what a tick does) and restarts, with
//	              generate-on-revoke on or off; every stored list (number, interval, entries) vs the model
//	-stage sched  a chosen interleaving: a generation is parked inside GenerateCertificateRevocationList (after
//	              listing the revoked table / before reading the stored list / before storing) by the db.AuthDB
//	              wrapper while generate-on-revoke revocations run; afterwards every acknowledged revocation must
//	              be in the served list and the served list must carry the largest stored number
//	-stage reload what ca.Reload does (new authority on the same db handle, CloseForReload on the old one): no list with the
//	              old cache duration may be stored afterwards, numbers keep increasing
//	-stage race   concurrent revocations, forced regenerations and fetches; stored numbers strictly
//	              increasing, every fetched list well-formed and signed, an acknowledged revocation visible
package main

import (
	"bytes"
	"crypto/ecdsa"
	"crypto/elliptic"
	"crypto/rand"
	"crypto/tls"
	"crypto/x509"
	"crypto/x509/pkix"
	"encoding/asn1"
	"encoding/base64"
	"encoding/hex"
	"encoding/json"
	"encoding/pem"
	"errors"
	"flag"
	"fmt"
	"io"
	"log"
	"math/big"
	"net/http"
	"net/http/httptest"
	"os"
	"sort"
	"strconv"
	"strings"
	"sync"
	"sync/atomic"
	"time"

	"github.com/go-chi/chi/v5"
	"go.step.sm/crypto/randutil"

	"github.com/smallstep/certificates/api"

	"github.com/smallstep/certificates/authority"
	"github.com/smallstep/certificates/authority/config"
	"github.com/smallstep/certificates/authority/provisioner"
	"github.com/smallstep/certificates/db"
	"verif/harness/cmd/c02/ss"
	"verif/harness/cmd/c12/acmeenv"
	c "verif/harness/common"
	"verif/harness/fixture"
)

func must[T any](v T, err error) T {
	if err != nil {
		panic(err)
	}
	return v
}

type Op struct {
	Kind string // gen | rev | restart
	Cert int    // rev: which certificate of the pool
	Fail int    // gen, rev with generate-on-revoke: the storage call of the generation that fails (2 GetCRL, 3 GetRevokedCertificates, 4 StoreCRL); 0 = none
}

type CertSpec struct {
	Kind   string // issued (by the CA, revoked by token) | unknown (a serial the CA never saw, by token) | carried (the request carries the certificate: mTLS / ACME shape) | stored (a certificate of this CA with NotAfter at ExpOff, present in the CA's certificate table, revoked by token)
	ExpOff int    // carried, stored: NotAfter = creation time + ExpOff seconds
}

type Hist struct {
	IDP   string // CRL.IDPurl ("" = not configured)
	GOR   bool   // generateOnRevoke
	Cache int    // cache duration, seconds
	Certs []CertSpec
	Ops   []Op
}

type Race struct {
	GOR      bool
	Revokers int
	Gens     int
	Fetchers int
}

// Sched: a chosen interleaving. Generation G1 is parked at Park (after its listing of the revoked
// table returned / before it reads the stored list / before it stores); meanwhile Revs revocations
// with generate-on-revoke run, each to completion if it can (if it blocks on the mutex G1 holds, G1
// is released after a timeout); then G1 finishes and the served list is fetched.
type Sched struct {
	Park string // after-list | before-getcrl | before-storecrl
	Pre  int    // revocations before G1 starts
	Revs int    // revocations while G1 is parked
}

// Reload: what ca.Reload does. Authority A (cache duration D1, renew period 300 ms) runs on a bbolt
// file; authority B (cache duration D2) is built with A's db handle and A's keys, then
// A.CloseForReload(). While B stores 8 lists, at most two stragglers of A may appear (see runReload);
// a generator of A that is still ticking stores many more.
type Reload struct {
	D1, D2 int  // seconds
	GOR    bool // generate-on-revoke on B, with one revocation after the reload
}

// Downtime: the CA is down for longer than its cache duration. Authority A (cache duration 1 s; its renew
// period is the cache duration, so its ticker may or may not tick while A lives — every stored list is seen
// at StoreCRL) runs Gens forced generations and is shut down; the harness waits until the last stored list's
// NextUpdate has passed; authority B (cache 1 h) starts on the same file. Its start-up list must carry the last
// stored number + 1, and a further generation + 2: numbering continues whatever the age of the stored list.
type Downtime struct {
	Gens int
	GOR  bool
}

// ACME: a certificate issued through the real ACME flow (harness/cmd/c12/acmeenv) is revoked through the real
// ACME revoke-cert handler (Key: signed by the certificate key instead of the account key); the stored record
// must carry the certificate's NotAfter, and the list generated afterwards must list the serial with the
// record's revocation time.
type ACME struct {
	Key bool
}

// Inflight: a request of the OLD authority is in flight while ca.Reload builds the new one (ca.Reload calls New —
// whose start-up generation runs under the new authority's own crlMutex — before it calls CloseForReload on the old
// one). A generation of authority A (standing for a tick or for the regeneration of a revocation being served by A)
// is parked inside its critical section at Park; authority B is built on A's db handle; optionally a revocation with
// generate-on-revoke is served by B; then A's generation is released.
//
// Park = "window-old" / "window-new": nothing is parked; the reload window itself (both authorities alive on one database, ca.Reload
// between New and CloseForReload, where the HTTP servers are swapped while requests in flight finish): authority B is built on A's
// database; then a revocation is served by the OLD authority A (window-old) or by the new one B (window-new); then A is closed. The
// list the *other* authority serves afterwards (what a client of the swapped server sees) must carry the acknowledged serial and a
// number not below the one already served.
type Inflight struct {
	Park   string // after-getcrl | after-list | window-old | window-new
	Revoke bool
}

// Handler: GET /crl and GET /1.0/crl through the real router (api.Route mounted at / and /1.0 as ca.go does), DER and ?pem,
// after Gens forced generations and Revs revocations; and with publication disabled.
type Handler struct {
	Enabled bool
	Gens    int
	Revs    int
}

// Config: one CRL section of a ca.json (durations in nanoseconds; nil = absent) through the real Config.Init,
// CRLConfig.Validate, the authority's own defaulting (a real authority is started when its generator period is >= 1 s)
// and CRLConfig.TickerDuration.
type Config struct {
	Enabled      bool
	Cache, Renew *int64
}

type Case struct {
	CACRL    *CACRL    `json:",omitempty"`
	Config   *Config   `json:",omitempty"`
	Handler  *Handler  `json:",omitempty"`
	Inflight *Inflight `json:",omitempty"`
	Downtime *Downtime `json:",omitempty"`
	ACME     *ACME     `json:",omitempty"`
	Reload   *Reload   `json:",omitempty"`
	Hist     *Hist     `json:",omitempty"`
	Race     *Race     `json:",omitempty"`
	Sched    *Sched    `json:",omitempty"`
}

func caseField(k *Case) string {
	js, _ := json.Marshal(k)
	return "case=x" + hex.EncodeToString(js)
}

type env struct {
	ca *fixture.CA
}

// minCache: cache durations below one hour are not used. The authority's own periodic generator
// ticks every RenewPeriod (here = the cache duration, the largest legal value); with >= 1 h it cannot
// fire inside a history however slow the machine is, so every generation of a history is one the
// harness drives explicitly (and the model sees). Ticks are exercised as forced generations.
const minCache = 3600

func newEnv(gor bool, cache int, hooks *ss.Hooks) *env { return newEnvIDP(gor, cache, hooks, "") }

func newEnvIDP(gor bool, cache int, hooks *ss.Hooks, idp string) *env {
	return newEnvFault(gor, cache, hooks, idp, nil)
}

// newEnvFault: additionally a fault layer under db.DB (see ss.WrapNoSQL)
func newEnvFault(gor bool, cache int, hooks *ss.Hooks, idp string, fault *ss.NoSQLFault) *env {
	if cache < minCache {
		cache = minCache
	}
	d := &provisioner.Duration{Duration: time.Duration(cache) * time.Second}
	o := fixture.Opts{CRL: &config.CRLConfig{Enabled: true, GenerateOnRevoke: gor, CacheDuration: d, RenewPeriod: d, IDPurl: idp},
		WrapDB: ss.WrapNoSQL(fault, hooks)}
	return &env{ca: must(fixture.New(o))}
}

type list struct {
	num        int64
	this, next int64
	entries    []string
	idp        string // fullName of the issuing distribution point
	bad        string
}

var oidIDP = asn1.ObjectIdentifier{2, 5, 29, 28}

// idpOf parses the issuingDistributionPoint extension: fullName URI, critical, onlyContainsUserCerts.
func idpOf(rl *x509.RevocationList) (string, string) {
	for _, ext := range rl.Extensions {
		if !ext.Id.Equal(oidIDP) {
			continue
		}
		if !ext.Critical {
			return "", "IDP-NOT-CRITICAL"
		}
		var dp struct {
			Name struct {
				FullName []asn1.RawValue `asn1:"optional,tag:0"`
			} `asn1:"optional,tag:0"`
			OnlyUser bool `asn1:"optional,tag:1"`
			OnlyCA   bool `asn1:"optional,tag:2"`
		}
		if rest, err := asn1.Unmarshal(ext.Value, &dp); err != nil || len(rest) != 0 || len(dp.Name.FullName) != 1 {
			return "", "IDP-MALFORMED"
		}
		if !dp.OnlyUser || dp.OnlyCA {
			return "", "IDP-SCOPE"
		}
		fn := dp.Name.FullName[0]
		if fn.Class != 2 || fn.Tag != 6 {
			return "", "IDP-NOT-URI"
		}
		return string(fn.Bytes), ""
	}
	return "", "IDP-MISSING"
}

// fetch obtains the served list and validates DER and signature.
func (e *env) fetch() *list {
	info, err := e.ca.Auth.GetCertificateRevocationList()
	if err != nil {
		return &list{bad: "FETCH-FAILED"}
	}
	rl, err := x509.ParseRevocationList(info.Data)
	if err != nil {
		return &list{bad: "BADDER"}
	}
	l := &list{this: rl.ThisUpdate.Unix(), next: rl.NextUpdate.Unix()}
	if rl.Number == nil {
		l.bad = "NONUMBER"
		return l
	}
	l.num = rl.Number.Int64()
	if err := rl.CheckSignatureFrom(e.ca.MiniCA.Intermediate); err != nil {
		l.bad = "BADSIG"
	}
	// header: issued by the issuing certificate (name and key identifier), ECDSA-SHA256 for its P-256 key
	inter := e.ca.MiniCA.Intermediate
	if !bytes.Equal(rl.RawIssuer, inter.RawSubject) {
		l.bad = "ISSUER"
	}
	if !bytes.Equal(rl.AuthorityKeyId, inter.SubjectKeyId) {
		l.bad = "AKI"
	}
	if rl.SignatureAlgorithm != x509.ECDSAWithSHA256 {
		l.bad = "SIGALG"
	}
	var idpBad string
	if l.idp, idpBad = idpOf(rl); idpBad != "" {
		l.bad = idpBad
	}
	if info.Number != l.num || info.ExpiresAt.Unix() != l.next {
		l.bad = "INFO-MISMATCH"
	}
	for _, en := range rl.RevokedCertificateEntries {
		l.entries = append(l.entries, c.X(en.SerialNumber.String())+":"+strconv.FormatInt(en.RevocationTime.Unix(), 10))
	}
	sort.Strings(l.entries)
	return l
}

func (l *list) String() string {
	s := fmt.Sprintf("n=%d,t=%d,u=%d,e=[%s]", l.num, l.this, l.next, strings.Join(l.entries, "|"))
	if l.bad != "" {
		s += "," + l.bad
	}
	return s
}

// router: the CA's API mounted the way /repo/ca/ca.go mounts it (at / and at /1.0)
func router() http.Handler {
	mux := chi.NewRouter()
	api.Route(mux)
	mux.Route("/1.0", func(r chi.Router) { api.Route(r) })
	return mux
}

// post sends a JSON body to the real handler behind path (optionally as a verified mTLS peer) and returns the status.
func (e *env) post(path string, body any, peer *x509.Certificate) int {
	var buf bytes.Buffer
	json.NewEncoder(&buf).Encode(body)
	req := httptest.NewRequest("POST", "https://"+fixture.DNSName+path, &buf)
	if peer != nil {
		req.TLS = &tls.ConnectionState{PeerCertificates: []*x509.Certificate{peer}}
	}
	req = req.WithContext(authority.NewContext(req.Context(), e.ca.Auth))
	w := httptest.NewRecorder()
	router().ServeHTTP(w, req)
	return w.Code
}

// revokeToken: POST /1.0/revoke with a revocation token (the real handler sets the method context, authorizes, revokes)
func (e *env) revokeToken(serial string) int {
	tok := must(e.ca.Token(fixture.TokenOpts{Subject: serial, Audience: fixture.Audience("/1.0/revoke"), NoSANs: true}))
	return e.post("/1.0/revoke", map[string]any{"serial": serial, "ott": tok, "passive": true, "reasonCode": 1}, nil)
}

// revokeCarried: POST /revoke over mutual TLS, the certificate being revoked is the client certificate
func (e *env) revokeCarried(crt *x509.Certificate) int {
	return e.post("/revoke", map[string]any{"serial": crt.SerialNumber.String(), "passive": true, "reasonCode": 1}, crt)
}

func status(err error) int {
	if err == nil {
		return 200
	}
	var sc interface{ StatusCode() int }
	if e, ok := err.(interface{ StatusCode() int }); ok {
		sc = e
		return sc.StatusCode()
	}
	return 500
}

func (e *env) issue() *x509.Certificate {
	cn := "h" + must(randutil.Hex(8)) + ".example.com"
	tok := must(e.ca.Token(fixture.TokenOpts{Subject: cn}))
	csr, _, err := fixture.CSR(cn, []string{cn})
	if err != nil {
		panic(err)
	}
	return must(e.ca.SignX509(tok, csr, provisioner.SignOptions{}))[0]
}

// stored makes a real certificate of this CA (signed by the intermediate) whose NotAfter lies off
// seconds from now and puts it into the CA's certificate table through the real db API, as if it
// had been issued long ago: the token route then finds it by serial (db.GetCertificate).
func (e *env) stored(off int) *x509.Certificate {
	key := must(ecdsa.GenerateKey(elliptic.P256(), rand.Reader))
	na := time.Now().Truncate(time.Second).Add(time.Duration(off) * time.Second)
	cn := "old" + must(randutil.Hex(8)) + ".example.com"
	tpl := &x509.Certificate{SerialNumber: randSerial(), Subject: pkix.Name{CommonName: cn}, DNSNames: []string{cn},
		NotBefore: na.Add(-24 * time.Hour), NotAfter: na, KeyUsage: x509.KeyUsageDigitalSignature,
		ExtKeyUsage: []x509.ExtKeyUsage{x509.ExtKeyUsageServerAuth, x509.ExtKeyUsageClientAuth}}
	der := must(x509.CreateCertificate(rand.Reader, tpl, e.ca.MiniCA.Intermediate, &key.PublicKey, e.ca.MiniCA.Signer))
	crt := must(x509.ParseCertificate(der))
	st, ok := e.ca.DB.(db.CertificateStorer)
	if !ok {
		panic("database does not store certificates")
	}
	if err := st.StoreCertificate(crt); err != nil {
		panic(err)
	}
	return crt
}

func randSerial() *big.Int {
	b := must(randutil.Salt(12))
	return new(big.Int).SetBytes(b)
}

// record reads the stored revocation record of a serial from the real table.
func (e *env) record(serial string) (revokedAt int64, exp string, ok bool) {
	for _, en := range ss.Dump(e.ca.DB, "revoked_x509_certs") {
		if en.Key == serial {
			var r db.RevokedCertificateInfo
			if json.Unmarshal(en.Value, &r) != nil {
				return 0, "", false
			}
			exp = "-"
			if !r.ExpiresAt.IsZero() {
				exp = strconv.FormatInt(r.ExpiresAt.Unix(), 10)
			}
			return r.RevokedAt.Unix(), exp, true
		}
	}
	return 0, "", false
}

var errInjected = errors.New("injected storage fault")

func runHist(h *Hist) (string, string) {
	// one-shot fault at the key/value store under db.DB: the next Get / List / Set of the armed table fails, so that the
	// error handling of db.GetCRL / GetRevokedCertificates / StoreCRL themselves runs
	var fault ss.NoSQLFault
	arm := func(f int) {
		want := map[int][2]string{2: {"get", "x509_crl"}, 3: {"list", "revoked_x509_certs"}, 4: {"set", "x509_crl"}}[f]
		if want[0] == "" {
			fault = nil
			return
		}
		fault = func(op, bucket string, key []byte) error {
			if op == want[0] && bucket == want[1] {
				fault = nil
				return errInjected
			}
			return nil
		}
	}
	var hooks *ss.Hooks
	failSuffix := func(f int) string {
		if f == 0 {
			return ""
		}
		return ":" + strconv.Itoa(f)
	}
	if h.Cache < minCache {
		h.Cache = minCache // also for replayed cases generated before minCache existed
	}
	e := newEnvFault(h.GOR, h.Cache, hooks, h.IDP, &fault)
	defer func() { e.ca.Close() }()
	certs := make([]*x509.Certificate, len(h.Certs))
	for i, cs := range h.Certs {
		switch cs.Kind {
		case "issued":
			certs[i] = e.issue()
		case "unknown":
			certs[i] = &x509.Certificate{SerialNumber: randSerial()}
		case "stored":
			certs[i] = e.stored(cs.ExpOff)
		default:
			certs[i] = &x509.Certificate{SerialNumber: randSerial(), NotAfter: time.Now().Truncate(time.Second).Add(time.Duration(cs.ExpOff) * time.Second)}
		}
	}
	// what the record of each serial must carry: the certificate's NotAfter whenever the CA knows the
	// certificate (issued / stored) or the request presents it (carried); zero only for unknown serials
	wantExp := map[string]string{}
	for i, cs := range h.Certs {
		if cs.Kind == "unknown" {
			wantExp[certs[i].SerialNumber.String()] = "-"
		} else {
			wantExp[certs[i].SerialNumber.String()] = strconv.FormatInt(certs[i].NotAfter.Unix(), 10)
		}
	}
	var reqs, evs, answers, lists []string
	last := int64(-1)
	observe := func() *list {
		l := e.fetch()
		if l.bad != "" || l.num != last {
			// the property itself: a new list holds exactly the records of the revoked table with no
			// expiry or an expiry not more than 1 h before its thisUpdate (histories are sequential, so
			// the table now is the table the generation saw)
			var want []string
			for _, en := range ss.Dump(e.ca.DB, "revoked_x509_certs") {
				var r db.RevokedCertificateInfo
				if json.Unmarshal(en.Value, &r) != nil {
					continue
				}
				// expiry as the certificate says (not as the record says): "did not expire more than the
				// retention window before the list was generated"
				keep := true
				if x, ok := wantExp[en.Key]; ok && x != "-" {
					n, _ := strconv.ParseInt(x, 10, 64)
					keep = n >= l.this-3600
				}
				if keep {
					want = append(want, c.X(en.Key)+":"+strconv.FormatInt(r.RevokedAt.Unix(), 10))
				}
			}
			sort.Strings(want)
			if l.bad == "" && strings.Join(want, "|") != strings.Join(l.entries, "|") {
				l.bad = "VIOLATION=entries-differ-from-revocation-history"
			}
			lists = append(lists, l.String())
			last = l.num
		}
		return l
	}
	thread := func(req, answer string) {
		t := strconv.Itoa(len(reqs))
		reqs = append(reqs, req)
		answers = append(answers, answer)
		for i := 0; i < 6; i++ {
			evs = append(evs, "s"+t)
		}
	}
	l := observe() // start-up generation
	thread(fmt.Sprintf("g:%d", l.this), "ok")
	for _, op := range h.Ops {
		switch op.Kind {
		case "gen":
			ans := "ok"
			arm(op.Fail)
			if err := e.ca.Auth.GenerateCertificateRevocationList(); err != nil {
				ans = "err"
			}
			fault = nil
			l := observe()
			thread(fmt.Sprintf("g:%d%s", l.this, failSuffix(op.Fail)), ans)
		case "restart":
			e.ca = must(e.ca.Restart())
			evs = append(evs, "r0")
			l := observe()
			thread(fmt.Sprintf("g:%d", l.this), "ok")
		case "rev":
			if op.Cert >= len(certs) {
				continue
			}
			crt := certs[op.Cert]
			serial := crt.SerialNumber.String()
			_, _, before := e.record(serial)
			t0 := time.Now().Unix()
			fail := 0
			if h.GOR {
				fail = op.Fail
			}
			arm(fail)
			var code int
			if h.Certs[op.Cert].Kind == "carried" {
				code = e.revokeCarried(crt)
			} else {
				code = e.revokeToken(serial)
			}
			ans := "status" + strconv.Itoa(code)
			switch code {
			case 200:
				ans = "ok"
			case 400:
				ans = "already"
			case 500:
				ans = "err" // the record is stored, the regeneration failed
			}
			fault = nil
			t1 := time.Now().Unix()
			at, exp, ok := e.record(serial)
			l := observe()
			// the revocation time of a record this request stored is the time of the request (also for a certificate that is not valid
			// yet, or expired): an order of clock readings, no duration
			if ok && !before && (at < t0 || at > t1) {
				ans += "+VIOLATION=recorded-revocation-time-is-not-the-time-of-the-request"
			}
			if !ok {
				at, exp = 0, "-"
				ans += "+norecord"
			}
			if before && code == 200 {
				ans += "+VIOLATION=second-revocation-acknowledged"
			}
			// generate-on-revoke: a list fetched after the acknowledgement contains the serial (unless long expired)
			if h.GOR && code == 200 && l.bad == "" {
				listed := false
				for _, en := range l.entries {
					if strings.HasPrefix(en, c.X(serial)+":") {
						listed = true
					}
				}
				expired := false
				if x := wantExp[serial]; x != "-" && x != "" {
					n, _ := strconv.ParseInt(x, 10, 64)
					expired = n < l.this-3600
				}
				if !listed && !expired {
					ans += "+VIOLATION=acknowledged-revocation-missing-from-served-list"
				}
			}
			if ok && !before && exp != wantExp[serial] {
				ans += "+VIOLATION=record-expiry-" + exp + "-differs-from-certificate-" + wantExp[serial]
			}
			// the model's record carries the certificate's expiry (independent of what the code stored)
			thread(fmt.Sprintf("r:%s:%d:%s:%s:%d%s", c.X(serial), at, wantExp[serial], c.B(h.GOR), l.this, failSuffix(fail)), ans)
		}
	}
	in := fmt.Sprintf("h cache=%d idp=%s dns=%s reqs=%s evs=%s", h.Cache, c.X(h.IDP), c.X(fixture.DNSName), strings.Join(reqs, ";"), c.List(evs))
	impl := strings.Join(answers, ",")
	for _, l := range lists {
		impl += " " + l
	}
	got := e.fetch().idp
	impl += " idp=" + c.X(got)
	// the property's "served lists are the CA's": the distribution point names the configured URL or the CA's own /1.0/crl
	want := h.IDP
	if want == "" {
		want = "https://" + fixture.DNSName + "/1.0/crl"
	}
	if got != want {
		impl += " VIOLATION=distribution-point-differs-from-configuration"
	}
	return in, impl
}

func runRace(rc *Race) (string, string, string) {
	var mu sync.Mutex
	var stored []int64
	hooks := &ss.Hooks{After: func(op, key string, ok bool, err error) error {
		if op == "storecrl" && err == nil {
			n, _ := ss.CRLKey(key)
			mu.Lock()
			stored = append(stored, n)
			mu.Unlock()
		}
		return nil
	}}
	e := newEnv(rc.GOR, minCache, hooks)
	defer e.ca.Close()
	certs := make([]*x509.Certificate, rc.Revokers)
	for i := range certs {
		certs[i] = e.issue()
	}
	var wg sync.WaitGroup
	var problems []string
	note := func(s string) { mu.Lock(); problems = append(problems, s); mu.Unlock() }
	barrier := make(chan struct{})
	stop := make(chan struct{})
	for i := range certs {
		wg.Add(1)
		go func(i int) {
			defer wg.Done()
			defer func() {
				if recover() != nil {
					note("crash")
				}
			}()
			serial := certs[i].SerialNumber.String()
			<-barrier
			if code := e.revokeToken(serial); code != 200 {
				note("revocation-refused")
				return
			}
			if rc.GOR {
				l := e.fetch()
				found := false
				for _, en := range l.entries {
					if strings.HasPrefix(en, c.X(serial)+":") {
						found = true
					}
				}
				if !found {
					note("acknowledged-revocation-missing-from-served-list")
				}
			}
		}(i)
	}
	for i := 0; i < rc.Gens; i++ {
		wg.Add(1)
		go func() {
			defer wg.Done()
			<-barrier
			for j := 0; j < 3; j++ {
				if err := e.ca.Auth.GenerateCertificateRevocationList(); err != nil {
					note("generation-failed")
				}
			}
		}()
	}
	var fw sync.WaitGroup
	for i := 0; i < rc.Fetchers; i++ {
		fw.Add(1)
		go func() {
			defer fw.Done()
			<-barrier
			prev := int64(-1)
			for {
				select {
				case <-stop:
					return
				default:
				}
				l := e.fetch()
				if l.bad != "" {
					note("served-list-" + l.bad)
					return
				}
				if l.num < prev {
					note("served-number-went-back")
					return
				}
				if l.next-l.this != minCache {
					note("interval")
				}
				prev = l.num
			}
		}()
	}
	close(barrier)
	wg.Wait()
	close(stop)
	fw.Wait()
	if err := e.ca.Auth.GenerateCertificateRevocationList(); err != nil {
		note("generation-failed")
	}
	final := e.fetch()
	if final.bad != "" {
		note("served-list-" + final.bad)
	}
	if len(final.entries) != len(certs) {
		note("final-list-incomplete")
	}
	mu.Lock()
	for i := 1; i < len(stored); i++ {
		if stored[i] <= stored[i-1] {
			problems = append(problems, "stored-number-not-increasing")
			break
		}
	}
	if len(stored) == 0 || stored[len(stored)-1] != final.num {
		problems = append(problems, "final-number")
	}
	expectStores := 1 + 3*rc.Gens + 1
	if rc.GOR {
		expectStores += rc.Revokers
	}
	if len(stored) != expectStores {
		problems = append(problems, fmt.Sprintf("stores=%d/%d", len(stored), expectStores))
	}
	mu.Unlock()
	in := fmt.Sprintf("race gor=%s revokers=%d gens=%d fetchers=%d", c.B(rc.GOR), rc.Revokers, rc.Gens, rc.Fetchers)
	impl := "ok"
	if len(problems) > 0 {
		sort.Strings(problems)
		uniq := problems[:1]
		for _, p := range problems[1:] {
			if p != uniq[len(uniq)-1] {
				uniq = append(uniq, p)
			}
		}
		impl = "VIOLATION " + strings.Join(uniq, ",")
	}
	return in, impl, "ok"
}

func runSched(sc *Sched) (string, string, string) {
	var mu sync.Mutex
	var stored []int64
	var armed int32
	parked := make(chan struct{}, 1)
	release := make(chan struct{})
	park := func() {
		if atomic.CompareAndSwapInt32(&armed, 1, 0) {
			parked <- struct{}{}
			<-release
		}
	}
	hooks := &ss.Hooks{
		Before: func(op, key string) error {
			if (sc.Park == "before-getcrl" && op == "getcrl") || (sc.Park == "before-storecrl" && op == "storecrl") {
				park()
			}
			return nil
		},
		After: func(op, key string, ok bool, err error) error {
			if op == "storecrl" && err == nil {
				n, _ := ss.CRLKey(key)
				mu.Lock()
				stored = append(stored, n)
				mu.Unlock()
			}
			if sc.Park == "after-list" && op == "listrevoked" {
				park()
			}
			return nil
		},
	}
	e := newEnv(true, minCache, hooks)
	defer e.ca.Close()
	var problems []string
	var serials []string
	revoke := func() {
		crt := e.issue()
		serials = append(serials, crt.SerialNumber.String())
		if code := e.revokeToken(crt.SerialNumber.String()); code != 200 {
			problems = append(problems, "revocation-refused")
		}
	}
	for i := 0; i < sc.Pre; i++ {
		revoke()
	}
	atomic.StoreInt32(&armed, 1)
	g1 := make(chan error, 1)
	go func() { g1 <- e.ca.Auth.GenerateCertificateRevocationList() }()
	select {
	case <-parked:
	case err := <-g1:
		g1 <- err
		problems = append(problems, "generation-never-reached-"+sc.Park)
	case <-time.After(3 * time.Minute):
		problems = append(problems, "generation-stuck")
	}
	released := false
	blocked := 0
	for i := 0; i < sc.Revs; i++ {
		done := make(chan struct{})
		go func() { revoke(); close(done) }()
		select {
		case <-done:
		case <-time.After(120 * time.Millisecond):
			// the revocation's own generation waits for the mutex G1 holds: let G1 go on
			blocked++
			if !released {
				close(release)
				released = true
			}
			<-done
		}
	}
	if !released {
		close(release)
	}
	select {
	case err := <-g1:
		if err != nil {
			problems = append(problems, "generation-failed")
		}
	case <-time.After(3 * time.Minute):
		problems = append(problems, "generation-stuck")
	}
	// every revocation above was acknowledged before this fetch: all must be in the served list,
	// and the served list must be the one with the largest number ever stored
	final := e.fetch()
	if final.bad != "" {
		problems = append(problems, "served-list-"+final.bad)
	}
	have := map[string]bool{}
	for _, en := range final.entries {
		have[strings.SplitN(en, ":", 2)[0]] = true
	}
	for _, sn := range serials {
		if !have[c.X(sn)] {
			problems = append(problems, "acknowledged-revocation-missing-from-served-list")
			break
		}
	}
	mu.Lock()
	for i, n := range stored {
		if i > 0 && n <= stored[i-1] {
			problems = append(problems, "stored-number-not-increasing")
			break
		}
	}
	for _, n := range stored {
		if n > final.num {
			problems = append(problems, "served-list-is-not-the-newest")
			break
		}
	}
	mu.Unlock()
	in := fmt.Sprintf("sched park=%s pre=%d revs=%d", sc.Park, sc.Pre, sc.Revs)
	if len(problems) > 0 {
		return in, "VIOLATION " + strings.Join(problems, ",") + fmt.Sprintf(" blocked=%d", blocked), "ok"
	}
	return in, "ok", "ok"
}

// reloadPeriod: the renew period of both authorities of the reload stage (their tickers are the
// subject of that stage; everywhere else the tickers cannot fire, see minCache).
const reloadPeriod = 300 * time.Millisecond

func crlCfg(cache int, gor bool) *config.CRLConfig {
	return &config.CRLConfig{Enabled: true, GenerateOnRevoke: gor, CacheDuration: &provisioner.Duration{Duration: time.Duration(cache) * time.Second},
		RenewPeriod: &provisioner.Duration{Duration: reloadPeriod}}
}

// runReload. The verdict depends only on *events* (lists seen at StoreCRL), never on something not
// having happened within a time limit: a slow machine can make the case inconclusive (reported as
// ok), not red.
//
//  1. A runs until it has stored its start-up list and at least one tick (wait-until, generous deadline).
//  2. B is built on A's db handle, then A.CloseForReload().  The unchanged code may still deliver the
//     generation that was in flight and at most one tick that was already queued in the ticker
//     channel (Go's select may pick it before the stop signal): at most two lists of A after this point.
//  3. Wait until B has stored 8 lists after the reload.  A generator that was not stopped keeps its own
//     period and stores about as many; three or more lists with A's duration after the reload is a
//     violation.  Among the lists after A's last one the numbers must strictly increase.
//  4. A revocation on B (generate-on-revoke) must then be in the served list.
func runReload(rl *Reload) (string, string, string) {
	type st struct{ num, dur int64 }
	var mu sync.Mutex
	var stored []st
	hooks := &ss.Hooks{After: func(op, key string, ok bool, err error) error {
		if op == "storecrl" && err == nil {
			n, d := ss.CRLKey(key)
			mu.Lock()
			stored = append(stored, st{n, d})
			mu.Unlock()
		}
		return nil
	}}
	count := func(from int, dur int64) int {
		mu.Lock()
		defer mu.Unlock()
		k := 0
		for _, x := range stored[from:] {
			if x.dur == dur {
				k++
			}
		}
		return k
	}
	waitUntil := func(cond func() bool) bool {
		deadline := time.Now().Add(3 * time.Minute)
		for !cond() {
			if time.Now().After(deadline) {
				return false
			}
			time.Sleep(20 * time.Millisecond)
		}
		return true
	}
	in := fmt.Sprintf("reload d1=%d d2=%d gor=%s", rl.D1, rl.D2, c.B(rl.GOR))
	a := must(fixture.New(fixture.Opts{CRL: crlCfg(rl.D1, false), WrapDB: ss.Wrap(hooks)}))
	defer os.RemoveAll(a.DBDir)
	if !waitUntil(func() bool { return count(0, int64(rl.D1)) >= 2 }) {
		a.Auth.Shutdown()
		return in, "ok", "ok" // inconclusive: A's ticker never ticked within the deadline
	}
	// ca.Reload: new authority with the same database handle and keys, then CloseForReload on the old one
	b := must(fixture.New(fixture.Opts{CRL: crlCfg(rl.D2, rl.GOR), NoDB: true, From: a,
		Extra: []authority.Option{authority.WithDatabase(a.Auth.GetDatabase())}}))
	a.Auth.CloseForReload()
	mu.Lock()
	mark := len(stored)
	mu.Unlock()
	waitUntil(func() bool { return count(mark, int64(rl.D2)) >= 8 || count(mark, int64(rl.D1)) >= 3 })
	var problems []string
	mu.Lock()
	after := append([]st{}, stored[mark:]...)
	mu.Unlock()
	oldAfter, lastOld := 0, -1
	for i, x := range after {
		if x.dur != int64(rl.D2) {
			oldAfter++
			lastOld = i
		}
	}
	if oldAfter >= 3 {
		problems = append(problems, fmt.Sprintf("lists-stored-after-reload-with-old-interval-%d:%d-of-%d", rl.D1, oldAfter, len(after)))
	}
	// the list right after A's last one may have been computed concurrently with it (two mutexes)
	for i := lastOld + 3; i < len(after); i++ {
		if after[i].num <= after[i-1].num {
			problems = append(problems, "stored-number-not-increasing")
			break
		}
	}
	if rl.GOR && oldAfter < 3 {
		eb := &env{ca: b}
		crt := eb.issue()
		serial := crt.SerialNumber.String()
		if eb.revokeToken(serial) != 200 {
			problems = append(problems, "revocation-refused")
		} else {
			l := eb.fetch()
			found := false
			for _, en := range l.entries {
				if strings.HasPrefix(en, c.X(serial)+":") {
					found = true
				}
			}
			mu.Lock()
			lateOld := 0
			for _, x := range stored[mark+len(after):] {
				if x.dur != int64(rl.D2) {
					lateOld++
				}
			}
			mu.Unlock()
			if l.bad != "" {
				problems = append(problems, "served-list-"+l.bad)
			} else if !found && lateOld == 0 {
				problems = append(problems, "acknowledged-revocation-missing-from-served-list")
			} else if lateOld > 0 && oldAfter+lateOld >= 3 {
				problems = append(problems, fmt.Sprintf("lists-stored-after-reload-with-old-interval-%d", rl.D1))
			}
		}
	}
	b.Auth.Shutdown()
	if len(problems) > 0 {
		return in, "VIOLATION " + strings.Join(problems, ","), "ok"
	}
	return in, "ok", "ok"
}

func runConfig(cf *Config) (string, string) {
	dur := func(p *int64) *provisioner.Duration {
		if p == nil {
			return nil
		}
		return &provisioner.Duration{Duration: time.Duration(*p)}
	}
	show := func(p *int64) string {
		if p == nil {
			return "-"
		}
		return strconv.FormatInt(*p, 10)
	}
	in := fmt.Sprintf("cfg enabled=%s cache=%s renew=%s", c.B(cf.Enabled), show(cf.Cache), show(cf.Renew))
	// generate-on-revoke is on in every case: whatever the defaulting does to the durations, the other options of the section stay
	crl := &config.CRLConfig{Enabled: cf.Enabled, GenerateOnRevoke: true, CacheDuration: dur(cf.Cache), RenewPeriod: dur(cf.Renew)}
	whole := &config.Config{CRL: crl}
	whole.Init()
	if err := crl.Validate(); err != nil {
		return in, "refused"
	}
	if !cf.Enabled {
		d := int64(0)
		if crl.CacheDuration != nil {
			d = int64(crl.CacheDuration.Duration)
		}
		return in, fmt.Sprintf("cache=%d tick=%d", d, int64(crl.TickerDuration()))
	}
	// the authority's own defaulting (cache duration absent or <= 0 => 24 h) runs inside a real authority; with a positive
	// cache duration nothing is defaulted and TickerDuration can be asked directly (a sub-second period would make the
	// real generator spin)
	if crl.CacheDuration != nil && crl.CacheDuration.Duration > 0 && crl.TickerDuration() < time.Second {
		out := fmt.Sprintf("cache=%d tick=%d", int64(crl.CacheDuration.Duration), int64(crl.TickerDuration()))
		if crl.TickerDuration() == 0 {
			// time.NewTicker(0) in startCRLGenerator: confirm on the real authority
			crashed := false
			func() {
				defer func() {
					if recover() != nil {
						crashed = true
					}
				}()
				dir := must(os.MkdirTemp("", "verif-c08-cfg-")) // the panic leaves the fixture no chance to remove its own
				defer os.RemoveAll(dir)
				if ca, err := fixture.New(fixture.Opts{CRL: crl, DBDir: dir}); err == nil {
					ca.Close()
				}
			}()
			if crashed {
				out += " crash"
			}
		}
		return in, out
	}
	ca, err := fixture.New(fixture.Opts{CRL: crl})
	if err != nil {
		return in, "start-failed"
	}
	defer ca.Close()
	eff := ca.Auth.GetConfig().CRL
	out := fmt.Sprintf("cache=%d tick=%d", int64(eff.CacheDuration.Duration), int64(eff.TickerDuration()))
	l := (&env{ca: ca}).fetch()
	if l.bad != "" || (l.next-l.this)*int64(time.Second) != int64(eff.CacheDuration.Duration)/int64(time.Second)*int64(time.Second) {
		out += " VIOLATION=served-interval-differs-from-effective-cache-duration"
	}
	if !eff.Enabled || !eff.GenerateOnRevoke {
		out += " VIOLATION=option-of-the-crl-section-lost-by-the-defaulting"
	}
	// and the option works: a revocation is in the list served right after its acknowledgement
	e := &env{ca: ca}
	serial := e.issue().SerialNumber.String()
	if e.revokeToken(serial) != 200 {
		out += " VIOLATION=revocation-refused"
	} else {
		found := false
		for _, en := range e.fetch().entries {
			if strings.HasPrefix(en, c.X(serial)+":") {
				found = true
			}
		}
		if !found {
			out += " VIOLATION=acknowledged-revocation-missing-from-served-list"
		}
	}
	return in, out
}

// runHandler returns one model line per request joined by " ;; " is not possible (one line = one case): it emits the
// four requests of one case as four rows through emit.
func runHandler(hd *Handler, emit func(in, impl string)) {
	var e *env
	if hd.Enabled {
		e = newEnv(true, minCache, nil)
	} else {
		e = &env{ca: must(fixture.New(fixture.Opts{}))}
	}
	defer e.ca.Close()
	crl := "none"
	var served *list
	if hd.Enabled {
		for i := 0; i < hd.Gens; i++ {
			e.ca.Auth.GenerateCertificateRevocationList()
		}
		for i := 0; i < hd.Revs; i++ {
			e.revokeToken(e.issue().SerialNumber.String())
		}
		l := e.fetch()
		served = l
		crl = fmt.Sprintf("%d:%d:%d", l.num, l.this, l.next)
	}
	mux := chi.NewRouter()
	api.Route(mux)
	mux.Route("/1.0", func(r chi.Router) { api.Route(r) })
	for _, path := range []string{"/crl", "/1.0/crl", "/crl?pem", "/1.0/crl?pem=1"} {
		req := httptest.NewRequest("GET", "https://"+fixture.DNSName+path, nil)
		req = req.WithContext(authority.NewContext(req.Context(), e.ca.Auth))
		w := httptest.NewRecorder()
		mux.ServeHTTP(w, req)
		pemReq := strings.Contains(path, "pem")
		in := fmt.Sprintf("rsp path=%s enabled=%s pem=%s crl=%s", c.X(path), c.B(hd.Enabled), c.B(pemReq), crl)
		impl := strconv.Itoa(w.Code)
		if w.Code == 200 {
			body := w.Body.Bytes()
			gotPEM := w.Header().Get("Content-Type") == "application/x-pem-file"
			if gotPEM {
				if blk, _ := pem.Decode(body); blk != nil && blk.Type == "X509 CRL" {
					body = blk.Bytes
				} else {
					body = nil
				}
			} else if w.Header().Get("Content-Type") != "application/pkix-crl" {
				impl += " CONTENT-TYPE"
			}
			wantDisp := map[bool]string{false: `attachment; filename="crl.der"`, true: `attachment; filename="crl.pem"`}[gotPEM]
			if w.Header().Get("Content-Disposition") != wantDisp {
				impl += " DISPOSITION"
			}
			exp, err := time.Parse(time.RFC1123, w.Header().Get("Expires"))
			num := int64(-1)
			if rl, err2 := x509.ParseRevocationList(body); err2 == nil && rl.Number != nil {
				num = rl.Number.Int64()
				if rl.CheckSignatureFrom(e.ca.MiniCA.Intermediate) != nil {
					impl += " BADSIG"
				}
			} else {
				impl += " BADDER"
			}
			if err != nil {
				impl += " EXPIRES-HEADER"
			}
			impl += fmt.Sprintf(" exp=%d pem=%s n=%d", exp.Unix(), c.B(gotPEM), num)
			if served != nil && (exp.Unix() != served.next || num != served.num || gotPEM != pemReq) {
				impl += " VIOLATION=response-differs-from-stored-list"
			}
		} else if hd.Enabled {
			impl += " VIOLATION=list-not-served"
		}
		emit(in, impl)
	}
}

func runInflight(f *Inflight) (string, string, string) {
	var mu sync.Mutex
	var stored []int64
	var armed int32
	parked := make(chan struct{}, 1)
	release := make(chan struct{})
	hooks := &ss.Hooks{After: func(op, key string, ok bool, err error) error {
		if op == "storecrl" && err == nil {
			n, _ := ss.CRLKey(key)
			mu.Lock()
			stored = append(stored, n)
			mu.Unlock()
		}
		if (f.Park == "after-getcrl" && op == "getcrl") || (f.Park == "after-list" && op == "listrevoked") {
			if atomic.CompareAndSwapInt32(&armed, 1, 0) {
				parked <- struct{}{}
				<-release
			}
		}
		return nil
	}}
	in := fmt.Sprintf("inflight park=%s revoke=%s", f.Park, c.B(f.Revoke))
	hour := &provisioner.Duration{Duration: time.Hour}
	cfg := func() *config.CRLConfig {
		return &config.CRLConfig{Enabled: true, GenerateOnRevoke: true, CacheDuration: hour, RenewPeriod: hour}
	}
	a := must(fixture.New(fixture.Opts{CRL: cfg(), WrapDB: ss.Wrap(hooks)}))
	defer os.RemoveAll(a.DBDir)
	if f.Park == "window-old" || f.Park == "window-new" {
		ea := &env{ca: a}
		crtA := ea.issue() // issued before the reload
		b := must(fixture.New(fixture.Opts{CRL: cfg(), NoDB: true, From: a, Extra: []authority.Option{authority.WithDatabase(a.Auth.GetDatabase())}}))
		eb := &env{ca: b}
		first := eb.fetch() // the new authority's start-up list
		revoker, other := ea, eb
		if f.Park == "window-new" {
			revoker, other = eb, ea
		}
		serial := crtA.SerialNumber.String()
		var problems []string
		if revoker.revokeToken(serial) != 200 {
			problems = append(problems, "revocation-refused")
		}
		acked := revoker.fetch() // what the client that revoked sees
		seen := other.fetch()    // what a client of the other server sees right away
		a.Auth.CloseForReload()
		final := eb.fetch() // and after the old authority is gone
		for name, l := range map[string]*list{"other-authority": seen, "after-close": final} {
			if l.bad != "" {
				problems = append(problems, name+"-"+l.bad)
				continue
			}
			if l.num < acked.num || l.num < first.num {
				problems = append(problems, fmt.Sprintf("%s-served-number-went-back-%d-after-%d", name, l.num, acked.num))
			}
			found := false
			for _, en := range l.entries {
				if strings.HasPrefix(en, c.X(serial)+":") {
					found = true
				}
			}
			if !found {
				problems = append(problems, name+"-acknowledged-revocation-missing-from-served-list")
			}
		}
		mu.Lock()
		for i := 1; i < len(stored); i++ {
			if stored[i] <= stored[i-1] {
				problems = append(problems, fmt.Sprintf("stored-number-%d-after-%d", stored[i], stored[i-1]))
				break
			}
		}
		mu.Unlock()
		b.Auth.Shutdown()
		if len(problems) > 0 {
			sort.Strings(problems)
			return in, "VIOLATION " + strings.Join(problems, ","), "ok"
		}
		return in, "ok", "ok"
	}
	atomic.StoreInt32(&armed, 1)
	g := make(chan error, 1)
	go func() { g <- a.Auth.GenerateCertificateRevocationList() }()
	select {
	case <-parked:
	case <-time.After(3 * time.Minute):
		return in, "ok", "ok" // inconclusive
	}
	// ca.Reload, first half: the new authority on the same database handle, then (optionally) a revocation served
	// by it. If the two authorities exclude each other, this blocks on the mutex the parked generation holds: then
	// the parked generation is released (after 300 ms) and everything simply happens one after the other.
	var b *fixture.CA
	var problems []string
	serial := ""
	var acked *list
	done := make(chan struct{})
	go func() {
		defer close(done)
		b = must(fixture.New(fixture.Opts{CRL: cfg(), NoDB: true, From: a, Extra: []authority.Option{authority.WithDatabase(a.Auth.GetDatabase())}}))
		eb := &env{ca: b}
		if f.Revoke {
			crt := eb.issue()
			serial = crt.SerialNumber.String()
			if eb.revokeToken(serial) != 200 {
				problems = append(problems, "revocation-refused")
			}
		}
		acked = eb.fetch()
	}()
	released := false
	select {
	case <-done:
	case <-time.After(300 * time.Millisecond):
		close(release)
		released = true
		<-done
	}
	eb := &env{ca: b}
	if !released {
		close(release) // the old authority's request goes on
	}
	select {
	case <-g:
	case <-time.After(3 * time.Minute):
		problems = append(problems, "generation-stuck")
	}
	a.Auth.CloseForReload() // ca.Reload, second half
	final := eb.fetch()
	mu.Lock()
	for i := 1; i < len(stored); i++ {
		if stored[i] <= stored[i-1] {
			problems = append(problems, fmt.Sprintf("stored-number-%d-after-%d", stored[i], stored[i-1]))
			break
		}
	}
	mu.Unlock()
	if final.num < acked.num {
		problems = append(problems, fmt.Sprintf("served-number-went-back-%d-after-%d", final.num, acked.num))
	}
	if f.Revoke {
		found := false
		for _, en := range final.entries {
			if strings.HasPrefix(en, c.X(serial)+":") {
				found = true
			}
		}
		if !found {
			problems = append(problems, "acknowledged-revocation-missing-from-served-list")
		}
	}
	b.Auth.Shutdown()
	if len(problems) > 0 {
		return in, "VIOLATION " + strings.Join(problems, ","), "ok"
	}
	return in, "ok", "ok"
}

func runDowntime(dt *Downtime) (string, string, string) {
	type st struct {
		num int64
		at  time.Time
	}
	var mu sync.Mutex
	var stored []st
	hooks := &ss.Hooks{After: func(op, key string, ok bool, err error) error {
		if op == "storecrl" && err == nil {
			n, _ := ss.CRLKey(key)
			mu.Lock()
			stored = append(stored, st{n, time.Now()})
			mu.Unlock()
		}
		return nil
	}}
	in := fmt.Sprintf("downtime gens=%d gor=%s", dt.Gens, c.B(dt.GOR))
	sec := &provisioner.Duration{Duration: time.Second}
	a := must(fixture.New(fixture.Opts{CRL: &config.CRLConfig{Enabled: true, GenerateOnRevoke: dt.GOR, CacheDuration: sec, RenewPeriod: sec}, WrapDB: ss.Wrap(hooks)}))
	var problems []string
	ea := &env{ca: a}
	var serials []string
	for i := 0; i < dt.Gens; i++ {
		if dt.GOR {
			crt := ea.issue()
			serials = append(serials, crt.SerialNumber.String())
			if ea.revokeToken(crt.SerialNumber.String()) != 200 {
				problems = append(problems, "revocation-refused")
			}
		} else if err := a.Auth.GenerateCertificateRevocationList(); err != nil {
			problems = append(problems, "generation-failed")
		}
	}
	if err := a.Auth.Shutdown(); err != nil {
		problems = append(problems, "shutdown-failed")
	}
	// the downtime: the stored list expires (NextUpdate = its generation second + 1 s)
	lastStored := func() st {
		mu.Lock()
		defer mu.Unlock()
		return stored[len(stored)-1]
	}
	last := lastStored()
	for {
		time.Sleep(time.Until(last.at.Truncate(time.Second).Add(2100 * time.Millisecond)))
		if l := lastStored(); l.at.Equal(last.at) {
			break
		} else {
			last = l
		}
	}
	hour := &provisioner.Duration{Duration: time.Hour}
	b, err := fixture.New(fixture.Opts{CRL: &config.CRLConfig{Enabled: true, GenerateOnRevoke: dt.GOR, CacheDuration: hour, RenewPeriod: hour},
		WrapDB: ss.Wrap(hooks), DBDir: a.DBDir, From: a})
	defer os.RemoveAll(a.DBDir)
	if err != nil {
		return in, "VIOLATION restart-failed", "ok"
	}
	eb := &env{ca: b}
	l1 := eb.fetch()
	if err := b.Auth.GenerateCertificateRevocationList(); err != nil {
		problems = append(problems, "generation-failed")
	}
	l2 := eb.fetch()
	if l1.bad != "" || l2.bad != "" {
		problems = append(problems, "served-list-"+l1.bad+l2.bad)
	}
	// numbers_consecutive on everything that was stored, before and after the downtime, whoever stored it
	mu.Lock()
	for i := 1; i < len(stored); i++ {
		if stored[i].num != stored[i-1].num+1 {
			problems = append(problems, fmt.Sprintf("stored-numbers-not-consecutive-%d-after-%d", stored[i].num, stored[i-1].num))
			break
		}
	}
	if n := len(stored); l2.bad == "" && (l2.num != stored[n-1].num || l1.num != l2.num-1) {
		problems = append(problems, "served-list-is-not-the-newest")
	}
	mu.Unlock()
	if dt.GOR && len(l2.entries) != len(serials) {
		problems = append(problems, "list-after-downtime-incomplete")
	}
	b.Auth.Shutdown()
	if len(problems) > 0 {
		return in, "VIOLATION " + strings.Join(problems, ","), "ok"
	}
	return in, "ok", "ok"
}

func runACME(ac *ACME) (string, string, string) {
	in := fmt.Sprintf("acme key=%s", c.B(ac.Key))
	e, err := acmeenv.New([]acmeenv.ProvSpec{{Name: "acme"}}, nil)
	if err != nil {
		panic(err)
	}
	defer e.Close()
	// the environment's authority has no CRL section; switch publication on (no ticker: generations are forced)
	hour := &provisioner.Duration{Duration: time.Hour}
	e.Auth.GetConfig().CRL = &config.CRLConfig{Enabled: true, GenerateOnRevoke: true, CacheDuration: hour, RenewPeriod: hour}
	acct, err := e.NewAccount("acme", acmeenv.NewKey("es256", 1))
	if err != nil {
		panic(err)
	}
	is, err := e.Issue(acct, "h"+must(randutil.Hex(8))+".example.com")
	if err != nil {
		panic(err)
	}
	serial := is.Cert.SerialNumber.String()
	pl, _ := json.Marshal(map[string]any{"certificate": base64.RawURLEncoding.EncodeToString(is.Cert.Raw), "reason": 1})
	path := acmeenv.Path("acme", "revoke-cert")
	var code int
	if ac.Key {
		s := &acmeenv.Shape{Ser: "flat", Protected: map[string]any{"alg": is.CertKey.DefaultAlg(), "nonce": e.Nonce("acme"),
			"url": acmeenv.URL(path), "jwk": acmeenv.JWKMap(is.CertKey.JWK())}, Payload: pl, NSigs: 1, SignKey: is.CertKey}
		b, _ := s.Build()
		code = e.Do("POST", path, b).Code
	} else {
		code = e.Post(acct, path, pl).Code
	}
	if code != 200 {
		return in, fmt.Sprintf("revocation-refused status=%d", code), "ok"
	}
	var problems []string
	var rec *db.RevokedCertificateInfo
	for _, en := range ss.Dump(e.Auth.GetDatabase(), "revoked_x509_certs") {
		if en.Key == serial {
			var r db.RevokedCertificateInfo
			if json.Unmarshal(en.Value, &r) == nil {
				rec = &r
			}
		}
	}
	switch {
	case rec == nil:
		problems = append(problems, "acknowledged-revocation-not-stored")
	case rec.ExpiresAt.Unix() != is.Cert.NotAfter.Unix():
		exp := "-"
		if !rec.ExpiresAt.IsZero() {
			exp = strconv.FormatInt(rec.ExpiresAt.Unix(), 10)
		}
		problems = append(problems, fmt.Sprintf("record-expiry-%s-differs-from-certificate-%d", exp, is.Cert.NotAfter.Unix()))
	}
	// generate-on-revoke: the served list contains the serial with the record's revocation time
	info, err := e.Auth.GetCertificateRevocationList()
	if err != nil {
		problems = append(problems, "no-list-served")
	} else if rl, err := x509.ParseRevocationList(info.Data); err != nil {
		problems = append(problems, "served-list-BADDER")
	} else {
		found := false
		for _, en := range rl.RevokedCertificateEntries {
			if en.SerialNumber.String() == serial && rec != nil && en.RevocationTime.Unix() == rec.RevokedAt.Unix() {
				found = true
			}
		}
		if !found {
			problems = append(problems, "acknowledged-revocation-missing-from-served-list")
		}
	}
	if len(problems) > 0 {
		return in, "VIOLATION " + strings.Join(problems, ","), "ok"
	}
	return in, "ok", "ok"
}

func cornerHists() []*Hist {
	all := []CertSpec{{"issued", 0}, {"unknown", 0}, {"carried", -7200}, {"carried", -3601}, {"carried", -3600}, {"carried", -3599}, {"carried", -1800}, {"carried", 3600},
		{"stored", -90000}, {"stored", -3601}, {"stored", -3599}, {"stored", 1800}, {"stored", 90000}}
	var ops []Op
	for i := range all {
		ops = append(ops, Op{"rev", i, 0})
	}
	ops2 := append(append([]Op{}, ops...), Op{"gen", 0, 0}, Op{"rev", 0, 0}, Op{"restart", 0, 0}, Op{"rev", 3, 0}, Op{"gen", 0, 0}, Op{"restart", 0, 0}, Op{"restart", 0, 0}, Op{"gen", 0, 0})
	// failing generations: each storage call of the critical section in turn, then a clean one; a revocation whose regeneration fails
	failing := []Op{{"gen", 0, 2}, {"gen", 0, 0}, {"gen", 0, 3}, {"rev", 0, 4}, {"gen", 0, 4}, {"rev", 0, 0}, {"rev", 1, 3}, {"gen", 0, 0}, {"restart", 0, 0}, {"rev", 2, 2}, {"gen", 0, 0}}
	return []*Hist{
		{GOR: true, Cache: 3600, Certs: all, Ops: ops2},
		{IDP: "https://crl.example.com/ca.crl", GOR: false, Cache: 86400, Certs: all, Ops: ops2},
		{GOR: true, Cache: 604800, Certs: all[:2], Ops: []Op{{"gen", 0, 0}, {"gen", 0, 0}, {"restart", 0, 0}, {"rev", 0, 0}, {"rev", 1, 0}, {"rev", 1, 0}}},
		{GOR: true, Cache: 7200, Certs: all[:3], Ops: failing},
		{GOR: false, Cache: 3600, Certs: all[:3], Ops: failing},
	}
}

func genHist(r *c.Rng) *Hist {
	h := &Hist{IDP: c.Pick(r, []string{"", "", "https://crl.example.com/ca.crl", "http://10.0.0.1/crl?x=1", "ldap://dir.example.com/cn=ca"}), GOR: !r.Chance(1, 3), Cache: c.Pick(r, []int{3600, 7200, 43200, 86400, 604800})}
	nc := 1 + r.Intn(6)
	for i := 0; i < nc; i++ {
		switch r.Intn(5) {
		case 0:
			h.Certs = append(h.Certs, CertSpec{"issued", 0})
		case 1:
			h.Certs = append(h.Certs, CertSpec{"unknown", 0})
		case 2:
			h.Certs = append(h.Certs, CertSpec{"stored", c.Pick(r, []int{-90000, -7200, -3603, -3602, -3601, -3600, -3599, -3598, -3000, -1, 60, 3600, 90000, 172800})}) // (> 86400: not valid yet)
		default:
			h.Certs = append(h.Certs, CertSpec{"carried", c.Pick(r, []int{-90000, -7200, -3603, -3602, -3601, -3600, -3599, -3598, -3000, -1, 0, 60, 3600})})
		}
	}
	n := 2 + r.Intn(10)
	for i := 0; i < n; i++ {
		switch r.Intn(8) {
		case 0:
			h.Ops = append(h.Ops, Op{"restart", 0, 0})
		case 1, 2:
			f := 0
			if r.Chance(1, 4) {
				f = 2 + r.Intn(3)
			}
			h.Ops = append(h.Ops, Op{"gen", 0, f})
		default:
			f := 0
			if r.Chance(1, 8) {
				f = 2 + r.Intn(3)
			}
			h.Ops = append(h.Ops, Op{"rev", r.Intn(nc), f})
		}
	}
	return h
}

func runCase(o *c.Out, k *Case) {
	var in, impl, want string
	func() {
		defer func() {
			if e := recover(); e != nil {
				if in == "" {
					in = "crashed-before-input"
				}
				impl = "crash"
				fmt.Fprintln(os.Stderr, "panic:", e)
			}
		}()
		switch {
		case k.Hist != nil:
			in, impl = runHist(k.Hist)
		case k.Race != nil:
			in, impl, want = runRace(k.Race)
		case k.Sched != nil:
			in, impl, want = runSched(k.Sched)
		case k.Reload != nil:
			in, impl, want = runReload(k.Reload)
		case k.Downtime != nil:
			in, impl, want = runDowntime(k.Downtime)
		case k.Inflight != nil:
			in, impl, want = runInflight(k.Inflight)
		case k.CACRL != nil:
			in, impl, want = runCACRL(k.CACRL)
		case k.Config != nil:
			in, impl = runConfig(k.Config)
		case k.Handler != nil:
			runHandler(k.Handler, func(i, m string) { o.Case(i+" "+caseField(k), m) })
			return
		case k.ACME != nil:
			in, impl, want = runACME(k.ACME)
		}
	}()
	if in == "" {
		return
	}
	if want != "" {
		o.Row(in+" "+caseField(k), impl, want)
	} else {
		o.Case(in+" "+caseField(k), impl)
	}
}

func main() {
	n := flag.Int("n", 100, "number of generated cases")
	out := flag.String("out", "", "output file")
	replay := flag.String("replay", "", "file of lines with a case=x<hex json> field to re-run")
	stage := flag.String("stage", "hist", "hist | cacrl | config | handler | sched | reload | inflight | downtime | acme | race")
	flag.Parse()
	o, err := c.NewOut(*out)
	if err != nil {
		fmt.Fprintln(os.Stderr, err)
		os.Exit(2)
	}
	defer o.Close()
	if *replay != "" {
		data, err := os.ReadFile(*replay)
		if err != nil {
			fmt.Fprintln(os.Stderr, err)
			os.Exit(2)
		}
		for _, l := range strings.Split(string(data), "\n") {
			i := strings.Index(l, "case=x")
			if i < 0 {
				continue
			}
			h := l[i+6:]
			if j := strings.IndexAny(h, " \t"); j >= 0 {
				h = h[:j]
			}
			js, err := hex.DecodeString(h)
			if err != nil {
				continue
			}
			var k Case
			if json.Unmarshal(js, &k) == nil {
				runCase(o, &k)
			}
		}
		return
	}
	r := c.NewRng(c.Seed())
	switch *stage {
	case "hist":
		for _, h := range cornerHists() {
			runCase(o, &Case{Hist: h})
		}
		for i := 0; i < *n; i++ {
			runCase(o, &Case{Hist: genHist(r.Fork())})
		}
	case "race":
		for i := 0; i < *n; i++ {
			rr := r.Fork()
			runCase(o, &Case{Race: &Race{GOR: !rr.Chance(1, 3), Revokers: 1 + rr.Intn(8), Gens: rr.Intn(4), Fetchers: rr.Intn(3)}})
		}
	case "cacrl":
		for _, cc := range []CACRL{{D1: 3600, D2: 7200, Reload: true}, {D1: 86400, D2: 3600, Reload: true}, {D1: 600, Reload: false},
			{D1: 3600, D2: 1800, Reload: true, Bundle: true}, {D1: 7200, Reload: false, Bundle: true}} {
			cc := cc
			runCase(o, &Case{CACRL: &cc})
		}
	case "config":
		p := func(v int64) *int64 { return &v }
		h := int64(time.Hour)
		vals := []*int64{nil, p(0), p(1), p(2), p(3), p(int64(time.Second)), p(90 * int64(time.Second)), p(h), p(24 * h), p(25 * h), p(-1), p(h / 2), p(2 * h)}
		for _, en := range []bool{true, false} {
			for _, ca := range vals {
				for _, re := range vals {
					runCase(o, &Case{Config: &Config{Enabled: en, Cache: ca, Renew: re}})
				}
			}
		}
		for i := 0; i < *n; i++ {
			rr := r.Fork()
			pick := func() *int64 {
				switch rr.Intn(6) {
				case 0:
					return nil
				case 1:
					return p(int64(rr.Intn(5)) - 1)
				default:
					return p(int64(rr.Intn(200000)) * int64(time.Second) / 2)
				}
			}
			runCase(o, &Case{Config: &Config{Enabled: !rr.Chance(1, 5), Cache: pick(), Renew: pick()}})
		}
	case "handler":
		runCase(o, &Case{Handler: &Handler{Enabled: false}})
		runCase(o, &Case{Handler: &Handler{Enabled: true}})
		for i := 0; i < *n; i++ {
			rr := r.Fork()
			runCase(o, &Case{Handler: &Handler{Enabled: !rr.Chance(1, 6), Gens: rr.Intn(4), Revs: rr.Intn(3)}})
		}
	case "inflight":
		log.SetOutput(io.Discard)
		for _, f := range []Inflight{{"after-getcrl", false}, {"after-list", false}, {"after-getcrl", true}, {"after-list", true}, {"window-old", true}, {"window-new", true}} {
			f := f
			runCase(o, &Case{Inflight: &f})
		}
	case "downtime":
		log.SetOutput(io.Discard)
		for i := 0; i < *n; i++ {
			runCase(o, &Case{Downtime: &Downtime{Gens: r.Fork().Intn(4), GOR: i%2 == 1}})
		}
	case "acme":
		for i := 0; i < *n; i++ {
			runCase(o, &Case{ACME: &ACME{Key: i%2 == 1}})
		}
	case "reload":
		log.SetOutput(io.Discard) // the generator goroutines log every tick
		for i := 0; i < *n; i++ {
			rr := r.Fork()
			d := []int{60, 600, 3600, 86400}
			d1 := c.Pick(rr, d)
			d2 := c.Pick(rr, d)
			for d2 == d1 {
				d2 = c.Pick(rr, d)
			}
			runCase(o, &Case{Reload: &Reload{D1: d1, D2: d2, GOR: i%2 == 0}})
		}
	case "sched":
		parks := []string{"after-list", "before-getcrl", "before-storecrl"}
		for _, p := range parks {
			runCase(o, &Case{Sched: &Sched{Park: p, Pre: 1, Revs: 1}})
		}
		for i := 0; i < *n; i++ {
			rr := r.Fork()
			runCase(o, &Case{Sched: &Sched{Park: c.Pick(rr, parks), Pre: rr.Intn(3), Revs: 1 + rr.Intn(3)}})
		}
	default:
		fmt.Fprintln(os.Stderr, "unknown stage")
		os.Exit(2)
	}
}
