package main

import (
	"bytes"
	"crypto/ecdsa"
	"crypto/elliptic"
	"crypto/rand"
	"crypto/sha1"
	"crypto/tls"
	"crypto/x509"
	"crypto/x509/pkix"
	"encoding/json"
	"encoding/pem"
	"fmt"
	"io"
	"log"
	"math/big"
	"net"
	"net/http"
	"os"
	"path/filepath"
	"strings"
	"time"

	"go.step.sm/crypto/jose"
	"go.step.sm/crypto/minica"
	"go.step.sm/crypto/pemutil"
	"go.step.sm/crypto/randutil"

	"github.com/smallstep/certificates/authority/config"
	"github.com/smallstep/certificates/authority/provisioner"
	"github.com/smallstep/certificates/ca"
	"github.com/smallstep/certificates/db"
	c "verif/harness/common"
	"verif/harness/fixture"
)

// CACRL: the real ca.CA (ca.New on a ca.json in a temp directory, ca.Run serving HTTPS and the insecure HTTP
// listener on loopback) with CRL publication and generate-on-revoke: the list is fetched through GET /crl and
// /1.0/crl on both listeners; a revocation by token through POST /1.0/revoke; then the ca.json is rewritten with
// another cache duration and CA.Reload() (SIGHUP) is called; another revocation. Every list must parse, be signed by
// the issuing certificate, carry the configured interval of the configuration in force, a larger number than the
// one before, and every acknowledged serial.
type CACRL struct {
	D1, D2 int // cache durations in seconds before and after the reload
	Reload bool
	// Bundle: the intermediate certificate file (`crt`) is a bundle: the issuing CA's certificate followed by the certificate of
	// an upper intermediate CA that issued it (root -> upper -> issuing). The lists must still be the issuing CA's: its name as
	// issuer, its key identifier as authority key identifier, its key under the signature.
	Bundle bool
}

func runCACRL(cc *CACRL) (in, impl, want string) {
	in = fmt.Sprintf("cacrl d1=%d d2=%d reload=%s bundle=%s", cc.D1, cc.D2, c.B(cc.Reload), c.B(cc.Bundle))
	want = "ok"
	// set-up failures of the stage itself (temp files, listeners, the CA's start-up on a loaded machine) are
	// inconclusive; panics of request handlers are recovered by net/http and show up as a status
	defer func() {
		if p := recover(); p != nil {
			fmt.Fprintln(os.Stderr, "cacrl: set-up failed:", p)
			impl = "ok"
		}
	}()
	log.SetOutput(io.Discard)
	dir := must(os.MkdirTemp("", "verif-c08-ca-"))
	defer os.RemoveAll(dir)
	mca := must(minica.New(minica.WithName("VerifCRL")))
	var anchors []*x509.Certificate // further certificates the harness's own TLS client trusts (the chain above the issuing CA)
	interPEM := pem.EncodeToMemory(&pem.Block{Type: "CERTIFICATE", Bytes: mca.Intermediate.Raw})
	if cc.Bundle {
		// mca's intermediate becomes the upper CA; a third CA under it is the issuing one
		upper, upperKey := mca.Intermediate, mca.Signer
		key := must(ecdsa.GenerateKey(elliptic.P256(), rand.Reader))
		ski := sha1.Sum(elliptic.Marshal(elliptic.P256(), key.X, key.Y))
		tpl := &x509.Certificate{SerialNumber: big.NewInt(time.Now().UnixNano()), Subject: pkix.Name{CommonName: "VerifCRL Issuing CA"},
			NotBefore: time.Now().Add(-time.Minute), NotAfter: time.Now().Add(24 * time.Hour), KeyUsage: x509.KeyUsageCertSign | x509.KeyUsageCRLSign,
			BasicConstraintsValid: true, IsCA: true, MaxPathLenZero: true, SubjectKeyId: ski[:]}
		// the upper CA of minica has path length 0: give the chain an upper CA that may have a subordinate
		upTpl := &x509.Certificate{SerialNumber: big.NewInt(time.Now().UnixNano() + 1), Subject: pkix.Name{CommonName: "VerifCRL Upper CA"},
			NotBefore: time.Now().Add(-time.Minute), NotAfter: time.Now().Add(24 * time.Hour), KeyUsage: x509.KeyUsageCertSign | x509.KeyUsageCRLSign,
			BasicConstraintsValid: true, IsCA: true, MaxPathLen: 1, SubjectKeyId: upper.SubjectKeyId}
		upper = must(x509.ParseCertificate(must(x509.CreateCertificate(rand.Reader, upTpl, mca.Root, upperKey.Public(), mca.RootSigner))))
		issuing := must(x509.ParseCertificate(must(x509.CreateCertificate(rand.Reader, tpl, upper, &key.PublicKey, upperKey))))
		anchors = append(anchors, upper, issuing)
		mca = &minica.CA{Root: mca.Root, RootSigner: mca.RootSigner, Intermediate: issuing, Signer: key}
		interPEM = append(pem.EncodeToMemory(&pem.Block{Type: "CERTIFICATE", Bytes: issuing.Raw}), pem.EncodeToMemory(&pem.Block{Type: "CERTIFICATE", Bytes: upper.Raw})...)
	}
	write := func(name string, data []byte) string {
		p := filepath.Join(dir, name)
		if err := os.WriteFile(p, data, 0o600); err != nil {
			panic(err)
		}
		return p
	}
	jwk := must(jose.GenerateJWK("EC", "P-256", "ES256", "sig", "", 0))
	jwk.KeyID = must(jose.Thumbprint(jwk))
	pub := jwk.Public()
	free := func() string {
		l := must(net.Listen("tcp", "127.0.0.1:0"))
		defer l.Close()
		return l.Addr().String()
	}
	addr, insecure := free(), free()
	dur := func(sec int) *provisioner.Duration {
		return &provisioner.Duration{Duration: time.Duration(sec) * time.Second}
	}
	cfg := &config.Config{
		Root:             []string{write("root.crt", pem.EncodeToMemory(&pem.Block{Type: "CERTIFICATE", Bytes: mca.Root.Raw}))},
		IntermediateCert: write("intermediate.crt", interPEM),
		IntermediateKey:  write("intermediate.key", pem.EncodeToMemory(must(pemutil.Serialize(mca.Signer)))),
		Address:          addr,
		InsecureAddress:  insecure,
		DNSNames:         []string{fixture.DNSName, "127.0.0.1"},
		AuthorityConfig:  &config.AuthConfig{Provisioners: provisioner.List{&provisioner.JWK{Type: "JWK", Name: "jwk", Key: &pub}}},
		TLS:              &config.DefaultTLSOptions,
		DB:               &db.Config{Type: "bbolt", DataSource: filepath.Join(dir, "ca.db")},
		// the generator's period is the cache duration (ten minutes or more): every generation of this case is
		// caused by the case itself
		CRL: &config.CRLConfig{Enabled: true, GenerateOnRevoke: true, CacheDuration: dur(cc.D1), RenewPeriod: dur(cc.D1)},
	}
	cfgFile := filepath.Join(dir, "ca.json")
	if err := cfg.Save(cfgFile); err != nil {
		panic(err)
	}
	theCA := must(ca.New(must(config.LoadConfiguration(cfgFile)), ca.WithConfigFile(cfgFile), ca.WithQuiet(true)))
	go theCA.Run()
	defer theCA.Stop()
	pool := x509.NewCertPool()
	pool.AddCert(mca.Root)
	for _, a := range anchors {
		pool.AddCert(a)
	}
	client := &http.Client{Timeout: 30 * time.Second, Transport: &http.Transport{TLSClientConfig: &tls.Config{RootCAs: pool, ServerName: "127.0.0.1"}}}
	defer client.CloseIdleConnections()
	do := func(method, url string, body []byte) (int, http.Header, []byte) {
		for attempt := 0; attempt < 40; attempt++ {
			req, _ := http.NewRequest(method, url, bytes.NewReader(body))
			if body != nil {
				req.Header.Set("Content-Type", "application/json")
			}
			resp, err := client.Do(req)
			if err != nil { // not listening yet, or a kept-alive connection closed by the reload
				client.CloseIdleConnections()
				time.Sleep(50 * time.Millisecond)
				continue
			}
			b, _ := io.ReadAll(resp.Body)
			resp.Body.Close()
			return resp.StatusCode, resp.Header, b
		}
		return -1, nil, nil
	}
	var problems []string
	lastNum := int64(-1)
	var revoked []string
	checkLists := func(dur int, when string) bool {
		seen := map[int64]bool{}
		for _, u := range []string{"https://" + addr + "/1.0/crl", "https://" + addr + "/crl", "http://" + insecure + "/1.0/crl", "http://" + insecure + "/crl"} {
			code, hdr, body := do("GET", u, nil)
			if code == -1 {
				return false // inconclusive
			}
			if code != 200 {
				problems = append(problems, fmt.Sprintf("%s-status-%d-%s", when, code, u[strings.LastIndex(u, ":"):]))
				continue
			}
			rl, err := x509.ParseRevocationList(body)
			if err != nil || rl.Number == nil {
				problems = append(problems, when+"-BADDER")
				continue
			}
			if rl.CheckSignatureFrom(mca.Intermediate) != nil {
				problems = append(problems, when+"-BADSIG")
			}
			if !bytes.Equal(rl.RawIssuer, mca.Intermediate.RawSubject) {
				problems = append(problems, when+"-ISSUER-is-not-the-issuing-CA:"+strings.ReplaceAll(rl.Issuer.CommonName, " ", "_"))
			}
			if !bytes.Equal(rl.AuthorityKeyId, mca.Intermediate.SubjectKeyId) {
				problems = append(problems, when+"-AKI-is-not-the-issuing-CA-key")
			}
			if rl.NextUpdate.Sub(rl.ThisUpdate) != time.Duration(dur)*time.Second {
				problems = append(problems, fmt.Sprintf("%s-interval-%v-instead-of-%ds", when, rl.NextUpdate.Sub(rl.ThisUpdate), dur))
			}
			if exp, err := time.Parse(time.RFC1123, hdr.Get("Expires")); err != nil || exp.Unix() != rl.NextUpdate.Unix() {
				problems = append(problems, when+"-expires-header")
			}
			if idp, bad := idpOf(rl); bad != "" || idp != "https://"+fixture.DNSName+"/1.0/crl" {
				problems = append(problems, when+"-distribution-point")
			}
			have := map[string]bool{}
			for _, en := range rl.RevokedCertificateEntries {
				have[en.SerialNumber.String()] = true
			}
			for _, sn := range revoked {
				if !have[sn] {
					problems = append(problems, when+"-acknowledged-revocation-missing-from-served-list")
				}
			}
			seen[rl.Number.Int64()] = true
		}
		if len(seen) == 1 {
			for n := range seen {
				if n <= lastNum {
					problems = append(problems, fmt.Sprintf("%s-number-%d-after-%d", when, n, lastNum))
				}
				lastNum = n
			}
		} else if len(seen) > 1 {
			problems = append(problems, when+"-listeners-serve-different-lists")
		}
		return true
	}
	revoke := func() bool {
		serial := randSerial().String()
		now := time.Now()
		tok := mintJWT(jwk, map[string]any{"iss": "jwk", "sub": serial, "aud": "https://" + fixture.DNSName + "/1.0/revoke",
			"iat": now.Unix(), "nbf": now.Add(-time.Minute).Unix(), "exp": now.Add(5 * time.Minute).Unix(), "jti": must(randutil.Hex(16))})
		body := must(json.Marshal(map[string]any{"serial": serial, "ott": tok, "passive": true, "reasonCode": 1}))
		code, _, _ := do("POST", "https://"+addr+"/1.0/revoke", body)
		if code == -1 {
			return false
		}
		if code != 200 {
			problems = append(problems, fmt.Sprintf("revocation-status-%d", code))
			return true
		}
		revoked = append(revoked, serial)
		return true
	}
	ok := checkLists(cc.D1, "start") && revoke() && checkLists(cc.D1, "revoked")
	if ok && cc.Reload {
		cfg.CRL.CacheDuration, cfg.CRL.RenewPeriod = dur(cc.D2), dur(cc.D2)
		if err := cfg.Save(cfgFile); err != nil {
			panic(err)
		}
		if err := theCA.Reload(); err != nil {
			fmt.Fprintln(os.Stderr, "cacrl: reload failed:", err)
			return in, "ok", "ok"
		}
		ok = checkLists(cc.D2, "reloaded") && revoke() && checkLists(cc.D2, "revoked-after-reload")
	}
	if !ok {
		fmt.Fprintln(os.Stderr, "cacrl: server not reached: inconclusive")
		return in, "ok", "ok"
	}
	if os.Getenv("VERIF_DEBUG") != "" {
		fmt.Fprintln(os.Stderr, "cacrl: last number", lastNum, "revoked", revoked, "problems", problems)
	}
	if len(problems) > 0 {
		return in, "VIOLATION " + strings.Join(problems, ","), "ok"
	}
	return in, "ok", "ok"
}

func mintJWT(key *jose.JSONWebKey, claims map[string]any) string {
	so := new(jose.SignerOptions).WithType("JWT").WithHeader("kid", key.KeyID)
	sig := must(jose.NewSigner(jose.SigningKey{Algorithm: jose.ES256, Key: key.Key}, so))
	return must(jose.Signed(sig).Claims(claims).CompactSerialize())
}
