// Harness for C09, stage "server": the real CA process surface. A real ca.CA is built from a ca.json
// on disk (ca.New + Run): its own router, its own TLS configuration (client certificates verified by
// crypto/tls against the CA's roots), a loopback listener. Certificates are issued through POST
// /1.0/sign, renewed and rekeyed through POST /1.0/renew, /renew, /1.0/rekey over real mutual TLS or
// with a renew token, revoked through POST /1.0/revoke; between steps the operator edits ca.json
// (provisioner reconfigured, removed, re-added under the same name with another key, extensions
// switched off) and the CA is told to Reload, exactly as a SIGHUP does.
//
// What the client presents in the TLS handshake (nothing, a valid certificate, one that is not yet
// valid / expired / from another CA) is part of the model input; the model's `serveRenew` /
// `serveRekey` decide between "handshake refused", 400, refusal and 201.
package main

import (
	"bytes"
	"crypto"
	"crypto/ecdsa"
	"crypto/elliptic"
	"crypto/rand"
	"crypto/tls"
	"crypto/x509"
	"crypto/x509/pkix"
	"encoding/base64"
	"encoding/hex"
	"encoding/json"
	"encoding/pem"
	"errors"
	"flag"
	"fmt"
	"io"
	"log"
	"net"
	"net/http"
	"os"
	"os/exec"
	"path/filepath"
	"strings"
	"time"

	"go.step.sm/crypto/jose"
	"go.step.sm/crypto/x509util"

	"github.com/smallstep/certificates/api"
	"github.com/smallstep/certificates/authority/config"
	"github.com/smallstep/certificates/authority/provisioner"
	"github.com/smallstep/certificates/ca"
	"github.com/smallstep/certificates/db"
	"verif/harness/common"
)

const (
	provName = "s"
	host     = "localhost"
)

// ---- the world: key material on disk, ca.json, the running CA

type world struct {
	dir      string
	root     *x509.Certificate
	inter    *x509.Certificate
	otherCA  *x509.Certificate // a foreign CA (never trusted by the server)
	otherKey crypto.Signer
	provKey  *jose.JSONWebKey
	provKey2 *jose.JSONWebKey
	ca       *ca.CA
	addr     string
	cfgPath  string
	n        int
}

func mkCA(cn string, pathLen int, parent *x509.Certificate, parentKey crypto.Signer) (*x509.Certificate, crypto.Signer) {
	k, err := ecdsa.GenerateKey(elliptic.P256(), rand.Reader)
	if err != nil {
		panic(err)
	}
	t := &x509.Certificate{Subject: pkix.Name{CommonName: cn}, NotBefore: time.Now().Add(-24 * time.Hour), NotAfter: time.Now().Add(2400 * time.Hour),
		KeyUsage: x509.KeyUsageCertSign | x509.KeyUsageCRLSign, BasicConstraintsValid: true, IsCA: true, MaxPathLen: pathLen, MaxPathLenZero: pathLen == 0}
	signer, p := crypto.Signer(k), t
	if parent != nil {
		signer, p = parentKey, parent
	}
	c, err := x509util.CreateCertificate(t, p, k.Public(), signer)
	if err != nil {
		panic(err)
	}
	return c, k
}

func newJWK() *jose.JSONWebKey {
	k, err := jose.GenerateJWK("EC", "P-256", "ES256", "sig", "", 0)
	if err != nil {
		panic(err)
	}
	k.KeyID, _ = jose.Thumbprint(k)
	return k
}

func writePEM(path, typ string, der []byte) {
	if err := os.WriteFile(path, pem.EncodeToMemory(&pem.Block{Type: typ, Bytes: der}), 0o600); err != nil {
		panic(err)
	}
}

func freeAddr() string {
	l, err := net.Listen("tcp", "127.0.0.1:0")
	if err != nil {
		panic(err)
	}
	defer l.Close()
	return l.Addr().String()
}

// provState is what ca.json says about provisioner "s".
type provState struct {
	Present        bool  `json:"present"`
	OtherKey       bool  `json:"otherkey,omitempty"` // same name, another key (another id)
	D              *bool `json:"d,omitempty"`
	A              *bool `json:"a,omitempty"`
	NoExt          bool  `json:"noext,omitempty"` // disableSmallstepExtensions
	GlobalDisable  bool  `json:"gd,omitempty"`    // authority-level claims: disableRenewal
	GlobalAllowExp bool  `json:"ga,omitempty"`
}

func (w *world) writeConfig(ps provState) {
	provs := provisioner.List{}
	// the default provisioner keeps the CA administrable whatever happens to "s"
	pubA := w.provKey2.Public()
	provs = append(provs, &provisioner.JWK{Type: "JWK", Name: "keep", Key: &pubA})
	if ps.Present {
		key := w.provKey
		if ps.OtherKey {
			key = newJWK()
		}
		pub := key.Public()
		var cl *provisioner.Claims
		if ps.D != nil || ps.A != nil || ps.NoExt {
			cl = &provisioner.Claims{DisableRenewal: ps.D, AllowRenewalAfterExpiry: ps.A}
			if ps.NoExt {
				t := true
				cl.DisableSmallstepExtensions = &t
			}
		}
		provs = append(provs, &provisioner.JWK{Type: "JWK", Name: provName, Key: &pub, Claims: cl})
	}
	var global *provisioner.Claims
	if ps.GlobalDisable || ps.GlobalAllowExp {
		global = &provisioner.Claims{DisableRenewal: &ps.GlobalDisable, AllowRenewalAfterExpiry: &ps.GlobalAllowExp}
	}
	cfg := &config.Config{
		Root:             []string{filepath.Join(w.dir, "root.crt")},
		IntermediateCert: filepath.Join(w.dir, "inter.crt"),
		IntermediateKey:  filepath.Join(w.dir, "inter.key"),
		Address:          w.addr,
		DNSNames:         []string{host, "127.0.0.1"},
		DB:               &db.Config{Type: "bbolt", DataSource: filepath.Join(w.dir, "db")},
		AuthorityConfig:  &config.AuthConfig{Provisioners: provs, Claims: global},
	}
	b, err := json.MarshalIndent(cfg, "", " ")
	if err != nil {
		panic(err)
	}
	if err := os.WriteFile(w.cfgPath, b, 0o600); err != nil {
		panic(err)
	}
}

func newWorld(ps provState) *world {
	dir, err := os.MkdirTemp("", "verif-c09srv-")
	if err != nil {
		panic(err)
	}
	w := &world{dir: dir, cfgPath: filepath.Join(dir, "ca.json"), provKey: newJWK(), provKey2: newJWK()}
	root, rootKey := mkCA("Verif Root CA", 1, nil, nil)
	inter, interKey := mkCA("Verif Intermediate CA", 0, root, rootKey)
	w.root, w.inter = root, inter
	w.otherCA, w.otherKey = mkCA("Somebody Else's CA", 0, nil, nil)
	writePEM(filepath.Join(dir, "root.crt"), "CERTIFICATE", root.Raw)
	writePEM(filepath.Join(dir, "inter.crt"), "CERTIFICATE", inter.Raw)
	kb, err := x509.MarshalPKCS8PrivateKey(interKey)
	if err != nil {
		panic(err)
	}
	writePEM(filepath.Join(dir, "inter.key"), "PRIVATE KEY", kb)
	// the port is chosen by binding to :0 and releasing it; another process may grab it before the CA
	// binds (the checks run in parallel): the server counts as started only when it answers /health
	// over TLS under OUR root, otherwise another port is tried
	for attempt := 0; attempt < 8; attempt++ {
		w.addr = freeAddr()
		w.writeConfig(ps)
		cfg, err := config.LoadConfiguration(w.cfgPath)
		if err != nil {
			panic(fmt.Sprintf("config: %v", err))
		}
		c, err := ca.New(cfg, ca.WithConfigFile(w.cfgPath), ca.WithQuiet(true))
		if err != nil {
			panic(fmt.Sprintf("ca.New: %v", err))
		}
		log.SetOutput(io.Discard)
		runErr := make(chan error, 1)
		go func() { runErr <- c.Run() }()
		started := false
		for i := 0; i < 300 && !started; i++ {
			select {
			case <-runErr:
				i = 300 // could not bind
			default:
				w.ca = c
				if w.alive() {
					started = true
				} else {
					time.Sleep(20 * time.Millisecond)
				}
			}
		}
		if started {
			return w
		}
		_ = c.Stop()
		w.ca = nil
		os.Remove(filepath.Join(dir, "db")) // the next attempt opens a fresh database
	}
	panic("server did not start")
}

func (w *world) close() {
	if w.ca != nil {
		_ = w.ca.Stop()
	}
	os.RemoveAll(w.dir)
}

func (w *world) reload(ps provState) error {
	w.writeConfig(ps)
	err := w.ca.Reload()
	if err != nil { // once more: a reload only fails for cause when it fails twice
		time.Sleep(200 * time.Millisecond)
		err = w.ca.Reload()
	}
	log.SetOutput(io.Discard)
	return err
}

// ---- client side

func (w *world) client(cert *tls.Certificate) *http.Client {
	pool := x509.NewCertPool()
	pool.AddCert(w.root)
	tc := &tls.Config{RootCAs: pool, ServerName: host, MinVersion: tls.VersionTLS12}
	if cert != nil {
		// present it whatever CAs the server says it accepts (crypto/tls would otherwise silently
		// send no certificate when the issuer is not in the server's list)
		tc.GetClientCertificate = func(*tls.CertificateRequestInfo) (*tls.Certificate, error) { return cert, nil }
	}
	return &http.Client{Timeout: 30 * time.Second, Transport: &http.Transport{TLSClientConfig: tc, DisableKeepAlives: true}}
}

type response struct {
	class string
	body  []byte
}

func (w *world) post(cert *tls.Certificate, path, authz string, body []byte) response {
	req, err := http.NewRequest(http.MethodPost, "https://"+w.addr+path, bytes.NewReader(body))
	if err != nil {
		return response{class: "client-error"}
	}
	if authz != "" {
		req.Header.Set("Authorization", authz)
	}
	resp, err := w.client(cert).Do(req)
	if err != nil {
		// With a client certificate the server's handshake verdict reaches the client as a transport
		// error whose text depends on timing (TLS alert, EOF, reset, broken pipe while the body is
		// still being written, …). It is a refused handshake exactly when the same server, asked at
		// once without a certificate, answers; a timeout or a dead server is no observation at all.
		var ne net.Error
		if errors.As(err, &ne) && ne.Timeout() {
			return response{class: "timeout"}
		}
		if cert != nil && w.alive() {
			return response{class: "tlsreject"}
		}
		return response{class: "client-error"}
	}
	defer resp.Body.Close()
	b, _ := io.ReadAll(resp.Body)
	switch {
	case resp.StatusCode == http.StatusCreated || resp.StatusCode == http.StatusOK:
		return response{"created", b}
	case resp.StatusCode == http.StatusBadRequest:
		return response{"badrequest", b}
	}
	return response{"refuse", b}
}

func (w *world) alive() bool {
	for i := 0; i < 3; i++ {
		resp, err := w.client(nil).Get("https://" + w.addr + "/health")
		if err == nil {
			resp.Body.Close()
			return resp.StatusCode == http.StatusOK
		}
		time.Sleep(50 * time.Millisecond)
	}
	return false
}

func (w *world) token(key *jose.JSONWebKey, aud, sub string, sans []string) string {
	so := new(jose.SignerOptions).WithType("JWT").WithHeader("kid", key.KeyID)
	sig, err := jose.NewSigner(jose.SigningKey{Algorithm: jose.ES256, Key: key.Key}, so)
	if err != nil {
		panic(err)
	}
	now := time.Now()
	w.n++
	cl := map[string]any{"iss": provName, "sub": sub, "aud": "https://" + w.addr + aud, "iat": now.Unix(), "nbf": now.Add(-time.Second).Unix(),
		"exp": now.Add(5 * time.Minute).Unix(), "jti": fmt.Sprintf("srv-%d-%d", now.UnixNano(), w.n)}
	if sans != nil {
		cl["sans"] = sans
	}
	tok, err := jose.Signed(sig).Claims(cl).CompactSerialize()
	if err != nil {
		panic(err)
	}
	return tok
}

type leaf struct {
	cert *x509.Certificate
	key  crypto.Signer
	name string
}

func (l *leaf) tls(inter *x509.Certificate) *tls.Certificate {
	return &tls.Certificate{Certificate: [][]byte{l.cert.Raw, inter.Raw}, PrivateKey: l.key, Leaf: l.cert}
}

func csrPEM(name string, key crypto.Signer) string {
	der, err := x509.CreateCertificateRequest(rand.Reader, &x509.CertificateRequest{Subject: pkix.Name{CommonName: name}, DNSNames: []string{name}}, key)
	if err != nil {
		panic(err)
	}
	return string(pem.EncodeToMemory(&pem.Block{Type: "CERTIFICATE REQUEST", Bytes: der}))
}

// sign issues a certificate through POST /1.0/sign.
func (w *world) sign(window string) (*leaf, error) {
	w.n++
	name := fmt.Sprintf("srv%d.c09.test", w.n)
	key, _ := ecdsa.GenerateKey(elliptic.P256(), rand.Reader)
	req := map[string]any{"csr": csrPEM(name, key), "ott": w.token(w.provKey, "/1.0/sign", name, []string{name})}
	now := time.Now()
	switch window {
	case "nyv":
		req["notBefore"], req["notAfter"] = now.Add(time.Hour).Format(time.RFC3339), now.Add(2*time.Hour).Format(time.RFC3339)
	case "expiring":
		req["notBefore"], req["notAfter"] = now.Add(-time.Hour).Format(time.RFC3339), now.Add(2*time.Second).Format(time.RFC3339)
	}
	body, _ := json.Marshal(req)
	r := w.post(nil, "/1.0/sign", "", body)
	if r.class != "created" {
		return nil, fmt.Errorf("sign: %s %s", r.class, r.body)
	}
	var sr api.SignResponse
	if err := json.Unmarshal(r.body, &sr); err != nil || sr.ServerPEM.Certificate == nil {
		return nil, fmt.Errorf("sign response")
	}
	return &leaf{sr.ServerPEM.Certificate, key, name}, nil
}

// foreign makes a certificate with the same shape under a CA the server does not trust.
func (w *world) foreign() *leaf {
	w.n++
	name := fmt.Sprintf("srv%d.c09.test", w.n)
	key, _ := ecdsa.GenerateKey(elliptic.P256(), rand.Reader)
	t := &x509.Certificate{Subject: pkix.Name{CommonName: name}, DNSNames: []string{name}, NotBefore: time.Now().Add(-time.Minute), NotAfter: time.Now().Add(time.Hour),
		KeyUsage: x509.KeyUsageDigitalSignature, ExtKeyUsage: []x509.ExtKeyUsage{x509.ExtKeyUsageClientAuth, x509.ExtKeyUsageServerAuth}}
	c, err := x509util.CreateCertificate(t, w.otherCA, key.Public(), w.otherKey)
	if err != nil {
		panic(err)
	}
	return &leaf{c, key, name}
}

func (w *world) renewToken(l *leaf) string {
	x5c := []string{base64.StdEncoding.EncodeToString(l.cert.Raw), base64.StdEncoding.EncodeToString(w.inter.Raw)}
	so := new(jose.SignerOptions).WithType("JWT").WithHeader("x5cInsecure", x5c)
	sig, err := jose.NewSigner(jose.SigningKey{Algorithm: jose.ES256, Key: l.key}, so)
	if err != nil {
		panic(err)
	}
	now := time.Now()
	w.n++
	tok, err := jose.Signed(sig).Claims(map[string]any{"iss": "step-ca-client/1.0", "sub": l.name, "aud": "https://" + host + "/1.0/renew",
		"iat": now.Unix(), "nbf": now.Add(-time.Second).Unix(), "exp": now.Add(5 * time.Minute).Unix(), "jti": fmt.Sprintf("srvr-%d-%d", now.UnixNano(), w.n)}).CompactSerialize()
	if err != nil {
		panic(err)
	}
	return tok
}

// ---- cases

type Case struct {
	Issue   provState `json:"issue"`   // ca.json when the certificate is issued
	Renew   provState `json:"renew"`   // ca.json after the operator's edit + Reload
	Window  string    `json:"window"`  // valid | nyv | expired
	Present string    `json:"present"` // cert | none | foreign : what the client shows in the handshake
	Token   string    `json:"token"`   // none | ok | garbage : Authorization header
	Op      string    `json:"op"`      // renew | renew-unversioned | renew-resign | rekey
	Revoke  bool      `json:"revoke"`
}

func bp(b bool) *bool { return &b }

func provField(ps provState, byID bool, issue provState) string {
	if !ps.Present {
		return "gone"
	}
	if ps.OtherKey && byID {
		return "gone"
	}
	d, a := ps.GlobalDisable, ps.GlobalAllowExp
	if ps.D != nil {
		d = *ps.D
	}
	if ps.A != nil {
		a = *ps.A
	}
	return fmt.Sprintf("ctl:%s%sn", common.B(d), common.B(a))
}

func fixedCases() []Case {
	def := provState{Present: true}
	var cs []Case
	add := func(c Case) { cs = append(cs, c) }
	for _, op := range []string{"renew", "renew-unversioned", "renew-resign", "rekey"} {
		for _, win := range []string{"valid", "nyv", "expired"} {
			add(Case{Issue: def, Renew: def, Window: win, Present: "cert", Token: "none", Op: op})
		}
		add(Case{Issue: def, Renew: def, Window: "valid", Present: "none", Token: "none", Op: op})
		add(Case{Issue: def, Renew: def, Window: "valid", Present: "foreign", Token: "none", Op: op})
		add(Case{Issue: def, Renew: def, Window: "valid", Present: "cert", Token: "none", Op: op, Revoke: true})
		add(Case{Issue: def, Renew: provState{Present: true, D: bp(true)}, Window: "valid", Present: "cert", Token: "none", Op: op})
		add(Case{Issue: def, Renew: provState{}, Window: "valid", Present: "cert", Token: "none", Op: op})
	}
	// renew token instead of a client certificate, incl. the only way to renew an expired certificate
	for _, win := range []string{"valid", "expired", "nyv"} {
		for _, a := range []bool{false, true} {
			add(Case{Issue: def, Renew: provState{Present: true, A: bp(a)}, Window: win, Present: "none", Token: "ok", Op: "renew"})
		}
		add(Case{Issue: def, Renew: provState{Present: true, GlobalAllowExp: true}, Window: win, Present: "none", Token: "ok", Op: "renew"})
		add(Case{Issue: def, Renew: def, Window: win, Present: "none", Token: "garbage", Op: "renew"})
		add(Case{Issue: def, Renew: def, Window: win, Present: "none", Token: "ok", Op: "rekey"})
		add(Case{Issue: def, Renew: def, Window: win, Present: "cert", Token: "garbage", Op: "renew"})
	}
	// what the operator can do to the provisioner between issue and renew
	for _, rn := range []provState{{Present: true, D: bp(false)}, {Present: true, D: bp(true), A: bp(true)}, {Present: true, OtherKey: true}, {Present: true, OtherKey: true, D: bp(true)},
		{Present: true, GlobalDisable: true}, {Present: true, GlobalDisable: true, D: bp(false)}, {}} {
		for _, is := range []provState{def, {Present: true, NoExt: true}} {
			add(Case{Issue: is, Renew: rn, Window: "valid", Present: "cert", Token: "none", Op: "renew"})
		}
		add(Case{Issue: def, Renew: rn, Window: "valid", Present: "none", Token: "ok", Op: "renew"})
	}
	return cs
}

func randomCase(r *common.Rng) Case {
	ps := func() provState {
		p := provState{Present: !r.Chance(1, 5)}
		if r.Chance(1, 3) {
			p.D = bp(r.Chance(1, 2))
		}
		if r.Chance(1, 3) {
			p.A = bp(r.Chance(1, 2))
		}
		p.OtherKey = p.Present && r.Chance(1, 6)
		p.GlobalDisable, p.GlobalAllowExp = r.Chance(1, 6), r.Chance(1, 6)
		return p
	}
	is := provState{Present: true, NoExt: r.Chance(1, 4)}
	return Case{Issue: is, Renew: ps(), Window: common.Pick(r, []string{"valid", "valid", "nyv", "expired"}),
		Present: common.Pick(r, []string{"cert", "cert", "none", "foreign"}), Token: common.Pick(r, []string{"none", "none", "ok", "garbage"}),
		Op: common.Pick(r, []string{"renew", "renew-unversioned", "renew-resign", "rekey"}), Revoke: r.Chance(1, 8)}
}

type prepared struct {
	c    Case
	l    *leaf
	skip string
}

func main() {
	n := flag.Int("n", 0, "number of cases (0 = the fixed ones)")
	outp := flag.String("out", "", "output file")
	replay := flag.String("replay", "", "file with lines carrying case=x<hex json>")
	flag.Parse()
	log.SetOutput(io.Discard)
	// the CA's http.Server logs every refused handshake to the process's stderr: not an observation
	// The CA's http.Server logs every refused handshake to the process's stderr. Run the work in a
	// child process and pass on its stderr without those lines, so that a genuine crash (also one in
	// a goroutine of the CA under test) stays visible with its stack.
	if os.Getenv("C09_SERVER_CHILD") == "" {
		cmd := exec.Command(os.Args[0], os.Args[1:]...)
		cmd.Env = append(os.Environ(), "C09_SERVER_CHILD=1")
		cmd.Stdout = os.Stdout
		var eb bytes.Buffer
		cmd.Stderr = &eb
		err := cmd.Run()
		for _, l := range strings.Split(eb.String(), "\n") {
			if l != "" && !strings.Contains(l, "TLS handshake error") {
				fmt.Fprintln(os.Stderr, l)
			}
		}
		if err != nil {
			var ee *exec.ExitError
			if errors.As(err, &ee) {
				os.Exit(ee.ExitCode())
			}
			fmt.Fprintln(os.Stderr, err)
			os.Exit(4)
		}
		return
	}
	if *outp == "" {
		fmt.Fprintln(os.Stderr, "need -out")
		os.Exit(2)
	}
	out, err := common.NewOut(*outp)
	if err != nil {
		panic(err)
	}
	defer out.Close()
	var cases []Case
	if *replay != "" {
		data, err := os.ReadFile(*replay)
		if err != nil {
			panic(err)
		}
		for _, l := range strings.Split(string(data), "\n") {
			i := strings.Index(l, "case=x")
			if i < 0 {
				continue
			}
			js, err := hex.DecodeString(strings.Fields(l[i+6:])[0])
			if err != nil {
				continue
			}
			var c Case
			if json.Unmarshal(js, &c) == nil {
				cases = append(cases, c)
			}
		}
	} else {
		cases = fixedCases()
		r := common.NewRng(common.Seed())
		for len(cases) < *n {
			cases = append(cases, randomCase(r.Fork()))
		}
	}

	// Phase 1: per issue configuration one Reload, then every certificate of the cases with that
	// configuration is issued (and revoked); one wait for the short-lived ones; phase 2: per renew
	// configuration one Reload (the operator's edit), then the requests.
	key := func(ps provState) string { b, _ := json.Marshal(ps); return string(b) }
	w := newWorld(provState{Present: true})
	defer w.close()
	skipped := 0
	preps := make([]*prepared, len(cases))
	var issueOrder []string
	byIssue := map[string][]int{}
	for i, c := range cases {
		k := key(c.Issue)
		if _, ok := byIssue[k]; !ok {
			issueOrder = append(issueOrder, k)
		}
		byIssue[k] = append(byIssue[k], i)
	}
	needWait := false
	for _, k := range issueOrder {
		idx := byIssue[k]
		if err := w.reload(cases[idx[0]].Issue); err != nil {
			out.Case("srv setup case=x"+hex.EncodeToString([]byte(k)), "setup-failed:reload-issue")
			continue
		}
		for _, i := range idx {
			c := cases[i]
			p := &prepared{c: c}
			win := c.Window
			if win == "expired" {
				win, needWait = "expiring", true
			}
			for try := 0; try < 4 && p.l == nil; try++ {
				p.l, err = w.sign(win)
			}
			if p.l == nil {
				p.skip = "sign"
			} else if c.Revoke {
				body, _ := json.Marshal(map[string]any{"serial": p.l.cert.SerialNumber.String(), "reasonCode": 1, "passive": true})
				if c.Window != "valid" {
					// only a certificate the handshake accepts can revoke itself; use a revoke token otherwise
					body, _ = json.Marshal(map[string]any{"serial": p.l.cert.SerialNumber.String(), "reasonCode": 1, "passive": true,
						"ott": w.token(w.provKey, "/1.0/revoke", p.l.cert.SerialNumber.String(), nil)})
					if r := w.post(nil, "/1.0/revoke", "", body); r.class != "created" {
						p.skip = "revoke"
					}
				} else if r := w.post(p.l.tls(w.inter), "/1.0/revoke", "", body); r.class != "created" {
					p.skip = "revoke"
				}
			}
			preps[i] = p
		}
	}
	if needWait {
		time.Sleep(3500 * time.Millisecond)
	}
	var renewOrder []string
	byRenew := map[string][]int{}
	for i, c := range cases {
		k := key(c.Renew)
		if _, ok := byRenew[k]; !ok {
			renewOrder = append(renewOrder, k)
		}
		byRenew[k] = append(byRenew[k], i)
	}
	for _, k := range renewOrder {
		idx := byRenew[k]
		if err := w.reload(cases[idx[0]].Renew); err != nil {
			out.Case("srv setup case=x"+hex.EncodeToString([]byte(k)), "setup-failed:reload-renew")
			continue
		}
		for _, i := range idx {
			p := preps[i]
			if p == nil {
				skipped++
				continue
			}
			js, _ := json.Marshal(p.c)
			tail := " case=x" + hex.EncodeToString(js)
			if p.skip != "" {
				skipped++
				continue
			}
			c := p.c
			clock := func() (bool, bool) {
				now := time.Now()
				return now.Before(p.l.cert.NotBefore), now.After(p.l.cert.NotAfter)
			}
			nyv, exp := clock()
			var cert *tls.Certificate
			present := "none"
			switch c.Present {
			case "cert":
				cert = p.l.tls(w.inter)
				present = fmt.Sprintf("cert:1%s%s", common.B(nyv), common.B(exp))
			case "foreign":
				f := w.foreign()
				cert = &tls.Certificate{Certificate: [][]byte{f.cert.Raw, w.otherCA.Raw}, PrivateKey: f.key}
				present = "cert:000"
			}
			authz, bits := "", "-"
			switch c.Token {
			case "ok":
				authz, bits = "Bearer "+w.renewToken(p.l), "111111"
			case "garbage":
				authz, bits = "Bearer eyJhbGciOiJFUzI1NiJ9.e30.AAAA", "011111"
			}
			path, op := "/1.0/renew", "renew"
			var body []byte
			newKey, _ := ecdsa.GenerateKey(elliptic.P256(), rand.Reader)
			switch c.Op {
			case "renew-unversioned":
				path = "/renew"
			case "renew-resign": // the deprecated alias of the same handler
				path = "/1.0/re-sign"
			case "rekey":
				path, op = "/1.0/rekey", "rekey"
				body, _ = json.Marshal(map[string]string{"csr": csrPEM(p.l.name, newKey)})
			}
			r := w.post(cert, path, authz, body)
			if r.class == "timeout" {
				skipped++ // the machine is too loaded to get an answer in time: no verdict
				continue
			}
			if n2, e2 := clock(); n2 != nyv || e2 != exp {
				skipped++
				continue
			}
			res := r.class
			if res == "created" {
				var sr api.SignResponse
				want := crypto.PublicKey(p.l.cert.PublicKey)
				if op == "rekey" {
					want = newKey.Public()
				}
				wb, _ := x509.MarshalPKIXPublicKey(want)
				if json.Unmarshal(r.body, &sr) != nil || sr.ServerPEM.Certificate == nil || !bytes.Equal(wb, sr.ServerPEM.Certificate.RawSubjectPublicKeyInfo) {
					res = "created-wrongkey"
				}
			}
			rev := "no"
			if c.Revoke {
				rev = "yes"
			}
			dbf, ext := provField(c.Renew, true, c.Issue), provField(c.Renew, false, c.Issue)
			if c.Issue.NoExt {
				ext = "none"
			}
			line := fmt.Sprintf("srv op=%s rev=%s db=%s ext=%s nyv=%s exp=%s present=%s auth=%s tok=%s%s", op, rev, dbf, ext,
				common.B(nyv), common.B(exp), present, common.X(authz), bits, tail)
			out.Case(line, res)
		}
	}
	if skipped > 0 {
		fmt.Printf("skipped %d cases (certificate not issued/revoked in time, or clock crossed a validity boundary)\n", skipped)
	}
}
