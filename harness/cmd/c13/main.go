// Harness for C13: CSR names versus ACME order identifiers.
//
// kind=fin  one (identifier list, authorization fingerprints, CSR) case is run three ways against
//
//	the real code: acme.canonicalize (hook), (*Order).sans on the canonical CSR (hook), and the
//	real (*Order).Finalize of a ready order against a real embedded authority with an ACME
//	provisioner; the leaf that comes back is parsed and its names are the observable.
//
// kind=val  api.(*NewOrderRequest).Validate.
//
// Output line: "<model input line>\t<implementation output>".
package main

import (
	"context"
	"crypto"
	"crypto/ecdsa"
	"crypto/elliptic"
	"crypto/rand"
	"crypto/x509"
	"crypto/x509/pkix"
	"encoding/asn1"
	"encoding/hex"
	"encoding/json"
	"errors"
	"flag"
	"fmt"
	"net"
	"net/url"
	"os"
	"strings"
	"time"

	"go.step.sm/crypto/keyutil"
	"go.step.sm/crypto/x509util"

	"github.com/smallstep/certificates/acme"
	"github.com/smallstep/certificates/acme/wire"
	acmeapi "github.com/smallstep/certificates/acme/api"
	"github.com/smallstep/certificates/authority/provisioner"
	c "verif/harness/common"
	"verif/harness/fixture"
)

type ID struct{ T, V string }

type Case struct {
	Kind   string // fin | val | ord
	En     string `json:",omitempty"` // ord: enabled challenge types of the provisioner (letters h d t a)
	IDs    []ID
	FPs    []int // per identifier: 0 no fingerprint, 1 key A, 2 key B
	Key    int   // CSR key: 1 = A, 2 = B
	CN     string
	DNS    []string
	IPs    []string // textual
	Raw16  bool     // rewrite IPv4 addresses of the parsed CSR to their 16-byte form
	Emails []string
	URIs   []string
	// Wire: display-name subject attributes (OID 2.16.840.1.113730.3.1.241; "#int" = an INTEGER
	// value instead of a string) and Subject.Organization
	DN  []string `json:",omitempty"`
	Org []string `json:",omitempty"`
	// the provisioner has forceCN (an empty common name becomes the first DNS name of the certificate)
	Force bool `json:",omitempty"`
}

var (
	keys [3]crypto.Signer
	fps  [3]string
	ca   *fixture.CA
	prov *provisioner.ACME
	provForce *provisioner.ACME
)

func setup() error {
	for i := 1; i <= 2; i++ {
		k, err := ecdsa.GenerateKey(elliptic.P256(), rand.Reader)
		if err != nil {
			return err
		}
		keys[i] = k
		fp, err := keyutil.Fingerprint(k.Public())
		if err != nil {
			return err
		}
		fps[i] = fp
	}
	var err error
	ca, err = fixture.New(fixture.Opts{NoDB: true, Provisioners: provisioner.List{
		&provisioner.ACME{Type: "ACME", Name: "acme"},
		&provisioner.ACME{Type: "ACME", Name: "acme-all", Challenges: []provisioner.ACMEChallenge{
			provisioner.HTTP_01, provisioner.DNS_01, provisioner.TLS_ALPN_01, provisioner.DEVICE_ATTEST_01}},
		&provisioner.ACME{Type: "ACME", Name: "acme-dns", Challenges: []provisioner.ACMEChallenge{provisioner.DNS_01}},
		&provisioner.ACME{Type: "ACME", Name: "acme-force", ForceCN: true},
	}})
	if err != nil {
		return err
	}
	p, err := ca.Auth.LoadProvisionerByName("acme")
	if err != nil {
		return err
	}
	var ok bool
	if prov, ok = p.(*provisioner.ACME); !ok {
		return fmt.Errorf("provisioner acme is %T", p)
	}
	if p, err = ca.Auth.LoadProvisionerByName("acme-force"); err != nil {
		return err
	}
	if provForce, ok = p.(*provisioner.ACME); !ok {
		return fmt.Errorf("provisioner acme-force is %T", p)
	}
	return nil
}

func typCode(t string) string {
	switch acme.IdentifierType(t) {
	case acme.DNS:
		return "d"
	case acme.IP:
		return "i"
	case acme.PermanentIdentifier:
		return "p"
	case acme.WireUser:
		return "u"
	case acme.WireDevice:
		return "w"
	}
	return "o"
}

func ipHex(ip net.IP) string { return c.XB(ip) } // nil -> "x"

func ip16Hex(ip net.IP) string {
	if ip == nil {
		return "x"
	}
	return c.XB(ip.To16())
}

func idsField(ids []ID) string {
	out := make([]string, len(ids))
	for i, id := range ids {
		_, err := x509util.SanitizeName(strings.TrimPrefix(id.V, "*."))
		out[i] = typCode(id.T) + ":" + c.X(id.V) + ":" + ipHex(net.ParseIP(id.V)) + ":" + c.B(err == nil)
		// Wire identifiers: what wire.ParseUserID / ParseDeviceID and url.Parse make of the value
		switch acme.IdentifierType(id.T) {
		case acme.WireUser:
			w, perr := wire.ParseUserID(id.V)
			out[i] += ":" + c.B(perr == nil) + ":" + c.X(w.Name) + ":" + c.X(w.Domain) + ":" + uriField(w.Handle, perr == nil)
		case acme.WireDevice:
			w, perr := wire.ParseDeviceID(id.V)
			out[i] += ":" + c.B(perr == nil) + ":" + c.X(w.Name) + ":" + c.X(w.Domain) + ":" + uriField(w.ClientID, perr == nil)
		}
	}
	return c.List(out)
}

func uriField(raw string, ok bool) string {
	if !ok {
		return "!"
	}
	u, err := url.Parse(raw)
	if err != nil {
		return "!"
	}
	return c.X(u.String())
}

var oidDisplayName = asn1.ObjectIdentifier{2, 16, 840, 1, 113730, 3, 1, 241}

func hasWire(ids []ID) bool {
	for _, id := range ids {
		if t := typCode(id.T); t == "u" || t == "w" {
			return true
		}
	}
	return false
}

func acmeIDs(ids []ID) []acme.Identifier {
	out := make([]acme.Identifier, len(ids))
	for i, id := range ids {
		out[i] = acme.Identifier{Type: acme.IdentifierType(id.T), Value: id.V}
	}
	return out
}

// buildCSR creates a real signed CSR and parses it back, exactly as FinalizeRequest.Validate does.
func (k *Case) buildCSR() (*x509.CertificateRequest, bool) {
	tmpl := &x509.CertificateRequest{Subject: pkix.Name{CommonName: k.CN, Organization: k.Org}, DNSNames: k.DNS, EmailAddresses: k.Emails}
	for _, d := range k.DN {
		var v interface{} = d
		if d == "#int" {
			v = 5
		}
		tmpl.Subject.ExtraNames = append(tmpl.Subject.ExtraNames, pkix.AttributeTypeAndValue{Type: oidDisplayName, Value: v})
	}
	for _, s := range k.IPs {
		ip := net.ParseIP(s)
		if ip == nil {
			return nil, false
		}
		tmpl.IPAddresses = append(tmpl.IPAddresses, ip)
	}
	for _, s := range k.URIs {
		u, err := url.Parse(s)
		if err != nil {
			return nil, false
		}
		tmpl.URIs = append(tmpl.URIs, u)
	}
	key := keys[1]
	if k.Key == 2 {
		key = keys[2]
	}
	der, err := x509.CreateCertificateRequest(rand.Reader, tmpl, key)
	if err != nil {
		return nil, false
	}
	csr, err := x509.ParseCertificateRequest(der)
	if err != nil || csr.CheckSignature() != nil {
		return nil, false
	}
	if k.Raw16 {
		for i, ip := range csr.IPAddresses {
			csr.IPAddresses[i] = ip.To16()
		}
	}
	return csr, true
}

func cloneCSR(csr *x509.CertificateRequest) *x509.CertificateRequest {
	cp := *csr
	cp.DNSNames = append([]string(nil), csr.DNSNames...)
	cp.IPAddresses = append([]net.IP(nil), csr.IPAddresses...)
	cp.EmailAddresses = append([]string(nil), csr.EmailAddresses...)
	cp.URIs = append([]*url.URL(nil), csr.URIs...)
	return &cp
}

func xs(l []string) string {
	out := make([]string, len(l))
	for i, s := range l {
		out[i] = c.X(s)
	}
	return c.List(out)
}

func errClass(err error) string {
	var ae *acme.Error
	if errors.As(err, &ae) {
		t := strings.TrimPrefix(ae.Type, "urn:ietf:params:acme:error:")
		switch t {
		case acme.ErrorBadCSRType.String():
			return "badcsr"
		case acme.ErrorUnauthorizedType.String():
			return "unauthorized"
		case acme.ErrorServerInternalType.String():
			return "ise"
		case acme.ErrorMalformedType.String():
			return "malformed"
		case acme.ErrorRejectedIdentifierType.String():
			return "refused" // the authority refused to sign
		}
		return "acme:" + t
	}
	return "ise"
}

func sanList(sans []x509util.SubjectAlternativeName) string {
	out := make([]string, len(sans))
	for i, s := range sans {
		switch s.Type {
		case x509util.DNSType:
			out[i] = "d~" + c.X(s.Value)
		case x509util.IPType:
			out[i] = "i~" + ip16Hex(net.ParseIP(s.Value))
		case x509util.PermanentIdentifierType:
			out[i] = "p~" + c.X(s.Value)
		case x509util.URIType:
			out[i] = "u~" + c.X(s.Value)
		default:
			out[i] = "?~" + c.X(s.Type+":"+s.Value)
		}
	}
	return c.List(out)
}

func (k *Case) runCanon(csr *x509.CertificateRequest) (canon *x509.CertificateRequest, out string) {
	defer func() {
		if r := recover(); r != nil {
			canon, out = nil, "crash"
		}
	}()
	cc := acme.VerifCanonicalize(cloneCSR(csr))
	ips := make([]string, len(cc.IPAddresses))
	for i, ip := range cc.IPAddresses {
		ips[i] = ipHex(ip)
	}
	return cc, xs(cc.DNSNames) + ";" + c.List(ips)
}

func (k *Case) runSans(canon *x509.CertificateRequest) (out string) {
	defer func() {
		if r := recover(); r != nil {
			out = "crash"
		}
	}()
	o := &acme.Order{ID: "o", Identifiers: acmeIDs(k.IDs)}
	sans, err := o.VerifSans(canon)
	if err != nil {
		return errClass(err)
	}
	return "ok:" + sanList(sans)
}

// runFinalize drives the real Finalize of a ready order against the real authority.
func (k *Case) runFinalize(csr *x509.CertificateRequest) (out string) {
	defer func() {
		if r := recover(); r != nil {
			out = "crash"
		}
	}()
	now := time.Now().UTC().Truncate(time.Second)
	prov := prov
	if k.Force {
		prov = provForce
	}
	o := &acme.Order{
		ID: "ord", AccountID: "acc", ProvisionerID: prov.GetID(), Status: acme.StatusReady,
		ExpiresAt: now.Add(time.Hour), Identifiers: acmeIDs(k.IDs),
	}
	azs := map[string]*acme.Authorization{}
	for i := range k.IDs {
		id := fmt.Sprintf("az%d", i)
		o.AuthorizationIDs = append(o.AuthorizationIDs, id)
		fp := ""
		if i < len(k.FPs) {
			fp = fps[k.FPs[i]%3]
		}
		// the stored authorization carries its identifier exactly as api.NewOrder creates it
		// (wildcard prefix of a dns name trimmed), so code that looks at the authorization's type sees it
		wild := k.IDs[i].T == "dns" && strings.HasPrefix(k.IDs[i].V, "*.")
		val := k.IDs[i].V
		if wild {
			val = val[2:]
		}
		azs[id] = &acme.Authorization{ID: id, AccountID: "acc", Status: acme.StatusValid, Fingerprint: fp,
			Identifier: acme.Identifier{Type: acme.IdentifierType(k.IDs[i].T), Value: val}, Wildcard: wild}
	}
	var stored []*acme.Certificate
	db := &acme.MockDB{
		MockGetAuthorization: func(_ context.Context, id string) (*acme.Authorization, error) {
			az, ok := azs[id]
			if !ok {
				return nil, errors.New("no such authz")
			}
			return az, nil
		},
		MockCreateCertificate: func(_ context.Context, crt *acme.Certificate) error {
			crt.ID = fmt.Sprintf("crt%d", len(stored))
			stored = append(stored, crt)
			return nil
		},
		MockUpdateOrder: func(context.Context, *acme.Order) error { return nil },
	}
	wire := hasWire(k.IDs)
	var adb acme.DB = db
	if wire { // Finalize needs a WireDB and the tokens the Wire challenges stored for the order
		adb = &acme.MockWireDB{MockDB: *db,
			MockGetDpopToken: func(context.Context, string) (map[string]interface{}, error) { return map[string]interface{}{"sub": "x"}, nil },
			MockGetOidcToken: func(context.Context, string) (map[string]interface{}, error) { return map[string]interface{}{"name": "x"}, nil }}
	}
	err := o.Finalize(context.Background(), adb, cloneCSR(csr), ca.Auth, prov)
	if err != nil {
		return errClass(err)
	}
	if len(stored) != 1 || o.Status != acme.StatusValid {
		return fmt.Sprintf("inconsistent:certs=%d,status=%s", len(stored), o.Status)
	}
	leaf := stored[0].Leaf
	tmpl := "other"
	switch {
	case len(leaf.ExtKeyUsage) == 2 && leaf.ExtKeyUsage[0] == x509.ExtKeyUsageServerAuth && leaf.ExtKeyUsage[1] == x509.ExtKeyUsageClientAuth:
		tmpl = "leaf"
	case len(leaf.ExtKeyUsage) == 1 && leaf.ExtKeyUsage[0] == x509.ExtKeyUsageClientAuth:
		tmpl = "attested"
	}
	all, err := x509util.ParseSubjectAlternativeNames(leaf)
	if err != nil {
		return "leaf-unparseable"
	}
	var names []string
	for _, d := range all.DNSNames {
		names = append(names, "d~"+c.X(d))
	}
	for _, ip := range all.IPAddresses {
		names = append(names, "i~"+ip16Hex(ip))
	}
	for _, p := range all.PermanentIdentifiers {
		names = append(names, "p~"+c.X(p.Identifier))
	}
	for _, e := range all.EmailAddresses {
		names = append(names, "e~"+c.X(e))
	}
	for _, u := range all.URIs {
		names = append(names, "u~"+c.X(u.String()))
	}
	for range all.HardwareModuleNames {
		names = append(names, "h~x")
	}
	if wire {
		org := ""
		if len(leaf.Subject.Organization) > 0 {
			org = leaf.Subject.Organization[0]
		}
		return "acceptwire:" + c.X(leaf.Subject.CommonName) + ":" + c.X(org) + ":" + c.List(names)
	}
	// the property on the leaf itself: a common name is one of the certificate's names (DNS name up to
	// ASCII case, IP address by value, permanent identifier), never any other string
	viol := ""
	if cn := leaf.Subject.CommonName; cn != "" {
		ok := false
		for _, d := range all.DNSNames {
			ok = ok || asciiLower(d) == asciiLower(cn)
		}
		if ip := net.ParseIP(cn); ip != nil {
			for _, x := range all.IPAddresses {
				ok = ok || x.Equal(ip)
			}
		}
		for _, p := range all.PermanentIdentifiers {
			ok = ok || p.Identifier == cn
		}
		if !ok {
			viol = " VIOL:common-name-is-not-a-name-of-the-certificate"
		}
	}
	return "accept:" + tmpl + ":" + c.X(leaf.Subject.CommonName) + ":" + c.List(names) + viol
}

func (k *Case) emit(o *c.Out) {
	js, _ := json.Marshal(k)
	tail := " case=x" + hex.EncodeToString(js)
	switch k.Kind {
	case "ord":
		o.Case("kind=ord ids="+idsField(k.IDs)+" en="+k.En+tail, k.runOrder())
	case "val":
		line := "kind=val ids=" + idsField(k.IDs) + tail
		out := func() (out string) {
			defer func() {
				if r := recover(); r != nil {
					out = "crash"
				}
			}()
			err := (&acmeapi.NewOrderRequest{Identifiers: acmeIDs(k.IDs)}).Validate()
			if err == nil {
				return "ok"
			}
			return errClass(err)
		}()
		o.Case(line, out)
	case "fin":
		csr, ok := k.buildCSR()
		if !ok {
			return
		}
		fpl := make([]string, len(k.IDs))
		for i := range k.IDs {
			f := ""
			if i < len(k.FPs) {
				f = fps[k.FPs[i]%3]
			}
			fpl[i] = c.X(f)
		}
		cfp, err := keyutil.Fingerprint(csr.PublicKey)
		ips := make([]string, len(csr.IPAddresses))
		for i, ip := range csr.IPAddresses {
			ips[i] = ipHex(ip)
		}
		us := make([]string, len(csr.URIs))
		for i, u := range csr.URIs {
			us[i] = c.X(u.String())
		}
		var dn []string
		for _, a := range csr.Subject.Names {
			if a.Type.Equal(oidDisplayName) {
				if v, ok := a.Value.(string); ok {
					dn = append(dn, c.X(v))
				} else {
					dn = append(dn, "!")
				}
			}
		}
		if k.Force {
			tail = " force=1" + tail
		}
		line := fmt.Sprintf("kind=fin ids=%s fps=%s cfp=%s cn=%s cnip=%s dns=%s ips=%s em=%d uris=%s dn=%s org=%s%s",
			idsField(k.IDs), c.List(fpl), c.Opt(cfp, err == nil), c.X(csr.Subject.CommonName),
			ipHex(net.ParseIP(csr.Subject.CommonName)), xs(csr.DNSNames), c.List(ips),
			len(csr.EmailAddresses), c.List(us), c.List(dn), xs(csr.Subject.Organization), tail)
		canon, cs := k.runCanon(csr)
		ss := "crash"
		if canon != nil {
			ss = k.runSans(canon)
		}
		fin := k.runFinalize(csr)
		cls, _, _ := strings.Cut(fin, ":")
		o.Case(line, cls+":canon="+cs+" sans="+ss+" fin="+fin)
	}
}

// ---------- generators ----------

var dnsPool = []string{"a.example.com", "b.example.com", "example.com", "*.example.com", "www.example.org", "host.local",
	"x1.test", "zz.example.com", "aa.example.com", "a.example.co", "xn--bcher-kva.example", "kiwi.example.com",
	// 64 and 72 characters (ub-common-name is 64): nothing may cut a name
	"a" + strings.Repeat("b", 51) + ".example.com", "a" + strings.Repeat("c", 59) + ".example.com"}
var ipPool = []string{"10.0.0.1", "10.0.0.2", "192.168.1.7", "127.0.0.1", "::1", "fd00::1", "2001:db8::5", "1.2.3.4", "0.0.0.0", "255.255.255.255", "::", "::ffff:0:1",
	// pairs that differ in one half of the 128 bits only
	"fd01::1", "fd00::2", "2001:db8:0:1::5", "2001:db8::6"}
var pidPool = []string{"device-1234", "SN:0001", "a.example.com", "10.0.0.1", "x", "*.device-1234"}
var emailPool = []string{"root@example.com", "a@a.example.com"}
var uriPool = []string{"https://a.example.com/x", "spiffe://example.com/w", "wireapp://CzbfFjDOQrenCbDxVmgnFw!594930e9d50bb175@wire.com"}

func mixCase(r *c.Rng, s string) string {
	b := []byte(s)
	for i := range b {
		if 'a' <= b[i] && b[i] <= 'z' && r.Chance(1, 3) {
			b[i] -= 32
		}
	}
	return string(b)
}

// respell an IP textually (same value): IPv4 <-> IPv4-in-IPv6, expanded IPv6
func respellIP(r *c.Rng, s string) string {
	ip := net.ParseIP(s)
	if ip == nil {
		return s
	}
	if v4 := ip.To4(); v4 != nil {
		switch r.Intn(3) {
		case 0:
			return "::ffff:" + v4.String()
		case 1:
			return fmt.Sprintf("::ffff:%02x%02x:%02x%02x", v4[0], v4[1], v4[2], v4[3])
		}
		return v4.String()
	}
	if r.Chance(1, 2) {
		parts := make([]string, 8)
		for i := 0; i < 8; i++ {
			parts[i] = fmt.Sprintf("%04X", int(ip[2*i])<<8|int(ip[2*i+1]))
		}
		return strings.Join(parts, ":")
	}
	return ip.String()
}

func genIDs(r *c.Rng, attested bool) []ID {
	var ids []ID
	n := 1 + r.Intn(4)
	for i := 0; i < n; i++ {
		switch r.Intn(10) {
		case 0, 1, 2, 3, 4:
			v := c.Pick(r, dnsPool)
			if r.Chance(1, 4) {
				v = mixCase(r, v)
			}
			ids = append(ids, ID{"dns", v})
		case 5, 6, 7:
			v := c.Pick(r, ipPool)
			if r.Chance(1, 4) {
				v = respellIP(r, v)
			}
			ids = append(ids, ID{"ip", v})
		case 8:
			if len(ids) > 0 && r.Chance(2, 3) { // duplicate, possibly respelled
				d := ids[r.Intn(len(ids))]
				if d.T == "dns" {
					d.V = mixCase(r, d.V)
				} else if d.T == "ip" {
					d.V = respellIP(r, d.V)
				}
				ids = append(ids, d)
			} else {
				ids = append(ids, ID{"dns", c.Pick(r, dnsPool)})
			}
		case 9:
			if attested {
				ids = append(ids, ID{"permanent-identifier", c.Pick(r, pidPool)})
			} else {
				ids = append(ids, ID{"dns", c.Pick(r, dnsPool)})
			}
		}
	}
	if attested {
		pid := ID{"permanent-identifier", c.Pick(r, pidPool)}
		switch r.Intn(4) {
		case 0:
			ids = append(ids, pid) // mixed order, pid last
		case 1:
			ids = append([]ID{pid}, ids...) // mixed order, pid first
		default:
			ids = []ID{pid}
		}
	}
	return ids
}

// genFin: start from the CSR that matches the order exactly, then mutate around the decisions.
func genFin(r *c.Rng) *Case {
	attested := r.Chance(1, 5)
	k := &Case{Kind: "fin", Key: 1, IDs: genIDs(r, attested)}
	k.FPs = make([]int, len(k.IDs))
	firstPid := ""
	for i, id := range k.IDs {
		switch id.T {
		case "dns":
			k.DNS = append(k.DNS, id.V)
		case "ip":
			k.IPs = append(k.IPs, id.V)
		case "permanent-identifier":
			if firstPid == "" {
				firstPid = id.V
			}
			k.FPs[i] = 1
			if r.Chance(1, 10) {
				k.FPs[i] = r.Intn(3)
			}
		}
	}
	if !attested && r.Chance(1, 20) {
		k.FPs[r.Intn(len(k.FPs))] = 1 + r.Intn(2)
	}
	if r.Chance(1, 8) || (attested && len(k.IDs) > 1 && r.Chance(1, 3)) {
		k.Key = 2
	}
	if attested {
		switch r.Intn(6) {
		case 0:
			k.CN = firstPid
		case 1:
			k.CN = c.Pick(r, pidPool)
		case 2:
			k.CN = c.Pick(r, dnsPool)
		}
		if r.Chance(1, 2) { // attested CSRs normally carry no names
			k.DNS, k.IPs = nil, nil
		}
	}
	if r.Chance(1, 6) { // a provisioner with forceCN, mostly with a CSR that has no common name
		k.Force = true
		if r.Chance(3, 4) {
			k.CN = ""
		}
	}
	// permutation
	if r.Chance(1, 2) {
		for i := len(k.DNS) - 1; i > 0; i-- {
			j := r.Intn(i + 1)
			k.DNS[i], k.DNS[j] = k.DNS[j], k.DNS[i]
		}
		for i := len(k.IPs) - 1; i > 0; i-- {
			j := r.Intn(i + 1)
			k.IPs[i], k.IPs[j] = k.IPs[j], k.IPs[i]
		}
	}
	nm := r.Intn(3)
	if r.Chance(1, 3) {
		nm = 0
	}
	for m := 0; m < nm; m++ {
		switch r.Intn(14) {
		case 0: // omit a DNS name
			if len(k.DNS) > 0 {
				i := r.Intn(len(k.DNS))
				k.DNS = append(k.DNS[:i:i], k.DNS[i+1:]...)
			}
		case 1: // omit an IP
			if len(k.IPs) > 0 {
				i := r.Intn(len(k.IPs))
				k.IPs = append(k.IPs[:i:i], k.IPs[i+1:]...)
			}
		case 2: // add a DNS name
			k.DNS = append(k.DNS, c.Pick(r, dnsPool))
		case 3: // add an IP
			k.IPs = append(k.IPs, c.Pick(r, ipPool))
		case 4: // respell case
			if len(k.DNS) > 0 {
				i := r.Intn(len(k.DNS))
				k.DNS[i] = mixCase(r, k.DNS[i])
			}
		case 5: // respell IP
			if len(k.IPs) > 0 {
				i := r.Intn(len(k.IPs))
				k.IPs[i] = respellIP(r, k.IPs[i])
			}
		case 6: // duplicate
			if len(k.DNS) > 0 {
				k.DNS = append(k.DNS, mixCase(r, c.Pick(r, k.DNS)))
			}
			if len(k.IPs) > 0 && r.Chance(1, 2) {
				k.IPs = append(k.IPs, respellIP(r, c.Pick(r, k.IPs)))
			}
		case 7: // move a name into the common name
			if len(k.DNS) > 0 && r.Chance(1, 2) {
				i := r.Intn(len(k.DNS))
				k.CN = mixCase(r, k.DNS[i])
				if r.Chance(1, 5) {
					// letters outside ASCII whose Unicode lower case is an ASCII letter: KELVIN SIGN, I WITH DOT ABOVE
					k.CN = unicodeTwin(k.CN)
				}
				if r.Chance(1, 2) {
					k.DNS = append(k.DNS[:i:i], k.DNS[i+1:]...)
				}
			} else if len(k.IPs) > 0 {
				i := r.Intn(len(k.IPs))
				k.CN = respellIP(r, k.IPs[i])
				if r.Chance(1, 2) {
					k.IPs = append(k.IPs[:i:i], k.IPs[i+1:]...)
				}
			}
		case 8: // common name outside the order
			k.CN = c.Pick(r, []string{"evil.example.net", "10.9.9.9", "::2", "Some Device", "a.example.com.", " a.example.com"})
		case 9:
			k.Emails = append(k.Emails, c.Pick(r, emailPool))
		case 10:
			k.URIs = append(k.URIs, c.Pick(r, uriPool))
		case 11: // near miss: one character off
			if len(k.DNS) > 0 {
				i := r.Intn(len(k.DNS))
				k.DNS[i] = c.Pick(r, []string{k.DNS[i] + ".", "w" + k.DNS[i], strings.TrimPrefix(k.DNS[i], "*."), "*." + k.DNS[i], ""})
			}
		case 12:
			k.Raw16 = true
		case 13: // replace by a neighbour in sort order
			if len(k.DNS) > 0 && (len(k.IPs) == 0 || r.Chance(1, 2)) {
				k.DNS[r.Intn(len(k.DNS))] = c.Pick(r, dnsPool)
			} else if len(k.IPs) > 0 {
				k.IPs[r.Intn(len(k.IPs))] = c.Pick(r, ipPool)
			}
		}
	}
	return k
}

// unicodeTwin replaces the first k/K by U+212A and, failing that, the first i/I by U+0130: a
// different name that strings.ToLower maps onto the ASCII one
func unicodeTwin(s string) string {
	if i := strings.IndexAny(s, "kK"); i >= 0 {
		return s[:i] + "\u212a" + s[i+1:]
	}
	if i := strings.IndexAny(s, "iI"); i >= 0 {
		return s[:i] + "\u0130" + s[i+1:]
	}
	return s
}

// genMalformed: identifier lists the API would have refused, orders of foreign types, odd names.
func genMalformed(r *c.Rng) *Case {
	k := genFin(r)
	switch r.Intn(6) {
	case 0:
		k.IDs = append(k.IDs, ID{"ip", c.Pick(r, []string{"300.1.1.1", "", "not-an-ip", "1.2.3"})})
	case 1:
		k.IDs = append(k.IDs, ID{c.Pick(r, []string{"email", "", "DNS", "uri"}), "x@example.com"})
	case 2:
		k.IDs = append(k.IDs, ID{"permanent-identifier", ""})
	case 3:
		k.IDs = append(k.IDs, ID{"dns", c.Pick(r, []string{"", "*.", "a..b", "-", "*.*.example.com", "exa mple.com"})})
	case 4:
		k.IDs = append(k.IDs, ID{c.Pick(r, []string{"wireapp-user", "wireapp-device"}), `{"name":"n","domain":"wire.com","handle":"wireapp://%40n@wire.com"}`})
	case 5:
		k.IDs = nil
	}
	k.FPs = append(k.FPs, 0)
	return k
}

// genWire: a Wire order (one user and one device identifier, mostly) and the CSR a Wire client
// would send (display name attribute, Organization = domain, the two URIs), mutated around every
// test of createWireSubject and of the URI comparison.
func genWire(r *c.Rng) *Case {
	name := c.Pick(r, []string{"Alice Smith", "Bob"})
	domain := c.Pick(r, []string{"wire.com", "example.org"})
	handle := c.Pick(r, []string{"wireapp://%40alice_wire@wire.com", "wireapp://%40bob@example.org"})
	client := c.Pick(r, []string{"wireapp://CzbfFjDOQrenCbDxVmgnFw!594930e9d50bb175@wire.com", "wireapp://u!d@example.org"})
	user := fmt.Sprintf(`{"name":%q,"domain":%q,"handle":%q}`, name, domain, handle)
	dev := fmt.Sprintf(`{"name":%q,"domain":%q,"client-id":%q,"handle":%q}`, name, domain, client, handle)
	k := &Case{Kind: "fin", Key: 1, IDs: []ID{{"wireapp-user", user}, {"wireapp-device", dev}},
		DN: []string{name}, Org: []string{domain}, URIs: []string{handle, client}}
	for m := r.Intn(3); m > 0; m-- {
		switch r.Intn(16) {
		case 0:
			k.DN = nil
		case 1:
			k.DN = append(k.DN, c.Pick(r, []string{name, "Mallory", "#int"}))
		case 2:
			k.DN = []string{c.Pick(r, []string{"Mallory", "#int", strings.ToUpper(name)})}
		case 3:
			k.Org = nil
		case 4:
			k.Org = []string{c.Pick(r, []string{strings.ToUpper(domain), "evil.org", domain + "."}), domain}
		case 5:
			k.URIs = k.URIs[:1]
		case 6:
			k.URIs = append(k.URIs, c.Pick(r, []string{handle, "wireapp://zzz", "https://a.example.com/x"}))
		case 7:
			k.URIs = []string{client, handle}
		case 8:
			if len(k.URIs) == 0 {
				continue
			}
			k.URIs[r.Intn(len(k.URIs))] = c.Pick(r, []string{"wireapp://zzz", "wireapp://%40ALICE_wire@wire.com", handle})
		case 9:
			k.CN = c.Pick(r, []string{name, "a.example.com"})
		case 10:
			k.DNS = []string{"a.example.com"}
		case 11:
			k.Emails = []string{"root@example.com"}
		case 12: // identifier lists createWireSubject / sans must refuse or survive
			switch r.Intn(5) {
			case 0:
				k.IDs = k.IDs[:1]
			case 1:
				k.IDs = append(k.IDs, ID{"wireapp-device", dev})
			case 2:
				k.IDs = append(k.IDs, ID{"dns", "a.example.com"})
			case 3:
				if len(k.IDs) == 0 {
					continue
				}
				k.IDs[0].V = c.Pick(r, []string{`{"name":"x"}`, `not json`, fmt.Sprintf(`{"name":%q,"domain":%q,"handle":"%%zz"}`, name, domain)})
			case 4:
				k.IDs = []ID{{"wireapp-device", dev}, {"wireapp-user", user}}
			}
		case 13: // handle and client id the same URI (b009637)
			same := fmt.Sprintf(`{"name":%q,"domain":%q,"client-id":%q,"handle":%q}`, name, domain, handle, handle)
			if len(k.IDs) < 2 {
				continue
			}
			k.IDs[1].V = same
			k.URIs = []string{handle, c.Pick(r, []string{handle, "wireapp://zzz"})}
		case 14:
			if len(k.IDs) < 2 {
				continue
			}
			k.IDs[1].V = fmt.Sprintf(`{"name":%q,"domain":%q,"client-id":"%%zz","handle":%q}`, name, domain, handle)
		case 15:
			k.Key = 2
			k.FPs = []int{1}
		}
	}
	if len(k.FPs) < len(k.IDs) {
		k.FPs = append(k.FPs, make([]int, len(k.IDs)-len(k.FPs))...)
	}
	return k
}

func genCase(r *c.Rng) *Case {
	switch r.Intn(12) {
	case 10:
		return genWire(r)
	case 3:
		return genOrd(r)
	case 0:
		return genMalformed(r)
	case 1:
		k := genMalformed(r)
		k.Kind = "val"
		if hasWire(k.IDs) { // Wire identifier validation is outside the model
			k.IDs = k.IDs[:len(k.IDs)-1]
		}
		return k
	case 2:
		k := genFin(r)
		k.Kind = "val"
		return k
	}
	return genFin(r)
}

func corner() []*Case {
	d := func(v string) ID { return ID{"dns", v} }
	i := func(v string) ID { return ID{"ip", v} }
	p := func(v string) ID { return ID{"permanent-identifier", v} }
	return []*Case{
		{Kind: "fin", Key: 1, IDs: []ID{d("a.example.com")}, DNS: []string{"a.example.com"}},
		{Kind: "fin", Key: 1, IDs: []ID{d("A.Example.com"), d("a.example.COM")}, CN: "A.EXAMPLE.COM"},
		{Kind: "fin", Key: 1, IDs: []ID{d("a.example.com")}, DNS: []string{"a.example.com", "b.example.com"}},
		{Kind: "fin", Key: 1, IDs: []ID{d("a.example.com"), d("b.example.com")}, DNS: []string{"a.example.com"}},
		{Kind: "fin", Key: 1, IDs: []ID{d("a.example.com")}, DNS: []string{"a.example.com"}, CN: "b.example.com"},
		// forceCN: the first DNS name of the certificate becomes the common name, whole; nothing to force without a DNS name
		{Kind: "fin", Key: 1, Force: true, IDs: []ID{d("zz.example.com"), d("a.example.com")}, DNS: []string{"zz.example.com", "a.example.com"}},
		{Kind: "fin", Key: 1, Force: true, IDs: []ID{d("a" + strings.Repeat("c", 59) + ".example.com")}, DNS: []string{"a" + strings.Repeat("c", 59) + ".example.com"}},
		{Kind: "fin", Key: 1, Force: true, IDs: []ID{d("*." + strings.Repeat("w", 60) + ".example.com"), d("zz.example.com")}, DNS: []string{"zz.example.com", "*." + strings.Repeat("w", 60) + ".example.com"}},
		{Kind: "fin", Key: 1, Force: true, IDs: []ID{d("a.example.com")}, DNS: []string{"a.example.com"}, CN: "A.example.com"},
		{Kind: "fin", Key: 1, Force: true, IDs: []ID{i("10.0.0.1")}, IPs: []string{"10.0.0.1"}},
		{Kind: "fin", Key: 1, Force: true, IDs: []ID{p("device-1234")}, FPs: []int{1}},
		{Kind: "fin", Key: 1, Force: true, IDs: []ID{p("device-1234")}, FPs: []int{1}, CN: "device-1234"},
		// C13-F5 (fixed in f1b3472): a common name that is not the validated name but lower-cased onto it (KELVIN SIGN, I WITH DOT ABOVE)
		{Kind: "fin", Key: 1, IDs: []ID{d("kiwi.example.com")}, DNS: []string{"kiwi.example.com"}, CN: "\u212aiwi.example.com"},
		{Kind: "fin", Key: 1, IDs: []ID{d("a.example.io")}, CN: "a.example.\u0130o"},
		{Kind: "fin", Key: 1, IDs: []ID{d("a.example.com")}, DNS: []string{"a.example.com"}, Emails: []string{"root@example.com"}},
		{Kind: "fin", Key: 1, IDs: []ID{d("a.example.com")}, DNS: []string{"a.example.com"}, URIs: []string{"https://a.example.com/"}},
		{Kind: "fin", Key: 1, IDs: []ID{i("10.0.0.1")}, CN: "::ffff:10.0.0.1"},
		{Kind: "fin", Key: 1, IDs: []ID{i("::ffff:10.0.0.1"), i("10.0.0.1")}, IPs: []string{"10.0.0.1"}},
		{Kind: "fin", Key: 1, IDs: []ID{i("10.0.0.1")}, IPs: []string{"10.0.0.1"}, CN: "10.0.0.2"},
		{Kind: "fin", Key: 1, IDs: []ID{i("fd00::1")}, IPs: []string{"fd01::1"}},
		{Kind: "fin", Key: 1, IDs: []ID{i("fd00::1")}, IPs: []string{"fd00::2"}},
		{Kind: "fin", Key: 1, IDs: []ID{i("2001:db8::5"), i("10.0.0.1")}, IPs: []string{"10.0.0.1", "2001:db8:0:1::5"}},
		{Kind: "fin", Key: 1, IDs: []ID{i("fd00::1")}, CN: "::1"},
		{Kind: "fin", Key: 1, IDs: []ID{d("a.example.com"), i("10.0.0.1")}, IPs: []string{"10.0.0.1"}, DNS: []string{"a.example.com", ""}},
		{Kind: "fin", Key: 1, IDs: []ID{i("300.1.1.1")}, IPs: []string{"10.0.0.1"}},
		{Kind: "fin", Key: 1, IDs: []ID{i("300.1.1.1"), i("bogus")}},
		{Kind: "fin", Key: 1, IDs: []ID{p("device-1234")}, FPs: []int{1}},
		{Kind: "fin", Key: 2, IDs: []ID{p("device-1234")}, FPs: []int{1}},
		{Kind: "fin", Key: 1, IDs: []ID{p("device-1234")}, FPs: []int{1}, CN: "device-1234"},
		{Kind: "fin", Key: 1, IDs: []ID{p("device-1234")}, FPs: []int{1}, CN: "other"},
		{Kind: "fin", Key: 1, IDs: []ID{p("device-1234")}, FPs: []int{1}, DNS: []string{"evil.example.net"}, Emails: []string{"root@example.com"}},
		{Kind: "fin", Key: 1, IDs: []ID{p("device-1234"), d("a.example.com")}, FPs: []int{1, 0}, DNS: []string{"a.example.com"}},
		{Kind: "fin", Key: 1, IDs: []ID{p("A"), p("B")}, FPs: []int{1, 2}},
		// mixed orders with the dns / ip identifier BEFORE the permanent identifier: the attested key is still enforced
		{Kind: "fin", Key: 2, IDs: []ID{d("host.example.com"), p("device-1234")}, FPs: []int{0, 1}, DNS: []string{"host.example.com"}},
		{Kind: "fin", Key: 1, IDs: []ID{d("host.example.com"), p("device-1234")}, FPs: []int{0, 1}, DNS: []string{"host.example.com"}},
		{Kind: "fin", Key: 2, IDs: []ID{i("10.0.0.1"), d("a.example.com"), p("device-1234")}, FPs: []int{0, 0, 1}},
		{Kind: "fin", Key: 2, IDs: []ID{p("device-1234"), d("host.example.com")}, FPs: []int{1, 0}, CN: "device-1234"},
		{Kind: "fin", Key: 1, IDs: []ID{p("")}, FPs: []int{0}},
		{Kind: "fin", Key: 1, IDs: []ID{p("device-1234")}, FPs: []int{0}},
		{Kind: "fin", Key: 1, IDs: []ID{{"email", "x@example.com"}}, DNS: []string{"a.example.com"}},
		{Kind: "val", IDs: nil},
		{Kind: "val", IDs: []ID{d("a.example.com"), i("10.0.0.1"), p("x")}},
		{Kind: "val", IDs: []ID{i("300.1.1.1")}},
		{Kind: "val", IDs: []ID{p("")}},
		{Kind: "val", IDs: []ID{d("*.example.com")}},
		{Kind: "val", IDs: []ID{d("")}},
		{Kind: "val", IDs: []ID{{"email", "x@example.com"}}},
	}
}

func main() {
	n := flag.Int("n", 2000, "number of generated cases")
	out := flag.String("out", "", "output file (input<TAB>impl)")
	replay := flag.String("replay", "", "file of model input lines (case=… field) to re-run instead of generating")
	probeWire := flag.Bool("probe-wire-uri", false, "not a check stage: call (*Order).sans on a Wire order whose handle and client id are the same URI, with a CSR of two distinct URIs (C18 material)")
	probeWireSubject := flag.Bool("probe-wire-subject", false, "not a check stage: finalize a ready Wire order with a CSR whose display-name subject attribute is an INTEGER (C18 material)")
	flag.Parse()
	if *probeWire {
		fmt.Println(probeWireURI())
		return
	}
	if *probeWireSubject {
		if err := setup(); err != nil {
			fmt.Println(err)
			return
		}
		fmt.Println(probeWireSubjectCrash())
		return
	}
	if err := setup(); err != nil {
		fmt.Fprintln(os.Stderr, "setup:", err)
		os.Exit(2)
	}
	defer ca.Close()
	if err := setupOrderWorld(); err != nil {
		fmt.Fprintln(os.Stderr, "setup:", err)
		os.Exit(2)
	}
	defer closeOrderWorld()
	o, err := c.NewOut(*out)
	if err != nil {
		fmt.Fprintln(os.Stderr, err)
		os.Exit(2)
	}
	defer o.Close()
	if *replay != "" {
		data, err := os.ReadFile(*replay)
		if err != nil {
			fmt.Fprintln(os.Stderr, err)
			os.Exit(2)
		}
		for _, l := range strings.Split(string(data), "\n") {
			i := strings.Index(l, "case=x")
			if i < 0 {
				continue
			}
			h := l[i+6:]
			if j := strings.IndexAny(h, " \t"); j >= 0 {
				h = h[:j]
			}
			js, err := hex.DecodeString(h)
			if err != nil {
				continue
			}
			var k Case
			if json.Unmarshal(js, &k) == nil {
				k.emit(o)
			}
		}
		return
	}
	for _, k := range corner() {
		k.emit(o)
	}
	for _, k := range cornerOrd() {
		k.emit(o)
	}
	for i := 0; i < 12; i++ { // Wire orders: the plain one first, then fixed-seed variants
		rw := c.NewRng(uint64(1000 + i))
		k := genWire(rw)
		if i == 0 {
			k = &Case{Kind: "fin", Key: 1, FPs: []int{0, 0}, IDs: []ID{
				{"wireapp-user", `{"name":"Alice Smith","domain":"wire.com","handle":"wireapp://%40alice_wire@wire.com"}`},
				{"wireapp-device", `{"name":"Alice Smith","domain":"wire.com","client-id":"wireapp://CzbfFjDOQrenCbDxVmgnFw!594930e9d50bb175@wire.com","handle":"wireapp://%40alice_wire@wire.com"}`}},
				DN: []string{"Alice Smith"}, Org: []string{"wire.com"},
				URIs: []string{"wireapp://%40alice_wire@wire.com", "wireapp://CzbfFjDOQrenCbDxVmgnFw!594930e9d50bb175@wire.com"}}
		}
		k.emit(o)
	}
	r := c.NewRng(c.Seed())
	for i := 0; i < *n; i++ {
		genCase(r.Fork()).emit(o)
	}
}

// probeWireURI: Order.sans indexes orderURIs (de-duplicated) with the index of the CSR's
// de-duplicated URIs after comparing only the lengths before de-duplication.
func probeWireURI() (out string) {
	defer func() {
		if r := recover(); r != nil {
			out = fmt.Sprintf("panic: %v", r)
		}
	}()
	same := "wireapp://u!d@wire.com"
	user := `{"name":"n","domain":"wire.com","handle":"` + same + `"}`
	dev := `{"name":"n","domain":"wire.com","client-id":"` + same + `","handle":"` + same + `"}`
	nor := &acmeapi.NewOrderRequest{Identifiers: []acme.Identifier{{Type: acme.WireUser, Value: user}, {Type: acme.WireDevice, Value: dev}}}
	verr := nor.Validate()
	o := &acme.Order{ID: "o", Identifiers: nor.Identifiers}
	u1, _ := url.Parse(same)
	u2, _ := url.Parse("wireapp://zzz")
	_, err := o.VerifSans(&x509.CertificateRequest{URIs: []*url.URL{u1, u2}})
	return fmt.Sprintf("NewOrderRequest.Validate: %v; sans: no panic, err=%v", verr, err)
}

// probeWireSubjectCrash: createWireSubject asserts entry.Value.(string) on the CSR's subject
// attribute 2.16.840.1.113730.3.1.241 without checking the dynamic type.
func probeWireSubjectCrash() (out string) {
	defer func() {
		if r := recover(); r != nil {
			out = fmt.Sprintf("panic: %v", r)
		}
	}()
	user := `{"name":"Alice Smith","domain":"wire.com","handle":"wireapp://%40alice_wire@wire.com"}`
	dev := `{"name":"Alice Smith","domain":"wire.com","client-id":"wireapp://u!d@wire.com","handle":"wireapp://%40alice_wire@wire.com"}`
	o := &acme.Order{ID: "o", AccountID: "acc", ProvisionerID: prov.GetID(), Status: acme.StatusReady, ExpiresAt: time.Now().Add(time.Hour),
		Identifiers: []acme.Identifier{{Type: acme.WireUser, Value: user}, {Type: acme.WireDevice, Value: dev}}}
	tmpl := &x509.CertificateRequest{Subject: pkix.Name{Organization: []string{"wire.com"},
		ExtraNames: []pkix.AttributeTypeAndValue{{Type: []int{2, 16, 840, 1, 113730, 3, 1, 241}, Value: 5}}}}
	der, err := x509.CreateCertificateRequest(rand.Reader, tmpl, keys[1])
	if err != nil {
		return "csr: " + err.Error()
	}
	csr, err := x509.ParseCertificateRequest(der)
	if err != nil {
		return "parse: " + err.Error()
	}
	db := &acme.MockWireDB{MockDB: acme.MockDB{}}
	err = o.Finalize(context.Background(), db, csr, ca.Auth, prov)
	return fmt.Sprintf("no panic, err=%v", err)
}
