package main

import (
	"context"
	"encoding/json"
	"fmt"
	"net/http"
	"net/http/httptest"
	"os"
	"path/filepath"
	"strings"

	"github.com/go-chi/chi/v5"
	"github.com/smallstep/nosql"
	"go.step.sm/crypto/jose"

	"github.com/smallstep/certificates/acme"
	acmeapi "github.com/smallstep/certificates/acme/api"
	acmenosql "github.com/smallstep/certificates/acme/db/nosql"
	"github.com/smallstep/certificates/authority"
	"github.com/smallstep/certificates/authority/provisioner"
	c "verif/harness/common"
)

// kind=ord: the real api.NewOrder handler on the real nosql store; the order and every
// authorization it names are read back: which authorization backs which identifier.

type orderWorld struct {
	dir    string
	raw    nosql.DB
	db     *acmenosql.DB
	jwk    *jose.JSONWebKey
	linker acme.Linker
	provs  map[string]*provisioner.ACME // by enabled-challenge letters
	n      int
}

var ow *orderWorld

func setupOrderWorld() error {
	base := os.TempDir()
	if st, err := os.Stat("/dev/shm"); err == nil && st.IsDir() {
		base = "/dev/shm"
	}
	dir, err := os.MkdirTemp(base, "verif-c13-")
	if err != nil {
		return err
	}
	raw, err := nosql.New("bbolt", filepath.Join(dir, "acme.db"))
	if err != nil {
		return err
	}
	db, err := acmenosql.New(raw)
	if err != nil {
		return err
	}
	k, err := jose.GenerateJWK("EC", "P-256", "ES256", "sig", "", 0)
	if err != nil {
		return err
	}
	pub := k.Public()
	ow = &orderWorld{dir: dir, raw: raw, db: db, jwk: &pub, linker: acme.NewLinker("ca.verif.test", "acme"), provs: map[string]*provisioner.ACME{}}
	for name, letters := range map[string]string{"acme": "hdt", "acme-all": "hdta", "acme-dns": "d"} {
		p, err := ca.Auth.LoadProvisionerByName(name)
		if err != nil {
			return err
		}
		ap, ok := p.(*provisioner.ACME)
		if !ok {
			return fmt.Errorf("provisioner %s is %T", name, p)
		}
		ow.provs[letters] = ap
	}
	return nil
}

func closeOrderWorld() {
	if ow != nil {
		ow.raw.Close()
		os.RemoveAll(ow.dir)
	}
}

func chalLetter(t acme.ChallengeType) string {
	switch t {
	case acme.HTTP01:
		return "h"
	case acme.DNS01:
		return "d"
	case acme.TLSALPN01:
		return "t"
	case acme.DEVICEATTEST01:
		return "a"
	}
	return "?"
}

func asciiLower(s string) string {
	b := []byte(s)
	for i, ch := range b {
		if 'A' <= ch && ch <= 'Z' {
			b[i] = ch + 32
		}
	}
	return string(b)
}

func (k *Case) runOrder() (out string) {
	defer func() {
		if r := recover(); r != nil {
			out = "crash"
		}
	}()
	prov := ow.provs[k.En]
	if prov == nil {
		return "noprov"
	}
	ow.n++
	acc := &acme.Account{ID: fmt.Sprintf("acc%d", ow.n), Key: ow.jwk, Status: acme.StatusValid, ProvisionerID: prov.GetID(), ProvisionerName: prov.GetName()}
	payload, _ := json.Marshal(acmeapi.NewOrderRequest{Identifiers: acmeIDs(k.IDs)})
	ctx := authority.NewContext(context.Background(), ca.Auth)
	ctx = acme.NewContext(ctx, ow.db, nil, ow.linker, nil)
	ctx = acme.NewProvisionerContext(ctx, acme.Provisioner(prov))
	ctx = context.WithValue(ctx, acmeapi.ContextKey("acc"), acc)
	ctx = context.WithValue(ctx, acmeapi.ContextKey("jwk"), ow.jwk)
	ctx = acmeapi.VerifPayloadContext(ctx, payload, false, false)
	ctx = context.WithValue(ctx, chi.RouteCtxKey, chi.NewRouteContext())
	rec := httptest.NewRecorder()
	acmeapi.NewOrder(rec, httptest.NewRequest("POST", "https://ca.verif.test/acme/acme/new-order", nil).WithContext(ctx))
	if rec.Code != http.StatusCreated {
		var p struct {
			Type string `json:"type"`
		}
		_ = json.Unmarshal(rec.Body.Bytes(), &p)
		t := strings.TrimPrefix(p.Type, "urn:ietf:params:acme:error:")
		if t == "malformed" {
			return "malformed"
		}
		return "err:" + t
	}
	var body struct {
		ID string `json:"id"`
	}
	_ = json.Unmarshal(rec.Body.Bytes(), &body)
	bg := context.Background()
	o, err := ow.db.GetOrder(bg, body.ID)
	if err != nil {
		return "order-unreadable"
	}
	first := make([]string, len(o.AuthorizationIDs))
	azs := make([]string, len(o.AuthorizationIDs))
	viol := ""
	trimmed := false
	if len(o.AuthorizationIDs) != len(k.IDs) || o.AccountID != acc.ID || o.Status != acme.StatusPending {
		viol = " VIOL:order-record"
	}
	for i, azID := range o.AuthorizationIDs {
		for j := 0; j <= i; j++ {
			if o.AuthorizationIDs[j] == azID {
				first[i] = fmt.Sprint(j)
				break
			}
		}
		az, err := ow.db.GetAuthorization(bg, azID)
		if err != nil {
			azs[i] = "!"
			viol = " VIOL:identifier-without-own-authorization"
			continue
		}
		var chs strings.Builder
		for _, ch := range az.Challenges {
			chs.WriteString(chalLetter(ch.Type))
			if ch.AccountID != acc.ID || ch.Status != acme.StatusPending {
				viol = " VIOL:challenge-record"
			}
		}
		azs[i] = typCode(string(az.Identifier.Type)) + "~" + c.X(az.Identifier.Value) + "~" + c.B(az.Wildcard) + "~" + chs.String()
		// the property predicate on the stored records: the authorization named for identifier i
		// is of its type, for its name (ASCII case aside), of this account, pending; only a dns name has a
		// wildcard form (`*.x` needs an authorization for x flagged wildcard and restricted to dns-01); an
		// identifier of any other type needs an authorization for its value as it is
		if i < len(k.IDs) {
			id := k.IDs[i]
			wild := id.T == "dns" && strings.HasPrefix(id.V, "*.")
			want := id.V
			if wild {
				want = id.V[2:]
			}
			switch {
			case string(az.Identifier.Type) == id.T && az.Wildcard == wild && asciiLower(az.Identifier.Value) == asciiLower(want) &&
				az.AccountID == acc.ID && az.Status == acme.StatusPending && !(wild && chs.String() != "d" && chs.String() != ""):
			case id.T != "dns" && strings.HasPrefix(id.V, "*.") && string(az.Identifier.Type) == id.T && az.Wildcard &&
				az.Identifier.Value == id.V[2:] && az.AccountID == acc.ID && az.Status == acme.StatusPending:
				// C13-F4 (fixed in 77ebdfa): the `*.` was trimmed from an identifier that is not a dns name
				trimmed = true
			default:
				viol = " VIOL:identifier-without-own-authorization"
			}
		}
	}
	if viol == "" && trimmed {
		viol = " VIOL:wildcard-prefix-trimmed-from-non-dns-identifier"
	}
	return "created:" + strings.Join(first, ".") + ":" + strings.Join(azs, "|") + viol
}

// genOrd: identifier lists around what NewOrder must keep apart: the same name in another case,
// a name and its wildcard, an address in two spellings, plus lists Validate refuses.
func genOrd(r *c.Rng) *Case {
	k := &Case{Kind: "ord", En: c.Pick(r, []string{"hdt", "hdt", "hdta", "d"})}
	n := 1 + r.Intn(4)
	for i := 0; i < n; i++ {
		switch r.Intn(12) {
		case 0, 1, 2, 3:
			k.IDs = append(k.IDs, ID{"dns", c.Pick(r, dnsPool)})
		case 4, 5:
			k.IDs = append(k.IDs, ID{"ip", c.Pick(r, ipPool)})
		case 6:
			k.IDs = append(k.IDs, ID{"permanent-identifier", c.Pick(r, pidPool)})
		default:
			if len(k.IDs) == 0 {
				k.IDs = append(k.IDs, ID{"dns", c.Pick(r, dnsPool)})
				continue
			}
			d := k.IDs[r.Intn(len(k.IDs))]
			switch {
			case d.T == "dns" && r.Chance(1, 2): // the wildcard of a listed name / the base of a listed wildcard
				if strings.HasPrefix(d.V, "*.") {
					d.V = d.V[2:]
				} else {
					d.V = "*." + d.V
				}
			case d.T == "dns":
				d.V = mixCase(r, d.V)
			case d.T == "ip":
				d.V = respellIP(r, d.V)
			}
			if r.Chance(1, 4) {
				d.V = mixCase(r, d.V)
			}
			k.IDs = append(k.IDs, d)
		}
	}
	if r.Chance(1, 10) {
		switch r.Intn(4) {
		case 0:
			k.IDs = nil
		case 1:
			k.IDs = append(k.IDs, ID{"ip", "300.1.1.1"})
		case 2:
			k.IDs = append(k.IDs, ID{"dns", c.Pick(r, []string{"", "*.", "a..b", "exa mple.com"})})
		case 3:
			k.IDs = append(k.IDs, ID{"email", "x@example.com"})
		}
	}
	return k
}

func cornerOrd() []*Case {
	d := func(v string) ID { return ID{"dns", v} }
	return []*Case{
		{Kind: "ord", En: "hdt", IDs: []ID{d("example.com"), d("*.example.com")}},
		{Kind: "ord", En: "hdt", IDs: []ID{d("*.example.com"), d("example.com"), d("EXAMPLE.com")}},
		{Kind: "ord", En: "hdt", IDs: []ID{d("a.example.com"), d("A.Example.COM"), d("a.example.com")}},
		{Kind: "ord", En: "hdt", IDs: []ID{{"ip", "10.0.0.1"}, {"ip", "::ffff:10.0.0.1"}, d("host.local")}},
		{Kind: "ord", En: "hdta", IDs: []ID{{"permanent-identifier", "device-1234"}, d("*.example.com")}},
		{Kind: "ord", En: "hdta", IDs: []ID{{"permanent-identifier", "*.device-1234"}}}, // C13-F4 (fixed in 77ebdfa)
		{Kind: "ord", En: "d", IDs: []ID{{"ip", "10.0.0.1"}, d("example.com")}},
		{Kind: "ord", En: "hdt", IDs: nil},
	}
}
