// Harness for C16, stage `api` (oracle): provisioner create / update / delete, webhook create /
// delete and administrator create / update / delete through the REAL admin router
// (fixture.NewServer) with real x5c super-admin tokens and request bodies that are valid or wrong
// in one way (claims durations, templates, template data, ids, types, webhook url/kind/name,
// duplicate names, malformed JSON). After every request the property predicates are evaluated:
//
//	rejected-changed   a request answered with an error changed the provisioners or the admins
//	cache-ne-store     what the running CA serves differs from what a reload of the database would
//	                   build (authority.ProvisionerToCertificates of the stored record, as JSON)
//	restart-differs    a CA restarted on the same database lists something else
//	not-applied        an accepted create/delete is not visible in the listing
//	nosuper            no super administrator is left
//	crash              a handler panicked
//
// Lines: "<api op…>\t<verdict>\tok".
package main

import (
	"crypto"
	"crypto/sha256"
	"crypto/x509"
	"encoding/base64"
	"encoding/hex"
	"encoding/json"
	"encoding/pem"
	"flag"
	"fmt"
	"io"
	"log"
	"net/http/httptest"
	"os"
	"reflect"
	"runtime/debug"
	"sort"
	"strings"
	"time"

	"github.com/smallstep/linkedca"
	"go.step.sm/crypto/jose"
	"go.step.sm/crypto/randutil"
	"google.golang.org/protobuf/encoding/protojson"

	"github.com/smallstep/certificates/authority"
	"github.com/smallstep/certificates/authority/admin"
	"github.com/smallstep/certificates/authority/config"
	"github.com/smallstep/certificates/authority/provisioner"
	c "verif/harness/common"
	"verif/harness/fixture"
)

type Op struct {
	K string   // cp up dp cw dw ca ua da rs
	A []string // names / subjects
	V string   // variant: what is wrong with the body ("" = valid)
	B bool
}

// Hosted: the admin database the handlers see is neither the nosql one nor a linked CA, so the
// sub-routers that are switched off in standalone mode (provisioner policy, ACME account policy) run
type Case struct {
	Ops    []Op
	Hosted bool `json:",omitempty"`
}

// hostedDB is the nosql admin database under another type
type hostedDB struct{ admin.DB }

func must[T any](v T, err error) T {
	if err != nil {
		fmt.Fprintln(os.Stderr, "c16_api:", err)
		os.Exit(2)
	}
	return v
}

type env struct {
	ca     *fixture.CA
	srv    *fixture.Server
	leaf   *x509.Certificate
	key    crypto.Signer
	jwkPub []byte
	dir    string
	hosted bool
	note   string // a verdict an operation found by itself (concurrent probes)
}

// wrap makes the handlers see the admin database as a hosted one (checkAction tests for *nosql.DB)
func (e *env) wrap() {
	if e.hosted {
		e.srv.Base = admin.NewContext(e.srv.Base, &hostedDB{DB: e.ca.Auth.GetAdminDatabase()})
	}
}

func newEnv() *env {
	log.SetOutput(io.Discard)
	base := ""
	if st, err := os.Stat("/dev/shm"); err == nil && st.IsDir() {
		base = "/dev/shm"
	}
	dir := must(os.MkdirTemp(base, "c16api"))
	ca := must(fixture.New(fixture.Opts{DBDir: dir, Config: func(cfg *config.Config) { cfg.AuthorityConfig.EnableAdmin = true }}))
	e := &env{ca: ca, srv: must(ca.NewServer()), dir: dir}
	csr, key, err := fixture.CSR("step", []string{"step"})
	must(0, err)
	chain := must(ca.SignX509(must(ca.Token(fixture.TokenOpts{Subject: "step"})), csr, provisioner.SignOptions{}))
	e.leaf, e.key = chain[0], key
	if pk, err := x509.MarshalPKIXPublicKey(key.Public()); err == nil {
		pubPEM = pem.EncodeToMemory(&pem.Block{Type: "PUBLIC KEY", Bytes: pk})
	}
	jwk := must(jose.GenerateJWK("EC", "P-256", "ES256", "sig", "", 0))
	pub := jwk.Public()
	e.jwkPub = must(pub.MarshalJSON())
	return e
}

var pubPEM []byte // a PEM public key for K8sSA provisioners

func (e *env) close() { e.ca.Close(); os.RemoveAll(e.dir) }

func (e *env) token(path string) string {
	x5c := []string{base64.StdEncoding.EncodeToString(e.leaf.Raw), base64.StdEncoding.EncodeToString(e.ca.MiniCA.Intermediate.Raw)}
	so := new(jose.SignerOptions).WithType("JWT").WithHeader("x5c", x5c)
	sig := must(jose.NewSigner(jose.SigningKey{Algorithm: jose.ES256, Key: e.key}, so))
	now := time.Now()
	claims := map[string]any{"iss": "step-admin-client/1.0", "sub": "step", "aud": []string{fixture.Audience(path)},
		"nbf": now.Add(-time.Minute).Unix(), "exp": now.Add(30 * time.Minute).Unix(), "iat": now.Add(-time.Minute).Unix(), "jti": must(randutil.Hex(32))}
	return must(jose.Signed(sig).Claims(claims).CompactSerialize())
}

func (e *env) do(method, path, body string) fixture.Result {
	r := httptest.NewRequest("GET", "https://"+fixture.DNSName+path, strings.NewReader(body))
	r.Method = method
	r.Header.Set("Authorization", e.token(path))
	return e.srv.Serve(r, 60*time.Second)
}

// ---------- state as the property sees it ----------

type snap struct {
	provs  map[string]string // name -> JSON of the served provisioner
	admins []string
	supers int
	policy string
}

func (e *env) snapshot() snap {
	s := snap{provs: map[string]string{}}
	cur := ""
	for {
		l, next, _ := e.ca.Auth.GetProvisioners(cur, 100)
		for _, p := range l {
			js, _ := json.Marshal(p)
			s.provs[p.GetName()] = p.GetID() + " " + string(js) + polS(p)
		}
		if next == "" {
			break
		}
		cur = next
	}
	cur = ""
	for {
		l, next, _ := e.ca.Auth.GetAdmins(cur, 100)
		for _, a := range l {
			s.admins = append(s.admins, a.Id+"/"+a.Subject+"/"+a.ProvisionerId+"/"+a.Type.String())
			if a.Type == linkedca.Admin_SUPER_ADMIN {
				s.supers++
			}
		}
		if next == "" {
			break
		}
		cur = next
	}
	sort.Strings(s.admins)
	if pol, err := e.ca.Auth.GetAuthorityPolicy(e.srv.Base); err == nil && pol != nil {
		s.policy = "dns-allow=" + strings.Join(pol.GetX509().GetAllow().GetDns(), ",")
	}
	return s
}

// polS renders the name policy a provisioner carries (not part of its JSON)
func polS(p provisioner.Interface) string {
	v := reflect.ValueOf(p)
	for v.Kind() == reflect.Ptr || v.Kind() == reflect.Interface {
		if v.IsNil() {
			return ""
		}
		v = v.Elem()
	}
	if v.Kind() != reflect.Struct {
		return ""
	}
	f := v.FieldByName("Options")
	if !f.IsValid() || f.IsNil() {
		return ""
	}
	opts, ok := f.Interface().(*provisioner.Options)
	if !ok || opts == nil {
		return ""
	}
	x := opts.GetX509Options()
	if x == nil {
		return ""
	}
	out := ""
	if a := x.GetAllowedNameOptions(); a != nil {
		out += " allow-dns=" + strings.Join(a.DNSDomains, ",")
	}
	if d := x.GetDeniedNameOptions(); d != nil {
		out += " deny-dns=" + strings.Join(d.DNSDomains, ",")
	}
	return out
}

func (s snap) String() string {
	var names []string
	for n := range s.provs {
		names = append(names, n)
	}
	sort.Strings(names)
	var b strings.Builder
	for _, n := range names {
		b.WriteString(n + "=" + s.provs[n] + "\n")
	}
	b.WriteString(strings.Join(s.admins, ",") + "\npolicy:" + s.policy)
	return b.String()
}

// stored renders what a reload of the admin database would serve
func (e *env) stored() (out string, err error) {
	defer func() {
		if r := recover(); r != nil {
			out, err = "", fmt.Errorf("panic rebuilding from the stored records: %v %s", r, debugStack())
		}
	}()
	ctx := e.srv.Base
	db := e.ca.Auth.GetAdminDatabase()
	lps, err := db.GetProvisioners(ctx)
	if err != nil {
		return "", err
	}
	s := snap{provs: map[string]string{}}
	for _, lp := range lps {
		p, err := authority.ProvisionerToCertificates(lp)
		if err != nil {
			return "", err
		}
		js, _ := json.Marshal(p)
		s.provs[p.GetName()] = p.GetID() + " " + string(js) + polS(p)
	}
	as, err := db.GetAdmins(ctx)
	if err != nil {
		return "", err
	}
	for _, a := range as {
		s.admins = append(s.admins, a.Id+"/"+a.Subject+"/"+a.ProvisionerId+"/"+a.Type.String())
	}
	sort.Strings(s.admins)
	if pol, err := db.GetAuthorityPolicy(ctx); err == nil && pol != nil {
		s.policy = "dns-allow=" + strings.Join(pol.GetX509().GetAllow().GetDns(), ",")
	}
	return s.String(), nil
}

// ---------- request bodies ----------

var (
	nameP = []string{"pa", "pb", "pc", "pd"}
	subP  = []string{"s0", "s1", "s2"}
	whP   = []string{"w0", "w1"}
)

func (e *env) provBody(name, variant string) string {
	p := &linkedca.Provisioner{
		Name: name, Type: linkedca.Provisioner_JWK,
		Details: &linkedca.ProvisionerDetails{Data: &linkedca.ProvisionerDetails_JWK{JWK: &linkedca.JWKProvisioner{PublicKey: e.jwkPub}}},
		Claims:  &linkedca.Claims{X509: &linkedca.X509Claims{Enabled: true, Durations: &linkedca.Durations{Min: "5m", Max: "24h", Default: "1h"}}},
	}
	return mutateProv(p, variant)
}

func mutateProv(p *linkedca.Provisioner, variant string) string {
	switch variant {
	case "min>max":
		p.Claims = &linkedca.Claims{X509: &linkedca.X509Claims{Enabled: true, Durations: &linkedca.Durations{Min: "48h", Max: "24h", Default: "36h"}}}
	case "baddur":
		p.Claims = &linkedca.Claims{X509: &linkedca.X509Claims{Enabled: true, Durations: &linkedca.Durations{Min: "5 parsecs"}}}
	case "negdur":
		p.Claims = &linkedca.Claims{X509: &linkedca.X509Claims{Enabled: true, Durations: &linkedca.Durations{Default: "-1h"}}}
	case "min>default":
		p.Claims = &linkedca.Claims{X509: &linkedca.X509Claims{Enabled: true, Durations: &linkedca.Durations{Min: "2h", Max: "24h", Default: "1h"}}}
	case "sshdur":
		p.Claims = &linkedca.Claims{Ssh: &linkedca.SSHClaims{Enabled: true, UserDurations: &linkedca.Durations{Min: "10h", Max: "1h"}}}
	case "badtemplate":
		p.X509Template = &linkedca.Template{Template: []byte(`{"subject": {{ .Subject `)}
	case "badtemplatedata":
		p.X509Template = &linkedca.Template{Data: []byte(`{not json`)}
	case "goodtemplate":
		p.X509Template = &linkedca.Template{Template: []byte(`{"subject": {{ toJson .Subject }}, "sans": {{ toJson .SANs }}}`), Data: []byte(`{"a":1}`)}
	case "badsshtemplate":
		p.SshTemplate = &linkedca.Template{Template: []byte(`{{ if }}`)}
	case "nodetails":
		p.Details = nil
	case "wrongdetails":
		p.Details = &linkedca.ProvisionerDetails{Data: &linkedca.ProvisionerDetails_ACME{ACME: &linkedca.ACMEProvisioner{}}}
	case "badkey":
		p.Details = &linkedca.ProvisionerDetails{Data: &linkedca.ProvisionerDetails_JWK{JWK: &linkedca.JWKProvisioner{PublicKey: []byte(`{"kty":"EC"}`)}}}
	case "emptyname":
		p.Name = ""
	case "changeid":
		p.Id = "00000000-0000-0000-0000-000000000000"
	case "changetype":
		p.Type = linkedca.Provisioner_ACME
	case "shortclaims":
		p.Claims = &linkedca.Claims{X509: &linkedca.X509Claims{Enabled: true, Durations: &linkedca.Durations{Min: "1m", Max: "2m", Default: "90s"}}}
	case "k8s", "k8sid":
		// a Kubernetes service-account provisioner: one token id whatever the name; "id": with an id of the client's choosing
		p.Type = linkedca.Provisioner_K8SSA
		p.Details = &linkedca.ProvisionerDetails{Data: &linkedca.ProvisionerDetails_K8SSA{K8SSA: &linkedca.K8SSAProvisioner{PublicKeys: [][]byte{pubPEM}}}}
		if variant == "k8sid" {
			p.Id = "client-chosen-" + p.Name
		}
	case "presetid":
		p.Id = "client-chosen-" + p.Name
		p.AuthorityId = "some-other-authority"
	case "notjson":
		return `{"name": `
	}
	b, err := protojson.Marshal(p)
	if err != nil {
		return "{}"
	}
	return string(b)
}

var provVariants = []string{"", "", "", "", "", "", "", "goodtemplate", "goodtemplate", "shortclaims", "k8s", "k8s", "k8sid", "k8sid", "presetid", "shortclaims", "min>max", "baddur", "negdur", "min>default", "sshdur",
	"badtemplate", "badtemplatedata", "badsshtemplate", "nodetails", "wrongdetails", "badkey", "emptyname", "notjson"}
var updVariants = []string{"", "", "", "nopolicy", "nopolicy", "rename", "rename", "rename", "rename", "goodtemplate", "shortclaims", "goodtemplate", "shortclaims", "min>max", "baddur", "badtemplate", "badtemplatedata",
	"changeid", "changetype", "wrongdetails", "notjson"}
var whVariants = []string{"", "", "", "", "", "", "", "http", "nohost", "userinfo", "nokind", "noname", "secret", "notjson"}

func whBody(name, variant string) string {
	w := &linkedca.Webhook{Name: name, Url: "https://hooks.verif.test/" + name, Kind: linkedca.Webhook_ENRICHING}
	switch variant {
	case "http":
		w.Url = "http://hooks.verif.test/x"
	case "nohost":
		w.Url = "https:///x"
	case "userinfo":
		w.Url = "https://u:p@hooks.verif.test/x"
	case "nokind":
		w.Kind = linkedca.Webhook_NO_KIND
	case "noname":
		w.Name = ""
	case "secret":
		w.Secret = "c2VjcmV0"
	case "notjson":
		return `{"name": `
	}
	return string(must(protojson.Marshal(w)))
}

// ---------- one operation ----------

func (e *env) exec(o Op) (res fixture.Result, applied func(snap) bool) {
	switch o.K {
	case "cp":
		res = e.do("POST", "/admin/provisioners", e.provBody(o.A[0], o.V))
		return res, func(s snap) bool { _, ok := s.provs[o.A[0]]; return ok }
	case "up":
		lp, err := e.ca.Auth.GetAdminDatabase().GetProvisioner(e.srv.Base, e.idOf(o.A[0]))
		if err != nil {
			lp = &linkedca.Provisioner{Name: o.A[0], Type: linkedca.Provisioner_JWK,
				Details: &linkedca.ProvisionerDetails{Data: &linkedca.ProvisionerDetails_JWK{JWK: &linkedca.JWKProvisioner{PublicKey: e.jwkPub}}}}
		}
		newName := o.A[0]
		v := o.V
		if v == "rename" {
			lp.Name, newName, v = o.A[1], o.A[1], ""
		}
		if v == "nopolicy" {
			lp.Policy, v = nil, "" // PUT without policy: how a provisioner policy is removed on a stand-alone CA
		}
		res = e.do("PUT", "/admin/provisioners/"+o.A[0], mutateProv(lp, v))
		return res, func(s snap) bool { _, ok := s.provs[newName]; return ok }
	case "dp":
		res = e.do("DELETE", "/admin/provisioners/"+o.A[0], "")
		return res, func(s snap) bool { _, ok := s.provs[o.A[0]]; return !ok }
	case "cw":
		res = e.do("POST", "/admin/provisioners/"+o.A[0]+"/webhooks", whBody(o.A[1], o.V))
		return res, func(s snap) bool { return strings.Contains(s.provs[o.A[0]], `"name":"`+o.A[1]+`"`) }
	case "uw":
		// replace a webhook: the body names it, carries a new URL and no secret / id of its own
		body := `{"name":"` + o.A[1] + `","url":"https://hooks.verif.test/updated/` + o.A[1] + `","kind":"AUTHORIZING"}`
		switch o.V {
		case "http":
			body = `{"name":"` + o.A[1] + `","url":"http://hooks.verif.test/x","kind":"ENRICHING"}`
		case "secret":
			body = `{"name":"` + o.A[1] + `","url":"https://hooks.verif.test/x","kind":"ENRICHING","secret":"b3RoZXI="}`
		case "otherid":
			body = `{"name":"` + o.A[1] + `","url":"https://hooks.verif.test/x","kind":"ENRICHING","id":"other"}`
		case "notjson":
			body = `{"name": `
		}
		res = e.do("PUT", "/admin/provisioners/"+o.A[0]+"/webhooks/"+o.A[1], body)
		return res, func(s snap) bool { return strings.Contains(s.provs[o.A[0]], "hooks.verif.test/updated/"+o.A[1]) }
	case "dw":
		res = e.do("DELETE", "/admin/provisioners/"+o.A[0]+"/webhooks/"+o.A[1], "")
		return res, func(s snap) bool { return !strings.Contains(s.provs[o.A[0]], `"name":"`+o.A[1]+`"`) }
	case "pp", "pu":
		allow := `"step","s0","s1","s2"`
		switch o.V {
		case "lockout":
			allow = `"elsewhere"`
		case "badname":
			allow = `"**.bad..name"`
		case "other":
			allow = `"step","s0","s1","s2","more"`
		}
		body := `{"x509":{"allow":{"dns":[` + allow + `]}}}`
		if o.V == "notjson" {
			body = `{"x509": `
		}
		m := "POST"
		if o.K == "pu" {
			m = "PUT"
		}
		res = e.do(m, "/admin/policy", body)
		return res, func(s snap) bool { return s.policy != "" }
	case "pd":
		res = e.do("DELETE", "/admin/policy", "")
		return res, func(s snap) bool { return s.policy == "" }
	case "xd":
		// the same DELETE from many clients at once, again and again: every answer is a 200 or an
		// error, never a panic; afterwards no policy is left
		const clients = 32
		rounds := 60
		if os.Getenv("VERIF_TIER") == "thorough" {
			rounds = 1500
		}
		for i := 0; i < rounds && res.Panic == ""; i++ {
			if r := e.do("POST", "/admin/policy", `{"x509":{"allow":{"dns":["step","s0","s1","s2"]}}}`); r.Panic != "" {
				return r, func(snap) bool { return true }
			}
			ch := make(chan fixture.Result, clients)
			for j := 0; j < clients; j++ {
				go func() { ch <- e.do("DELETE", "/admin/policy", "") }()
			}
			for j := 0; j < clients; j++ {
				if r := <-ch; r.Panic != "" {
					res = r
				}
			}
		}
		if res.Panic == "" {
			res.Status = 200
		}
		return res, func(s snap) bool { return s.policy == "" }
	case "qp", "qu", "qd":
		// the provisioner-policy sub-router
		allow := `"step","s0","s1","s2","*.local"`
		switch o.V {
		case "lockout":
			allow = `"elsewhere"`
		case "badname":
			allow = `"**.bad..name"`
		case "other":
			allow = `"step","s0","s1","s2","more"`
		}
		body := `{"x509":{"allow":{"dns":[` + allow + `]}}}`
		if o.V == "notjson" {
			body = `{"x509": `
		}
		m := map[string]string{"qp": "POST", "qu": "PUT", "qd": "DELETE"}[o.K]
		if o.K == "qd" {
			body = ""
		}
		res = e.do(m, "/admin/provisioners/"+o.A[0]+"/policy", body)
		return res, func(s snap) bool {
			has := strings.Contains(s.provs[o.A[0]], " allow-dns=")
			return has == (o.K != "qd")
		}
	case "eb":
		// the ACME EAB sub-router: not implemented in this repository whatever the database
		m := "GET"
		if o.V == "post" {
			m = "POST"
		}
		res = e.do(m, "/admin/acme/eab/"+o.A[0], `{"reference":"r"}`)
		return res, func(snap) bool { return true }
	case "xa":
		// the same administrator created by many clients at once, again and again: exactly one of them
		// is stored each time (one request at a time: lock_before_everything); a duplicate pair in the
		// database makes every later start fail
		const clients = 8
		rounds := 25
		if os.Getenv("VERIF_TIER") == "thorough" {
			rounds = 400
		}
		for i := 0; i < rounds && e.note == ""; i++ {
			sub := fmt.Sprintf("cz%d", i)
			body := fmt.Sprintf(`{"subject":%q,"provisioner":"jwk","type":1}`, sub)
			ch := make(chan fixture.Result, clients)
			for j := 0; j < clients; j++ {
				go func() { ch <- e.do("POST", "/admin/admins", body) }()
			}
			created := 0
			for j := 0; j < clients; j++ {
				if r := <-ch; r.Panic != "" {
					res = r
				} else if r.Status == 201 {
					created++
				}
			}
			n := 0
			if das, err := e.ca.Auth.GetAdminDatabase().GetAdmins(e.srv.Base); err == nil {
				for _, a := range das {
					if a.Subject == sub {
						n++
					}
				}
			}
			if n != 1 || created != 1 {
				e.note = fmt.Sprintf("duplicate-admin:stored=%d:created=%d", n, created)
			}
		}
		if res.Panic == "" {
			res.Status = 200
		}
		return res, func(snap) bool { return true }
	case "xw":
		// PROBE, not generated (reachable by -replay only; notes/C16.md "lost webhook"): two different
		// webhooks created at the same time on one provisioner, both answered 201 - are both there?
		lost := 0
		for i := 0; i < 200; i++ {
			n1, n2 := fmt.Sprintf("xa%d", i), fmt.Sprintf("xb%d", i)
			ch := make(chan fixture.Result, 2)
			go func() { ch <- e.do("POST", "/admin/provisioners/"+o.A[0]+"/webhooks", whBody(n1, "")) }()
			go func() { ch <- e.do("POST", "/admin/provisioners/"+o.A[0]+"/webhooks", whBody(n2, "")) }()
			r1, r2 := <-ch, <-ch
			s := e.snapshot()
			if r1.Status == 201 && r2.Status == 201 && !(strings.Contains(s.provs[o.A[0]], `"name":"`+n1+`"`) && strings.Contains(s.provs[o.A[0]], `"name":"`+n2+`"`)) {
				lost++
			}
		}
		return fixture.Result{Status: 200}, func(snap) bool { return lost == 0 }
	case "ca":
		t := 1 // linkedca.Admin_ADMIN (the enum is read as a number)
		if o.B {
			t = 2
		}
		body := fmt.Sprintf(`{"subject":%q,"provisioner":%q,"type":%d}`, o.A[0], o.A[1], t)
		switch o.V {
		case "badtype":
			body = fmt.Sprintf(`{"subject":%q,"provisioner":%q,"type":7}`, o.A[0], o.A[1])
		case "nosubject":
			body = fmt.Sprintf(`{"subject":"","provisioner":%q,"type":1}`, o.A[1])
		case "notjson":
			body = `{"subject": `
		}
		res = e.do("POST", "/admin/admins", body)
		return res, func(s snap) bool {
			for _, a := range s.admins {
				if strings.Contains(a, "/"+o.A[0]+"/") {
					return true
				}
			}
			return false
		}
	case "ua":
		id := e.adminID(o.A[0])
		t := 1
		if o.B {
			t = 2
		}
		body := fmt.Sprintf(`{"type":%d}`, t)
		if o.V == "badtype" {
			body = `{"type":9}`
		}
		res = e.do("PATCH", "/admin/admins/"+id, body)
		return res, func(s snap) bool { return true }
	case "da":
		id := e.adminID(o.A[0])
		res = e.do("DELETE", "/admin/admins/"+id, "")
		return res, func(s snap) bool {
			for _, a := range s.admins {
				if strings.HasPrefix(a, id+"/") {
					return false
				}
			}
			return true
		}
	}
	return fixture.Result{Status: 299}, func(snap) bool { return true }
}

func (e *env) idOf(name string) string {
	if p, err := e.ca.Auth.LoadProvisionerByName(name); err == nil {
		return p.GetID()
	}
	return "no-such-id"
}

// adminID: id of the first admin with that subject, or a made-up id
func (e *env) adminID(sub string) string {
	l, _, _ := e.ca.Auth.GetAdmins("", 100)
	for _, a := range l {
		if a.Subject == sub {
			return a.Id
		}
	}
	return "no-such-admin"
}

func (k *Case) run() (line, verdict string, accepted int) {
	e := newEnv()
	defer e.close()
	e.hosted = k.Hosted
	e.wrap()
	verdict = "ok"
	var toks []string
	for i, o := range k.Ops {
		toks = append(toks, fmt.Sprintf("%s:%s:%s:%v", o.K, strings.Join(o.A, ","), o.V, o.B))
		if verdict != "ok" {
			continue
		}
		if o.K == "rs" {
			before := e.snapshot().String()
			ca, err := restart(e.ca)
			if err != nil {
				verdict = fmt.Sprintf("restart-failed@%d:%v", i, err)
				continue
			}
			e.ca = ca
			e.srv = must(e.ca.NewServer())
			e.wrap()
			if e.snapshot().String() != before {
				verdict = fmt.Sprintf("restart-differs@%d", i)
			}
			continue
		}
		before := e.snapshot()
		res, applied := e.exec(o)
		after := e.snapshot()
		ok2xx := res.Status >= 200 && res.Status < 300
		if ok2xx && before.String() != after.String() {
			accepted++
		}
		switch {
		case e.note != "":
			verdict = e.note
		case res.Panic != "":
			verdict = "crash:" + o.K + ":" + o.V + ":" + strings.ReplaceAll(res.Panic, "\t", " ")
		case res.Timeout:
			verdict = "timeout:" + o.K
		case !ok2xx && before.String() != after.String():
			verdict = fmt.Sprintf("rejected-changed:%s:%s:%d", o.K, o.V, res.Status)
		case ok2xx && !applied(after):
			verdict = fmt.Sprintf("not-applied:%s:%s", o.K, o.V)
		case before.supers >= 1 && after.supers == 0:
			verdict = "nosuper:" + o.K
		case os.Getenv("C16_API_NOSTORED") != "":
		default:
			if st, err := e.stored(); err != nil {
				verdict = "stored-unreadable:" + o.K + ":" + o.V + ":" + err.Error()
			} else if st != after.String() {
				verdict = fmt.Sprintf("cache-ne-store:%s:%s", o.K, o.V)
			}
		}
	}
	js, _ := json.Marshal(k)
	return "api " + strings.Join(toks, " ") + " case=x" + hex.EncodeToString(js), verdict, accepted
}

func restart(ca *fixture.CA) (out *fixture.CA, err error) {
	defer func() {
		if r := recover(); r != nil {
			out, err = nil, fmt.Errorf("panic: %v", r)
		}
	}()
	return ca.Restart()
}

// ---------- generator ----------

func genCase(r *c.Rng) *Case {
	k := &Case{Hosted: r.Chance(1, 3)}
	// mostly start from a CA that already has two more provisioners and a second super admin
	if r.Chance(3, 4) {
		k.Ops = append(k.Ops, Op{K: "cp", A: []string{"pa"}}, Op{K: "cp", A: []string{"pb"}, V: "goodtemplate"}, Op{K: "ca", A: []string{"s0", "pa"}, B: true})
	}
	n := 5 + r.Intn(12)
	for i := 0; i < n; i++ {
		switch x := r.Intn(100); {
		case x < 22:
			k.Ops = append(k.Ops, Op{K: "cp", A: []string{c.Pick(r, nameP)}, V: c.Pick(r, provVariants)})
		case x < 42:
			k.Ops = append(k.Ops, Op{K: "up", A: []string{c.Pick(r, append(nameP, "jwk")), c.Pick(r, nameP)}, V: c.Pick(r, updVariants)})
		case x < 50:
			k.Ops = append(k.Ops, Op{K: "dp", A: []string{c.Pick(r, append(nameP, "jwk"))}})
		case x < 62:
			k.Ops = append(k.Ops, Op{K: "cw", A: []string{c.Pick(r, append(nameP, "jwk")), c.Pick(r, whP)}, V: c.Pick(r, whVariants)})
		case x < 65:
			k.Ops = append(k.Ops, Op{K: "uw", A: []string{c.Pick(r, append(nameP, "jwk")), c.Pick(r, whP)}, V: c.Pick(r, []string{"", "", "", "http", "secret", "otherid", "notjson"})})
		case x < 68:
			k.Ops = append(k.Ops, Op{K: "dw", A: []string{c.Pick(r, append(nameP, "jwk")), c.Pick(r, whP)}})
		case x < 80:
			k.Ops = append(k.Ops, Op{K: "ca", A: []string{c.Pick(r, subP), c.Pick(r, append(nameP, "jwk"))}, B: r.Chance(1, 2),
				V: c.Pick(r, []string{"", "", "", "", "badtype", "nosubject", "notjson"})})
		case x < 87:
			k.Ops = append(k.Ops, Op{K: "ua", A: []string{c.Pick(r, append(subP, "step"))}, B: r.Chance(1, 2), V: c.Pick(r, []string{"", "", "", "badtype"})})
		case x < 91:
			k.Ops = append(k.Ops, Op{K: "da", A: []string{c.Pick(r, append(subP, "step"))}})
		case x < 95:
			k.Ops = append(k.Ops, Op{K: c.Pick(r, []string{"pp", "pp", "pu", "pd", "pd"}), V: c.Pick(r, []string{"", "", "", "other", "lockout", "badname", "notjson"})})
		case x < 98:
			k.Ops = append(k.Ops, Op{K: c.Pick(r, []string{"qp", "qp", "qu", "qd"}), A: []string{c.Pick(r, append(nameP, "jwk"))}, V: c.Pick(r, []string{"", "", "", "other", "lockout", "badname", "notjson"})})
		case x < 99:
			k.Ops = append(k.Ops, Op{K: "eb", A: []string{c.Pick(r, append(nameP, "jwk"))}, V: c.Pick(r, []string{"", "post"})})
		default:
			k.Ops = append(k.Ops, Op{K: "rs"})
		}
	}
	return k
}

func corner() []*Case {
	return []*Case{
		// provisioner policies through their sub-router (hosted database): refused lock-out, accepted, conflict, replaced, removed; and switched off in standalone mode
		{Hosted: true, Ops: []Op{{K: "cp", A: []string{"pa"}}, {K: "qu", A: []string{"pa"}}, {K: "qd", A: []string{"pa"}}, {K: "qp", A: []string{"jwk"}, V: "lockout"}, {K: "qp", A: []string{"jwk"}, V: "badname"},
			{K: "qp", A: []string{"jwk"}}, {K: "qp", A: []string{"jwk"}}, {K: "rs"}, {K: "qu", A: []string{"jwk"}, V: "lockout"}, {K: "qu", A: []string{"jwk"}, V: "other"}, {K: "up", A: []string{"jwk", "jwk"}, V: "nopolicy"}, {K: "rs"}, {K: "qp", A: []string{"jwk"}}, {K: "up", A: []string{"jwk", "pb"}, V: "rename"},
			{K: "qu", A: []string{"pb"}, V: "lockout"}, {K: "qd", A: []string{"pb"}}, {K: "qd", A: []string{"pb"}}, {K: "eb", A: []string{"pb"}}, {K: "rs"}}},
		// token ids that do not depend on the name, ids of the client's choosing
		{Ops: []Op{{K: "cp", A: []string{"pa"}, V: "k8s"}, {K: "cp", A: []string{"pb"}, V: "k8s"}, {K: "cp", A: []string{"pb"}, V: "k8sid"}, {K: "cp", A: []string{"pc"}, V: "presetid"}, {K: "rs"},
			{K: "up", A: []string{"pa", "pd"}, V: "rename"}, {K: "cp", A: []string{"pa"}, V: "k8sid"}, {K: "dp", A: []string{"pd"}}, {K: "cp", A: []string{"pa"}, V: "k8sid"}, {K: "rs"}}},
		{Ops: []Op{{K: "qp", A: []string{"jwk"}}, {K: "qu", A: []string{"jwk"}}, {K: "qd", A: []string{"jwk"}}, {K: "eb", A: []string{"jwk"}}}},
		{Ops: []Op{{K: "pd"}, {K: "pp", V: "lockout"}, {K: "pp"}, {K: "pp"}, {K: "pu", V: "other"}, {K: "rs"}, {K: "pd"}, {K: "pd"}, {K: "pu"}, {K: "xd"}, {K: "pd"}, {K: "rs"}, {K: "xa"}, {K: "rs"}}},
		{Ops: []Op{{K: "cp", A: []string{"pa"}}, {K: "cp", A: []string{"pa"}}, {K: "cp", A: []string{"pb"}, V: "min>max"}, {K: "cp", A: []string{"pb"}, V: "badtemplate"},
			{K: "cp", A: []string{"pb"}, V: "goodtemplate"}, {K: "rs"}, {K: "up", A: []string{"pb", "pc"}, V: "rename"}, {K: "up", A: []string{"pc", "pc"}, V: "changeid"},
			{K: "cw", A: []string{"pc", "w0"}}, {K: "cw", A: []string{"pc", "w0"}}, {K: "cw", A: []string{"pc", "w1"}, V: "http"}, {K: "uw", A: []string{"pc", "w0"}}, {K: "uw", A: []string{"pc", "w0"}, V: "secret"}, {K: "uw", A: []string{"pc", "w1"}}, {K: "rs"}, {K: "dw", A: []string{"pc", "w0"}}, {K: "dw", A: []string{"pc", "w0"}},
			{K: "dp", A: []string{"pc"}}, {K: "dp", A: []string{"jwk"}}}},
		{Ops: []Op{{K: "cp", A: []string{"pa"}}, {K: "ca", A: []string{"s0", "pa"}, B: true}, {K: "ca", A: []string{"s0", "pa"}, B: false}, {K: "up", A: []string{"pa", "pb"}, V: "rename"},
			{K: "ua", A: []string{"s0"}, B: false}, {K: "da", A: []string{"step"}}, {K: "ua", A: []string{"step"}, B: false}, {K: "da", A: []string{"s0"}}, {K: "rs"}, {K: "dp", A: []string{"pb"}}}},
	}
}

func main() {
	n := flag.Int("n", 50, "number of generated sequences")
	out := flag.String("out", "", "output file")
	replay := flag.String("replay", "", "file of lines (case=… field) to re-run")
	mode := flag.String("mode", "api", "api (oracle) | valid (compared with the model)")
	flag.Parse()
	o := must(c.NewOut(*out))
	defer o.Close()
	if *mode == "valid" {
		runValid(o, *n, *replay)
		return
	}
	emit := func(k *Case) {
		// expected: no predicate violated; "=<k>" counts the requests that were accepted and changed something
		line, v, acc := k.run()
		want := fmt.Sprintf("ok=%d", acc)
		if v == "ok" {
			v = want
		}
		o.Case(line, v+"\t"+want)
	}
	if *replay != "" {
		data := must(os.ReadFile(*replay))
		for _, l := range strings.Split(string(data), "\n") {
			i := strings.Index(l, "case=x")
			if i < 0 {
				continue
			}
			h := l[i+6:]
			if j := strings.IndexAny(h, " \t"); j >= 0 {
				h = h[:j]
			}
			js, err := hex.DecodeString(h)
			if err != nil {
				continue
			}
			var k Case
			if json.Unmarshal(js, &k) == nil {
				emit(&k)
			}
		}
		return
	}
	for _, k := range corner() {
		emit(k)
	}
	r := c.NewRng(c.Seed())
	for i := 0; i < *n; i++ {
		emit(genCase(r.Fork()))
	}
	_ = sha256.Sum256
}

func debugStack() string {
	if os.Getenv("C16_STACK") == "" {
		return ""
	}
	return string(debug.Stack())
}
