package main

// stage `valid`: the checks that stand between a request body and the authority, compared with
// the model's functions line by line.
//
//	dur  d=<min>,<max>,<default>            authority.ValidateDurations                -> ok | bad
//	init d=<min>,<max>,<default>            provisioner.NewClaimer(...).Validate()      -> ok | bad
//	det  k=<type> d=<details kind | !>      authority.ProvisionerToCertificates         -> conv | refused
//	wh   p= n= u= h= s= i= k= sec= id= taken=   POST …/webhooks through the real router -> proceed | bad | conflict
//	body p= t= x=<durs|-> su=<durs|-> sh=<durs|->   POST /admin/provisioners through the real router -> pass | bad
//	kinds                                    number of details kinds UnmarshalProvisionerDetails knows -> n=<N>
//
// A duration is "-" (not given), "b" (does not parse) or its value in nanoseconds; the parse is
// provisioner.NewDuration, the function the code under test uses.

import (
	"errors"
	"fmt"
	"net/url"
	"os"
	"strings"

	"github.com/smallstep/linkedca"
	"google.golang.org/protobuf/encoding/protojson"

	"github.com/smallstep/certificates/authority"
	"github.com/smallstep/certificates/authority/admin"
	"github.com/smallstep/certificates/authority/config"
	"github.com/smallstep/certificates/authority/provisioner"
	c "verif/harness/common"
)

var durPool = []string{"", "", "5m", "1h", "2h", "24h", "0s", "-1h", "90s", "1ns", "xyz", "1d", "1.5h", "9223372036s", "48h"}

func durF(s string) string {
	if s == "" {
		return "-"
	}
	d, err := provisioner.NewDuration(s)
	if err != nil {
		return "b"
	}
	return fmt.Sprint(int64(d.Value()))
}

func dursF(d *linkedca.Durations) string {
	if d == nil {
		return "-"
	}
	return durF(d.Min) + "," + durF(d.Max) + "," + durF(d.Default)
}

func guard(f func() string) (out string) {
	defer func() {
		if r := recover(); r != nil {
			out = "crash"
		}
	}()
	return f()
}

func classErr(err error) string {
	if err == nil {
		return "ok"
	}
	var ae *admin.Error
	if errors.As(err, &ae) && ae != nil && ae.IsType(admin.ErrorBadRequestType) {
		return "bad"
	}
	return "err"
}

func durLine(d *linkedca.Durations) (string, string) {
	return "dur d=" + dursF(d), guard(func() string { return classErr(authority.ValidateDurations(d)) })
}

func initLine(d *linkedca.Durations) (string, string) {
	if strings.Contains(dursF(d), "b") {
		return "", "" // Init is not reached: the conversion of the claims fails before
	}
	return "init d=" + dursF(d), guard(func() string {
		cl := &provisioner.Claims{}
		set := func(s string) *provisioner.Duration {
			if s == "" {
				return nil
			}
			v, err := provisioner.NewDuration(s)
			if err != nil {
				return nil
			}
			return v
		}
		cl.MinTLSDur, cl.MaxTLSDur, cl.DefaultTLSDur = set(d.Min), set(d.Max), set(d.Default)
		cm, err := provisioner.NewClaimer(cl, config.GlobalProvisionerClaims)
		if err != nil {
			return "bad"
		}
		if err := cm.Validate(); err != nil {
			return "bad"
		}
		return "ok"
	})
}

// details of every kind, well formed enough for the conversion to succeed on the diagonal
func detailsOf(kind int, jwkPub []byte) *linkedca.ProvisionerDetails {
	switch linkedca.Provisioner_Type(kind) {
	case linkedca.Provisioner_JWK:
		return &linkedca.ProvisionerDetails{Data: &linkedca.ProvisionerDetails_JWK{JWK: &linkedca.JWKProvisioner{PublicKey: jwkPub}}}
	case linkedca.Provisioner_OIDC:
		return &linkedca.ProvisionerDetails{Data: &linkedca.ProvisionerDetails_OIDC{OIDC: &linkedca.OIDCProvisioner{ClientId: "c", ConfigurationEndpoint: "https://idp.verif.test/x"}}}
	case linkedca.Provisioner_GCP:
		return &linkedca.ProvisionerDetails{Data: &linkedca.ProvisionerDetails_GCP{GCP: &linkedca.GCPProvisioner{}}}
	case linkedca.Provisioner_AWS:
		return &linkedca.ProvisionerDetails{Data: &linkedca.ProvisionerDetails_AWS{AWS: &linkedca.AWSProvisioner{}}}
	case linkedca.Provisioner_AZURE:
		return &linkedca.ProvisionerDetails{Data: &linkedca.ProvisionerDetails_Azure{Azure: &linkedca.AzureProvisioner{TenantId: "t"}}}
	case linkedca.Provisioner_ACME:
		return &linkedca.ProvisionerDetails{Data: &linkedca.ProvisionerDetails_ACME{ACME: &linkedca.ACMEProvisioner{}}}
	case linkedca.Provisioner_X5C:
		return &linkedca.ProvisionerDetails{Data: &linkedca.ProvisionerDetails_X5C{X5C: &linkedca.X5CProvisioner{}}}
	case linkedca.Provisioner_K8SSA:
		return &linkedca.ProvisionerDetails{Data: &linkedca.ProvisionerDetails_K8SSA{K8SSA: &linkedca.K8SSAProvisioner{}}}
	case linkedca.Provisioner_SSHPOP:
		return &linkedca.ProvisionerDetails{Data: &linkedca.ProvisionerDetails_SSHPOP{SSHPOP: &linkedca.SSHPOPProvisioner{}}}
	case linkedca.Provisioner_SCEP:
		return &linkedca.ProvisionerDetails{Data: &linkedca.ProvisionerDetails_SCEP{SCEP: &linkedca.SCEPProvisioner{}}}
	case linkedca.Provisioner_NEBULA:
		return &linkedca.ProvisionerDetails{Data: &linkedca.ProvisionerDetails_Nebula{Nebula: &linkedca.NebulaProvisioner{}}}
	}
	return nil
}

func detLine(k, d int, jwkPub []byte) (string, string) {
	ds := "!"
	if d >= 0 {
		ds = fmt.Sprint(d)
	}
	p := &linkedca.Provisioner{Name: "x", Type: linkedca.Provisioner_Type(k)}
	if d >= 0 {
		p.Details = detailsOf(d, jwkPub)
	}
	return fmt.Sprintf("det k=%d d=%s", k, ds), guard(func() string {
		if _, err := authority.ProvisionerToCertificates(p); err != nil {
			return "refused"
		}
		return "conv"
	})
}

// kinds: how many types UnmarshalProvisionerDetails has a details message for
func kindsLine() (string, string) {
	n := 0
	for k := range linkedca.Provisioner_Type_name {
		if _, err := admin.UnmarshalProvisionerDetails(linkedca.Provisioner_Type(k), []byte("{}")); err == nil {
			n++
		}
	}
	return "kinds", fmt.Sprintf("n=%d", n)
}

var whURLs = []string{"https://hooks.verif.test/a", "https://hooks.verif.test:8443/a?b=c", "http://hooks.verif.test/a", "https:///nohost", "https://u:p@hooks.verif.test/a",
	"https://u@hooks.verif.test/a", "://bad", "https://hooks.verif.test/%zz", "", "ftp://hooks.verif.test/a", "hooks.verif.test/a", "HTTPS://hooks.verif.test/a", "https://[::1]:99/a", "https://hooks.verif.test\x7f/a"}

type whCase struct {
	name, url    string
	kind         int32
	secret, id   string
	taken, notJS bool
}

func (e *env) whLine(k whCase, prov string, seq *int) (string, string) {
	*seq++
	name := k.name
	if name != "" {
		name = fmt.Sprintf("%s%d", k.name, *seq)
	}
	if k.taken && name != "" {
		// a webhook with that name first
		w := &linkedca.Webhook{Name: name, Url: "https://hooks.verif.test/first", Kind: linkedca.Webhook_ENRICHING}
		if r := e.do("POST", "/admin/provisioners/"+prov+"/webhooks", string(must(protojson.Marshal(w)))); r.Status != 201 {
			return "", ""
		}
	}
	w := &linkedca.Webhook{Name: name, Url: k.url, Kind: linkedca.Webhook_Kind(k.kind), Secret: k.secret, Id: k.id}
	body := string(must(protojson.Marshal(w)))
	if k.notJS {
		body = `{"name": `
	}
	u, uerr := url.Parse(k.url)
	host, https, user := false, false, false
	if uerr == nil {
		host, https, user = u.Host != "", u.Scheme == "https", u.User != nil
	}
	_, kindKnown := linkedca.Webhook_Kind_name[k.kind]
	kindKnown = kindKnown && k.kind != int32(linkedca.Webhook_NO_KIND)
	line := fmt.Sprintf("wh p=%s n=%s u=%s h=%s s=%s i=%s k=%s sec=%s id=%s taken=%s", c.B(!k.notJS), c.B(name != ""), c.B(uerr == nil), c.B(host), c.B(https), c.B(user),
		c.B(kindKnown), c.B(k.secret != ""), c.B(k.id != ""), c.B(k.taken && name != ""))
	res := e.do("POST", "/admin/provisioners/"+prov+"/webhooks", body)
	switch {
	case res.Panic != "":
		return line, "crash"
	case res.Status == 201:
		return line, "proceed"
	case res.Status == 400:
		return line, "bad"
	case res.Status == 409:
		return line, "conflict"
	}
	return line, fmt.Sprint(res.Status)
}

// whuLine: PUT …/webhooks/{name} against a provisioner that has the webhook `keep` (id and secret known)
func (e *env) whuLine(k whCase, prov, keepID, keepSecret string, nameKind, secretKind, idKind int) (string, string) {
	name := map[int]string{0: "keep", 1: "unknown-hook", 2: ""}[nameKind]
	secret := map[int]string{0: "", 1: keepSecret, 2: "b3RoZXI="}[secretKind]
	id := map[int]string{0: "", 1: keepID, 2: "other-id"}[idKind]
	w := &linkedca.Webhook{Name: name, Url: k.url, Kind: linkedca.Webhook_Kind(k.kind), Secret: secret, Id: id}
	body := string(must(protojson.Marshal(w)))
	if k.notJS {
		body = `{"name": `
	}
	u, uerr := url.Parse(k.url)
	host, https, user := false, false, false
	if uerr == nil {
		host, https, user = u.Host != "", u.Scheme == "https", u.User != nil
	}
	_, kindKnown := linkedca.Webhook_Kind_name[k.kind]
	kindKnown = kindKnown && k.kind != int32(linkedca.Webhook_NO_KIND)
	line := fmt.Sprintf("wh op=update p=%s n=%s u=%s h=%s s=%s i=%s k=%s sec=%s id=%s taken=%s sd=%s idd=%s", c.B(!k.notJS), c.B(name != ""), c.B(uerr == nil), c.B(host), c.B(https), c.B(user),
		c.B(kindKnown), c.B(secret != ""), c.B(id != ""), c.B(nameKind == 0), c.B(secretKind == 2), c.B(idKind == 2))
	pathName := name
	if pathName == "" {
		pathName = "keep"
	}
	res := e.do("PUT", "/admin/provisioners/"+prov+"/webhooks/"+pathName, body)
	switch {
	case res.Panic != "":
		return line, "crash"
	case res.Status == 201 || res.Status == 200:
		return line, "proceed"
	case res.Status == 400:
		return line, "bad"
	case res.Status == 404:
		return line, "notfound"
	case res.Status == 409:
		return line, "conflict"
	}
	return line, fmt.Sprint(res.Status)
}

type bodyCase struct {
	x, su, sh *linkedca.Durations
	tmpl      string // "", good, badtemplate, baddata, badssh, badsshdata
	notJS     bool
}

func (e *env) bodyLine(k bodyCase, seq *int) (string, string) {
	*seq++
	p := &linkedca.Provisioner{
		Name: fmt.Sprintf("vb%d", *seq), Type: linkedca.Provisioner_JWK,
		Details: &linkedca.ProvisionerDetails{Data: &linkedca.ProvisionerDetails_JWK{JWK: &linkedca.JWKProvisioner{PublicKey: e.jwkPub}}},
	}
	if k.x != nil || k.su != nil || k.sh != nil {
		p.Claims = &linkedca.Claims{}
		if k.x != nil {
			p.Claims.X509 = &linkedca.X509Claims{Enabled: true, Durations: k.x}
		}
		if k.su != nil || k.sh != nil {
			p.Claims.Ssh = &linkedca.SSHClaims{Enabled: true, UserDurations: k.su, HostDurations: k.sh}
		}
	}
	tOK := true
	switch k.tmpl {
	case "good":
		p.X509Template = &linkedca.Template{Template: []byte(`{"subject": {{ toJson .Subject }}, "sans": {{ toJson .SANs }}}`), Data: []byte(`{"a":1}`)}
		p.SshTemplate = &linkedca.Template{Template: []byte(`{"type": "{{ .Type }}", "keyId": "{{ .KeyID }}"}`)}
	case "badtemplate":
		p.X509Template, tOK = &linkedca.Template{Template: []byte(`{"subject": {{ .Subject `)}, false
	case "baddata":
		p.X509Template, tOK = &linkedca.Template{Data: []byte(`{not json`)}, false
	case "badssh":
		p.SshTemplate, tOK = &linkedca.Template{Template: []byte(`{{ if }}`)}, false
	case "badsshdata":
		p.SshTemplate, tOK = &linkedca.Template{Data: []byte(`[1,`)}, false
	}
	body := string(must(protojson.Marshal(p)))
	if k.notJS {
		body = `{"name": "x", `
	}
	line := fmt.Sprintf("body p=%s t=%s x=%s su=%s sh=%s", c.B(!k.notJS), c.B(tOK), dursF(k.x), dursF(k.su), dursF(k.sh))
	res := e.do("POST", "/admin/provisioners", body)
	switch {
	case res.Panic != "":
		return line, "crash"
	case res.Status == 201:
		return line, "pass"
	case res.Status == 400:
		return line, "bad"
	}
	return line, fmt.Sprint(res.Status)
}

func runValid(o *c.Out, n int, replay string) {
	if replay != "" {
		// every line of this stage is its own input: re-run it as generated (the fields say what was sent)
		fmt.Fprintln(os.Stderr, "c16_api -mode valid: replay re-runs the fixed part")
		n = 0
	}
	emit := func(line, impl string) {
		if line != "" {
			o.Case(line, impl)
		}
	}
	r := c.NewRng(c.Seed())
	pickD := func() *linkedca.Durations {
		return &linkedca.Durations{Min: c.Pick(r, durPool), Max: c.Pick(r, durPool), Default: c.Pick(r, durPool)}
	}
	// fixed part: the table of kinds, both diagonals and off-diagonals, and the corner durations
	emit(kindsLine())
	e := newEnv()
	defer e.close()
	for k := 0; k <= 12; k++ {
		for d := -1; d <= 11; d++ {
			if d == 0 {
				continue
			}
			emit(detLine(k, d, e.jwkPub))
		}
	}
	for _, d := range []*linkedca.Durations{{}, {Min: "5m", Max: "24h", Default: "1h"}, {Max: "1h", Default: "2h"}, {Min: "1m", Max: "1h", Default: "2h"}, {Min: "2h", Max: "1h"},
		{Min: "2h", Default: "1h"}, {Default: "-1h"}, {Min: "-1h"}, {Max: "-1h"}, {Min: "x"}, {Max: "x"}, {Default: "x"}, {Min: "0s"}, {Max: "1h"}, {Min: "1h", Max: "1h", Default: "1h"}} {
		emit(durLine(d))
		emit(initLine(d))
	}
	for i := 0; i < 40*n; i++ {
		d := pickD()
		emit(durLine(d))
		emit(initLine(d))
	}
	// through the router
	if res := e.do("POST", "/admin/provisioners", e.provBody("vhooks", "")); res.Status != 201 {
		must(0, fmt.Errorf("cannot create the provisioner for the webhook lines: %d %s", res.Status, res.Body))
	}
	seq := 0
	for _, u := range whURLs {
		emit(e.whLine(whCase{name: "w", url: u, kind: 1}, "vhooks", &seq))
	}
	for _, k := range []whCase{{name: "", url: whURLs[0], kind: 1}, {name: "w", url: whURLs[0], kind: 0}, {name: "w", url: whURLs[0], kind: 2}, {name: "w", url: whURLs[0], kind: 77},
		{name: "w", url: whURLs[0], kind: 1, secret: "c2VjcmV0"}, {name: "w", url: whURLs[0], kind: 1, id: "abc"}, {name: "w", url: whURLs[0], kind: 1, taken: true},
		{name: "w", url: whURLs[2], kind: 1, taken: true}, {name: "w", url: whURLs[0], kind: 1, notJS: true}} {
		emit(e.whLine(k, "vhooks", &seq))
	}
	for i := 0; i < 3*n; i++ {
		k := whCase{name: c.Pick(r, []string{"w", "w", "w", ""}), url: c.Pick(r, whURLs), kind: int32(c.Pick(r, []int{1, 1, 1, 2, 0, 9})), taken: r.Chance(1, 6), notJS: r.Chance(1, 15)}
		if r.Chance(1, 8) {
			k.secret = "c2VjcmV0"
		}
		if r.Chance(1, 8) {
			k.id = "id"
		}
		emit(e.whLine(k, "vhooks", &seq))
	}
	// webhook update: the webhook `keep`, then bodies naming it / another / nothing, with its own or another secret and id
	var keep linkedca.Webhook
	if res := e.do("POST", "/admin/provisioners/vhooks/webhooks", whBody("keep", "")); res.Status != 201 || protojson.Unmarshal(res.Body, &keep) != nil {
		must(0, fmt.Errorf("cannot create the webhook for the update lines: %d %s", res.Status, res.Body))
	}
	for nameKind := 0; nameKind < 3; nameKind++ {
		for secretKind := 0; secretKind < 3; secretKind++ {
			for idKind := 0; idKind < 3; idKind++ {
				emit(e.whuLine(whCase{url: whURLs[0], kind: 1}, "vhooks", keep.Id, keep.Secret, nameKind, secretKind, idKind))
			}
		}
	}
	for _, u := range whURLs {
		emit(e.whuLine(whCase{url: u, kind: 2}, "vhooks", keep.Id, keep.Secret, 0, 1, 1))
	}
	emit(e.whuLine(whCase{url: whURLs[0], kind: 0}, "vhooks", keep.Id, keep.Secret, 0, 0, 0))
	emit(e.whuLine(whCase{url: whURLs[0], kind: 1, notJS: true}, "vhooks", keep.Id, keep.Secret, 0, 0, 0))
	for i := 0; i < 2*n; i++ {
		emit(e.whuLine(whCase{url: c.Pick(r, whURLs), kind: int32(c.Pick(r, []int{1, 1, 2, 0, 9})), notJS: r.Chance(1, 20)}, "vhooks", keep.Id, keep.Secret,
			c.Pick(r, []int{0, 0, 0, 1, 2}), r.Intn(3), r.Intn(3)))
	}
	for _, k := range []bodyCase{{}, {x: &linkedca.Durations{Min: "5m", Max: "24h", Default: "1h"}}, {x: &linkedca.Durations{Max: "1h", Default: "2h"}},
		{su: &linkedca.Durations{Max: "1h", Default: "2h"}}, {sh: &linkedca.Durations{Min: "2h", Max: "1h"}}, {x: &linkedca.Durations{Min: "0s"}}, {x: &linkedca.Durations{Max: "1h"}},
		{tmpl: "good"}, {tmpl: "badtemplate"}, {tmpl: "baddata"}, {tmpl: "badssh"}, {tmpl: "badsshdata"}, {notJS: true}, {x: &linkedca.Durations{Default: "-1h"}}} {
		emit(e.bodyLine(k, &seq))
	}
	for i := 0; i < 4*n; i++ {
		k := bodyCase{tmpl: c.Pick(r, []string{"", "", "", "good", "badtemplate", "baddata", "badssh", "badsshdata"}), notJS: r.Chance(1, 20)}
		if r.Chance(2, 3) {
			k.x = pickD()
		}
		if r.Chance(1, 3) {
			k.su = pickD()
		}
		if r.Chance(1, 4) {
			k.sh = pickD()
		}
		emit(e.bodyLine(k, &seq))
	}
	// the provisioner-policy sub-router, reachable with a hosted admin database: a provisioner without
	// administrators (no lock-out question), the handler gates only
	h := newEnv()
	defer h.close()
	h.hosted = true
	h.wrap()
	if res := h.do("POST", "/admin/provisioners", h.provBody("vpol", "")); res.Status != 201 {
		must(0, fmt.Errorf("cannot create the provisioner for the policy lines: %d %s", res.Status, res.Body))
	}
	has := false
	pp := func(verb, variant string) {
		body, parses, valid := `{"x509":{"allow":{"dns":["*.local"]}}}`, true, true
		switch variant {
		case "notjson":
			body, parses = `{"x509": `, false
		case "badname":
			body, valid = `{"x509":{"allow":{"dns":["**.bad..name"]}}}`, false
		case "badssh":
			body, valid = `{"ssh":{"user":{"allow":{"emails":["not an address"]}}}}`, false
		}
		m := map[string]string{"create": "POST", "update": "PUT", "delete": "DELETE"}[verb]
		if verb == "delete" {
			body = ""
		}
		line := fmt.Sprintf("pp op=%s has=%s p=%s v=%s", verb, c.B(has), c.B(parses), c.B(valid))
		res := h.do(m, "/admin/provisioners/vpol/policy", body)
		impl := fmt.Sprint(res.Status)
		switch {
		case res.Panic != "":
			impl = "crash"
		case res.Status == 200 || res.Status == 201:
			impl = "proceed"
			has = verb != "delete"
		case res.Status == 400:
			impl = "bad"
		case res.Status == 404:
			impl = "notfound"
		case res.Status == 409:
			impl = "conflict"
		}
		emit(line, impl)
	}
	for _, st := range [][2]string{{"update", ""}, {"delete", ""}, {"create", "notjson"}, {"create", "badname"}, {"create", "badssh"}, {"create", ""}, {"create", ""}, {"create", "notjson"},
		{"update", "notjson"}, {"update", "badname"}, {"update", ""}, {"delete", ""}, {"delete", ""}, {"update", "badssh"}, {"create", ""}, {"delete", "notjson"}} {
		pp(st[0], st[1])
	}
	for i := 0; i < n; i++ {
		pp(c.Pick(r, []string{"create", "update", "delete"}), c.Pick(r, []string{"", "", "notjson", "badname", "badssh"}))
	}
	_ = strings.TrimSpace
}
