// Package common holds what every per-property harness shares: the single PRNG all
// random choices derive from, hex helpers for the line protocol, and a case writer.
package common

import (
	"bufio"
	"encoding/hex"
	"fmt"
	"os"
	"strconv"
	"strings"
)

// Rng is SplitMix64; every random choice of a run derives from one state seeded by VERIF_SEED.
type Rng struct{ s uint64 }

// NewRng scrambles the seed first, so that consecutive seeds give unrelated streams
// (a plain SplitMix64 state of seed and seed+1 would be the same stream shifted by one draw).
func NewRng(seed uint64) *Rng {
	z := seed + 0x632BE59BD9B4E019
	z = (z ^ (z >> 30)) * 0xBF58476D1CE4E5B9
	z = (z ^ (z >> 27)) * 0x94D049BB133111EB
	return &Rng{s: z ^ (z >> 31)}
}

func (r *Rng) U64() uint64 {
	r.s += 0x9E3779B97F4A7C15
	z := r.s
	z = (z ^ (z >> 30)) * 0xBF58476D1CE4E5B9
	z = (z ^ (z >> 27)) * 0x94D049BB133111EB
	return z ^ (z >> 31)
}

// Intn returns a value in [0,n).
func (r *Rng) Intn(n int) int {
	if n <= 0 {
		return 0
	}
	return int(r.U64() % uint64(n))
}

// Bool is true with probability num/den.
func (r *Rng) Chance(num, den int) bool { return r.Intn(den) < num }

func Pick[T any](r *Rng, xs []T) T { return xs[r.Intn(len(xs))] }

// Fork derives an independent generator (so per-case streams do not shift when a generator changes).
func (r *Rng) Fork() *Rng { return &Rng{s: r.U64()} }

// Seed reads VERIF_SEED (default 1).
func Seed() uint64 {
	if v := os.Getenv("VERIF_SEED"); v != "" {
		if n, err := strconv.ParseUint(v, 10, 64); err == nil {
			return n
		}
	}
	return 1
}

// X encodes a string as x<hex>.
func X(s string) string { return "x" + hex.EncodeToString([]byte(s)) }

// XB encodes bytes as x<hex>.
func XB(b []byte) string { return "x" + hex.EncodeToString(b) }

// UnX decodes x<hex>.
func UnX(s string) (string, error) {
	if !strings.HasPrefix(s, "x") {
		return "", fmt.Errorf("not x-hex: %q", s)
	}
	b, err := hex.DecodeString(s[1:])
	return string(b), err
}

// Opt renders an optional string: "!" for none.
func Opt(s string, ok bool) string {
	if !ok {
		return "!"
	}
	return X(s)
}

func B(b bool) string {
	if b {
		return "1"
	}
	return "0"
}

// List joins items with ',' ("-" when empty).
func List(items []string) string {
	if len(items) == 0 {
		return "-"
	}
	return strings.Join(items, ",")
}

// Out writes "<input>\t<impl output>" lines, flushed per line so that a crash loses nothing.
type Out struct {
	w *bufio.Writer
	f *os.File
	N int
}

func NewOut(path string) (*Out, error) {
	f, err := os.Create(path)
	if err != nil {
		return nil, err
	}
	return &Out{w: bufio.NewWriter(f), f: f}, nil
}

func (o *Out) Case(input, impl string) {
	fmt.Fprintf(o.w, "%s\t%s\n", input, impl)
	o.w.Flush()
	o.N++
}

func (o *Out) Close() { o.w.Flush(); o.f.Close() }

// Row writes tab-separated columns (input, impl[, expected]) for oracle-style stages.
func (o *Out) Row(cols ...string) {
	fmt.Fprintln(o.w, strings.Join(cols, "\t"))
	o.w.Flush()
	o.N++
}
