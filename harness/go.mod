module verif/harness

go 1.23.7

require (
	github.com/fxamacker/cbor/v2 v2.8.0
	github.com/go-chi/chi/v5 v5.2.1
	github.com/google/go-tpm v0.9.3
	github.com/google/uuid v1.6.0
	github.com/slackhq/nebula v1.9.5
	github.com/smallstep/certificates v0.0.0
	github.com/smallstep/go-attestation v0.4.4-0.20240109183208-413678f90935
	github.com/smallstep/linkedca v0.23.0
	github.com/smallstep/nosql v0.7.0
	github.com/smallstep/pkcs7 v0.2.1
	github.com/smallstep/scep v0.0.0-20240926084937-8cf1ca453101
	go.step.sm/crypto v0.60.0
	golang.org/x/crypto v0.37.0
	golang.org/x/net v0.39.0
	google.golang.org/grpc v1.71.1
	google.golang.org/protobuf v1.36.6
)

require (
	dario.cat/mergo v1.0.1 // indirect
	filippo.io/edwards25519 v1.1.0 // indirect
	github.com/AndreasBriese/bbloom v0.0.0-20190825152654-46b345b51c96 // indirect
	github.com/Masterminds/goutils v1.1.1 // indirect
	github.com/Masterminds/semver/v3 v3.3.0 // indirect
	github.com/Masterminds/sprig/v3 v3.3.0 // indirect
	github.com/beorn7/perks v1.0.1 // indirect
	github.com/ccoveille/go-safecast v1.6.1 // indirect
	github.com/cespare/xxhash v1.1.0 // indirect
	github.com/cespare/xxhash/v2 v2.3.0 // indirect
	github.com/chzyer/readline v1.5.1 // indirect
	github.com/coreos/go-oidc/v3 v3.14.1 // indirect
	github.com/cpuguy83/go-md2man/v2 v2.0.5 // indirect
	github.com/dgraph-io/badger v1.6.2 // indirect
	github.com/dgraph-io/badger/v2 v2.2007.4 // indirect
	github.com/dgraph-io/ristretto v0.1.0 // indirect
	github.com/dgryski/go-farm v0.0.0-20200201041132-a6ae2369ad13 // indirect
	github.com/dustin/go-humanize v1.0.1 // indirect
	github.com/go-jose/go-jose/v3 v3.0.4 // indirect
	github.com/go-jose/go-jose/v4 v4.0.5 // indirect
	github.com/go-sql-driver/mysql v1.8.1 // indirect
	github.com/golang/glog v1.2.4 // indirect
	github.com/golang/protobuf v1.5.4 // indirect
	github.com/golang/snappy v0.0.4 // indirect
	github.com/google/certificate-transparency-go v1.1.7 // indirect
	github.com/google/go-tspi v0.3.0 // indirect
	github.com/huandu/xstrings v1.5.0 // indirect
	github.com/jackc/pgpassfile v1.0.0 // indirect
	github.com/jackc/pgservicefile v0.0.0-20221227161230-091c0ba34f0a // indirect
	github.com/jackc/pgx/v5 v5.6.0 // indirect
	github.com/jackc/puddle/v2 v2.2.1 // indirect
	github.com/klauspost/compress v1.18.0 // indirect
	github.com/manifoldco/promptui v0.9.0 // indirect
	github.com/mattn/go-colorable v0.1.13 // indirect
	github.com/mattn/go-isatty v0.0.20 // indirect
	github.com/mgutz/ansi v0.0.0-20200706080929-d51e80ef957d // indirect
	github.com/mitchellh/copystructure v1.2.0 // indirect
	github.com/mitchellh/reflectwalk v1.0.2 // indirect
	github.com/munnerz/goautoneg v0.0.0-20191010083416-a7dc8b61c822 // indirect
	github.com/newrelic/go-agent/v3 v3.38.0 // indirect
	github.com/pkg/errors v0.9.1 // indirect
	github.com/prometheus/client_golang v1.22.0 // indirect
	github.com/prometheus/client_model v0.6.1 // indirect
	github.com/prometheus/common v0.62.0 // indirect
	github.com/prometheus/procfs v0.15.1 // indirect
	github.com/rs/xid v1.6.0 // indirect
	github.com/russross/blackfriday/v2 v2.1.0 // indirect
	github.com/shopspring/decimal v1.4.0 // indirect
	github.com/shurcooL/sanitized_anchor_name v1.0.0 // indirect
	github.com/sirupsen/logrus v1.9.3 // indirect
	github.com/smallstep/cli-utils v0.12.1 // indirect
	github.com/spf13/cast v1.7.0 // indirect
	github.com/urfave/cli v1.22.16 // indirect
	github.com/x448/float16 v0.8.4 // indirect
	go.etcd.io/bbolt v1.3.10 // indirect
	golang.org/x/exp v0.0.0-20240531132922-fd00a4e0eefc // indirect
	golang.org/x/oauth2 v0.28.0 // indirect
	golang.org/x/sync v0.13.0 // indirect
	golang.org/x/sys v0.32.0 // indirect
	golang.org/x/text v0.24.0 // indirect
	google.golang.org/genproto/googleapis/rpc v0.0.0-20250313205543-e70fdf4c4cb4 // indirect
)

replace github.com/smallstep/certificates => /repo
