module verif/harness

go 1.23.7

require (
	github.com/smallstep/certificates v0.0.0
	go.step.sm/crypto v0.60.0
	golang.org/x/crypto v0.37.0
	golang.org/x/net v0.39.0
)

require (
	dario.cat/mergo v1.0.1 // indirect
	filippo.io/edwards25519 v1.1.0 // indirect
	github.com/Masterminds/goutils v1.1.1 // indirect
	github.com/Masterminds/semver/v3 v3.3.0 // indirect
	github.com/Masterminds/sprig/v3 v3.3.0 // indirect
	github.com/go-jose/go-jose/v3 v3.0.4 // indirect
	github.com/google/uuid v1.6.0 // indirect
	github.com/huandu/xstrings v1.5.0 // indirect
	github.com/mitchellh/copystructure v1.2.0 // indirect
	github.com/mitchellh/reflectwalk v1.0.2 // indirect
	github.com/pkg/errors v0.9.1 // indirect
	github.com/shopspring/decimal v1.4.0 // indirect
	github.com/spf13/cast v1.7.0 // indirect
	golang.org/x/text v0.24.0 // indirect
	google.golang.org/protobuf v1.36.6 // indirect
)

replace github.com/smallstep/certificates => /repo
