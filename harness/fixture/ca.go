// Package fixture stands up a real, embedded smallstep authority (in-memory root and
// intermediate, optional SSH signers, a bbolt database in a temp dir) for the end-to-end
// stages of the per-property harnesses. Nothing here mocks repository code.
package fixture

import (
	"crypto"
	"crypto/ecdsa"
	"crypto/elliptic"
	"crypto/rand"
	"crypto/x509"
	"crypto/x509/pkix"
	"fmt"
	"net"
	"net/url"
	"os"
	"path/filepath"
	"strings"
	"time"

	"go.step.sm/crypto/jose"
	"go.step.sm/crypto/minica"
	"go.step.sm/crypto/randutil"
	"go.step.sm/crypto/x509util"

	"github.com/smallstep/certificates/authority"
	"github.com/smallstep/certificates/authority/config"
	"github.com/smallstep/certificates/authority/provisioner"
	"github.com/smallstep/certificates/db"
)

// DNSName is the CA's own name; token audiences are https://ca.verif.test/1.0/<op>.
const DNSName = "ca.verif.test"

type Opts struct {
	// DBDir: reuse an existing directory (restart); empty = new temp dir. NoDB = run without a database.
	DBDir string
	NoDB  bool
	// WrapDB lets a harness wrap the AuthDB (fault injection, schedule control).
	WrapDB func(db.AuthDB) db.AuthDB
	SSH    bool
	CRL    *config.CRLConfig
	Claims *provisioner.Claims // global claims (authority level); nil = defaults
	// Extra provisioners besides the default JWK provisioner "jwk".
	Provisioners provisioner.List
	// JWKClaims / JWKOptions configure the default JWK provisioner.
	JWKClaims  *provisioner.Claims
	JWKOptions *provisioner.Options
	Backdate   time.Duration
	// Extra authority options (webhook client, policy through config, …) applied last.
	Extra []authority.Option
	// Mutate the config before the authority is built.
	Config func(*config.Config)
	// reuse key material of an earlier CA (restart keeps the same CA)
	From *CA
}

type CA struct {
	Auth     *authority.Authority
	MiniCA   *minica.CA
	JWK      *jose.JSONWebKey // private key of provisioner "jwk"
	JWKProv  *provisioner.JWK
	SSHUser  crypto.Signer
	SSHHost  crypto.Signer
	DBDir    string
	ownDBDir bool
	DB       db.AuthDB
	opts     Opts
}

func must[T any](v T, err error) T {
	if err != nil {
		panic(err)
	}
	return v
}

// New builds and initialises the authority.
func New(o Opts) (*CA, error) {
	c := &CA{opts: o}
	if o.From != nil {
		c.MiniCA, c.JWK, c.SSHUser, c.SSHHost = o.From.MiniCA, o.From.JWK, o.From.SSHUser, o.From.SSHHost
	} else {
		ca, err := minica.New(minica.WithName("Verif"))
		if err != nil {
			return nil, err
		}
		c.MiniCA = ca
		jwk, err := jose.GenerateJWK("EC", "P-256", "ES256", "sig", "", 0)
		if err != nil {
			return nil, err
		}
		c.JWK = jwk
		kid, err := jose.Thumbprint(jwk)
		if err != nil {
			return nil, err
		}
		c.JWK.KeyID = kid
		if o.SSH {
			c.SSHUser = must(ecdsa.GenerateKey(elliptic.P256(), rand.Reader))
			c.SSHHost = must(ecdsa.GenerateKey(elliptic.P256(), rand.Reader))
		}
	}
	pub := c.JWK.Public()
	c.JWKProv = &provisioner.JWK{Type: "JWK", Name: "jwk", Key: &pub, Claims: o.JWKClaims, Options: o.JWKOptions}
	provs := provisioner.List{c.JWKProv}
	provs = append(provs, o.Provisioners...)
	cfg := &config.Config{
		DNSNames: []string{DNSName},
		Address:  ":443",
		AuthorityConfig: &config.AuthConfig{
			Provisioners: provs,
			Claims:       o.Claims,
		},
		CRL: o.CRL,
	}
	if o.Backdate != 0 {
		cfg.AuthorityConfig.Backdate = &provisioner.Duration{Duration: o.Backdate}
	}
	if o.Config != nil {
		o.Config(cfg)
	}
	opts := []authority.Option{
		authority.WithConfig(cfg),
		authority.WithX509RootCerts(c.MiniCA.Root),
		authority.WithX509Signer(c.MiniCA.Intermediate, c.MiniCA.Signer),
		authority.WithQuietInit(),
	}
	if o.SSH && c.SSHUser != nil {
		opts = append(opts, authority.WithSSHUserSigner(c.SSHUser), authority.WithSSHHostSigner(c.SSHHost))
	}
	if !o.NoDB {
		c.DBDir = o.DBDir
		if c.DBDir == "" {
			d, err := os.MkdirTemp("", "verif-db-")
			if err != nil {
				return nil, err
			}
			c.DBDir, c.ownDBDir = d, true
		}
		adb, err := db.New(&db.Config{Type: "bbolt", DataSource: filepath.Join(c.DBDir, "ca.db")})
		if err != nil {
			return nil, err
		}
		c.DB = adb
		if o.WrapDB != nil {
			c.DB = o.WrapDB(adb)
		}
		opts = append(opts, authority.WithDatabase(c.DB))
	}
	opts = append(opts, o.Extra...)
	a, err := authority.NewEmbedded(opts...)
	if err != nil {
		if c.DB != nil {
			c.DB.Shutdown()
		}
		return nil, err
	}
	c.Auth = a
	return c, nil
}

// Restart shuts the authority down and starts a new one on the same database and keys.
func (c *CA) Restart() (*CA, error) {
	if err := c.Auth.Shutdown(); err != nil {
		return nil, err
	}
	o := c.opts
	o.DBDir = c.DBDir
	o.From = c
	n, err := New(o)
	if err != nil {
		return nil, err
	}
	n.ownDBDir = c.ownDBDir
	c.ownDBDir = false
	return n, nil
}

// Close shuts down and removes the database directory if this CA created it.
func (c *CA) Close() {
	if c.Auth != nil {
		c.Auth.Shutdown()
	}
	if c.ownDBDir && c.DBDir != "" {
		os.RemoveAll(c.DBDir)
	}
}

// Audience returns the URL tokens for the given API path are addressed to, e.g. Audience("/1.0/sign").
func Audience(path string) string { return "https://" + DNSName + path }

// TokenOpts describes a provisioning token; zero values give a valid sign token.
type TokenOpts struct {
	Subject  string
	SANs     []string
	Audience string // default Audience("/1.0/sign")
	Issuer   string // default "jwk"
	KeyID    string // default the provisioner key id
	IssuedAt time.Time
	NotBefore, Expiry time.Time
	JTI      string // default random; "-" = omit
	Key      *jose.JSONWebKey // default the provisioner key
	Extra    map[string]any   // extra private claims (sha, step{ssh…}, …)
	NoSANs   bool
}

// Token mints a JWK provisioning token (same claims layout the step CLI produces).
func (c *CA) Token(o TokenOpts) (string, error) {
	key := o.Key
	if key == nil {
		key = c.JWK
	}
	kid := o.KeyID
	if kid == "" {
		kid = key.KeyID
	}
	so := new(jose.SignerOptions).WithType("JWT").WithHeader("kid", kid)
	sig, err := jose.NewSigner(jose.SigningKey{Algorithm: jose.SignatureAlgorithm(key.Algorithm), Key: key.Key}, so)
	if err != nil {
		return "", err
	}
	now := time.Now()
	if o.IssuedAt.IsZero() {
		o.IssuedAt = now
	}
	if o.NotBefore.IsZero() {
		o.NotBefore = now.Add(-time.Second)
	}
	if o.Expiry.IsZero() {
		o.Expiry = now.Add(5 * time.Minute)
	}
	if o.Audience == "" {
		o.Audience = Audience("/1.0/sign")
	}
	if o.Issuer == "" {
		o.Issuer = "jwk"
	}
	claims := map[string]any{
		"iss": o.Issuer, "sub": o.Subject, "aud": o.Audience,
		"iat": o.IssuedAt.Unix(), "nbf": o.NotBefore.Unix(), "exp": o.Expiry.Unix(),
	}
	switch o.JTI {
	case "-":
	case "":
		claims["jti"] = must(randutil.Hex(32))
	default:
		claims["jti"] = o.JTI
	}
	if !o.NoSANs {
		sans := o.SANs
		if sans == nil {
			sans = []string{o.Subject}
		}
		claims["sans"] = sans
	}
	for k, v := range o.Extra {
		claims[k] = v
	}
	return jose.Signed(sig).Claims(claims).CompactSerialize()
}

// CSR builds a certificate request for the given common name and SANs with a fresh P-256 key.
func CSR(cn string, sans []string) (*x509.CertificateRequest, crypto.Signer, error) {
	priv, err := ecdsa.GenerateKey(elliptic.P256(), rand.Reader)
	if err != nil {
		return nil, nil, err
	}
	csr, err := CSRWithKey(cn, sans, priv)
	return csr, priv, err
}

func CSRWithKey(cn string, sans []string, priv crypto.Signer) (*x509.CertificateRequest, error) {
	dns, ips, emails, uris := x509util.SplitSANs(sans)
	tpl := &x509.CertificateRequest{Subject: pkix.Name{CommonName: cn}, DNSNames: dns, IPAddresses: ips, EmailAddresses: emails, URIs: uris}
	der, err := x509.CreateCertificateRequest(rand.Reader, tpl, priv)
	if err != nil {
		return nil, err
	}
	return x509.ParseCertificateRequest(der)
}

// SignX509 runs the token flow the /1.0/sign handler runs: Authorize(sign) then Sign.
func (c *CA) SignX509(tok string, csr *x509.CertificateRequest, so provisioner.SignOptions) ([]*x509.Certificate, error) {
	ctx := provisioner.NewContextWithMethod(authority.NewContext(contextBackground(), c.Auth), provisioner.SignMethod)
	opts, err := c.Auth.Authorize(ctx, tok)
	if err != nil {
		return nil, err
	}
	return c.Auth.SignWithContext(ctx, csr, so, opts...)
}

// SANs lists a certificate's names in SplitSANs order (dns, ip, email, uri) as strings.
func SANs(crt *x509.Certificate) []string {
	var out []string
	out = append(out, crt.DNSNames...)
	for _, ip := range crt.IPAddresses {
		out = append(out, ip.String())
	}
	out = append(out, crt.EmailAddresses...)
	for _, u := range crt.URIs {
		out = append(out, u.String())
	}
	return out
}

var _ = net.IP{}
var _ = url.URL{}
var _ = strings.ToLower
var _ = fmt.Sprint
