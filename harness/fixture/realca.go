package fixture

import (
	"context"
	"crypto/ecdsa"
	"crypto/elliptic"
	"crypto/rand"
	"encoding/json"
	"encoding/pem"
	"fmt"
	"net/http"
	"os"
	"path/filepath"
	"strings"
	"time"

	"go.step.sm/crypto/jose"
	"go.step.sm/crypto/minica"
	"go.step.sm/crypto/pemutil"

	"github.com/smallstep/certificates/authority/config"
	"github.com/smallstep/certificates/authority/provisioner"
	"github.com/smallstep/certificates/ca"
	"github.com/smallstep/certificates/db"
)

// RealOpts configures NewRealCA.
type RealOpts struct {
	Provisioners provisioner.List // besides the default JWK provisioner "jwk"
	JWKClaims    *provisioner.Claims
	CRL          *config.CRLConfig
	EnableAdmin  bool
	Logger       bool // a "logger" section in the configuration (the request logger wraps every route)
	Config       func(*config.Config)
	Run          bool // write the configuration to <dir>/ca.json, start the servers: (*RealCA).Reload works
}

// RealCA is the certificate authority assembled by the repository's own ca.New / (*CA).Init from a
// configuration on disk: real routers, middleware (request id, logger, monitoring), base context. Requests are
// served in-process through the handler Init built for the TLS server (hook ca.VerifHandler).
type RealCA struct {
	*CA        // Auth, MiniCA, JWK, SSH keys: token and certificate helpers work as for the embedded fixture
	Real       *ca.CA
	Handler    http.Handler
	Base       context.Context
	Dir        string
	Cfg        *config.Config // what was written to ConfigFile (Run): edit, Save, Reload
	ConfigFile string
}

func writePEM(path, typ string, der []byte) error {
	return os.WriteFile(path, pem.EncodeToMemory(&pem.Block{Type: typ, Bytes: der}), 0o600)
}

// NewRealCA writes a CA configuration (root, intermediate, keys, bbolt database) into a fresh directory and
// initialises the real CA on it.
func NewRealCA(o RealOpts) (*RealCA, error) {
	dir, err := os.MkdirTemp("", "verif-realca-")
	if err != nil {
		return nil, err
	}
	ok := false
	defer func() {
		if !ok {
			os.RemoveAll(dir)
		}
	}()
	mca, err := minica.New(minica.WithName("Verif"))
	if err != nil {
		return nil, err
	}
	if err := writePEM(filepath.Join(dir, "root.crt"), "CERTIFICATE", mca.Root.Raw); err != nil {
		return nil, err
	}
	if err := writePEM(filepath.Join(dir, "intermediate.crt"), "CERTIFICATE", mca.Intermediate.Raw); err != nil {
		return nil, err
	}
	keyFile := func(name string, key any) (string, error) {
		p := filepath.Join(dir, name)
		if _, err := pemutil.Serialize(key, pemutil.ToFile(p, 0o600)); err != nil {
			return "", err
		}
		return p, nil
	}
	intKey, err := keyFile("intermediate.key", mca.Signer)
	if err != nil {
		return nil, err
	}
	sshU := must(ecdsa.GenerateKey(elliptic.P256(), rand.Reader))
	sshH := must(ecdsa.GenerateKey(elliptic.P256(), rand.Reader))
	sshUKey, err := keyFile("ssh_user.key", sshU)
	if err != nil {
		return nil, err
	}
	sshHKey, err := keyFile("ssh_host.key", sshH)
	if err != nil {
		return nil, err
	}
	jwk, err := jose.GenerateJWK("EC", "P-256", "ES256", "sig", "", 0)
	if err != nil {
		return nil, err
	}
	if jwk.KeyID, err = jose.Thumbprint(jwk); err != nil {
		return nil, err
	}
	pub := jwk.Public()
	jwkProv := &provisioner.JWK{Type: "JWK", Name: "jwk", Key: &pub, Claims: o.JWKClaims}
	cfg := &config.Config{
		Root:             []string{filepath.Join(dir, "root.crt")},
		IntermediateCert: filepath.Join(dir, "intermediate.crt"),
		IntermediateKey:  intKey,
		Address:          "127.0.0.1:0",
		DNSNames:         []string{DNSName},
		SSH:              &config.SSHConfig{HostKey: sshHKey, UserKey: sshUKey},
		DB:               &db.Config{Type: "bbolt", DataSource: filepath.Join(dir, "db")},
		CRL:              o.CRL,
		AuthorityConfig: &config.AuthConfig{
			Provisioners: append(provisioner.List{jwkProv}, o.Provisioners...),
			EnableAdmin:  o.EnableAdmin,
		},
		TLS: &config.DefaultTLSOptions,
	}
	if o.Logger {
		cfg.Logger = json.RawMessage(`{"format":"json"}`)
	}
	if o.Config != nil {
		o.Config(cfg)
	}
	// the request logger keeps the os.Stderr it finds when it is built: give it the null device
	if null, err := os.OpenFile(os.DevNull, os.O_WRONLY, 0); err == nil {
		saved := os.Stderr
		os.Stderr = null
		defer func() { os.Stderr = saved }()
	}
	caOpts := []ca.Option{ca.WithQuiet(true)}
	cfgFile := ""
	if o.Run {
		cfgFile = filepath.Join(dir, "ca.json")
		if err := cfg.Save(cfgFile); err != nil {
			return nil, err
		}
		caOpts = append(caOpts, ca.WithConfigFile(cfgFile))
	}
	real, err := ca.New(cfg, caOpts...)
	if err != nil {
		return nil, err
	}
	if o.Run {
		go real.Run()
	}
	h, base := real.VerifHandler()
	r := &RealCA{
		CA:   &CA{Auth: real.VerifAuthority(), MiniCA: mca, JWK: jwk, JWKProv: jwkProv, SSHUser: sshU, SSHHost: sshH},
		Real: real, Handler: h, Base: base, Dir: dir, Cfg: cfg, ConfigFile: cfgFile,
	}
	ok = true
	return r, nil
}

// Reload does what SIGHUP does: (*ca.CA).Reload re-reads ConfigFile, builds a new CA and hands the listeners over.
// The listener appears a moment after Run was started; until then Reload cannot copy it (it panics on the missing
// listener), so it is tried again: only the waiting depends on time, the outcome does not.
func (r *RealCA) Reload() error {
	if null, err := os.OpenFile(os.DevNull, os.O_WRONLY, 0); err == nil {
		saved := os.Stderr
		os.Stderr = null
		defer func() { os.Stderr = saved }()
	}
	var err error
	for i := 0; i < 9000; i++ {
		err = func() (err error) {
			defer func() {
				if p := recover(); p != nil {
					err = fmt.Errorf("reload: %v", p)
				}
			}()
			return r.Real.Reload()
		}()
		if err == nil {
			r.Handler, r.Base = r.Real.VerifHandler()
			r.CA.Auth = r.Real.VerifAuthority()
			return nil
		}
		if !strings.HasPrefix(err.Error(), "reload: ") {
			return err // Reload itself refused (configuration), not the missing listener
		}
		time.Sleep(20 * time.Millisecond)
	}
	return err
}

// Server wraps the real handler in the in-process serving helper (panic capture, time bound).
func (r *RealCA) Server() *Server { return &Server{Handler: r.Handler, Base: r.Base} }

// Close stops the CA and removes its directory.
func (r *RealCA) Close() {
	if r.Real != nil {
		_ = r.Real.Stop()
	}
	os.RemoveAll(r.Dir)
}
