package fixture

import (
	"context"
	"encoding/base64"

	"github.com/smallstep/certificates/authority"
)

func authorityNewContext(c *CA) context.Context {
	return authority.NewContext(context.Background(), c.Auth)
}

func b64(b []byte) string { return base64.StdEncoding.EncodeToString(b) }
