package fixture

import (
	"context"
	"crypto"
	"crypto/tls"
	"crypto/x509"
	"encoding/json"
	"fmt"
	"io"
	"net/http"
	"net/http/httptest"
	"os"
	"runtime/debug"
	"strings"
	"time"

	"github.com/go-chi/chi/v5"
	"github.com/go-chi/chi/v5/middleware"
	"go.step.sm/crypto/jose"
	"go.step.sm/crypto/randutil"

	"github.com/smallstep/certificates/acme"
	acmeAPI "github.com/smallstep/certificates/acme/api"
	acmeNoSQL "github.com/smallstep/certificates/acme/db/nosql"
	"github.com/smallstep/certificates/api"
	"github.com/smallstep/certificates/authority/admin"
	adminAPI "github.com/smallstep/certificates/authority/admin/api"
	"github.com/smallstep/certificates/db"
	"github.com/smallstep/certificates/logging"
	"github.com/smallstep/certificates/scep"
	scepAPI "github.com/smallstep/certificates/scep/api"
	"github.com/smallstep/nosql"
)

// Server is the CA's HTTP surface served in-process: the same routers, mounted at the same
// paths and with the same base context as ca.(*CA).Init builds (ca/ca.go is replicated here,
// because it only serves through a listening socket; the replica is part of the trusted base).
type Server struct {
	Handler http.Handler
	Base    context.Context
	ACMEDB  acme.DB
}

// WithLogger makes NewServer wrap the routers in the request logger the way ca.Init does when the
// configuration has a "logger" section (output discarded). The logger reads STEP_LOGGER_LOG_REAL_IP
// when it is built. (ca.Init's request-id middleware is an internal package and is not replicated.)
var WithLogger = false

// NewServer wires api, acme, admin and scep routers exactly like ca.Init.
func (c *CA) NewServer() (*Server, error) {
	mux := chi.NewRouter()
	mux.Use(middleware.GetHead)
	api.Route(mux)
	mux.Route("/1.0", func(r chi.Router) { api.Route(r) })
	mux.Get("/crl", api.CRL)
	mux.Get("/1.0/crl", api.CRL)

	s := &Server{}
	var acmeLinker acme.Linker
	if ndb, ok := c.Auth.GetDatabase().(nosql.DB); ok {
		adb, err := acmeNoSQL.New(ndb)
		if err != nil {
			return nil, err
		}
		s.ACMEDB = adb
		acmeLinker = acme.NewLinker(DNSName, "acme")
		mux.Route("/acme", func(r chi.Router) { acmeAPI.Route(r) })
		mux.Route("/2.0/acme", func(r chi.Router) { acmeAPI.Route(r) })
	}
	if c.Auth.IsAdminAPIEnabled() && c.Auth.GetAdminDatabase() != nil {
		mux.Route("/admin", func(r chi.Router) {
			adminAPI.Route(r,
				adminAPI.WithACMEResponder(adminAPI.NewACMEAdminResponder()),
				adminAPI.WithPolicyResponder(adminAPI.NewPolicyAdminResponder()),
				adminAPI.WithWebhookResponder(adminAPI.NewWebhookAdminResponder()))
		})
	}
	scepAuthority := c.Auth.GetSCEP()
	if scepAuthority != nil {
		mux.Route("/scep", func(r chi.Router) { scepAPI.Route(r) })
	}
	ctx := authorityContext(c)
	if authDB := c.Auth.GetDatabase(); authDB != nil {
		ctx = db.NewContext(ctx, authDB)
	}
	if adminDB := c.Auth.GetAdminDatabase(); adminDB != nil {
		ctx = admin.NewContext(ctx, adminDB)
	}
	if scepAuthority != nil {
		ctx = scep.NewContext(ctx, scepAuthority)
	}
	if s.ACMEDB != nil {
		ctx = acme.NewContext(ctx, s.ACMEDB, acme.NewClient(), acmeLinker, nil)
	}
	s.Handler, s.Base = mux, ctx
	if WithLogger {
		logger, err := logging.New("ca", json.RawMessage(`{"format":"json"}`))
		if err != nil {
			return nil, err
		}
		logger.Logger.SetOutput(io.Discard)
		s.Handler = logger.Middleware(mux)
	}
	return s, nil
}

// Result of serving one request in-process.
type Result struct {
	Status  int
	Body    []byte
	Header  http.Header
	Panic   string // non-empty: the handler panicked (value + top repository frame)
	Timeout bool
}

// Serve runs the handler on req with the server's base context, observing panics directly and
// bounding the request by d.
func (s *Server) Serve(req *http.Request, d time.Duration) Result {
	ctx, cancel := context.WithTimeout(s.Base, d)
	defer cancel()
	req = req.WithContext(ctx)
	// net/http's server never hands a handler a nil body
	if req.Body == nil {
		req.Body = http.NoBody
	}
	// an HTTP/1.0 client may send no Host header at all: a harness asks for that with the marker header
	if req.Host == "" && req.Header.Get("X-Verif-No-Host") == "" {
		req.Host = DNSName
	}
	req.Header.Del("X-Verif-No-Host")
	done := make(chan Result, 1)
	go func() {
		rec := httptest.NewRecorder()
		var res Result
		func() {
			defer func() {
				if r := recover(); r != nil {
					st := string(debug.Stack())
					if os.Getenv("VERIF_PANIC_STACK") != "" {
						fmt.Fprintln(os.Stderr, st)
					}
					res.Panic = fmt.Sprintf("%v @ %s", r, topRepoFrame(st))
				}
			}()
			s.Handler.ServeHTTP(rec, req)
		}()
		res.Status, res.Body, res.Header = rec.Code, rec.Body.Bytes(), rec.Header()
		done <- res
	}()
	select {
	case r := <-done:
		return r
	case <-time.After(d + 2*time.Second):
		return Result{Timeout: true}
	}
}

func topRepoFrame(stack string) string {
	for _, l := range strings.Split(stack, "\n") {
		if strings.HasPrefix(l, "github.com/smallstep/certificates/") && !strings.Contains(l, "verif/") {
			if i := strings.LastIndex(l, "("); i > 0 {
				l = l[:i]
			}
			return strings.TrimPrefix(l, "github.com/smallstep/certificates/")
		}
	}
	return "?"
}

// WithClientCert marks the request as received over mutual TLS with the given client chain.
func WithClientCert(req *http.Request, chain ...*x509.Certificate) *http.Request {
	req.TLS = &tls.ConnectionState{PeerCertificates: chain, HandshakeComplete: true}
	return req
}

// AdminToken mints an x5c admin token for path (e.g. "/admin/provisioners") signed with the key of
// crt, a client certificate this CA issued to an administrator's subject.
// The intermediates that issued it go into x5c after the leaf: the CA verifies the chain up to its roots.
func AdminToken(crt *x509.Certificate, key crypto.Signer, path, subject string, intermediates ...*x509.Certificate) (string, error) {
	x5c := []string{b64(crt.Raw)}
	for _, ic := range intermediates {
		x5c = append(x5c, b64(ic.Raw))
	}
	so := new(jose.SignerOptions).WithType("JWT").WithHeader("x5c", x5c)
	sig, err := jose.NewSigner(jose.SigningKey{Algorithm: jose.ES256, Key: key}, so)
	if err != nil {
		return "", err
	}
	now := time.Now()
	id, _ := randutil.Hex(32)
	claims := jose.Claims{
		ID: id, Issuer: "step-admin-client/1.0", Subject: subject, Audience: jose.Audience{Audience(path)},
		IssuedAt: jose.NewNumericDate(now), NotBefore: jose.NewNumericDate(now.Add(-time.Second)), Expiry: jose.NewNumericDate(now.Add(4 * time.Minute)),
	}
	return jose.Signed(sig).Claims(claims).CompactSerialize()
}
