package fixture

import "context"

func contextBackground() context.Context { return context.Background() }

func authorityContext(c *CA) context.Context {
	return authorityNewContext(c)
}
