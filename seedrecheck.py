#!/usr/bin/env python3
"""
Regression of the catch table: for every stored seeded change, a scratch worktree of /repo HEAD + the patch, and the
quick checks recorded in its meta.json ("caught_by") run from VERIF_ROOT (a committed snapshot of /verif) against it.
Prints one line per change: caught (failing-input / no-failing-input) | MISSED | neutralised (patch no longer applies).
usage: VERIF_ROOT=/tmp/verif_snap seedrecheck.py [parallel]   (writes seeded/RECHECK.json)
"""
import json, os, subprocess, sys, tempfile, glob, concurrent.futures as cf

ROOT = os.environ.get("VERIF_ROOT", "/verif")
ENV = dict(os.environ, GOFLAGS="-mod=mod", GOPROXY="off", VERIF_EVIDENCE_SCRATCH="1")


def sh(cmd, cwd=None, env=None, timeout=3600):
    p = subprocess.run(cmd, shell=True, cwd=cwd, env=env or ENV, stdout=subprocess.PIPE, stderr=subprocess.STDOUT, text=True, timeout=timeout)
    return p.returncode, p.stdout


def one(d):
    name = os.path.basename(d)
    meta = json.load(open(os.path.join(d, "meta.json")))
    checks = list((meta.get("checks") or meta.get("caught_by") or {}).keys()) or [meta["property"]]
    wt = tempfile.mkdtemp(prefix="seedrc-", dir="/tmp")
    os.rmdir(wt)
    sh(f"git -C /repo worktree add -q --detach {wt} HEAD")
    try:
        rc, out = sh(f"git apply {os.path.join(d, 'patch.diff')}", cwd=wt)
        if rc != 0:
            rc3, _ = sh(f"git apply --3way {os.path.join(d, 'patch.diff')}", cwd=wt)
            if rc3 != 0:
                return name, {"result": "neutralised", "detail": out[-300:]}
        res = {}
        verdict = "MISSED"
        for c in checks:
            rc, out = sh(f"./check {c} quick", cwd=ROOT, env=dict(ENV, VERIF_REPO=wt, VERIF_SEED=os.environ.get("RECHECK_SEED", "1")))
            v = [l for l in out.split("\n") if l.startswith("VIOLATION")]
            res[c] = {"exit": rc, "violations": len(v), "no_failing_input": all("no-failing-input-found" in l for l in v) if v else None}
            if rc == 1 and v:
                verdict = "caught" if not res[c]["no_failing_input"] else ("caught-nfi" if verdict != "caught" else verdict)
        return name, {"result": verdict, "checks": res}
    finally:
        sh(f"git -C /repo worktree remove --force {wt}")


def main():
    par = int(sys.argv[1]) if len(sys.argv) > 1 else 6
    dirs = sorted(d for d in glob.glob("/verif/seeded/*") if os.path.isdir(d) and os.path.exists(os.path.join(d, "patch.diff")))
    only = os.environ.get("RECHECK_ONLY")
    if only:
        dirs = [d for d in dirs if os.path.basename(d) in only.split(",")]
    out = {}
    with cf.ThreadPoolExecutor(par) as ex:
        for name, r in ex.map(one, dirs):
            out[name] = r
            print(name, r["result"], flush=True)
    prev = {}
    if only and os.path.exists("/verif/seeded/RECHECK.json"):
        prev = json.load(open("/verif/seeded/RECHECK.json"))
    prev.update(out)
    json.dump(prev, open("/verif/seeded/RECHECK.json", "w"), indent=1)
    from collections import Counter
    print(Counter(r["result"] for r in out.values()))


if __name__ == "__main__":
    main()
