#!/bin/sh
# Runs the repository's own test suite on /repo (hooks guarded off: no -tags verif) and compares with the pinned
# stable-pass list in /root/.vp/BASELINE.json.  usage: baseline_check.sh [outdir]
OUT=${1:-/dev/shm/baseline_run}; mkdir -p $OUT
cd /repo && GOFLAGS=-mod=mod GOPROXY=off go test -json -vet=off -count=1 -timeout 25m $(GOFLAGS=-mod=mod GOPROXY=off go list ./... | grep -v /cmd/) > $OUT/run.json 2> $OUT/run.err
python3 - $OUT/run.json <<'PY'
import json,sys
base=json.load(open('/root/.vp/BASELINE.json'))
stable=set(base['stable_pass'])
passed=set()
for l in open(sys.argv[1]):
    try: e=json.loads(l)
    except Exception: continue
    if e.get('Action')=='pass' and e.get('Test'):
        passed.add(e['Package']+'::'+e['Test'])
missing=sorted(stable-passed)
print(f"stable_pass: {len(stable)} passing now: {len(stable&passed)} not passing: {len(missing)}")
for m in missing[:40]: print("  NOT PASSING:", m)
PY
