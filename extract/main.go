// extract re-reads smallstep/certificates' source (go/parser + go/ast only) and emits Lean fact
// tables under lean/Verif/Generated. It recognises fixed syntactic shapes and FAILS CLOSED:
// a shape it does not recognise is reported as an error (non-zero exit), which the check turns
// into an undischarged obligation — never a silent pass.
//
//	extract -repo /repo -table Locks      -out Locks.lean
//	extract -repo /repo -table PanicSites -out PanicSites.lean
//	extract -repo /repo -table AcmeRoutes -out AcmeRoutes.lean
package main

import (
	"flag"
	"fmt"
	"go/ast"
	"go/parser"
	"go/printer"
	"go/token"
	"os"
	"path/filepath"
	"sort"
	"strings"
)

func die(f string, a ...any) {
	fmt.Fprintf(os.Stderr, "extract: "+f+"\n", a...)
	os.Exit(1)
}

// parseDir parses the non-test, non-verif-tagged Go files of one package directory.
func parseDir(fset *token.FileSet, dir string) map[string]*ast.File {
	ents, err := os.ReadDir(dir)
	if err != nil {
		die("%v", err)
	}
	out := map[string]*ast.File{}
	for _, e := range ents {
		n := e.Name()
		if !strings.HasSuffix(n, ".go") || strings.HasSuffix(n, "_test.go") || strings.HasPrefix(n, "export_verif") {
			continue
		}
		f, err := parser.ParseFile(fset, filepath.Join(dir, n), nil, parser.ParseComments)
		if err != nil {
			die("%v", err)
		}
		out[n] = f
	}
	return out
}

func sortedKeys[V any](m map[string]V) []string {
	ks := make([]string, 0, len(m))
	for k := range m {
		ks = append(ks, k)
	}
	sort.Strings(ks)
	return ks
}

func q(s string) string { return fmt.Sprintf("%q", s) }

// ---------------------------------------------------------------- Locks (C19)

var guarded = map[string]bool{"provisioners": true, "admins": true, "policyEngine": true}

// methods of provisioner.Collection / administrator.Collection that modify the collection
var mutatingMethods = map[string]bool{"Store": true, "Update": true, "Remove": true}

type access struct {
	Field   string
	Write   bool
	Covered bool // lexically under the function's own top-level lock
	RegionR bool // inside a `RLock(); stmt; RUnlock()` region
}
type call struct {
	Callee  string
	Covered bool
}
type fn struct {
	Name, File string
	Exported   bool
	Mode       string // N, R, W
	Accesses   []access
	Calls      []call
}

func recvName(fd *ast.FuncDecl) (string, bool) {
	if fd.Recv == nil || len(fd.Recv.List) != 1 {
		return "", false
	}
	st, ok := fd.Recv.List[0].Type.(*ast.StarExpr)
	if !ok {
		return "", false
	}
	id, ok := st.X.(*ast.Ident)
	if !ok || id.Name != "Authority" {
		return "", false
	}
	if len(fd.Recv.List[0].Names) == 0 {
		return "_", true
	}
	return fd.Recv.List[0].Names[0].Name, true
}

// isMutexCall matches `<recv>.adminMutex.<op>()`.
func isMutexCall(e ast.Expr, recv string) (string, bool) {
	c, ok := e.(*ast.CallExpr)
	if !ok {
		return "", false
	}
	s, ok := c.Fun.(*ast.SelectorExpr)
	if !ok {
		return "", false
	}
	s2, ok := s.X.(*ast.SelectorExpr)
	if !ok || s2.Sel.Name != "adminMutex" {
		return "", false
	}
	id, ok := s2.X.(*ast.Ident)
	if !ok || id.Name != recv {
		return "", false
	}
	return s.Sel.Name, true
}

// scepCallbacks maps each method M of scep.(*Authority) to the methods X of its SignAuthority (the
// certificate authority itself) that M reaches through `a.signAuth.X`, directly or through other
// methods of scep.(*Authority), whether called or passed as a method value.
func scepCallbacks(repo string) map[string][]string {
	fset := token.NewFileSet()
	files := parseDir(fset, filepath.Join(repo, "scep"))
	direct := map[string]map[string]bool{} // method -> signAuth methods
	own := map[string]map[string]bool{}    // method -> own methods referenced
	for _, fname := range sortedKeys(files) {
		for _, d := range files[fname].Decls {
			fd, ok := d.(*ast.FuncDecl)
			if !ok || fd.Body == nil {
				continue
			}
			recv, ok := recvName(fd)
			if !ok {
				continue
			}
			m := fd.Name.Name
			direct[m], own[m] = map[string]bool{}, map[string]bool{}
			ast.Inspect(fd.Body, func(n ast.Node) bool {
				s, ok := n.(*ast.SelectorExpr)
				if !ok {
					return true
				}
				if in, ok := s.X.(*ast.SelectorExpr); ok && in.Sel.Name == "signAuth" {
					if id, ok := in.X.(*ast.Ident); ok && id.Name == recv {
						direct[m][s.Sel.Name] = true
					}
				}
				if id, ok := s.X.(*ast.Ident); ok && id.Name == recv {
					own[m][s.Sel.Name] = true
				}
				return true
			})
		}
	}
	if len(direct) == 0 {
		die("scep: no methods of *Authority found")
	}
	if _, ok := direct["LoadProvisionerByName"]; !ok || !direct["LoadProvisionerByName"]["LoadProvisionerByName"] {
		die("scep: (*Authority).LoadProvisionerByName no longer forwards to signAuth (callback analysis out of date)")
	}
	out := map[string][]string{}
	for m := range direct {
		seen, acc := map[string]bool{m: true}, map[string]bool{}
		work := []string{m}
		for len(work) > 0 {
			x := work[0]
			work = work[1:]
			for c := range direct[x] {
				acc[c] = true
			}
			for y := range own[x] {
				if _, isMethod := direct[y]; isMethod && !seen[y] {
					seen[y] = true
					work = append(work, y)
				}
			}
		}
		out[m] = sortedKeys(acc)
	}
	return out
}

func tableLocks(repo string) string {
	fset := token.NewFileSet()
	files := parseDir(fset, filepath.Join(repo, "authority"))
	callbacks := scepCallbacks(repo)
	var fns []fn
	for _, fname := range sortedKeys(files) {
		for _, d := range files[fname].Decls {
			fd, ok := d.(*ast.FuncDecl)
			if !ok || fd.Body == nil {
				continue
			}
			recv, ok := recvName(fd)
			if !ok {
				continue
			}
			f := fn{Name: fd.Name.Name, File: fname, Exported: fd.Name.IsExported(), Mode: "N"}
			// lock shape: top-level `recv.adminMutex.(R)Lock()` immediately followed by the matching defer
			lockEnd := token.NoPos
			nMutexCalls := 0
			ast.Inspect(fd.Body, func(n ast.Node) bool {
				if e, ok := n.(ast.Expr); ok {
					if _, ok := isMutexCall(e, recv); ok {
						nMutexCalls++
					}
				}
				return true
			})
			regionStmt := map[token.Pos]bool{}
			// second shape, anywhere in the body: `recv.adminMutex.RLock(); <one statement>; recv.adminMutex.RUnlock()`
			// (three consecutive statements of one block): the middle statement is a read-locked region
			type region struct{ from, to token.Pos }
			var regions []region
			ast.Inspect(fd.Body, func(n ast.Node) bool {
				bl, ok := n.(*ast.BlockStmt)
				if !ok {
					return true
				}
				for i := 0; i+2 < len(bl.List); i++ {
					es, ok := bl.List[i].(*ast.ExprStmt)
					if !ok {
						continue
					}
					op, ok := isMutexCall(es.X, recv)
					if !ok || op != "RLock" {
						continue
					}
					us, ok := bl.List[i+2].(*ast.ExprStmt)
					if !ok {
						continue
					}
					if uop, ok := isMutexCall(us.X, recv); ok && uop == "RUnlock" {
						regions = append(regions, region{bl.List[i+1].Pos(), bl.List[i+1].End()})
						regionStmt[es.Pos()] = true
					}
				}
				return true
			})
			for i, st := range fd.Body.List {
				es, ok := st.(*ast.ExprStmt)
				if !ok {
					continue
				}
				op, ok := isMutexCall(es.X, recv)
				if !ok || regionStmt[es.Pos()] || (op == "RUnlock" && i >= 2 && regionStmt[fd.Body.List[i-2].Pos()]) {
					continue
				}
				if op != "RLock" && op != "Lock" {
					die("%s:%s: unrecognised mutex statement %s", fname, f.Name, op)
				}
				if i+1 >= len(fd.Body.List) {
					die("%s:%s: lock without deferred unlock", fname, f.Name)
				}
				ds, ok := fd.Body.List[i+1].(*ast.DeferStmt)
				if !ok {
					die("%s:%s: lock not followed by defer", fname, f.Name)
				}
				uop, ok := isMutexCall(ds.Call, recv)
				want := map[string]string{"RLock": "RUnlock", "Lock": "Unlock"}[op]
				if !ok || uop != want {
					die("%s:%s: lock %s not followed by defer %s", fname, f.Name, op, want)
				}
				if f.Mode != "N" {
					die("%s:%s: more than one lock statement", fname, f.Name)
				}
				f.Mode = map[string]string{"RLock": "R", "Lock": "W"}[op]
				lockEnd = ds.End()
			}
			want := 2 * len(regions)
			if f.Mode != "N" {
				want += 2
			}
			if nMutexCalls != want {
				die("%s:%s: adminMutex used in an unrecognised shape (%d calls, %d recognised)", fname, f.Name, nMutexCalls, want)
			}
			if f.Mode != "N" && len(regions) > 0 {
				die("%s:%s: read-locked region inside a function that already holds the lock", fname, f.Name)
			}
			inRegion := func(p token.Pos) bool {
				for _, r := range regions {
					if p >= r.from && p < r.to {
						return true
					}
				}
				return false
			}
			covered := func(p token.Pos) bool { return f.Mode != "N" && p > lockEnd }
			// writes: selector on the LHS of an assignment
			writes := map[*ast.SelectorExpr]bool{}
			ast.Inspect(fd.Body, func(n ast.Node) bool {
				if as, ok := n.(*ast.AssignStmt); ok {
					for _, l := range as.Lhs {
						if s, ok := l.(*ast.SelectorExpr); ok {
							writes[s] = true
						}
					}
				}
				return true
			})
			// calls of the collections' mutating methods (`recv.provisioners.Store(…)` etc.) change the
			// shared configuration in place: they count as writes of that field
			mutated := map[*ast.SelectorExpr]bool{}
			ast.Inspect(fd.Body, func(n ast.Node) bool {
				if c, ok := n.(*ast.CallExpr); ok {
					if s, ok := c.Fun.(*ast.SelectorExpr); ok && mutatingMethods[s.Sel.Name] {
						if inner, ok := s.X.(*ast.SelectorExpr); ok {
							if id, ok := inner.X.(*ast.Ident); ok && id.Name == recv && guarded[inner.Sel.Name] {
								mutated[inner] = true
							}
						}
					}
				}
				return true
			})
			ast.Inspect(fd.Body, func(n ast.Node) bool {
				switch x := n.(type) {
				case *ast.SelectorExpr:
					if id, ok := x.X.(*ast.Ident); ok && id.Name == recv && guarded[x.Sel.Name] {
						f.Accesses = append(f.Accesses, access{x.Sel.Name, writes[x] || mutated[x], covered(x.Pos()), inRegion(x.Pos())})
					}
				case *ast.CallExpr:
					if s, ok := x.Fun.(*ast.SelectorExpr); ok {
						if id, ok := s.X.(*ast.Ident); ok && id.Name == recv {
							if inRegion(x.Pos()) {
								die("%s:%s: method call inside a read-locked region (not analysed)", fname, f.Name)
							}
							f.Calls = append(f.Calls, call{s.Sel.Name, covered(x.Pos())})
						}
						// the SCEP authority calls back into this authority (scep.SignAuthority)
						isSCEP := false
						if in, ok := s.X.(*ast.SelectorExpr); ok && in.Sel.Name == "scepAuthority" {
							if id, ok := in.X.(*ast.Ident); ok && id.Name == recv {
								isSCEP = true
							}
						}
						if c2, ok := s.X.(*ast.CallExpr); ok {
							if s2, ok := c2.Fun.(*ast.SelectorExpr); ok && s2.Sel.Name == "GetSCEP" {
								isSCEP = true
							}
						}
						if isSCEP {
							cbs, known := callbacks[s.Sel.Name]
							if !known {
								die("%s:%s: call of unknown scep.Authority method %s", fname, f.Name, s.Sel.Name)
							}
							for _, cb := range cbs {
								if inRegion(x.Pos()) {
									die("%s:%s: SCEP call-back inside a read-locked region (not analysed)", fname, f.Name)
								}
								f.Calls = append(f.Calls, call{cb, covered(x.Pos())})
							}
						}
					}
				}
				return true
			})
			fns = append(fns, f)
		}
	}
	// keep only calls to Authority methods; index functions by position
	idx := map[string]int{}
	for i, f := range fns {
		if _, dup := idx[f.Name]; dup {
			die("duplicate method %s", f.Name)
		}
		idx[f.Name] = i
	}
	var b strings.Builder
	b.WriteString("-- GENERATED by /verif/extract from authority/*.go — do not edit; rewritten on every run\n")
	b.WriteString("import Verif.Model.Conc\nnamespace Verif.Generated.Locks\nopen Verif.Conc\n\n")
	b.WriteString("def extractorOk : Bool := true\n\n")
	b.WriteString("/-- one row per method of *Authority: name, file, exported, lock mode taken at the top,\n    accesses to the guarded fields (field, isWrite, lexically under the lock), calls to other\n    methods of *Authority (callee index, lexically under the lock) -/\n")
	b.WriteString("def table : List Fn := [\n")
	for i, f := range fns {
		var acc, cl []string
		for _, a := range f.Accesses {
			acc = append(acc, fmt.Sprintf("⟨.%s, %v, %v, %v⟩", a.Field, a.Write, a.Covered, a.RegionR))
		}
		for _, c := range f.Calls {
			if j, ok := idx[c.Callee]; ok {
				cl = append(cl, fmt.Sprintf("(%d, %v)", j, c.Covered))
			}
		}
		sep := ","
		if i == len(fns)-1 {
			sep = ""
		}
		fmt.Fprintf(&b, "  ⟨%s, %s, %v, .%s, [%s], [%s]⟩%s\n", q(f.Name), q(f.File), f.Exported, strings.ToLower(f.Mode),
			strings.Join(acc, ", "), strings.Join(cl, ", "), sep)
	}
	b.WriteString("]\n\n")
	b.WriteString(crlSection(fset, files))
	b.WriteString("\nend Verif.Generated.Locks\n")
	return b.String()
}

// packageLevelMutex reports whether the package declares `var <name> sync.Mutex` at top level.
func packageLevelMutex(files map[string]*ast.File, name string) bool {
	for _, f := range files {
		for _, d := range f.Decls {
			gd, ok := d.(*ast.GenDecl)
			if !ok || gd.Tok != token.VAR {
				continue
			}
			for _, sp := range gd.Specs {
				vs, ok := sp.(*ast.ValueSpec)
				if !ok {
					continue
				}
				for _, n := range vs.Names {
					if n.Name != name {
						continue
					}
					if se, ok := vs.Type.(*ast.SelectorExpr); ok {
						if x, ok := se.X.(*ast.Ident); ok && x.Name == "sync" && se.Sel.Name == "Mutex" {
							return true
						}
					}
				}
			}
		}
	}
	return false
}

// crlSection describes the critical section of GenerateCertificateRevocationList: whether
// `a.crlMutex.Lock(); defer a.crlMutex.Unlock()` is taken as a top-level statement pair, and for each
// call that reads or writes the CRL state whether it comes lexically after that pair.
func crlSection(fset *token.FileSet, files map[string]*ast.File) string {
	watched := map[string]bool{"GetCRL": true, "GetRevokedCertificates": true, "CreateCRL": true, "StoreCRL": true}
	for _, fname := range sortedKeys(files) {
		for _, d := range files[fname].Decls {
			fd, ok := d.(*ast.FuncDecl)
			if !ok || fd.Body == nil || fd.Name.Name != "GenerateCertificateRevocationList" {
				continue
			}
			recv, ok := recvName(fd)
			if !ok {
				continue
			}
			shared := false
			isCrl := func(e ast.Expr) (string, bool) {
				c, ok := e.(*ast.CallExpr)
				if !ok {
					return "", false
				}
				s, ok := c.Fun.(*ast.SelectorExpr)
				if !ok {
					return "", false
				}
				// the package-level mutex shared by every Authority of the process (fix 7329bb4) …
				if id, ok := s.X.(*ast.Ident); ok && id.Name == "crlMutex" && packageLevelMutex(files, "crlMutex") {
					shared = true
					return s.Sel.Name, true
				}
				// … or a field of the receiver (one mutex per Authority)
				s2, ok := s.X.(*ast.SelectorExpr)
				if !ok || s2.Sel.Name != "crlMutex" {
					return "", false
				}
				id, ok := s2.X.(*ast.Ident)
				return s.Sel.Name, ok && id.Name == recv
			}
			lockEnd := token.NoPos
			n := 0
			ast.Inspect(fd.Body, func(nd ast.Node) bool {
				if e, ok := nd.(ast.Expr); ok {
					if _, ok := isCrl(e); ok {
						n++
					}
				}
				return true
			})
			for i, st := range fd.Body.List {
				es, ok := st.(*ast.ExprStmt)
				if !ok {
					continue
				}
				if op, ok := isCrl(es.X); ok && op == "Lock" && i+1 < len(fd.Body.List) {
					if ds, ok := fd.Body.List[i+1].(*ast.DeferStmt); ok {
						if uop, ok := isCrl(ds.Call); ok && uop == "Unlock" {
							lockEnd = ds.End()
						}
					}
				}
			}
			locked := lockEnd != token.NoPos && n == 2
			var rows []string
			ast.Inspect(fd.Body, func(nd ast.Node) bool {
				if c, ok := nd.(*ast.CallExpr); ok {
					if s, ok := c.Fun.(*ast.SelectorExpr); ok && watched[s.Sel.Name] {
						rows = append(rows, fmt.Sprintf("(%s, %v)", q(s.Sel.Name), locked && c.Pos() > lockEnd))
					}
				}
				return true
			})
			return fmt.Sprintf("/-- GenerateCertificateRevocationList: crlMutex taken at the top with a deferred unlock -/\ndef crlLockedAtTop : Bool := %v\n\n/-- that mutex is a package-level variable: one critical section for every Authority of the process (the old and the new one share a database during a reload) -/\ndef crlMutexShared : Bool := %v\n\n/-- calls that read or write the CRL state, and whether each is lexically inside that section -/\ndef crlCalls : List (String × Bool) := [%s]\n", locked, shared && packageLevelMutex(files, "crlMutex"), strings.Join(rows, ", "))
		}
	}
	die("GenerateCertificateRevocationList not found")
	return ""
}

// ---------------------------------------------------------------- PanicSites (C18)

// request-path packages whose abort-capable sites must all be accounted for
var panicDirs = []string{"api", "acme", "acme/api", "scep", "scep/api", "authority", "authority/provisioner",
	"authority/admin/api", "authority/administrator", "policy", "internal/cast", "authority/internal/constraints", "db", "ca", "cas/softcas"}

func tablePanicSites(repo string) string {
	type site struct{ Kind, Pkg, File, Func, What string }
	var sites []site
	for _, dir := range panicDirs {
		fset := token.NewFileSet()
		full := filepath.Join(repo, dir)
		if _, err := os.Stat(full); err != nil {
			die("missing package dir %s", dir)
		}
		files := parseDir(fset, full)
		for _, fname := range sortedKeys(files) {
			for _, d := range files[fname].Decls {
				fd, ok := d.(*ast.FuncDecl)
				if !ok || fd.Body == nil {
					continue
				}
				name := fd.Name.Name
				if fd.Recv != nil && len(fd.Recv.List) == 1 {
					t := fd.Recv.List[0].Type
					if st, ok := t.(*ast.StarExpr); ok {
						t = st.X
					}
					if id, ok := t.(*ast.Ident); ok {
						name = id.Name + "." + name
					}
				}
				ast.Inspect(fd.Body, func(n ast.Node) bool {
					c, ok := n.(*ast.CallExpr)
					if !ok {
						return true
					}
					switch f := c.Fun.(type) {
					case *ast.Ident:
						if f.Name == "panic" {
							sites = append(sites, site{"panic", dir, fname, name, "panic"})
						}
					case *ast.SelectorExpr:
						if id, ok := f.X.(*ast.Ident); ok && id.Name == "cast" && dir != "internal/cast" {
							sites = append(sites, site{"cast", dir, fname, name, "cast." + f.Sel.Name})
						}
						if strings.HasPrefix(f.Sel.Name, "Must") && strings.HasSuffix(f.Sel.Name, "FromContext") {
							sites = append(sites, site{"must", dir, fname, name, f.Sel.Name})
						}
					}
					return true
				})
			}
		}
	}
	// collapse identical (kind, pkg, file, func, what) rows into one with a count
	type key struct{ Kind, Pkg, File, Func, What string }
	cnt := map[key]int{}
	var order []key
	for _, s := range sites {
		k := key(s)
		if cnt[k] == 0 {
			order = append(order, k)
		}
		cnt[k]++
	}
	var b strings.Builder
	b.WriteString("-- GENERATED by /verif/extract — do not edit; rewritten on every run\n")
	b.WriteString("import Verif.Model.PanicSites\nnamespace Verif.Generated.PanicSites\nopen Verif.PanicSites\n\n")
	b.WriteString("def extractorOk : Bool := true\n\n")
	b.WriteString("/-- every `cast.*(` call, `panic(` and `Must…FromContext` call on the request path:\n    kind, \"pkg/file:func\", callee, number of occurrences in that function -/\n")
	b.WriteString("def sites : List Site := [\n")
	for i, k := range order {
		sep := ","
		if i == len(order)-1 {
			sep = ""
		}
		fmt.Fprintf(&b, "  ⟨.%s, %s, %s, %d⟩%s\n", k.Kind, q(k.Pkg+"/"+k.File+":"+k.Func), q(k.What), cnt[k], sep)
	}
	b.WriteString("]\n\nend Verif.Generated.PanicSites\n")
	return b.String()
}

// ---------------------------------------------------------------- AcmeRoutes (C12)

// exprName renders a middleware expression as a dotted name.
func exprName(e ast.Expr) string {
	switch x := e.(type) {
	case *ast.Ident:
		return x.Name
	case *ast.SelectorExpr:
		return exprName(x.X) + "." + x.Sel.Name
	}
	return "?"
}

func tableAcmeRoutes(repo string) string {
	fset := token.NewFileSet()
	f, err := parser.ParseFile(fset, filepath.Join(repo, "acme", "api", "handler.go"), nil, 0)
	if err != nil {
		die("%v", err)
	}
	var route *ast.FuncDecl
	for _, d := range f.Decls {
		if fd, ok := d.(*ast.FuncDecl); ok && fd.Name.Name == "route" {
			route = fd
		}
	}
	if route == nil {
		die("acme/api/handler.go: func route not found")
	}
	// local closures: name := func(next nextHTTP) nextHTTP { return A(B(C(next))) }
	closures := map[string][]string{}
	var expand func(e ast.Expr, param string) ([]string, string)
	// expand returns the chain of wrappers applied, outermost first, and the innermost argument name
	expand = func(e ast.Expr, param string) ([]string, string) {
		switch x := e.(type) {
		case *ast.Ident:
			return nil, x.Name
		case *ast.SelectorExpr:
			return nil, exprName(x)
		case *ast.CallExpr:
			if len(x.Args) != 1 {
				die("route: call with %d args at %v", len(x.Args), fset.Position(x.Pos()))
			}
			name := exprName(x.Fun)
			inner, leaf := expand(x.Args[0], param)
			if sub, ok := closures[name]; ok {
				return append(append([]string{}, sub...), inner...), leaf
			}
			return append([]string{name}, inner...), leaf
		}
		die("route: unrecognised expression at %v", fset.Position(e.Pos()))
		return nil, ""
	}
	type row struct {
		Method, Path string
		Chain        []string
		Handler      string
	}
	var rows []row
	for _, st := range route.Body.List {
		switch s := st.(type) {
		case *ast.AssignStmt:
			if len(s.Lhs) != 1 || len(s.Rhs) != 1 {
				die("route: unrecognised assignment at %v", fset.Position(s.Pos()))
			}
			fl, ok := s.Rhs[0].(*ast.FuncLit)
			if !ok {
				// `getPath := acme.GetUnescapedPathSuffix`: a plain alias of a function
				if _, isSel := s.Rhs[0].(*ast.SelectorExpr); isSel {
					continue
				}
				die("route: assignment is not a closure at %v", fset.Position(s.Pos()))
			}
			if len(fl.Body.List) != 1 {
				// the one closure with a body: commonMiddleware = linker.Middleware(checkPrerequisites(next)),
				// optionally wrapped by the caller-supplied middleware; recognised by exactly these calls
				param := fl.Type.Params.List[0].Names[0].Name
				var sawLinker, sawPrereq bool
				ast.Inspect(fl.Body, func(n ast.Node) bool {
					if c, ok := n.(*ast.CallExpr); ok {
						switch exprName(c.Fun) {
						case "linker.Middleware":
							sawLinker = true
						case "checkPrerequisites":
							if len(c.Args) == 1 && exprName(c.Args[0]) == param {
								sawPrereq = true
							}
						}
					}
					return true
				})
				if !sawLinker || !sawPrereq {
					die("route: closure body is not a single return at %v", fset.Position(fl.Pos()))
				}
				closures[s.Lhs[0].(*ast.Ident).Name] = []string{"linker.Middleware", "checkPrerequisites"}
				continue
			}
			rs, ok := fl.Body.List[0].(*ast.ReturnStmt)
			if !ok || len(rs.Results) != 1 {
				die("route: closure body is not a single return at %v", fset.Position(fl.Pos()))
			}
			param := fl.Type.Params.List[0].Names[0].Name
			chain, leaf := expand(rs.Results[0], param)
			if leaf != param {
				die("route: closure does not end in its parameter at %v", fset.Position(fl.Pos()))
			}
			closures[s.Lhs[0].(*ast.Ident).Name] = chain
		case *ast.ExprStmt:
			c, ok := s.X.(*ast.CallExpr)
			if !ok {
				die("route: unrecognised statement at %v", fset.Position(s.Pos()))
			}
			sel, ok := c.Fun.(*ast.SelectorExpr)
			if !ok || sel.Sel.Name != "MethodFunc" || len(c.Args) != 3 {
				die("route: not a MethodFunc registration at %v", fset.Position(s.Pos()))
			}
			method := strings.Trim(exprName(c.Args[0]), "?")
			if bl, ok := c.Args[0].(*ast.BasicLit); ok {
				method = strings.Trim(bl.Value, "\"")
			}
			// path: getPath(XxxLinkType, "{provisionerID}", …)
			path := "?"
			if pc, ok := c.Args[1].(*ast.CallExpr); ok && len(pc.Args) >= 1 {
				path = exprName(pc.Args[0])
				for _, a := range pc.Args[1:] {
					if bl, ok := a.(*ast.BasicLit); ok {
						path += "/" + strings.Trim(bl.Value, "\"")
					}
				}
			}
			chain, leaf := expand(c.Args[2], "")
			rows = append(rows, row{method, path, chain, leaf})
		default:
			die("route: unrecognised statement at %v", fset.Position(st.Pos()))
		}
	}
	var b strings.Builder
	b.WriteString("-- GENERATED by /verif/extract from acme/api/handler.go (func route) — do not edit\n")
	b.WriteString("namespace Verif.Generated.AcmeRoutes\n\ndef extractorOk : Bool := true\n\n")
	b.WriteString("/-- (method, link type + parameters, middleware chain outermost first, handler) -/\n")
	b.WriteString("def routes : List (String × String × List String × String) := [\n")
	for i, r := range rows {
		var ch []string
		for _, c := range r.Chain {
			ch = append(ch, q(c))
		}
		sep := ","
		if i == len(rows)-1 {
			sep = ""
		}
		fmt.Fprintf(&b, "  (%s, %s, [%s], %s)%s\n", q(r.Method), q(r.Path), strings.Join(ch, ", "), q(r.Handler), sep)
	}
	b.WriteString("]\n\nend Verif.Generated.AcmeRoutes\n")
	return b.String()
}

// ---------------------------------------------------------------- PolicyCalls (C04)

var policyMethods = map[string]bool{"IsX509CertificateAllowed": true, "IsX509CertificateRequestAllowed": true, "AreSANsAllowed": true,
	"IsSSHCertificateAllowed": true, "IsDNSAllowed": true, "IsIPAllowed": true}
var policyDirs = []string{"api", "acme", "acme/api", "scep", "scep/api", "authority", "authority/policy", "authority/provisioner", "ca"}

// functions whose call order matters: the policy gate must precede the signing call
var orderedFns = map[string][]string{
	"authority/tls.go:Authority.signX509":   {"isAllowedToSignX509Certificate", "CreateCertificate", "storeCertificate"},
	"authority/ssh.go:Authority.signSSH":    {"isAllowedToSignSSHCertificate", "CreateCertificate", "storeSSHCertificate"},
	"acme/api/order.go:NewOrder":            {"AuthorizeOrderIdentifier", "isIdentifierAllowed", "AreSANsAllowed", "newAuthorization", "CreateOrder"},
	"acme/api/order.go:isIdentifierAllowed": {"AreSANsAllowed"},
}

func funcKey(dir, fname string, fd *ast.FuncDecl) string {
	name := fd.Name.Name
	if fd.Recv != nil && len(fd.Recv.List) == 1 {
		t := fd.Recv.List[0].Type
		if st, ok := t.(*ast.StarExpr); ok {
			t = st.X
		}
		if id, ok := t.(*ast.Ident); ok {
			name = id.Name + "." + name
		}
	}
	return dir + "/" + fname + ":" + name
}

func tablePolicyCalls(repo string) string {
	type row struct{ loc, method string }
	cnt := map[row]int{}
	var order []row
	ordered := map[string][]string{}
	var ctors []string // (func, constructor, arguments) of every name-policy validator a provisioner builds
	for _, dir := range policyDirs {
		fset := token.NewFileSet()
		files := parseDir(fset, filepath.Join(repo, dir))
		for _, fname := range sortedKeys(files) {
			for _, d := range files[fname].Decls {
				fd, ok := d.(*ast.FuncDecl)
				if !ok || fd.Body == nil {
					continue
				}
				key := funcKey(dir, fname, fd)
				watch := orderedFns[key]
				ast.Inspect(fd.Body, func(n ast.Node) bool {
					c, ok := n.(*ast.CallExpr)
					if !ok {
						return true
					}
					var callee string
					switch f := c.Fun.(type) {
					case *ast.SelectorExpr:
						callee = f.Sel.Name
						if policyMethods[callee] {
							r := row{key, callee}
							if cnt[r] == 0 {
								order = append(order, r)
							}
							cnt[r]++
						}
					case *ast.Ident:
						callee = f.Name
						if (callee == "newX509NamePolicyValidator" || callee == "newSSHNamePolicyValidator") && dir == "authority/provisioner" {
							var args []string
							for _, a := range c.Args {
								var ab strings.Builder
								printer.Fprint(&ab, fset, a)
								args = append(args, strings.Join(strings.Fields(ab.String()), ""))
							}
							ctors = append(ctors, fmt.Sprintf("  (%s, %s, %s)", q(key), q(callee), q(strings.Join(args, ","))))
						}
					}
					for _, w := range watch {
						if w == callee {
							ordered[key] = append(ordered[key], callee)
						}
					}
					return true
				})
			}
		}
	}
	for k := range orderedFns {
		if _, ok := ordered[k]; !ok {
			die("PolicyCalls: function %s not found or calls none of the watched functions", k)
		}
	}
	var b strings.Builder
	b.WriteString("-- GENERATED by /verif/extract — do not edit; rewritten on every run\n")
	b.WriteString("namespace Verif.Generated.PolicyCalls\n\ndef extractorOk : Bool := true\n\n")
	b.WriteString("/-- every call of a policy-engine entry point outside /policy: (pkg/file:func, method, occurrences) -/\n")
	b.WriteString("def sites : List (String × String × Nat) := [\n")
	for i, r := range order {
		sep := ","
		if i == len(order)-1 {
			sep = ""
		}
		fmt.Fprintf(&b, "  (%s, %s, %d)%s\n", q(r.loc), q(r.method), cnt[r], sep)
	}
	b.WriteString("]\n\n/-- source order of the watched calls inside the issuance functions -/\n")
	b.WriteString("def callOrder : List (String × List String) := [\n")
	ks := sortedKeys(ordered)
	for i, k := range ks {
		var xs []string
		for _, x := range ordered[k] {
			xs = append(xs, q(x))
		}
		sep := ","
		if i == len(ks)-1 {
			sep = ""
		}
		fmt.Fprintf(&b, "  (%s, [%s])%s\n", q(k), strings.Join(xs, ", "), sep)
	}
	b.WriteString("]\n\n/-- the name-policy validators the provisioners build: (pkg/file:func, constructor, arguments) -/\n")
	b.WriteString("def validators : List (String × String × String) := [\n")
	b.WriteString(strings.Join(ctors, ",\n"))
	b.WriteString("\n]\n\nend Verif.Generated.PolicyCalls\n")
	return b.String()
}

// ---------------------------------------------------------------- IndexSites (C18)

var indexDirs = []string{"api", "api/read", "api/render", "acme", "acme/api", "acme/db/nosql", "scep", "scep/api", "authority", "authority/policy",
	"authority/provisioner", "authority/admin/api", "authority/administrator", "authority/internal/constraints", "policy", "db", "ca", "cas/softcas", "errs"}

// tableIndexSites lists, per function, how many index expressions with a constant integer index it
// contains (`x[0]`, `certs[0]`, `parts[1]` …): the shape of every out-of-range panic found so far.
func tableIndexSites(repo string) string {
	type row struct {
		loc string
		n   int
	}
	var rows []row
	for _, dir := range indexDirs {
		fset := token.NewFileSet()
		files := parseDir(fset, filepath.Join(repo, dir))
		for _, fname := range sortedKeys(files) {
			for _, d := range files[fname].Decls {
				count := func(root ast.Node) int {
					n := 0
					ast.Inspect(root, func(nd ast.Node) bool {
						if ix, ok := nd.(*ast.IndexExpr); ok {
							if bl, ok := ix.Index.(*ast.BasicLit); ok && bl.Kind == token.INT {
								n++
							}
						}
						return true
					})
					return n
				}
				fd, ok := d.(*ast.FuncDecl)
				if !ok {
					// package-level declarations (function literals in `var x = func…`, initialisers):
					// not inside any FuncDecl, so they get a row of their own instead of being skipped
					if n := count(d); n > 0 {
						name := "?"
						if gd, ok := d.(*ast.GenDecl); ok {
							for _, sp := range gd.Specs {
								if vs, ok := sp.(*ast.ValueSpec); ok && len(vs.Names) > 0 && count(vs) > 0 {
									name = vs.Names[0].Name
									break
								}
							}
						}
						rows = append(rows, row{dir + "/" + fname + ":<package-level " + name + ">", n})
					}
					continue
				}
				if fd.Body == nil {
					continue
				}
				if n := count(fd.Body); n > 0 {
					rows = append(rows, row{funcKey(dir, fname, fd), n})
				}
			}
		}
	}
	var b strings.Builder
	b.WriteString("-- GENERATED by /verif/extract — do not edit; rewritten on every run\n")
	b.WriteString("namespace Verif.Generated.IndexSites\n\ndef extractorOk : Bool := true\n\n")
	b.WriteString("/-- (pkg/file:func, number of index expressions with a constant integer index in that function) -/\n")
	b.WriteString("def sites : List (String × Nat) := [\n")
	for i, r := range rows {
		sep := ","
		if i == len(rows)-1 {
			sep = ""
		}
		fmt.Fprintf(&b, "  (%s, %d)%s\n", q(r.loc), r.n, sep)
	}
	b.WriteString("]\n\nend Verif.Generated.IndexSites\n")
	return b.String()
}

func main() {
	repo := flag.String("repo", "/repo", "path of the smallstep/certificates working tree")
	table := flag.String("table", "", "Locks | PanicSites | AcmeRoutes")
	out := flag.String("out", "", "output .lean file")
	flag.Parse()
	var src string
	switch *table {
	case "Locks":
		src = tableLocks(*repo)
	case "PanicSites":
		src = tablePanicSites(*repo)
	case "AcmeRoutes":
		src = tableAcmeRoutes(*repo)
	case "PolicyCalls":
		src = tablePolicyCalls(*repo)
	case "IndexSites":
		src = tableIndexSites(*repo)
	default:
		die("unknown table %q", *table)
	}
	if *out == "" {
		fmt.Print(src)
		return
	}
	if err := os.WriteFile(*out, []byte(src), 0o644); err != nil {
		die("%v", err)
	}
}
