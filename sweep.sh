#!/bin/sh
# runs every claimed check once (tier $1, default quick; optional $2 = space-separated property ids) and prints one line per property
cd "$(dirname "$0")"
TIER=${1:-quick}
PROPS=${2:-$(python3 -c "import json;print(' '.join(c['property_id'] for c in json.load(open('MANIFEST.json'))['checks']))")}
for p in $PROPS; do
  s=$(date +%s); out=$(./check $p $TIER 2>&1); rc=$?; e=$(date +%s)
  echo "$p rc=$rc $((e-s))s $(echo "$out" | grep -c '^KNOWN-FINDING') known $(echo "$out" | grep '^VIOLATION' | head -2 | tr '\n' ' ') | $(echo "$out" | tail -1)"
done
