import Verif.Model.AcmeSM
import Verif.Model.AcmeConc
/-!
  C10 — ACME orders, authorizations and challenges only move forward, and only for cause.

  All statements are about `Verif.AcmeSM` (the model of the ACME object state machine, tied to the
  code by the C10 correspondence check: random histories against the real handlers and store).

  Plan: `Upd` describes what the status recomputations of one request may do and is closed under
  composition; `Old` describes what one whole request may do to the objects that existed before
  it (`step_old`, for an arbitrary store); `Grow` says new objects are appended pending.  The
  per-request theorems follow from `step_old`; the theorems over histories (`run`, from the empty
  database) by induction with the invariants `Inv` and `CertInv`.
-/
namespace Verif.AcmeSM
open Verif

def Status.rank : Status → Nat
  | .pending => 0 | .ready => 1 | .valid => 2 | .invalid => 2

/-- forward in the RFC 8555 state machine: pending < ready < {valid, invalid}; terminal states only to themselves -/
def Status.le (a b : Status) : Prop := a = b ∨ a.rank < b.rank

theorem Status.le_refl (a : Status) : a.le a := .inl rfl
theorem Status.le_trans {a b c : Status} (h1 : a.le b) (h2 : b.le c) : a.le c := by
  rcases h1 with rfl | h1
  · exact h2
  · rcases h2 with rfl | h2
    · exact .inr h1
    · exact .inr (Nat.lt_trans h1 h2)
theorem Status.le_valid {b : Status} (h : Status.valid.le b) : b = .valid := by
  rcases h with h | h
  · exact h.symm
  · cases b <;> simp [Status.rank] at h
theorem Status.le_invalid {b : Status} (h : Status.invalid.le b) : b = .invalid := by
  rcases h with h | h
  · exact h.symm
  · cases b <;> simp [Status.rank] at h
theorem Status.pending_le (b : Status) : Status.pending.le b := by
  cases b <;> simp [Status.le, Status.rank]

def validAz (s : Store) (a : Nat) : Prop := ∃ az, s.authzs[a]? = some az ∧ az.status = .valid

/-- Why an authorization may differ between two stores at time `now`. -/
def AzJust (s : Store) (now : Nat) (az az' : Authz) : Prop :=
  az'.acct = az.acct ∧ az'.expires = az.expires ∧ az'.chals = az.chals ∧
  (az'.status = az.status ∨
   (az.status = .pending ∧ az'.status = .invalid ∧ now > az.expires) ∨
   (az.status = .pending ∧ az'.status = .valid ∧ now ≤ az.expires ∧ ∃ c ∈ az.chals, chalValid s c = true))

/-- Why an order may differ (status only; the certificate field is untouched). -/
def OrdJust (s' : Store) (now : Nat) (o o' : Order) : Prop :=
  o'.acct = o.acct ∧ o'.expires = o.expires ∧ o'.authzs = o.authzs ∧ o'.cert = o.cert ∧
  (o'.status = o.status ∨
   ((o.status = .pending ∨ o.status = .ready) ∧ o'.status = .invalid) ∨
   (o.status = .pending ∧ o'.status = .ready ∧ now ≤ o.expires ∧ ∀ a ∈ o.authzs, validAz s' a))

/-- the effect of the status recomputations of one request at time `now` -/
structure Upd (now : Nat) (s s' : Store) : Prop where
  chals : s'.chals = s.chals
  certs : s'.certs = s.certs
  alen : s'.authzs.length = s.authzs.length
  olen : s'.orders.length = s.orders.length
  authz : ∀ (i : Nat) (az : Authz), s.authzs[i]? = some az → ∃ az', s'.authzs[i]? = some az' ∧ AzJust s now az az'
  order : ∀ (i : Nat) (o : Order), s.orders[i]? = some o → ∃ o', s'.orders[i]? = some o' ∧ OrdJust s' now o o'
  /-- status recomputation never touches a recorded key fingerprint -/
  fp : ∀ (i : Nat) (az : Authz), s.authzs[i]? = some az → ∃ az', s'.authzs[i]? = some az' ∧ az'.fp = az.fp

theorem chalValid_congr {s s' : Store} (h : s'.chals = s.chals) (c : Nat) : chalValid s' c = chalValid s c := by
  simp [chalValid, h]

theorem AzJust.refl (s : Store) (now : Nat) (az : Authz) : AzJust s now az az := ⟨rfl, rfl, rfl, .inl rfl⟩

theorem Upd.refl (now : Nat) (s : Store) : Upd now s s :=
  ⟨rfl, rfl, rfl, rfl, fun _ az h => ⟨az, h, AzJust.refl _ _ _⟩, fun _ o h => ⟨o, h, rfl, rfl, rfl, rfl, .inl rfl⟩,
   fun _ az h => ⟨az, h, rfl⟩⟩

theorem validAz_mono {now : Nat} {s s' : Store} (u : Upd now s s') {a : Nat} (h : validAz s a) : validAz s' a := by
  obtain ⟨az, ha, hv⟩ := h
  obtain ⟨az', ha', _, _, _, hj⟩ := u.authz a az ha
  refine ⟨az', ha', ?_⟩
  rcases hj with e | ⟨p, _⟩ | ⟨p, _⟩
  · rw [e, hv]
  · rw [hv] at p; cases p
  · rw [hv] at p; cases p

theorem Upd.trans {now : Nat} {s s1 s2 : Store} (u1 : Upd now s s1) (u2 : Upd now s1 s2) : Upd now s s2 := by
  refine ⟨u2.chals.trans u1.chals, u2.certs.trans u1.certs, u2.alen.trans u1.alen, u2.olen.trans u1.olen, ?_, ?_, ?_⟩
  rotate_left 2
  · intro i az h
    obtain ⟨az1, h1, e1⟩ := u1.fp i az h
    obtain ⟨az2, h2, e2⟩ := u2.fp i az1 h1
    exact ⟨az2, h2, e2.trans e1⟩
  · intro i az h
    obtain ⟨az1, h1, a1, e1, c1, j1⟩ := u1.authz i az h
    obtain ⟨az2, h2, a2, e2, c2, j2⟩ := u2.authz i az1 h1
    refine ⟨az2, h2, a2.trans a1, e2.trans e1, c2.trans c1, ?_⟩
    rcases j1 with e | ⟨p, q, r⟩ | ⟨p, q, r, w⟩
    · rcases j2 with e' | ⟨p', q', r'⟩ | ⟨p', q', r', c, hc, hv⟩
      · exact .inl (e'.trans e)
      · exact .inr (.inl ⟨e ▸ p', q', e1 ▸ r'⟩)
      · refine .inr (.inr ⟨e ▸ p', q', e1 ▸ r', c, c1 ▸ hc, ?_⟩)
        rw [← chalValid_congr u1.chals]; exact hv
    · rcases j2 with e' | ⟨p', _⟩ | ⟨p', _⟩
      · exact .inr (.inl ⟨p, e'.trans q, r⟩)
      · rw [q] at p'; cases p'
      · rw [q] at p'; cases p'
    · rcases j2 with e' | ⟨p', _⟩ | ⟨p', _⟩
      · exact .inr (.inr ⟨p, e'.trans q, r, w⟩)
      · rw [q] at p'; cases p'
      · rw [q] at p'; cases p'
  · intro i o h
    obtain ⟨o1, h1, a1, e1, z1, c1, j1⟩ := u1.order i o h
    obtain ⟨o2, h2, a2, e2, z2, c2, j2⟩ := u2.order i o1 h1
    refine ⟨o2, h2, a2.trans a1, e2.trans e1, z2.trans z1, c2.trans c1, ?_⟩
    rcases j1 with e | ⟨p, q⟩ | ⟨p, q, r, w⟩
    · rcases j2 with e' | ⟨p', q'⟩ | ⟨p', q', r', w'⟩
      · exact .inl (e'.trans e)
      · exact .inr (.inl ⟨e ▸ p', q'⟩)
      · exact .inr (.inr ⟨e ▸ p', q', e1 ▸ r', z1 ▸ w'⟩)
    · rcases j2 with e' | ⟨p', q'⟩ | ⟨p', _⟩
      · exact .inr (.inl ⟨p, e'.trans q⟩)
      · exact .inr (.inl ⟨p, q'⟩)
      · rw [q] at p'; cases p'
    · rcases j2 with e' | ⟨p', q'⟩ | ⟨p', _⟩
      · exact .inr (.inr ⟨p, e'.trans q, r, fun a ha => validAz_mono u2 (w a ha)⟩)
      · exact .inr (.inl ⟨.inl p, q'⟩)
      · rw [q] at p'; cases p'


/-- replacing the status of authorization `a` with a justified one is an `Upd` -/
theorem upd_setAuthz (now : Nat) (s : Store) (a : Nat) (az : Authz) (st : Status)
    (h : s.authzs[a]? = some az)
    (hj : AzJust s now az { az with status := st }) : Upd now s (setAuthz s a az st) := by
  have hlt : a < s.authzs.length := by
    rcases Nat.lt_or_ge a s.authzs.length with h' | h'
    · exact h'
    · rw [List.getElem?_eq_none h'] at h; cases h
  refine ⟨rfl, rfl, by simp [setAuthz], rfl, ?_, ?_, ?_⟩
  · intro i az0 h0
    by_cases e : a = i
    · subst e
      rw [h] at h0; cases h0
      exact ⟨{ az with status := st }, by simp [setAuthz, hlt], hj⟩
    · exact ⟨az0, by simp [setAuthz, List.getElem?_set_ne e, h0], AzJust.refl _ _ _⟩
  · intro i o h0
    exact ⟨o, h0, rfl, rfl, rfl, rfl, .inl rfl⟩
  · intro i az0 h0
    by_cases e : a = i
    · subst e
      rw [h] at h0; cases h0
      exact ⟨{ az with status := st }, by simp [setAuthz, hlt], rfl⟩
    · exact ⟨az0, by simp [setAuthz, List.getElem?_set_ne e, h0], rfl⟩

theorem authzUpdate_upd (d : Deny) (s : Store) (a now : Nat) :
    Upd now s (authzUpdate d s a now).1 ∧
    ∀ st, (authzUpdate d s a now).2 = some st →
      ∃ az', (authzUpdate d s a now).1.authzs[a]? = some az' ∧ az'.status = st := by
  unfold authzUpdate
  cases h : s.authzs[a]? with
  | none => simp [Upd.refl]
  | some az =>
    have hlt : a < s.authzs.length := by
      rcases Nat.lt_or_ge a s.authzs.length with h' | h'
      · exact h'
      · rw [List.getElem?_eq_none h'] at h; cases h
    simp only
    split
    · simp [Upd.refl]
    cases hs : az.status with
    | invalid => simp only; exact ⟨Upd.refl _ _, fun st e => ⟨az, h, by cases e; exact hs⟩⟩
    | valid => simp only; exact ⟨Upd.refl _ _, fun st e => ⟨az, h, by cases e; exact hs⟩⟩
    | ready => simp [Upd.refl]
    | pending =>
      simp only
      split
      · rename_i hexp
        split
        · simp [Upd.refl]
        refine ⟨upd_setAuthz now s a az .invalid h ⟨rfl, rfl, rfl, .inr (.inl ⟨hs, rfl, hexp⟩)⟩, ?_⟩
        intro st e; cases e
        exact ⟨{ az with status := .invalid }, by simp [setAuthz, hlt], rfl⟩
      · rename_i hexp
        split
        · rename_i hany
          split
          · simp [Upd.refl]
          have : ∃ c ∈ az.chals, chalValid s c = true := by simpa using hany
          refine ⟨upd_setAuthz now s a az .valid h ⟨rfl, rfl, rfl, .inr (.inr ⟨hs, rfl, by omega, this⟩)⟩, ?_⟩
          intro st e; cases e
          exact ⟨{ az with status := .valid }, by simp [setAuthz, hlt], rfl⟩
        · exact ⟨Upd.refl _ _, fun st e => ⟨az, h, by cases e; exact hs⟩⟩

theorem authzLoop_upd (d : Deny) (now : Nat) : ∀ (as : List Nat) (s : Store),
    Upd now s (authzLoop d s now as).1 ∧
    ∀ sts, (authzLoop d s now as).2 = some sts → sts.all (· == .valid) = true →
      ∀ a ∈ as, validAz (authzLoop d s now as).1 a := by
  intro as
  induction as with
  | nil => intro s; simp [authzLoop, Upd.refl]
  | cons a as ih =>
    intro s
    obtain ⟨u1, r1⟩ := authzUpdate_upd d s a now
    unfold authzLoop
    cases h1 : authzUpdate d s a now with
    | mk s1 r =>
      rw [h1] at u1 r1
      cases r with
      | none => simp; exact u1
      | some st =>
        simp only
        obtain ⟨u2, r2⟩ := ih s1
        cases h2 : authzLoop d s1 now as with
        | mk s2 r' =>
          rw [h2] at u2 r2
          cases r' with
          | none => simp; exact u1.trans u2
          | some sts =>
            simp only
            refine ⟨u1.trans u2, ?_⟩
            intro sts' e hall
            cases e
            simp at hall
            intro x hx
            rcases List.mem_cons.mp hx with rfl | hx
            · obtain ⟨az', ha, hv⟩ := r1 st rfl
              exact validAz_mono u2 ⟨az', ha, hv.trans hall.1⟩
            · exact r2 sts rfl (by simpa using hall.2) x hx


theorem lt_of_getElem? {α : Type} {l : List α} {i : Nat} {x : α} (h : l[i]? = some x) : i < l.length := by
  rcases Nat.lt_or_ge i l.length with h' | h'
  · exact h'
  · rw [List.getElem?_eq_none h'] at h; cases h

/-- replacing the status of order `o` (certificate untouched) with a justified one is an `Upd` -/
theorem upd_setOrder (now : Nat) (s : Store) (o : Nat) (ord : Order) (st : Status)
    (h : s.orders[o]? = some ord)
    (hj : OrdJust (setOrder s o ord st ord.cert) now ord { ord with status := st }) :
    Upd now s (setOrder s o ord st ord.cert) := by
  have hlt := lt_of_getElem? h
  refine ⟨rfl, rfl, rfl, by simp [setOrder], ?_, ?_, fun i az h0 => ⟨az, h0, rfl⟩⟩
  · intro i az h0
    exact ⟨az, h0, AzJust.refl _ _ _⟩
  · intro i o0 h0
    by_cases e : o = i
    · subst e
      rw [h] at h0; cases h0
      exact ⟨{ ord with status := st }, by simp [setOrder, hlt], hj⟩
    · exact ⟨o0, by simp [setOrder, List.getElem?_set_ne e, h0], rfl, rfl, rfl, rfl, .inl rfl⟩

theorem setOrder_authzs (s : Store) (o : Nat) (ord : Order) (st : Status) (c : Option Nat) :
    (setOrder s o ord st c).authzs = s.authzs := rfl

theorem authzUpdate_orders (d : Deny) (s : Store) (a now : Nat) : (authzUpdate d s a now).1.orders = s.orders := by
  unfold authzUpdate
  repeat' split
  all_goals rfl

theorem authzLoop_orders (d : Deny) (now : Nat) : ∀ (as : List Nat) (s : Store), (authzLoop d s now as).1.orders = s.orders := by
  intro as
  induction as with
  | nil => intro s; rfl
  | cons a as ih =>
    intro s
    unfold authzLoop
    have h1 := authzUpdate_orders d s a now
    cases hu : authzUpdate d s a now with
    | mk s1 r =>
      rw [hu] at h1
      cases r with
      | none => exact h1
      | some st =>
        simp only
        have h2 := ih s1
        cases hl : authzLoop d s1 now as with
        | mk s2 r' =>
          rw [hl] at h2
          cases r' <;> exact h2.trans h1

theorem orderUpdate_upd (d : Deny) (s : Store) (o now : Nat) :
    Upd now s (orderUpdate d s o now).1 ∧
    ∀ st, (orderUpdate d s o now).2 = some st →
      ∃ o', (orderUpdate d s o now).1.orders[o]? = some o' ∧ o'.status = st := by
  unfold orderUpdate
  cases h : s.orders[o]? with
  | none => simp [Upd.refl]
  | some ord =>
    have hlt := lt_of_getElem? h
    simp only
    cases hs : ord.status with
    | invalid => simp only; exact ⟨Upd.refl _ _, fun st e => ⟨ord, h, by cases e; exact hs⟩⟩
    | valid => simp only; exact ⟨Upd.refl _ _, fun st e => ⟨ord, h, by cases e; exact hs⟩⟩
    | ready =>
      simp only
      split
      · split
        · simp [Upd.refl]
        refine ⟨upd_setOrder now s o ord .invalid h ⟨rfl, rfl, rfl, rfl, .inr (.inl ⟨.inr hs, rfl⟩)⟩, ?_⟩
        intro st e; cases e
        exact ⟨{ ord with status := .invalid }, by simp [setOrder, hlt], rfl⟩
      · exact ⟨Upd.refl _ _, fun st e => ⟨ord, h, by cases e; exact hs⟩⟩
    | pending =>
      simp only
      split
      · split
        · simp [Upd.refl]
        refine ⟨upd_setOrder now s o ord .invalid h ⟨rfl, rfl, rfl, rfl, .inr (.inl ⟨.inl hs, rfl⟩)⟩, ?_⟩
        intro st e; cases e
        exact ⟨{ ord with status := .invalid }, by simp [setOrder, hlt], rfl⟩
      · rename_i hexp
        obtain ⟨u1, r1⟩ := authzLoop_upd d now ord.authzs s
        cases hl : authzLoop d s now ord.authzs with
        | mk s1 r =>
          rw [hl] at u1 r1
          have ho1 : s1.orders = s.orders := by have := authzLoop_orders d now ord.authzs s; rw [hl] at this; exact this
          have h1 : s1.orders[o]? = some ord := by rw [ho1]; exact h
          cases r with
          | none => simp; exact u1
          | some sts =>
            simp only
            split
            · split
              · simp; exact u1
              refine ⟨u1.trans (upd_setOrder now s1 o ord .invalid h1 ⟨rfl, rfl, rfl, rfl, .inr (.inl ⟨.inl hs, rfl⟩)⟩), ?_⟩
              intro st e; cases e
              exact ⟨{ ord with status := .invalid }, by simp [setOrder, ho1, hlt], rfl⟩
            · split
              · exact ⟨u1, fun st e => ⟨ord, h1, by cases e; exact hs⟩⟩
              · split
                · rename_i hall
                  split
                  · simp; exact u1
                  refine ⟨u1.trans (upd_setOrder now s1 o ord .ready h1
                    ⟨rfl, rfl, rfl, rfl, .inr (.inr ⟨hs, rfl, by omega, ?_⟩)⟩), ?_⟩
                  · intro a ha
                    have := r1 sts rfl hall a ha
                    simpa [validAz, setOrder_authzs] using this
                  · intro st e; cases e
                    exact ⟨{ ord with status := .ready }, by simp [setOrder, ho1, hlt], rfl⟩
                · simp; exact u1


theorem orderUpdate_ready (d : Deny) (s : Store) (o now : Nat) (h : (orderUpdate d s o now).2 = some .ready) :
    ∃ ord, s.orders[o]? = some ord ∧ now ≤ ord.expires ∧ (ord.status = .pending ∨ ord.status = .ready) := by
  unfold orderUpdate at h
  cases ho : s.orders[o]? with
  | none => simp [ho] at h
  | some ord =>
    refine ⟨ord, rfl, ?_⟩
    simp only [ho] at h
    cases hs : ord.status <;> simp only [hs] at h
    · split at h
      · split at h <;> cases h
      · rename_i hexp; exact ⟨by omega, .inl rfl⟩
    · split at h
      · split at h <;> cases h
      · rename_i hexp; exact ⟨by omega, .inr rfl⟩
    · cases h
    · cases h

theorem upd_of_eq (now : Nat) (s s' : Store) (h1 : s'.chals = s.chals) (h2 : s'.authzs = s.authzs)
    (h3 : s'.orders = s.orders) (h4 : s'.certs = s.certs) : Upd now s s' :=
  ⟨h1, h4, by rw [h2], by rw [h3],
   fun i az h => ⟨az, by rw [h2]; exact h, AzJust.refl _ _ _⟩,
   fun i o h => ⟨o, by rw [h3]; exact h, rfl, rfl, rfl, rfl, .inl rfl⟩,
   fun i az h => ⟨az, by rw [h2]; exact h, rfl⟩⟩

theorem pollLoop_upd (d : Deny) (now : Nat) (incl : Bool) : ∀ (os : List Nat) (s : Store), Upd now s (pollLoop d s now incl os).1 := by
  intro os
  induction os with
  | nil => intro s; exact Upd.refl _ _
  | cons o os ih =>
    intro s
    unfold pollLoop
    have u1 := (orderUpdate_upd d s o now).1
    cases h1 : orderUpdate d s o now with
    | mk s1 r =>
      rw [h1] at u1
      cases r with
      | none => exact u1
      | some st =>
        simp only
        have u2 := ih s1
        cases h2 : pollLoop d s1 now incl os with
        | mk s2 r' =>
          rw [h2] at u2
          cases r' <;> exact u1.trans u2

theorem pollIndex_upd (d : Deny) (s : Store) (acct now : Nat) (incl : Bool) (add : List Nat) : Upd now s (pollIndex d s acct now incl add).1 := by
  unfold pollIndex
  simp only
  have u := pollLoop_upd d now incl ((indexOf s acct).getD []) s
  cases h : pollLoop d s now incl ((indexOf s acct).getD []) with
  | mk s1 r =>
    rw [h] at u
    cases r with
    | none => exact u
    | some keep =>
      simp only
      split
      · exact u
      · split
        · exact u
        · exact u.trans (upd_of_eq now _ _ rfl rfl rfl rfl)

/-! ## what one request may do to the objects that existed before it -/

/-- a response to a Wire challenge: the only request in which a challenge and (through
    `GetAllOrdersByAccountID`) its authorization and order can move together -/
def _root_.Verif.AcmeSM.Op.isWire : Op → Bool
  | .wire _ _ _ _ _ => true
  | _ => false

/-- the store in which the cause of an authorization becoming valid is to be found: the one before
    the request, except for a Wire challenge response, which validates the challenge and updates
    the account's orders in one request -/
def causeStore (op : Op) (s s' : Store) : Store := if op.isWire then s' else s

def ChalStep (op : Op) (i : Nat) (c c' : Chal) : Prop :=
  c'.acct = c.acct ∧ (c'.status = c.status ∨
    (c.status = .pending ∧ ∃ now out, (op = .respond c.acct i now out ∨ (∃ az, op = .attest c.acct i az now out) ∨ (∃ dp, op = .wire c.acct i now dp out)) ∧
       ((out.key.isSome = true ∧ c'.status = .valid) ∨ (out = .reject ∧ c'.status = .invalid))))

def OrdStep (op : Op) (s s' : Store) (i : Nat) (o o' : Order) : Prop :=
  o'.acct = o.acct ∧ o'.expires = o.expires ∧ o'.authzs = o.authzs ∧
  ((o'.status = o.status ∧ o'.cert = o.cert) ∨
   ((o.status = .pending ∨ o.status = .ready) ∧ o'.status = .invalid ∧ o'.cert = o.cert) ∨
   (o.status = .pending ∧ o'.status = .ready ∧ o'.cert = o.cert ∧ op.now ≤ o.expires ∧
      ∀ a ∈ o.authzs, validAz s' a) ∨
   (o'.status = .valid ∧ (∃ k, op = .finalize o.acct i op.now k true true false ∧
        keyGate (orderFp s' o) o.attested k = true) ∧ op.now ≤ o.expires ∧
      (o.status = .ready ∨ (o.status = .pending ∧ ∀ a ∈ o.authzs, validAz s' a)) ∧
      o'.cert = some s.certs.length ∧ s'.certs = s.certs ++ [⟨i, o.acct⟩]))

structure Old (d : Deny) (op : Op) (s s' : Store) : Prop where
  chal : ∀ (i : Nat) (c : Chal), s.chals[i]? = some c → ∃ c', s'.chals[i]? = some c' ∧ ChalStep op i c c'
  authz : ∀ (i : Nat) (az : Authz), s.authzs[i]? = some az →
    ∃ az', s'.authzs[i]? = some az' ∧ AzJust (causeStore op s s') op.now az az'
  order : ∀ (i : Nat) (o : Order), s.orders[i]? = some o →
    ∃ o', s'.orders[i]? = some o' ∧ OrdStep op s s' i o o'
  certs : s'.certs = s.certs ∨
    ∃ i o, s.orders[i]? = some o ∧ s'.certs = s.certs ++ [⟨i, o.acct⟩] ∧
      ((∃ o', s'.orders[i]? = some o' ∧ o.status ≠ .valid ∧ o'.status = .valid) ∨
       Req.finalWriteFails (d, op) = true)

theorem ordStep_of_just {op : Op} {s s' : Store} {i : Nat} {o o' : Order}
    (h : OrdJust s' op.now o o') : OrdStep op s s' i o o' := by
  obtain ⟨a, e, z, c, j⟩ := h
  refine ⟨a, e, z, ?_⟩
  rcases j with j | ⟨p, q⟩ | ⟨p, q, r, w⟩
  · exact .inl ⟨j, c⟩
  · exact .inr (.inl ⟨p, q, c⟩)
  · exact .inr (.inr (.inl ⟨p, q, c, r, w⟩))

theorem azJust_congr {s s' : Store} (h : s'.chals = s.chals) {now : Nat} {az az' : Authz}
    (j : AzJust s now az az') : AzJust s' now az az' := by
  obtain ⟨a, e, c, j⟩ := j
  refine ⟨a, e, c, ?_⟩
  rcases j with j | j | ⟨p, q, r, x, hx, hv⟩
  · exact .inl j
  · exact .inr (.inl j)
  · exact .inr (.inr ⟨p, q, r, x, hx, by rw [chalValid_congr h]; exact hv⟩)

theorem old_of_upd {d : Deny} {op : Op} {s s' : Store} (u : Upd op.now s s') : Old d op s s' := by
  refine ⟨?_, ?_, ?_, .inl u.certs⟩
  rotate_left
  · intro i az h
    obtain ⟨az', h', j⟩ := u.authz i az h
    refine ⟨az', h', ?_⟩
    unfold causeStore
    split
    · exact azJust_congr u.chals j
    · exact j
  · intro i o h
    obtain ⟨o', h', j⟩ := u.order i o h
    exact ⟨o', h', ordStep_of_just j⟩
  · intro i c h; exact ⟨c, by rw [u.chals]; exact h, rfl, .inl rfl⟩

theorem respond_old_gen (d : Deny) (s : Store) (acct c now : Nat) (out : Outcome) (op : Op)
    (hop : op = .respond acct c now out ∨ (∃ az, op = .attest acct c az now out) ∨ ∃ dp, op = .wire acct c now dp out) :
    Old d op s (respond d s acct c out).1 := by
  have base : Old d op s s := old_of_upd (Upd.refl _ _)
  unfold respond
  cases h : s.chals[c]? with
  | none => exact base
  | some ch =>
    have hlt := lt_of_getElem? h
    simp only
    split
    · exact base
    rename_i hacct
    split
    · exact base
    rename_i hst
    have hacct' : ch.acct = acct := by simpa using hacct
    have hst' : ch.status = .pending := by simpa using hst
    split
    · exact base
    split
    · exact base
    have mk : ∀ st, ((out.key.isSome = true ∧ st = Status.valid) ∨ (out = .reject ∧ st = Status.invalid)) →
        Old d op s (setChal s c ch st) := by
      intro st hout
      refine ⟨?_, fun i az h0 => ⟨az, h0, AzJust.refl _ _ _⟩,
        fun i o h0 => ⟨o, h0, rfl, rfl, rfl, .inl ⟨rfl, rfl⟩⟩, .inl rfl⟩
      intro i c0 h0
      by_cases e : c = i
      · subst e
        rw [h] at h0; cases h0
        exact ⟨{ ch with status := st }, by simp [setChal, hlt], rfl,
          .inr ⟨hst', now, out, by rw [hacct']; exact hop, hout⟩⟩
      · exact ⟨c0, by simp [setChal, List.getElem?_set_ne e, h0], rfl, .inl rfl⟩
    cases out with
    | success => exact mk .valid (.inl ⟨rfl, rfl⟩)
    | successKey k => exact mk .valid (.inl ⟨rfl, rfl⟩)
    | retry => exact base
    | reject => exact mk .invalid (.inr ⟨rfl, rfl⟩)
    | dbError => exact base

theorem respond_old (d : Deny) (s : Store) (acct c now : Nat) (out : Outcome) :
    Old d (.respond acct c now out) s (respond d s acct c out).1 :=
  respond_old_gen d s acct c now out _ (.inl rfl)

/-- the fingerprint write leaves every status, owner, expiry and child list as it was -/
theorem setFp_get (s : Store) (a : Nat) (azr : Authz) (k : Nat) (h : s.authzs[a]? = some azr) (i : Nat) (az : Authz)
    (h0 : s.authzs[i]? = some az) :
    ∃ az', (setFp s a azr k).authzs[i]? = some az' ∧ az'.acct = az.acct ∧ az'.expires = az.expires ∧
      az'.chals = az.chals ∧ az'.status = az.status := by
  have hlt := lt_of_getElem? h
  by_cases e : a = i
  · subst e
    rw [h] at h0; cases h0
    exact ⟨{ azr with fp := some k }, by simp [setFp, hlt], rfl, rfl, rfl, rfl⟩
  · exact ⟨az, by simp [setFp, List.getElem?_set_ne e, h0], rfl, rfl, rfl, rfl⟩

theorem attest_old (d : Deny) (s : Store) (acct c az now : Nat) (out : Outcome) :
    Old d (.attest acct c az now out) s (attest d s acct c az out).1 := by
  have base : Old d (.attest acct c az now out) s s := old_of_upd (Upd.refl _ _)
  unfold attest
  cases h : s.chals[c]? with
  | none => exact base
  | some ch =>
    have hlt := lt_of_getElem? h
    simp only
    split
    · exact base
    rename_i hacct
    split
    · exact base
    rename_i hst
    have hacct' : ch.acct = acct := by simpa using hacct
    have hst' : ch.status = .pending := by simpa using hst
    split
    · -- not a device-attest challenge: exactly `respond`
      exact respond_old_gen d s acct c now out _ (.inr (.inl ⟨az, rfl⟩))
    cases haz : s.authzs[az]? with
    | none => exact base
    | some azr =>
      simp only
      split
      · exact base
      split
      · exact base
      split
      · exact base
      -- a status write of the challenge on top of a store `s0` that differs from `s` only by a fingerprint
      have mk : ∀ (s0 : Store) (st : Status), s0.chals = s.chals → s0.orders = s.orders → s0.certs = s.certs →
          (∀ (i : Nat) (a0 : Authz), s.authzs[i]? = some a0 → ∃ a', s0.authzs[i]? = some a' ∧ a'.acct = a0.acct ∧
            a'.expires = a0.expires ∧ a'.chals = a0.chals ∧ a'.status = a0.status) →
          ((out.key.isSome = true ∧ st = Status.valid) ∨ (out = .reject ∧ st = Status.invalid)) →
          Old d (.attest acct c az now out) s (setChal s0 c ch st) := by
        intro s0 st hc ho hce ha hout
        refine ⟨?_, ?_, ?_, .inl (by simp [setChal, hce])⟩
        · intro i c0 h0
          by_cases e : c = i
          · subst e
            rw [h] at h0; cases h0
            exact ⟨{ ch with status := st }, by simp [setChal, hc, hlt], rfl,
              .inr ⟨hst', now, out, .inr (.inl ⟨az, by rw [hacct']⟩), hout⟩⟩
          · exact ⟨c0, by simp [setChal, hc, List.getElem?_set_ne e, h0], rfl, .inl rfl⟩
        · intro i a0 h0
          obtain ⟨a', h', x, y, z, w⟩ := ha i a0 h0
          exact ⟨a', by simpa [setChal] using h', x, y, z, .inl w⟩
        · intro i o h0
          exact ⟨o, by simp [setChal, ho, h0], rfl, rfl, rfl, .inl ⟨rfl, rfl⟩⟩
      have fpOnly : ∀ k, Old d (.attest acct c az now out) s (setFp s az azr k) := by
        intro k
        refine ⟨fun i c0 h0 => ⟨c0, by simpa [setFp] using h0, rfl, .inl rfl⟩, ?_,
          fun i o h0 => ⟨o, by simpa [setFp] using h0, rfl, rfl, rfl, .inl ⟨rfl, rfl⟩⟩, .inl rfl⟩
        intro i a0 h0
        obtain ⟨a', h', x, y, z, w⟩ := setFp_get s az azr k haz i a0 h0
        exact ⟨a', h', x, y, z, .inl w⟩
      cases hk : out.key with
      | none =>
        simp only
        cases out with
        | reject =>
          simp only
          split
          · exact base
          · exact mk s .invalid rfl rfl rfl (fun i a0 h0 => ⟨a0, h0, rfl, rfl, rfl, rfl⟩) (.inr ⟨rfl, rfl⟩)
        | success => simp [Outcome.key] at hk
        | successKey k => simp [Outcome.key] at hk
        | retry => exact base
        | dbError => exact base
      | some k =>
        simp only
        split
        · exact base
        split
        · exact fpOnly k
        · exact mk (setFp s az azr k) .valid rfl rfl rfl (setFp_get s az azr k haz) (.inl ⟨by simp [hk], rfl⟩)

theorem getAuthz_old (d : Deny) (s : Store) (acct a now : Nat) :
    Old d (.getAuthz acct a now) s (getAuthz d s acct a now).1 := by
  have base : Old d (.getAuthz acct a now) s s := old_of_upd (Upd.refl _ _)
  unfold getAuthz
  split
  · exact base
  split
  · exact base
  have u := (authzUpdate_upd d s a now).1
  cases h : authzUpdate d s a now with
  | mk s1 r =>
    rw [h] at u
    cases r <;> exact old_of_upd (op := .getAuthz acct a now) u

theorem getOrder_old (d : Deny) (s : Store) (acct o now : Nat) :
    Old d (.getOrder acct o now) s (getOrder d s acct o now).1 := by
  have base : Old d (.getOrder acct o now) s s := old_of_upd (Upd.refl _ _)
  unfold getOrder
  split
  · exact base
  split
  · exact base
  have u := (orderUpdate_upd d s o now).1
  cases h : orderUpdate d s o now with
  | mk s1 r =>
    rw [h] at u
    cases r <;> exact old_of_upd (op := .getOrder acct o now) u

theorem listOrders_old (d : Deny) (s : Store) (acct url now : Nat) :
    Old d (.listOrders acct url now) s (listOrders d s acct url now).1 := by
  unfold listOrders
  split
  · exact old_of_upd (Upd.refl _ _)
  have u := pollIndex_upd d s acct now false []
  cases h : pollIndex d s acct now false [] with
  | mk s1 r =>
    rw [h] at u
    cases r <;> exact old_of_upd (op := .listOrders acct url now) u


theorem orderFp_congr {s s' : Store} (h : s'.authzs = s.authzs) (o : Order) :
    orderFp s' o = orderFp s o := by
  simp [orderFp, h]

theorem finalize_old (d : Deny) (s : Store) (acct o now : Nat) (keyOk : Nat) (csrOk signOk updFail : Bool) :
    Old d (.finalize acct o now keyOk csrOk signOk updFail) s (finalize d s acct o now keyOk csrOk signOk updFail).1 := by
  have base : Old d (.finalize acct o now keyOk csrOk signOk updFail) s s := old_of_upd (Upd.refl _ _)
  unfold finalize
  cases ho : s.orders[o]? with
  | none => exact base
  | some ord =>
    simp only
    split
    · exact base
    rename_i hacct
    have hacct' : ord.acct = acct := by simpa using hacct
    obtain ⟨u, hret⟩ := orderUpdate_upd d s o now
    have hrdy := orderUpdate_ready d s o now
    cases hu : orderUpdate d s o now with
    | mk s1 r =>
      rw [hu] at u hret hrdy
      dsimp only at u hret hrdy
      have ou : Old d (.finalize acct o now keyOk csrOk signOk updFail) s s1 := old_of_upd u
      cases r with
      | none => exact ou
      | some st =>
        cases st with
        | pending => exact ou
        | valid => exact ou
        | invalid => exact ou
        | ready =>
          simp only
          split
          · exact ou
          rename_i hkey
          split
          · exact ou
          split
          · exact ou
          rename_i hcsr
          split
          · exact ou
          rename_i hsign
          have hcsr' : csrOk = true := by simpa using hcsr
          have hsign' : signOk = true := by simpa using hsign
          obtain ⟨o1, ho1, hst1⟩ := hret .ready rfl
          obtain ⟨ord0, hord0, hexp, hprev⟩ := hrdy rfl
          rw [ho] at hord0; cases hord0
          obtain ⟨o1', ho1', j1⟩ := u.order o ord ho
          rw [ho1] at ho1'; cases ho1'
          have hlt1 := lt_of_getElem? ho1
          split
          · -- the final UpdateOrder fails: certificate stored, order unchanged
            rename_i hfail
            refine ⟨?_, ?_, ?_, ?_⟩
            · intro i c h; exact ⟨c, by simp [u.chals, h], rfl, .inl rfl⟩
            · exact u.authz
            · intro i oi h
              obtain ⟨oi', h', j⟩ := u.order i oi h
              exact ⟨oi', h', ordStep_of_just j⟩
            · exact .inr ⟨o, ord, ho, by simp [u.certs], .inr (by
                rcases hfail with hf | hf
                · simp [Req.finalWriteFails, hf]
                · simp [Req.finalWriteFails, hf])⟩
          · rename_i hfail
            have hfail' : updFail = false := by
              cases hu' : updFail
              · rfl
              · exact absurd (.inl hu') hfail
            simp only [ho1]
            refine ⟨?_, ?_, ?_, ?_⟩
            · intro i c h; exact ⟨c, by simp [setOrder, u.chals, h], rfl, .inl rfl⟩
            · intro i az h
              obtain ⟨az', h', j⟩ := u.authz i az h
              exact ⟨az', by simpa [setOrder] using h', j⟩
            · intro i oi h
              by_cases e : o = i
              · subst e
                rw [ho] at h; cases h
                refine ⟨{ o1 with status := .valid, cert := some s1.certs.length },
                  by simp [setOrder, hlt1], j1.1, j1.2.1, j1.2.2.1, .inr (.inr (.inr ⟨rfl, ?_, hexp, ?_, ?_, ?_⟩))⟩
                · refine ⟨keyOk, by simp [Op.now, hacct', hcsr', hsign', hfail'], ?_⟩
                  rw [orderFp_congr (s := s1) (by simp [setOrder])]
                  simpa using hkey
                · rcases j1.2.2.2.2 with e | ⟨_, q⟩ | ⟨p, _, _, w⟩
                  · left; rw [← e]; exact hst1
                  · rw [hst1] at q; cases q
                  · right; exact ⟨p, fun a ha => by simpa [validAz, setOrder] using w a ha⟩
                · simp [u.certs]
                · simp [setOrder, u.certs]
              · obtain ⟨oi', h', j⟩ := u.order i oi h
                refine ⟨oi', by simp [setOrder, List.getElem?_set_ne e, h'], ?_⟩
                have : OrdStep (.finalize acct o now keyOk csrOk signOk updFail) s s1 i oi oi' := ordStep_of_just j
                obtain ⟨a, b, c, d⟩ := this
                refine ⟨a, b, c, ?_⟩
                rcases d with d | d | ⟨p, q, r, w, v⟩ | ⟨p, ⟨k, q, _⟩, _⟩
                · exact .inl d
                · exact .inr (.inl d)
                · exact .inr (.inr (.inl ⟨p, q, r, w, fun a ha => by simpa [validAz, setOrder] using v a ha⟩))
                · exfalso
                  rcases j.2.2.2.2 with e' | ⟨_, q'⟩ | ⟨_, q', _⟩
                  · simp [Op.now] at q; exact e q.2.1
                  · rw [p] at q'; cases q'
                  · rw [p] at q'; cases q'
            · refine .inr ⟨o, ord, ho, by simp [setOrder, u.certs],
                .inl ⟨{ o1 with status := .valid, cert := some s1.certs.length }, by simp [setOrder, hlt1], ?_, rfl⟩⟩
              rcases hprev with p | p <;> simp [p]


/-- new objects are appended, all of them pending -/
structure Grow (s s' : Store) : Prop where
  chals : ∃ x, s'.chals = s.chals ++ x ∧ ∀ c ∈ x, c.status = .pending
  authzs : ∃ y, s'.authzs = s.authzs ++ y ∧ ∀ a ∈ y, a.status = .pending
  orders : ∃ z, s'.orders = s.orders ++ z ∧ ∀ o ∈ z, o.status = .pending
  certs : s'.certs = s.certs

theorem Grow.refl (s : Store) : Grow s s :=
  ⟨⟨[], by simp⟩, ⟨[], by simp⟩, ⟨[], by simp⟩, rfl⟩

theorem Grow.trans {s s1 s2 : Store} (g1 : Grow s s1) (g2 : Grow s1 s2) : Grow s s2 := by
  obtain ⟨⟨x1, hx1, px1⟩, ⟨y1, hy1, py1⟩, ⟨z1, hz1, pz1⟩, c1⟩ := g1
  obtain ⟨⟨x2, hx2, px2⟩, ⟨y2, hy2, py2⟩, ⟨z2, hz2, pz2⟩, c2⟩ := g2
  refine ⟨⟨x1 ++ x2, by rw [hx2, hx1, List.append_assoc], ?_⟩, ⟨y1 ++ y2, by rw [hy2, hy1, List.append_assoc], ?_⟩,
    ⟨z1 ++ z2, by rw [hz2, hz1, List.append_assoc], ?_⟩, c2.trans c1⟩
  · intro c hc; rcases List.mem_append.mp hc with h | h; exact px1 c h; exact px2 c h
  · intro c hc; rcases List.mem_append.mp hc with h | h; exact py1 c h; exact py2 c h
  · intro c hc; rcases List.mem_append.mp hc with h | h; exact pz1 c h; exact pz2 c h

theorem createAuthzs_grow (acct exp : Nat) : ∀ (ns : List (Nat × Bool)) (s : Store), Grow s (createAuthzs s acct exp ns).1 := by
  intro ns
  induction ns with
  | nil => intro s; exact Grow.refl s
  | cons n ns ih =>
    intro s
    obtain ⟨n, att⟩ := n
    unfold createAuthzs
    simp only
    refine Grow.trans ?_ (ih _)
    refine ⟨⟨_, rfl, ?_⟩, ⟨_, rfl, ?_⟩, ⟨[], by simp⟩, rfl⟩
    · intro c hc; rw [List.eq_of_mem_replicate hc]
    · intro a ha; simp at ha; rw [ha]

theorem get_of_grow_chal {s s' : Store} (g : Grow s s') {i : Nat} {c : Chal} (h : s.chals[i]? = some c) :
    s'.chals[i]? = some c := by
  obtain ⟨x, hx, _⟩ := g.chals
  rw [hx, List.getElem?_append_left (lt_of_getElem? h)]; exact h

theorem get_of_grow_authz {s s' : Store} (g : Grow s s') {i : Nat} {c : Authz} (h : s.authzs[i]? = some c) :
    s'.authzs[i]? = some c := by
  obtain ⟨x, hx, _⟩ := g.authzs
  rw [hx, List.getElem?_append_left (lt_of_getElem? h)]; exact h

theorem get_of_grow_order {s s' : Store} (g : Grow s s') {i : Nat} {c : Order} (h : s.orders[i]? = some c) :
    s'.orders[i]? = some c := by
  obtain ⟨x, hx, _⟩ := g.orders
  rw [hx, List.getElem?_append_left (lt_of_getElem? h)]; exact h

theorem chalValid_of_grow {s s' : Store} (g : Grow s s') {c : Nat} (h : chalValid s' c = true) :
    chalValid s c = true := by
  obtain ⟨x, hx, px⟩ := g.chals
  unfold chalValid at h ⊢
  rw [hx] at h
  rcases Nat.lt_or_ge c s.chals.length with hl | hl
  · rw [List.getElem?_append_left hl] at h; exact h
  · rw [List.getElem?_append_right hl] at h
    cases hq : x[c - s.chals.length]? with
    | none => simp [hq] at h
    | some ch =>
      simp [hq] at h
      have := px ch (List.mem_of_getElem? hq)
      rw [this] at h; cases h

theorem old_of_grow_upd {d : Deny} {op : Op} {s s2 s3 : Store} (g : Grow s s2) (u : Upd op.now s2 s3) : Old d op s s3 := by
  refine ⟨?_, ?_, ?_, .inl (u.certs.trans g.certs)⟩
  · intro i c h
    exact ⟨c, by rw [u.chals]; exact get_of_grow_chal g h, rfl, .inl rfl⟩
  · intro i az h
    obtain ⟨az', h', a, e, cs, j⟩ := u.authz i az (get_of_grow_authz g h)
    refine ⟨az', h', a, e, cs, ?_⟩
    rcases j with j | j | ⟨p, q, r, c, hc, hv⟩
    · exact .inl j
    · exact .inr (.inl j)
    · refine .inr (.inr ⟨p, q, r, c, hc, ?_⟩)
      unfold causeStore
      split
      · rw [chalValid_congr u.chals]; exact hv
      · exact chalValid_of_grow g hv
  · intro i o h
    obtain ⟨o', h', j⟩ := u.order i o (get_of_grow_order g h)
    exact ⟨o', h', ordStep_of_just j⟩

theorem addChals_grow (s : Store) (acct : Nat) (ex : Option (Nat × Bool)) : Grow s (addChals s acct ex) := by
  cases ex with
  | none => exact Grow.refl s
  | some p =>
    obtain ⟨m, att⟩ := p
    refine ⟨⟨_, rfl, ?_⟩, ⟨[], by simp [addChals]⟩, ⟨[], by simp [addChals]⟩, rfl⟩
    intro c hc
    simp [List.mem_replicate] at hc
    rw [hc.2]

theorem newOrder_grow (d : Deny) (s : Store) (acct now : Nat) (nch : List (Nat × Bool)) (wr : Bool) :
    ∃ s2, Grow s s2 ∧ Upd now s2 (newOrder d s acct now nch wr).1 := by
  unfold newOrder
  split
  · exact ⟨s, Grow.refl s, Upd.refl _ _⟩
  simp only
  cases hf : createFault d nch with
  | some pe =>
    obtain ⟨pre, extra⟩ := pe
    exact ⟨_, (createAuthzs_grow acct (now + lifetime) pre s).trans (addChals_grow _ acct extra), Upd.refl _ _⟩
  | none =>
  simp only
  have g1 := createAuthzs_grow acct (now + lifetime) nch s
  cases hc : createAuthzs s acct (now + lifetime) nch with
  | mk s1 azs =>
    rw [hc] at g1
    simp only
    split
    · exact ⟨s1, g1, pollLoop_upd d now false _ s1⟩
    let s2 : Store := { s1 with orders := s1.orders ++
      [({ acct := acct, status := .pending, expires := now + lifetime, authzs := azs, cert := none, attested := nch.any (·.2), wire := wr } : Order)] }
    have g2 : Grow s1 s2 := ⟨⟨[], by simp [s2]⟩, ⟨[], by simp [s2]⟩, ⟨_, rfl, by intro o ho; simp at ho; rw [ho]⟩, rfl⟩
    have u := pollIndex_upd d s2 acct now false [s1.orders.length]
    refine ⟨s2, g1.trans g2, ?_⟩
    cases hp : pollIndex d s2 acct now false [s1.orders.length] with
    | mk s3 r =>
      rw [hp] at u
      cases r <;> exact u

/-! ### a Wire challenge response: `respond`, then the status recomputations of `GetAllOrdersByAccountID` -/

theorem respond_certs (d : Deny) (s : Store) (acct c : Nat) (out : Outcome) :
    (respond d s acct c out).1.certs = s.certs := by
  unfold respond
  repeat' split
  all_goals rfl

theorem respond_orders (d : Deny) (s : Store) (acct c : Nat) (out : Outcome) :
    (respond d s acct c out).1.orders = s.orders := by
  unfold respond
  repeat' split
  all_goals rfl

theorem respond_authzs' (d : Deny) (s : Store) (acct c : Nat) (out : Outcome) :
    (respond d s acct c out).1.authzs = s.authzs := by
  unfold respond
  repeat' split
  all_goals rfl

/-- the store a Wire response leaves is the one `respond` leaves, followed by status recomputations -/
theorem wire_split (d : Deny) (s : Store) (acct c now : Nat) (dpop : Bool) (out : Outcome) :
    Upd now (respond d s acct c out).1 (wire d s acct c now dpop out).1 := by
  unfold wire
  cases hr : respond d s acct c out with
  | mk s1 r =>
    simp only
    split
    · have u := pollIndex_upd d s1 acct now true []
      cases hp : pollIndex d s1 acct now true [] with
      | mk s2 r2 =>
        rw [hp] at u
        cases r2 with
        | none => exact u
        | some ids =>
          simp only
          split
          · exact u
          · split
            · exact u
            · exact u.trans (upd_of_eq now _ _ rfl rfl rfl rfl)
    · exact Upd.refl _ _

theorem old_then_upd {d : Deny} {op : Op} {s s1 s2 : Store} (hw : op.isWire = true) (O : Old d op s s1)
    (hc : s1.certs = s.certs) (ha : s1.authzs = s.authzs) (ho : s1.orders = s.orders)
    (u : Upd op.now s1 s2) : Old d op s s2 := by
  refine ⟨?_, ?_, ?_, .inl (u.certs.trans hc)⟩
  · intro i c h
    obtain ⟨c', h', j⟩ := O.chal i c h
    exact ⟨c', by rw [u.chals]; exact h', j⟩
  · intro i az h
    obtain ⟨az', h', j⟩ := u.authz i az (by rw [ha]; exact h)
    refine ⟨az', h', ?_⟩
    unfold causeStore
    rw [hw]
    exact azJust_congr u.chals j
  · intro i o h
    obtain ⟨o', h', j⟩ := u.order i o (by rw [ho]; exact h)
    exact ⟨o', h', ordStep_of_just j⟩

theorem wire_old (d : Deny) (s : Store) (acct c now : Nat) (dpop : Bool) (out : Outcome) :
    Old d (.wire acct c now dpop out) s (wire d s acct c now dpop out).1 :=
  old_then_upd (op := .wire acct c now dpop out) rfl
    (respond_old_gen d s acct c now out (.wire acct c now dpop out) (.inr (.inr ⟨dpop, rfl⟩)))
    (respond_certs d s acct c out) (respond_authzs' d s acct c out) (respond_orders d s acct c out)
    (wire_split d s acct c now dpop out)

theorem step_old (d : Deny) (s : Store) (op : Op) : Old d op s (step d s op).1 := by
  cases op with
  | newOrder acct now nch wr =>
    obtain ⟨s2, g, u⟩ := newOrder_grow d s acct now nch wr
    exact old_of_grow_upd (op := .newOrder acct now nch wr) g u
  | respond acct c now out => exact respond_old d s acct c now out
  | wire acct c now dp out => exact wire_old d s acct c now dp out
  | attest acct c az now out => exact attest_old d s acct c az now out
  | getAuthz acct a now => exact getAuthz_old d s acct a now
  | getOrder acct o now => exact getOrder_old d s acct o now
  | finalize acct o now k c g u => exact finalize_old d s acct o now k c g u
  | listOrders acct u now => exact listOrders_old d s acct u now


/-! ## invariants of reachable stores -/

structure SameLen (s s' : Store) : Prop where
  chals : s'.chals.length = s.chals.length
  authzs : s'.authzs.length = s.authzs.length
  orders : s'.orders.length = s.orders.length

theorem sameLen_of_upd {now : Nat} {s s' : Store} (u : Upd now s s') : SameLen s s' :=
  ⟨by rw [u.chals], u.alen, u.olen⟩

theorem SameLen.trans {s s1 s2 : Store} (a : SameLen s s1) (b : SameLen s1 s2) : SameLen s s2 :=
  ⟨b.chals.trans a.chals, b.authzs.trans a.authzs, b.orders.trans a.orders⟩

theorem respond_len (d : Deny) (s : Store) (acct c : Nat) (out : Outcome) : SameLen s (respond d s acct c out).1 := by
  unfold respond
  repeat' split
  all_goals first | exact ⟨rfl, rfl, rfl⟩ | exact ⟨by simp [setChal], rfl, rfl⟩

theorem finalize_len (d : Deny) (s : Store) (acct o now : Nat) (k : Nat) (c g u : Bool) : SameLen s (finalize d s acct o now k c g u).1 := by
  have hu := sameLen_of_upd (orderUpdate_upd d s o now).1
  unfold finalize
  cases ho : s.orders[o]? with
  | none => exact ⟨rfl, rfl, rfl⟩
  | some ord =>
    simp only
    split
    · exact ⟨rfl, rfl, rfl⟩
    cases h : orderUpdate d s o now with
    | mk s1 r =>
      rw [h] at hu
      dsimp only at hu
      cases r with
      | none => exact hu
      | some st =>
        cases st <;> simp only
        · exact hu
        · repeat' split
          all_goals first | exact hu | exact ⟨hu.chals, hu.authzs, hu.orders⟩ | exact ⟨hu.chals, hu.authzs, by simp [setOrder, hu.orders]⟩
        · exact hu
        · exact hu

theorem step_len (d : Deny) (s : Store) (op : Op) (h : ∀ acct now nch wr, op ≠ .newOrder acct now nch wr) : SameLen s (step d s op).1 := by
  cases op with
  | newOrder acct now nch wr => exact absurd rfl (h acct now nch wr)
  | respond acct c now out => exact respond_len d s acct c out
  | wire acct c now dp out =>
    exact (respond_len d s acct c out).trans (sameLen_of_upd (wire_split d s acct c now dp out))
  | attest acct c az now out =>
    have r := respond_len d s acct c out
    simp only [step, attest]
    repeat' split
    all_goals first | exact ⟨rfl, rfl, rfl⟩ | exact r | exact ⟨by simp [setChal, setFp], by simp [setChal, setFp], rfl⟩ | exact ⟨by simp [setFp], by simp [setFp], rfl⟩
  | getAuthz acct a now =>
    have u := (authzUpdate_upd d s a now).1
    simp only [step, getAuthz]
    repeat' split
    all_goals first | exact ⟨rfl, rfl, rfl⟩ | (rename_i h1; rw [h1] at u; exact sameLen_of_upd u)
  | getOrder acct o now =>
    have u := (orderUpdate_upd d s o now).1
    simp only [step, getOrder]
    repeat' split
    all_goals first | exact ⟨rfl, rfl, rfl⟩ | (rename_i h1; rw [h1] at u; exact sameLen_of_upd u)
  | finalize acct o now k c g u => exact finalize_len d s acct o now k c g u
  | listOrders acct url now =>
    have u := pollIndex_upd d s acct now false []
    simp only [step, listOrders]
    repeat' split
    all_goals first | exact ⟨rfl, rfl, rfl⟩ | (rename_i h1; rw [h1] at u; exact sameLen_of_upd u)

/-- cause invariants: every valid authorization has a valid challenge of its own; every ready or
    valid order has only valid authorizations -/
structure Inv (s : Store) : Prop where
  azCause : ∀ (a : Nat) (az : Authz), s.authzs[a]? = some az → az.status = .valid →
    ∃ c ∈ az.chals, chalValid s c = true
  ordCause : ∀ (i : Nat) (o : Order), s.orders[i]? = some o → (o.status = .ready ∨ o.status = .valid) →
    ∀ a ∈ o.authzs, validAz s a

theorem some_of_len {α : Type} {l l' : List α} (hl : l'.length = l.length) {i : Nat} {x : α} (h : l'[i]? = some x) :
    ∃ y, l[i]? = some y := by
  have := lt_of_getElem? h
  exact ⟨l[i]'(by omega), List.getElem?_eq_getElem (by omega)⟩

theorem chalValid_old {d : Deny} {op : Op} {s s' : Store} (o : Old d op s s') {c : Nat} (h : chalValid s c = true) :
    chalValid s' c = true := by
  unfold chalValid at h ⊢
  cases hc : s.chals[c]? with
  | none => simp [hc] at h
  | some ch =>
    simp [hc] at h
    obtain ⟨ch', h', _, j⟩ := o.chal c ch hc
    rw [h']
    rcases j with j | ⟨p, _⟩
    · simp [j, h]
    · rw [h] at p; cases p

theorem chalValid_cause {d : Deny} {op : Op} {s s' : Store} (o : Old d op s s') {c : Nat}
    (h : chalValid (causeStore op s s') c = true) : chalValid s' c = true := by
  unfold causeStore at h
  split at h
  · exact h
  · exact chalValid_old o h

theorem validAz_old {d : Deny} {op : Op} {s s' : Store} (o : Old d op s s') {a : Nat} (h : validAz s a) : validAz s' a := by
  obtain ⟨az, ha, hv⟩ := h
  obtain ⟨az', ha', _, _, _, j⟩ := o.authz a az ha
  refine ⟨az', ha', ?_⟩
  rcases j with e | ⟨p, _⟩ | ⟨p, _⟩
  · rw [e, hv]
  · rw [hv] at p; cases p
  · rw [hv] at p; cases p

theorem inv_old {d : Deny} {op : Op} {s s' : Store} (I : Inv s) (o : Old d op s s') (l : SameLen s s') : Inv s' := by
  constructor
  · intro a az' h' hv
    obtain ⟨az, h⟩ := some_of_len l.authzs h'
    obtain ⟨az'', h'', _, _, cs, j⟩ := o.authz a az h
    rw [h'] at h''; cases h''
    rw [cs]
    rcases j with e | ⟨_, q, _⟩ | ⟨_, _, _, c, hc, hcv⟩
    · obtain ⟨c, hc, hcv⟩ := I.azCause a az h (e ▸ hv)
      exact ⟨c, hc, chalValid_old o hcv⟩
    · rw [hv] at q; cases q
    · exact ⟨c, hc, chalValid_cause o hcv⟩
  · intro i o' h' hst a ha
    obtain ⟨o0, h⟩ := some_of_len l.orders h'
    obtain ⟨o'', h'', _, _, zs, j⟩ := o.order i o0 h
    rw [h'] at h''; cases h''
    rw [zs] at ha
    rcases j with ⟨e, _⟩ | ⟨_, q, _⟩ | ⟨_, _, _, _, w⟩ | ⟨_, _, _, w, _⟩
    · exact validAz_old o (I.ordCause i o0 h (e ▸ hst) a ha)
    · rw [q] at hst; rcases hst with x | x <;> cases x
    · exact w a ha
    · rcases w with w | ⟨_, w⟩
      · exact validAz_old o (I.ordCause i o0 h (.inl w) a ha)
      · exact w a ha

theorem inv_grow {s s' : Store} (I : Inv s) (g : Grow s s') : Inv s' := by
  obtain ⟨x, hx, px⟩ := g.chals
  obtain ⟨y, hy, py⟩ := g.authzs
  obtain ⟨z, hz, pz⟩ := g.orders
  have cv : ∀ c, chalValid s c = true → chalValid s' c = true := by
    intro c h
    unfold chalValid at h ⊢
    cases hc : s.chals[c]? with
    | none => simp [hc] at h
    | some ch => rw [get_of_grow_chal g hc]; simpa [hc] using h
  have va : ∀ a, validAz s a → validAz s' a := fun a ⟨az, h, v⟩ => ⟨az, get_of_grow_authz g h, v⟩
  constructor
  · intro a az h hv
    rw [hy] at h
    rcases Nat.lt_or_ge a s.authzs.length with hl | hl
    · rw [List.getElem?_append_left hl] at h
      obtain ⟨c, hc, hcv⟩ := I.azCause a az h hv
      exact ⟨c, hc, cv c hcv⟩
    · rw [List.getElem?_append_right hl] at h
      have := py az (List.mem_of_getElem? h)
      rw [this] at hv; cases hv
  · intro i o h hst a ha
    rw [hz] at h
    rcases Nat.lt_or_ge i s.orders.length with hl | hl
    · rw [List.getElem?_append_left hl] at h
      exact va a (I.ordCause i o h hst a ha)
    · rw [List.getElem?_append_right hl] at h
      have := pz o (List.mem_of_getElem? h)
      rw [this] at hst; rcases hst with x | x <;> cases x

theorem inv_step (d : Deny) (s : Store) (op : Op) (I : Inv s) : Inv (step d s op).1 := by
  by_cases h : ∃ acct now nch wr, op = .newOrder acct now nch wr
  · obtain ⟨acct, now, nch, wr, rfl⟩ := h
    obtain ⟨s2, g, u⟩ := newOrder_grow d s acct now nch wr
    exact inv_old (d := d) (op := .newOrder acct now nch wr) (inv_grow I g) (old_of_upd u) (sameLen_of_upd u)
  · exact inv_old I (step_old d s op) (step_len d s op (fun a n k w e => h ⟨a, n, k, w, e⟩))

theorem run_snoc (h : List Req) (r : Req) : run (h ++ [r]) = (step r.1 (run h) r.2).1 := by
  simp [run, List.foldl_append]

theorem run_induction (P : Store → Prop) (h0 : P {}) (hs : ∀ d s op, P s → P (step d s op).1) :
    ∀ h, P (run h) := by
  have gen : ∀ (h : List Req) (s : Store), P s → P (h.foldl (fun s r => (step r.1 s r.2).1) s) := by
    intro h
    induction h with
    | nil => intro s hp; exact hp
    | cons r h ih => intro s hp; exact ih _ (hs r.1 s r.2 hp)
  intro h
  exact gen h {} h0

/-- the cause invariants hold after every history, whatever storage faults were injected -/
theorem inv_run (h : List Req) : Inv (run h) :=
  run_induction Inv ⟨by intro a az h; simp at h, by intro i o h; simp at h⟩ inv_step h


/-- certificates of an order -/
def certsOf (s : Store) (i : Nat) : Nat := (s.certs.filter (·.order == i)).length

structure CertInv (s : Store) : Prop where
  ref : ∀ c ∈ s.certs, c.order < s.orders.length
  count : ∀ (i : Nat) (o : Order), s.orders[i]? = some o → certsOf s i = if o.status = .valid then 1 else 0

theorem certInv_old {d : Deny} {op : Op} {s s' : Store} (C : CertInv s) (o : Old d op s s') (l : SameLen s s')
    (ff : Req.finalWriteFails (d, op) = false) : CertInv s' := by
  rcases o.certs with hc | ⟨i, oi, hi, hc, htr⟩
  · constructor
    · intro c hcm; rw [hc] at hcm; rw [l.orders]; exact C.ref c hcm
    · intro j o' h'
      obtain ⟨o0, h⟩ := some_of_len l.orders h'
      obtain ⟨o'', h'', _, _, _, jj⟩ := o.order j o0 h
      rw [h'] at h''; cases h''
      have hcnt := C.count j o0 h
      have : certsOf s' j = certsOf s j := by simp [certsOf, hc]
      rw [this, hcnt]
      rcases jj with ⟨e, _⟩ | ⟨p, q, _⟩ | ⟨p, q, _⟩ | ⟨_, _, _, _, _, w⟩
      · rw [e]
      · rcases p with p | p <;> simp [p, q]
      · simp [p, q]
      · rw [hc] at w; have := congrArg List.length w; simp at this
  · rcases htr with ⟨oi', hi', hnv, hv⟩ | hf
    · constructor
      · intro c hcm
        rw [hc] at hcm
        rw [l.orders]
        rcases List.mem_append.mp hcm with hcm | hcm
        · exact C.ref c hcm
        · simp at hcm; rw [hcm]; exact lt_of_getElem? hi
      · intro j o' h'
        obtain ⟨o0, h⟩ := some_of_len l.orders h'
        obtain ⟨o'', h'', _, _, _, jj⟩ := o.order j o0 h
        rw [h'] at h''; cases h''
        have hcnt := C.count j o0 h
        by_cases e : i = j
        · subst e
          rw [hi] at h; cases h
          rw [hi'] at h'; cases h'
          have : certsOf s' i = certsOf s i + 1 := by simp [certsOf, hc, List.filter_append]
          rw [this, hcnt]; simp [hnv, hv]
        · have : certsOf s' j = certsOf s j := by
            simp [certsOf, hc, List.filter_append]; intro h; exact absurd h e
          rw [this, hcnt]
          rcases jj with ⟨e', _⟩ | ⟨p, q, _⟩ | ⟨p, q, _⟩ | ⟨_, _, _, _, _, w⟩
          · rw [e']
          · rcases p with p | p <;> simp [p, q]
          · simp [p, q]
          · rw [hc] at w
            have := List.append_cancel_left w
            simp at this; exact absurd this.1 e
    · rw [ff] at hf; cases hf

theorem certInv_grow {s s' : Store} (C : CertInv s) (g : Grow s s') : CertInv s' := by
  obtain ⟨z, hz, pz⟩ := g.orders
  constructor
  · intro c hc; rw [g.certs] at hc; rw [hz]; have := C.ref c hc; simp; omega
  · intro i o h
    have hcs : certsOf s' i = certsOf s i := by simp [certsOf, g.certs]
    rw [hz] at h
    rcases Nat.lt_or_ge i s.orders.length with hl | hl
    · rw [List.getElem?_append_left hl] at h; rw [hcs]; exact C.count i o h
    · rw [List.getElem?_append_right hl] at h
      have hp := pz o (List.mem_of_getElem? h)
      rw [hcs, hp]
      simp [certsOf]
      intro c hc; have := C.ref c hc; omega

theorem certInv_step (d : Deny) (s : Store) (op : Op) (ff : Req.finalWriteFails (d, op) = false) (C : CertInv s) : CertInv (step d s op).1 := by
  by_cases h : ∃ acct now nch wr, op = .newOrder acct now nch wr
  · obtain ⟨acct, now, nch, wr, rfl⟩ := h
    obtain ⟨s2, g, u⟩ := newOrder_grow d s acct now nch wr
    exact certInv_old (d := d) (op := .newOrder acct now nch wr) (certInv_grow C g) (old_of_upd u) (sameLen_of_upd u) rfl
  · exact certInv_old C (step_old d s op) (step_len d s op (fun a n k w e => h ⟨a, n, k, w, e⟩)) ff

/-- the certificate invariant survives every storage fault except a failing last write of a
    finalization -/
theorem certInv_run : ∀ (h : List Req), h.all (fun r => !r.finalWriteFails) = true → CertInv (run h) := by
  have gen : ∀ (h : List Req) (s : Store), h.all (fun r => !r.finalWriteFails) = true → CertInv s →
      CertInv (h.foldl (fun s r => (step r.1 s r.2).1) s) := by
    intro h
    induction h with
    | nil => intro s _ hp; exact hp
    | cons r h ih =>
      intro s hall hp
      simp at hall
      exact ih _ (by simpa using hall.2) (certInv_step r.1 s r.2 (by simpa using hall.1) hp)
  intro h hall
  exact gen h {} hall ⟨by intro c hc; simp at hc, by intro i o h; simp at h⟩


/-! ## the property theorems -/

def Status.terminal (a : Status) : Prop := a = .valid ∨ a = .invalid

/-- **terminal_absorbing** (one request, any store): every challenge, authorization and order
    that exists keeps its identity fields, moves only forward (pending < ready < valid/invalid),
    and once valid or invalid keeps its status. -/
theorem terminal_absorbing (d : Deny) (s : Store) (op : Op) :
    (∀ (i : Nat) (c : Chal), s.chals[i]? = some c → ∃ c', (step d s op).1.chals[i]? = some c' ∧
        c'.acct = c.acct ∧ c.status.le c'.status ∧ (c.status.terminal → c'.status = c.status)) ∧
    (∀ (i : Nat) (a : Authz), s.authzs[i]? = some a → ∃ a', (step d s op).1.authzs[i]? = some a' ∧
        a'.acct = a.acct ∧ a'.expires = a.expires ∧ a'.chals = a.chals ∧
        a.status.le a'.status ∧ (a.status.terminal → a'.status = a.status)) ∧
    (∀ (i : Nat) (o : Order), s.orders[i]? = some o → ∃ o', (step d s op).1.orders[i]? = some o' ∧
        o'.acct = o.acct ∧ o'.expires = o.expires ∧ o'.authzs = o.authzs ∧
        o.status.le o'.status ∧ (o.status.terminal → o'.status = o.status)) := by
  have O := step_old d s op
  refine ⟨?_, ?_, ?_⟩
  · intro i c h
    obtain ⟨c', h', a, j⟩ := O.chal i c h
    refine ⟨c', h', a, ?_, ?_⟩
    · rcases j with e | ⟨p, _⟩
      · exact .inl e.symm
      · rw [p]; exact Status.pending_le _
    · intro t
      rcases j with e | ⟨p, _⟩
      · exact e
      · rcases t with t | t <;> rw [t] at p <;> cases p
  · intro i a h
    obtain ⟨a', h', ac, e, cs, j⟩ := O.authz i a h
    refine ⟨a', h', ac, e, cs, ?_, ?_⟩
    · rcases j with e | ⟨p, _⟩ | ⟨p, _⟩
      · exact .inl e.symm
      · rw [p]; exact Status.pending_le _
      · rw [p]; exact Status.pending_le _
    · intro t
      rcases j with e | ⟨p, _⟩ | ⟨p, _⟩
      · exact e
      · rcases t with t | t <;> rw [t] at p <;> cases p
      · rcases t with t | t <;> rw [t] at p <;> cases p
  · intro i o h
    obtain ⟨o', h', ac, e, zs, j⟩ := O.order i o h
    refine ⟨o', h', ac, e, zs, ?_, ?_⟩
    · rcases j with ⟨e, _⟩ | ⟨p, q, _⟩ | ⟨p, q, _⟩ | ⟨q, _, _, p, _⟩
      · exact .inl e.symm
      · rcases p with p | p <;> rw [p, q] <;> simp [Status.le, Status.rank]
      · rw [p, q]; simp [Status.le, Status.rank]
      · rcases p with p | ⟨p, _⟩ <;> rw [p, q] <;> simp [Status.le, Status.rank]
    · intro t
      rcases j with ⟨e, _⟩ | ⟨p, _⟩ | ⟨p, _⟩ | ⟨_, _, _, p, _⟩
      · exact e
      · rcases p with p | p <;> rcases t with t | t <;> rw [t] at p <;> cases p
      · rcases t with t | t <;> rw [t] at p <;> cases p
      · rcases p with p | ⟨p, _⟩ <;> rcases t with t | t <;> rw [t] at p <;> cases p

/-- terminal_absorbing over histories: whatever requests follow, a terminal status stays -/
theorem terminal_absorbing_history (h1 h2 : List Req) :
    (∀ (i : Nat) (c : Chal), (run h1).chals[i]? = some c → c.status.terminal →
        ∃ c', (run (h1 ++ h2)).chals[i]? = some c' ∧ c'.status = c.status) ∧
    (∀ (i : Nat) (a : Authz), (run h1).authzs[i]? = some a → a.status.terminal →
        ∃ a', (run (h1 ++ h2)).authzs[i]? = some a' ∧ a'.status = a.status) ∧
    (∀ (i : Nat) (o : Order), (run h1).orders[i]? = some o → o.status.terminal →
        ∃ o', (run (h1 ++ h2)).orders[i]? = some o' ∧ o'.status = o.status) := by
  have gen : ∀ (h2 : List Req) (s : Store),
      let s' := h2.foldl (fun s r => (step r.1 s r.2).1) s
      (∀ (i : Nat) (c : Chal), s.chals[i]? = some c → c.status.terminal → ∃ c', s'.chals[i]? = some c' ∧ c'.status = c.status) ∧
      (∀ (i : Nat) (a : Authz), s.authzs[i]? = some a → a.status.terminal → ∃ a', s'.authzs[i]? = some a' ∧ a'.status = a.status) ∧
      (∀ (i : Nat) (o : Order), s.orders[i]? = some o → o.status.terminal → ∃ o', s'.orders[i]? = some o' ∧ o'.status = o.status) := by
    intro h2
    induction h2 with
    | nil => intro s; exact ⟨fun i c h _ => ⟨c, h, rfl⟩, fun i c h _ => ⟨c, h, rfl⟩, fun i c h _ => ⟨c, h, rfl⟩⟩
    | cons r h2 ih =>
      intro s
      obtain ⟨t1, t2, t3⟩ := terminal_absorbing r.1 s r.2
      obtain ⟨i1, i2, i3⟩ := ih (step r.1 s r.2).1
      refine ⟨?_, ?_, ?_⟩
      · intro i c h t
        obtain ⟨c', h', _, _, e⟩ := t1 i c h
        obtain ⟨c'', h'', e'⟩ := i1 i c' h' (by rw [e t]; exact t)
        exact ⟨c'', h'', e'.trans (e t)⟩
      · intro i c h t
        obtain ⟨c', h', _, _, _, _, e⟩ := t2 i c h
        obtain ⟨c'', h'', e'⟩ := i2 i c' h' (by rw [e t]; exact t)
        exact ⟨c'', h'', e'.trans (e t)⟩
      · intro i c h t
        obtain ⟨c', h', _, _, _, _, e⟩ := t3 i c h
        obtain ⟨c'', h'', e'⟩ := i3 i c' h' (by rw [e t]; exact t)
        exact ⟨c'', h'', e'.trans (e t)⟩
  have : run (h1 ++ h2) = h2.foldl (fun s r => (step r.1 s r.2).1) (run h1) := by simp [run, List.foldl_append]
  rw [this]
  exact gen h2 (run h1)

/-- **authz_valid_cause** (the request in which it happens): an authorization turns valid only
    from pending, at a time not after its expiry, with one of its own challenges valid: already
    before this request, or, when the request is a Wire challenge response (which validates the
    challenge and then updates the account's orders), at its end. -/
theorem authz_valid_cause (d : Deny) (s : Store) (op : Op) (i : Nat) (a a' : Authz)
    (h : s.authzs[i]? = some a) (h' : (step d s op).1.authzs[i]? = some a')
    (hn : a.status ≠ .valid) (hv : a'.status = .valid) :
    a.status = .pending ∧ op.now ≤ a.expires ∧
      ∃ c ∈ a.chals, chalValid (causeStore op s (step d s op).1) c = true := by
  obtain ⟨a'', h'', _, _, _, j⟩ := (step_old d s op).authz i a h
  rw [h'] at h''; cases h''
  rcases j with e | ⟨_, q, _⟩ | ⟨p, _, r, w⟩
  · exact absurd (e ▸ hv) hn
  · rw [hv] at q; cases q
  · exact ⟨p, r, w⟩

/-- authz_valid_cause for every request but a Wire challenge response: the valid challenge was
    valid before the request -/
theorem authz_valid_cause_pre (d : Deny) (s : Store) (op : Op) (i : Nat) (a a' : Authz)
    (hw : op.isWire = false)
    (h : s.authzs[i]? = some a) (h' : (step d s op).1.authzs[i]? = some a')
    (hn : a.status ≠ .valid) (hv : a'.status = .valid) :
    a.status = .pending ∧ op.now ≤ a.expires ∧ ∃ c ∈ a.chals, chalValid s c = true := by
  have := authz_valid_cause d s op i a a' h h' hn hv
  simpa [causeStore, hw] using this

/-- authz_valid_cause over histories: in every reachable store a valid authorization has a valid
    challenge among its own; new authorizations start pending (`Grow`), so validity always
    arose by the step above -/
theorem authz_valid_cause_history (h : List Req) (i : Nat) (a : Authz)
    (ha : (run h).authzs[i]? = some a) (hv : a.status = .valid) :
    ∃ c ∈ a.chals, chalValid (run h) c = true :=
  (inv_run h).azCause i a ha hv

/-- **order_ready_cause** (the request in which it happens): an order turns ready only from
    pending, at a time not after its expiry, and with every one of its authorizations valid. -/
theorem order_ready_cause (d : Deny) (s : Store) (op : Op) (i : Nat) (o o' : Order)
    (h : s.orders[i]? = some o) (h' : (step d s op).1.orders[i]? = some o')
    (hn : o.status ≠ .ready) (hr : o'.status = .ready) :
    o.status = .pending ∧ op.now ≤ o.expires ∧ ∀ a ∈ o.authzs, validAz (step d s op).1 a := by
  obtain ⟨o'', h'', _, _, _, j⟩ := (step_old d s op).order i o h
  rw [h'] at h''; cases h''
  rcases j with ⟨e, _⟩ | ⟨_, q, _⟩ | ⟨p, _, _, r, w⟩ | ⟨q, _⟩
  · exact absurd (e ▸ hr) hn
  · rw [hr] at q; cases q
  · exact ⟨p, r, w⟩
  · rw [hr] at q; cases q

/-- order_ready_cause over histories: in every reachable store the authorizations of a ready
    (or valid) order are all valid -/
theorem order_ready_cause_history (h : List Req) (i : Nat) (o : Order)
    (ho : (run h).orders[i]? = some o) (hs : o.status = .ready ∨ o.status = .valid) :
    ∀ a ∈ o.authzs, validAz (run h) a :=
  (inv_run h).ordCause i o ho hs

/-- **order_valid_cause**: an order turns valid only in a finalize request of its own account,
    with matching CSR and successful signing, at a time not after its expiry, from ready (or
    from pending with every authorization valid, the request computing ready first), and exactly
    one certificate for this order is stored in that request. -/
theorem order_valid_cause (d : Deny) (s : Store) (op : Op) (i : Nat) (o o' : Order)
    (h : s.orders[i]? = some o) (h' : (step d s op).1.orders[i]? = some o')
    (hn : o.status ≠ .valid) (hv : o'.status = .valid) :
    (∃ k, op = .finalize o.acct i op.now k true true false ∧
      keyGate (orderFp (step d s op).1 o) o.attested k = true) ∧ op.now ≤ o.expires ∧
    (o.status = .ready ∨ (o.status = .pending ∧ ∀ a ∈ o.authzs, validAz (step d s op).1 a)) ∧
    (step d s op).1.certs = s.certs ++ [⟨i, o.acct⟩] ∧ o'.cert = some s.certs.length := by
  obtain ⟨o'', h'', _, _, _, j⟩ := (step_old d s op).order i o h
  rw [h'] at h''; cases h''
  rcases j with ⟨e, _⟩ | ⟨_, q, _⟩ | ⟨_, q, _⟩ | ⟨_, a, b, c, d, e⟩
  · exact absurd (e ▸ hv) hn
  · rw [hv] at q; cases q
  · rw [hv] at q; cases q
  · exact ⟨a, b, c, e, d⟩

/-! ### the Wire token store and the finalization of Wire orders -/

theorem authzUpdate_tokens (d : Deny) (s : Store) (a now : Nat) : (authzUpdate d s a now).1.tokens = s.tokens := by
  unfold authzUpdate
  repeat' split
  all_goals first | rfl | simp [setAuthz]

theorem authzLoop_tokens (d : Deny) (now : Nat) : ∀ (as : List Nat) (s : Store), (authzLoop d s now as).1.tokens = s.tokens := by
  intro as
  induction as with
  | nil => intro s; rfl
  | cons a as ih =>
    intro s
    unfold authzLoop
    have t1 := authzUpdate_tokens d s a now
    cases h1 : authzUpdate d s a now with
    | mk s1 r =>
      rw [h1] at t1
      cases r with
      | none => exact t1
      | some st =>
        simp only
        have t2 := ih s1
        cases h2 : authzLoop d s1 now as with
        | mk s2 r' =>
          rw [h2] at t2
          cases r' <;> exact t2.trans t1

theorem orderUpdate_tokens (d : Deny) (s : Store) (o now : Nat) : (orderUpdate d s o now).1.tokens = s.tokens := by
  unfold orderUpdate
  cases h : s.orders[o]? with
  | none => rfl
  | some ord =>
    simp only
    cases ord.status with
    | invalid => rfl
    | valid => rfl
    | ready => simp only; repeat' split
               all_goals first | rfl | simp [setOrder]
    | pending =>
      simp only
      split
      · split
        · rfl
        · simp [setOrder]
      · have t := authzLoop_tokens d now ord.authzs s
        cases hl : authzLoop d s now ord.authzs with
        | mk s1 r =>
          rw [hl] at t
          cases r with
          | none => exact t
          | some sts =>
            simp only
            repeat' split
            all_goals first | exact t | simpa [setOrder] using t

/-- **wire_order_valid_tokens**: a Wire order turns valid only when an OIDC token and a DPoP token
    are filed under this very order (the tokens `Finalize` puts into the certificate template).
    Which challenges' tokens they are is observation W1: `wire` files a token under the account's
    last listed order, not under the order of the challenge that was answered. -/
theorem wire_order_valid_tokens (d : Deny) (s : Store) (op : Op) (i : Nat) (o o' : Order)
    (h : s.orders[i]? = some o) (h' : (step d s op).1.orders[i]? = some o')
    (hn : o.status ≠ .valid) (hv : o'.status = .valid) (hw : o.wire = true) :
    s.tokens.contains (i, true) = true ∧ s.tokens.contains (i, false) = true := by
  obtain ⟨⟨k, hop, _⟩, _, _, hc, _⟩ := order_valid_cause d s op i o o' h h' hn hv
  have hne : ∀ (l : List Cert) (x : Cert), l ≠ l ++ [x] := by
    intro l x e
    have := congrArg List.length e
    simp at this
  cases op with
  | finalize a oi n k' c g u =>
    injection hop with e1 e2 e3 e4 e5 e6 e7
    subst e2
    simp only [step] at hc
    unfold finalize at hc
    rw [h] at hc
    simp only at hc
    split at hc
    · exact absurd hc (hne _ _)
    have u := (orderUpdate_upd d s oi n).1
    have t := orderUpdate_tokens d s oi n
    cases hu : orderUpdate d s oi n with
    | mk s1 r =>
      rw [hu] at hc u t
      have hcs : s1.certs ≠ s.certs ++ [⟨oi, o.acct⟩] := by rw [u.certs]; exact hne _ _
      cases r with
      | none => exact absurd hc hcs
      | some st =>
        cases st with
        | pending => exact absurd hc hcs
        | valid => exact absurd hc hcs
        | invalid => exact absurd hc hcs
        | ready =>
          simp only at hc
          split at hc
          · exact absurd hc hcs
          split at hc
          · exact absurd hc hcs
          rename_i hgate
          simp only [hw, Bool.true_and, Bool.not_eq_true, Bool.not_eq_false'] at hgate
          dsimp only at t
          rw [t] at hgate
          simpa using hgate
  | _ => cases hop


/-- the honest Wire run: both challenges answered, both tokens under the order, finalize -/
example :
    let h : List Req := [(.none, .newOrder 0 0 [(1, false), (1, false)] true), (.none, .wire 0 0 1 false .success),
      (.none, .wire 0 1 2 true .success)]
    (run h).orders[0]?.map (·.status) = some .ready ∧ (run h).tokens = [(0, true), (0, false)] ∧
    (step .none (run h) (.finalize 0 0 3 0 true true false)).2 = .ok .valid := by decide

/-- **wire_tokens_misfiled** (observation W1 in the model, reproduced on the real code): with two
    open Wire orders of one account the tokens of order 0's challenges are filed under order 1;
    order 1's own OIDC response is answered 500 (its challenge is valid nevertheless), order 0 is
    ready and can never be finalized, order 1 is finalized with the tokens of order 0's challenges
    once its own challenges are valid. -/
theorem wire_tokens_misfiled :
    let w : List (Nat × Bool) := [(1, false), (1, false)]
    let h : List Req := [(.none, .newOrder 0 0 w true), (.none, .newOrder 0 1 w true),
      (.none, .wire 0 0 2 false .success), (.none, .wire 0 1 3 true .success)]
    (run h).orders.map (·.status) = [.ready, .pending] ∧ (run h).tokens = [(1, true), (1, false)] ∧
    (step .none (run h) (.finalize 0 0 4 0 true true false)).2 = .malformed ∧
    (step .none (run h) (.wire 0 2 4 false .success)).2 = .ise ∧
    (step .none (run h) (.wire 0 2 4 false .success)).1.chals.map (·.status) = [.valid, .valid, .valid, .pending] ∧
    let h2 := h ++ [(.none, .wire 0 2 4 false .success), (.none, .wire 0 3 5 true .success)]
    (step .none (run h2) (.finalize 0 1 6 0 true true false)).2 = .ok .valid := by decide

/-- faults inside new-order and inside a Wire response (all covered by `step_old`, `inv_single_fault`,
    `terminal_absorbing`, which quantify over every `Deny`): a failing create write leaves objects no
    order refers to and nothing else; a failing index write takes the new order away again but not
    the status updates of the account's other orders made on the way; a failing token write leaves
    the Wire challenge valid. -/
theorem new_order_faults :
    let two : List (Nat × Bool) := [(3, false), (2, false)]
    -- the authorization of the first identifier cannot be stored: its three challenges stay
    ((step (.create 3) {} (.newOrder 0 0 two false)).1.chals.length = 3 ∧
     (step (.create 3) {} (.newOrder 0 0 two false)).1.authzs.length = 0 ∧
     (step (.create 3) {} (.newOrder 0 0 two false)).2 = .ise) ∧
    -- the order itself cannot be stored: both authorizations stay, no order, no index entry
    ((step (.create 7) {} (.newOrder 0 0 two false)).1.authzs.length = 2 ∧
     (step (.create 7) {} (.newOrder 0 0 two false)).1.orders = [] ∧
     (step (.create 8) {} (.newOrder 0 0 two false)).2 = .created 0) ∧
    -- index write fails: an older order of the account is still updated (here: expired), the new one is gone
    (let h : List Req := [(.none, .newOrder 0 0 [(1, false)] false)]
     (step .index (run h) (.newOrder 0 90000 [(1, false)] false)).2 = .ise ∧
     (step .index (run h) (.newOrder 0 90000 [(1, false)] false)).1.orders.map (·.status) = [.invalid] ∧
     (step .index (run h) (.newOrder 0 90000 [(1, false)] false)).1.authzs.length = 2) ∧
    -- token write fails: 500, the challenge is valid and stays valid
    (let h : List Req := [(.none, .newOrder 0 0 [(1, false), (1, false)] true)]
     (step .token (run h) (.wire 0 0 1 false .success)).2 = .ise ∧
     (step .token (run h) (.wire 0 0 1 false .success)).1.chals.map (·.status) = [.valid, .pending] ∧
     (step .token (run h) (.wire 0 0 1 false .success)).1.tokens = []) := by decide

/-- **cert_only_in_transition**: unless the last write of a finalization fails, a request leaves
    the certificate table unchanged, or adds exactly one certificate, for an order that turns
    valid in this very request. (Every other storage fault is covered.) -/
theorem cert_only_in_transition (d : Deny) (s : Store) (op : Op)
    (ff : Req.finalWriteFails (d, op) = false) :
    (step d s op).1.certs = s.certs ∨
    ∃ i o o', s.orders[i]? = some o ∧ (step d s op).1.orders[i]? = some o' ∧
      o.status ≠ .valid ∧ o'.status = .valid ∧ (step d s op).1.certs = s.certs ++ [⟨i, o.acct⟩] := by
  rcases (step_old d s op).certs with e | ⟨i, o, ho, hc, ⟨o', ho', a, b⟩ | f⟩
  · exact .inl e
  · exact .inr ⟨i, o, o', ho, ho', a, b, hc⟩
  · rw [ff] at f; cases f

/-- **cert_iff_transition**: after any history in which no finalization lost its last write
    (in particular after every fault-free history), an order has exactly one certificate if it is
    valid and none otherwise (so: as many certificates as transitions into valid, at most one). -/
theorem cert_iff_transition (h : List Req) (ff : h.all (fun r => !r.finalWriteFails) = true)
    (i : Nat) (o : Order) (ho : (run h).orders[i]? = some o) :
    certsOf (run h) i = (if o.status = .valid then 1 else 0) ∧ certsOf (run h) i ≤ 1 := by
  have := (certInv_run h ff).count i o ho
  refine ⟨this, ?_⟩
  rw [this]; split <;> simp

theorem faultFree_finalWrite (r : Req) (h : r.faultFree = true) : r.finalWriteFails = false := by
  obtain ⟨d, op⟩ := r
  cases op <;> simp [Req.faultFree, Req.finalWriteFails] at h ⊢
  rename_i acct o now c g u
  exact ⟨h.2, by rw [h.1]; simp⟩

/-- the property's own quantifier: fault-free histories -/
theorem cert_iff_transition_faultFree (h : List Req) (ff : h.all Req.faultFree = true)
    (i : Nat) (o : Order) (ho : (run h).orders[i]? = some o) :
    certsOf (run h) i = (if o.status = .valid then 1 else 0) ∧ certsOf (run h) i ≤ 1 := by
  refine cert_iff_transition h ?_ i o ho
  rw [List.all_eq_true] at ff ⊢
  intro r hr
  simp [faultFree_finalWrite r (ff r hr)]

/-- outside the property's quantifier: when the final `UpdateOrder` of a finalization fails, the
    certificate is already stored and the order is still ready; finalizing again stores a second
    certificate for the same order. Both ways of losing that write are shown. -/
theorem fault_double_certificate :
    (∃ h : List Req, certsOf (run h) 0 = 2 ∧ h.all (fun r => !r.finalWriteFails) = false) ∧
    (certsOf (run [(.none, .newOrder 0 0 [(1, false)] false), (.none, .respond 0 0 1 .success), (.none, .getOrder 0 0 2),
        (.order 0, .finalize 0 0 3 1 true true false), (.none, .finalize 0 0 4 1 true true false)]) 0 = 2) :=
  ⟨⟨[(.none, .newOrder 0 0 [(1, false)] false), (.none, .respond 0 0 1 .success), (.none, .finalize 0 0 2 1 true true true),
    (.none, .finalize 0 0 3 1 true true false)], by decide, by decide⟩, by decide⟩

/-- every order, authorization and challenge starts pending: the empty history has no objects and a
    request only appends pending ones (`Grow`) -/
theorem new_objects_pending (d : Deny) (s : Store) (acct now : Nat) (nch : List (Nat × Bool)) (wr : Bool) :
    ∃ s2, Grow s s2 ∧ Upd now s2 (step d s (.newOrder acct now nch wr)).1 := newOrder_grow d s acct now nch wr

/-! ### the hypotheses are met by ordinary histories -/

/-- a full happy path: two identifiers, both authorizations validated, order ready, finalized -/
def happy : List Req :=
  [.newOrder 0 100 [(3, false), (2, false)] false, .respond 0 1 101 .success, .respond 0 3 102 .success,
   .getOrder 0 0 103, .finalize 0 0 104 1 true true false].map (fun op => (Deny.none, op))

example : (run happy).orders[0]?.map (·.status) = some .valid ∧ certsOf (run happy) 0 = 1 := by decide
example : (run (happy.take 4)).orders[0]?.map (·.status) = some .ready := by decide
example : (run (happy.take 3)).authzs[1]?.map (·.status) = some .pending ∧
    (run (happy.take 4)).authzs[1]?.map (·.status) = some .valid := by decide
/-- exactly at the expiry the order is still usable, one second later it is invalid -/
example : (run ([.newOrder 0 0 [(1, false)] false, .respond 0 0 5 .success, .getOrder 0 0 lifetime].map (fun op => (Deny.none, op)))).orders[0]?.map (·.status) = some .ready := by decide
example : (run ([.newOrder 0 0 [(1, false)] false, .respond 0 0 5 .success, .getOrder 0 0 (lifetime + 1)].map (fun op => (Deny.none, op)))).orders[0]?.map (·.status) = some .invalid := by decide
/-- a second finalize of a valid order signs nothing -/
example : certsOf (run (happy ++ [(.none, .finalize 0 0 105 1 true true false)])) 0 = 1 := by decide
/-- a failed authorization write during an order evaluation: the order is not ready, the request
    fails, nothing is stored; the next evaluation succeeds -/
example : (run [(.none, .newOrder 0 0 [(1, false)] false), (.none, .respond 0 0 1 .success), (.authz 0, .getOrder 0 0 2)]).orders[0]?.map (·.status) = some .pending ∧
    (run [(.none, .newOrder 0 0 [(1, false)] false), (.none, .respond 0 0 1 .success), (.authz 0, .getOrder 0 0 2), (.none, .getOrder 0 0 3)]).orders[0]?.map (·.status) = some .ready := by decide

/-! ## ownership (used by C13: "backed by a valid authorization of the same account") -/

/-- ownership: the authorizations of an order and the challenges of an authorization exist and
    belong to the same account -/
structure Own (s : Store) : Prop where
  ord : ∀ (i : Nat) (o : Order), s.orders[i]? = some o → ∀ a ∈ o.authzs,
    ∃ az, s.authzs[a]? = some az ∧ az.acct = o.acct
  az : ∀ (a : Nat) (az : Authz), s.authzs[a]? = some az → ∀ c ∈ az.chals,
    ∃ ch, s.chals[c]? = some ch ∧ ch.acct = az.acct

theorem own_old {d : Deny} {op : Op} {s s' : Store} (W : Own s) (o : Old d op s s') (l : SameLen s s') : Own s' := by
  constructor
  · intro i o' h' a ha
    obtain ⟨o0, h⟩ := some_of_len l.orders h'
    obtain ⟨o'', h'', ac, _, zs, _⟩ := o.order i o0 h
    rw [h'] at h''; cases h''
    rw [zs] at ha
    obtain ⟨az, haz, hac⟩ := W.ord i o0 h a ha
    obtain ⟨az', haz', ac', _⟩ := o.authz a az haz
    exact ⟨az', haz', by rw [ac', hac, ac]⟩
  · intro a az' h' c hc
    obtain ⟨az, h⟩ := some_of_len l.authzs h'
    obtain ⟨az'', h'', ac, _, cs, _⟩ := o.authz a az h
    rw [h'] at h''; cases h''
    rw [cs] at hc
    obtain ⟨ch, hch, hac⟩ := W.az a az h c hc
    obtain ⟨ch', hch', ac', _⟩ := o.chal c ch hch
    exact ⟨ch', hch', by rw [ac', hac, ac]⟩

theorem own_grow_weak {s s' : Store} (W : Own s) (g : Grow s s') :
    (∀ (i : Nat) (o : Order), s.orders[i]? = some o → ∀ a ∈ o.authzs, ∃ az, s'.authzs[a]? = some az ∧ az.acct = o.acct) ∧
    (∀ (a : Nat) (az : Authz), s.authzs[a]? = some az → ∀ c ∈ az.chals, ∃ ch, s'.chals[c]? = some ch ∧ ch.acct = az.acct) :=
  ⟨fun i o h a ha => by
      obtain ⟨az, haz, hac⟩ := W.ord i o h a ha
      exact ⟨az, get_of_grow_authz g haz, hac⟩,
   fun a az h c hc => by
      obtain ⟨ch, hch, hac⟩ := W.az a az h c hc
      exact ⟨ch, get_of_grow_chal g hch, hac⟩⟩

/-- one iteration of newAuthorization: `n` challenges, then the authorization -/
def addAuthz (s : Store) (acct exp n : Nat) (att : Bool) : Store :=
  { s with
    chals := s.chals ++ List.replicate n ({ acct := acct, status := .pending, attest := att } : Chal)
    authzs := s.authzs ++ [({ acct := acct, status := .pending, expires := exp, chals := List.range' s.chals.length n } : Authz)] }

theorem createAuthzs_cons (s : Store) (acct exp n : Nat) (att : Bool) (ns : List (Nat × Bool)) :
    createAuthzs s acct exp ((n, att) :: ns) =
      ((createAuthzs (addAuthz s acct exp n att) acct exp ns).1,
       s.authzs.length :: (createAuthzs (addAuthz s acct exp n att) acct exp ns).2) := by
  simp [createAuthzs, addAuthz]

theorem addAuthz_grow (s : Store) (acct exp n : Nat) (att : Bool) : Grow s (addAuthz s acct exp n att) := by
  refine ⟨⟨_, rfl, ?_⟩, ⟨_, rfl, ?_⟩, ⟨[], by simp [addAuthz]⟩, rfl⟩
  · intro c hc; rw [List.eq_of_mem_replicate hc]
  · intro a ha; simp at ha; rw [ha]

theorem addAuthz_own (s : Store) (acct exp n : Nat) (att : Bool) (W : Own s) : Own (addAuthz s acct exp n att) := by
  obtain ⟨w1, w2⟩ := own_grow_weak W (addAuthz_grow s acct exp n att)
  constructor
  · intro i o h a ha
    exact w1 i o h a ha
  · intro a az h c hc
    have ha2 : (addAuthz s acct exp n att).authzs = s.authzs ++ [({ acct := acct, status := .pending, expires := exp, chals := List.range' s.chals.length n } : Authz)] := rfl
    rw [ha2] at h
    rcases Nat.lt_or_ge a s.authzs.length with hl | hl
    · rw [List.getElem?_append_left hl] at h
      exact w2 a az h c hc
    · rw [List.getElem?_append_right hl] at h
      have haz : az = ({ acct := acct, status := .pending, expires := exp, chals := List.range' s.chals.length n } : Authz) := by
        have := List.mem_of_getElem? h; simpa using this
      subst haz
      simp [List.mem_range'_1] at hc
      have hc2 : (addAuthz s acct exp n att).chals = s.chals ++ List.replicate n ({ acct := acct, status := .pending, attest := att } : Chal) := rfl
      refine ⟨{ acct := acct, status := .pending, attest := att }, ?_, rfl⟩
      rw [hc2, List.getElem?_append_right hc.1]
      simp [List.getElem?_replicate]; omega

theorem createAuthzs_own (acct exp : Nat) : ∀ (ns : List (Nat × Bool)) (s : Store), Own s →
    Own (createAuthzs s acct exp ns).1 ∧ (createAuthzs s acct exp ns).1.orders = s.orders ∧
    ∀ a ∈ (createAuthzs s acct exp ns).2, ∃ az, (createAuthzs s acct exp ns).1.authzs[a]? = some az ∧ az.acct = acct := by
  intro ns
  induction ns with
  | nil => intro s W; exact ⟨W, rfl, by simp [createAuthzs]⟩
  | cons n ns ih =>
    intro s W
    obtain ⟨n, att⟩ := n
    rw [createAuthzs_cons]
    obtain ⟨W3, ho3, hall⟩ := ih _ (addAuthz_own s acct exp n att W)
    have gg := createAuthzs_grow acct exp ns (addAuthz s acct exp n att)
    have hnew : (addAuthz s acct exp n att).authzs[s.authzs.length]? = some ({ acct := acct, status := .pending, expires := exp, chals := List.range' s.chals.length n } : Authz) := by simp [addAuthz]
    refine ⟨W3, ho3, ?_⟩
    intro a ha
    rcases List.mem_cons.mp ha with rfl | ha
    · exact ⟨_, get_of_grow_authz gg hnew, rfl⟩
    · exact hall a ha


theorem addChals_own (s : Store) (acct : Nat) (ex : Option (Nat × Bool)) (W : Own s) : Own (addChals s acct ex) := by
  cases ex with
  | none => exact W
  | some p =>
    obtain ⟨m, att⟩ := p
    constructor
    · intro i o h a ha
      exact W.ord i o h a ha
    · intro a az h c hc
      obtain ⟨ch, hch, e⟩ := W.az a az h c hc
      refine ⟨ch, ?_, e⟩
      simp only [addChals]
      rw [List.getElem?_append_left (lt_of_getElem? hch)]
      exact hch

theorem own_step (d : Deny) (s : Store) (op : Op) (W : Own s) : Own (step d s op).1 := by
  by_cases h : ∃ acct now nch wr, op = .newOrder acct now nch wr
  · obtain ⟨acct, now, nch, wr, rfl⟩ := h
    simp only [step]
    unfold newOrder
    split
    · exact W
    simp only
    cases hf : createFault d nch with
    | some pe =>
      obtain ⟨pre, extra⟩ := pe
      exact addChals_own _ acct extra (createAuthzs_own acct (now + lifetime) pre s W).1
    | none =>
    simp only
    obtain ⟨W1, ho1, hall⟩ := createAuthzs_own acct (now + lifetime) nch s W
    have g1 := createAuthzs_grow acct (now + lifetime) nch s
    cases hc : createAuthzs s acct (now + lifetime) nch with
    | mk s1 azs =>
      rw [hc] at W1 ho1 hall g1
      dsimp only at W1 ho1 hall g1 ⊢
      split
      · have u := pollLoop_upd d now false ((indexOf s1 acct).getD []) s1
        exact own_old (d := d) (op := .newOrder acct now nch wr) W1 (old_of_upd u) (sameLen_of_upd u)
      have W2 : Own { s1 with orders := s1.orders ++
          [({ acct := acct, status := .pending, expires := now + lifetime, authzs := azs, cert := none, attested := nch.any (·.2), wire := wr } : Order)] } := by
        constructor
        · intro i o h a ha
          dsimp only at h
          rcases Nat.lt_or_ge i s1.orders.length with hl | hl
          · rw [List.getElem?_append_left hl] at h
            exact W1.ord i o h a ha
          · rw [List.getElem?_append_right hl] at h
            have : o = ({ acct := acct, status := .pending, expires := now + lifetime, authzs := azs, cert := none, attested := nch.any (·.2), wire := wr } : Order) := by
              have := List.mem_of_getElem? h; simpa using this
            subst this
            exact hall a ha
        · exact W1.az
      have u := pollIndex_upd d { s1 with orders := s1.orders ++
          [({ acct := acct, status := .pending, expires := now + lifetime, authzs := azs, cert := none, attested := nch.any (·.2), wire := wr } : Order)] }
        acct now false [s1.orders.length]
      cases hp : pollIndex d { s1 with orders := s1.orders ++
          [({ acct := acct, status := .pending, expires := now + lifetime, authzs := azs, cert := none, attested := nch.any (·.2), wire := wr } : Order)] }
        acct now false [s1.orders.length] with
      | mk s3 r =>
        rw [hp] at u
        dsimp only at u
        have : Own s3 := own_old (d := d) (op := .newOrder acct now nch wr) W2 (old_of_upd u) (sameLen_of_upd u)
        cases r <;> exact this
  · exact own_old W (step_old d s op) (step_len d s op (fun a n k w e => h ⟨a, n, k, w, e⟩))

/-- **authz_owner**: after every history, the authorizations of an order exist and belong to the
    order's account, and the challenges of an authorization exist and belong to its account. -/
theorem authz_owner (h : List Req) : Own (run h) :=
  run_induction Own ⟨by intro i o h; simp at h, by intro a az h; simp at h⟩ own_step h

/-- C13's "each identifier is backed by a valid authorization of the same account": after every
    history, every authorization of a ready or valid order is valid and owned by the order's account. -/
theorem finalizable_order_authorizations (h : List Req) (i : Nat) (o : Order)
    (ho : (run h).orders[i]? = some o) (hs : o.status = .ready ∨ o.status = .valid) :
    ∀ a ∈ o.authzs, ∃ az, (run h).authzs[a]? = some az ∧ az.status = .valid ∧ az.acct = o.acct := by
  intro a ha
  obtain ⟨az, haz, hv⟩ := order_ready_cause_history h i o ho hs a ha
  obtain ⟨az', haz', hac⟩ := (authz_owner h).ord i o ho a ha
  rw [haz] at haz'; cases haz'
  exact ⟨az, haz, hv, hac⟩

/-- **inv_single_fault**: which clauses survive storage faults. For every history in which any
    request may run under any `Deny` fault, with the `dbError` verdict or with a failing final
    `UpdateOrder` (arbitrarily many faults, not only one):
    (1) every valid authorization has a valid challenge of its own,
    (2) every ready or valid order has only valid authorizations,
    (3) ownership is intact,
    (4) terminal statuses are absorbing (`terminal_absorbing`, proved for every `d`);
    and if no finalization lost its last write, also
    (5) certificates per order = 1 if valid else 0.
    Only (5) needs that hypothesis: `fault_double_certificate`. -/
theorem inv_single_fault (h : List Req) :
    Inv (run h) ∧ Own (run h) ∧
    (h.all (fun r => !r.finalWriteFails) = true → CertInv (run h)) :=
  ⟨inv_run h, authz_owner h, certInv_run h⟩

/-! ## the attested key fingerprint -/

/-- why an authorization's recorded key may differ after a request: only through a device-attest-01
    response with a valid attestation of key `k`, sent through this authorization's URL by the
    account that owns both the (pending, device-attest) challenge answered and this authorization -/
def FpJust (op : Op) (s : Store) (i : Nat) (az az' : Authz) : Prop :=
  az'.fp = az.fp ∨
  ∃ acct c now out k ch, op = .attest acct c i now out ∧ out.key = some k ∧ az'.fp = some k ∧
      s.chals[c]? = some ch ∧ ch.attest = true ∧ ch.status = .pending ∧ ch.acct = acct ∧ az.acct = acct ∧
      (az.chals = [] ∨ c ∈ az.chals)

theorem respond_authzs (d : Deny) (s : Store) (acct c : Nat) (out : Outcome) :
    (respond d s acct c out).1.authzs = s.authzs := by
  unfold respond
  repeat' split
  all_goals rfl

theorem getAuthz_upd (d : Deny) (s : Store) (acct a now : Nat) : Upd now s (getAuthz d s acct a now).1 := by
  unfold getAuthz
  split
  · exact Upd.refl _ _
  split
  · exact Upd.refl _ _
  have u := (authzUpdate_upd d s a now).1
  cases h : authzUpdate d s a now with
  | mk s1 r => rw [h] at u; cases r <;> exact u

theorem getOrder_upd (d : Deny) (s : Store) (acct o now : Nat) : Upd now s (getOrder d s acct o now).1 := by
  unfold getOrder
  split
  · exact Upd.refl _ _
  split
  · exact Upd.refl _ _
  have u := (orderUpdate_upd d s o now).1
  cases h : orderUpdate d s o now with
  | mk s1 r => rw [h] at u; cases r <;> exact u

theorem listOrders_upd (d : Deny) (s : Store) (acct url now : Nat) : Upd now s (listOrders d s acct url now).1 := by
  unfold listOrders
  split
  · exact Upd.refl _ _
  have u := pollIndex_upd d s acct now false []
  cases h : pollIndex d s acct now false [] with
  | mk s1 r => rw [h] at u; cases r <;> exact u

theorem finalize_authzs (d : Deny) (s : Store) (acct o now : Nat) (k : Nat) (c g u : Bool) :
    ∃ s1, Upd now s s1 ∧ (finalize d s acct o now k c g u).1.authzs = s1.authzs := by
  have hu := (orderUpdate_upd d s o now).1
  unfold finalize
  cases ho : s.orders[o]? with
  | none => exact ⟨s, Upd.refl _ _, rfl⟩
  | some ord =>
    simp only
    split
    · exact ⟨s, Upd.refl _ _, rfl⟩
    cases h : orderUpdate d s o now with
    | mk s1 r =>
      rw [h] at hu
      dsimp only at hu
      refine ⟨s1, hu, ?_⟩
      cases r with
      | none => rfl
      | some st =>
        cases st <;> simp only
        repeat' split
        all_goals first | rfl | simp [setOrder]

theorem step_fp (d : Deny) (s : Store) (op : Op) (i : Nat) (az : Authz) (h : s.authzs[i]? = some az) :
    ∃ az', (step d s op).1.authzs[i]? = some az' ∧ FpJust op s i az az' := by
  have ofUpd : ∀ {now : Nat} {s' : Store}, Upd now s s' → ∃ az', s'.authzs[i]? = some az' ∧ FpJust op s i az az' := by
    intro now s' u
    obtain ⟨az', h', e⟩ := u.fp i az h
    exact ⟨az', h', .inl e⟩
  cases op with
  | newOrder acct now nch wr =>
    obtain ⟨s2, g, u⟩ := newOrder_grow d s acct now nch wr
    obtain ⟨az', h', e⟩ := u.fp i az (get_of_grow_authz g h)
    exact ⟨az', h', .inl e⟩
  | respond acct c now out =>
    exact ⟨az, by simp only [step]; rw [respond_authzs]; exact h, .inl rfl⟩
  | wire acct c now dp out =>
    obtain ⟨az', h', e⟩ := (wire_split d s acct c now dp out).fp i az (by rw [respond_authzs]; exact h)
    exact ⟨az', h', .inl e⟩
  | getAuthz acct a now => exact ofUpd (getAuthz_upd d s acct a now)
  | getOrder acct o now => exact ofUpd (getOrder_upd d s acct o now)
  | listOrders acct u now => exact ofUpd (listOrders_upd d s acct u now)
  | finalize acct o now k c g u =>
    obtain ⟨s1, us, e⟩ := finalize_authzs d s acct o now k c g u
    obtain ⟨az', h', ef⟩ := us.fp i az h
    exact ⟨az', by simp only [step]; rw [e]; exact h', .inl ef⟩
  | attest acct c a now out =>
    have same : ∃ az', s.authzs[i]? = some az' ∧ FpJust (.attest acct c a now out) s i az az' := ⟨az, h, .inl rfl⟩
    simp only [step]
    unfold attest
    cases hc : s.chals[c]? with
    | none => exact same
    | some ch =>
      simp only
      split
      · exact same
      rename_i hacct
      split
      · exact same
      rename_i hst
      split
      · rw [respond_authzs]; exact same
      rename_i hatt
      cases haz : s.authzs[a]? with
      | none => exact same
      | some azr =>
        simp only
        split
        · exact same
        split
        · exact same
        rename_i hown
        split
        · exact same
        rename_i hmine
        cases hk : out.key with
        | none =>
          simp only
          cases out <;> simp only
          · exact same
          · exact same
          · split
            · exact same
            · exact ⟨az, by simpa [setChal] using h, .inl rfl⟩
          · exact same
          · exact same
        | some k =>
          simp only
          have fpw : ∃ az', (setFp s a azr k).authzs[i]? = some az' ∧ FpJust (.attest acct c a now out) s i az az' := by
            have hlt := lt_of_getElem? haz
            by_cases e : a = i
            · subst e
              rw [haz] at h; cases h
              refine ⟨{ az with fp := some k }, by simp [setFp, hlt], .inr ⟨acct, c, now, out, k, ch, rfl, hk, rfl, hc,
                by simpa using hatt, by simpa using hst, by simpa using hacct, ?_, ?_⟩⟩
              · have h1 : az.acct = ch.acct := by simpa using hown
                have h2 : ch.acct = acct := by simpa using hacct
                rw [h1, h2]
              · by_cases he : az.chals = []
                · exact .inl he
                · right
                  simpa [he] using hmine
            · exact ⟨az, by simp [setFp, List.getElem?_set_ne e, h], .inl rfl⟩
          split
          · exact same
          split
          · exact fpw
          · obtain ⟨az', h', j⟩ := fpw
            exact ⟨az', by simpa [setChal] using h', j⟩

/-- **fp_cause** (every store, request and fault): the key recorded on an authorization changes
    only in a device-attest-01 response with a valid attestation of that key, sent through this
    authorization's URL by the account that owns the authorization and the pending device-attest
    challenge answered, and (since /repo e055659) the challenge is one of this authorization's own
    challenges unless the authorization has none (such an authorization can never become valid). -/
theorem fp_cause (d : Deny) (s : Store) (op : Op) (i : Nat) (az az' : Authz)
    (h : s.authzs[i]? = some az) (h' : (step d s op).1.authzs[i]? = some az') (hn : az'.fp ≠ az.fp) :
    ∃ acct c now out k ch, op = .attest acct c i now out ∧ out.key = some k ∧ az'.fp = some k ∧
      s.chals[c]? = some ch ∧ ch.attest = true ∧ ch.status = .pending ∧ ch.acct = acct ∧ az.acct = acct ∧
      (az.chals = [] ∨ c ∈ az.chals) := by
  obtain ⟨az'', h'', j⟩ := step_fp d s op i az h
  rw [h'] at h''; cases h''
  rcases j with e | w
  · exact absurd e hn
  · exact w

theorem orderFp_some {s : Store} {o : Order} {k : Nat} (h : orderFp s o = some k) :
    ∃ a ∈ o.authzs, ∃ az, s.authzs[a]? = some az ∧ az.fp = some k := by
  unfold orderFp at h
  obtain ⟨a, ha, e⟩ := List.exists_of_findSome?_eq_some h
  cases haz : s.authzs[a]? with
  | none => simp [haz] at e
  | some az => exact ⟨a, ha, az, haz, by simpa [haz] using e⟩

/-- **attested_key** (every history, every fault; full strength since /repo 365cae8 + 4f1731b): an
    order with a permanent identifier turns valid only in a finalization whose CSR key is the key
    recorded on one of the order's own authorizations (the first that records one). -/
theorem attested_key (d : Deny) (s : Store) (op : Op) (i : Nat) (o o' : Order)
    (h : s.orders[i]? = some o) (h' : (step d s op).1.orders[i]? = some o')
    (hn : o.status ≠ .valid) (hv : o'.status = .valid) (hatt : o.attested = true) :
    ∃ k c g u, op = .finalize o.acct i op.now k c g u ∧ orderFp (step d s op).1 o = some k ∧
      ∃ a ∈ o.authzs, ∃ az, (step d s op).1.authzs[a]? = some az ∧ az.fp = some k := by
  obtain ⟨⟨k, hop, hg⟩, _⟩ := order_valid_cause d s op i o o' h h' hn hv
  rw [hatt] at hg
  cases hf : orderFp (step d s op).1 o with
  | none => simp [keyGate, hf] at hg
  | some k' =>
    simp [keyGate, hf] at hg
    subst hg
    exact ⟨k', true, true, false, hop, rfl, orderFp_some hf⟩

/-- **attested_key_own** (the attested-key clause at full strength, every history and fault, since
    /repo e055659): when an order with a permanent identifier turns valid after a history `h`, the
    CSR key is the key recorded on one of the order's own authorizations, that authorization is
    valid and has a valid challenge of its own; and (`fp_cause`) a key is recorded on an
    authorization that has challenges only by a valid attestation of that key sent, by the owning
    account, in response to one of THAT authorization's pending device-attest-01 challenges. -/
theorem attested_key_own (h : List Req) (d : Deny) (op : Op) (i : Nat) (o o' : Order)
    (ho : (run h).orders[i]? = some o) (ho' : (step d (run h) op).1.orders[i]? = some o')
    (hn : o.status ≠ .valid) (hv : o'.status = .valid) (hatt : o.attested = true) :
    (∃ k c g u, op = .finalize o.acct i op.now k c g u ∧
      ∃ a ∈ o.authzs, ∃ az, (step d (run h) op).1.authzs[a]? = some az ∧ az.fp = some k ∧
        az.status = .valid ∧ ∃ c ∈ az.chals, chalValid (step d (run h) op).1 c = true) ∧
    (∀ (s : Store) (d' : Deny) (op' : Op) (a : Nat) (az az' : Authz),
      s.authzs[a]? = some az → (step d' s op').1.authzs[a]? = some az' → az'.fp ≠ az.fp → az.chals ≠ [] →
      ∃ acct c now out k ch, op' = .attest acct c a now out ∧ out.key = some k ∧ az'.fp = some k ∧
        s.chals[c]? = some ch ∧ ch.attest = true ∧ ch.status = .pending ∧ ch.acct = acct ∧ az.acct = acct ∧
        c ∈ az.chals) := by
  constructor
  · obtain ⟨k, c, g, u, hop, _, a, ha, az, haz, hfp⟩ := attested_key d (run h) op i o o' ho ho' hn hv hatt
    have I : Inv (step d (run h) op).1 := inv_step d (run h) op (inv_run h)
    obtain ⟨_, _, hz, _⟩ : o'.acct = o.acct ∧ o'.expires = o.expires ∧ o'.authzs = o.authzs ∧ True := by
      obtain ⟨o'', h'', x, y, z, _⟩ := (step_old d (run h) op).order i o ho
      rw [ho'] at h''; cases h''
      exact ⟨x, y, z, trivial⟩
    obtain ⟨az2, haz2, hval⟩ := I.ordCause i o' ho' (.inr hv) a (hz ▸ ha)
    rw [haz] at haz2; cases haz2
    exact ⟨k, c, g, u, hop, a, ha, az, haz, hfp, hval, I.azCause a az haz hval⟩
  · intro s d' op' a az az' h1 h2 hne hch
    obtain ⟨acct, c, now, out, k, ch, e1, e2, e3, e4, e5, e6, e7, e8, e9⟩ := fp_cause d' s op' a az az' h1 h2 hne
    rcases e9 with e9 | e9
    · exact absurd e9 hch
    · exact ⟨acct, c, now, out, k, ch, e1, e2, e3, e4, e5, e6, e7, e8, e9⟩

/-- the state machine as it was before /repo e055659 (device-attest-01 responses could name any
    authorization of the account) -/
def stepHistoric (d : Deny) (s : Store) : Op → Store × Resp
  | .attest acct c az _ out => attestHistoric d s acct c az out
  | op => step d s op

def runHistoric (h : List Req) : Store := h.foldl (fun s r => (stepHistoric r.1 s r.2).1) {}

/-- **attested_key_swap_historic** (D15-swap, repaired in /repo e055659; both halves reproduced on
    the real code at the time): an account with two attested orders sent each attestation through the
    URL of the OTHER order's authorization; order 0 (its challenge answered with an attestation of key
    1) was refused with key 1 and finalized with key 2, the key attested for order 1's identifier.
    Now both responses are refused and nothing is recorded. -/
theorem attested_key_swap_historic :
    let h : List Req := [(.none, .newOrder 0 0 [(1, true)] false), (.none, .newOrder 0 1 [(1, true)] false),
      (.none, .attest 0 0 1 2 (.successKey 1)), (.none, .attest 0 1 0 3 (.successKey 2)),
      (.none, .getOrder 0 0 4)]
    ((runHistoric h).authzs.map (·.fp) = [some 2, some 1] ∧
     (step .none (runHistoric h) (.finalize 0 0 5 1 true true false)).2 = .unauthorized ∧
     (step .none (runHistoric h) (.finalize 0 0 5 2 true true false)).2 = .ok .valid) ∧
    -- repaired
    ((run h).authzs.map (·.fp) = [none, none] ∧ (run h).chals.map (·.status) = [.pending, .pending] ∧
     (step .none (run (h.take 2)) (.attest 0 0 1 2 (.successKey 1))).2 = .unauthorized) := by
  decide

/-- **fp_overwrite_valid_historic** (second shape of D15-swap, repaired in /repo e055659): the
    fingerprint write did not look at which authorization the URL named. Order 0 is attested honestly
    with key 1 and is ready; an attestation of key 2 for order 1's challenge, sent through the URL of
    order 0's (valid) authorization, replaced the recorded key: order 0 was then refused with the key
    attested for it and finalized with key 2. Now that response is answered 401, the recorded key
    stays, order 0 is finalized with key 1 only. -/
theorem fp_overwrite_valid_historic :
    let h : List Req := [(.none, .newOrder 0 0 [(1, true)] false), (.none, .attest 0 0 0 1 (.successKey 1)),
      (.none, .getOrder 0 0 2), (.none, .newOrder 0 3 [(1, true)] false)]
    (run h).authzs.map (fun a => (a.status, a.fp)) = [(.valid, some 1), (.pending, none)] ∧
    (run h).orders[0]?.map (·.status) = some .ready ∧
    let h' := h ++ [(.none, .attest 0 1 0 4 (.successKey 2))]
    ((runHistoric h').authzs.map (fun a => (a.status, a.fp)) = [(.valid, some 2), (.pending, none)] ∧
     (step .none (runHistoric h') (.finalize 0 0 5 1 true true false)).2 = .unauthorized ∧
     (step .none (runHistoric h') (.finalize 0 0 5 2 true true false)).2 = .ok .valid) ∧
    -- repaired
    ((step .none (run h) (.attest 0 1 0 4 (.successKey 2))).2 = .unauthorized ∧
     (run h').authzs.map (fun a => (a.status, a.fp)) = [(.valid, some 1), (.pending, none)] ∧
     (step .none (run h') (.finalize 0 0 5 2 true true false)).2 = .unauthorized ∧
     (step .none (run h') (.finalize 0 0 5 1 true true false)).2 = .ok .valid) := by
  decide

/-- the two repaired shapes: through another account's authorization the response is refused
    (365cae8); with the fingerprint on none of the order's authorizations the order cannot be
    finalized with any key (4f1731b) -/
example :
    let h : List Req := [(.none, .newOrder 0 0 [(1, true)] false), (.none, .newOrder 1 0 [(3, false)] false)]
    (step .none (run h) (.attest 0 0 1 1 .success)).2 = .unauthorized := by decide
example :
    let h : List Req := [(.none, .newOrder 0 0 [(1, true)] false), (.none, .newOrder 0 0 [(3, false)] false),
      (.none, .attest 0 0 1 1 .success), (.none, .getOrder 0 0 2)]
    (runHistoric h).orders[0]?.map (·.status) = some .ready ∧
    (step .none (runHistoric h) (.finalize 0 0 3 0 true true false)).2 = .unauthorized ∧
    (step .none (runHistoric h) (.finalize 0 0 3 1 true true false)).2 = .unauthorized ∧
    -- (since e055659 the response itself is refused and the order stays pending)
    (run h).orders[0]?.map (·.status) = some .pending := by decide

/-- the honest run: attestation through the order's own authorization, then only the attested key -/
example :
    let h : List Req := [(.none, .newOrder 0 0 [(1, true)] false), (.none, .attest 0 0 0 1 (.successKey 1)), (.none, .getOrder 0 0 2)]
    (step .none (run h) (.finalize 0 0 3 0 true true false)).2 = .unauthorized ∧
    (step .none (run h) (.finalize 0 0 3 1 true true false)).2 = .ok .valid := by decide

/-! ## accounts: a deactivated account can do nothing -/

/-- the account a request is signed by -/
def AReq.by : AReq → Option Nat
  | .newAccount => none
  | .req _ op => some op.acct
  | .deactivate a => some a
  | .keyChange a => some a

theorem astep_store (a : AStore) (r : AReq) :
    (astep a r).1.s = a.s ∨
    ∃ d op, r = .req d op ∧ served a op.acct = true ∧ (astep a r).1.s = (step d a.s op).1 := by
  cases r with
  | newAccount => exact .inl rfl
  | deactivate acct => simp only [astep]; split <;> exact .inl rfl
  | keyChange acct => simp only [astep]; split <;> exact .inl rfl
  | req d op =>
    simp only [astep]
    split
    · rename_i h; exact .inr ⟨d, op, rfl, h, rfl⟩
    · exact .inl rfl

/-- every invariant of the object store survives the account layer -/
theorem ainv_run (h : List AReq) : Inv (arun h).s ∧ Own (arun h).s := by
  have gen : ∀ (h : List AReq) (a : AStore), Inv a.s ∧ Own a.s →
      Inv (h.foldl (fun a r => (astep a r).1) a).s ∧ Own (h.foldl (fun a r => (astep a r).1) a).s := by
    intro h
    induction h with
    | nil => intro a I; exact I
    | cons r h ih =>
      intro a I
      apply ih
      rcases astep_store a r with e | ⟨d, op, _, _, e⟩
      · rw [e]; exact I
      · rw [e]; exact ⟨inv_step d a.s op I.1, own_step d a.s op I.2⟩
  exact gen h {} ⟨⟨by intro a az h; simp at h, by intro i o h; simp at h⟩,
    ⟨by intro i o h; simp at h, by intro a az h; simp at h⟩⟩

theorem deactivated_stays (a : AStore) (r : AReq) (i : Nat) (h : a.accts[i]? = some false) :
    (astep a r).1.accts[i]? = some false := by
  have hlt := lt_of_getElem? h
  cases r with
  | newAccount => simp only [astep]; rw [List.getElem?_append_left hlt]; exact h
  | keyChange acct => simp only [astep]; split <;> exact h
  | req d op => simp only [astep]; split <;> exact h
  | deactivate acct =>
    simp only [astep]
    split
    · by_cases e : acct = i
      · subst e; simp [hlt]
      · simp [List.getElem?_set_ne e, h]
    · exact h

/-- **deactivated_inert**: a request signed by a deactivated account never reaches a handler: the
    whole state (objects and accounts) is unchanged and the answer is `unauthorized`. -/
theorem deactivated_inert (a : AStore) (r : AReq) (i : Nat) (h : a.accts[i]? = some false)
    (hb : r.by = some i) : astep a r = (a, .unauthorized) := by
  have hs : served a i = false := by simp [served, h]
  cases r with
  | newAccount => cases hb
  | req d op => simp [AReq.by] at hb; simp [astep, hb, hs]
  | deactivate acct => simp [AReq.by] at hb; simp [astep, hb, hs]
  | keyChange acct => simp [AReq.by] at hb; simp [astep, hb, hs]

/-- over histories: once account `i` is deactivated, the state after any continuation is the state
    after the continuation with all of `i`'s requests removed -/
theorem deactivated_inert_history (h1 h2 : List AReq) (i : Nat) (hd : (arun h1).accts[i]? = some false) :
    arun (h1 ++ h2) = arun (h1 ++ h2.filter (fun r => r.by != some i)) := by
  have gen : ∀ (h2 : List AReq) (a : AStore), a.accts[i]? = some false →
      h2.foldl (fun a r => (astep a r).1) a =
      (h2.filter (fun r => r.by != some i)).foldl (fun a r => (astep a r).1) a := by
    intro h2
    induction h2 with
    | nil => intro a _; rfl
    | cons r h2 ih =>
      intro a ha
      by_cases hb : r.by = some i
      · have := deactivated_inert a r i ha hb
        simp only [List.foldl_cons, this]
        rw [List.filter_cons_of_neg (by simp [hb])]
        exact ih a ha
      · rw [List.filter_cons_of_pos (by simpa using hb)]
        simp only [List.foldl_cons]
        exact ih _ (deactivated_stays a r i ha)
  simp only [arun, List.foldl_append]
  exact gen h2 _ hd

/-- the hypothesis is reachable: an account with a pending order deactivates itself; its later
    requests (a poll, a new order, a second deactivation) change nothing, the other account goes on -/
example :
    let h1 : List AReq := [.newAccount, .newAccount, .req .none (.newOrder 0 0 [(1, false)] false),
      .req .none (.respond 0 0 0 .success), .deactivate 0]
    (arun h1).accts = [false, true] ∧
    arun (h1 ++ [.req .none (.getOrder 0 0 1), .req .none (.newOrder 0 2 [(1, false)] false), .deactivate 0,
                 .req .none (.newOrder 1 3 [(1, false)] false)]) =
      arun (h1 ++ [.req .none (.newOrder 1 3 [(1, false)] false)]) ∧
    (arun h1).s.orders[0]?.map (·.status) = some .pending := by decide

/-! ## source-derived table of status writes -/

/-- why `authz_valid_cause` has to look at the store after the request for Wire: one Wire response
    makes the challenge valid, the authorization valid and the order ready -/
theorem wire_same_request :
    let h : List Req := [(.none, .newOrder 0 0 [(1, false)] false), (.none, .wire 0 0 1 false .success)]
    (run h).chals[0]?.map (·.status) = some .valid ∧ (run h).authzs[0]?.map (·.status) = some .valid ∧
    (run h).orders[0]?.map (·.status) = some .ready ∧
    -- and a second response, whatever its verdict, changes nothing
    (step .none (run h) (.wire 0 0 2 false .reject)).1 = run h := by decide

/-- **statusSites_modelled** (table obligation): every place of the ACME packages that writes a
    `Status` field is covered by a model function of `modelWriters` (whose transitions `step_old`
    and `astep` justify) or is one of the three documented exclusions. The table is compared
    with the go/ast-derived site list of the current source on every run. -/
theorem statusSites_modelled :
    ∀ e ∈ statusSites, e.2.2 ∈ modelWriters ∨ e.2.2 ∈ ["-copy", "-http", "-eab"] := by decide

end Verif.AcmeSM

/-! ## observation about concurrency (outside C10's quantifier, which is over sequential histories)

  `DB.UpdateOrder` re-reads the record and compares-and-swaps against what it just read. The
  theorems below are about `Verif.AcmeConc`, whose atomic steps are the database calls of
  `FinalizeOrder` and of an order poll; the stage `conc` of the C10 check replays the same
  schedules on the real handlers and store. -/
namespace Verif.AcmeConc
open Verif

/-- **conc_double_issue** (the code as written): two simultaneous finalizations of one ready
    order, each loading the order before the other writes, store two certificates, and both
    `UpdateOrder` calls succeed. -/
theorem conc_double_issue :
    (exec .reread { ths := [{ kind := .fin }, { kind := .fin }] } [0, 1, 0, 1, 0, 0, 1, 1]).g.certs = 2 ∧
    (exec .reread { ths := [{ kind := .fin }, { kind := .fin }] } [0, 1, 0, 1, 0, 0, 1, 1]).g.writes = 2 := by
  decide

/-- **conc_terminal_overwritten** (the code as written): a poll that loaded the order while it was
    ready and evaluates it after the expiry overwrites the status valid written by a finalization
    in between (and erases the certificate id); in the other order a finalization overwrites invalid
    with valid. The trace shows the stored status after every database call. -/
theorem conc_terminal_overwritten :
    trace .reread { ths := [{ kind := .fin }, { kind := .poll }] } [0, 1, 0, 0, 0, 1, 1] =
      [.ready, .ready, .ready, .ready, .valid, .valid, .invalid] ∧
    (exec .reread { ths := [{ kind := .fin }, { kind := .poll }] } [0, 1, 0, 0, 0, 1, 1]).g.cur.cert = none ∧
    trace .reread { ths := [{ kind := .fin }, { kind := .poll }] } [0, 1, 1, 1, 0, 0, 0] =
      [.ready, .ready, .ready, .invalid, .invalid, .invalid, .valid] := by
  decide

/-- **reread_stale_swap_inert**: in the code as written the compare-and-swap of `DB.UpdateOrder` is
    taken once, against the record re-read a moment before: when another request has written the
    order in between, the swap fails and the record stays as that request left it (the request is
    answered 500). Retrying the swap with the caller's stale status would overwrite it. -/
theorem reread_stale_swap_inert (g : G) (t : Th) (hold : g.cur ≠ t.old) :
    (t.kind = .poll → t.pc = 2 → (thStep .reread g t).1 = g) ∧
    (t.kind = .fin → t.pc = 3 → (thStep .reread g t).1 = g) := by
  obtain ⟨kind, pc, loaded, old, mine⟩ := t
  have hc : ∀ nu, (cas g old nu).1 = g := by
    intro nu
    have : g.cur ≠ old := hold
    simp [cas, this]
  constructor
  · intro hk hp
    simp only at hk hp
    subst hk hp
    exact hc _
  · intro hk hp
    simp only at hk hp
    subst hk hp
    exact hc _

/-- the interleaving around the expiry in which this matters: the poll re-reads the ready order, the
    finalization writes valid, the poll's swap fails; the order is valid when both have returned -/
theorem conc_lost_swap_keeps_valid :
    trace .reread { ths := [{ kind := .fin }, { kind := .poll }] } [0, 1, 1, 0, 0, 0, 1] =
      [.ready, .ready, .ready, .ready, .ready, .valid, .valid] ∧
    (exec .reread { ths := [{ kind := .fin }, { kind := .poll }] } [0, 1, 1, 0, 0, 0, 1]).g.cur = ⟨.valid, some 1⟩ := by
  decide

/-- a compare-and-swap against the caller's record alone does not stop the second certificate:
    it is stored before the order is written -/
theorem original_still_double_issues :
    (exec .original { ths := [{ kind := .fin }, { kind := .fin }] } [0, 1, 0, 1, 0, 1]).g.certs = 2 ∧
    (exec .original { ths := [{ kind := .fin }, { kind := .fin }] } [0, 1, 0, 1, 0, 1]).g.writes = 1 := by
  decide


/-! ### a real compare-and-swap against the caller's record: at most one order write succeeds -/

def GI (g : G) : Prop := (g.writes = 0 ∧ g.cur = initRec) ∨ (g.writes = 1 ∧ g.cur.status ≠ .ready)

/-- a request that is past its load and has not finished loaded the initial (ready) record -/
def TI (t : Th) : Prop := (t.pc = 1 ∨ t.pc = 2) → t.loaded = initRec

theorem cas_GI (g : G) (nu : Rec) (hg : GI g) (hn : nu.status ≠ .ready) : GI (cas g initRec nu).1 := by
  unfold cas
  split
  · rename_i h
    rcases hg with ⟨w, _⟩ | ⟨_, c⟩
    · exact .inr ⟨by simp [w], hn⟩
    · rw [h] at c; exact absurd rfl c
  · exact hg

theorem thStep_original (g : G) (t : Th) (hg : GI g) (ht : TI t) :
    GI (thStep .original g t).1 ∧ TI (thStep .original g t).2 := by
  unfold thStep
  split
  · -- load
    refine ⟨hg, ?_⟩
    intro hp
    by_cases hr : g.cur.status = .ready
    · rcases hg with ⟨_, c⟩ | ⟨_, c⟩
      · exact c
      · exact absurd hr c
    · simp [hr] at hp
  · -- fin 1: certificate
    rename_i hk hpc
    exact ⟨by simpa [GI] using hg, fun _ => ht (.inl hpc)⟩
  · -- fin 2: swap
    rename_i hk hpc
    have hl := ht (.inr hpc)
    refine ⟨by simp only; rw [hl]; exact cas_GI g _ hg (by simp), fun hp => by simp at hp⟩
  · exact ⟨hg, fun hp => by simp at hp⟩
  · -- poll 1: swap
    rename_i hk hpc
    have hl := ht (.inl hpc)
    refine ⟨by simp only; rw [hl]; exact cas_GI g _ hg (by simp), fun hp => by simp at hp⟩
  · exact ⟨hg, fun hp => by simp at hp⟩
  · exact ⟨hg, fun hp => by simp at hp⟩

theorem wstep_original (w : W) (i : Nat) (hg : GI w.g) (ht : ∀ t ∈ w.ths, TI t) :
    GI (wstep .original w i).g ∧ ∀ t ∈ (wstep .original w i).ths, TI t := by
  unfold wstep
  cases h : w.ths[i]? with
  | none => exact ⟨hg, ht⟩
  | some t =>
    have := thStep_original w.g t hg (ht t (List.mem_of_getElem? h))
    simp only
    generalize thStep .original w.g t = r at this ⊢
    obtain ⟨g', t'⟩ := r
    refine ⟨this.1, ?_⟩
    intro x hx
    rcases List.mem_or_eq_of_mem_set hx with hx | rfl
    · exact ht x hx
    · exact this.2

/-- **original_one_write**: if `UpdateOrder` compared against the record the request loaded, then for
    any number of simultaneous finalizations and polls of one ready order and every schedule, at
    most one order write succeeds and the record never returns to ready (a terminal status,
    once written, stays). -/
theorem original_one_write (ths : List Th) (h0 : ∀ t ∈ ths, t.pc = 0) (sched : List Nat) :
    (exec .original { ths := ths } sched).g.writes ≤ 1 ∧
    ((exec .original { ths := ths } sched).g.writes = 1 → (exec .original { ths := ths } sched).g.cur.status ≠ .ready) := by
  have gen : ∀ (sched : List Nat) (w : W), GI w.g → (∀ t ∈ w.ths, TI t) → GI (exec .original w sched).g := by
    intro sched
    induction sched with
    | nil => intro w hg _; exact hg
    | cons i is ih =>
      intro w hg ht
      obtain ⟨a, b⟩ := wstep_original w i hg ht
      exact ih _ a b
  have := gen sched { ths := ths } (.inl ⟨rfl, rfl⟩) (fun t ht hp => by rw [h0 t ht] at hp; simp at hp)
  rcases this with ⟨w, _⟩ | ⟨w, c⟩
  · exact ⟨by omega, fun h => by omega⟩
  · exact ⟨by omega, fun _ => c⟩


/-! ### the proposed repair: claim the order (ready -> processing) before signing -/

/-- a finalization that won the claim and has not stored its certificate yet -/
def claimed (t : Th) : Bool := t.kind == .fin && t.pc == 2

def b (t : Th) : Nat := if claimed t then 1 else 0

def EI (t : Th) : Prop := t.pc = 1 → t.loaded.status = .ready

theorem countP_set (p : Th → Bool) : ∀ (l : List Th) (i : Nat) (t t' : Th), l[i]? = some t →
    (l.set i t').countP p + (if p t then 1 else 0) = l.countP p + (if p t' then 1 else 0) := by
  intro l
  induction l with
  | nil => intro i t t' h; simp at h
  | cons x xs ih =>
    intro i t t' h
    cases i with
    | zero =>
      simp at h; subst h
      simp [List.countP_cons]
      by_cases h1 : p x = true <;> by_cases h2 : p t' = true <;> simp [h1, h2] <;> omega
    | succ i =>
      simp at h
      have := ih i t t' h
      simp [List.countP_cons]
      omega

theorem thStep_claim (g : G) (t : Th) (N : Nat)
    (h1 : g.certs + N + b t ≤ 1) (h2 : g.cur.status = .ready → g.certs + N + b t = 0) (he : EI t) :
    (thStep .claim g t).1.certs + N + b (thStep .claim g t).2 ≤ 1 ∧
    ((thStep .claim g t).1.cur.status = .ready → (thStep .claim g t).1.certs + N + b (thStep .claim g t).2 = 0) ∧
    EI (thStep .claim g t).2 := by
  unfold thStep
  split
  · -- load
    rename_i hpc
    have hb : b t = 0 := by simp [b, claimed, hpc]
    by_cases hr : g.cur.status = .ready
    · simp [hr, b, claimed, EI]; have := h2 hr; omega
    · simp [hr, b, claimed, EI]; omega
  · -- fin 1: claim
    rename_i hk hpc
    have hb : b t = 0 := by simp [b, claimed, hpc]
    have hl := he hpc
    simp only [cas]
    by_cases hc : g.cur = t.loaded
    · have hr : g.cur.status = .ready := by rw [hc]; exact hl
      have h0 := h2 hr
      simp [hc, b, claimed, hk, EI]
      omega
    · simp [hc, b, claimed, EI]; constructor
      · omega
      · intro hr; have := h2 hr; omega
  · -- fin 2: certificate
    rename_i hk hpc
    have hb : b t = 1 := by simp [b, claimed, hk, hpc]
    have hnr : g.cur.status ≠ .ready := fun hr => by have := h2 hr; omega
    simp [b, claimed, EI, hnr]; omega
  · -- fin 3: processing -> valid
    rename_i hk hpc
    have hb : b t = 0 := by simp [b, claimed, hpc]
    simp only [cas]
    split
    · simp [b, claimed, EI]; omega
    · simp [b, claimed, EI]; constructor
      · omega
      · intro hr; have := h2 hr; omega
  · -- poll 1: -> invalid
    rename_i hk hpc
    have hb : b t = 0 := by simp [b, claimed, hk]
    simp only [cas]
    split
    · simp [b, claimed, EI]; omega
    · simp [b, claimed, EI]; constructor
      · omega
      · intro hr; have := h2 hr; omega
  · rename_i hk hpc
    have hb : b t = 0 := by simp [b, claimed, hk]
    simp [b, claimed, EI]; constructor
    · omega
    · intro hr; have := h2 hr; omega
  · have : b { t with pc := 9 } = 0 := by simp [b, claimed]
    simp only [this, EI]
    refine ⟨by omega, fun hr => by have := h2 hr; omega, by simp⟩


def n2 (ths : List Th) : Nat := ths.countP claimed

structure CI (w : W) : Prop where
  le : w.g.certs + n2 w.ths ≤ 1
  rdy : w.g.cur.status = .ready → w.g.certs + n2 w.ths = 0
  ei : ∀ t ∈ w.ths, EI t

theorem wstep_claim (w : W) (i : Nat) (c : CI w) : CI (wstep .claim w i) := by
  unfold wstep
  cases h : w.ths[i]? with
  | none => exact c
  | some t =>
    simp only
    have hcnt : ∀ t', n2 (w.ths.set i t') + b t = n2 w.ths + b t' := by
      intro t'; simpa [n2, b] using countP_set claimed w.ths i t t' h
    have hbt : b t ≤ n2 w.ths := by
      have := hcnt t; simp [n2, b] at this ⊢
      have hm := List.mem_of_getElem? h
      by_cases hc : claimed t = true
      · simp [hc]; exact ⟨t, hm, hc⟩
      · simp [hc]
    have key := thStep_claim w.g t (n2 w.ths - b t)
      (by have := c.le; omega) (fun hr => by have := c.rdy hr; omega) (c.ei t (List.mem_of_getElem? h))
    generalize thStep .claim w.g t = r at key ⊢
    obtain ⟨g', t'⟩ := r
    have e := hcnt t'
    refine ⟨?_, ?_, ?_⟩
    · have := key.1; simp only at this ⊢; omega
    · intro hr; have := key.2.1 hr; simp only at this ⊢; omega
    · intro x hx
      rcases List.mem_or_eq_of_mem_set hx with hx | rfl
      · exact c.ei x hx
      · exact key.2.2

/-- **claim_one_certificate** (the proposed repair): if a finalization first swaps the order from
    ready to processing against the record it loaded, and only then signs, then for any number of
    simultaneous finalizations and polls of one ready order and every schedule at most one
    certificate is stored. -/
theorem claim_one_certificate (ths : List Th) (h0 : ∀ t ∈ ths, t.pc = 0) (sched : List Nat) :
    (exec .claim { ths := ths } sched).g.certs ≤ 1 := by
  have gen : ∀ (sched : List Nat) (w : W), CI w → CI (exec .claim w sched) := by
    intro sched
    induction sched with
    | nil => intro w c; exact c
    | cons i is ih => intro w c; exact ih _ (wstep_claim w i c)
  have hn : n2 ths = 0 := by
    simp [n2, List.countP_eq_zero]
    intro t ht; simp [claimed, h0 t ht]
  have := (gen sched { ths := ths } ⟨by simp [hn], fun _ => by simp [hn], fun t ht hp => by rw [h0 t ht] at hp; simp at hp⟩).le
  omega

/-- the repair is not vacuous: a lone finalization still completes -/
example : (exec .claim { ths := [{ kind := .fin }] } [0, 0, 0, 0]).g = { cur := ⟨.valid, some 1⟩, certs := 1, writes := 2 } := by decide
example : (exec .claim { ths := [{ kind := .fin }, { kind := .fin }] } [0, 1, 0, 1, 0, 1, 0, 1]).g.certs = 1 := by decide

/-! ### simultaneous responses to one challenge (observation, like the order interleavings) -/

/-- **ch_stale_swap_inert** (every state, every response): the single compare-and-swap of
    `DB.UpdateChallenge` is taken against the record re-read a moment before; when another request
    has written the challenge in between, it fails and the record stays as that request left it
    (the losing request is answered 500). A write that does not compare would overwrite it. -/
theorem ch_stale_swap_inert (cur : ChRec) (t : ChTh) (hp : t.pc = 2) (hold : cur ≠ t.old) :
    (chStep cur t).1 = cur := by
  obtain ⟨v, pc, loaded, old⟩ := t
  simp only at hp hold
  subst hp
  show (if cur = old then _ else cur) = cur
  rw [if_neg hold]

/-- the interleaving in which it matters: a response with a transient error re-reads the pending
    challenge, a successful response writes valid, the first one's swap fails: valid stays -/
theorem ch_lost_swap_keeps_valid :
    chTrace { ths := [{ verdict := .retry }, { verdict := .ok }] } [0, 1, 0, 1, 1, 0] =
      [.pending, .pending, .pending, .pending, .valid, .valid] ∧
    (chExec { ths := [{ verdict := .retry }, { verdict := .ok }] } [0, 1, 0, 1, 1, 0]).cur = { status := .valid, err := false } := by
  decide

/-- **ch_terminal_overwritten** (the code as written, C19 material like `conc_terminal_overwritten`):
    the re-read does not help a response that loaded the challenge while pending and re-reads it after
    another response made it valid: its swap against the fresh record succeeds and writes its stale
    status back, valid -> pending (transient error) or valid -> invalid (refused proof). -/
theorem ch_terminal_overwritten :
    chTrace { ths := [{ verdict := .retry }, { verdict := .ok }] } [0, 1, 1, 1, 0, 0] =
      [.pending, .pending, .pending, .valid, .valid, .pending] ∧
    chTrace { ths := [{ verdict := .reject }, { verdict := .ok }] } [0, 1, 1, 1, 0, 0] =
      [.pending, .pending, .pending, .valid, .valid, .invalid] := by
  decide

/-- responses that arrive after the challenge has been finished do nothing -/
theorem ch_finished_inert (cur : ChRec) (t : ChTh) (hp : t.pc = 0) (hs : cur.status ≠ .pending) :
    (chStep cur t).1 = cur ∧ (chStep cur t).2.pc = 9 := by
  obtain ⟨v, pc, loaded, old⟩ := t
  simp only at hp
  subst hp
  simp [chStep, hs]

end Verif.AcmeConc
