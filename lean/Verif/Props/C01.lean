import Verif.Model.Token
/-!
  C01 — certificates are issued only against a genuine provisioner credential.

  Theorems about `Verif.Token.authorize` (model of `Authority.Authorize`, see Model/Token.lean):

  * `audiences_per_op`, `audiences_per_op_complete` — what `Config.GetAudiences` puts in the list of
    each operation.
  * `authorize_sound` — what an accepted token satisfies, **per provisioner type, exactly as coded**
    (`Accepts`); the differences between types are in the statement.
  * `authorize_genuine` — accepted ⇒ verifies under the key material of the configured, initialised
    provisioner that answered; full strength since fix 719d1fc (ACME / SCEP provisioners, which
    ignore the token, are refused). `authorize_genuine_refuted` is the historic refutation for the
    definition before that fix (`authorizeOld`, D21).
  * `subject_nonempty` — accepted ⇒ non-empty subject, for every type the harness validates (the three
    cloud identity types do not test it); `subject_refuted` is the historic refutation for OIDC before 1529327 (D22).
  * `mutation_*` — one corollary per mutation class of the statement.
  * `nothing_happens` — in the six handlers every signing / revoking call is dominated by a
    successful `Authorize`, and a failed one returns (table re-derived from the source each run).
-/
namespace Verif.Token
open Verif

/-! ### plumbing -/

theorem bind_ok {α β : Type} (x : Out α) (f : α → Out β) (b : β) :
    (x >>= f) = .ok b ↔ ∃ a, x = .ok a ∧ f a = .ok b := by
  cases x <;> simp [bind, Out.bind]

theorem need_ok (c : Bool) (r : Reject) (u : Unit) : need c r = .ok u ↔ c = true := by
  unfold need; split <;> simp_all

theorem pure_ok {α : Type} (a b : α) : (pure a : Out α) = .ok b ↔ a = b := by
  simp [pure]

theorem baseReject_ne (u : Unit) : baseReject ≠ .ok u := by simp [baseReject]

/-! ### audiences -/

/-- the API route of an operation -/
def route : Op → Str
  | .sign => s "sign"
  | .sshSign => s "ssh/sign"
  | .sshRenew => s "ssh/renew"
  | .sshRekey => s "ssh/rekey"
  | .revoke => s "revoke"
  | .sshRevoke => s "ssh/revoke"

/-- the only sharing the property allows: X.509 sign and SSH sign accept each other's URLs -/
def Shares (a b : Op) : Prop := a = b ∨ (a = .sign ∧ b = .sshSign) ∨ (a = .sshSign ∧ b = .sign)

/-- `a` is a URL under which a CA with these DNS names serves operation `op'` -/
def IsUrlFor (hosts : List Host) (op' : Op) (a : Aud) : Prop :=
  ∃ h ∈ hosts, a = .url h (s "/1.0/" ++ route op') ∨ a = .url h (s "/" ++ route op')

/-- **audiences_per_op.** Every element of the list `GetAudiences` builds for `op` is a URL of this
    CA for that operation (or, between sign and ssh-sign only, for the other of the two), or the
    legacy constant, which occurs in the sign and revoke lists only. For every list of DNS names. -/
theorem audiences_per_op (hosts : List Host) (op : Op) (a : Aud)
    (h : a ∈ opAuds (getAudiences hosts) op) :
    (a = .legacy ∧ (op = .sign ∨ op = .revoke)) ∨ ∃ op', Shares op op' ∧ IsUrlFor hosts op' a := by
  cases op <;>
    simp only [opAuds, getAudiences, urls, pSign, pRenew, pRevoke, pSSHSign, pSSHRevoke, pSSHRenew, pSSHRekey,
      List.mem_cons, List.mem_flatMap, List.mem_map, List.not_mem_nil, or_false] at h
  · rcases h with h | ⟨hh, hm, p, hp, rfl⟩
    · left; exact ⟨h, .inl rfl⟩
    · right
      rcases hp with rfl | rfl | rfl | rfl
      · exact ⟨.sign, .inl rfl, hh, hm, .inl rfl⟩
      · exact ⟨.sign, .inl rfl, hh, hm, .inr rfl⟩
      · exact ⟨.sshSign, .inr (.inl ⟨rfl, rfl⟩), hh, hm, .inl rfl⟩
      · exact ⟨.sshSign, .inr (.inl ⟨rfl, rfl⟩), hh, hm, .inr rfl⟩
  · obtain ⟨hh, hm, p, hp, rfl⟩ := h
    right
    rcases hp with rfl | rfl | rfl | rfl
    · exact ⟨.sshSign, .inl rfl, hh, hm, .inl rfl⟩
    · exact ⟨.sshSign, .inl rfl, hh, hm, .inr rfl⟩
    · exact ⟨.sign, .inr (.inr ⟨rfl, rfl⟩), hh, hm, .inl rfl⟩
    · exact ⟨.sign, .inr (.inr ⟨rfl, rfl⟩), hh, hm, .inr rfl⟩
  · obtain ⟨hh, hm, p, hp, rfl⟩ := h
    right
    rcases hp with rfl | rfl
    · exact ⟨.sshRenew, .inl rfl, hh, hm, .inl rfl⟩
    · exact ⟨.sshRenew, .inl rfl, hh, hm, .inr rfl⟩
  · obtain ⟨hh, hm, p, hp, rfl⟩ := h
    right
    rcases hp with rfl | rfl
    · exact ⟨.sshRekey, .inl rfl, hh, hm, .inl rfl⟩
    · exact ⟨.sshRekey, .inl rfl, hh, hm, .inr rfl⟩
  · rcases h with h | ⟨hh, hm, p, hp, rfl⟩
    · left; exact ⟨h, .inr rfl⟩
    · right
      rcases hp with rfl | rfl
      · exact ⟨.revoke, .inl rfl, hh, hm, .inl rfl⟩
      · exact ⟨.revoke, .inl rfl, hh, hm, .inr rfl⟩
  · obtain ⟨hh, hm, p, hp, rfl⟩ := h
    right
    rcases hp with rfl | rfl
    · exact ⟨.sshRevoke, .inl rfl, hh, hm, .inl rfl⟩
    · exact ⟨.sshRevoke, .inl rfl, hh, hm, .inr rfl⟩

/-- Conversely every URL of the CA for `op` is in the list for `op` (a correctly addressed token
    is not refused for its audience). -/
theorem audiences_per_op_complete (hosts : List Host) (op : Op) (a : Aud) (h : IsUrlFor hosts op a) :
    a ∈ opAuds (getAudiences hosts) op := by
  obtain ⟨hh, hm, ha⟩ := h
  cases op <;>
    simp only [opAuds, getAudiences, urls, pSign, pRenew, pRevoke, pSSHSign, pSSHRevoke, pSSHRenew, pSSHRekey,
      List.mem_cons, List.mem_flatMap, List.mem_map, List.not_mem_nil, or_false] <;>
    first
    | (right; refine ⟨hh, hm, ?_⟩; rcases ha with rfl | rfl <;> simp [route, s])
    | (refine ⟨hh, hm, ?_⟩; rcases ha with rfl | rfl <;> simp [route, s])

/-! ### what an accepted token satisfies -/

/-- the validity window as the code tests it (`now` in ns, claims in s, one minute of leeway);
    a claim that is absent is not tested -/
def Window (now : Int) (t : Tok) : Prop :=
  (∀ nbf, t.nbf = some nbf → nbf * ns - leeway ≤ now) ∧
  (∀ exp, t.exp = some exp → now ≤ exp * ns + leeway) ∧
  (∀ iat, t.iat = some iat → iat * ns - leeway ≤ now)

/-- some audience of the token matches (equal, or equal after `stripPort`) some element of the
    list the provisioner holds *for this operation* -/
def AudOk (cfg : Config) (p : Prov) (op : Op) (t : Tok) : Prop :=
  ∃ a ∈ t.aud, ∃ b ∈ opAuds (getAudiences cfg.hosts) op,
    (b.render p.audFrag).1 = a.raw ∨ a.stripped = (b.render p.audFrag).2

/-- issuer, window, audience for the operation, non-empty subject: the tail shared by the
    provisioners whose tokens are minted with a key or certificate registered at the CA -/
def ClaimsOk (cfg : Config) (p : Prov) (now : Int) (op : Op) (t : Tok) : Prop :=
  (p.name = [] ∨ t.iss = p.name) ∧ Window now t ∧ AudOk cfg p op t ∧ t.sub ≠ []

def SshTok (p : Prov) (t : Tok) : Prop := p.sshEnabled = true ∧ t.hasSSH = true ∧ t.sshTypeOk = true

/-- the SSH certificate of an SSHPOP token is inside its validity at `now` (revoke, rekey) -/
def CertNow (pc : Pop) (now : Int) : Prop :=
  pc.after ≤ maxInt64 ∧ (pc.after : Int) ≤ now / ns ∧
    (pc.before = certForever ∨ (pc.before ≤ maxInt64 ∧ now / ns < (pc.before : Int)))

/-- … or, for renew, possibly past its end when the provisioner allows renewal after expiry -/
def CertRenew (pc : Pop) (now : Int) (lenient : Bool) : Prop :=
  pc.after ≤ maxInt64 ∧ (pc.after : Int) ≤ now / ns ∧
    (pc.before = certForever ∨ lenient = true ∨ (pc.before ≤ maxInt64 ∧ now / ns < (pc.before : Int)))

/-- the SSH certificate of an SSHPOP token is signed by a key in the list `generateProvisionerConfig`
    hands to SSHPOP provisioners for the certificate's type (`GetSSHRoots`) -/
def RootSigned (cfg : Config) (pc : Pop) : Prop := ∃ k, pc.signer = some k ∧ cfg.sshRoot pc.user k = true

/-- **What each provisioner type requires of an accepted token, as coded.** -/
def Accepts (cfg : Config) (p : Prov) (c : Cr) (l : Cl) (now : Int) (op : Op) (t : Tok) : Prop :=
  match p.ty with
  -- cloud identity documents (modelled from the source; not validated against the running code):
  -- the audience is matched against the **sign** list for ssh-sign too; non-empty subject since 6a9c1d5
  | .gcp =>
      c.sig = true ∧ t.iss = gcpIssuer ∧ Window now t ∧ AudOk cfg p .sign t ∧
      l.subject = true ∧ l.scope = true ∧ l.age = true ∧ l.fields = true ∧ t.sub ≠ [] ∧
      (op = .sign ∨ (op = .sshSign ∧ p.sshEnabled = true ∧ l.sshKind = true))
  | .aws =>
      c.sig = true ∧ c.chain = true ∧ l.fields = true ∧ t.iss = awsIssuer ∧ Window now t ∧ AudOk cfg p .sign t ∧
      l.subject = true ∧ l.scope = true ∧ l.age = true ∧ t.sub ≠ [] ∧
      (op = .sign ∨ (op = .sshSign ∧ p.sshEnabled = true))
  | .azure =>
      -- the resource group / subscription / object id filters (`l.scope`) hold for sign only
      c.sig = true ∧ (p.oidcIssuer = [] ∨ t.iss = p.oidcIssuer) ∧ (∃ a ∈ t.aud, a.raw = p.audience) ∧
      Window now t ∧ t.tid = p.clientId ∧ l.fields = true ∧ t.sub ≠ [] ∧
      ((op = .sign ∧ l.scope = true) ∨ (op = .sshSign ∧ p.sshEnabled = true))
  | .jwk =>
      c.sig = true ∧ ClaimsOk cfg p now op t ∧
      (op = .sign ∨ op = .revoke ∨ op = .sshRevoke ∨ (op = .sshSign ∧ SshTok p t))
  | .x5c =>
      c.chain = true ∧ c.digSig = true ∧ c.sig = true ∧ ClaimsOk cfg p now op t ∧
      (op = .sign ∨ op = .revoke ∨ (op = .sshSign ∧ SshTok p t))
  | .sshpop =>
      ∃ pc, t.pop = some pc ∧ RootSigned cfg pc ∧ c.sig = true ∧ ClaimsOk cfg p now op t ∧
      ((op = .sshRevoke ∧ CertNow pc now ∧ pc.serialIsSub = true) ∨
       (op = .sshRekey ∧ CertNow pc now ∧ pc.host = true) ∨
       (op = .sshRenew ∧ pc.host = true ∧ p.disableRenewal = false ∧ CertRenew pc now p.renewAfterExpiry))
  | .nebula =>
      c.chain = true ∧ c.sig = true ∧ ClaimsOk cfg p now op t ∧
      (op = .sign ∨ op = .revoke ∨ ((op = .sshSign ∨ op = .sshRevoke) ∧ p.sshEnabled = true))
  | .oidc =>
      -- issuer of the discovery document, audience = the client id (string equality), azp;
      -- non-empty subject for every operation (since 1529327)
      c.sig = true ∧ (p.oidcIssuer = [] ∨ t.iss = p.oidcIssuer) ∧ Window now t ∧ t.sub ≠ [] ∧
      (∃ a ∈ t.aud, a.raw = p.clientId) ∧ (t.azp = [] ∨ t.azp = p.clientId) ∧
      c.domainOk = true ∧ c.groupOk = true ∧
      (op = .sign ∨ ((op = .revoke ∨ op = .sshRevoke) ∧ c.admin = true) ∨
       (op = .sshSign ∧ p.sshEnabled = true ∧ (t.email = [] ∨ c.identOk = true)))
  | .k8ssa =>
      -- **no audience requirement, hence none per operation**: one token serves sign, ssh-sign and revoke
      c.sig = true ∧ t.iss = k8sIssuer ∧ Window now t ∧ t.sub ≠ [] ∧
      (op = .sign ∨ op = .revoke ∨ (op = .sshSign ∧ p.sshEnabled = true))
  | .acme => op = .sign ∨ op = .revoke      -- **nothing about the token**
  | .scep => op = .sign                     -- **nothing about the token**

theorem audMatch_true (as : List TAud) (bs : List (Str × Str)) (h : audMatch as bs = true) :
    ∃ a ∈ as, ∃ b ∈ bs, b.1 = a.raw ∨ a.stripped = b.2 := by
  unfold audMatch at h
  simp only [Bool.and_eq_true, List.any_eq_true, Bool.or_eq_true, beq_iff_eq] at h
  obtain ⟨_, b, hb, a, ha, hab⟩ := h
  exact ⟨a, ha, b, hb, hab⟩

theorem validate_ok (e : Str) (now : Int) (t : Tok) (u : Unit) (h : validate e now t = .ok u) :
    (e = [] ∨ t.iss = e) ∧ Window now t := by
  unfold validate at h
  simp only [bind_ok, need_ok] at h
  obtain ⟨_, h1, _, h2, _, h3, h4⟩ := h
  refine ⟨?_, ?_, ?_, ?_⟩
  · simp at h1; rcases h1 with h1 | h1
    · left; exact h1
    · right; exact h1.symm
  · intro nbf hn; simp [hn] at h2; omega
  · intro exp hn; simp [hn] at h3; omega
  · intro iat hn; simp [hn] at h4; omega

theorem claimsAudSub_ok (cfg : Config) (p : Prov) (now : Int) (op : Op) (t : Tok) (u : Unit)
    (h : claimsAudSub cfg p now op t = .ok u) :
    (p.expIssuer = [] ∨ t.iss = p.expIssuer) ∧ Window now t ∧ AudOk cfg p op t ∧ t.sub ≠ [] := by
  unfold claimsAudSub at h
  simp only [bind_ok, need_ok] at h
  obtain ⟨_, h1, _, h2, h3⟩ := h
  obtain ⟨hi, hw⟩ := validate_ok _ _ _ _ h1
  refine ⟨hi, hw, ?_, ?_⟩
  · obtain ⟨a, ha, b, hb, hab⟩ := audMatch_true _ _ h2
    unfold provAuds at hb
    simp only [List.mem_map] at hb
    obtain ⟨b', hb', rfl⟩ := hb
    exact ⟨a, ha, b', hb', hab⟩
  · intro hs; simp [hs] at h3

theorem sshOptsTail_ok (t : Tok) (u : Unit) (h : sshOptsTail t = .ok u) : t.hasSSH = true ∧ t.sshTypeOk = true := by
  unfold sshOptsTail at h
  simp only [bind_ok, need_ok] at h
  obtain ⟨_, h1, h2⟩ := h
  exact ⟨h1, h2⟩

theorem certWindow_ok (pc : Pop) (now : Int) (l : Bool) (u : Unit) (h : certWindow pc now l = .ok u) :
    CertRenew pc now l := by
  unfold certWindow at h
  simp only at h
  split at h
  · simp at h
  · split at h
    · simp at h
    · rename_i h1 h2
      simp only [Bool.or_eq_true, decide_eq_true_eq, not_or, Nat.not_lt, Int.not_lt] at h1
      refine ⟨h1.1, h1.2, ?_⟩
      by_cases hf : pc.before = certForever
      · exact .inl hf
      · right
        cases l
        · right
          simp only [Bool.and_eq_true, bne_iff_ne, ne_eq, Bool.or_eq_true, decide_eq_true_eq, not_and, not_or,
            Nat.not_lt, Int.not_le, Bool.not_false] at h2
          have := h2 ⟨hf, trivial⟩
          exact ⟨this.1, by omega⟩
        · exact .inl rfl

theorem certWindowTok_ok (pc : Pop) (now : Int) (u : Unit) (h : certWindowTok pc now = .ok u) :
    CertNow pc now := by
  unfold certWindowTok at h
  simp only at h
  split at h
  · simp at h
  · split at h
    · simp at h
    · rename_i h1 h2
      simp only [Bool.or_eq_true, decide_eq_true_eq, not_or, Nat.not_lt, Int.not_lt] at h1
      refine ⟨h1.1, h1.2, ?_⟩
      by_cases hf : pc.before = certForever
      · exact .inl hf
      · right
        simp only [Bool.and_eq_true, bne_iff_ne, ne_eq, Bool.or_eq_true, decide_eq_true_eq, not_and, not_or,
          Nat.not_lt, Int.not_le] at h2
        have := h2 hf
        exact ⟨this.1, by omega⟩

theorem claims_of (cfg : Config) (p : Prov) (now : Int) (op : Op) (t : Tok) (u : Unit)
    (hn : p.expIssuer = p.name) (h : claimsAudSub cfg p now op t = .ok u) : ClaimsOk cfg p now op t := by
  have := claimsAudSub_ok _ _ _ _ _ _ h
  rw [hn] at this
  exact this

theorem jwkOp_ok (cfg : Config) (p : Prov) (c : Cr) (now : Int) (op : Op) (t : Tok) (u : Unit)
    (hty : p.ty = .jwk) (h : jwkOp cfg p c now op t = .ok u) :
    c.sig = true ∧ ClaimsOk cfg p now op t ∧
      (op = .sign ∨ op = .revoke ∨ op = .sshRevoke ∨ (op = .sshSign ∧ SshTok p t)) := by
  have hn : p.expIssuer = p.name := by simp [Prov.expIssuer, hty]
  cases op <;> simp only [jwkOp, jwkTok, bind_ok, need_ok] at h
  · obtain ⟨_, h1, h2⟩ := h; exact ⟨h1, claims_of _ _ _ _ _ _ hn h2, by simp⟩
  · obtain ⟨_, h0, _, ⟨_, h1, h2⟩, h3⟩ := h
    have := sshOptsTail_ok _ _ h3
    exact ⟨h1, claims_of _ _ _ _ _ _ hn h2, by simp [SshTok, h0, this]⟩
  · exact absurd h (baseReject_ne _)
  · exact absurd h (baseReject_ne _)
  · obtain ⟨_, h1, h2⟩ := h; exact ⟨h1, claims_of _ _ _ _ _ _ hn h2, by simp⟩
  · obtain ⟨_, h1, h2⟩ := h; exact ⟨h1, claims_of _ _ _ _ _ _ hn h2, by simp⟩

theorem x5cOp_ok (cfg : Config) (p : Prov) (c : Cr) (now : Int) (op : Op) (t : Tok) (u : Unit)
    (hty : p.ty = .x5c) (h : x5cOp cfg p c now op t = .ok u) :
    c.chain = true ∧ c.digSig = true ∧ c.sig = true ∧ ClaimsOk cfg p now op t ∧
      (op = .sign ∨ op = .revoke ∨ (op = .sshSign ∧ SshTok p t)) := by
  have hn : p.expIssuer = p.name := by simp [Prov.expIssuer, hty]
  cases op <;> simp only [x5cOp, x5cTok, bind_ok, need_ok] at h
  · obtain ⟨_, h0, _, h1, _, h2, h3⟩ := h; exact ⟨h0, h1, h2, claims_of _ _ _ _ _ _ hn h3, by simp⟩
  · obtain ⟨_, hs, _, ⟨_, h0, _, h1, _, h2, h3⟩, h4⟩ := h
    have := sshOptsTail_ok _ _ h4
    exact ⟨h0, h1, h2, claims_of _ _ _ _ _ _ hn h3, by simp [SshTok, hs, this]⟩
  · exact absurd h (baseReject_ne _)
  · exact absurd h (baseReject_ne _)
  · obtain ⟨_, h0, _, h1, _, h2, h3⟩ := h; exact ⟨h0, h1, h2, claims_of _ _ _ _ _ _ hn h3, by simp⟩
  · exact absurd h (baseReject_ne _)

theorem sshpopTok_ok (cfg : Config) (p : Prov) (c : Cr) (now : Int) (op : Op) (t : Tok) (cv : Bool) (pc : Pop)
    (hty : p.ty = .sshpop) (h : sshpopTok cfg p c now op t cv = .ok pc) :
    t.pop = some pc ∧ RootSigned cfg pc ∧ c.sig = true ∧ ClaimsOk cfg p now op t ∧ (cv = true → CertNow pc now) := by
  have hn : p.expIssuer = p.name := by simp [Prov.expIssuer, hty]
  have root : ∀ q : Pop, (match q.signer with | some k => cfg.sshRoot q.user k | none => false) = true → RootSigned cfg q := by
    intro q hq
    cases hs : q.signer with
    | none => simp [hs] at hq
    | some k => exact ⟨k, hs, by simpa [hs] using hq⟩
  unfold sshpopTok at h
  split at h
  · simp at h
  · rename_i pc' hp
    cases cv <;> simp only [bind_ok, need_ok, pure_ok, if_true, if_false, Bool.false_eq_true] at h
    · obtain ⟨_, h1, _, h2, _, h3, rfl⟩ := h
      exact ⟨hp, root _ h1, h2, claims_of _ _ _ _ _ _ hn h3, by simp⟩
    · obtain ⟨_, h0, _, h1, _, h2, _, h3, rfl⟩ := h
      exact ⟨hp, root _ h1, h2, claims_of _ _ _ _ _ _ hn h3, fun _ => certWindowTok_ok _ _ _ h0⟩

theorem sshpopOp_ok (cfg : Config) (p : Prov) (c : Cr) (now : Int) (op : Op) (t : Tok) (u : Unit)
    (hty : p.ty = .sshpop) (h : sshpopOp cfg p c now op t = .ok u) :
    ∃ pc, t.pop = some pc ∧ RootSigned cfg pc ∧ c.sig = true ∧ ClaimsOk cfg p now op t ∧
      ((op = .sshRevoke ∧ CertNow pc now ∧ pc.serialIsSub = true) ∨
       (op = .sshRekey ∧ CertNow pc now ∧ pc.host = true) ∨
       (op = .sshRenew ∧ pc.host = true ∧ p.disableRenewal = false ∧ CertRenew pc now p.renewAfterExpiry)) := by
  cases op <;> simp only [sshpopOp, bind_ok, need_ok] at h
  · exact absurd h (baseReject_ne _)
  · exact absurd h (baseReject_ne _)
  · obtain ⟨pc, h0, _, h1, _, h2, h3⟩ := h
    obtain ⟨a, b, c', d, _⟩ := sshpopTok_ok _ _ _ _ _ _ _ _ hty h0
    refine ⟨pc, a, b, c', d, .inr (.inr ⟨rfl, h1, ?_, certWindow_ok _ _ _ _ h3⟩)⟩
    simpa using h2
  · obtain ⟨pc, h0, h1⟩ := h
    obtain ⟨a, b, c', d, e⟩ := sshpopTok_ok _ _ _ _ _ _ _ _ hty h0
    exact ⟨pc, a, b, c', d, .inr (.inl ⟨rfl, e rfl, h1⟩)⟩
  · exact absurd h (baseReject_ne _)
  · obtain ⟨pc, h0, h1⟩ := h
    obtain ⟨a, b, c', d, e⟩ := sshpopTok_ok _ _ _ _ _ _ _ _ hty h0
    exact ⟨pc, a, b, c', d, .inl ⟨rfl, e rfl, h1⟩⟩

theorem nebulaTok_ok (cfg : Config) (p : Prov) (c : Cr) (now : Int) (op : Op) (t : Tok) (u : Unit)
    (h : nebulaTok cfg p c now op t = .ok u) :
    c.chain = true ∧ c.sig = true ∧ claimsAudSub cfg p now op t = .ok u := by
  unfold nebulaTok at h
  split at h
  · simp at h
  · unfold nebulaChk at h
    simp only [bind_ok, need_ok] at h
    obtain ⟨_, h0, _, h1, h2⟩ := h
    exact ⟨h0, h1, h2⟩

theorem nebulaOp_ok (cfg : Config) (p : Prov) (c : Cr) (now : Int) (op : Op) (t : Tok) (u : Unit)
    (hty : p.ty = .nebula) (h : nebulaOp cfg p c now op t = .ok u) :
    c.chain = true ∧ c.sig = true ∧ ClaimsOk cfg p now op t ∧
      (op = .sign ∨ op = .revoke ∨ ((op = .sshSign ∨ op = .sshRevoke) ∧ p.sshEnabled = true)) := by
  have hn : p.expIssuer = p.name := by simp [Prov.expIssuer, hty]
  cases op <;> simp only [nebulaOp, bind_ok, need_ok] at h
  · obtain ⟨_, h', _⟩ := h
    obtain ⟨h0, h1, h2⟩ := nebulaTok_ok _ _ _ _ _ _ _ h'; exact ⟨h0, h1, claims_of _ _ _ _ _ _ hn h2, by simp⟩
  · obtain ⟨_, hs, _, h', _⟩ := h
    obtain ⟨h0, h1, h2⟩ := nebulaTok_ok _ _ _ _ _ _ _ h'; exact ⟨h0, h1, claims_of _ _ _ _ _ _ hn h2, by simp [hs]⟩
  · exact absurd h (baseReject_ne _)
  · exact absurd h (baseReject_ne _)
  · obtain ⟨h0, h1, h2⟩ := nebulaTok_ok _ _ _ _ _ _ _ h; exact ⟨h0, h1, claims_of _ _ _ _ _ _ hn h2, by simp⟩
  · obtain ⟨_, hs, h'⟩ := h
    obtain ⟨h0, h1, h2⟩ := nebulaTok_ok _ _ _ _ _ _ _ h'; exact ⟨h0, h1, claims_of _ _ _ _ _ _ hn h2, by simp [hs]⟩

theorem oidcTok_ok (p : Prov) (c : Cr) (now : Int) (t : Tok) (u : Unit) (h : oidcTok p c now t = .ok u) :
    c.sig = true ∧ (p.oidcIssuer = [] ∨ t.iss = p.oidcIssuer) ∧ Window now t ∧ t.sub ≠ [] ∧
      (∃ a ∈ t.aud, a.raw = p.clientId) ∧ (t.azp = [] ∨ t.azp = p.clientId) ∧
      c.domainOk = true ∧ c.groupOk = true := by
  unfold oidcTok at h
  simp only [bind_ok, need_ok] at h
  obtain ⟨_, h0, _, h1, _, h2, _, h3, _, hsub, _, h4, _, h5, h6⟩ := h
  refine ⟨h0, ?_, (validate_ok _ _ _ _ h3).2, ?_, ?_, ?_, h5, h6⟩
  · simp at h1; rcases h1 with h1 | h1
    · exact .inl h1
    · exact .inr h1.symm
  · intro hh; simp [hh] at hsub
  · simpa using h2
  · simpa using h4

theorem oidcOp_ok (p : Prov) (c : Cr) (now : Int) (op : Op) (t : Tok) (u : Unit)
    (h : oidcOp p c now op t = .ok u) :
    c.sig = true ∧ (p.oidcIssuer = [] ∨ t.iss = p.oidcIssuer) ∧ Window now t ∧ t.sub ≠ [] ∧
      (∃ a ∈ t.aud, a.raw = p.clientId) ∧ (t.azp = [] ∨ t.azp = p.clientId) ∧
      c.domainOk = true ∧ c.groupOk = true ∧
      (op = .sign ∨ ((op = .revoke ∨ op = .sshRevoke) ∧ c.admin = true) ∨
       (op = .sshSign ∧ p.sshEnabled = true ∧ (t.email = [] ∨ c.identOk = true))) := by
  cases op <;> simp only [oidcOp, bind_ok, need_ok] at h
  · obtain ⟨a, b, c', d, e, f, g, i⟩ := oidcTok_ok _ _ _ _ _ h
    exact ⟨a, b, c', d, e, f, g, i, by simp⟩
  · obtain ⟨_, hs, _, h0, _, _, h2⟩ := h
    obtain ⟨a, b, c', d, e, f, g, i⟩ := oidcTok_ok _ _ _ _ _ h0
    refine ⟨a, b, c', d, e, f, g, i, .inr (.inr ⟨rfl, hs, ?_⟩)⟩
    simpa using h2
  · exact absurd h (baseReject_ne _)
  · exact absurd h (baseReject_ne _)
  · obtain ⟨_, h0, h1⟩ := h
    obtain ⟨a, b, c', d, e, f, g, i⟩ := oidcTok_ok _ _ _ _ _ h0
    exact ⟨a, b, c', d, e, f, g, i, .inr (.inl ⟨.inl rfl, h1⟩)⟩
  · obtain ⟨_, h0, h1⟩ := h
    obtain ⟨a, b, c', d, e, f, g, i⟩ := oidcTok_ok _ _ _ _ _ h0
    exact ⟨a, b, c', d, e, f, g, i, .inr (.inl ⟨.inr rfl, h1⟩)⟩

theorem k8sTok_ok (p : Prov) (c : Cr) (now : Int) (t : Tok) (u : Unit) (hty : p.ty = .k8ssa)
    (h : k8sTok p c now t = .ok u) : c.sig = true ∧ t.iss = k8sIssuer ∧ Window now t ∧ t.sub ≠ [] := by
  unfold k8sTok at h
  simp only [bind_ok, need_ok] at h
  obtain ⟨_, h0, _, h1, h2⟩ := h
  obtain ⟨hi, hw⟩ := validate_ok _ _ _ _ h1
  refine ⟨h0, ?_, hw, ?_⟩
  · simp only [Prov.expIssuer, hty] at hi
    rcases hi with hi | hi
    · simp [k8sIssuer, s] at hi
    · exact hi
  · intro hs; simp [hs] at h2

theorem k8sOp_ok (p : Prov) (c : Cr) (now : Int) (op : Op) (t : Tok) (u : Unit) (hty : p.ty = .k8ssa)
    (h : k8sOp p c now op t = .ok u) :
    c.sig = true ∧ t.iss = k8sIssuer ∧ Window now t ∧ t.sub ≠ [] ∧
      (op = .sign ∨ op = .revoke ∨ (op = .sshSign ∧ p.sshEnabled = true)) := by
  cases op <;> simp only [k8sOp, bind_ok, need_ok] at h
  · obtain ⟨a, b, c', d⟩ := k8sTok_ok _ _ _ _ _ hty h; exact ⟨a, b, c', d, by simp⟩
  · obtain ⟨_, hs, h0⟩ := h
    obtain ⟨a, b, c', d⟩ := k8sTok_ok _ _ _ _ _ hty h0; exact ⟨a, b, c', d, by simp [hs]⟩
  · exact absurd h (baseReject_ne _)
  · exact absurd h (baseReject_ne _)
  · obtain ⟨a, b, c', d⟩ := k8sTok_ok _ _ _ _ _ hty h; exact ⟨a, b, c', d, by simp⟩
  · exact absurd h (baseReject_ne _)

theorem audOk_of_match (cfg : Config) (p : Prov) (op : Op) (t : Tok)
    (h : audMatch t.aud (provAuds cfg p op) = true) : AudOk cfg p op t := by
  obtain ⟨a, ha, b, hb, hab⟩ := audMatch_true _ _ h
  unfold provAuds at hb
  simp only [List.mem_map] at hb
  obtain ⟨b', hb', rfl⟩ := hb
  exact ⟨a, ha, b', hb', hab⟩

theorem gcpTok_ok (cfg : Config) (p : Prov) (c : Cr) (l : Cl) (now : Int) (t : Tok) (u : Unit)
    (hty : p.ty = .gcp) (h : gcpTok cfg p c l now t = .ok u) :
    c.sig = true ∧ t.iss = gcpIssuer ∧ Window now t ∧ AudOk cfg p .sign t ∧
      l.subject = true ∧ l.scope = true ∧ l.age = true ∧ l.fields = true ∧ t.sub ≠ [] := by
  unfold gcpTok at h
  simp only [bind_ok, need_ok] at h
  obtain ⟨_, h0, _, h1, _, h2, _, h3, _, h4, _, h5, _, hs, h6⟩ := h
  obtain ⟨hi, hw⟩ := validate_ok _ _ _ _ h1
  refine ⟨h0, ?_, hw, audOk_of_match _ _ _ _ h2, h3, h4, h5, h6, ?_⟩
  · simp only [Prov.expIssuer, hty] at hi
    rcases hi with hi | hi
    · simp [gcpIssuer, s] at hi
    · exact hi
  · intro hh; simp [hh] at hs

theorem gcpOp_ok (cfg : Config) (p : Prov) (c : Cr) (l : Cl) (now : Int) (op : Op) (t : Tok) (u : Unit)
    (hty : p.ty = .gcp) (h : gcpOp cfg p c l now op t = .ok u) :
    c.sig = true ∧ t.iss = gcpIssuer ∧ Window now t ∧ AudOk cfg p .sign t ∧
      l.subject = true ∧ l.scope = true ∧ l.age = true ∧ l.fields = true ∧ t.sub ≠ [] ∧
      (op = .sign ∨ (op = .sshSign ∧ p.sshEnabled = true ∧ l.sshKind = true)) := by
  cases op <;> simp only [gcpOp, bind_ok, need_ok] at h
  · obtain ⟨a, b, c', d, e, f, g, i, j⟩ := gcpTok_ok _ _ _ _ _ _ _ hty h
    exact ⟨a, b, c', d, e, f, g, i, j, .inl rfl⟩
  · obtain ⟨_, hs, _, hk, h'⟩ := h
    obtain ⟨a, b, c', d, e, f, g, i, j⟩ := gcpTok_ok _ _ _ _ _ _ _ hty h'
    exact ⟨a, b, c', d, e, f, g, i, j, .inr ⟨rfl, hs, hk⟩⟩
  all_goals exact absurd h (baseReject_ne _)

theorem awsTok_ok (cfg : Config) (p : Prov) (c : Cr) (l : Cl) (now : Int) (t : Tok) (u : Unit)
    (hty : p.ty = .aws) (h : awsTok cfg p c l now t = .ok u) :
    c.sig = true ∧ c.chain = true ∧ l.fields = true ∧ t.iss = awsIssuer ∧ Window now t ∧ AudOk cfg p .sign t ∧
      l.subject = true ∧ l.scope = true ∧ l.age = true ∧ t.sub ≠ [] := by
  unfold awsTok at h
  simp only [bind_ok, need_ok] at h
  obtain ⟨_, h0, _, h1, _, h2, _, h3, _, h4, _, hs, _, h5, _, h6, h7⟩ := h
  obtain ⟨hi, hw⟩ := validate_ok _ _ _ _ h3
  refine ⟨h0, h1, h2, ?_, hw, audOk_of_match _ _ _ _ h4, h5, h6, h7, ?_⟩
  · simp only [Prov.expIssuer, hty] at hi
    rcases hi with hi | hi
    · simp [awsIssuer, s] at hi
    · exact hi
  · intro hh; simp [hh] at hs

theorem awsOp_ok (cfg : Config) (p : Prov) (c : Cr) (l : Cl) (now : Int) (op : Op) (t : Tok) (u : Unit)
    (hty : p.ty = .aws) (h : awsOp cfg p c l now op t = .ok u) :
    c.sig = true ∧ c.chain = true ∧ l.fields = true ∧ t.iss = awsIssuer ∧ Window now t ∧ AudOk cfg p .sign t ∧
      l.subject = true ∧ l.scope = true ∧ l.age = true ∧ t.sub ≠ [] ∧
      (op = .sign ∨ (op = .sshSign ∧ p.sshEnabled = true)) := by
  cases op <;> simp only [awsOp, bind_ok, need_ok] at h
  · obtain ⟨a, b, c', d, e, f, g, i, j, k⟩ := awsTok_ok _ _ _ _ _ _ _ hty h
    exact ⟨a, b, c', d, e, f, g, i, j, k, .inl rfl⟩
  · obtain ⟨_, hs, h'⟩ := h
    obtain ⟨a, b, c', d, e, f, g, i, j, k⟩ := awsTok_ok _ _ _ _ _ _ _ hty h'
    exact ⟨a, b, c', d, e, f, g, i, j, k, .inr ⟨rfl, hs⟩⟩
  all_goals exact absurd h (baseReject_ne _)

theorem azureTok_ok (p : Prov) (c : Cr) (l : Cl) (now : Int) (t : Tok) (u : Unit)
    (h : azureTok p c l now t = .ok u) :
    c.sig = true ∧ (p.oidcIssuer = [] ∨ t.iss = p.oidcIssuer) ∧ (∃ a ∈ t.aud, a.raw = p.audience) ∧
      Window now t ∧ t.tid = p.clientId ∧ l.fields = true ∧ t.sub ≠ [] := by
  unfold azureTok at h
  simp only [bind_ok, need_ok] at h
  obtain ⟨_, h0, _, h1, _, h2, _, h3, _, hs, _, h4, h5⟩ := h
  refine ⟨h0, ?_, by simpa using h2, (validate_ok _ _ _ _ h3).2, by simpa using h4, h5, ?_⟩
  · simp at h1; rcases h1 with h1 | h1
    · exact .inl h1
    · exact .inr h1.symm
  · intro hh; simp [hh] at hs

theorem azureOp_ok (p : Prov) (c : Cr) (l : Cl) (now : Int) (op : Op) (t : Tok) (u : Unit)
    (h : azureOp p c l now op t = .ok u) :
    c.sig = true ∧ (p.oidcIssuer = [] ∨ t.iss = p.oidcIssuer) ∧ (∃ a ∈ t.aud, a.raw = p.audience) ∧
      Window now t ∧ t.tid = p.clientId ∧ l.fields = true ∧ t.sub ≠ [] ∧
      ((op = .sign ∧ l.scope = true) ∨ (op = .sshSign ∧ p.sshEnabled = true)) := by
  cases op <;> simp only [azureOp, bind_ok, need_ok] at h
  · obtain ⟨_, h', hsc⟩ := h
    obtain ⟨a, b, c', d, e, f, g⟩ := azureTok_ok _ _ _ _ _ _ h'
    exact ⟨a, b, c', d, e, f, g, .inl ⟨rfl, hsc⟩⟩
  · obtain ⟨_, hs, h'⟩ := h
    obtain ⟨a, b, c', d, e, f, g⟩ := azureTok_ok _ _ _ _ _ _ h'
    exact ⟨a, b, c', d, e, f, g, .inr ⟨rfl, hs⟩⟩
  all_goals exact absurd h (baseReject_ne _)

theorem tokenlessOp_ok (ty : PType) (op : Op) (u : Unit) (h : tokenlessOp ty op = .ok u) :
    op = .sign ∨ (ty = .acme ∧ op = .revoke) := by
  cases ty <;> cases op <;> simp_all [tokenlessOp, baseReject]

theorem provOp_ok (cfg : Config) (p : Prov) (c : Cr) (l : Cl) (now : Int) (op : Op) (t : Tok) (u : Unit)
    (h : provOp cfg p c l now op t = .ok u) : Accepts cfg p c l now op t := by
  unfold provOp at h
  unfold Accepts
  split at h <;> rename_i hty <;> simp only [hty]
  · exact awsOp_ok _ _ _ _ _ _ _ _ hty h
  · exact gcpOp_ok _ _ _ _ _ _ _ _ hty h
  · exact azureOp_ok _ _ _ _ _ _ _ h
  · exact jwkOp_ok _ _ _ _ _ _ _ hty h
  · exact x5cOp_ok _ _ _ _ _ _ _ hty h
  · exact sshpopOp_ok _ _ _ _ _ _ _ hty h
  · exact oidcOp_ok _ _ _ _ _ _ h
  · exact k8sOp_ok _ _ _ _ _ _ hty h
  · exact nebulaOp_ok _ _ _ _ _ _ _ hty h
  · rcases tokenlessOp_ok _ _ _ h with h | ⟨_, h⟩
    · exact .inl h
    · exact .inr h
  · rcases tokenlessOp_ok _ _ _ h with h | ⟨h, _⟩
    · exact h
    · simp at h

/-! ### lookup -/

theorem findId_some (id : Str) (ps : List Prov) (k i : Nat) (p : Prov) (h : findId id ps k = some (i, p)) :
    k ≤ i ∧ ps[i - k]? = some p ∧ p.tokenId = id := by
  induction ps generalizing k with
  | nil => simp [findId] at h
  | cons q qs ih =>
    unfold findId at h
    split at h
    · rename_i hq
      simp only [Option.some.injEq, Prod.mk.injEq] at h
      obtain ⟨rfl, rfl⟩ := h
      simp at hq
      simp [hq]
    · obtain ⟨h1, h2, h3⟩ := ih _ h
      refine ⟨by omega, ?_, h3⟩
      have : i - k = (i - (k + 1)) + 1 := by omega
      rw [this]
      simpa using h2

theorem byTokenId_some (cfg : Config) (id : Str) (i : Nat) (p : Prov) (h : byTokenId cfg id = some (i, p)) :
    cfg.provs[i]? = some p ∧ p.tokenId = id := by
  obtain ⟨_, h2, h3⟩ := findId_some _ _ _ _ _ h
  exact ⟨by simpa using h2, h3⟩

/-- the identifiers `LoadByToken` can look a provisioner up by: all read from the unverified token -/
def candidates (t : Tok) : List Str :=
  [t.fragment, t.iss ++ s ":" ++ t.kid, s "k8ssa/k8sSA-default", t.azp, t.tid] ++ (t.aud.take 1).map (·.raw)

theorem orElse'_some {α : Type} (a : Option α) (b : Unit → Option α) (x : α) (h : orElse' a b = some x) :
    a = some x ∨ b () = some x := by
  unfold orElse' at h
  split at h
  · left; rename_i y; simp_all
  · right; exact h

/-- `LoadByToken` returns a configured provisioner whose token id is one of the candidates. -/
theorem loadByToken_some (cfg : Config) (t : Tok) (i : Nat) (p : Prov) (h : loadByToken cfg t = some (i, p)) :
    cfg.provs[i]? = some p ∧ p.tokenId ∈ candidates t := by
  have key : ∀ id, id ∈ candidates t → byTokenId cfg id = some (i, p) → cfg.provs[i]? = some p ∧ p.tokenId ∈ candidates t := by
    intro id hid hb
    obtain ⟨h1, h2⟩ := byTokenId_some _ _ _ _ hb
    exact ⟨h1, h2 ▸ hid⟩
  unfold loadByToken at h
  split at h
  · split at h
    · exact key _ (by simp [candidates]) h
    · exact key _ (by simp [candidates]) h
  · unfold loadByClaims at h
    split at h
    · simp at h
    · split at h
      · exact key _ (by simp [candidates]) h
      · split at h
        · simp at h
        · rename_i a0 rest haud
          rcases orElse'_some _ _ _ h with h | h
          · split at h
            · exact key _ (by simp [candidates]) h
            · simp at h
          · rcases orElse'_some _ _ _ h with h | h
            · split at h
              · rcases orElse'_some _ _ _ h with h | h
                · split at h
                  · exact key _ (by simp [candidates, haud]) h
                  · simp at h
                · exact key _ (by simp [candidates]) h
              · simp at h
            · exact key _ (by simp [candidates, haud]) h

/-! ### the central theorem -/

/-- **authorize_sound.** If `Authority.Authorize` accepts a token for `op` and answers with
    provisioner `i`, then `i` is a configured provisioner that initialised, it is the one the
    token's unverified claims name and not an ACME / SCEP provisioner (those ignore tokens and
    are refused, fix 719d1fc), the token was not issued before the CA started (unless that
    check is off), SSH operations have an SSH CA behind them, and the token satisfies what that
    provisioner's type requires (`Accepts`, spelled out per type above). For every configuration,
    instant, operation and token. -/
theorem authorize_sound (cfg : Config) (now : Int) (op : Op) (t : Tok) (i : Nat)
    (h : authorize cfg now op t = .ok i) :
    ∃ p, cfg.provs[i]? = some p ∧ (p.ty ≠ .acme ∧ p.ty ≠ .scep) ∧ p.init = true ∧
      p.tokenId ∈ candidates t ∧ t.parsed = true ∧
      (needsSSHCA op = true → cfg.sshCA = true) ∧
      (cfg.disableIat = false → ∀ iat, t.iat = some iat → cfg.startTime ≤ iat) ∧
      Accepts cfg p (t.crAt i) (t.clAt i) now op t := by
  unfold authorize at h
  simp only [bind_ok, need_ok] at h
  obtain ⟨_, h0, _, h1, h2⟩ := h
  split at h2
  · simp at h2
  · rename_i j p hl
    simp only [bind_ok, need_ok, pure_ok] at h2
    obtain ⟨_, hty, _, h3, _, h4, _, h5, rfl⟩ := h2
    obtain ⟨hm, hc⟩ := loadByToken_some _ _ _ _ hl
    have hty' : p.ty ≠ .acme ∧ p.ty ≠ .scep := by
      simpa using hty
    refine ⟨p, hm, hty', h3, hc, h1, ?_, ?_, provOp_ok _ _ _ _ _ _ _ _ h5⟩
    · intro hn; simpa [hn] using h0
    · intro hd iat hi
      simp only [hd, issuedBefore, hi, Bool.false_or, Bool.not_eq_true', decide_eq_false_iff_not] at h4
      omega

/-! ### "verifies under the key material of a configured provisioner" -/

/-- the token verifies under the key material of provisioner `p` (crypto facts `c`), per type -/
def Verifies (cfg : Config) (p : Prov) (c : Cr) (t : Tok) : Prop :=
  match p.ty with
  | .jwk | .oidc | .k8ssa | .gcp | .azure => c.sig = true
  | .x5c => c.chain = true ∧ c.digSig = true ∧ c.sig = true
  | .nebula | .aws => c.chain = true ∧ c.sig = true
  -- SSHPOP: the certificate is signed by one of this CA's own SSH keys of its type (never a
  -- federated CA's), and the token by the certificate's key
  | .sshpop => (∃ pc, t.pop = some pc ∧ RootSigned cfg pc) ∧ c.sig = true
  | .acme | .scep => False

/-- a CA with one DNS name, one JWK provisioner, one OIDC provisioner and one ACME provisioner -/
def exHost : Host := ⟨s "ca", false, true, s "ca", s "ca"⟩
def exJwk : Prov := ⟨.jwk, s "jwk", s "k1", [], [], [], s "jwk:k1", true, true, false, false⟩
def exOidc : Prov := ⟨.oidc, s "oidc", [], s "client", [], s "https://idp", s "client", true, true, false, false⟩
def exAcme : Prov := ⟨.acme, s "acme", [], [], [], [], s "acme/acme", true, false, false, false⟩
def exCfg : Config := ⟨[exHost], [exJwk, exOidc, exAcme], true, false, 1000, []⟩

def exTok : Tok :=
  { parsed := true, kid := s "k1", iss := s "jwk", sub := s "host", aud := [⟨s "https://ca/1.0/sign", s "https://ca/1.0/sign"⟩],
    exp := some 2300, nbf := some 1999, iat := some 2000, azp := [], tid := [], email := [], lbtOk := true,
    fragment := [], fragEsc := [], hasSSH := false, sshTypeOk := true, nebSshOk := true, pop := none,
    cr := [⟨true, false, false, false, false, false, false, false⟩, Cr.none, Cr.none] }

/-- a valid JWK sign token is accepted (the hypotheses of `authorize_sound` are satisfiable) -/
example : authorize exCfg (2000 * ns) .sign exTok = .ok 0 := by decide

/-- … and the same token is refused for revoke: its audience is the sign URL -/
example : authorize exCfg (2000 * ns) .revoke exTok = .reject .audience := by decide

/-- A token signed by nobody in particular (no crypto fact holds for any provisioner, no issuer,
    no subject, no validity claims) whose only content is the audience
    `https://ca/1.0/sign#acme/acme`. -/
def forgedTok : Tok :=
  { parsed := true, kid := [], iss := [], sub := [], aud := [⟨s "https://ca/1.0/sign#acme/acme", s "https://ca/1.0/sign#acme/acme"⟩],
    exp := none, nbf := none, iat := none, azp := [], tid := [], email := [], lbtOk := true,
    fragment := s "acme/acme", fragEsc := s "acme/acme", hasSSH := false, sshTypeOk := true, nebSshOk := true, pop := none,
    cr := [Cr.none, Cr.none, Cr.none] }

/-- `Authority.Authorize` as it was before fix 719d1fc: the provisioner the token names was used
    whatever its type (historic; kept for the refutation below). -/
def authorizeOld (cfg : Config) (now : Int) (op : Op) (t : Tok) : Out Nat := do
  need (!needsSSHCA op || cfg.sshCA) .sshNotEnabled
  need t.parsed .parse
  match loadByToken cfg t with
  | none => .reject .notFound
  | some (i, p) =>
    need p.init .disabled
    need (cfg.disableIat || !issuedBefore cfg t) .issuedBeforeStart
    provOp cfg p (t.crAt i) (t.clAt i) now op t
    pure i

/-- **Historic refutation (D21, CVE-2025-44005 class; fixed by 719d1fc).** For the code as it stood,
    "accepted ⇒ the token verifies under the key material of the answering provisioner" was
    false: with an ACME provisioner configured, `forgedTok` was authorized for sign (and revoke). -/
theorem authorize_genuine_refuted :
    ¬ ∀ (cfg : Config) (now : Int) (op : Op) (t : Tok) (i : Nat), authorizeOld cfg now op t = .ok i →
        ∃ p, cfg.provs[i]? = some p ∧ Verifies cfg p (t.crAt i) t := by
  intro h
  have hacc : authorizeOld exCfg 0 .sign forgedTok = .ok 2 := by decide
  obtain ⟨p, hp, hv⟩ := h _ _ _ _ _ hacc
  have : p = exAcme := by
    have : exCfg.provs[2]? = some exAcme := rfl
    rw [this] at hp; exact (Option.some.inj hp).symm
  subst this
  exact hv

/-- the forged token is refused now, for sign and for revoke -/
example : authorize exCfg 0 .sign forgedTok = .reject .tokenless := by decide
example : authorize exCfg 0 .revoke forgedTok = .reject .tokenless := by decide

/-- **authorize_genuine.** For every configuration, instant, operation and token: an accepted
    token verifies under the key material of the configured, initialised provisioner that
    answered (crypto facts as premises: `Verifies`). -/
theorem authorize_genuine (cfg : Config) (now : Int) (op : Op) (t : Tok) (i : Nat)
    (h : authorize cfg now op t = .ok i) :
    ∃ p, cfg.provs[i]? = some p ∧ p.init = true ∧ Verifies cfg p (t.crAt i) t := by
  obtain ⟨p, hp, ⟨h1, h2⟩, hi, _, _, _, _, ha⟩ := authorize_sound _ _ _ _ _ h
  refine ⟨p, hp, hi, ?_⟩
  unfold Accepts at ha
  unfold Verifies
  cases hty : p.ty <;> simp only [hty] at ha h1 h2 ⊢
  · exact ha.1
  · exact ⟨ha.1, ha.2.1, ha.2.2.1⟩
  · obtain ⟨pc, hpc, a, b, _⟩ := ha; exact ⟨⟨pc, hpc, a⟩, b⟩
  · exact ha.1
  · exact ha.1
  · exact ⟨ha.1, ha.2.1⟩
  · exact absurd rfl h1
  · exact absurd rfl h2
  · exact ⟨ha.2.1, ha.1⟩
  · exact ha.1
  · exact ha.1

/-! ### non-empty subject -/

def oidcTokNoSub : Tok :=
  { parsed := true, kid := s "idp-key", iss := s "https://idp", sub := [], aud := [⟨s "client", s "client"⟩],
    exp := some 2300, nbf := none, iat := some 2000, azp := [], tid := [], email := [], lbtOk := true,
    fragment := [], fragEsc := [], hasSSH := false, sshTypeOk := true, nebSshOk := true, pop := none,
    cr := [Cr.none, ⟨true, false, false, false, true, true, true, false⟩, Cr.none] }

/-- `OIDC.authorizeToken` + `ValidatePayload` as they were before fix 1529327 (no subject test; historic) -/
def oidcTokOld (p : Prov) (c : Cr) (now : Int) (t : Tok) : Out Unit := do
  need c.sig .signature
  need (p.oidcIssuer.isEmpty || p.oidcIssuer == t.iss) .issuer
  need (t.aud.any fun a => a.raw == p.clientId) .audience
  validate [] now t
  need (t.azp.isEmpty || t.azp == p.clientId) .azp
  need c.domainOk .domain
  need c.groupOk .group

/-- **Historic refutation (D22, fixed by 1529327).** Before the fix a verified OIDC id token with no
    `sub` passed `ValidatePayload`, hence X.509 sign. -/
theorem subject_refuted :
    ¬ ∀ (p : Prov) (c : Cr) (now : Int) (t : Tok) (u : Unit), oidcTokOld p c now t = .ok u → t.sub ≠ [] := by
  intro h
  have hacc : oidcTokOld exOidc ⟨true, false, false, false, true, true, true, false⟩ (2000 * ns) oidcTokNoSub = .ok () := by
    decide
  exact h _ _ _ _ _ hacc rfl

/-- the same token is refused now -/
example : authorize exCfg (2000 * ns) .sign oidcTokNoSub = .reject .subject := by decide

/-- `GCP.authorizeToken` as it was before fix 6a9c1d5 (no subject test; historic, as were `AWS` and `Azure`) -/
def gcpTokOld (cfg : Config) (p : Prov) (c : Cr) (l : Cl) (now : Int) (t : Tok) : Out Unit := do
  need c.sig .signature
  validate p.expIssuer now t
  need (audMatch t.aud (provAuds cfg p .sign)) .audience
  need l.subject .cloudFilter
  need l.scope .cloudFilter
  need l.age .cloudAge
  need l.fields .cloudDocument

/-- the provisioner types whose code does not require a subject: none since 6a9c1d5
    (kept as a name so that the history of the statement stays readable) -/
def NoSubjectTest (_ : PType) : Prop := False

/-- **subject_nonempty.** An accepted token has a non-empty subject. For every configuration,
    instant, operation, token and every one of the eleven provisioner types. -/
theorem subject_nonempty (cfg : Config) (now : Int) (op : Op) (t : Tok) (i : Nat)
    (h : authorize cfg now op t = .ok i) : t.sub ≠ [] := by
  obtain ⟨p, _, ⟨h1, h2⟩, _, _, _, _, _, ha⟩ := authorize_sound _ _ _ _ _ h
  unfold Accepts at ha
  cases hty : p.ty <;> simp only [hty] at ha h1 h2
  · exact ha.2.1.2.2.2
  · exact ha.2.2.2.1.2.2.2
  · obtain ⟨_, _, _, _, hc, _⟩ := ha; exact hc.2.2.2
  · exact ha.2.2.2.1
  · exact ha.2.2.2.1
  · exact ha.2.2.1.2.2.2
  · exact absurd rfl h1
  · exact absurd rfl h2
  · exact ha.2.2.2.2.2.2.2.2.2.1
  · exact ha.2.2.2.2.2.2.2.2.1
  · exact ha.2.2.2.2.2.2.1

/-- **mutation: empty subject** ⇒ refused, unconditionally. -/
theorem mutation_empty_subject (cfg : Config) (now : Int) (op : Op) (t : Tok)
    (hs : t.sub = []) : ∀ i, authorize cfg now op t ≠ .ok i := by
  intro i h
  exact subject_nonempty _ _ _ _ _ h hs

/-- (kept for the record of the earlier rounds) a token without subject is accepted by no type -/
theorem subject_partial (cfg : Config) (now : Int) (op : Op) (t : Tok) (i : Nat)
    (hs : t.sub = []) (h : authorize cfg now op t = .ok i) :
    ∃ p, cfg.provs[i]? = some p ∧ NoSubjectTest p.ty :=
  absurd hs (subject_nonempty _ _ _ _ _ h)

/-! ### one corollary per mutation class of the statement -/

/-- the validity window holds for every accepted token -/
theorem window_of_accept (cfg : Config) (now : Int) (op : Op) (t : Tok) (i : Nat)
    (h : authorize cfg now op t = .ok i) : Window now t := by
  obtain ⟨p, _, ⟨h1, h2⟩, _, _, _, _, _, ha⟩ := authorize_sound _ _ _ _ _ h
  unfold Accepts at ha
  cases hty : p.ty <;> simp only [hty] at ha h1 h2
  · exact ha.2.1.2.1
  · exact ha.2.2.2.1.2.1
  · obtain ⟨_, _, _, _, hc, _⟩ := ha; exact hc.2.1
  · exact ha.2.2.1
  · exact ha.2.2.1
  · exact ha.2.2.1.2.1
  · exact absurd rfl h1
  · exact absurd rfl h2
  · exact ha.2.2.2.2.1
  · exact ha.2.2.1
  · exact ha.2.2.2.1

/-- **expired**: `exp` more than a minute in the past ⇒ refused -/
theorem mutation_expired (cfg : Config) (now : Int) (op : Op) (t : Tok) (e : Int)
    (he : t.exp = some e) (hlt : e * ns + leeway < now) : ∀ i, authorize cfg now op t ≠ .ok i := by
  intro i h
  have := (window_of_accept _ _ _ _ _ h).2.1 e he
  omega

/-- **not yet valid**: `nbf` more than a minute ahead ⇒ refused -/
theorem mutation_not_yet_valid (cfg : Config) (now : Int) (op : Op) (t : Tok) (n : Int)
    (hn : t.nbf = some n) (hlt : now < n * ns - leeway) : ∀ i, authorize cfg now op t ≠ .ok i := by
  intro i h
  have := (window_of_accept _ _ _ _ _ h).1 n hn
  omega

/-- **issued before the CA started** (check not switched off) ⇒ refused, whatever provisioner the
    token names — this gate precedes every provisioner, ACME and SCEP included. -/
theorem mutation_issued_before_start (cfg : Config) (now : Int) (op : Op) (t : Tok) (iat : Int)
    (hd : cfg.disableIat = false) (hi : t.iat = some iat) (hlt : iat < cfg.startTime) :
    ∀ i, authorize cfg now op t ≠ .ok i := by
  intro i h
  obtain ⟨_, _, _, _, _, _, _, hs, _⟩ := authorize_sound _ _ _ _ _ h
  have := hs hd iat hi
  omega

/-- **removed provisioner**: if none of the identifiers the token can be looked up by is the token
    id of a configured provisioner, the token is refused. -/
theorem mutation_removed (cfg : Config) (now : Int) (op : Op) (t : Tok)
    (hr : ∀ p ∈ cfg.provs, p.tokenId ∉ candidates t) : ∀ i, authorize cfg now op t ≠ .ok i := by
  intro i h
  obtain ⟨p, hp, _, _, hc, _⟩ := authorize_sound _ _ _ _ _ h
  exact hr p (List.mem_of_getElem? hp) hc

/-- **failed-to-initialise provisioner**: if the provisioner the token names did not initialise, refused. -/
theorem mutation_uninitialised (cfg : Config) (now : Int) (op : Op) (t : Tok)
    (hu : ∀ i p, loadByToken cfg t = some (i, p) → p.init = false) : ∀ i, authorize cfg now op t ≠ .ok i := by
  intro i h
  unfold authorize at h
  simp only [bind_ok, need_ok] at h
  obtain ⟨_, _, _, _, h2⟩ := h
  split at h2
  · simp at h2
  · rename_i j p hl
    simp only [bind_ok, need_ok] at h2
    obtain ⟨_, _, _, h3, _⟩ := h2
    rw [hu _ _ hl] at h3
    cases h3

/-- **other key / other algorithm / any bit of header, payload or signature altered**, as far as it
    is a theorem here: if the token does not verify under the key material of the provisioner its
    claims name, it is refused. (That an altered bit makes
    verification fail is go-jose's / crypto's guarantee: a premise, sampled by the harness.) -/
theorem mutation_other_key (cfg : Config) (now : Int) (op : Op) (t : Tok)
    (hk : ∀ i p, loadByToken cfg t = some (i, p) → ¬ Verifies cfg p (t.crAt i) t) :
    ∀ i, authorize cfg now op t ≠ .ok i := by
  intro i h
  obtain ⟨p, _, _, hv⟩ := authorize_genuine _ _ _ _ _ h
  unfold authorize at h
  simp only [bind_ok, need_ok] at h
  obtain ⟨_, _, _, _, h2⟩ := h
  split at h2
  · simp at h2
  · rename_i j q hl
    simp only [bind_ok, need_ok, pure_ok] at h2
    obtain ⟨_, hnt, _, _, _, _, _, h5, rfl⟩ := h2
    have ha := provOp_ok _ _ _ _ _ _ _ _ h5
    apply hk _ _ hl
    unfold Accepts at ha
    unfold Verifies
    cases hty : q.ty <;> simp only [hty] at ha ⊢
    · exact ha.1
    · exact ⟨ha.1, ha.2.1, ha.2.2.1⟩
    · obtain ⟨pc, hpc, a, b, _⟩ := ha; exact ⟨⟨pc, hpc, a⟩, b⟩
    · exact ha.1
    · exact ha.1
    · exact ⟨ha.1, ha.2.1⟩
    · simp [hty] at hnt
    · simp [hty] at hnt
    · exact ⟨ha.2.1, ha.1⟩
    · exact ha.1
    · exact ha.1

/-- the provisioner types whose tokens are minted with a key or certificate registered at the CA
    and addressed to one of the CA's URLs -/
def UrlAddressed (ty : PType) : Prop := ty = .jwk ∨ ty = .x5c ∨ ty = .sshpop ∨ ty = .nebula

/-- **other operation / other CA**: a JWK, X5C, SSHPOP or Nebula provisioner accepts a token for `op`
    only if one of its audiences matches an element of the list for `op`, every element of which is
    (by `audiences_per_op`) a URL of *this* CA for *that* kind of operation or the legacy constant. -/
theorem mutation_other_operation (cfg : Config) (now : Int) (op : Op) (t : Tok) (i : Nat)
    (h : authorize cfg now op t = .ok i) :
    ∃ p, cfg.provs[i]? = some p ∧ (UrlAddressed p.ty →
      ∃ a ∈ t.aud, ∃ b, ((b = .legacy ∧ (op = .sign ∨ op = .revoke)) ∨ ∃ op', Shares op op' ∧ IsUrlFor cfg.hosts op' b) ∧
        ((b.render p.audFrag).1 = a.raw ∨ a.stripped = (b.render p.audFrag).2)) := by
  obtain ⟨p, hp, _, _, _, _, _, _, ha⟩ := authorize_sound _ _ _ _ _ h
  refine ⟨p, hp, ?_⟩
  intro hu
  have haud : AudOk cfg p op t := by
    unfold Accepts at ha
    unfold UrlAddressed at hu
    cases hty : p.ty <;> simp only [hty] at ha hu
    · exact ha.2.1.2.2.1
    · exact ha.2.2.2.1.2.2.1
    · obtain ⟨_, _, _, _, hc, _⟩ := ha; exact hc.2.2.1
    · simp at hu
    · simp at hu
    · exact ha.2.2.1.2.2.1
    · simp at hu
    · simp at hu
    · simp at hu
    · simp at hu
    · simp at hu
  obtain ⟨a, ha', b, hb, hm⟩ := haud
  exact ⟨a, ha', b, audiences_per_op _ _ _ hb, hm⟩

/-- consequence used as "mutation: other operation / other CA": if no audience of the token matches
    any element of the provisioner's list for `op`, a URL-addressed provisioner does not accept it -/
theorem mutation_other_audience (cfg : Config) (now : Int) (op : Op) (t : Tok)
    (hk : ∀ i p, loadByToken cfg t = some (i, p) → UrlAddressed p.ty ∧ audMatch t.aud (provAuds cfg p op) = false) :
    ∀ i, authorize cfg now op t ≠ .ok i := by
  intro i h
  unfold authorize at h
  simp only [bind_ok, need_ok] at h
  obtain ⟨_, _, _, _, h2⟩ := h
  split at h2
  · simp at h2
  · rename_i j p hl
    simp only [bind_ok, need_ok, pure_ok] at h2
    obtain ⟨_, _, _, _, _, _, _, h5, rfl⟩ := h2
    obtain ⟨hu, hm⟩ := hk _ _ hl
    unfold provOp at h5
    unfold UrlAddressed at hu
    have key : ∀ u, claimsAudSub cfg p now op t ≠ .ok u := by
      intro u hc
      unfold claimsAudSub at hc
      simp only [bind_ok, need_ok] at hc
      obtain ⟨_, _, _, h2, _⟩ := hc
      rw [hm] at h2; cases h2
    cases hty : p.ty <;> simp only [hty] at h5 hu
    · cases op <;> simp only [jwkOp, jwkTok, bind_ok, need_ok] at h5
      · obtain ⟨_, _, h⟩ := h5; exact key _ h
      · obtain ⟨_, _, _, ⟨_, _, h⟩, _⟩ := h5; exact key _ h
      · exact baseReject_ne _ h5
      · exact baseReject_ne _ h5
      · obtain ⟨_, _, h⟩ := h5; exact key _ h
      · obtain ⟨_, _, h⟩ := h5; exact key _ h
    · cases op <;> simp only [x5cOp, x5cTok, bind_ok, need_ok] at h5
      · obtain ⟨_, _, _, _, _, _, h⟩ := h5; exact key _ h
      · obtain ⟨_, _, _, ⟨_, _, _, _, _, _, h⟩, _⟩ := h5; exact key _ h
      · exact baseReject_ne _ h5
      · exact baseReject_ne _ h5
      · obtain ⟨_, _, _, _, _, _, h⟩ := h5; exact key _ h
      · exact baseReject_ne _ h5
    · obtain ⟨pc, _, _, _, hc, _⟩ := sshpopOp_ok _ _ _ _ _ _ _ hty h5
      obtain ⟨a, ha, b, hb, hab⟩ := hc.2.2.1
      have : audMatch t.aud (provAuds cfg p op) = true := by
        unfold audMatch provAuds
        simp only [Bool.and_eq_true, List.any_eq_true, Bool.or_eq_true, beq_iff_eq, Bool.not_eq_true',
          List.isEmpty_eq_false_iff, ne_eq, List.map_eq_nil_iff, List.mem_map]
        refine ⟨⟨?_, ?_⟩, _, ⟨b, hb, rfl⟩, a, ha, hab⟩
        · intro he; rw [he] at hb; cases hb
        · intro he; rw [he] at ha; cases ha
      rw [hm] at this; cases this
    · simp at hu
    · simp at hu
    · cases op <;> simp only [nebulaOp, bind_ok, need_ok] at h5
      · obtain ⟨_, h, _⟩ := h5; exact key _ (nebulaTok_ok _ _ _ _ _ _ _ h).2.2
      · obtain ⟨_, _, _, h, _⟩ := h5; exact key _ (nebulaTok_ok _ _ _ _ _ _ _ h).2.2
      · exact baseReject_ne _ h5
      · exact baseReject_ne _ h5
      · exact key _ (nebulaTok_ok _ _ _ _ _ _ _ h5).2.2
      · obtain ⟨_, _, h⟩ := h5; exact key _ (nebulaTok_ok _ _ _ _ _ _ _ h).2.2
    · simp at hu
    · simp at hu
    · simp at hu
    · simp at hu
    · simp at hu

/-! ### the hypotheses of the corollaries are met by ordinary states -/

/-- the example CA without its ACME provisioner (any configuration will do since 719d1fc) -/
def exCfg' : Config := ⟨[exHost], [exJwk, exOidc], true, false, 1000, []⟩

/-- expired by 61 s: refused; by 60 s: still accepted (`mutation_expired`) -/
example : authorize exCfg' ((2300 + 61) * ns) .sign exTok = .reject .expired := by decide
example : authorize exCfg' ((2300 + 60) * ns) .sign exTok = .ok 0 := by decide
/-- not valid for another 61 s: refused (`mutation_not_yet_valid`) -/
example : authorize exCfg' ((1999 - 61) * ns) .sign { exTok with iat := none } = .reject .notYetValid := by decide
/-- issued one second before the CA started (`mutation_issued_before_start`) -/
example : authorize exCfg' (2000 * ns) .sign { exTok with iat := some 999 } = .reject .issuedBeforeStart := by decide
/-- the same token, signature not verifying under `jwk`'s key (`mutation_other_key`) -/
example : authorize exCfg' (2000 * ns) .sign { exTok with cr := [Cr.none, Cr.none] } = .reject .signature := by decide
/-- kid of a provisioner that is not configured (`mutation_removed`) -/
example : authorize exCfg' (2000 * ns) .sign { exTok with kid := s "gone" } = .reject .notFound := by decide
/-- a provisioner that failed to initialise (`mutation_uninitialised`) -/
example : authorize ⟨[exHost], [{ exJwk with init := false }], true, false, 1000, []⟩ (2000 * ns) .sign exTok = .reject .disabled := by decide
/-- addressed to another CA (`mutation_other_audience`): the lookup itself fails -/
example : authorize exCfg' (2000 * ns) .sign
    { exTok with aud := [⟨s "https://other/1.0/sign", s "https://other/1.0/sign"⟩] } = .reject .notFound := by decide
/-- port variants are accepted: `https://ca:8443/1.0/sign` strips to the CA's URL -/
example : authorize exCfg' (2000 * ns) .sign
    { exTok with aud := [⟨s "https://ca:8443/1.0/sign", s "https://ca/1.0/sign"⟩] } = .ok 0 := by decide
/-- empty subject (`mutation_empty_subject`) -/
example : authorize ⟨[exHost], [exJwk], true, false, 1000, []⟩ (2000 * ns) .sign { exTok with sub := [] } = .reject .subject := by decide

/-! ### cloud identity provisioners: the model accepts what the source accepts (not validated by the harness) -/

def exGcp : Prov := ⟨.gcp, s "gcp", [], [], [], [], s "gcp/gcp", true, true, false, false⟩
def exAzure : Prov := ⟨.azure, s "az", [], s "tenant-1", s "https://management.azure.com/", s "https://sts/tenant-1/", [], true, true, false, false⟩
def exCloud : Config := ⟨[exHost], [exGcp, exAzure], true, false, 1000, []⟩

def gcpTokEx : Tok :=
  { parsed := true, kid := s "g1", iss := gcpIssuer, sub := [], aud := [⟨s "https://ca/1.0/sign#gcp/gcp", s "https://ca/1.0/sign#gcp/gcp"⟩],
    exp := some 2300, nbf := none, iat := some 2000, azp := [], tid := [], email := [], lbtOk := true,
    fragment := s "gcp/gcp", fragEsc := s "gcp/gcp", hasSSH := false, sshTypeOk := true, nebSshOk := true, pop := none,
    cr := [⟨true, false, false, false, false, false, false, false⟩, Cr.none],
    cl := [⟨true, true, true, true, true⟩, Cl.none] }

/-- a verified GCP identity token is accepted for sign and, with the same sign audience, for ssh-sign;
    without `sub` it is refused since 6a9c1d5 (C01-cloud-sub), while the historic definition let it through -/
example : authorize exCloud (2000 * ns) .sign { gcpTokEx with sub := s "1234567" } = .ok 0 := by decide
example : authorize exCloud (2000 * ns) .sshSign { gcpTokEx with sub := s "1234567" } = .ok 0 := by decide
example : authorize exCloud (2000 * ns) .revoke { gcpTokEx with sub := s "1234567" } = .reject .notImplemented := by decide
example : authorize exCloud (2000 * ns) .sign gcpTokEx = .reject .subject := by decide
example : gcpTokOld exCloud exGcp (gcpTokEx.crAt 0) (gcpTokEx.clAt 0) (2000 * ns) gcpTokEx = .ok () := by decide

def azTokEx : Tok :=
  { parsed := true, kid := s "a1", iss := s "https://sts/tenant-1/", sub := s "obj", aud := [⟨s "https://management.azure.com/", s "https://management.azure.com/"⟩],
    exp := some 2300, nbf := some 1999, iat := some 2000, azp := [], tid := s "tenant-1", email := [], lbtOk := true,
    fragment := [], fragEsc := [], hasSSH := false, sshTypeOk := true, nebSshOk := true, pop := none,
    cr := [Cr.none, ⟨true, false, false, false, false, false, false, false⟩],
    cl := [Cl.none, ⟨true, true, false, true, true⟩] }   -- `scope := false`: outside the configured resource groups

/-- Azure: a VM outside the configured resource groups is refused an X.509 certificate but is
    authorized for an SSH host certificate (`AuthorizeSSHSign` does not apply the filters) -/
example : authorize exCloud (2000 * ns) .sign azTokEx = .reject .cloudFilter := by decide
example : authorize exCloud (2000 * ns) .sshSign azTokEx = .ok 1 := by decide

/-! ### SSHPOP: only this CA's own SSH keys count, never a federated CA's -/

theorem sshRoot_spec (cfg : Config) (user : Bool) (k : Nat) (h : cfg.sshRoot user k = true) :
    ∃ key, cfg.sshKeys[k]? = some key ∧ key.user = user ∧ key.cls ≠ .federated := by
  unfold Config.sshRoot at h
  split at h
  · rename_i key hk
    simp only [Bool.and_eq_true, beq_iff_eq, bne_iff_ne, ne_eq] at h
    exact ⟨key, hk, h.1, h.2⟩
  · simp at h

/-- **sshpop_own_key.** If an SSHPOP provisioner answers, the SSH certificate in the token is signed
    by a key the authority lists among its *roots* for the certificate's type — its current signing
    key or a retired one (`ssh.keys`, `federated: false`) — and not by a federated CA's key. For
    every configuration, instant, operation and token. -/
theorem sshpop_own_key (cfg : Config) (now : Int) (op : Op) (t : Tok) (i : Nat) (p : Prov)
    (h : authorize cfg now op t = .ok i) (hp : cfg.provs[i]? = some p) (hty : p.ty = .sshpop) :
    ∃ pc k key, t.pop = some pc ∧ pc.signer = some k ∧ cfg.sshKeys[k]? = some key ∧
      key.user = pc.user ∧ key.cls ≠ .federated := by
  obtain ⟨q, hq, _, _, _, _, _, _, ha⟩ := authorize_sound _ _ _ _ _ h
  rw [hp] at hq
  cases Option.some.inj hq
  unfold Accepts at ha
  simp only [hty] at ha
  obtain ⟨pc, hpc, ⟨k, hk, hr⟩, _⟩ := ha
  obtain ⟨key, h1, h2, h3⟩ := sshRoot_spec _ _ _ hr
  exact ⟨pc, k, key, hpc, hk, h1, h2, h3⟩

/-- a CA with its host key (0), a retired host key (1) and a federated CA's host key (2) -/
def exSshCfg : Config :=
  { hosts := [exHost], provs := [⟨.sshpop, s "sshpop", [], [], [], [], s "sshpop/sshpop", true, true, false, false⟩],
    sshCA := true, disableIat := false, startTime := 1000,
    sshKeys := [⟨false, .own⟩, ⟨false, .retired⟩, ⟨false, .federated⟩] }

def popTokEx (signer : Option Nat) : Tok :=
  { parsed := true, kid := [], iss := s "sshpop", sub := s "77",
    aud := [⟨s "https://ca/1.0/ssh/rekey#sshpop/sshpop", s "https://ca/1.0/ssh/rekey#sshpop/sshpop"⟩],
    exp := some 2300, nbf := some 1999, iat := some 2000, azp := [], tid := [], email := [], lbtOk := true,
    fragment := s "sshpop/sshpop", fragEsc := s "sshpop/sshpop", hasSSH := false, sshTypeOk := true, nebSshOk := true,
    pop := some { after := 1000, before := 3000, host := true, user := false, serialIsSub := true, signer := signer },
    cr := [⟨true, false, false, false, false, false, false, false⟩] }

/-- certificates signed by the current or the retired key are accepted, by the federated key or a foreign one refused -/
example : authorize exSshCfg (2000 * ns) .sshRekey (popTokEx (some 0)) = .ok 0 := by decide
example : authorize exSshCfg (2000 * ns) .sshRekey (popTokEx (some 1)) = .ok 0 := by decide
example : authorize exSshCfg (2000 * ns) .sshRekey (popTokEx (some 2)) = .reject .chain := by decide
example : authorize exSshCfg (2000 * ns) .sshRekey (popTokEx none) = .reject .chain := by decide

/-! ### the provisioner collection: "currently configured" over every history of admin operations -/

/-- the three indexes agree: each holds exactly the provisioners of the others, under their own key -/
def Inv (c : Coll) : Prop :=
  (∀ k p, c.byID k = some p → p.id = k ∧ c.byName p.name = some p ∧ c.byTok p.tok = some p) ∧
  (∀ k p, c.byName k = some p → p.name = k ∧ c.byID p.id = some p) ∧
  (∀ k p, c.byTok k = some p → p.tok = k ∧ c.byID p.id = some p)

theorem inv_empty : Inv Coll.empty := by simp [Inv, Coll.empty]

theorem inv_store (c : Coll) (p : CP) (h : Inv c) : Inv (c.store p).1 := by
  unfold Coll.store
  split
  · exact h
  · split
    · exact h
    · split
      · exact h
      · rename_i h1 h2 h3
        obtain ⟨ha, hb, hc⟩ := h
        refine ⟨?_, ?_, ?_⟩ <;> intro k q hq <;> simp only [CMap.set] at hq ⊢
        all_goals grind

theorem inv_remove (c : Coll) (id : Str) (h : Inv c) : Inv (c.remove id).1 := by
  unfold Coll.remove
  split
  · exact h
  · rename_i q hq
    obtain ⟨ha, hb, hc⟩ := h
    refine ⟨?_, ?_, ?_⟩ <;> intro k p hp <;> simp only [CMap.del] at hp ⊢
    all_goals grind
theorem remove_ok (c : Coll) (id : Str) (h : (c.remove id).2 = true) : ∃ q, c.byID id = some q := by
  unfold Coll.remove at h
  split at h
  · simp at h
  · rename_i q hq; exact ⟨q, hq⟩

theorem inv_update (c : Coll) (nu : CP) (h : Inv c) : Inv (c.update nu).1 := by
  unfold Coll.update
  split
  · exact h
  · split
    · exact h
    · split
      · exact h
      · simp only
        split
        · exact inv_remove _ _ h
        · exact inv_store _ _ (inv_remove _ _ h)

theorem inv_foldl (ops : List COp) (c : Coll) (h : Inv c) : Inv (ops.foldl Coll.step c) := by
  induction ops generalizing c with
  | nil => exact h
  | cons o os ih =>
    apply ih
    cases o <;> simp only [Coll.step]
    · exact inv_store _ _ h
    · exact inv_remove _ _ h
    · exact inv_update _ _ h

theorem collection_consistent (ops : List COp) : Inv (Coll.run ops) := inv_foldl _ _ inv_empty

theorem lookup_current (ops : List COp) (t : Str) (p : CP) (h : (Coll.run ops).byTok t = some p) :
    p.tok = t ∧ (Coll.run ops).byID p.id = some p ∧ (Coll.run ops).byName p.name = some p := by
  obtain ⟨ha, _, hc⟩ := collection_consistent ops
  obtain ⟨h1, h2⟩ := hc _ _ h
  exact ⟨h1, h2, (ha _ _ h2).2.1⟩

theorem update_retires_old_id (c : Coll) (nu old : CP) (h : Inv c) (ho : c.byID nu.id = some old)
    (hok : (c.update nu).2 = true) (hne : old.tok ≠ nu.tok) : (c.update nu).1.byTok old.tok = none := by
  have hid : old.id = nu.id := (h.1 _ _ ho).1
  have hr : c.remove old.id = (⟨c.byID.del old.id, c.byName.del old.name, c.byTok.del old.tok⟩, true) := by
    unfold Coll.remove; rw [hid, ho]
  unfold Coll.update at hok ⊢
  rw [ho] at hok ⊢
  simp only [hr] at hok ⊢
  by_cases h1 : old.name ≠ nu.name ∧ (c.byName nu.name).isSome
  · rw [if_pos h1] at hok; simp at hok
  · rw [if_neg h1] at hok ⊢
    by_cases h2 : old.tok ≠ nu.tok ∧ (c.byTok nu.tok).isSome
    · rw [if_pos h2] at hok; simp at hok
    · rw [if_neg h2] at hok ⊢
      simp only [Bool.not_true, Bool.false_eq_true, if_false] at hok ⊢
      unfold Coll.store at hok ⊢
      split at hok
      · simp at hok
      · split at hok
        · simp at hok
        · split at hok
          · simp at hok
          · simp [CMap.set, CMap.del, hne]

theorem remove_retires (c : Coll) (id : Str) (q : CP) (hq : c.byID id = some q) :
    (c.remove id).1.byTok q.tok = none ∧ (c.remove id).1.byName q.name = none ∧ (c.remove id).1.byID id = none := by
  unfold Coll.remove
  simp [hq, CMap.del]

/-! ### source-derived tables: the authorization call chain and the method sets -/

/-- one item of a skeleton, without its nested blocks -/
def Fl.shape : Fl → String
  | .call n .none => "C(" ++ n ++ ")"
  | .call n .returns => "C(" ++ n ++ ")!"
  | .call n .other => "C(" ++ n ++ ")?"
  | .cond c _ _ => "I[" ++ c ++ "]"
  | .sw tag _ => "S[" ++ tag ++ "]"
  | .ret _ => "R"
  | .unknown w => "X:" ++ w

def Fl.inner : Fl → List Fl
  | .cond _ t _ => t
  | _ => []

def Fl.cases : Fl → List (String × List Fl)
  | .sw _ cs => cs
  | _ => []

def flowOf (fn : String) : List Fl := ((flows.find? (·.1 = fn)).map (·.2)).getD []

/-- the `authority` function, the provisioner method and the `case` label of each operation -/
def fnOf : Op → String
  | .sign => "authorizeSign" | .sshSign => "authorizeSSHSign" | .sshRenew => "authorizeSSHRenew"
  | .sshRekey => "authorizeSSHRekey" | .revoke => "authorizeRevoke" | .sshRevoke => "authorizeSSHRevoke"

def methodOf : Op → String
  | .sign => "AuthorizeSign" | .sshSign => "AuthorizeSSHSign" | .sshRenew => "AuthorizeSSHRenew"
  | .sshRekey => "AuthorizeSSHRekey" | .revoke => "AuthorizeRevoke" | .sshRevoke => "AuthorizeSSHRevoke"

def labelOf : Op → String
  | .sign => "case provisioner.SignMethod, provisioner.SignIdentityMethod"
  | .sshSign => "case provisioner.SSHSignMethod" | .sshRenew => "case provisioner.SSHRenewMethod"
  | .sshRekey => "case provisioner.SSHRekeyMethod" | .revoke => "case provisioner.RevokeMethod"
  | .sshRevoke => "case provisioner.SSHRevokeMethod"

/-- **authorize_chain.** In the source, each of the six `authorize<Op>` functions calls
    `a.authorizeToken` first and returns on its error, then calls the provisioner method of the
    *same* operation and returns on its error, and does nothing else. -/
theorem authorize_chain (op : Op) :
    (flowOf (fnOf op)).map Fl.shape = ["C(a.authorizeToken)!", "C(p." ++ methodOf op ++ ")!", "R"] := by
  cases op <;> decide

def isSSHGuard : Fl → Bool
  | .cond c [.ret []] [] => c == "a.sshCAHostCertSignKey == nil && a.sshCAUserCertSignKey == nil"
  | _ => false

/-- what the `case` of `Authorize` for one operation does: (tests for an SSH CA key first, callee) -/
def caseInfo (b : List Fl) : Option (Bool × String) :=
  match b with
  | [.call n _, .ret []] => some (false, n)
  | [.ret [n]] => some (false, n)
  | [g, .call n _, .ret []] => if isSSHGuard g then some (true, n) else none
  | _ => none

def dispatchOf (op : Op) : Option (Bool × String) :=
  match flowOf "Authorize" with
  | [f] => ((f.cases.find? (·.1 = labelOf op)).map (·.2)).bind caseInfo
  | _ => none

/-- **dispatch_table.** `Authority.Authorize` is one switch on the method; the case of each
    operation calls exactly `a.authorize<Op>`, after the "is there an SSH CA key" test precisely for
    the operations the model marks `needsSSHCA`. -/
theorem dispatch_table (op : Op) : dispatchOf op = some (needsSSHCA op, "a." ++ fnOf op) := by
  cases op <;> decide

/-- **authorizeToken_order.** `authorizeToken` = provisioner lookup (returns on error), then the
    issued-at gate under `!DisableIssuedAtCheck` comparing with `a.startTime`, then `UseToken` unless
    the context asks to skip it — the order `authorize` and `Reject.beforeUseToken` assume. -/
theorem authorizeToken_order :
    (flowOf "authorizeToken").map Fl.shape =
      ["C(a.getProvisionerFromToken)!",
       "I[a.config.AuthorityConfig != nil && !a.config.AuthorityConfig.DisableIssuedAtCheck]",
       "I[!SkipTokenReuseFromContext(ctx)]", "R"] ∧
    ((flowOf "authorizeToken").map fun f => f.inner.map Fl.shape) =
      [[], ["I[claims.IssuedAt != nil && claims.IssuedAt.Time().Before(a.startTime)]"], ["C(a.UseToken)!"], []] ∧
    ((flowOf "authorizeToken").map fun f => f.inner.map fun g => g.inner.map Fl.shape) =
      [[], [["R"]], [[]], []] := by decide

/-- **lookup_order.** `getProvisionerFromToken` = parse, unverified claims, `LoadProvisionerByToken`
    (each returning on error), then the refusal of ACME / SCEP provisioners, then the refusal of
    `Uninitialized` ones — the order of `authorize`. -/
theorem lookup_order :
    (flowOf "getProvisionerFromToken").map Fl.shape =
      ["C(jose.ParseSigned)!", "C(tok.UnsafeClaimsWithoutVerification)!", "C(a.LoadProvisionerByToken)!",
       "S[p.GetType()]", "I[_, ok := p.(provisioner.Uninitialized); ok]", "R"] ∧
    ((flowOf "getProvisionerFromToken").map fun f => f.cases.map fun c => (c.1, c.2.map Fl.shape)) =
      [[], [], [], [("case provisioner.TypeACME, provisioner.TypeSCEP", ["R"])], [], []] ∧
    ((flowOf "getProvisionerFromToken").map fun f => f.inner.map Fl.shape) = [[], [], [], [], ["R"], []] := by decide

/-- **sshpop_keys_source.** In the source, `generateProvisionerConfig` takes the SSH keys it hands to
    the provisioners from `a.GetSSHRoots` (returning on its error) and never from the federation list —
    what `Config.sshRoot` models. -/
theorem sshpop_keys_source :
    (flowOf "generateProvisionerConfig").map Fl.shape = ["I[err != nil]", "C(a.GetSSHRoots)!", "R"] := by decide

/-- the Go type of each modelled provisioner type -/
def goType : PType → String
  | .jwk => "JWK" | .x5c => "X5C" | .sshpop => "SSHPOP" | .oidc => "OIDC" | .k8ssa => "K8sSA" | .nebula => "Nebula"
  | .acme => "ACME" | .scep => "SCEP" | .aws => "AWS" | .gcp => "GCP" | .azure => "Azure"

/-- the provisioner type declares the `Authorize*` method of this operation itself
    (otherwise the call lands in `base`, which refuses) -/
def supports (ty : PType) (op : Op) : Bool :=
  match declared.find? (·.1 = goType ty) with
  | some (_, ms, _) => ms.contains (methodOf op)
  | none => false

/-- **unsupported_refused.** If, in the source, a provisioner type does not declare the method of an
    operation, the model refuses every token for that type and operation with "not implemented". -/
theorem unsupported_refused (cfg : Config) (p : Prov) (c : Cr) (l : Cl) (now : Int) (op : Op) (t : Tok)
    (h : supports p.ty op = false) : provOp cfg p c l now op t = .reject .notImplemented := by
  cases hty : p.ty <;> cases op <;> rw [hty] at h <;>
    first
    | (exfalso; revert h; decide)
    | simp [provOp, hty, jwkOp, x5cOp, sshpopOp, oidcOp, k8sOp, awsOp, gcpOp, azureOp, tokenlessOp, baseReject]

/-- every modelled type embeds `*base` or declares all six methods, so every call of the chain resolves -/
theorem methods_resolve :
    ∀ d ∈ declared, d.2.2 = true ∨ d.2.1.length = 6 := by decide

/-- all eleven modelled types are in the table, in the model's order -/
theorem declared_listed :
    declared.map (·.1) = ["JWK", "X5C", "SSHPOP", "OIDC", "K8sSA", "Nebula", "ACME", "SCEP", "AWS", "GCP", "Azure"] := by decide

/-! ### the signing surface of package `api` -/

def tokenHandlers : List String := ["Sign", "SSHSign", "SSHRenew", "SSHRekey", "SSHRevoke", "Revoke"]

/-- handlers that renew / rekey on the strength of the client's own certificate (mTLS or renew
    token: property C09), and the helper the SSH handlers call after their own `Authorize` -/
def certAuthenticated : List String := ["Renew", "Rekey", "renewIdentityCertificate"]

/-- **signing_surface.** In package `api`, every function that calls a signing, renewing, rekeying or
    revoking method is one of the six token handlers of `handlerPaths` (where `nothing_happens`
    applies) or one of the certificate-authenticated ones; and the functions that call `Authorize`
    are exactly the six. -/
theorem signing_surface :
    (∀ f ∈ apiSurface, f.2.2 ≠ [] → f.1 ∈ tokenHandlers ∨ f.1 ∈ certAuthenticated) ∧
    ((apiSurface.filter (·.2.1)).map (·.1)).all (· ∈ tokenHandlers) = true ∧
    tokenHandlers.all (fun h => apiSurface.any fun f => f.1 == h && f.2.1) = true ∧
    tokenHandlers.all (fun h => handlerPaths.any (·.1 == h)) = true := by decide

/-- **token_routes.** The routes served by the six token handlers are the seven POST endpoints of the
    property (`/sign-ssh` being the legacy alias of `/ssh/sign`); no other method or path reaches them. -/
theorem token_routes :
    (apiRoutes.filter fun r => r.2.2 ∈ tokenHandlers).map (fun r => (r.1, r.2.1)) =
      [("POST", "/sign"), ("POST", "/revoke"), ("POST", "/ssh/sign"), ("POST", "/ssh/renew"),
       ("POST", "/ssh/revoke"), ("POST", "/ssh/rekey"), ("POST", "/sign-ssh")] := by decide

/-- the handler serving each operation, and the method constant of the operation -/
def handlerOf : Op → String
  | .sign => "Sign" | .sshSign => "SSHSign" | .sshRenew => "SSHRenew"
  | .sshRekey => "SSHRekey" | .revoke => "Revoke" | .sshRevoke => "SSHRevoke"

def methodConst : Op → String
  | .sign => "SignMethod" | .sshSign => "SSHSignMethod" | .sshRenew => "SSHRenewMethod"
  | .sshRekey => "SSHRekeyMethod" | .revoke => "RevokeMethod" | .sshRevoke => "SSHRevokeMethod"

/-- **handler_method.** Each token handler authorizes with the method of its own operation first (the
    SSH sign handler then also with `SignIdentityMethod`, which `Authorize` dispatches like `sign`), and
    that method's `case` in `Authorize` is the one `dispatch_table` is about. -/
theorem handler_method (op : Op) :
    ((handlerMethods.find? (·.1 = handlerOf op)).map (·.2)) =
      some (methodConst op :: (if op = .sshSign then ["SignIdentityMethod"] else [])) ∧
    labelOf op = "case provisioner." ++ methodConst op ++
      (if op = .sign then ", provisioner.SignIdentityMethod" else "") := by
  cases op <;> decide

/-! ### nothing is signed, stored or revoked without a successful Authorize -/

def Ev.isEff : Ev → Bool
  | .eff _ => true
  | _ => false

def Ev.isUnknown : Ev → Bool
  | .unknown _ => true
  | _ => false

/-- on one control-flow path: every effect call has a successful `Authorize` before it and no failed
    one; nothing unrecognised occurs -/
def dominated (t : List Ev) : Bool :=
  !t.any Ev.isUnknown &&
  (List.range t.length).all fun k =>
    match t[k]? with
    | some e => !e.isEff || ((t.take k).contains .authOk && !(t.take k).contains .authErr)
    | none => true

/-- a request that presents a token (every path of the handlers except the mTLS branch of `Revoke`) -/
def tokenPath (t : List Ev) : Bool := !t.contains .noToken

/-- **nothing_happens.** In each of the six handlers, on every control-flow path of a token request,
    each call that signs, renews, rekeys or revokes is preceded by an `Authorize` that returned no
    error, and no such call follows an `Authorize` that returned one (the error branch returns). -/
theorem nothing_happens :
    ∀ h ∈ handlerPaths, ∀ t ∈ h.2, tokenPath t = true → dominated t = true := by decide

/-- the table is not vacuous: every handler has a token path that reaches an effect -/
theorem handlers_reach_effects :
    ∀ h ∈ handlerPaths, ∃ t ∈ h.2, tokenPath t = true ∧ t.any Ev.isEff = true := by decide

/-- all six handlers are in the table -/
theorem handlers_listed :
    handlerPaths.map (·.1) = ["Sign", "SSHSign", "SSHRenew", "SSHRekey", "SSHRevoke", "Revoke"] := by decide

/-- `dominated` does reject a handler that signs before authorizing / after a failed authorization -/
example : dominated [.eff "SignWithContext", .auth, .authOk] = false := by decide
example : dominated [.auth, .authErr, .eff "SignWithContext", .ret] = false := by decide

end Verif.Token
