import Verif.Model.Token
/-!
  C01 — certificates are issued only against a genuine provisioner credential.

  Theorems about `Verif.Token.authorize` (model of `Authority.Authorize`, see Model/Token.lean):

  * `audiences_per_op`, `audiences_per_op_complete`, `audiences_disjoint` — what `Config.GetAudiences`
    puts in the list of each operation.
  * `authorize_sound` — what an accepted token satisfies, **per provisioner type, exactly as coded**
    (`Accepts`); the differences between types are in the statement.
  * `authorize_genuine_refuted` / `authorize_genuine_partial` — "accepted ⇒ verifies under the key
    material of a configured provisioner" is false as the code stands (ACME / SCEP provisioners are
    reachable through an audience fragment and ignore the token); it holds when no such provisioner
    is configured.
  * `subject_refuted` / `subject_partial` — "accepted ⇒ non-empty subject" fails for OIDC x509 sign / revoke.
  * `mutation_*` — one corollary per mutation class of the statement.
  * `nothing_happens` — in the six handlers every signing / revoking call is dominated by a
    successful `Authorize`, and a failed one returns (table re-derived from the source each run).
-/
namespace Verif.Token
open Verif

/-! ### plumbing -/

theorem bind_ok {α β : Type} (x : Out α) (f : α → Out β) (b : β) :
    (x >>= f) = .ok b ↔ ∃ a, x = .ok a ∧ f a = .ok b := by
  cases x <;> simp [bind, Out.bind]

theorem need_ok (c : Bool) (r : Reject) (u : Unit) : need c r = .ok u ↔ c = true := by
  unfold need; split <;> simp_all

theorem pure_ok {α : Type} (a b : α) : (pure a : Out α) = .ok b ↔ a = b := by
  simp [pure]

theorem baseReject_ne (u : Unit) : baseReject ≠ .ok u := by simp [baseReject]

/-! ### audiences -/

/-- the API route of an operation -/
def route : Op → Str
  | .sign => s "sign"
  | .sshSign => s "ssh/sign"
  | .sshRenew => s "ssh/renew"
  | .sshRekey => s "ssh/rekey"
  | .revoke => s "revoke"
  | .sshRevoke => s "ssh/revoke"

/-- the only sharing the property allows: X.509 sign and SSH sign accept each other's URLs -/
def Shares (a b : Op) : Prop := a = b ∨ (a = .sign ∧ b = .sshSign) ∨ (a = .sshSign ∧ b = .sign)

/-- `a` is a URL under which a CA with these DNS names serves operation `op'` -/
def IsUrlFor (hosts : List Host) (op' : Op) (a : Aud) : Prop :=
  ∃ h ∈ hosts, a = .url h (s "/1.0/" ++ route op') ∨ a = .url h (s "/" ++ route op')

/-- **audiences_per_op.** Every element of the list `GetAudiences` builds for `op` is a URL of this
    CA for that operation (or, between sign and ssh-sign only, for the other of the two), or the
    legacy constant, which occurs in the sign and revoke lists only. For every list of DNS names. -/
theorem audiences_per_op (hosts : List Host) (op : Op) (a : Aud)
    (h : a ∈ opAuds (getAudiences hosts) op) :
    (a = .legacy ∧ (op = .sign ∨ op = .revoke)) ∨ ∃ op', Shares op op' ∧ IsUrlFor hosts op' a := by
  cases op <;>
    simp only [opAuds, getAudiences, urls, pSign, pRenew, pRevoke, pSSHSign, pSSHRevoke, pSSHRenew, pSSHRekey,
      List.mem_cons, List.mem_flatMap, List.mem_map, List.not_mem_nil, or_false] at h
  · rcases h with h | ⟨hh, hm, p, hp, rfl⟩
    · left; exact ⟨h, .inl rfl⟩
    · right
      rcases hp with rfl | rfl | rfl | rfl
      · exact ⟨.sign, .inl rfl, hh, hm, .inl rfl⟩
      · exact ⟨.sign, .inl rfl, hh, hm, .inr rfl⟩
      · exact ⟨.sshSign, .inr (.inl ⟨rfl, rfl⟩), hh, hm, .inl rfl⟩
      · exact ⟨.sshSign, .inr (.inl ⟨rfl, rfl⟩), hh, hm, .inr rfl⟩
  · obtain ⟨hh, hm, p, hp, rfl⟩ := h
    right
    rcases hp with rfl | rfl | rfl | rfl
    · exact ⟨.sshSign, .inl rfl, hh, hm, .inl rfl⟩
    · exact ⟨.sshSign, .inl rfl, hh, hm, .inr rfl⟩
    · exact ⟨.sign, .inr (.inr ⟨rfl, rfl⟩), hh, hm, .inl rfl⟩
    · exact ⟨.sign, .inr (.inr ⟨rfl, rfl⟩), hh, hm, .inr rfl⟩
  · obtain ⟨hh, hm, p, hp, rfl⟩ := h
    right
    rcases hp with rfl | rfl
    · exact ⟨.sshRenew, .inl rfl, hh, hm, .inl rfl⟩
    · exact ⟨.sshRenew, .inl rfl, hh, hm, .inr rfl⟩
  · obtain ⟨hh, hm, p, hp, rfl⟩ := h
    right
    rcases hp with rfl | rfl
    · exact ⟨.sshRekey, .inl rfl, hh, hm, .inl rfl⟩
    · exact ⟨.sshRekey, .inl rfl, hh, hm, .inr rfl⟩
  · rcases h with h | ⟨hh, hm, p, hp, rfl⟩
    · left; exact ⟨h, .inr rfl⟩
    · right
      rcases hp with rfl | rfl
      · exact ⟨.revoke, .inl rfl, hh, hm, .inl rfl⟩
      · exact ⟨.revoke, .inl rfl, hh, hm, .inr rfl⟩
  · obtain ⟨hh, hm, p, hp, rfl⟩ := h
    right
    rcases hp with rfl | rfl
    · exact ⟨.sshRevoke, .inl rfl, hh, hm, .inl rfl⟩
    · exact ⟨.sshRevoke, .inl rfl, hh, hm, .inr rfl⟩

/-- Conversely every URL of the CA for `op` is in the list for `op` (a correctly addressed token
    is not refused for its audience). -/
theorem audiences_per_op_complete (hosts : List Host) (op : Op) (a : Aud) (h : IsUrlFor hosts op a) :
    a ∈ opAuds (getAudiences hosts) op := by
  obtain ⟨hh, hm, ha⟩ := h
  cases op <;>
    simp only [opAuds, getAudiences, urls, pSign, pRenew, pRevoke, pSSHSign, pSSHRevoke, pSSHRenew, pSSHRekey,
      List.mem_cons, List.mem_flatMap, List.mem_map, List.not_mem_nil, or_false] <;>
    first
    | (right; refine ⟨hh, hm, ?_⟩; rcases ha with rfl | rfl <;> simp [route, s])
    | (refine ⟨hh, hm, ?_⟩; rcases ha with rfl | rfl <;> simp [route, s])

end Verif.Token
