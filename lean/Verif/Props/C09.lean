import Verif.Model.Renew
/-!
  C09 — renewal and rekey reproduce the original certificate and honour the gates.

  Property theorems about `Verif.Renew` (model of authority/tls.go `renewContext`,
  authority/authorize.go `authorizeRenew`, the provisioner lookups and `DefaultAuthorizeRenew`,
  and Go's extension assembly), tied to /repo by the C09 correspondence stages.

  Part A: the gates.  Part B: fidelity.  `current` (= /repo HEAD) is `repaired`; the theorems
  named `…_current` are the registered full-strength statements about it; `asCodedBefore` and
  `fixedD9D17` are the two earlier trees, kept for the historic refutations.
-/
namespace Verif.Renew
open Verif

/-! # Part A — gates -/

/-- the provisioner the certificate records and that still loads: by database id first, else by
    the name in the extension -/
def foundProv (i : GateIn) : Option Stored :=
  match i.db with
  | .found p _ => some p
  | _ => match i.ext with
    | .found p => some p
    | _ => none

/-- the certificate records no provisioner anywhere -/
def recordsNone (i : GateIn) : Prop := i.db = .noRecord ∧ i.ext = .noExt

instance (i : GateIn) : Decidable (recordsNone i) := by unfold recordsNone; infer_instance

/-- what a stored provisioner must look like for `AuthorizeRenew` to return nil -/
def StoredAllows (i : GateIn) (s : Stored) : Prop :=
  ∃ d a c, s = .ctl d a c ∧
    (c = .allow ∨ (c = .none ∧ d = false ∧ i.notYetValid = false ∧ (i.expired = false ∨ a = true)))

def GateSpec (i : GateIn) : Prop :=
  i.revoked = .no ∧ (recordsNone i ∨ ∃ s, foundProv i = some s ∧ StoredAllows i s)

/-- the D17 shape: the database names a provisioner that no longer loads, no extension -/
def D17Shape (i : GateIn) : Prop := i.db = .gone ∧ i.ext = .noExt

/-- the selected provisioner is an uninitialised one (D9 shape); `RAWrapped`: through a database
    record with RA information (D9-RA shape) -/
def UninitSelected (i : GateIn) : Prop := foundProv i = some .uninit
def RAWrapped (i : GateIn) : Prop := ∃ p, i.db = .found p true

/-! ### lemmas: which provisioner is selected -/

theorem select_stored (v : Variant) (i : GateIn) (s : Stored) (w : Bool) :
    selectProvisioner v i = some (.stored s w) → foundProv i = some s := by
  obtain ⟨rev, db, ext, nyv, exp⟩ := i
  cases db <;> cases ext <;>
    simp [selectProvisioner, loadByCertificate, loadFromExtension, collectionLoadByCertificate, foundProv]
  all_goals (try (split <;> simp))
  all_goals (intro h _; exact h)

theorem select_of_found (v : Variant) (i : GateIn) (s : Stored) (h : foundProv i = some s) :
    ∃ w, selectProvisioner v i = some (.stored s w) ∧ (w = true ↔ i.db = .found s true) := by
  obtain ⟨rev, db, ext, nyv, exp⟩ := i
  cases db <;> cases ext <;>
    simp_all [selectProvisioner, loadByCertificate, loadFromExtension, collectionLoadByCertificate, foundProv]

theorem select_noop (v : Variant) (i : GateIn) :
    selectProvisioner v i = some .noop ↔
      i.ext = .noExt ∧ (i.db = .noRecord ∨ (i.db = .gone ∧ v.noNoopWhenDbNames = false)) := by
  obtain ⟨rev, db, ext, nyv, exp⟩ := i
  cases db <;> cases ext <;>
    simp [selectProvisioner, loadByCertificate, loadFromExtension, collectionLoadByCertificate]
  all_goals (try (cases v.noNoopWhenDbNames <;> simp))

theorem select_none (v : Variant) (i : GateIn) :
    selectProvisioner v i = none ↔
      foundProv i = none ∧ (i.ext ≠ .noExt ∨ (i.db = .gone ∧ v.noNoopWhenDbNames = true)) := by
  obtain ⟨rev, db, ext, nyv, exp⟩ := i
  cases db <;> cases ext <;>
    simp [selectProvisioner, loadByCertificate, loadFromExtension, collectionLoadByCertificate, foundProv]

/-! ### lemmas: what the selected provisioner answers -/

theorem call_stored_allow (v : Variant) (i : GateIn) (s : Stored) (w : Bool) :
    callAuthorizeRenew v i (.stored s w) = .val .allow ↔ StoredAllows i s := by
  obtain ⟨rev, db, ext, nyv, exp⟩ := i
  unfold StoredAllows
  rcases s with ⟨d, a, c⟩ | _ | _
  · cases d <;> cases a <;> cases c <;> cases nyv <;> cases exp <;>
      simp [callAuthorizeRenew, provAuthorizeRenew, defaultAuthorizeRenew]
  · simp [callAuthorizeRenew, provAuthorizeRenew]
  · simp only [callAuthorizeRenew]
    split <;> simp [provAuthorizeRenew]

theorem call_noop (v : Variant) (i : GateIn) : callAuthorizeRenew v i .noop = .val .allow := by
  simp [callAuthorizeRenew, provAuthorizeRenew]

theorem decide_allow_iff (v : Variant) (i : GateIn) :
    decide v i = .val .allow ↔
      i.revoked = .no ∧ ∃ p, selectProvisioner v i = some p ∧ callAuthorizeRenew v i p = .val .allow := by
  unfold decide authorizeRenew
  cases hr : i.revoked <;> simp
  cases hs : selectProvisioner v i with
  | none => simp
  | some p => cases hc : callAuthorizeRenew v i p <;> simp [hc]

/-- **gates** (every variant with the D17 repair, in particular `current`): allowed ⇒ not revoked
    and either the certificate records no provisioner anywhere, or the provisioner it records was
    found and its `AuthorizeRenew` conditions hold. -/
theorem gates (v : Variant) (hv : v.noNoopWhenDbNames = true) (i : GateIn) :
    decide v i = .val .allow → GateSpec i := by
  rw [decide_allow_iff]
  rintro ⟨hr, p, hp, hc⟩
  refine ⟨hr, ?_⟩
  cases p with
  | noop =>
    have := (select_noop v i).1 hp
    simp [hv] at this
    exact .inl ⟨this.2, this.1⟩
  | stored s w =>
    exact .inr ⟨s, select_stored v i s w hp, (call_stored_allow v i s w).1 hc⟩

/-- **gates_current**: the full-strength statement about /repo HEAD. -/
theorem gates_current (i : GateIn) : decide current i = .val .allow → GateSpec i :=
  gates current rfl i

/-- any variant, outside the D17 shape (this was the most one could say before commit 33e7bf8) -/
theorem gates_partial (v : Variant) (i : GateIn) (hx : ¬ D17Shape i) :
    decide v i = .val .allow → GateSpec i := by
  rw [decide_allow_iff]
  rintro ⟨hr, p, hp, hc⟩
  refine ⟨hr, ?_⟩
  cases p with
  | noop =>
    have := (select_noop v i).1 hp
    rcases this with ⟨he, hd | ⟨hd, _⟩⟩
    · exact .inl ⟨hd, he⟩
    · exact absurd ⟨hd, he⟩ hx
  | stored s w =>
    exact .inr ⟨s, select_stored v i s w hp, (call_stored_allow v i s w).1 hc⟩

/-- D17 witness -/
def d17 : GateIn := ⟨.no, .gone, .noExt, false, false⟩

/-- historic (before 33e7bf8): a database-only certificate of a removed provisioner was allowed -/
theorem gates_refuted : ¬ ∀ i, decide asCodedBefore i = .val .allow → GateSpec i := by
  intro h
  have := h d17 (by decide)
  simp [GateSpec, recordsNone, d17, foundProv] at this

/-- converse of `gates`: the gates refuse nothing the specification admits -/
theorem gates_complete (v : Variant) (i : GateIn) : GateSpec i → decide v i = .val .allow := by
  rw [decide_allow_iff]
  rintro ⟨hr, h⟩
  refine ⟨hr, ?_⟩
  rcases h with ⟨hd, he⟩ | ⟨s, hf, ha⟩
  · exact ⟨.noop, (select_noop v i).2 ⟨he, .inl hd⟩, call_noop v i⟩
  · obtain ⟨w, hw, -⟩ := select_of_found v i s hf
    exact ⟨.stored s w, hw, (call_stored_allow v i s w).2 ha⟩

/-! # Part B — fidelity -/

/-! ## fidelity -/

/-- What `x509.ParseCertificate` guarantees about a parsed certificate: a field group is
    populated only from its extension. -/
def Consistent (c : Cert) : Prop :=
  (c.f.keyUsage ≠ 0 → hasOid oidKU c.extensions) ∧
  ((!c.f.extKeyUsage.isEmpty || !c.f.unknownExtKeyUsage.isEmpty) = true → hasOid oidEKU c.extensions) ∧
  (c.f.bcValid = true → hasOid oidBC c.extensions) ∧
  ((!c.f.ocspServer.isEmpty || !c.f.issuingURL.isEmpty) = true → hasOid oidAIA c.extensions) ∧
  ((!c.f.dnsNames.isEmpty || !c.f.emailAddresses.isEmpty || !c.f.ipAddresses.isEmpty || !c.f.uris.isEmpty) = true →
      hasOid oidSAN c.extensions) ∧
  ((!c.f.policies.isEmpty) = true → hasOid oidPol c.extensions) ∧
  (hasNameConstraints c.f = true → hasOid oidNC c.extensions) ∧
  ((!c.f.crlDP.isEmpty) = true → hasOid oidCRLDP c.extensions)

theorem hasOid_iff (o : Oid) (es : List Ext) : hasOid o es = true ↔ ∃ e ∈ es, e.oid = o := by
  simp [hasOid]

theorem hasOid_filter (p : Ext → Bool) (o : Oid) (es : List Ext) (h : ∀ e, e.oid = o → p e = true) :
    hasOid o (es.filter p) = hasOid o es := by
  rw [Bool.eq_iff_iff, hasOid_iff, hasOid_iff]
  constructor
  · rintro ⟨e, he, ho⟩; exact ⟨e, (List.mem_filter.1 he).1, ho⟩
  · rintro ⟨e, he, ho⟩; exact ⟨e, List.mem_filter.2 ⟨he, h e ho⟩, ho⟩

theorem hasOid_copy (r : Bool) (o : Oid) (es : List Ext) (h1 : o ≠ oidAKI) (h2 : r = true → o ≠ oidSKI) :
    hasOid o (copyExtensions r es) = hasOid o es := by
  apply hasOid_filter
  intro e he
  subst he
  cases r with
  | false => simp [h1]
  | true => simp [h1, h2 rfl]

theorem slot_skip (extra : List Ext) (c : Bool) (e : Ext) (h : c = true → hasOid e.oid extra = true) :
    slot extra c e = [] := by
  unfold slot
  cases c with
  | false => simp
  | true => simp [h rfl]

theorem copy_false (es : List Ext) : copyExtensions false es = dropOid oidAKI es := by
  simp [copyExtensions, dropOid]

theorem copy_true (es : List Ext) : copyExtensions true es = dropOid oidAKI (dropOid oidSKI es) := by
  simp [copyExtensions, dropOid, List.filter_filter, Bool.and_comm]

theorem dropOid_idem (o : Oid) (es : List Ext) : dropOid o (dropOid o es) = dropOid o es := by
  simp [dropOid, List.filter_filter]

theorem dropOid_comm (a b : Oid) (es : List Ext) : dropOid a (dropOid b es) = dropOid b (dropOid a es) := by
  simp [dropOid, List.filter_filter, Bool.and_comm]

theorem dropOid_slot_self (extra : List Ext) (c : Bool) (e : Ext) : dropOid e.oid (slot extra c e) = [] := by
  unfold slot dropOid; split <;> simp

/-- generated part on renewal: only the authority key identifier can be generated -/
theorem generated_renew (enc : Enc) (old : Cert) (pk : Option Str) (aki ski : Str)
    (hc : Consistent old) (hs : pk = none → hasOid oidSKI old.extensions = true) :
    generated enc (renewTemplate old pk) aki ski =
      slot (copyExtensions pk.isSome old.extensions) (!ski.isEmpty && pk.isSome) ⟨oidSKI, false, enc.ski ski⟩ ++
      slot (copyExtensions pk.isSome old.extensions) (!aki.isEmpty) ⟨oidAKI, false, enc.aki aki⟩ := by
  obtain ⟨h1, h2, h3, h4, h5, h6, h7, h8⟩ := hc
  have hk : ∀ o, o ≠ oidAKI → o ≠ oidSKI →
      hasOid o (copyExtensions pk.isSome old.extensions) = hasOid o old.extensions :=
    fun o a b => hasOid_copy _ o _ a (fun _ => b)
  unfold generated
  simp only [renewTemplate]
  rw [slot_skip _ _ ⟨oidKU, _, _⟩ (by intro h; rw [hk _ (by dsimp only; decide) (by dsimp only; decide)]; exact h1 (by simpa using h))]
  rw [slot_skip _ _ ⟨oidEKU, _, _⟩ (by intro h; rw [hk _ (by dsimp only; decide) (by dsimp only; decide)]; exact h2 h)]
  rw [slot_skip _ _ ⟨oidBC, _, _⟩ (by intro h; rw [hk _ (by dsimp only; decide) (by dsimp only; decide)]; exact h3 h)]
  rw [slot_skip _ _ ⟨oidAIA, _, _⟩ (by intro h; rw [hk _ (by dsimp only; decide) (by dsimp only; decide)]; exact h4 h)]
  rw [slot_skip _ _ ⟨oidSAN, _, _⟩ (by intro h; rw [hk _ (by dsimp only; decide) (by dsimp only; decide)]; exact h5 h)]
  rw [slot_skip _ _ ⟨oidPol, _, _⟩ (by intro h; rw [hk _ (by dsimp only; decide) (by dsimp only; decide)]; exact h6 h)]
  rw [slot_skip _ _ ⟨oidNC, _, _⟩ (by intro h; rw [hk _ (by dsimp only; decide) (by dsimp only; decide)]; exact h7 h)]
  rw [slot_skip _ _ ⟨oidCRLDP, _, _⟩ (by intro h; rw [hk _ (by dsimp only; decide) (by dsimp only; decide)]; exact h8 h)]
  cases pk with
  | some k => simp
  | none =>
    have : hasOid oidSKI (copyExtensions false old.extensions) = true := by
      rw [hasOid_copy false oidSKI _ (by decide) (by simp)]; exact hs rfl
    simp [slot, this]


theorem renew_issued (v : Variant) (env : Env) (i : GateIn) (old new : Cert) (pk : Option Str)
    (h : renew v env i old pk = .val (.issued new)) :
    decide v i = .val .allow ∧
      caSign env (renewTemplate old pk) ((old.notAfter - old.notBefore) - env.backdate) = .ok new := by
  unfold renew at h
  cases hd : decide v i with
  | crash => simp [hd] at h
  | val d =>
    cases d with
    | refuse r => simp [hd] at h
    | allow =>
      simp only [hd] at h
      cases hs : caSign env (renewTemplate old pk) ((old.notAfter - old.notBefore) - env.backdate) with
      | error e => simp [hs] at h
      | ok c => simp [hs] at h; subst h; exact ⟨rfl, rfl⟩

/-- the subject key identifier `x509util.CreateCertificate` puts into the template -/
def newSKI (env : Env) (old : Cert) (pk : Option Str) : Str :=
  env.skiOf (renewTemplate old pk).publicKey

/-- Shape of the issued certificate: copied fields, chosen key, and the extension list as
    (generated subject key id, on rekey) ++ (generated authority key id) ++ copied extensions. -/
theorem renew_shape (v : Variant) (env : Env) (i : GateIn) (old new : Cert) (pk : Option Str)
    (hc : Consistent old) (hs : pk = none → hasOid oidSKI old.extensions = true)
    (h : renew v env i old pk = .val (.issued new)) :
    new.f = old.f ∧
    new.publicKey = pk.getD old.publicKey ∧
    new.notAfter - new.notBefore = old.notAfter - old.notBefore ∧
    new.extensions =
      slot (copyExtensions pk.isSome old.extensions) (!(newSKI env old pk).isEmpty && pk.isSome)
        ⟨oidSKI, false, env.enc.ski (newSKI env old pk)⟩ ++
      slot (copyExtensions pk.isSome old.extensions) (!env.parentSKI.isEmpty)
        ⟨oidAKI, false, env.enc.aki env.parentSKI⟩ ++
      copyExtensions pk.isSome old.extensions := by
  have hs' := (renew_issued v env i old new pk h).2
  unfold caSign at hs'
  split at hs'
  · simp at hs'
  · simp only [Except.ok.injEq] at hs'
    subst hs'
    refine ⟨rfl, rfl, by simp; omega, ?_⟩
    simp only [assemble, renewTemplate]
    have := generated_renew env.enc old pk env.parentSKI (newSKI env old pk) hc hs
    simp only [renewTemplate, newSKI] at this ⊢
    rw [this]

theorem dropOid_append (o : Oid) (a b : List Ext) : dropOid o (a ++ b) = dropOid o a ++ dropOid o b := by
  simp [dropOid]

theorem dropOid_slot_other (o : Oid) (extra : List Ext) (c : Bool) (e : Ext) (h : e.oid = o) :
    dropOid o (slot extra c e) = [] := by
  subst h; exact dropOid_slot_self extra c e

/-- **renew_fidelity** -/
theorem renew_fidelity (v : Variant) (env : Env) (i : GateIn) (old new : Cert)
    (hc : Consistent old) (hs : hasOid oidSKI old.extensions = true)
    (h : renew v env i old none = .val (.issued new)) :
    new.f = old.f ∧ new.publicKey = old.publicKey ∧
    new.notAfter - new.notBefore = old.notAfter - old.notBefore ∧
    dropOid oidAKI new.extensions = dropOid oidAKI old.extensions := by
  obtain ⟨hf, hk, hv, he⟩ := renew_shape v env i old new none hc (fun _ => hs) h
  refine ⟨hf, hk, hv, ?_⟩
  rw [he]
  have h0 : ∀ e, slot (copyExtensions false old.extensions) false e = [] := fun e => by simp [slot]
  simp only [Option.isSome_none, Bool.and_false, h0, List.nil_append, dropOid_append]
  rw [dropOid_slot_other oidAKI _ _ _ rfl, copy_false, dropOid_idem]
  rfl

/-- **rekey_fidelity** -/
theorem rekey_fidelity (v : Variant) (env : Env) (i : GateIn) (old new : Cert) (k : Str)
    (hc : Consistent old)
    (h : renew v env i old (some k) = .val (.issued new)) :
    new.f = old.f ∧ new.publicKey = k ∧
    new.notAfter - new.notBefore = old.notAfter - old.notBefore ∧
    dropOid oidAKI (dropOid oidSKI new.extensions) = dropOid oidAKI (dropOid oidSKI old.extensions) ∧
    (env.skiOf k ≠ [] → extOf oidSKI new.extensions = some ⟨oidSKI, false, env.enc.ski (env.skiOf k)⟩) := by
  obtain ⟨hf, hk, hv, he⟩ := renew_shape v env i old new (some k) hc (by simp) h
  refine ⟨hf, hk, hv, ?_, ?_⟩
  · rw [he]
    simp only [dropOid_append, Option.isSome_some]
    rw [dropOid_slot_other oidSKI _ _ _ rfl, dropOid_comm oidAKI oidSKI (slot _ _ _),
      dropOid_slot_other oidAKI _ _ _ rfl, copy_true]
    simp only [dropOid, List.filter_nil, List.nil_append, List.filter_filter]
    congr 1; funext e; cases e.oid == oidAKI <;> cases e.oid == oidSKI <;> rfl
  · intro hne
    rw [he]
    simp only [Option.isSome_some]
    have hno : hasOid oidSKI (copyExtensions true old.extensions) = false := by
      simp [hasOid, copyExtensions]
    have hski : newSKI env old (some k) = env.skiOf k := rfl
    have : (env.skiOf k).isEmpty = false := by
      cases hh : env.skiOf k with
      | nil => exact absurd hh hne
      | cons _ _ => rfl
    simp [slot, hno, hski, this, extOf]


theorem extOf_append_of_not (o : Oid) (a b : List Ext) (h : ∀ e ∈ a, e.oid ≠ o) :
    extOf o (a ++ b) = extOf o b := by
  unfold extOf
  rw [List.find?_append]
  have : a.find? (fun e => e.oid == o) = none := by
    rw [List.find?_eq_none]; intro e he; simpa using h e he
  simp [this]

theorem extOf_filter (p : Ext → Bool) (o : Oid) (es : List Ext) (h : ∀ e, e.oid = o → p e = true) :
    extOf o (es.filter p) = extOf o es := by
  unfold extOf
  induction es with
  | nil => rfl
  | cons e es ih =>
    by_cases ho : e.oid = o
    · simp [List.filter, h e ho, ho]
    · rw [List.filter_cons]
      split
      · simp [List.find?, ih]
      · have : (e.oid == o) = false := by simpa using ho
        simp [List.find?, this, ih]

theorem mem_slot (extra : List Ext) (c : Bool) (e x : Ext) : x ∈ slot extra c e → x = e := by
  unfold slot; split <;> simp

/-- **only_these_differ**: extension by extension, nothing but the authority key identifier (and
    on rekey the subject key identifier) differs; nothing else is new; nothing else is lost. -/
theorem only_these_differ (v : Variant) (env : Env) (i : GateIn) (old new : Cert) (pk : Option Str)
    (hc : Consistent old) (hs : pk = none → hasOid oidSKI old.extensions = true)
    (h : renew v env i old pk = .val (.issued new)) :
    (∀ o, o ≠ oidAKI → (pk.isSome = true → o ≠ oidSKI) →
        extOf o new.extensions = extOf o old.extensions) ∧
    (∀ e ∈ new.extensions, e ∈ old.extensions ∨ e.oid = oidAKI ∨ (pk.isSome = true ∧ e.oid = oidSKI)) ∧
    (∀ e ∈ old.extensions, e.oid ≠ oidAKI → (pk.isSome = true → e.oid ≠ oidSKI) → e ∈ new.extensions) := by
  obtain ⟨-, -, -, he⟩ := renew_shape v env i old new pk hc hs h
  rw [he]
  refine ⟨?_, ?_, ?_⟩
  · intro o h1 h2
    rw [List.append_assoc, extOf_append_of_not, extOf_append_of_not]
    · apply extOf_filter
      intro e heo; subst heo
      cases hp : pk.isSome with
      | false => simp [h1]
      | true => simp [h1, h2 hp]
    · intro e hm; rw [mem_slot _ _ _ _ hm]; exact fun hh => h1 hh.symm
    · intro e hm; rw [mem_slot _ _ _ _ hm]
      intro hh
      cases hp : pk.isSome with
      | false => simp [slot, hp] at hm
      | true => exact h2 hp hh.symm
  · intro e hm
    rcases List.mem_append.1 hm with hm | hm
    · rcases List.mem_append.1 hm with hm | hm
      · have := mem_slot _ _ _ _ hm
        cases hp : pk.isSome with
        | false => simp [slot, hp] at hm
        | true => exact .inr (.inr ⟨rfl, by rw [this]⟩)
      · exact .inr (.inl (by rw [mem_slot _ _ _ _ hm]))
    · exact .inl (List.mem_filter.1 hm).1
  · intro e hm h1 h2
    apply List.mem_append_right
    apply List.mem_filter.2
    refine ⟨hm, ?_⟩
    cases hp : pk.isSome with
    | false => simp [h1]
    | true => simp [h1, h2 hp]

/-- OIDs of an extension list -/
def oids (es : List Ext) : List Oid := es.map (·.oid)

theorem hasOid_false_iff (o : Oid) (es : List Ext) : hasOid o es = false ↔ o ∉ oids es := by
  rw [← Bool.not_eq_true, hasOid_iff]; simp [oids]

theorem oids_filter_nodup (p : Ext → Bool) (es : List Ext) (h : (oids es).Nodup) : (oids (es.filter p)).Nodup := by
  unfold oids at *
  exact (List.filter_sublist.map _).nodup h

theorem slot_append_nodup (extra L : List Ext) (c : Bool) (e : Ext) (hL : (oids L).Nodup)
    (h : hasOid e.oid extra = false → e.oid ∉ oids L) : (oids (slot extra c e ++ L)).Nodup := by
  unfold slot
  split
  · rename_i hc
    simp only [Bool.and_eq_true, Bool.not_eq_true'] at hc
    simp only [oids, List.cons_append, List.nil_append, List.map_cons, List.nodup_cons]
    exact ⟨h hc.2, hL⟩
  · simpa using hL

/-- The result never carries two extensions with the same OID (Go's parser rejects such a
    certificate), provided the presented certificate did not. -/
theorem renew_nodup (v : Variant) (env : Env) (i : GateIn) (old new : Cert) (pk : Option Str)
    (hc : Consistent old) (hs : pk = none → hasOid oidSKI old.extensions = true)
    (hn : (oids old.extensions).Nodup)
    (h : renew v env i old pk = .val (.issued new)) : (oids new.extensions).Nodup := by
  obtain ⟨-, -, -, he⟩ := renew_shape v env i old new pk hc hs h
  rw [he, List.append_assoc]
  have hx : (oids (copyExtensions pk.isSome old.extensions)).Nodup := oids_filter_nodup _ _ hn
  generalize copyExtensions pk.isSome old.extensions = extra at hx ⊢
  apply slot_append_nodup
  · apply slot_append_nodup _ _ _ _ hx
    exact fun hf => (hasOid_false_iff _ _).1 hf
  · intro hf hm
    have hf' := (hasOid_false_iff _ _).1 hf
    simp only [oids, List.map_append, List.mem_append, List.mem_map] at hm
    rcases hm with ⟨x, hx1, hx2⟩ | hm
    · rw [mem_slot _ _ _ _ hx1] at hx2
      exact absurd hx2 (by dsimp only; decide)
    · exact hf' (by simpa [oids] using hm)


/-! # Part C — further gate theorems -/

/-- a decision was reached (no Go panic) and it is a refusal -/
def Refused (v : Variant) (i : GateIn) : Prop := ∃ r, decide v i = .val (.refuse r)

theorem decide_of_select_none (v : Variant) (i : GateIn) (hr : i.revoked = .no)
    (h : selectProvisioner v i = none) : decide v i = .val (.refuse .provisionerNotFound) := by
  simp [decide, authorizeRenew, hr, h]

/-- **removed_provisioner_refused** (every variant with the D17 repair): a certificate that records
    a provisioner (in the database, in its extension, or both) none of which loads any more is
    refused, with "provisioner not found", whatever else holds. -/
theorem removed_provisioner_refused (v : Variant) (hv : v.noNoopWhenDbNames = true) (i : GateIn)
    (hr : i.revoked = .no) (hf : foundProv i = none) (hn : ¬ recordsNone i) :
    decide v i = .val (.refuse .provisionerNotFound) := by
  apply decide_of_select_none v i hr
  rw [select_none]
  refine ⟨hf, ?_⟩
  obtain ⟨rev, db, ext, nyv, exp⟩ := i
  cases db <;> cases ext <;> simp_all [recordsNone, foundProv]

/-- the full-strength statement about /repo HEAD -/
theorem removed_provisioner_refused_current (i : GateIn)
    (hr : i.revoked = .no) (hf : foundProv i = none) (hn : ¬ recordsNone i) :
    decide current i = .val (.refuse .provisionerNotFound) :=
  removed_provisioner_refused current rfl i hr hf hn

/-- any variant, outside the D17 shape -/
theorem removed_provisioner_refused_partial (v : Variant) (i : GateIn) (hx : ¬ D17Shape i)
    (hr : i.revoked = .no) (hf : foundProv i = none) (hn : ¬ recordsNone i) :
    decide v i = .val (.refuse .provisionerNotFound) := by
  apply decide_of_select_none v i hr
  rw [select_none]
  refine ⟨hf, ?_⟩
  obtain ⟨rev, db, ext, nyv, exp⟩ := i
  cases db <;> cases ext <;> simp_all [recordsNone, foundProv, D17Shape]

/-- historic (before 33e7bf8): the database-only certificate of a removed provisioner was renewed -/
theorem removed_provisioner_refused_refuted :
    ¬ ∀ i, i.revoked = .no → foundProv i = none → ¬ recordsNone i → Refused asCodedBefore i := by
  intro h
  obtain ⟨r, hr⟩ := h d17 rfl rfl (by simp [recordsNone, d17])
  have : decide asCodedBefore d17 = .val .allow := by decide
  rw [this] at hr; cases hr

/-- The three repairs change the decision on no input outside the D17 shape and the D9 shape
    (selected provisioner uninitialised): any two variants agree everywhere else. -/
theorem variants_agree (v w : Variant) (i : GateIn)
    (h17 : ¬ D17Shape i) (h9 : ¬ UninitSelected i) :
    decide v i = decide w i := by
  have hs : selectProvisioner v i = selectProvisioner w i := by
    obtain ⟨rev, db, ext, nyv, exp⟩ := i
    cases db <;> cases ext <;>
      simp_all [selectProvisioner, loadByCertificate, loadFromExtension, collectionLoadByCertificate, D17Shape]
  unfold decide authorizeRenew
  cases hr : i.revoked <;> simp only []
  rw [← hs]
  cases hp : selectProvisioner v i with
  | none => rfl
  | some p =>
    have hc : callAuthorizeRenew v i p = callAuthorizeRenew w i p := by
      cases p with
      | noop => simp [callAuthorizeRenew]
      | stored s wr =>
        have := select_stored v i s wr hp
        have hne : s ≠ .uninit := fun e => h9 (by unfold UninitSelected; rw [this, e])
        cases s <;> simp_all [callAuthorizeRenew]
    simp only [hc]

/-- **no_crash** (every variant with the D9 and D9-RA repairs): `authorizeRenew` never panics. -/
theorem no_crash (v : Variant) (hv : v.refuseUninit = true) (hu : v.unwrapUninit = true) (i : GateIn) :
    decide v i ≠ .crash := by
  unfold decide authorizeRenew
  cases i.revoked <;> simp only [] <;> try (intro h; cases h)
  cases hp : selectProvisioner v i with
  | none => intro h; cases h
  | some p =>
    simp only []
    have : callAuthorizeRenew v i p ≠ .crash := by
      unfold callAuthorizeRenew
      rcases p with ⟨⟨d, a, c⟩ | _ | _, w⟩ | _ <;> simp [hv, hu, provAuthorizeRenew]
      cases c <;> simp
    cases hc : callAuthorizeRenew v i p with
    | crash => exact absurd hc this
    | val d => intro h; cases h

/-- the full-strength statement about /repo HEAD -/
theorem no_crash_current (i : GateIn) : decide current i ≠ .crash := no_crash current rfl rfl i

/-- any variant: no panic unless the selected provisioner is an uninitialised one -/
theorem no_crash_partial (v : Variant) (i : GateIn) (h9 : ¬ UninitSelected i) :
    decide v i ≠ .crash := by
  have h := no_crash repaired rfl rfl i
  by_cases h17 : D17Shape i
  · -- the D17 shape selects noop (or nothing): no panic either way
    obtain ⟨rev, db, ext, nyv, exp⟩ := i
    obtain ⟨hd, he⟩ := h17
    simp only at hd he; subst hd; subst he
    cases rev <;> cases hv : v.noNoopWhenDbNames <;>
      simp [decide, authorizeRenew, selectProvisioner, loadByCertificate, loadFromExtension,
        collectionLoadByCertificate, callAuthorizeRenew, provAuthorizeRenew, hv]
  · rw [variants_agree v repaired i h17 h9]; exact h

/-- the tree between c93b602 and df3f6ee: no panic unless the uninitialised provisioner comes out
    of a database record with RA information -/
theorem no_crash_fixedD9D17 (i : GateIn) (hra : ¬ (UninitSelected i ∧ RAWrapped i)) :
    decide fixedD9D17 i ≠ .crash := by
  by_cases h9 : UninitSelected i
  · have hnra : ¬ RAWrapped i := fun h => hra ⟨h9, h⟩
    obtain ⟨rev, db, ext, nyv, exp⟩ := i
    unfold UninitSelected foundProv at h9
    unfold RAWrapped at hnra
    cases rev <;> cases db <;> cases ext <;>
      simp_all [decide, authorizeRenew, selectProvisioner, loadByCertificate, loadFromExtension,
        collectionLoadByCertificate, callAuthorizeRenew, fixedD9D17]
    all_goals (rename_i w _; cases w <;> simp_all)
  · exact no_crash_partial _ i h9

/-- D9 witness: database record (and extension) resolve to an uninitialised provisioner. -/
def d9 : GateIn := ⟨.no, .found .uninit false, .found .uninit, false, false⟩
/-- D9-RA witness: the same through a database record with RA information. -/
def d9ra : GateIn := ⟨.no, .found .uninit true, .noExt, false, false⟩

/-- historic (before c93b602): renewing a certificate of an uninitialised provisioner panicked -/
theorem uninit_crash : ¬ ∀ i, decide asCodedBefore i ≠ .crash := by
  intro h; exact h d9 (by decide)

/-- historic (between c93b602 and df3f6ee): the RA-wrapped record still panicked -/
theorem ra_uninit_crash : ¬ ∀ i, decide fixedD9D17 i ≠ .crash := by
  intro h; exact h d9ra (by decide)

/-- Revocation and removal dominate a custom `AuthorizeRenewFunc`: whatever function the
    embedder configures, it is consulted only for a non-revoked certificate whose provisioner
    loaded. -/
theorem custom_cannot_override (v : Variant) (i : GateIn) :
    decide v i = .val .allow → i.revoked = .no ∧ selectProvisioner v i ≠ none := by
  rw [decide_allow_iff]
  rintro ⟨hr, p, hp, -⟩
  exact ⟨hr, by simp [hp]⟩

/-! ## the HTTP entry points: the flat statement of the property -/

/-- no custom `AuthorizeRenewFunc` is configured (the default for `step-ca`; the option exists
    only for programs embedding the authority) -/
def NoCustom (i : GateIn) : Prop := ∀ d a c, foundProv i = some (.ctl d a c) → c = .none

/-- the claims of the provisioner that was found -/
def RenewalEnabled (i : GateIn) : Prop := ∃ d a c, foundProv i = some (.ctl d a c) ∧ d = false
def AllowsAfterExpiry (i : GateIn) : Prop := ∃ d c, foundProv i = some (.ctl d true c)

theorem loadByCertificate_isSome (i : GateIn) : (loadByCertificate i).isSome = (foundProv i).isSome := by
  obtain ⟨rev, db, ext, nyv, exp⟩ := i
  cases db <;> cases ext <;> simp [loadByCertificate, loadFromExtension, collectionLoadByCertificate, foundProv]

/-- **gates_api**: a 201 from `POST /1.0/renew` or `/1.0/rekey` implies: not revoked, not before
    `notBefore`, not expired unless the provisioner allows renewal after expiry, and the recorded
    provisioner was found with renewal enabled — or the certificate records no provisioner at all.
    For the mutual-TLS entry the validity window is what the TLS handshake verified (hypothesis
    `htls`); for the renew-token entry it is what `DefaultAuthorizeRenew` checked. -/
theorem gates_api (v : Variant) (hv : v.noNoopWhenDbNames = true) (env : Env) (i : GateIn)
    (old new : Cert) (pk : Option Str) (e : Entry) (hnc : NoCustom i)
    (htls : e = .mtls → i.notYetValid = false ∧ i.expired = false) :
    apiRenew v env i old pk e = .created new →
      i.revoked = .no ∧ i.notYetValid = false ∧ (i.expired = false ∨ AllowsAfterExpiry i) ∧
      (RenewalEnabled i ∨ recordsNone i) := by
  intro h
  -- in every entry that reaches `renew`, the gate allowed
  have hallow : decide v i = .val .allow ∧ (e = .mtls ∨ (foundProv i).isSome = true) := by
    unfold apiRenew at h
    have key : ∀ r : ApiResult, (match renew v env i old pk with
        | .crash => ApiResult.crash
        | .val (.refused r) => .refused r
        | .val (.signError _) => .signError
        | .val (.issued c) => .created c) = .created new → decide v i = .val .allow := by
      intro _ hh
      cases hr : renew v env i old pk with
      | crash => simp [hr] at hh
      | val o =>
        cases o with
        | refused r => simp [hr] at hh
        | signError er => simp [hr] at hh
        | issued c => exact (renew_issued v env i old c pk hr).1
    cases e with
    | nothing => simp at h
    | mtls => exact ⟨key (.created new) h, .inl rfl⟩
    | token a b c d e' f =>
      simp only at h
      split at h
      · cases h
      · split at h
        · rename_i ht
          refine ⟨key (.created new) h, .inr ?_⟩
          simp only [authorizeRenewToken, Bool.and_eq_true] at ht
          rw [← loadByCertificate_isSome]; exact ht.1.1.1.1.2
        · cases h
  obtain ⟨hd, hent⟩ := hallow
  obtain ⟨hr, hspec⟩ := gates v hv i hd
  refine ⟨hr, ?_⟩
  rcases hspec with hnone | ⟨s, hf, d, a, c, hs, hc⟩
  · -- no provisioner recorded: only reachable over mutual TLS
    rcases hent with he | hsome
    · obtain ⟨h1, h2⟩ := htls he
      exact ⟨h1, .inl h2, .inr hnone⟩
    · obtain ⟨hdb, hext⟩ := hnone
      obtain ⟨rev, db, ext, nyv, exp⟩ := i
      simp only at hdb hext; subst hdb; subst hext
      simp [foundProv] at hsome
  · subst hs
    have hcn : c = .none := hnc d a c hf
    subst hcn
    rcases hc with hc | ⟨-, hd0, hny, hex⟩
    · cases hc
    · refine ⟨hny, ?_, .inl ⟨d, a, .none, hf, hd0⟩⟩
      rcases hex with hex | ha
      · exact .inl hex
      · subst ha; exact .inr ⟨d, .none, hf⟩

/-! # Part D — histories: any number of renewals -/

/-- `c` was obtained from `c0` by zero or more successful renewals (same key), under arbitrary
    gate inputs and CA environments at each step. -/
inductive RenewedFrom (v : Variant) (c0 : Cert) : Cert → Prop where
  | refl : RenewedFrom v c0 c0
  | step {c c' : Cert} (env : Env) (i : GateIn) :
      RenewedFrom v c0 c → renew v env i c none = .val (.issued c') → RenewedFrom v c0 c'

theorem renew_preserves_wf (v : Variant) (env : Env) (i : GateIn) (old new : Cert)
    (hc : Consistent old) (hs : hasOid oidSKI old.extensions = true)
    (h : renew v env i old none = .val (.issued new)) :
    Consistent new ∧ hasOid oidSKI new.extensions = true := by
  obtain ⟨hf, -, -, -⟩ := renew_shape v env i old new none hc (fun _ => hs) h
  obtain ⟨-, -, hkeep⟩ := only_these_differ v env i old new none hc (fun _ => hs) h
  have keep : ∀ o, o ≠ oidAKI → hasOid o old.extensions = true → hasOid o new.extensions = true := by
    intro o ho hh
    obtain ⟨e, he, heo⟩ := (hasOid_iff _ _).1 hh
    exact (hasOid_iff _ _).2 ⟨e, hkeep e he (by rw [heo]; exact ho) (by simp), heo⟩
  obtain ⟨h1, h2, h3, h4, h5, h6, h7, h8⟩ := hc
  refine ⟨⟨?_, ?_, ?_, ?_, ?_, ?_, ?_, ?_⟩, keep _ (by decide) hs⟩ <;> rw [hf] <;> intro hh
  · exact keep _ (by decide) (h1 hh)
  · exact keep _ (by decide) (h2 hh)
  · exact keep _ (by decide) (h3 hh)
  · exact keep _ (by decide) (h4 hh)
  · exact keep _ (by decide) (h5 hh)
  · exact keep _ (by decide) (h6 hh)
  · exact keep _ (by decide) (h7 hh)
  · exact keep _ (by decide) (h8 hh)

/-- **renew_history**: fidelity survives any number of renewals: the n-th renewal still equals
    the first certificate in every copied field, in the key, in the validity length and in the
    extension list minus the authority key identifier. -/
theorem renew_history (v : Variant) (c0 c : Cert) (hc : Consistent c0)
    (hs : hasOid oidSKI c0.extensions = true) (h : RenewedFrom v c0 c) :
    (Consistent c ∧ hasOid oidSKI c.extensions = true) ∧
    c.f = c0.f ∧ c.publicKey = c0.publicKey ∧
    c.notAfter - c.notBefore = c0.notAfter - c0.notBefore ∧
    dropOid oidAKI c.extensions = dropOid oidAKI c0.extensions := by
  induction h with
  | refl => exact ⟨⟨hc, hs⟩, rfl, rfl, rfl, rfl⟩
  | step env i _ hstep ih =>
    obtain ⟨⟨ihc, ihs⟩, i1, i2, i3, i4⟩ := ih
    obtain ⟨f1, f2, f3, f4⟩ := renew_fidelity v env i _ _ ihc ihs hstep
    exact ⟨renew_preserves_wf v env i _ _ ihc ihs hstep, f1.trans i1, f2.trans i2, f3.trans i3, f4.trans i4⟩

/-! # Part E — the hypotheses are satisfiable, and what happens outside them -/

section Examples

def encX : Enc :=
  { ku := fun _ => [1], eku := fun _ => [2], bc := fun _ => [3], ski := fun k => 4 :: k,
    aki := fun k => 5 :: k, aia := fun _ => [6], san := fun _ => [7], pol := fun _ => [8],
    nc := fun _ => [9], crl := fun _ => [10] }

def envX : Env :=
  { enc := encX, now := 1000, backdate := 60, serial := 77, issuerSubject := [0x30, 0x00],
    parentSKI := [0xAA], skiOf := fun k => 0xBB :: k }

def fieldsX : Fields :=
  { rawSubject := [0x30, 0x03, 1, 2, 3], keyUsage := 5, extKeyUsage := [1, 2], unknownExtKeyUsage := [],
    unhandledCritical := [[1, 2, 3, 4]], bcValid := true, isCA := false, maxPathLen := -1,
    maxPathLenZero := false, ocspServer := [], issuingURL := [], dnsNames := [s "a.test"],
    emailAddresses := [], ipAddresses := [[10, 0, 0, 1]], uris := [], ncCritical := false,
    permDNS := [], exclDNS := [], permIP := [], exclIP := [], permEmail := [], exclEmail := [],
    permURI := [], exclURI := [], crlDP := [], policies := [] }

/-- issuance order of a typical leaf: KU, EKU, BC, SKI, AKI, SAN, provisioner, unknown critical -/
def certX : Cert :=
  { f := fieldsX, publicKey := [1, 1], serial := 5, notBefore := 0, notAfter := 86400, issuer := [],
    extensions := [⟨oidKU, true, [1]⟩, ⟨oidEKU, false, [2]⟩, ⟨oidBC, true, [3]⟩, ⟨oidSKI, false, [4, 0xBB, 1, 1]⟩,
      ⟨oidAKI, false, [5, 0x99]⟩, ⟨oidSAN, false, [7]⟩, ⟨oidStepProvisioner, false, [42]⟩,
      ⟨[1, 2, 3, 4], true, [43]⟩] }

def okGate : GateIn := ⟨.no, .found (.ctl false false .none) false, .found (.ctl false false .none), false, false⟩

example : Consistent certX := by unfold Consistent; decide
example : hasOid oidSKI certX.extensions = true := by decide
example : (oids certX.extensions).Nodup := by decide
/-- the hypotheses of `renew_fidelity` / `only_these_differ` / `renew_nodup` are met by a
    non-trivial certificate, and the renewal is: new authority key id first, then everything else
    in its old order -/
example : ∃ c, renew current envX okGate certX none = .val (.issued c) ∧
    c.extensions = ⟨oidAKI, false, [5, 0xAA]⟩ :: dropOid oidAKI certX.extensions := ⟨_, rfl, by decide⟩
/-- rekey: new subject key id, new authority key id, then the rest -/
example : ∃ c, renew current envX okGate certX (some [2, 2]) = .val (.issued c) ∧
    c.publicKey = [2, 2] ∧
    c.extensions = ⟨oidSKI, false, [4, 0xBB, 2, 2]⟩ :: ⟨oidAKI, false, [5, 0xAA]⟩ ::
      dropOid oidAKI (dropOid oidSKI certX.extensions) := ⟨_, rfl, by decide, by decide⟩
/-- `gates` is not vacuous: allowed inputs exist in every branch of the specification -/
example : decide current okGate = .val .allow ∧ GateSpec okGate :=
  ⟨by decide, gates_complete current okGate |> fun _ => by
    refine ⟨rfl, .inr ⟨_, rfl, false, false, .none, rfl, .inr ⟨rfl, rfl, rfl, .inl rfl⟩⟩⟩⟩
example : decide current ⟨.no, .noRecord, .noExt, true, true⟩ = .val .allow := by decide
example : decide current ⟨.no, .found (.ctl false true .none) false, .noExt, false, true⟩ = .val .allow := by decide
example : decide current ⟨.no, .found (.ctl false false .none) true, .noExt, false, true⟩ = .val (.refuse .expired) := by decide
example : decide current ⟨.no, .gone, .found (.ctl true false .none), false, false⟩ = .val (.refuse .renewDisabled) := by decide
example : decide current ⟨.yes, .noRecord, .noExt, false, false⟩ = .val (.refuse .revoked) := by decide
/-- the D17, D9 and D9-RA shapes under the three trees -/
example : decide asCodedBefore d17 = .val .allow ∧ decide current d17 = .val (.refuse .provisionerNotFound) := by decide
example : decide asCodedBefore d9 = .crash ∧ decide fixedD9D17 d9 = .val (.refuse .uninitialized) := by decide
example : decide fixedD9D17 d9ra = .crash ∧ decide current d9ra = .val (.refuse .uninitialized) := by decide
/-- the hypothesis of `no_crash_fixedD9D17` is satisfiable by an uninitialised, unwrapped provisioner -/
example : ¬ (UninitSelected d9 ∧ RAWrapped d9) := by simp [RAWrapped, d9]
/-- hypotheses of `removed_provisioner_refused` are satisfiable -/
example : (⟨.no, .gone, .gone, false, false⟩ : GateIn).revoked = .no ∧
    foundProv ⟨.no, .gone, .gone, false, false⟩ = none ∧ ¬ recordsNone ⟨.no, .gone, .gone, false, false⟩ := by
  refine ⟨rfl, rfl, ?_⟩; simp [recordsNone]

/-- A certificate *without* a subject key identifier extension (outside the hypothesis of
    `renew_fidelity`): the renewal gains one. -/
def certNoSKI : Cert := { certX with extensions := dropOid oidSKI certX.extensions }

example : ∃ c, renew current envX okGate certNoSKI none = .val (.issued c) ∧
    dropOid oidAKI c.extensions ≠ dropOid oidAKI certNoSKI.extensions ∧
    extOf oidSKI c.extensions = some ⟨oidSKI, false, [4, 0xBB, 1, 1]⟩ := ⟨_, rfl, by decide, by decide⟩

/-- The no-op provisioner performs no validity check of its own (on the mutual-TLS entry the
    handshake has done it; see `gates_api`). -/
example : decide current ⟨.no, .noRecord, .noExt, true, false⟩ = .val .allow := by decide

/-- zero lifetime: a certificate whose validity equals the CA's backdate cannot be renewed -/
example : renew current envX okGate { certX with notAfter := 60 } none = .val (.signError .zeroLifetime) := by decide

end Examples

end Verif.Renew
