import Verif.Model.Renew
/-!
  C09 — renewal and rekey reproduce the original certificate and honour the gates.

  Property theorems about `Verif.Renew` (model of authority/tls.go `renewContext`,
  authority/authorize.go `authorizeRenew`, the provisioner lookups and `DefaultAuthorizeRenew`,
  and Go's extension assembly), tied to /repo by the C09 correspondence stages.

  Part A: the gates.  Part B: fidelity.  `current` (= /repo HEAD) is `repaired`; the theorems
  named `…_current` are the registered full-strength statements about it; `asCodedBefore` and
  `fixedD9D17` are the two earlier trees, kept for the historic refutations.
-/
namespace Verif.Renew
open Verif

/-! # Part A — gates -/

/-- the provisioner the certificate records and that still loads: by database id first, else by
    the name in the extension -/
def foundProv (i : GateIn) : Option Stored :=
  match i.db with
  | .found p _ => some p
  | _ => match i.ext with
    | .found p => some p
    | _ => none

/-- the certificate records no provisioner anywhere -/
def recordsNone (i : GateIn) : Prop := i.db = .noRecord ∧ i.ext = .noExt

instance (i : GateIn) : Decidable (recordsNone i) := by unfold recordsNone; infer_instance

/-- what a stored provisioner must look like for `AuthorizeRenew` to return nil -/
def StoredAllows (i : GateIn) (s : Stored) : Prop :=
  ∃ d a c, s = .ctl d a c ∧
    (c = .allow ∨ (c = .none ∧ d = false ∧ i.notYetValid = false ∧ (i.expired = false ∨ a = true)))

def GateSpec (i : GateIn) : Prop :=
  i.revoked = .no ∧ (recordsNone i ∨ ∃ s, foundProv i = some s ∧ StoredAllows i s)

/-- the D17 shape: the database names a provisioner that no longer loads, no extension -/
def D17Shape (i : GateIn) : Prop := i.db = .gone ∧ i.ext = .noExt

/-- the selected provisioner is an uninitialised one (D9 shape); `RAWrapped`: through a database
    record with RA information (D9-RA shape) -/
def UninitSelected (i : GateIn) : Prop := foundProv i = some .uninit
def RAWrapped (i : GateIn) : Prop := ∃ p, i.db = .found p true

/-! ### lemmas: which provisioner is selected -/

theorem select_stored (v : Variant) (i : GateIn) (s : Stored) (w : Bool) :
    selectProvisioner v i = some (.stored s w) → foundProv i = some s := by
  obtain ⟨rev, db, ext, nyv, exp⟩ := i
  cases db <;> cases ext <;>
    simp [selectProvisioner, loadByCertificate, loadFromExtension, collectionLoadByCertificate, foundProv]
  all_goals (try (split <;> simp))
  all_goals (intro h _; exact h)

theorem select_of_found (v : Variant) (i : GateIn) (s : Stored) (h : foundProv i = some s) :
    ∃ w, selectProvisioner v i = some (.stored s w) ∧ (w = true ↔ i.db = .found s true) := by
  obtain ⟨rev, db, ext, nyv, exp⟩ := i
  cases db <;> cases ext <;>
    simp_all [selectProvisioner, loadByCertificate, loadFromExtension, collectionLoadByCertificate, foundProv]

theorem select_noop (v : Variant) (i : GateIn) :
    selectProvisioner v i = some .noop ↔
      i.ext = .noExt ∧ (i.db = .noRecord ∨ (i.db = .gone ∧ v.noNoopWhenDbNames = false)) := by
  obtain ⟨rev, db, ext, nyv, exp⟩ := i
  cases db <;> cases ext <;>
    simp [selectProvisioner, loadByCertificate, loadFromExtension, collectionLoadByCertificate]
  all_goals (try (cases v.noNoopWhenDbNames <;> simp))

theorem select_none (v : Variant) (i : GateIn) :
    selectProvisioner v i = none ↔
      foundProv i = none ∧ (i.ext ≠ .noExt ∨ (i.db = .gone ∧ v.noNoopWhenDbNames = true)) := by
  obtain ⟨rev, db, ext, nyv, exp⟩ := i
  cases db <;> cases ext <;>
    simp [selectProvisioner, loadByCertificate, loadFromExtension, collectionLoadByCertificate, foundProv]

/-! ### lemmas: what the selected provisioner answers -/

theorem call_stored_allow (v : Variant) (i : GateIn) (s : Stored) (w : Bool) :
    callAuthorizeRenew v i (.stored s w) = .val .allow ↔ StoredAllows i s := by
  obtain ⟨rev, db, ext, nyv, exp⟩ := i
  unfold StoredAllows
  rcases s with ⟨d, a, c⟩ | _ | _
  · cases d <;> cases a <;> cases c <;> cases nyv <;> cases exp <;>
      simp [callAuthorizeRenew, provAuthorizeRenew, defaultAuthorizeRenew]
  · simp [callAuthorizeRenew, provAuthorizeRenew]
  · simp only [callAuthorizeRenew]
    split <;> simp [provAuthorizeRenew]

theorem call_noop (v : Variant) (i : GateIn) : callAuthorizeRenew v i .noop = .val .allow := by
  simp [callAuthorizeRenew, provAuthorizeRenew]

theorem decide_allow_iff (v : Variant) (i : GateIn) :
    decide v i = .val .allow ↔
      i.revoked = .no ∧ ∃ p, selectProvisioner v i = some p ∧ callAuthorizeRenew v i p = .val .allow := by
  unfold decide authorizeRenew
  cases hr : i.revoked <;> simp
  cases hs : selectProvisioner v i with
  | none => simp
  | some p => cases hc : callAuthorizeRenew v i p <;> simp [hc]

/-- **gates** (every variant with the D17 repair, in particular `current`): allowed ⇒ not revoked
    and either the certificate records no provisioner anywhere, or the provisioner it records was
    found and its `AuthorizeRenew` conditions hold. -/
theorem gates (v : Variant) (hv : v.noNoopWhenDbNames = true) (i : GateIn) :
    decide v i = .val .allow → GateSpec i := by
  rw [decide_allow_iff]
  rintro ⟨hr, p, hp, hc⟩
  refine ⟨hr, ?_⟩
  cases p with
  | noop =>
    have := (select_noop v i).1 hp
    simp [hv] at this
    exact .inl ⟨this.2, this.1⟩
  | stored s w =>
    exact .inr ⟨s, select_stored v i s w hp, (call_stored_allow v i s w).1 hc⟩

/-- **gates_current**: the full-strength statement about /repo HEAD. -/
theorem gates_current (i : GateIn) : decide current i = .val .allow → GateSpec i :=
  gates current rfl i

/-- any variant, outside the D17 shape (this was the most one could say before commit 33e7bf8) -/
theorem gates_partial (v : Variant) (i : GateIn) (hx : ¬ D17Shape i) :
    decide v i = .val .allow → GateSpec i := by
  rw [decide_allow_iff]
  rintro ⟨hr, p, hp, hc⟩
  refine ⟨hr, ?_⟩
  cases p with
  | noop =>
    have := (select_noop v i).1 hp
    rcases this with ⟨he, hd | ⟨hd, _⟩⟩
    · exact .inl ⟨hd, he⟩
    · exact absurd ⟨hd, he⟩ hx
  | stored s w =>
    exact .inr ⟨s, select_stored v i s w hp, (call_stored_allow v i s w).1 hc⟩

/-- D17 witness -/
def d17 : GateIn := ⟨.no, .gone, .noExt, false, false⟩

/-- historic (before 33e7bf8): a database-only certificate of a removed provisioner was allowed -/
theorem gates_refuted : ¬ ∀ i, decide asCodedBefore i = .val .allow → GateSpec i := by
  intro h
  have := h d17 (by decide)
  simp [GateSpec, recordsNone, d17, foundProv] at this

/-- converse of `gates`: the gates refuse nothing the specification admits -/
theorem gates_complete (v : Variant) (i : GateIn) : GateSpec i → decide v i = .val .allow := by
  rw [decide_allow_iff]
  rintro ⟨hr, h⟩
  refine ⟨hr, ?_⟩
  rcases h with ⟨hd, he⟩ | ⟨s, hf, ha⟩
  · exact ⟨.noop, (select_noop v i).2 ⟨he, .inl hd⟩, call_noop v i⟩
  · obtain ⟨w, hw, -⟩ := select_of_found v i s hf
    exact ⟨.stored s w, hw, (call_stored_allow v i s w).2 ha⟩

/-! # Part B — fidelity -/

/-! ## fidelity -/

/-- What `x509.ParseCertificate` guarantees about a parsed certificate: a field group is
    populated only from its extension. -/
def Consistent (c : Cert) : Prop :=
  (c.f.keyUsage ≠ 0 → hasOid oidKU c.extensions) ∧
  ((!c.f.extKeyUsage.isEmpty || !c.f.unknownExtKeyUsage.isEmpty) = true → hasOid oidEKU c.extensions) ∧
  (c.f.bcValid = true → hasOid oidBC c.extensions) ∧
  ((!c.f.ocspServer.isEmpty || !c.f.issuingURL.isEmpty) = true → hasOid oidAIA c.extensions) ∧
  ((!c.f.dnsNames.isEmpty || !c.f.emailAddresses.isEmpty || !c.f.ipAddresses.isEmpty || !c.f.uris.isEmpty) = true →
      hasOid oidSAN c.extensions) ∧
  ((!c.f.policies.isEmpty) = true → hasOid oidPol c.extensions) ∧
  (hasNameConstraints c.f = true → hasOid oidNC c.extensions) ∧
  ((!c.f.crlDP.isEmpty) = true → hasOid oidCRLDP c.extensions)

/-- When a plain renewal leaves the subject key identifier alone: the presented certificate has
    the extension (it is then copied and suppresses the generated one), or - with the C09-SKI
    repair - it has none, its parsed field is empty and it is not a CA certificate (for which
    crypto/x509 would generate one). -/
def RenewOK (v : Variant) (old : Cert) : Prop :=
  hasOid oidSKI old.extensions = true ∨
    (v.keepNoSKI = true ∧ old.subjectKeyId = [] ∧ old.f.isCA = false)

/-- parse consistency for the subject key identifier: no extension, no parsed identifier -/
def SKIParsed (c : Cert) : Prop := hasOid oidSKI c.extensions = false → c.subjectKeyId = []

theorem hasOid_iff (o : Oid) (es : List Ext) : hasOid o es = true ↔ ∃ e ∈ es, e.oid = o := by
  simp [hasOid]

theorem hasOid_filter (p : Ext → Bool) (o : Oid) (es : List Ext) (h : ∀ e, e.oid = o → p e = true) :
    hasOid o (es.filter p) = hasOid o es := by
  rw [Bool.eq_iff_iff, hasOid_iff, hasOid_iff]
  constructor
  · rintro ⟨e, he, ho⟩; exact ⟨e, (List.mem_filter.1 he).1, ho⟩
  · rintro ⟨e, he, ho⟩; exact ⟨e, List.mem_filter.2 ⟨he, h e ho⟩, ho⟩

theorem hasOid_copy (r : Bool) (o : Oid) (es : List Ext) (h1 : o ≠ oidAKI) (h2 : r = true → o ≠ oidSKI) :
    hasOid o (copyExtensions r es) = hasOid o es := by
  apply hasOid_filter
  intro e he
  subst he
  cases r with
  | false => simp [h1]
  | true => simp [h1, h2 rfl]

theorem slot_skip (extra : List Ext) (c : Bool) (e : Ext) (h : c = true → hasOid e.oid extra = true) :
    slot extra c e = [] := by
  unfold slot
  cases c with
  | false => simp
  | true => simp [h rfl]

theorem copy_false (es : List Ext) : copyExtensions false es = dropOid oidAKI es := by
  simp [copyExtensions, dropOid]

theorem copy_true (es : List Ext) : copyExtensions true es = dropOid oidAKI (dropOid oidSKI es) := by
  simp [copyExtensions, dropOid, List.filter_filter, Bool.and_comm]

theorem dropOid_idem (o : Oid) (es : List Ext) : dropOid o (dropOid o es) = dropOid o es := by
  simp [dropOid, List.filter_filter]

theorem dropOid_comm (a b : Oid) (es : List Ext) : dropOid a (dropOid b es) = dropOid b (dropOid a es) := by
  simp [dropOid, List.filter_filter, Bool.and_comm]

theorem dropOid_slot_self (extra : List Ext) (c : Bool) (e : Ext) : dropOid e.oid (slot extra c e) = [] := by
  unfold slot dropOid; split <;> simp

/-- generated part on renewal: only the authority key identifier can be generated -/
theorem generated_renew (v : Variant) (enc : Enc) (old : Cert) (pk : Option Str) (aki ski : Str)
    (hc : Consistent old) (hs : pk = none → hasOid oidSKI old.extensions = true ∨ ski = []) :
    generated enc (renewTemplate v old pk) aki ski =
      slot (copyExtensions pk.isSome old.extensions) (!ski.isEmpty && pk.isSome) ⟨oidSKI, false, enc.ski ski⟩ ++
      slot (copyExtensions pk.isSome old.extensions) (!aki.isEmpty) ⟨oidAKI, false, enc.aki aki⟩ := by
  obtain ⟨h1, h2, h3, h4, h5, h6, h7, h8⟩ := hc
  have hk : ∀ o, o ≠ oidAKI → o ≠ oidSKI →
      hasOid o (copyExtensions pk.isSome old.extensions) = hasOid o old.extensions :=
    fun o a b => hasOid_copy _ o _ a (fun _ => b)
  unfold generated
  simp only [renewTemplate]
  rw [slot_skip _ _ ⟨oidKU, _, _⟩ (by intro h; rw [hk _ (by dsimp only; decide) (by dsimp only; decide)]; exact h1 (by simpa using h))]
  rw [slot_skip _ _ ⟨oidEKU, _, _⟩ (by intro h; rw [hk _ (by dsimp only; decide) (by dsimp only; decide)]; exact h2 h)]
  rw [slot_skip _ _ ⟨oidBC, _, _⟩ (by intro h; rw [hk _ (by dsimp only; decide) (by dsimp only; decide)]; exact h3 h)]
  rw [slot_skip _ _ ⟨oidAIA, _, _⟩ (by intro h; rw [hk _ (by dsimp only; decide) (by dsimp only; decide)]; exact h4 h)]
  rw [slot_skip _ _ ⟨oidSAN, _, _⟩ (by intro h; rw [hk _ (by dsimp only; decide) (by dsimp only; decide)]; exact h5 h)]
  rw [slot_skip _ _ ⟨oidPol, _, _⟩ (by intro h; rw [hk _ (by dsimp only; decide) (by dsimp only; decide)]; exact h6 h)]
  rw [slot_skip _ _ ⟨oidNC, _, _⟩ (by intro h; rw [hk _ (by dsimp only; decide) (by dsimp only; decide)]; exact h7 h)]
  rw [slot_skip _ _ ⟨oidCRLDP, _, _⟩ (by intro h; rw [hk _ (by dsimp only; decide) (by dsimp only; decide)]; exact h8 h)]
  cases pk with
  | some k => simp
  | none =>
    rcases hs rfl with hh | hh
    · have : hasOid oidSKI (copyExtensions false old.extensions) = true := by
        rw [hasOid_copy false oidSKI _ (by decide) (by simp)]; exact hh
      simp [slot, this]
    · simp [slot, hh]


theorem renew_issued (v : Variant) (env : Env) (i : GateIn) (old new : Cert) (pk : Option Str)
    (h : renew v env i old pk = .val (.issued new)) :
    decide v i = .val .allow ∧
      caSign env (renewTemplate v old pk) ((old.notAfter - old.notBefore) - env.backdate) = .ok new := by
  unfold renew at h
  by_cases hkc : keyRefused v env pk = true
  · rw [if_pos hkc] at h; cases h
  rw [if_neg hkc] at h
  cases hd : decide v i with
  | crash => simp [hd] at h
  | val d =>
    cases d with
    | refuse r => simp [hd] at h
    | allow =>
      simp only [hd] at h
      by_cases hsh : (v.refuseShortValidity && Decidable.decide ((old.notAfter - old.notBefore) - env.backdate ≤ 0)) = true
      · rw [if_pos hsh] at h; cases h
      rw [if_neg hsh] at h
      cases hs : caSign env (renewTemplate v old pk) ((old.notAfter - old.notBefore) - env.backdate) with
      | error e => simp [hs] at h
      | ok c => simp [hs] at h; subst h; exact ⟨rfl, rfl⟩

/-- **renewed_not_born_expired** (variants with the 5596a41 repair, in particular `current`): an
    issued renewal or rekey is valid at the moment it is issued - its validity ends after "now" -
    because a presented certificate not longer than the backdate is refused. -/
theorem renewed_not_born_expired (v : Variant) (hv : v.refuseShortValidity = true) (env : Env) (i : GateIn)
    (old new : Cert) (pk : Option Str) (h : renew v env i old pk = .val (.issued new)) :
    env.now < new.notAfter ∧ old.notAfter - old.notBefore > env.backdate := by
  have hlt : ¬ ((old.notAfter - old.notBefore) - env.backdate ≤ 0) := by
    intro hle
    unfold renew at h
    by_cases hkc : keyRefused v env pk = true
    · rw [if_pos hkc] at h; cases h
    rw [if_neg hkc] at h
    cases hd : decide v i with
    | crash => simp [hd] at h
    | val d =>
      cases d with
      | refuse r => simp [hd] at h
      | allow => simp [hd, hv, hle] at h
  have hs' := (renew_issued v env i old new pk h).2
  unfold caSign at hs'
  split at hs'
  · simp at hs'
  · simp only [Except.ok.injEq] at hs'
    subst hs'
    constructor <;> simp <;> omega

/-- … and a certificate whose validity is not longer than the backdate is refused (after the gate) -/
theorem short_validity_refused (v : Variant) (hv : v.refuseShortValidity = true) (env : Env) (i : GateIn)
    (old : Cert) (pk : Option Str) (hk : keyRefused v env pk = false) (hg : decide v i = .val .allow)
    (hle : old.notAfter - old.notBefore ≤ env.backdate) :
    renew v env i old pk = .val (.refused .notLongerThanBackdate) := by
  have : (old.notAfter - old.notBefore) - env.backdate ≤ 0 := by omega
  simp [renew, hk, hg, hv, this]

/-- the subject key identifier handed to the extension assembly: what the template carries, else
    what `x509util.CreateCertificate` generates, else (empty, CA) crypto/x509's own fallback -/
def newSKI (v : Variant) (env : Env) (old : Cert) (pk : Option Str) : Str :=
  let t := renewTemplate v old pk
  let ski0 := match t.subjectKeyId with | some k => k | none => env.skiOf t.publicKey
  if ski0.isEmpty && t.f.isCA then env.sha1Of t.publicKey else ski0

theorem newSKI_empty (v : Variant) (env : Env) (old : Cert)
    (h : v.keepNoSKI = true ∧ old.subjectKeyId = [] ∧ old.f.isCA = false) :
    newSKI v env old none = [] := by
  obtain ⟨h1, h2, h3⟩ := h
  simp [newSKI, renewTemplate, h1, h2, h3]

/-- Shape of the issued certificate: copied fields, chosen key, and the extension list as
    (generated subject key id, on rekey) ++ (generated authority key id) ++ copied extensions. -/
theorem renew_shape (v : Variant) (env : Env) (i : GateIn) (old new : Cert) (pk : Option Str)
    (hc : Consistent old) (hs : pk = none → RenewOK v old)
    (h : renew v env i old pk = .val (.issued new)) :
    new.f = old.f ∧
    new.publicKey = pk.getD old.publicKey ∧
    new.notAfter - new.notBefore = old.notAfter - old.notBefore ∧
    new.extensions =
      slot (copyExtensions pk.isSome old.extensions) (!(newSKI v env old pk).isEmpty && pk.isSome)
        ⟨oidSKI, false, env.enc.ski (newSKI v env old pk)⟩ ++
      slot (copyExtensions pk.isSome old.extensions) (!env.parentSKI.isEmpty)
        ⟨oidAKI, false, env.enc.aki env.parentSKI⟩ ++
      copyExtensions pk.isSome old.extensions := by
  have hs' := (renew_issued v env i old new pk h).2
  unfold caSign at hs'
  split at hs'
  · simp at hs'
  · simp only [Except.ok.injEq] at hs'
    subst hs'
    refine ⟨rfl, rfl, by simp; omega, ?_⟩
    have hs2 : pk = none → hasOid oidSKI old.extensions = true ∨ newSKI v env old pk = [] := by
      intro hp; subst hp
      rcases hs rfl with hh | hh
      · exact .inl hh
      · exact .inr (newSKI_empty v env old hh)
    have := generated_renew v env.enc old pk env.parentSKI (newSKI v env old pk) hc hs2
    simp only [assemble]
    show generated env.enc (renewTemplate v old pk) env.parentSKI (newSKI v env old pk) ++ _ = _
    rw [this]
    rfl

theorem dropOid_append (o : Oid) (a b : List Ext) : dropOid o (a ++ b) = dropOid o a ++ dropOid o b := by
  simp [dropOid]

theorem dropOid_slot_other (o : Oid) (extra : List Ext) (c : Bool) (e : Ext) (h : e.oid = o) :
    dropOid o (slot extra c e) = [] := by
  subst h; exact dropOid_slot_self extra c e

/-- **renew_fidelity**: for every variant, environment, gate input and presented certificate
    that is consistent and `RenewOK` (has a subject key identifier extension; with the C09-SKI
    repair also: has none, is not a CA). -/
theorem renew_fidelity (v : Variant) (env : Env) (i : GateIn) (old new : Cert)
    (hc : Consistent old) (hs : RenewOK v old)
    (h : renew v env i old none = .val (.issued new)) :
    new.f = old.f ∧ new.publicKey = old.publicKey ∧
    new.notAfter - new.notBefore = old.notAfter - old.notBefore ∧
    dropOid oidAKI new.extensions = dropOid oidAKI old.extensions := by
  obtain ⟨hf, hk, hv, he⟩ := renew_shape v env i old new none hc (fun _ => hs) h
  refine ⟨hf, hk, hv, ?_⟩
  rw [he]
  have h0 : ∀ e, slot (copyExtensions false old.extensions) false e = [] := fun e => by simp [slot]
  simp only [Option.isSome_none, Bool.and_false, h0, List.nil_append, dropOid_append]
  rw [dropOid_slot_other oidAKI _ _ _ rfl, copy_false, dropOid_idem]
  rfl

/-- **rekey_fidelity** -/
theorem rekey_fidelity (v : Variant) (env : Env) (i : GateIn) (old new : Cert) (k : Str)
    (hc : Consistent old)
    (h : renew v env i old (some k) = .val (.issued new)) :
    new.f = old.f ∧ new.publicKey = k ∧
    new.notAfter - new.notBefore = old.notAfter - old.notBefore ∧
    dropOid oidAKI (dropOid oidSKI new.extensions) = dropOid oidAKI (dropOid oidSKI old.extensions) ∧
    (env.skiOf k ≠ [] → extOf oidSKI new.extensions = some ⟨oidSKI, false, env.enc.ski (env.skiOf k)⟩) := by
  obtain ⟨hf, hk, hv, he⟩ := renew_shape v env i old new (some k) hc (by simp) h
  refine ⟨hf, hk, hv, ?_, ?_⟩
  · rw [he]
    simp only [dropOid_append, Option.isSome_some]
    rw [dropOid_slot_other oidSKI _ _ _ rfl, dropOid_comm oidAKI oidSKI (slot _ _ _),
      dropOid_slot_other oidAKI _ _ _ rfl, copy_true]
    simp only [dropOid, List.filter_nil, List.nil_append, List.filter_filter]
    congr 1; funext e; cases e.oid == oidAKI <;> cases e.oid == oidSKI <;> rfl
  · intro hne
    rw [he]
    simp only [Option.isSome_some]
    have hno : hasOid oidSKI (copyExtensions true old.extensions) = false := by
      simp [hasOid, copyExtensions]
    have : (env.skiOf k).isEmpty = false := by
      cases hh : env.skiOf k with
      | nil => exact absurd hh hne
      | cons _ _ => rfl
    have hski : newSKI v env old (some k) = env.skiOf k := by
      simp [newSKI, renewTemplate, this]
    simp [slot, hno, hski, this, extOf]


theorem extOf_append_of_not (o : Oid) (a b : List Ext) (h : ∀ e ∈ a, e.oid ≠ o) :
    extOf o (a ++ b) = extOf o b := by
  unfold extOf
  rw [List.find?_append]
  have : a.find? (fun e => e.oid == o) = none := by
    rw [List.find?_eq_none]; intro e he; simpa using h e he
  simp [this]

theorem extOf_filter (p : Ext → Bool) (o : Oid) (es : List Ext) (h : ∀ e, e.oid = o → p e = true) :
    extOf o (es.filter p) = extOf o es := by
  unfold extOf
  induction es with
  | nil => rfl
  | cons e es ih =>
    by_cases ho : e.oid = o
    · simp [List.filter, h e ho, ho]
    · rw [List.filter_cons]
      split
      · simp [List.find?, ih]
      · have : (e.oid == o) = false := by simpa using ho
        simp [List.find?, this, ih]

theorem mem_slot (extra : List Ext) (c : Bool) (e x : Ext) : x ∈ slot extra c e → x = e := by
  unfold slot; split <;> simp

/-- **only_these_differ**: extension by extension, nothing but the authority key identifier (and
    on rekey the subject key identifier) differs; nothing else is new; nothing else is lost. -/
theorem only_these_differ (v : Variant) (env : Env) (i : GateIn) (old new : Cert) (pk : Option Str)
    (hc : Consistent old) (hs : pk = none → RenewOK v old)
    (h : renew v env i old pk = .val (.issued new)) :
    (∀ o, o ≠ oidAKI → (pk.isSome = true → o ≠ oidSKI) →
        extOf o new.extensions = extOf o old.extensions) ∧
    (∀ e ∈ new.extensions, e ∈ old.extensions ∨ e.oid = oidAKI ∨ (pk.isSome = true ∧ e.oid = oidSKI)) ∧
    (∀ e ∈ old.extensions, e.oid ≠ oidAKI → (pk.isSome = true → e.oid ≠ oidSKI) → e ∈ new.extensions) := by
  obtain ⟨-, -, -, he⟩ := renew_shape v env i old new pk hc hs h
  rw [he]
  refine ⟨?_, ?_, ?_⟩
  · intro o h1 h2
    rw [List.append_assoc, extOf_append_of_not, extOf_append_of_not]
    · apply extOf_filter
      intro e heo; subst heo
      cases hp : pk.isSome with
      | false => simp [h1]
      | true => simp [h1, h2 hp]
    · intro e hm; rw [mem_slot _ _ _ _ hm]; exact fun hh => h1 hh.symm
    · intro e hm; rw [mem_slot _ _ _ _ hm]
      intro hh
      cases hp : pk.isSome with
      | false => simp [slot, hp] at hm
      | true => exact h2 hp hh.symm
  · intro e hm
    rcases List.mem_append.1 hm with hm | hm
    · rcases List.mem_append.1 hm with hm | hm
      · have := mem_slot _ _ _ _ hm
        cases hp : pk.isSome with
        | false => simp [slot, hp] at hm
        | true => exact .inr (.inr ⟨rfl, by rw [this]⟩)
      · exact .inr (.inl (by rw [mem_slot _ _ _ _ hm]))
    · exact .inl (List.mem_filter.1 hm).1
  · intro e hm h1 h2
    apply List.mem_append_right
    apply List.mem_filter.2
    refine ⟨hm, ?_⟩
    cases hp : pk.isSome with
    | false => simp [h1]
    | true => simp [h1, h2 hp]

/-- OIDs of an extension list -/
def oids (es : List Ext) : List Oid := es.map (·.oid)

theorem hasOid_false_iff (o : Oid) (es : List Ext) : hasOid o es = false ↔ o ∉ oids es := by
  rw [← Bool.not_eq_true, hasOid_iff]; simp [oids]

theorem oids_filter_nodup (p : Ext → Bool) (es : List Ext) (h : (oids es).Nodup) : (oids (es.filter p)).Nodup := by
  unfold oids at *
  exact (List.filter_sublist.map _).nodup h

theorem slot_append_nodup (extra L : List Ext) (c : Bool) (e : Ext) (hL : (oids L).Nodup)
    (h : hasOid e.oid extra = false → e.oid ∉ oids L) : (oids (slot extra c e ++ L)).Nodup := by
  unfold slot
  split
  · rename_i hc
    simp only [Bool.and_eq_true, Bool.not_eq_true'] at hc
    simp only [oids, List.cons_append, List.nil_append, List.map_cons, List.nodup_cons]
    exact ⟨h hc.2, hL⟩
  · simpa using hL

/-- The result never carries two extensions with the same OID (Go's parser rejects such a
    certificate), provided the presented certificate did not. -/
theorem renew_nodup (v : Variant) (env : Env) (i : GateIn) (old new : Cert) (pk : Option Str)
    (hc : Consistent old) (hs : pk = none → RenewOK v old)
    (hn : (oids old.extensions).Nodup)
    (h : renew v env i old pk = .val (.issued new)) : (oids new.extensions).Nodup := by
  obtain ⟨-, -, -, he⟩ := renew_shape v env i old new pk hc hs h
  rw [he, List.append_assoc]
  have hx : (oids (copyExtensions pk.isSome old.extensions)).Nodup := oids_filter_nodup _ _ hn
  generalize copyExtensions pk.isSome old.extensions = extra at hx ⊢
  apply slot_append_nodup
  · apply slot_append_nodup _ _ _ _ hx
    exact fun hf => (hasOid_false_iff _ _).1 hf
  · intro hf hm
    have hf' := (hasOid_false_iff _ _).1 hf
    simp only [oids, List.map_append, List.mem_append, List.mem_map] at hm
    rcases hm with ⟨x, hx1, hx2⟩ | hm
    · rw [mem_slot _ _ _ _ hx1] at hx2
      exact absurd hx2 (by dsimp only; decide)
    · exact hf' (by simpa [oids] using hm)


/-! # Part C — further gate theorems -/

/-- a decision was reached (no Go panic) and it is a refusal -/
def Refused (v : Variant) (i : GateIn) : Prop := ∃ r, decide v i = .val (.refuse r)

theorem decide_of_select_none (v : Variant) (i : GateIn) (hr : i.revoked = .no)
    (h : selectProvisioner v i = none) : decide v i = .val (.refuse .provisionerNotFound) := by
  simp [decide, authorizeRenew, hr, h]

/-- **removed_provisioner_refused** (every variant with the D17 repair): a certificate that records
    a provisioner (in the database, in its extension, or both) none of which loads any more is
    refused, with "provisioner not found", whatever else holds. -/
theorem removed_provisioner_refused (v : Variant) (hv : v.noNoopWhenDbNames = true) (i : GateIn)
    (hr : i.revoked = .no) (hf : foundProv i = none) (hn : ¬ recordsNone i) :
    decide v i = .val (.refuse .provisionerNotFound) := by
  apply decide_of_select_none v i hr
  rw [select_none]
  refine ⟨hf, ?_⟩
  obtain ⟨rev, db, ext, nyv, exp⟩ := i
  cases db <;> cases ext <;> simp_all [recordsNone, foundProv]

/-- the full-strength statement about /repo HEAD -/
theorem removed_provisioner_refused_current (i : GateIn)
    (hr : i.revoked = .no) (hf : foundProv i = none) (hn : ¬ recordsNone i) :
    decide current i = .val (.refuse .provisionerNotFound) :=
  removed_provisioner_refused current rfl i hr hf hn

/-- any variant, outside the D17 shape -/
theorem removed_provisioner_refused_partial (v : Variant) (i : GateIn) (hx : ¬ D17Shape i)
    (hr : i.revoked = .no) (hf : foundProv i = none) (hn : ¬ recordsNone i) :
    decide v i = .val (.refuse .provisionerNotFound) := by
  apply decide_of_select_none v i hr
  rw [select_none]
  refine ⟨hf, ?_⟩
  obtain ⟨rev, db, ext, nyv, exp⟩ := i
  cases db <;> cases ext <;> simp_all [recordsNone, foundProv, D17Shape]

/-- historic (before 33e7bf8): the database-only certificate of a removed provisioner was renewed -/
theorem removed_provisioner_refused_refuted :
    ¬ ∀ i, i.revoked = .no → foundProv i = none → ¬ recordsNone i → Refused asCodedBefore i := by
  intro h
  obtain ⟨r, hr⟩ := h d17 rfl rfl (by simp [recordsNone, d17])
  have : decide asCodedBefore d17 = .val .allow := by decide
  rw [this] at hr; cases hr

/-- The three repairs change the decision on no input outside the D17 shape and the D9 shape
    (selected provisioner uninitialised): any two variants agree everywhere else. -/
theorem variants_agree (v w : Variant) (i : GateIn)
    (h17 : ¬ D17Shape i) (h9 : ¬ UninitSelected i) :
    decide v i = decide w i := by
  have hs : selectProvisioner v i = selectProvisioner w i := by
    obtain ⟨rev, db, ext, nyv, exp⟩ := i
    cases db <;> cases ext <;>
      simp_all [selectProvisioner, loadByCertificate, loadFromExtension, collectionLoadByCertificate, D17Shape]
  unfold decide authorizeRenew
  cases hr : i.revoked <;> simp only []
  rw [← hs]
  cases hp : selectProvisioner v i with
  | none => rfl
  | some p =>
    have hc : callAuthorizeRenew v i p = callAuthorizeRenew w i p := by
      cases p with
      | noop => simp [callAuthorizeRenew]
      | stored s wr =>
        have := select_stored v i s wr hp
        have hne : s ≠ .uninit := fun e => h9 (by unfold UninitSelected; rw [this, e])
        cases s <;> simp_all [callAuthorizeRenew]
    simp only [hc]

/-- **no_crash** (every variant with the D9 and D9-RA repairs): `authorizeRenew` never panics. -/
theorem no_crash (v : Variant) (hv : v.refuseUninit = true) (hu : v.unwrapUninit = true) (i : GateIn) :
    decide v i ≠ .crash := by
  unfold decide authorizeRenew
  cases i.revoked <;> simp only [] <;> try (intro h; cases h)
  cases hp : selectProvisioner v i with
  | none => intro h; cases h
  | some p =>
    simp only []
    have : callAuthorizeRenew v i p ≠ .crash := by
      unfold callAuthorizeRenew
      rcases p with ⟨⟨d, a, c⟩ | _ | _, w⟩ | _ <;> simp [hv, hu, provAuthorizeRenew]
      cases c <;> simp
    cases hc : callAuthorizeRenew v i p with
    | crash => exact absurd hc this
    | val d => intro h; cases h

/-- the full-strength statement about /repo HEAD -/
theorem no_crash_current (i : GateIn) : decide current i ≠ .crash := no_crash current rfl rfl i

/-- any variant: no panic unless the selected provisioner is an uninitialised one -/
theorem no_crash_partial (v : Variant) (i : GateIn) (h9 : ¬ UninitSelected i) :
    decide v i ≠ .crash := by
  have h := no_crash repaired rfl rfl i
  by_cases h17 : D17Shape i
  · -- the D17 shape selects noop (or nothing): no panic either way
    obtain ⟨rev, db, ext, nyv, exp⟩ := i
    obtain ⟨hd, he⟩ := h17
    simp only at hd he; subst hd; subst he
    cases rev <;> cases hv : v.noNoopWhenDbNames <;>
      simp [decide, authorizeRenew, selectProvisioner, loadByCertificate, loadFromExtension,
        collectionLoadByCertificate, callAuthorizeRenew, provAuthorizeRenew, hv]
  · rw [variants_agree v repaired i h17 h9]; exact h

/-- the tree between c93b602 and df3f6ee: no panic unless the uninitialised provisioner comes out
    of a database record with RA information -/
theorem no_crash_fixedD9D17 (i : GateIn) (hra : ¬ (UninitSelected i ∧ RAWrapped i)) :
    decide fixedD9D17 i ≠ .crash := by
  by_cases h9 : UninitSelected i
  · have hnra : ¬ RAWrapped i := fun h => hra ⟨h9, h⟩
    obtain ⟨rev, db, ext, nyv, exp⟩ := i
    unfold UninitSelected foundProv at h9
    unfold RAWrapped at hnra
    cases rev <;> cases db <;> cases ext <;>
      simp_all [decide, authorizeRenew, selectProvisioner, loadByCertificate, loadFromExtension,
        collectionLoadByCertificate, callAuthorizeRenew, fixedD9D17]
    all_goals (rename_i w _; cases w <;> simp_all)
  · exact no_crash_partial _ i h9

/-- D9 witness: database record (and extension) resolve to an uninitialised provisioner. -/
def d9 : GateIn := ⟨.no, .found .uninit false, .found .uninit, false, false⟩
/-- D9-RA witness: the same through a database record with RA information. -/
def d9ra : GateIn := ⟨.no, .found .uninit true, .noExt, false, false⟩

/-- historic (before c93b602): renewing a certificate of an uninitialised provisioner panicked -/
theorem uninit_crash : ¬ ∀ i, decide asCodedBefore i ≠ .crash := by
  intro h; exact h d9 (by decide)

/-- historic (between c93b602 and df3f6ee): the RA-wrapped record still panicked -/
theorem ra_uninit_crash : ¬ ∀ i, decide fixedD9D17 i ≠ .crash := by
  intro h; exact h d9ra (by decide)

/-- Revocation and removal dominate a custom `AuthorizeRenewFunc`: whatever function the
    embedder configures, it is consulted only for a non-revoked certificate whose provisioner
    loaded. -/
theorem custom_cannot_override (v : Variant) (i : GateIn) :
    decide v i = .val .allow → i.revoked = .no ∧ selectProvisioner v i ≠ none := by
  rw [decide_allow_iff]
  rintro ⟨hr, p, hp, -⟩
  exact ⟨hr, by simp [hp]⟩

/-! ## the HTTP entry points: the flat statement of the property -/

/-- no custom `AuthorizeRenewFunc` is configured (the default for `step-ca`; the option exists
    only for programs embedding the authority) -/
def NoCustom (i : GateIn) : Prop := ∀ d a c, foundProv i = some (.ctl d a c) → c = .none

/-- the claims of the provisioner that was found -/
def RenewalEnabled (i : GateIn) : Prop := ∃ d a c, foundProv i = some (.ctl d a c) ∧ d = false
def AllowsAfterExpiry (i : GateIn) : Prop := ∃ d c, foundProv i = some (.ctl d true c)

theorem loadByCertificate_isSome (i : GateIn) : (loadByCertificate i).isSome = (foundProv i).isSome := by
  obtain ⟨rev, db, ext, nyv, exp⟩ := i
  cases db <;> cases ext <;> simp [loadByCertificate, loadFromExtension, collectionLoadByCertificate, foundProv]

/-- **gates_api**: a 201 from `POST /1.0/renew` or `/1.0/rekey` implies: not revoked, not before
    `notBefore`, not expired unless the provisioner allows renewal after expiry, and the recorded
    provisioner was found with renewal enabled — or the certificate records no provisioner at all.
    For the mutual-TLS entry the validity window is what the TLS handshake verified (hypothesis
    `htls`); for the renew-token entry it is what `DefaultAuthorizeRenew` checked. -/
theorem gates_api (v : Variant) (hv : v.noNoopWhenDbNames = true) (env : Env) (i : GateIn)
    (old new : Cert) (pk : Option Str) (e : Entry) (hnc : NoCustom i)
    (htls : e = .mtls → i.notYetValid = false ∧ i.expired = false) :
    apiRenew v env i old pk e = .created new →
      i.revoked = .no ∧ i.notYetValid = false ∧ (i.expired = false ∨ AllowsAfterExpiry i) ∧
      (RenewalEnabled i ∨ recordsNone i) := by
  intro h
  -- in every entry that reaches `renew`, the gate allowed
  have hallow : decide v i = .val .allow ∧ (e = .mtls ∨ (foundProv i).isSome = true) := by
    unfold apiRenew at h
    have key : ∀ r : ApiResult, (match renew v env i old pk with
        | .crash => ApiResult.crash
        | .val (.refused r) => .refused r
        | .val (.signError _) => .signError
        | .val (.issued c) => .created c) = .created new → decide v i = .val .allow := by
      intro _ hh
      cases hr : renew v env i old pk with
      | crash => simp [hr] at hh
      | val o =>
        cases o with
        | refused r => simp [hr] at hh
        | signError er => simp [hr] at hh
        | issued c => exact (renew_issued v env i old c pk hr).1
    cases e with
    | nothing => simp at h
    | mtls => exact ⟨key (.created new) h, .inl rfl⟩
    | token a b c d e' f =>
      simp only at h
      split at h
      · cases h
      · split at h
        · rename_i ht
          refine ⟨key (.created new) h, .inr ?_⟩
          simp only [authorizeRenewToken, Bool.and_eq_true] at ht
          rw [← loadByCertificate_isSome]; exact ht.1.1.1.1.2
        · cases h
  obtain ⟨hd, hent⟩ := hallow
  obtain ⟨hr, hspec⟩ := gates v hv i hd
  refine ⟨hr, ?_⟩
  rcases hspec with hnone | ⟨s, hf, d, a, c, hs, hc⟩
  · -- no provisioner recorded: only reachable over mutual TLS
    rcases hent with he | hsome
    · obtain ⟨h1, h2⟩ := htls he
      exact ⟨h1, .inl h2, .inr hnone⟩
    · obtain ⟨hdb, hext⟩ := hnone
      obtain ⟨rev, db, ext, nyv, exp⟩ := i
      simp only at hdb hext; subst hdb; subst hext
      simp [foundProv] at hsome
  · subst hs
    have hcn : c = .none := hnc d a c hf
    subst hcn
    rcases hc with hc | ⟨-, hd0, hny, hex⟩
    · cases hc
    · refine ⟨hny, ?_, .inl ⟨d, a, .none, hf, hd0⟩⟩
      rcases hex with hex | ha
      · exact .inl hex
      · subst ha; exact .inr ⟨d, .none, hf⟩

/-! ## the handlers on the request as received -/

theorem apiRenew_created (v : Variant) (env : Env) (i : GateIn) (old c : Cert) (pk : Option Str) (e : Entry)
    (h : apiRenew v env i old pk e = .created c) : renew v env i old pk = .val (.issued c) := by
  unfold apiRenew at h
  have key : (match renew v env i old pk with
      | .crash => ApiResult.crash
      | .val (.refused r) => .refused r
      | .val (.signError _) => .signError
      | .val (.issued c) => .created c) = .created c → renew v env i old pk = .val (.issued c) := by
    intro hh
    cases hr : renew v env i old pk with
    | crash => simp [hr] at hh
    | val o =>
      cases o with
      | refused r => simp [hr] at hh
      | signError er => simp [hr] at hh
      | issued c' => simp [hr] at hh; rw [hh]
  cases e with
  | nothing => simp at h
  | mtls => exact key h
  | token a b c' d e' f =>
    simp only at h
    split at h
    · cases h
    · split at h
      · exact key h
      · cases h

/-- **rekey_handler_pop**: `POST /1.0/rekey` answers 201 only to a request that came with a verified
    TLS peer certificate and a CSR whose signature verifies (proof of possession), and the
    certificate carries exactly the key of that CSR; the `Authorization` header plays no role. -/
theorem rekey_handler_pop (v : Variant) (env : Env) (i : GateIn) (old c : Cert) (r : RekeyReq)
    (h : handleRekey v env i old r = .created c) :
    r.hasPeer = true ∧ r.bodyParses = true ∧ r.csrPresent = true ∧ r.csrSigOK = true ∧
    c.publicKey = r.csrKey ∧ decide v i = .val .allow := by
  unfold handleRekey at h
  cases h1 : r.hasPeer <;> simp [h1] at h
  cases h2 : r.bodyParses <;> simp [h2] at h
  cases h3 : r.csrPresent <;> simp [h3] at h
  cases h4 : r.csrSigOK <;> simp [h4] at h
  have hr := apiRenew_created v env i old c (some r.csrKey) .mtls h
  have hi := renew_issued v env i old c (some r.csrKey) hr
  refine ⟨rfl, rfl, rfl, rfl, ?_, hi.1⟩
  have hs' := hi.2
  unfold caSign at hs'
  split at hs'
  · simp at hs'
  · simp only [Except.ok.injEq] at hs'
    subst hs'; rfl

/-- `afterBearer` finds the text after the first `Bearer `, wherever it stands in the header -/
theorem afterBearer_spec (h t : Str) : afterBearer h = some t → ∃ pre, h = pre ++ s "Bearer " ++ t := by
  induction h with
  | nil => intro hh; simp [afterBearer] at hh
  | cons c cs ih =>
    intro hh
    unfold afterBearer at hh
    split at hh
    · rename_i hp
      simp only [Option.some.injEq] at hh
      refine ⟨[], ?_⟩
      obtain ⟨r, hr⟩ := List.isPrefixOf_iff_prefix.1 hp
      rw [← hh, ← hr]
      show _ = s "Bearer " ++ List.drop 7 (s "Bearer " ++ r)
      have : List.drop 7 (s "Bearer " ++ r) = r := by
        have hl : (s "Bearer ").length = 7 := by decide
        rw [← hl, List.drop_left]
      rw [this]
    · obtain ⟨pre, hpre⟩ := ih hh
      exact ⟨c :: pre, by rw [hpre]; simp⟩

/-- **renew_handler_source**: `POST /1.0/renew` answers 201 only when the certificate came from the
    TLS peer, or from a bearer token that passed every check of `AuthorizeRenewToken`; in both cases
    the gate allowed. A request with neither gets 400. -/
theorem renew_handler_source (v : Variant) (env : Env) (i : GateIn) (old c : Cert) (r : RenewReq)
    (tc : Str → Bool × Bool × Bool × Bool × Bool × Bool)
    (h : handleRenew v env i old r tc = .created c) :
    decide v i = .val .allow ∧
    (r.hasPeer = true ∨
      ∃ t, r.hasPeer = false ∧ afterBearer r.authorization = some t ∧
        authorizeRenewToken i (.token (tc t).1 (tc t).2.1 (tc t).2.2.1 (tc t).2.2.2.1 (tc t).2.2.2.2.1 (tc t).2.2.2.2.2) = true) := by
  unfold handleRenew getPeerCertificate at h
  cases hp : r.hasPeer with
  | true =>
    simp only [hp, if_true] at h
    exact ⟨(renew_issued v env i old c none (apiRenew_created _ _ _ _ _ _ _ h)).1, .inl rfl⟩
  | false =>
    simp only [hp, Bool.false_eq_true, if_false] at h
    by_cases he : r.authorization.isEmpty = true
    · simp [he] at h
    · simp only [he] at h
      cases ha : afterBearer r.authorization with
      | none => simp [ha] at h
      | some t =>
        simp only [ha] at h
        have hr := apiRenew_created _ _ _ _ _ _ _ h
        refine ⟨(renew_issued v env i old c none hr).1, .inr ⟨t, rfl, rfl, ?_⟩⟩
        unfold apiRenew at h
        simp only [Option.isSome_none, Bool.false_eq_true, if_false] at h
        split at h
        · assumption
        · cases h

/-- which entry of `apiRenew` a request ends up in -/
theorem handleRenew_entry (v : Variant) (env : Env) (i : GateIn) (old c : Cert) (r : RenewReq)
    (tc : Str → Bool × Bool × Bool × Bool × Bool × Bool)
    (h : handleRenew v env i old r tc = .created c) :
    ∃ e, apiRenew v env i old none e = .created c ∧ (e = .mtls → r.hasPeer = true) := by
  unfold handleRenew getPeerCertificate at h
  cases hp : r.hasPeer with
  | true =>
    simp only [hp, if_true] at h
    exact ⟨.mtls, h, fun _ => rfl⟩
  | false =>
    simp only [hp, Bool.false_eq_true, if_false] at h
    by_cases he : r.authorization.isEmpty = true
    · simp [he] at h
    · simp only [he] at h
      cases ha : afterBearer r.authorization with
      | none => simp [ha] at h
      | some t =>
        simp only [ha] at h
        exact ⟨_, h, fun hh => by cases hh⟩

/-- **served_window**: through the CA's own listener a request carrying a client certificate is
    served only when crypto/tls verified it: right CA, inside its validity window. -/
theorem served_window (v : Variant) (env : Env) (i : GateIn) (old : Cert) (ok nyv exp : Bool) (a : Str)
    (tc : Str → Bool × Bool × Bool × Bool × Bool × Bool) (r : ApiResult)
    (h : serveRenew v env i old (.cert ok nyv exp) a tc = some r) : ok = true ∧ nyv = false ∧ exp = false := by
  unfold serveRenew tlsHandshake at h
  cases ok <;> cases nyv <;> cases exp <;> simp at h ⊢

/-- **gates_served**: the flat statement of the property at the CA process surface, with the
    validity window of the mutual-TLS entry no longer a hypothesis but a consequence of the modelled
    handshake: 201 from `POST /1.0/renew` ⇒ not revoked ∧ now ≥ notBefore ∧ (not expired ∨ allow after
    expiry) ∧ (provisioner found ∧ renewal enabled ∨ nothing recorded). `hp`: the certificate shown in
    the handshake is the one being renewed. -/
theorem gates_served (v : Variant) (hv : v.noNoopWhenDbNames = true) (env : Env) (i : GateIn)
    (old new : Cert) (p : Presented) (a : Str) (tc : Str → Bool × Bool × Bool × Bool × Bool × Bool)
    (hnc : NoCustom i)
    (hp : ∀ ok n e, p = .cert ok n e → n = i.notYetValid ∧ e = i.expired) :
    serveRenew v env i old p a tc = some (.created new) →
      i.revoked = .no ∧ i.notYetValid = false ∧ (i.expired = false ∨ AllowsAfterExpiry i) ∧
      (RenewalEnabled i ∨ recordsNone i) := by
  intro h
  unfold serveRenew at h
  cases hh : tlsHandshake p with
  | none => simp [hh] at h
  | some peer =>
    simp only [hh, Option.map_some, Option.some.injEq] at h
    obtain ⟨e, he, hm⟩ := handleRenew_entry v env i old new ⟨peer, a⟩ tc h
    refine gates_api v hv env i old new none e hnc ?_ he
    intro hmt
    have hpeer : peer = true := hm hmt
    subst hpeer
    cases p with
    | nothing => simp [tlsHandshake] at hh
    | cert ok n ex =>
      obtain ⟨h1, h2⟩ := hp ok n ex rfl
      unfold tlsHandshake at hh
      cases ok <;> cases n <;> cases ex <;> simp at hh
      exact ⟨h1.symm, h2.symm⟩

/-- the same for rekey: served ⇒ a verified certificate inside its validity window was shown -/
theorem rekey_served (v : Variant) (env : Env) (i : GateIn) (old c : Cert) (p : Presented)
    (b1 b2 b3 : Bool) (k : Str) (h : serveRekey v env i old p b1 b2 b3 k = some (.created c)) :
    p = .cert true false false ∧ b3 = true ∧ c.publicKey = k ∧ decide v i = .val .allow := by
  unfold serveRekey at h
  cases hh : tlsHandshake p with
  | none => simp [hh] at h
  | some peer =>
    simp only [hh, Option.map_some, Option.some.injEq] at h
    obtain ⟨h1, -, -, h4, h5, h6⟩ := rekey_handler_pop v env i old c _ h
    simp only at h1 h4 h5
    subst h1
    refine ⟨?_, h4, h5, h6⟩
    cases p with
    | nothing => simp [tlsHandshake] at hh
    | cert ok n ex =>
      unfold tlsHandshake at hh
      cases ok <;> cases n <;> cases ex <;> simp at hh
      rfl

/-- The RA wrapping of a database record never changes the gate decision on /repo HEAD (it only
    lifts the audience comparison of a renew token, which is not one of the property's gates). -/
theorem ra_flag_irrelevant (rev : Revoked) (p : Stored) (ext : ExtLookup) (nyv exp : Bool) :
    decide current ⟨rev, .found p true, ext, nyv, exp⟩ = decide current ⟨rev, .found p false, ext, nyv, exp⟩ := by
  cases rev <;> rcases p with ⟨d, a, c⟩ | _ | _ <;> (try cases c) <;>
    simp [decide, authorizeRenew, selectProvisioner, loadByCertificate, callAuthorizeRenew,
      provAuthorizeRenew, defaultAuthorizeRenew, current, repaired]

/-! # Part D — histories: any number of renewals -/

/-- `c` was obtained from `c0` by zero or more successful renewals (same key), under arbitrary
    gate inputs and CA environments at each step. -/
inductive RenewedFrom (v : Variant) (c0 : Cert) : Cert → Prop where
  | refl : RenewedFrom v c0 c0
  | step {c c' : Cert} (env : Env) (i : GateIn) :
      RenewedFrom v c0 c → renew v env i c none = .val (.issued c') → RenewedFrom v c0 c'

/-- the remaining TBSCertificate components of an issued certificate -/
theorem renew_tbs (v : Variant) (env : Env) (i : GateIn) (old new : Cert) (pk : Option Str)
    (h : renew v env i old pk = .val (.issued new)) :
    new.version = 3 ∧ new.serial = env.serial ∧ new.sigAlg = env.sigAlg ∧
    new.issuer = env.issuerSubject ∧ new.notBefore = env.now - env.backdate ∧
    new.notAfter = env.now + ((old.notAfter - old.notBefore) - env.backdate) ∧
    new.subjectKeyId =
      (match extOf oidSKI new.extensions with | some e => env.enc.skiDec e.value | none => []) := by
  have hs' := (renew_issued v env i old new pk h).2
  unfold caSign at hs'
  split at hs'
  · simp at hs'
  · simp only [Except.ok.injEq] at hs'
    subst hs'
    exact ⟨rfl, rfl, rfl, rfl, rfl, rfl, rfl⟩

theorem extOf_none_of_not_hasOid (o : Oid) (es : List Ext) (h : hasOid o es = false) :
    extOf o es = none := by
  unfold extOf hasOid at *
  rw [List.find?_eq_none]
  intro e he
  have := List.any_eq_false.1 h e he
  simpa using this

theorem renew_preserves_wf (v : Variant) (env : Env) (i : GateIn) (old new : Cert)
    (hc : Consistent old) (hs : RenewOK v old)
    (h : renew v env i old none = .val (.issued new)) :
    Consistent new ∧ RenewOK v new := by
  obtain ⟨hf, -, -, -⟩ := renew_shape v env i old new none hc (fun _ => hs) h
  obtain ⟨-, hnew, hkeep⟩ := only_these_differ v env i old new none hc (fun _ => hs) h
  have keep : ∀ o, o ≠ oidAKI → hasOid o old.extensions = true → hasOid o new.extensions = true := by
    intro o ho hh
    obtain ⟨e, he, heo⟩ := (hasOid_iff _ _).1 hh
    exact (hasOid_iff _ _).2 ⟨e, hkeep e he (by rw [heo]; exact ho) (by simp), heo⟩
  have hok : RenewOK v new := by
    by_cases hh : hasOid oidSKI old.extensions = true
    · exact .inl (keep _ (by decide) hh)
    · rcases hs with hs | ⟨h1, h2, h3⟩
      · exact absurd hs hh
      · refine .inr ⟨h1, ?_, by rw [hf]; exact h3⟩
        have hno : hasOid oidSKI new.extensions = false := by
          rw [Bool.eq_false_iff]
          intro hc'
          obtain ⟨e, he, heo⟩ := (hasOid_iff _ _).1 hc'
          rcases hnew e he with hin | haki | ⟨hp, -⟩
          · exact hh ((hasOid_iff _ _).2 ⟨e, hin, heo⟩)
          · rw [heo] at haki; exact absurd haki (by decide)
          · simp at hp
        have := (renew_tbs v env i old new none h).2.2.2.2.2.2
        rw [this, extOf_none_of_not_hasOid _ _ hno]
  obtain ⟨h1, h2, h3, h4, h5, h6, h7, h8⟩ := hc
  refine ⟨⟨?_, ?_, ?_, ?_, ?_, ?_, ?_, ?_⟩, hok⟩ <;> rw [hf] <;> intro hh
  · exact keep _ (by decide) (h1 hh)
  · exact keep _ (by decide) (h2 hh)
  · exact keep _ (by decide) (h3 hh)
  · exact keep _ (by decide) (h4 hh)
  · exact keep _ (by decide) (h5 hh)
  · exact keep _ (by decide) (h6 hh)
  · exact keep _ (by decide) (h7 hh)
  · exact keep _ (by decide) (h8 hh)

/-- **renew_history**: fidelity survives any number of renewals: the n-th renewal still equals
    the first certificate in every copied field, in the key, in the validity length and in the
    extension list minus the authority key identifier. -/
theorem renew_history (v : Variant) (c0 c : Cert) (hc : Consistent c0)
    (hs : RenewOK v c0) (h : RenewedFrom v c0 c) :
    (Consistent c ∧ RenewOK v c) ∧
    c.f = c0.f ∧ c.publicKey = c0.publicKey ∧
    c.notAfter - c.notBefore = c0.notAfter - c0.notBefore ∧
    dropOid oidAKI c.extensions = dropOid oidAKI c0.extensions := by
  induction h with
  | refl => exact ⟨⟨hc, hs⟩, rfl, rfl, rfl, rfl⟩
  | step env i _ hstep ih =>
    obtain ⟨⟨ihc, ihs⟩, i1, i2, i3, i4⟩ := ih
    obtain ⟨f1, f2, f3, f4⟩ := renew_fidelity v env i _ _ ihc ihs hstep
    exact ⟨renew_preserves_wf v env i _ _ ihc ihs hstep, f1.trans i1, f2.trans i2, f3.trans i3, f4.trans i4⟩

/-! ## /repo HEAD: fidelity for every certificate the CA can have issued -/

/-- What holds of every certificate that came out of `x509.CreateCertificate` +
    `x509.ParseCertificate`: field groups only from their extensions, no parsed subject key
    identifier without the extension, and a CA certificate always has the extension (crypto/x509
    generates one for `IsCA` templates that carry none). No assumption that a leaf has one. -/
def WellFormed (c : Cert) : Prop :=
  Consistent c ∧ SKIParsed c ∧ (c.f.isCA = true → hasOid oidSKI c.extensions = true)

theorem renewOK_of_wellFormed (v : Variant) (hv : v.keepNoSKI = true) (c : Cert) (hw : WellFormed c) :
    RenewOK v c := by
  obtain ⟨-, hp, hca⟩ := hw
  by_cases hh : hasOid oidSKI c.extensions = true
  · exact .inl hh
  · have hf : hasOid oidSKI c.extensions = false := by simpa using hh
    refine .inr ⟨hv, hp hf, ?_⟩
    cases hc : c.f.isCA with
    | false => rfl
    | true => exact absurd (hca hc) hh

/-- **renew_fidelity_current**: on /repo HEAD, for *every* well-formed presented certificate -
    with or without subject key identifier - every environment and every gate input, a renewed
    certificate equals the presented one in every copied field, the key, the validity length and
    the extension list minus the authority key identifier, as lists. -/
theorem renew_fidelity_current (env : Env) (i : GateIn) (old new : Cert) (hw : WellFormed old)
    (h : renew current env i old none = .val (.issued new)) :
    new.f = old.f ∧ new.publicKey = old.publicKey ∧
    new.notAfter - new.notBefore = old.notAfter - old.notBefore ∧
    dropOid oidAKI new.extensions = dropOid oidAKI old.extensions :=
  renew_fidelity current env i old new hw.1 (renewOK_of_wellFormed current rfl old hw) h

/-- … and the result is again well-formed, so the statement iterates over any history -/
theorem renew_history_current (c0 c : Cert) (hw : WellFormed c0) (h : RenewedFrom current c0 c) :
    c.f = c0.f ∧ c.publicKey = c0.publicKey ∧
    c.notAfter - c.notBefore = c0.notAfter - c0.notBefore ∧
    dropOid oidAKI c.extensions = dropOid oidAKI c0.extensions :=
  (renew_history current c0 c hw.1 (renewOK_of_wellFormed current rfl c0 hw) h).2

/-- **only_these_differ_current** -/
theorem only_these_differ_current (env : Env) (i : GateIn) (old new : Cert) (pk : Option Str)
    (hw : WellFormed old) (h : renew current env i old pk = .val (.issued new)) :
    (∀ o, o ≠ oidAKI → (pk.isSome = true → o ≠ oidSKI) →
        extOf o new.extensions = extOf o old.extensions) ∧
    (∀ e ∈ new.extensions, e ∈ old.extensions ∨ e.oid = oidAKI ∨ (pk.isSome = true ∧ e.oid = oidSKI)) ∧
    (∀ e ∈ old.extensions, e.oid ≠ oidAKI → (pk.isSome = true → e.oid ≠ oidSKI) → e ∈ new.extensions) :=
  only_these_differ current env i old new pk hw.1 (fun _ => renewOK_of_wellFormed current rfl old hw) h

/-! ## TBS level: what may differ, serial numbers -/

/-- **tbs_only_these_differ**: when the issuing CA is the same (same issuer name, same signature
    algorithm) every component of the TBSCertificate other than serial number, validity and the
    authority key identifier extension (on rekey also key and subject key identifier extension)
    is the presented certificate's: version, signature algorithm, issuer, raw subject and all copied
    fields, SubjectPublicKeyInfo, and the extension list as a list. The serial number is the one
    the CAS drew, never the presented one's. -/
theorem tbs_only_these_differ (v : Variant) (env : Env) (i : GateIn) (old new : Cert) (pk : Option Str)
    (hc : Consistent old) (hs : pk = none → RenewOK v old)
    (hv3 : old.version = 3) (hiss : env.issuerSubject = old.issuer) (halg : env.sigAlg = old.sigAlg)
    (h : renew v env i old pk = .val (.issued new)) :
    new.version = old.version ∧ new.sigAlg = old.sigAlg ∧ new.issuer = old.issuer ∧
    new.f = old.f ∧ new.publicKey = pk.getD old.publicKey ∧ new.serial = env.serial ∧
    new.notAfter - new.notBefore = old.notAfter - old.notBefore ∧
    dropOid oidAKI (if pk.isSome then dropOid oidSKI new.extensions else new.extensions) =
      dropOid oidAKI (if pk.isSome then dropOid oidSKI old.extensions else old.extensions) := by
  obtain ⟨t1, t2, t3, t4, -, -, -⟩ := renew_tbs v env i old new pk h
  obtain ⟨hf, hk, hvl, -⟩ := renew_shape v env i old new pk hc hs h
  refine ⟨by rw [t1, hv3], by rw [t3, halg], by rw [t4, hiss], hf, hk, t2, hvl, ?_⟩
  cases pk with
  | none => exact (renew_fidelity v env i old new hc (hs rfl) h).2.2.2
  | some k => exact (rekey_fidelity v env i old new k hc h).2.2.2.1

/-- A history of renewals and rekeys, newest certificate first. Each step runs under its own gate
    input and CA environment; `fresh` is the one assumption about the CAS: the serial it draws
    (128 random bits in `x509util`) has not been used in this history. -/
inductive Chain (v : Variant) : List Cert → Prop where
  | start (c0 : Cert) : Chain v [c0]
  | step {c c' : Cert} {cs : List Cert} (env : Env) (i : GateIn) (pk : Option Str) :
      Chain v (c :: cs) → renew v env i c pk = .val (.issued c') →
      env.serial ∉ (c :: cs).map (·.serial) → Chain v (c' :: c :: cs)

/-- **serials_distinct**: along every history all serial numbers are pairwise distinct - the
    renewal path never carries a serial number over from the presented certificate, the template
    leaves it to the CAS. -/
theorem serials_distinct (v : Variant) (l : List Cert) (h : Chain v l) : (l.map (·.serial)).Nodup := by
  induction h with
  | start c0 => simp
  | step env i pk _ hstep hfresh ih =>
    have := (renew_tbs v env i _ _ pk hstep).2.1
    simp only [List.map_cons, List.nodup_cons] at ih ⊢
    exact ⟨by rw [this]; simpa using hfresh, ih⟩

/-! ## the proposed key check on rekey -/

/-- **rekey_key_checked** (variants with the proposed check): a rekeyed certificate only ever
    carries a key the sign flow would accept. -/
theorem rekey_key_checked (v : Variant) (hv : v.rekeyKeyCheck = true) (env : Env) (i : GateIn)
    (old new : Cert) (k : Str) (h : renew v env i old (some k) = .val (.issued new)) :
    env.keyOK k = true ∧ new.publicKey = k := by
  constructor
  · unfold renew at h
    by_cases hk : keyRefused v env (some k) = true
    · rw [if_pos hk] at h; cases h
    · simpa [keyRefused, hv] using hk
  · have hs' := (renew_issued v env i old new (some k) h).2
    unfold caSign at hs'
    split at hs'
    · simp at hs'
    · simp only [Except.ok.injEq] at hs'
      subst hs'; rfl

/-! # Part F — the renewal flags through configuration, migration and restart -/

/-- a flag keeps its effect through the migration when the provisioner has no claims object, sets
    the flag itself, or the authority-level value is the built-in default -/
def FlagsSurvive (g : GlobalFlags) (pc : Option RFlags) : Prop :=
  pc = none ∨ ∃ c, pc = some c ∧
    (c.disableRenewal.isSome = true ∨ g.disableRenewal = false) ∧
    (c.allowAfterExpiry.isSome = true ∨ g.allowAfterExpiry = false)

/-- **migration_preserves_flags** (variants with the proposed migration repair): whatever the
    configuration, the effective renewal flags of a provisioner are the same in ca.json, after the
    migration to the admin database, and after any restart. -/
theorem migration_preserves_flags (v : Variant) (hv : v.migrationKeepsGlobals = true)
    (g : GlobalFlags) (pc : Option RFlags) (ph : Phase) :
    effectiveFlags g (claimsAt v g pc ph) = effectiveFlags g pc := by
  cases pc with
  | none => cases ph <;> rfl
  | some c =>
    obtain ⟨d, a⟩ := c
    cases ph <;> cases d <;> cases a <;>
      simp [claimsAt, migrateClaims, claimsToCertificates, claimsToLinkedca, effectiveFlags, hv]

/-- the code as it stands: the same under `FlagsSurvive` -/
theorem migration_preserves_flags_partial (v : Variant) (g : GlobalFlags) (pc : Option RFlags) (ph : Phase)
    (h : FlagsSurvive g pc) : effectiveFlags g (claimsAt v g pc ph) = effectiveFlags g pc := by
  rcases h with h | ⟨c, h, hd, ha⟩
  · subst h; cases ph <;> rfl
  · subst h
    obtain ⟨d, a⟩ := c
    cases hv : v.migrationKeepsGlobals <;> cases ph <;> cases d <;> cases a <;>
      simp_all [claimsAt, migrateClaims, claimsToCertificates, claimsToLinkedca, effectiveFlags]

/-- C09-MIG witness: renewal disabled at authority level, provisioner with a claims object that
    leaves the flag unset -/
def migWitnessG : GlobalFlags := ⟨true, false⟩
def migWitnessC : Option RFlags := some ⟨none, none⟩

/-- **migration_preserves_flags_refuted** (/repo HEAD, finding C09-MIG): the full-strength statement is
    false - after the migration the provisioner's renewal is enabled although the configuration
    disables it, and a certificate of it is renewed. -/
theorem migration_preserves_flags_refuted :
    ¬ ∀ (g : GlobalFlags) (pc : Option RFlags) (ph : Phase),
        effectiveFlags g (claimsAt current g pc ph) = effectiveFlags g pc := by
  intro h
  have := h migWitnessG migWitnessC .migrated
  revert this; decide

/-- a restart changes nothing any more: the database is a fixed point of the conversion -/
theorem migration_idempotent (v : Variant) (g : GlobalFlags) (pc : Option RFlags) :
    claimsAt v g pc .restarted = claimsAt v g pc .migrated := by
  cases pc with
  | none => rfl
  | some c =>
    obtain ⟨d, a⟩ := c
    cases hv : v.migrationKeepsGlobals <;> cases d <;> cases a <;>
      simp [claimsAt, migrateClaims, claimsToCertificates, claimsToLinkedca, hv]

/-- **migration_gate**: with flags that survive (always, with the repair) a certificate that
    carries the provisioner extension gets the same gate decision in every phase - in particular
    "renewal disabled" stays refused after the migration and after restarts, although the
    database record no longer resolves (the provisioner got a new id). -/
theorem migration_gate (v : Variant) (g : GlobalFlags) (pc : Option RFlags) (ph : Phase) (expired : Bool)
    (h : v.migrationKeepsGlobals = true ∨ FlagsSurvive g pc) :
    decide v (phaseGate v g pc ph expired) = decide v (phaseGate v g pc .config expired) := by
  have hf : effectiveFlags g (claimsAt v g pc ph) = effectiveFlags g pc := by
    rcases h with h | h
    · exact migration_preserves_flags v h g pc ph
    · exact migration_preserves_flags_partial v g pc ph h
  have h0 : effectiveFlags g (claimsAt v g pc .config) = effectiveFlags g pc := rfl
  unfold phaseGate
  rw [hf, h0]
  generalize effectiveFlags g pc = fl
  obtain ⟨d, a⟩ := fl
  cases ph <;> cases d <;> cases a <;> cases expired <;>
    simp [decide, authorizeRenew, selectProvisioner, loadByCertificate, loadFromExtension,
      collectionLoadByCertificate, callAuthorizeRenew, provAuthorizeRenew, defaultAuthorizeRenew]

example : FlagsSurvive ⟨false, false⟩ (some ⟨some true, none⟩) := .inr ⟨_, rfl, .inl rfl, .inr rfl⟩
example : decide current (phaseGate current migWitnessG migWitnessC .config false) = .val (.refuse .renewDisabled) ∧
    decide current (phaseGate current migWitnessG migWitnessC .migrated false) = .val .allow ∧
    decide withMigrationRepair (phaseGate withMigrationRepair migWitnessG migWitnessC .migrated false) =
      .val (.refuse .renewDisabled) := by decide

/-! # Part F2 — histories of store operations: standalone and linked deployments -/

theorem foldl_applyOp_keeps_revoked (d : Deployment) (ops : List StoreOp) (st : Stores) (s : Nat)
    (h : isRevokedAt d st s = true) : isRevokedAt d (ops.foldl (applyOp d) st) s = true := by
  induction ops generalizing st with
  | nil => exact h
  | cons op ops ih =>
    apply ih
    cases d <;> cases op <;> simp_all [applyOp, isRevokedAt]
    all_goals (try split) <;> simp_all

/-- **revoked_stays_revoked**: in every deployment and every history of issuances, renewals and
    revocations, a certificate whose revocation was recorded - whether the request presented the
    certificate or only a token and the serial number - is reported revoked by the lookup the
    renewal gate uses, from then on. -/
theorem revoked_stays_revoked (d : Deployment) (before after : List StoreOp) (s : Nat) (c : Bool) :
    isRevokedAt d (runOps d (before ++ .revoke s c :: after)) s = true := by
  unfold runOps
  rw [List.foldl_append, List.foldl_cons]
  apply foldl_applyOp_keeps_revoked
  cases d <;> simp [applyOp, isRevokedAt]

/-- **revoked_history_refused**: … and renewal and rekey of it are refused, whatever the provisioner,
    the claims, the validity window and the entry point. -/
theorem revoked_history_refused (v : Variant) (d : Deployment) (before after : List StoreOp) (s : Nat) (c : Bool)
    (loaded : String → Option Stored) (ext : ExtLookup) (nyv exp : Bool) :
    decide v (gateAfter d (before ++ .revoke s c :: after) s loaded ext nyv exp) = .val (.refuse .revoked) := by
  have h := revoked_stays_revoked d before after s c
  simp [gateAfter, h, decide, authorizeRenew]

/-- nothing is reported revoked that was never revoked -/
theorem never_revoked_not_reported (d : Deployment) (ops : List StoreOp) (s : Nat)
    (h : ∀ c, StoreOp.revoke s c ∉ ops) : isRevokedAt d (runOps d ops) s = false := by
  unfold runOps
  have gen : ∀ (st : Stores), isRevokedAt d st s = false →
      isRevokedAt d (ops.foldl (applyOp d) st) s = false := by
    induction ops with
    | nil => intro st hs; exact hs
    | cons op ops ih =>
      intro st hs
      apply ih (fun c hc => h c (List.mem_cons_of_mem _ hc))
      cases op with
      | issue a b => cases d <;> simpa [applyOp, isRevokedAt] using hs
      | renewed a b =>
        cases d <;> simp only [applyOp] <;> split <;> simpa [isRevokedAt] using hs
      | revoke t c =>
        have hne : t ≠ s := fun e => h c (by rw [e]; exact List.mem_cons_self)
        cases d <;> simp_all [applyOp, isRevokedAt]
        all_goals exact fun e => hne e.symm
  exact gen _ (by cases d <;> rfl)

/-- **record_follows_issue**: the provisioner recorded at issuance is what the renewal gate's
    database lookup sees, in both deployments (writer and reader use the same store). -/
theorem record_follows_issue (d : Deployment) (before : List StoreOp) (s : Nat) (p : String) :
    recordAt d (runOps d (before ++ [.issue s p])) s = some p := by
  unfold runOps
  rw [List.foldl_append]
  cases d <;> simp [applyOp, recordAt, lookupRecord]

example : isRevokedAt .linked (runOps .linked [.issue 7 "p", .revoke 7 false]) 7 = true := by decide
example : isRevokedAt .standalone (runOps .standalone [.issue 7 "p", .revoke 8 true]) 7 = false := by decide

/-! # Part G — the source-derived tables and the model -/

/-- the template literal copies exactly the fields the model's `Fields` stands for -/
theorem template_fields_are_the_models :
    renewTemplateFields.length = fieldsGoNames.length ∧
    (∀ n ∈ fieldsGoNames, n ∈ renewTemplateFields) ∧ (∀ n ∈ renewTemplateFields, n ∈ fieldsGoNames) := by
  decide

/-- … and nothing of the certificate's identity: no serial number, validity, issuer, authority key
    identifier, signature or raw encoding is in the literal, and the only fields assigned later are
    the public key, the subject key identifier (to nil / empty) and `ExtraExtensions`. This is what
    `renewTemplate` (`serial := none`, key chosen, `subjectKeyId` none / empty) models. -/
theorem template_carries_no_identity :
    (∀ n ∈ identityFields, n ∉ renewTemplateFields) ∧
    (∀ n ∈ renewTemplateAssignedFields, n ∈ ["PublicKey", "SubjectKeyId", "ExtraExtensions"]) ∧
    (∀ n ∈ identityFields, n ∉ renewTemplateAssignedFields) := by
  decide

/-- the copy loop drops exactly the table's OIDs: the first always, the second on rekey -/
theorem copyExtensions_spec (r : Bool) (es : List Ext) (e : Ext) :
    e ∈ copyExtensions r es ↔
      e ∈ es ∧ e.oid ≠ skippedExtensionOids[0]! ∧ ¬ (e.oid = skippedExtensionOids[1]! ∧ r = true) := by
  cases r <;> simp [copyExtensions, skippedExtensionOids]

/-- every generated extension has an OID of the table derived from crypto/x509, and they come in
    the table's order -/
theorem generated_follows_go_order (enc : Enc) (t : Tpl) (aki ski : Str) :
    ((generated enc t aki ski).map (·.oid)).Sublist generatedOrder := by
  have hs : ∀ (c : Bool) (e : Ext), ((slot t.extra c e).map (·.oid)).Sublist [e.oid] := by
    intro c e
    unfold slot
    split
    · exact List.Sublist.refl _
    · simp
  unfold generated generatedOrder
  simp only [List.map_append]
  have := List.Sublist.append (hs (t.f.keyUsage != 0) ⟨oidKU, true, enc.ku t.f⟩)
    (List.Sublist.append (hs (!t.f.extKeyUsage.isEmpty || !t.f.unknownExtKeyUsage.isEmpty) ⟨oidEKU, false, enc.eku t.f⟩)
    (List.Sublist.append (hs t.f.bcValid ⟨oidBC, true, enc.bc t.f⟩)
    (List.Sublist.append (hs (!ski.isEmpty) ⟨oidSKI, false, enc.ski ski⟩)
    (List.Sublist.append (hs (!aki.isEmpty) ⟨oidAKI, false, enc.aki aki⟩)
    (List.Sublist.append (hs (!t.f.ocspServer.isEmpty || !t.f.issuingURL.isEmpty) ⟨oidAIA, false, enc.aia t.f⟩)
    (List.Sublist.append (hs (!t.f.dnsNames.isEmpty || !t.f.emailAddresses.isEmpty || !t.f.ipAddresses.isEmpty || !t.f.uris.isEmpty)
        ⟨oidSAN, subjectIsEmpty t.f, enc.san t.f⟩)
    (List.Sublist.append (hs (!t.f.policies.isEmpty) ⟨oidPol, false, enc.pol t.f⟩)
    (List.Sublist.append (hs (hasNameConstraints t.f) ⟨oidNC, t.f.ncCritical, enc.nc t.f⟩)
      (hs (!t.f.crlDP.isEmpty) ⟨oidCRLDP, false, enc.crl t.f⟩)))))))))
  simpa [List.append_assoc] using this

/-- the call order of `authorizeRenew` in the source is the order of the model's `authorizeRenew`:
    revocation first, then the two lookups and the record test, then the two type tests, then the
    provisioner's own answer -/
theorem authorizeRenew_call_order :
    authorizeRenewCalls.head? = some "IsRevoked" ∧ authorizeRenewCalls.getLast? = some "AuthorizeRenew" ∧
    authorizeRenewCalls.idxOf "certificateRecordsProvisioner" < authorizeRenewCalls.idxOf "assert:provisioner.Uninitialized" ∧
    authorizeRenewCalls.idxOf "assert:*wrappedProvisioner" < authorizeRenewCalls.idxOf "assert:provisioner.Uninitialized" := by
  decide

/-- **revocation_first**: once the revocation lookup says "revoked" or fails, nothing else is even
    looked at: the decision does not depend on any other input. -/
theorem revocation_first (v : Variant) (i j : GateIn) (h : i.revoked = j.revoked) (hr : i.revoked ≠ .no) :
    decide v i = decide v j := by
  unfold decide authorizeRenew
  rw [← h]
  cases hh : i.revoked with
  | no => exact absurd hh hr
  | yes => rfl
  | err => rfl

/-- `DefaultAuthorizeRenew` tests in the table's order: the disabled claim dominates everything, a
    not-yet-valid certificate is refused before expiry is looked at -/
theorem default_check_order (a : Bool) (i : GateIn) :
    defaultAuthorizeRenew true a i = .refuse .renewDisabled ∧
    (i.notYetValid = true → defaultAuthorizeRenew false a i = .refuse .notYetValid) ∧
    defaultAuthorizeRenewChecks = ["IsDisableRenewal", "Before", "After", "AllowRenewalAfterExpiry"] := by
  refine ⟨by simp [defaultAuthorizeRenew], ?_, rfl⟩
  intro h; simp [defaultAuthorizeRenew, h]

/-- every type that answers `AuthorizeRenew` (through its controller or through `base`) has its
    claims converted in both directions: the regenerated conversion tables cover the regenerated
    type tables -/
theorem converted_types_cover_renew_types :
    (∀ t ∈ ctlRenewTypes ++ baseRenewTypes, t ∈ typesConvertedToLinkedca) ∧
    (∀ t ∈ ctlRenewTypes ++ baseRenewTypes, t ∈ typesConvertedToCertificates) ∧
    typesConvertedToLinkedca.length = 11 := by
  decide

/-- in the regenerated shape of `claimsToLinkedca` each renewal flag is read from, defaulted into
    and stored under its own name (no flag feeds another) -/
theorem claims_flow_is_diagonal :
    claimsToLinkedcaFlow.take 2 =
      ["c.DisableRenewal!=nil=>disableRenewal=*c.DisableRenewal",
       "c.AllowRenewalAfterExpiry!=nil=>allowRenewalAfterExpiry=*c.AllowRenewalAfterExpiry"] ∧
    "lit:DisableRenewal:disableRenewal" ∈ claimsToLinkedcaFlow ∧
    "lit:AllowRenewalAfterExpiry:allowRenewalAfterExpiry" ∈ claimsToLinkedcaFlow ∧
    claimsToCertificatesFlow.take 2 = ["DisableRenewal:&c.DisableRenewal", "AllowRenewalAfterExpiry:&c.AllowRenewalAfterExpiry"] := by
  decide

/-- in the regenerated routing tables every writer and reader asks the admin database first and
    under no other condition than "it offers the operation" - the shape `applyOp`, `isRevokedAt`,
    `recordAt` model (routing on the deployment only) -/
theorem routing_is_unconditional :
    ∀ e ∈ storeRouting, e.2.head? = some "adminDB?ok" ∧ ∀ c ∈ e.2, c = "adminDB?ok" ∨ c = "db?ok" := by
  decide

/-- the two tables of provisioner types are disjoint -/
theorem renew_types_disjoint : ∀ t ∈ ctlRenewTypes, t ∉ baseRenewTypes := by decide

/-! # Part E — the hypotheses are satisfiable, and what happens outside them -/

section Examples

def encX : Enc :=
  { ku := fun _ => [1], eku := fun _ => [2], bc := fun _ => [3], ski := fun k => 4 :: k,
    aki := fun k => 5 :: k, aia := fun _ => [6], san := fun _ => [7], pol := fun _ => [8],
    nc := fun _ => [9], crl := fun _ => [10], skiDec := fun v => v.drop 1 }

def envX : Env :=
  { enc := encX, now := 1000, backdate := 60, serial := 77, issuerSubject := [0x30, 0x00],
    parentSKI := [0xAA], skiOf := fun k => 0xBB :: k, sha1Of := fun k => 0xCC :: k,
    sigAlg := [1, 2, 840, 10045, 4, 3, 2], keyOK := fun k => k.length ≥ 2 }

def fieldsX : Fields :=
  { rawSubject := [0x30, 0x03, 1, 2, 3], keyUsage := 5, extKeyUsage := [1, 2], unknownExtKeyUsage := [],
    unhandledCritical := [[1, 2, 3, 4]], bcValid := true, isCA := false, maxPathLen := -1,
    maxPathLenZero := false, ocspServer := [], issuingURL := [], dnsNames := [s "a.test"],
    emailAddresses := [], ipAddresses := [[10, 0, 0, 1]], uris := [], ncCritical := false,
    permDNS := [], exclDNS := [], permIP := [], exclIP := [], permEmail := [], exclEmail := [],
    permURI := [], exclURI := [], crlDP := [], policies := [] }

/-- issuance order of a typical leaf: KU, EKU, BC, SKI, AKI, SAN, provisioner, unknown critical -/
def certX : Cert :=
  { f := fieldsX, version := 3, sigAlg := [1, 2, 840, 10045, 4, 3, 2], subjectKeyId := [0xBB, 1, 1],
    publicKey := [1, 1], serial := 5, notBefore := 0, notAfter := 86400, issuer := [0x30, 0x00],
    extensions := [⟨oidKU, true, [1]⟩, ⟨oidEKU, false, [2]⟩, ⟨oidBC, true, [3]⟩, ⟨oidSKI, false, [4, 0xBB, 1, 1]⟩,
      ⟨oidAKI, false, [5, 0x99]⟩, ⟨oidSAN, false, [7]⟩, ⟨oidStepProvisioner, false, [42]⟩,
      ⟨[1, 2, 3, 4], true, [43]⟩] }

def okGate : GateIn := ⟨.no, .found (.ctl false false .none) false, .found (.ctl false false .none), false, false⟩

example : Consistent certX := by unfold Consistent; decide
example : hasOid oidSKI certX.extensions = true := by decide
example : (oids certX.extensions).Nodup := by decide
/-- the hypotheses of `renew_fidelity` / `only_these_differ` / `renew_nodup` are met by a
    non-trivial certificate, and the renewal is: new authority key id first, then everything else
    in its old order -/
example : ∃ c, renew current envX okGate certX none = .val (.issued c) ∧
    c.extensions = ⟨oidAKI, false, [5, 0xAA]⟩ :: dropOid oidAKI certX.extensions := ⟨_, rfl, by decide⟩
/-- rekey: new subject key id, new authority key id, then the rest -/
example : ∃ c, renew current envX okGate certX (some [2, 2]) = .val (.issued c) ∧
    c.publicKey = [2, 2] ∧
    c.extensions = ⟨oidSKI, false, [4, 0xBB, 2, 2]⟩ :: ⟨oidAKI, false, [5, 0xAA]⟩ ::
      dropOid oidAKI (dropOid oidSKI certX.extensions) := ⟨_, rfl, by decide, by decide⟩
/-- `gates` is not vacuous: allowed inputs exist in every branch of the specification -/
example : decide current okGate = .val .allow ∧ GateSpec okGate :=
  ⟨by decide, gates_complete current okGate |> fun _ => by
    refine ⟨rfl, .inr ⟨_, rfl, false, false, .none, rfl, .inr ⟨rfl, rfl, rfl, .inl rfl⟩⟩⟩⟩
example : decide current ⟨.no, .noRecord, .noExt, true, true⟩ = .val .allow := by decide
example : decide current ⟨.no, .found (.ctl false true .none) false, .noExt, false, true⟩ = .val .allow := by decide
example : decide current ⟨.no, .found (.ctl false false .none) true, .noExt, false, true⟩ = .val (.refuse .expired) := by decide
example : decide current ⟨.no, .gone, .found (.ctl true false .none), false, false⟩ = .val (.refuse .renewDisabled) := by decide
example : decide current ⟨.yes, .noRecord, .noExt, false, false⟩ = .val (.refuse .revoked) := by decide
/-- the D17, D9 and D9-RA shapes under the three trees -/
example : decide asCodedBefore d17 = .val .allow ∧ decide current d17 = .val (.refuse .provisionerNotFound) := by decide
example : decide asCodedBefore d9 = .crash ∧ decide fixedD9D17 d9 = .val (.refuse .uninitialized) := by decide
example : decide fixedD9D17 d9ra = .crash ∧ decide current d9ra = .val (.refuse .uninitialized) := by decide
/-- the hypothesis of `no_crash_fixedD9D17` is satisfiable by an uninitialised, unwrapped provisioner -/
example : ¬ (UninitSelected d9 ∧ RAWrapped d9) := by simp [RAWrapped, d9]
/-- hypotheses of `removed_provisioner_refused` are satisfiable -/
example : (⟨.no, .gone, .gone, false, false⟩ : GateIn).revoked = .no ∧
    foundProv ⟨.no, .gone, .gone, false, false⟩ = none ∧ ¬ recordsNone ⟨.no, .gone, .gone, false, false⟩ := by
  refine ⟨rfl, rfl, ?_⟩; simp [recordsNone]

/-- A well-formed leaf *without* subject key identifier (issued from a template with
    `"subjectKeyId": ""`). -/
def certNoSKI : Cert :=
  { certX with extensions := dropOid oidSKI certX.extensions, subjectKeyId := [] }

example : WellFormed certX := ⟨by unfold Consistent; decide, fun h => by revert h; decide, fun _ => by decide⟩
example : WellFormed certNoSKI := ⟨by unfold Consistent; decide, fun _ => rfl, fun h => by revert h; decide⟩

/-- on /repo HEAD it is renewed without gaining one: the list clause holds -/
example : ∃ c, renew current envX okGate certNoSKI none = .val (.issued c) ∧
    dropOid oidAKI c.extensions = dropOid oidAKI certNoSKI.extensions ∧
    extOf oidSKI c.extensions = none := ⟨_, rfl, by decide, by decide⟩

/-- … and a rekey still gives it the identifier of the new key -/
example : ∃ c, renew current envX okGate certNoSKI (some [2, 2]) = .val (.issued c) ∧
    extOf oidSKI c.extensions = some ⟨oidSKI, false, [4, 0xBB, 2, 2]⟩ := ⟨_, rfl, by decide⟩

end Examples

/-- **renew_gained_ski** (historic, tree before ce0e905, finding C09-SKI): the full-strength
    fidelity statement for every well-formed certificate was false - the leaf without subject
    key identifier came back with one. -/
theorem renew_gained_ski :
    ¬ ∀ (env : Env) (i : GateIn) (old new : Cert), WellFormed old →
        renew beforeSKIFix env i old none = .val (.issued new) →
        dropOid oidAKI new.extensions = dropOid oidAKI old.extensions := by
  intro h
  have hw : WellFormed certNoSKI :=
    ⟨by unfold Consistent; decide, fun _ => rfl, fun h => by revert h; decide⟩
  have := h envX okGate certNoSKI _ hw rfl
  revert this
  decide

section Examples

/-- The no-op provisioner performs no validity check of its own (on the mutual-TLS entry the
    handshake has done it; see `gates_api`). -/
example : decide current ⟨.no, .noRecord, .noExt, true, false⟩ = .val .allow := by decide

/-- a certificate whose validity equals, or is shorter than, the CA's backdate cannot be renewed on
    /repo HEAD … -/
example : renew current envX okGate { certX with notAfter := 60 } none = .val (.refused .notLongerThanBackdate) := by decide
example : renew current envX okGate { certX with notAfter := 30 } (some [2, 2]) = .val (.refused .notLongerThanBackdate) := by decide
/-- … historic (before 5596a41): validity equal to the backdate failed in the CAS ("lifetime cannot be
    0"), and a shorter one was renewed into a certificate that was already expired when issued -/
example : renew beforeBackdateFix envX okGate { certX with notAfter := 60 } none = .val (.signError .zeroLifetime) := by decide
example : ∃ c, renew beforeBackdateFix envX okGate { certX with notAfter := 30 } none = .val (.issued c) ∧
    c.notAfter < envX.now := ⟨_, rfl, by decide⟩

end Examples

end Verif.Renew
