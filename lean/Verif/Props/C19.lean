import Verif.Model.Conc
import Verif.Model.AdminSlice
import Verif.Model.Reload
import Verif.Generated.Locks
/-!
  C19 — concurrent traffic and administration are race-free and atomically visible.

  Two kinds of obligations:
  * semantic theorems about lock sections (every schedule, any number of threads): a program in
    which every access to the shared configuration sits inside an `adminMutex` section of
    sufficient mode has no data race, every reader section sees one configuration that existed
    at an instant when no writer section was open, and keeps seeing it until it leaves;
  * the regenerated table `Generated/Locks.lean` (one row per method of `*Authority`, re-read
    from authority/*.go on every run) satisfies that discipline except at the reviewed sites
    listed here — closed by `decide`, so a dropped lock or a new unlocked access is an
    undischarged obligation.
-/
namespace Verif.Conc

/-! ## Semantics: the invariant of disciplined programs -/

structure Inv (s0 s : St) : Prop where
  disc : ∀ k, disc (s.th k).mode (s.th k).prog = true
  excl : ∀ i j, i ≠ j → (s.th i).mode = .w → (s.th j).mode = .n
  snap : ∀ k, (s.th k).mode = .r → (s.th k).snap = s.mem
  quiet : ∀ k, (s.th k).mode = .r →
            ∃ q, Reach s0 q ∧ (∀ j, (q.th j).mode ≠ .w) ∧ (s.th k).snap = q.mem
  seen : ∀ k e, e ∈ (s.th k).seen → e.1 = .r → e.2.2.1 = e.2.2.2

/-- initial states: nobody holds the lock, nothing observed yet, every thread disciplined -/
def Init (s : St) : Prop :=
  ∀ k, (s.th k).mode = .n ∧ (s.th k).seen = [] ∧ disc .n (s.th k).prog = true

theorem inv_init (s : St) (h : Init s) : Inv s s where
  disc k := by have := h k; rw [this.1]; exact this.2.2
  excl i j _ hw := by have := (h i).1; rw [this] at hw; cases hw
  snap k hr := by have := (h k).1; rw [this] at hr; cases hr
  quiet k hr := by have := (h k).1; rw [this] at hr; cases hr
  seen k e he := by have := (h k).2.1; rw [this] at he; cases he

theorem disc_n_cases {p : List Step} (h : disc .n p = true) :
    p = [] ∨ (∃ q, p = .acqR :: q) ∨ (∃ q, p = .acqW :: q) := by
  cases p with
  | nil => exact .inl rfl
  | cons a q => cases a <;> simp [disc] at h <;> simp

theorem inv_step (s0 s s' : St) (i : Nat) (hr : Reach s0 s) (hi : Inv s0 s) (st : StepRel s i s') :
    Inv s0 s' := by
  have hd := hi.disc
  cases st with
  | acqR p h hm en =>
    refine ⟨?_, ?_, ?_, ?_, ?_⟩
    · intro k; by_cases hk : k = i
      · subst hk; have := hd k; rw [h, hm] at this; simpa [setTh, Thread.enter, disc] using this
      · simpa [setTh, hk] using hd k
    · intro a b hab hw
      by_cases ha : a = i
      · subst ha; simp [setTh, Thread.enter] at hw
      · simp [setTh, ha] at hw; exact absurd hw (en a)
    · intro k hk; by_cases hki : k = i
      · subst hki; simp [setTh, Thread.enter]
      · simp [setTh, hki] at hk ⊢; exact hi.snap k hk
    · intro k hk; by_cases hki : k = i
      · subst hki; exact ⟨s, hr, en, by simp [setTh, Thread.enter]⟩
      · simp [setTh, hki] at hk ⊢; exact hi.quiet k hk
    · intro k e he; by_cases hki : k = i
      · subst hki; simp [setTh, Thread.enter] at he; exact hi.seen k e he
      · simp [setTh, hki] at he; exact hi.seen k e he
  | acqW p h hm en =>
    refine ⟨?_, ?_, ?_, ?_, ?_⟩
    · intro k; by_cases hk : k = i
      · subst hk; have := hd k; rw [h, hm] at this; simpa [setTh, Thread.enter, disc] using this
      · simpa [setTh, hk] using hd k
    · intro a b hab hw
      by_cases ha : a = i
      · subst ha
        have hb : b ≠ a := fun e => hab e.symm
        simp [setTh, hb]; exact en b
      · simp [setTh, ha] at hw; have := en a; rw [this] at hw; cases hw
    · intro k hk; by_cases hki : k = i
      · subst hki; simp [setTh, Thread.enter] at hk
      · simp [setTh, hki] at hk ⊢; exact hi.snap k hk
    · intro k hk; by_cases hki : k = i
      · subst hki; simp [setTh, Thread.enter] at hk
      · simp [setTh, hki] at hk ⊢; exact hi.quiet k hk
    · intro k e he; by_cases hki : k = i
      · subst hki; simp [setTh, Thread.enter] at he; exact hi.seen k e he
      · simp [setTh, hki] at he; exact hi.seen k e he
  | relR p h hm =>
    refine ⟨?_, ?_, ?_, ?_, ?_⟩
    · intro k; by_cases hk : k = i
      · subst hk; have := hd k; rw [h, hm] at this; simpa [setTh, Thread.leave, disc] using this
      · simpa [setTh, hk] using hd k
    · intro a b hab hw
      by_cases ha : a = i
      · subst ha; simp [setTh, Thread.leave] at hw
      · simp [setTh, ha] at hw
        by_cases hb : b = i
        · subst hb; simp [setTh, Thread.leave]
        · simp [setTh, hb]; exact hi.excl a b hab hw
    · intro k hk; by_cases hki : k = i
      · subst hki; simp [setTh, Thread.leave] at hk
      · simp [setTh, hki] at hk ⊢; exact hi.snap k hk
    · intro k hk; by_cases hki : k = i
      · subst hki; simp [setTh, Thread.leave] at hk
      · simp [setTh, hki] at hk ⊢; exact hi.quiet k hk
    · intro k e he; by_cases hki : k = i
      · subst hki; simp [setTh, Thread.leave] at he; exact hi.seen k e he
      · simp [setTh, hki] at he; exact hi.seen k e he
  | relW p h hm =>
    refine ⟨?_, ?_, ?_, ?_, ?_⟩
    · intro k; by_cases hk : k = i
      · subst hk; have := hd k; rw [h, hm] at this; simpa [setTh, Thread.leave, disc] using this
      · simpa [setTh, hk] using hd k
    · intro a b hab hw
      by_cases ha : a = i
      · subst ha; simp [setTh, Thread.leave] at hw
      · simp [setTh, ha] at hw
        by_cases hb : b = i
        · subst hb; simp [setTh, Thread.leave]
        · simp [setTh, hb]; exact hi.excl a b hab hw
    · intro k hk; by_cases hki : k = i
      · subst hki; simp [setTh, Thread.leave] at hk
      · simp [setTh, hki] at hk ⊢; exact hi.snap k hk
    · intro k hk; by_cases hki : k = i
      · subst hki; simp [setTh, Thread.leave] at hk
      · simp [setTh, hki] at hk ⊢; exact hi.quiet k hk
    · intro k e he; by_cases hki : k = i
      · subst hki; simp [setTh, Thread.leave] at he; exact hi.seen k e he
      · simp [setTh, hki] at he; exact hi.seen k e he
  | rd f p h =>
    refine ⟨?_, ?_, ?_, ?_, ?_⟩
    · intro k; by_cases hk : k = i
      · subst hk; have := hd k; rw [h] at this
        cases hm : (s.th k).mode <;> simp [hm, disc] at this <;>
          simpa [setTh, Thread.didRead, hm, disc] using this
      · simpa [setTh, hk] using hd k
    · intro a b hab hw
      have ha' : (s.th a).mode = .w := by
        by_cases ha : a = i
        · subst ha; simpa [setTh, Thread.didRead] using hw
        · simpa [setTh, ha] using hw
      have := hi.excl a b hab ha'
      by_cases hb : b = i
      · subst hb; simpa [setTh, Thread.didRead] using this
      · simpa [setTh, hb] using this
    · intro k hk; by_cases hki : k = i
      · subst hki; simp [setTh, Thread.didRead] at hk ⊢; exact hi.snap k hk
      · simp [setTh, hki] at hk ⊢; exact hi.snap k hk
    · intro k hk; by_cases hki : k = i
      · subst hki; simp [setTh, Thread.didRead] at hk ⊢; exact hi.quiet k hk
      · simp [setTh, hki] at hk ⊢; exact hi.quiet k hk
    · intro k e he; by_cases hki : k = i
      · subst hki
        simp only [setTh, Thread.didRead, if_true, List.mem_cons] at he
        rcases he with rfl | he
        · intro hm; simp at hm ⊢; rw [hi.snap k hm]
        · exact hi.seen k e he
      · simp [setTh, hki] at he; exact hi.seen k e he
  | wr f v p h =>
    have hmw : (s.th i).mode = .w := by
      have := hd i; rw [h] at this
      cases hm : (s.th i).mode <;> simp [hm, disc] at this; rfl
    have others : ∀ k, k ≠ i → (s.th k).mode = .n := fun k hk => hi.excl i k (fun e => hk e.symm) hmw
    refine ⟨?_, ?_, ?_, ?_, ?_⟩
    · intro k; by_cases hk : k = i
      · subst hk; have := hd k; rw [h, hmw] at this
        simpa [setTh, Thread.didWrite, hmw, disc] using this
      · simpa [setTh, hk] using hd k
    · intro a b hab hw
      have ha' : (s.th a).mode = .w := by
        by_cases ha : a = i
        · subst ha; simpa [setTh, Thread.didWrite] using hw
        · simpa [setTh, ha] using hw
      have := hi.excl a b hab ha'
      by_cases hb : b = i
      · subst hb; simpa [setTh, Thread.didWrite] using this
      · simpa [setTh, hb] using this
    · intro k hk; by_cases hki : k = i
      · subst hki; simp [setTh, Thread.didWrite, hmw] at hk
      · simp [setTh, hki] at hk; rw [others k hki] at hk; cases hk
    · intro k hk; by_cases hki : k = i
      · subst hki; simp [setTh, Thread.didWrite, hmw] at hk
      · simp [setTh, hki] at hk; rw [others k hki] at hk; cases hk
    · intro k e he; by_cases hki : k = i
      · subst hki; simp [setTh, Thread.didWrite] at he; exact hi.seen k e he
      · simp [setTh, hki] at he; exact hi.seen k e he

/-- the invariant holds in every state reachable under **any** schedule -/
theorem inv_reach (s0 s : St) (h0 : Init s0) (hr : Reach s0 s) : Inv s0 s := by
  induction hr with
  | init => exact inv_init s0 h0
  | step s s' i hr st ih => exact inv_step s0 s s' i hr ih st

/-- **race freedom**: with every access inside a lock section of sufficient mode, no reachable
    state has two threads about to touch the same cell with one of them writing. -/
theorem disciplined_race_free (s0 s : St) (h0 : Init s0) (hr : Reach s0 s) : ¬ Race s := by
  have hi := inv_reach s0 s h0 hr
  rintro ⟨i, j, f, wi, wj, hij, hai, haj, hw⟩
  -- a thread about to write is in a W section; a thread about to access is in some section
  have inSec : ∀ k g w, nextAccess (s.th k) = some (g, w) → (s.th k).mode ≠ .n ∧ (w = true → (s.th k).mode = .w) := by
    intro k g w hk
    have hd := hi.disc k
    unfold nextAccess at hk
    cases hp : (s.th k).prog with
    | nil => simp [hp] at hk
    | cons a q =>
      rw [hp] at hd
      cases a <;> simp [hp] at hk <;> cases hm : (s.th k).mode <;> simp [hm, disc] at hd <;> simp_all
  rcases hw with hw | hw
  · have := (inSec i f wi hai).2 hw
    exact (inSec j f wj haj).1 (hi.excl i j hij this)
  · have := (inSec j f wj haj).2 hw
    exact (inSec i f wi hai).1 (hi.excl j i (fun e => hij e.symm) this)

/-- **one consistent configuration per request**: every value a reader section has read equals
    the value the cell had when the section was entered … -/
theorem reads_consistent (s0 s : St) (h0 : Init s0) (hr : Reach s0 s) (k : Nat)
    (f : Field) (v v0 : Nat) (h : (Mode.r, f, v, v0) ∈ (s.th k).seen) : v = v0 :=
  (inv_reach s0 s h0 hr).seen k (Mode.r, f, v, v0) h rfl

/-- … and that entry configuration is the memory of a reachable instant at which **no writer
    section was open**: the configuration before or after a concurrent administrative change,
    never one in the middle of it. -/
theorem snapshot_between_writers (s0 s : St) (h0 : Init s0) (hr : Reach s0 s) (k : Nat)
    (hk : (s.th k).mode = .r) :
    (s.th k).snap = s.mem ∧
    ∃ q, Reach s0 q ∧ (∀ j, (q.th j).mode ≠ .w) ∧ (s.th k).snap = q.mem :=
  ⟨(inv_reach s0 s h0 hr).snap k hk, (inv_reach s0 s h0 hr).quiet k hk⟩

/-- **visibility after return**: a section entered in state `s` starts from `s.mem` — everything
    written by sections that have been left before (and not overwritten since) is visible. -/
theorem visibility_after_return (s s' : St) (i : Nat) (p : List Step)
    (h : (s.th i).prog = .acqR :: p) (st : StepRel s i s') : (s'.th i).snap = s.mem := by
  cases st with
  | acqR p' h' hm en => simp [setTh, Thread.enter]
  | acqW p' h' hm en => rw [h] at h'; cases h'
  | relR p' h' hm => rw [h] at h'; cases h'
  | relW p' h' hm => rw [h] at h'; cases h'
  | rd f p' h' => rw [h] at h'; cases h'
  | wr f v p' h' => rw [h] at h'; cases h'

/-- non-vacuity: a writer replacing two cells and a reader reading both are disciplined -/
example : disc .n [.acqW, .wr .provisioners 1, .wr .admins 1, .relW] = true := by decide
example : disc .n [.acqR, .rd .provisioners, .rd .admins, .relR] = true := by decide
/-- and a reader without the lock is not -/
example : disc .n [.rd .policyEngine] = false := by decide

/-! ## The lock is load-bearing -/

/-- a writer replacing two cells inside a write section, and a reader that takes **no** lock -/
def wProg : List Step := [.acqW, .wr .provisioners 1, .wr .admins 1, .relW]
def uProg : List Step := [.rd .provisioners, .rd .admins]

def idle : Thread := ⟨[], .n, fun _ => 0, []⟩
def w0 : St := ⟨fun _ => 0, fun k => if k = 0 then ⟨wProg, .n, fun _ => 0, []⟩ else if k = 1 then ⟨uProg, .n, fun _ => 0, []⟩ else idle⟩

def w1 : St := ⟨w0.mem, setTh w0 0 ((w0.th 0).enter [.wr .provisioners 1, .wr .admins 1, .relW] .w w0.mem)⟩
def w2 : St := ⟨fun g => if g = .provisioners then 1 else w1.mem g, setTh w1 0 ((w1.th 0).didWrite [.wr .admins 1, .relW])⟩
def w3 : St := ⟨w2.mem, setTh w2 1 ((w2.th 1).didRead [.rd .admins] .provisioners (w2.mem .provisioners))⟩
def w4 : St := ⟨w3.mem, setTh w3 1 ((w3.th 1).didRead [] .admins (w3.mem .admins))⟩

/-- **the lock is load-bearing**: without it there is a schedule in which one request reads the
    provisioners *after* and the administrators *before* the same administrative change -/
theorem undisciplined_witness :
    ∃ s, Reach w0 s ∧ (∃ a b, (Mode.n, Field.provisioners, 1, a) ∈ (s.th 1).seen ∧
                               (Mode.n, Field.admins, 0, b) ∈ (s.th 1).seen) := by
  have s1 : StepRel w0 0 w1 := StepRel.acqW w0 0 _ rfl rfl
    (by intro k; simp only [w0]; split; · rfl
        · split <;> rfl)
  have s2 : StepRel w1 0 w2 := StepRel.wr w1 0 .provisioners 1 _ rfl
  have s3 : StepRel w2 1 w3 := StepRel.rd w2 1 .provisioners _ rfl
  have s4 : StepRel w3 1 w4 := StepRel.rd w3 1 .admins _ rfl
  exact ⟨w4, .step _ _ 1 (.step _ _ 1 (.step _ _ 0 (.step _ _ 0 .init s1) s2) s3) s4, 0, 0, by decide, by decide⟩

/-- and that reader is indeed not disciplined, while the writer is -/
example : disc .n uProg = false ∧ disc .n wProg = true := by decide

/-! ## Progress: bracketed, un-nested sections cannot dead-lock; a nested one does -/

/-- **no dead-lock under the discipline**: in every reachable state, as long as some thread still has work
    to do, some thread can take a step — for any number of threads, any programs obeying the discipline
    (sections bracketed and not nested) and any schedule. With one lock, a thread inside a section can
    always continue (its next step is an access or the release), and when nobody is inside a section any
    acquisition is enabled. -/
theorem progress (s0 s : St) (h0 : Init s0) (hr : Reach s0 s) (k : Nat) (hk : (s.th k).prog ≠ []) :
    ∃ i s', StepRel s i s' := by
  have hi := inv_reach s0 s h0 hr
  by_cases hall : ∀ j, (s.th j).mode = .n
  · -- nobody holds the lock: thread k's next step is an acquisition, and it is enabled
    have hd := hi.disc k
    rw [hall k] at hd
    rcases hp : (s.th k).prog with _ | ⟨st, p⟩
    · exact absurd hp hk
    · rw [hp] at hd
      cases st with
      | acqR => exact ⟨k, _, StepRel.acqR s k p hp (hall k) (by intro j; rw [hall j]; decide)⟩
      | acqW => exact ⟨k, _, StepRel.acqW s k p hp (hall k) hall⟩
      | relR => simp [disc] at hd
      | relW => simp [disc] at hd
      | rd f => simp [disc] at hd
      | wr f v => simp [disc] at hd
  · -- some thread j is inside a section: its next step is an access or its release
    have ⟨j, hj⟩ : ∃ j, (s.th j).mode ≠ .n := by
      apply Classical.byContradiction
      intro hne
      exact hall (fun j => Classical.byContradiction fun h => hne ⟨j, h⟩)
    have hd := hi.disc j
    rcases hp : (s.th j).prog with _ | ⟨st, p⟩
    · rw [hp] at hd
      cases hm : (s.th j).mode <;> rw [hm] at hd <;> simp_all [disc]
    · rw [hp] at hd
      cases hm : (s.th j).mode with
      | n => exact absurd hm hj
      | r =>
        rw [hm] at hd
        cases st with
        | rd f => exact ⟨j, _, StepRel.rd s j f p hp⟩
        | relR => exact ⟨j, _, StepRel.relR s j p hp hm⟩
        | acqR => simp [disc] at hd
        | acqW => simp [disc] at hd
        | relW => simp [disc] at hd
        | wr f v => simp [disc] at hd
      | w =>
        rw [hm] at hd
        cases st with
        | rd f => exact ⟨j, _, StepRel.rd s j f p hp⟩
        | wr f v => exact ⟨j, _, StepRel.wr s j f v p hp⟩
        | relW => exact ⟨j, _, StepRel.relW s j p hp hm⟩
        | acqR => simp [disc] at hd
        | acqW => simp [disc] at hd
        | relR => simp [disc] at hd

/-- a method that takes the read lock while its caller holds the write lock (the shape of
    `ReloadAdminResources → scepAuthority.Validate → LoadProvisionerByName` before fix 3c3b5e1) -/
def nestedProg : List Step := [.acqW, .wr .provisioners 1, .acqR, .rd .provisioners, .relR, .relW]
def d0 : St := ⟨fun _ => 0, fun k => if k = 0 then ⟨nestedProg, .n, fun _ => 0, []⟩ else idle⟩
def d1 : St := ⟨d0.mem, setTh d0 0 ((d0.th 0).enter [.wr .provisioners 1, .acqR, .rd .provisioners, .relR, .relW] .w d0.mem)⟩
def d2 : St := ⟨fun g => if g = .provisioners then 1 else d1.mem g, setTh d1 0 ((d1.th 0).didWrite [.acqR, .rd .provisioners, .relR, .relW])⟩

/-- **a nested acquisition dead-locks**: that program reaches a state in which it still has work to do and
    no thread at all can take a step (`sync.RWMutex` is not re-entrant) — which is why the table obligation
    `no_reentrant_lock_deep` is needed besides the discipline of the accesses -/
theorem nested_section_deadlocks :
    ∃ s, Reach d0 s ∧ (s.th 0).prog ≠ [] ∧ ∀ i s', ¬ StepRel s i s' := by
  have s1 : StepRel d0 0 d1 := StepRel.acqW d0 0 _ rfl rfl
    (by intro k; simp only [d0]; split <;> rfl)
  have s2 : StepRel d1 0 d2 := StepRel.wr d1 0 .provisioners 1 _ rfl
  refine ⟨d2, .step _ _ 0 (.step _ _ 0 .init s1) s2, by decide, ?_⟩
  intro i s' st
  have hprog : ∀ j, (d2.th j).prog = if j = 0 then [.acqR, .rd .provisioners, .relR, .relW] else [] := by
    intro j
    simp only [d2, d1, d0, setTh, Thread.didWrite, Thread.enter, idle]
    split <;> simp_all
  have hmode0 : (d2.th 0).mode = .w := by decide
  cases st with
  | acqR p h hm en =>
    by_cases h0 : i = 0
    · subst h0
      rw [hmode0] at hm
      cases hm
    · rw [hprog i, if_neg h0] at h
      cases h
  | acqW p h hm en => rw [hprog i] at h; split at h <;> cases h
  | relR p h hm => rw [hprog i] at h; split at h <;> cases h
  | relW p h hm => rw [hprog i] at h; split at h <;> cases h
  | rd f p h => rw [hprog i] at h; split at h <;> cases h
  | wr f v p h => rw [hprog i] at h; split at h <;> cases h

/-- the nested program is rejected by the discipline predicate, so `progress` does not apply to it -/
example : disc .n nestedProg = false := by decide

/-! ## The regenerated table -/

open Verif.Generated.Locks

/-- Sites flagged by the analysis that were reviewed and are **not** concurrent accesses:
    `ReloadAdminResources` is exported but its only callers are `init` (before the authority is
    shared) and the admin mutators, which hold the write lock around the call;
    `Export` backs the offline `step-ca export` command on a freshly built authority. -/
def reviewedBenign : List (String × Field × Bool) := [
  ("ReloadAdminResources", .provisioners, true),
  ("ReloadAdminResources", .admins, true),
  ("Export", .admins, false),
  ("Export", .provisioners, false)
]

/-- No known findings remain: the unlocked reads of the provisioner collection in
    `getProvisionerFromToken` / `authorizeRenew` and of the policy engine (D10) were repaired
    by `fix:` commits; this list is what the table obligation compares against. -/
def knownUnlocked : List (String × Field × Bool) := []

theorem table_extracted : extractorOk = true := by decide

/-- **the discipline holds on the current tree everywhere except at the reviewed sites**:
    the set of unlocked accesses computed from the regenerated table equals the reviewed list. -/
theorem discipline_table :
    (unsafeSites table).filter (fun x => !reviewedBenign.contains x) = knownUnlocked := by decide +kernel

/-- the justification of the `ReloadAdminResources` exemption is itself checked against the table:
    every in-package caller other than `init` holds the **write** lock around the call
    (an admin mutator that only took the read lock would falsify this). -/
theorem reload_callers_hold_write_lock : callersHoldW table "ReloadAdminResources" = true := by
  decide +kernel

/-- **the CRL generator's critical section**: reading the previous CRL, listing the revoked
    certificates, building and storing the new list all happen inside one `crlMutex` section, and
    all four calls are present. This is the mutual-exclusion hypothesis of C08's `numbers_increase`
    and `on_revoke_visible` (a generation that lists revocations before taking the lock can
    overwrite a newer list with a stale one). -/
theorem crl_section :
    crlLockedAtTop = true ∧ crlCalls.all (·.2) = true ∧
    ["GetCRL", "GetRevokedCertificates", "CreateCRL", "StoreCRL"].all (fun n => crlCalls.any (·.1 == n)) = true := by
  decide +kernel

/-- **one CRL section per process**: the mutex of that section is a package-level variable, so the old and
    the new `Authority` of a reload (which share one database; `ca.Reload` builds the new one before it
    stops the old one) exclude each other. Before fix 7329bb4 it was a field of the `Authority`: a
    generation of the old authority in flight stored an older list over the newer ones of the new authority. -/
theorem crl_section_shared : crlMutexShared = true := by decide +kernel

/-- **no split sections**: no method that takes `adminMutex` calls another lock-taking method before
    taking it — a validation done under the callee's (read) lock and the mutation done under the
    caller's own lock would be two sections, and two simultaneous admin requests could both pass the
    validation (check-then-act). -/
theorem no_split_sections : splitSections table = [] := by decide +kernel

/-- **no re-entrant locking**: no method calls a lock-taking method while holding `adminMutex`
    (`sync.RWMutex` is not re-entrant). -/
theorem no_reentrant_lock : reentrantCalls table = [] := by decide +kernel

/-- **no re-entrant locking, at any call depth and through the SCEP authority**: no lock-taking method is
    reached from a function that runs, or may be entered, with `adminMutex` held. The table's call edges
    include the call-backs of `scep.(*Authority)` into its `SignAuthority` (this authority): before fix
    3c3b5e1, `ReloadAdminResources` (entered with the write lock by every admin operation that reloads)
    reached `LoadProvisionerByName` (read lock) through `scepAuthority.Validate`. -/
theorem no_reentrant_lock_deep : reentrantDeep table = [] := by decide +kernel

/-- nothing in the reviewed-benign list is stale -/
theorem reviewed_current : reviewedBenign.all (fun x => (unsafeSites table).contains x) = true := by
  decide +kernel

end Verif.Conc

/-! ## Removing a provisioner with its administrators: the walk over the live per-provisioner slice

  `RemoveProvisioner` answers only after every administrator of the provisioner is gone (all-or-nothing as seen by the
  requests that follow). The loop ranges over the slice `Collection.Remove` edits; that this is complete for every
  number of administrators is a property of the swap-delete, not of slices in general (`walk_shift_fails`). -/
namespace Verif.AdminSlice

/-- with distinct ids in the stored slice, the scan rewrites exactly the one matching index -/
theorem scan_unique (x L : Nat) (arr : Nat → Nat) (i : Nat)
    (hx : arr i = x) (huniq : ∀ k, k < L → arr k = x → k = i) :
    ∀ k, k ≤ L → scan x L arr k = if i < k then (upd arr i (arr (L - 1)), true) else (arr, false) := by
  intro k
  induction k with
  | zero => intro _; simp [scan]
  | succ k ih =>
    intro hk
    have ih' := ih (by omega)
    simp only [scan, ih']
    by_cases hik : i < k
    · have hne : k ≠ i := by omega
      have : ¬ (upd arr i (arr (L - 1)) k = x) := by
        simp only [upd, hne, if_false]
        intro h; exact hne (huniq k (by omega) h)
      simp [hik, this, show i < k + 1 by omega]
    · by_cases hik2 : i = k
      · subst hik2; simp [hx]
      · have : ¬ (arr k = x) := by intro h; exact hik2 (huniq k (by omega) h).symm
        simp [hik, this, show ¬ i < k + 1 by omega]

theorem removeSwap_unique (s : S) (x i : Nat) (hi : i < s.len)
    (hx : s.arr i = x) (huniq : ∀ k, k < s.len → s.arr k = x → k = i) :
    removeSwap s x = some ⟨upd s.arr i (s.arr (s.len - 1)), s.len - 1⟩ := by
  simp [removeSwap, scan_unique x s.len s.arr i hx huniq s.len (Nat.le_refl _), hi]

/-- the backing array after `j` iterations of the walk over `n` administrators -/
def shape (orig : Nat → Nat) (n j : Nat) : Nat → Nat :=
  fun p => if p < j ∧ 2 * p + 1 ≤ n then orig (n - 1 - p) else orig p

theorem walk_swap_inv (orig : Nat → Nat) (n : Nat)
    (hinj : ∀ a b, a < n → b < n → orig a = orig b → a = b) :
    ∀ f j, j + f = n → ∃ s', walk removeSwap f j ⟨shape orig n j, n - j⟩ = some s' ∧ s'.len = 0 := by
  intro f
  induction f with
  | zero => intro j hj; exact ⟨_, rfl, by simp; omega⟩
  | succ f ih =>
    intro j hj
    let i := if 2 * j + 1 ≤ n then j else n - 1 - j
    have hread : shape orig n j j = orig j := by simp [shape]
    have hi : i < n - j := by simp only [i]; split <;> omega
    have hxi : shape orig n j i = orig j := by
      simp only [i, shape]
      split
      · simp
      · rename_i h
        have : n - 1 - j < j ∧ 2 * (n - 1 - j) + 1 ≤ n := by omega
        simp only [this, and_self, if_true]
        congr 1; omega
    have huniq : ∀ k, k < n - j → shape orig n j k = orig j → k = i := by
      intro k hk hk2
      simp only [shape] at hk2
      simp only [i]
      split at hk2
      · rename_i h
        have := hinj _ _ (by omega) (by omega) hk2
        split <;> omega
      · rename_i h
        have := hinj _ _ (by omega) (by omega) hk2
        split <;> omega
    have hrm := removeSwap_unique ⟨shape orig n j, n - j⟩ (orig j) i hi hxi huniq
    have hnext : upd (shape orig n j) i (shape orig n j (n - j - 1)) = shape orig n (j + 1) := by
      funext p
      simp only [upd, shape, i]
      by_cases h1 : 2 * j + 1 ≤ n
      · simp only [h1, if_true]
        by_cases hp : p = j
        · subst hp
          have : ¬ (n - p - 1 < p ∧ 2 * (n - p - 1) + 1 ≤ n) := by omega
          simp only [this, if_false, if_true]
          have : p < p + 1 ∧ 2 * p + 1 ≤ n := by omega
          simp only [this, and_self, if_true]
          congr 1; omega
        · simp only [hp, if_false]
          have : (p < j + 1 ∧ 2 * p + 1 ≤ n) ↔ (p < j ∧ 2 * p + 1 ≤ n) := by omega
          simp only [this]
      · simp only [h1, if_false]
        by_cases hp : p = n - 1 - j
        · subst hp
          have h2 : n - j - 1 < j ∧ 2 * (n - j - 1) + 1 ≤ n := by omega
          have h3 : n - 1 - j < j + 1 ∧ 2 * (n - 1 - j) + 1 ≤ n := by omega
          simp only [h2, h3, and_self, if_true]
          congr 1; omega
        · simp only [hp, if_false]
          have : (p < j + 1 ∧ 2 * p + 1 ≤ n) ↔ (p < j ∧ 2 * p + 1 ≤ n) := by omega
          simp only [this]
    obtain ⟨s', hs', hl⟩ := ih (j + 1) (by omega)
    refine ⟨s', ?_, hl⟩
    simp only [walk, hread]
    rw [hrm]
    simp only [hnext]
    have : n - j - 1 = n - (j + 1) := by omega
    rw [this]; exact hs'

end Verif.AdminSlice

namespace Verif.AdminSlice
/-- **RemoveProvisioner's walk is complete** for every number of administrators: ranging over the live slice while
`Collection.Remove` swap-deletes from it removes every administrator and never fails. -/
theorem walk_swap_removes_all (orig : Nat → Nat) (n : Nat)
    (hinj : ∀ a b, a < n → b < n → orig a = orig b → a = b) :
    ∃ s', walk removeSwap n 0 ⟨orig, n⟩ = some s' ∧ s'.len = 0 := by
  have h := walk_swap_inv orig n hinj n 0 (by omega)
  have hs : shape orig n 0 = orig := by funext p; simp [shape]
  simpa [hs] using h

/-- the same walk over the order-preserving delete stops half way with three administrators: after the first removal
the second iteration reads the third administrator, the third iteration reads it again and `Remove` fails -/
theorem walk_shift_fails : (walk removeShift 3 0 ⟨id, 3⟩).isNone = true := by decide

/-- … leaving one of the three behind (the state a caller sees after the failed request) -/
theorem walk_shift_partial :
    (removeShift ⟨id, 3⟩ 0).bind (fun s => (removeShift s (s.arr 1)).map (fun s' => (s'.len, s'.arr 0))) = some (1, 1) := by decide

example : (walk removeSwap 5 0 ⟨id, 5⟩).map (·.len) = some 0 := by decide
end Verif.AdminSlice

/-! ## Reloading the configuration: which authority's CRL generator runs afterwards -/
namespace Verif.Reload

/-- after a reload the new authority decides the requests and its generator is the only one running -/
theorem reload_hands_over (p : P) (new : Nat) (h : p.running = [p.cur]) (hn : new ≠ p.cur) :
    exec new reloadAsCoded p = ⟨new, [new]⟩ := by
  simp [exec, reloadAsCoded, step, h, hn]

/-- any number of reloads (fresh authorities): exactly the serving authority's generator runs -/
theorem reloads_inv (ns : List Nat) (p : P) (h : p.running = [p.cur]) (hf : ∀ n ∈ ns, n ≠ p.cur)
    (hd : ns.Pairwise (· ≠ ·)) : (reloads ns p).running = [(reloads ns p).cur] := by
  induction ns generalizing p with
  | nil => simpa [reloads] using h
  | cons n ns ih =>
    have hn : n ≠ p.cur := hf n (by simp)
    rw [reloads, reload_hands_over p n h hn]
    apply ih
    · rfl
    · intro m hm
      have := (List.pairwise_cons.mp hd).1 m hm
      exact fun e => this e.symm
    · exact (List.pairwise_cons.mp hd).2

/-- closing after the assignment closes the new authority: the generator of the configuration nobody serves any more
    keeps writing the shared CRL, the new configuration's generator never runs -/
theorem reload_close_last_keeps_old (p : P) (new : Nat) (h : p.running = [p.cur]) (hn : new ≠ p.cur) :
    exec new reloadCloseLast p = ⟨new, [p.cur]⟩ := by
  simp [exec, reloadCloseLast, step, h, Ne.symm hn]

example : reloads [1, 2, 3] ⟨0, [0]⟩ = ⟨3, [3]⟩ := by decide
end Verif.Reload
