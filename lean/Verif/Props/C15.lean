import Verif.Model.SCEP
/-!
  C15 — SCEP enrolment requires the configured challenge, for every request type.

  Property theorems about `Verif.SCEP` (the model of scep/api `PKIOperation`,
  scep `DecryptPKIEnvelope`/`SignCSR`/`CreateFailureResponse` and provisioner.SCEP
  `ValidateChallenge`, tied to the code by the C15 correspondence check and by the `facts`
  line that re-extracts the three message-type sets from the source on every run).

  Layout: every clause is first proved for an arbitrary dispatch table `F : Facts` under the
  condition on the tables that makes it true (`T_csr ⊆ T_checked`, "no accepted type reaches the
  CertRep case"); the tables of the tree as it stands (`asCoded`, after the fix commits 3a8a2fc and
  1587447) are then decided, which gives the clauses at full strength (`challenge_required`,
  `no_crash_on_type`).  The tables of the tree before those commits (`asCodedBefore`) falsified both
  clauses: the negations with their concrete witnesses (D4, D5) and the `_partial` theorems with the
  exact extra hypothesis are kept as historic theorems, and `asCoded_is_the_repair` says that the
  current tables are exactly the two general repairs applied to the old ones.
-/
namespace Verif.SCEP
open Verif

/-! ## 0. helper lemmas -/

theorem signCSR_stored_le (q : Req) (n nf : Nat) : (signCSR q n nf).stored ≤ 1 := by
  unfold signCSR
  split
  · simp
  · split <;> simp

theorem signCSR_hookCalls (q : Req) (n nf : Nat) : (signCSR q n nf).hookCalls = n := by
  unfold signCSR
  split
  · rfl
  · split <;> rfl

/-- `Validate` (webhooks): the fold reports "accepted" only if no hook failed and one allowed. -/
theorem runHooks_some (hs : List Hook) (a n : Nat) (a' n' : Nat) :
    runHooks hs a n = (some a', n') →
      (∀ h ∈ hs, h.res ≠ .error) ∧ n' = n + hs.length ∧
      (a' > a → ∃ h ∈ hs, h.res = .allow) ∧ a ≤ a' := by
  induction hs generalizing a n with
  | nil =>
    intro h
    simp [runHooks] at h
    obtain ⟨rfl, rfl⟩ := h
    simp
  | cons x xs ih =>
    intro h
    unfold runHooks at h
    cases hx : x.res with
    | error => simp [hx] at h
    | allow =>
      simp [hx] at h
      obtain ⟨h1, h2, _, h4⟩ := ih _ _ h
      refine ⟨?_, ?_, ?_, ?_⟩
      · intro y hy
        cases hy with
        | head => simp [hx]
        | tail _ hy => exact h1 y hy
      · simp [h2]; omega
      · intro _; exact ⟨x, List.mem_cons_self, hx⟩
      · omega
    | deny =>
      simp [hx] at h
      obtain ⟨h1, h2, h3, h4⟩ := ih _ _ h
      refine ⟨?_, ?_, ?_, h4⟩
      · intro y hy
        cases hy with
        | head => simp [hx]
        | tail _ hy => exact h1 y hy
      · simp [h2]; omega
      · intro hgt
        obtain ⟨y, hy, hya⟩ := h3 hgt
        exact ⟨y, List.mem_cons_of_mem _ hy, hya⟩

/-- `ValidateChallenge` accepts only what the property calls an accepted challenge. -/
theorem validateChallenge_sound (c : Config) (q : Req) (n : Nat) :
    validateChallenge c q.cp = (true, n) → Accepted c q := by
  intro h
  unfold validateChallenge at h
  unfold Accepted
  cases hm : selectValidationMethod c with
  | webhook =>
    simp only [hm] at h ⊢
    cases hr : runHooks (challengeHooks c) 0 0 with
    | mk o k =>
      cases o with
      | none => simp [hr] at h
      | some a =>
        simp [hr] at h
        obtain ⟨h1, _, h3, _⟩ := runHooks_some _ _ _ _ _ hr
        exact ⟨h1, h3 h.1⟩
  | static =>
    simp only [hm] at h ⊢
    simp at h
    exact h.1.symm
  | none =>
    simp only [hm] at h ⊢
    simp at h
    exact h.1.symm

/-- …and the converse: an accepted challenge is accepted by `ValidateChallenge`. -/
theorem runHooks_noerr (hs : List Hook) (a n : Nat) (h : ∀ x ∈ hs, x.res ≠ .error) :
    ∃ a', runHooks hs a n = (some a', n + hs.length) ∧ a ≤ a' ∧
      ((∃ x ∈ hs, x.res = .allow) → a < a') := by
  induction hs generalizing a n with
  | nil => exact ⟨a, by simp [runHooks], Nat.le_refl _, by simp⟩
  | cons x xs ih =>
    have hx := h x List.mem_cons_self
    have hxs : ∀ y ∈ xs, y.res ≠ .error := fun y hy => h y (List.mem_cons_of_mem _ hy)
    unfold runHooks
    cases hr : x.res with
    | error => exact absurd hr hx
    | allow =>
      obtain ⟨a', e, le, _⟩ := ih (a + 1) (n + 1) hxs
      refine ⟨a', ?_, by omega, fun _ => by omega⟩
      simp [e]; omega
    | deny =>
      obtain ⟨a', e, le, imp⟩ := ih a (n + 1) hxs
      refine ⟨a', ?_, le, ?_⟩
      · simp [e]; omega
      · rintro ⟨y, hy, hya⟩
        cases hy with
        | head => simp [hr] at hya
        | tail _ hy => exact imp ⟨y, hy, hya⟩

theorem validateChallenge_complete (c : Config) (q : Req) :
    Accepted c q → ∃ n, validateChallenge c q.cp = (true, n) := by
  intro h
  unfold Accepted at h
  unfold validateChallenge
  cases hm : selectValidationMethod c with
  | webhook =>
    simp only [hm] at h ⊢
    obtain ⟨a', e, _, imp⟩ := runHooks_noerr (challengeHooks c) 0 0 h.1
    have := imp h.2
    refine ⟨0 + (challengeHooks c).length, ?_⟩
    simp [e]; omega
  | static => simp only [hm] at h ⊢; exact ⟨0, by simp [h]⟩
  | none => simp only [hm] at h ⊢; exact ⟨0, by simp [h]⟩

/-- Only a request that went through the CSR case of `DecryptPKIEnvelope` gets past it. -/
theorem decrypt_csr (F : Facts) (q : Req) (t : MsgType) :
    decrypt F q t = .val .csr → t ∈ F.decCsr ∧ q.env = .csr ∧ q.decOk = true := by
  unfold decrypt
  intro h
  split at h <;> try (simp at h)
  split at h <;> try (simp at h)
  split at h
  · split at h <;> simp at h
  · split at h
    · rename_i hin
      split at h <;> simp at h
      rename_i henv
      simp_all
    · split at h <;> try (simp at h)
      split at h <;> simp at h

/-- Anatomy of a run that carries a certificate: it went CSR case → (check) → sign. -/
theorem carries_cert_path (F : Facts) (c : Config) (q : Req) (res : Result)
    (hrun : pkiOperation F c q = .val res) (hc : res.carriesCert = true) :
    ∃ t, q.mt = some t ∧ t ∈ F.decCsr ∧ q.env = .csr ∧ q.signOk = true ∧
      (mustCheck F t = true → ∃ n, validateChallenge c q.cp = (true, n)) := by
  unfold pkiOperation at hrun
  split at hrun
  · simp at hrun; subst hrun; simp [refused, Result.carriesCert] at hc
  · split at hrun
    · simp at hrun; subst hrun; simp [refused, Result.carriesCert] at hc
    · rename_i t hmt
      split at hrun
      · simp at hrun; subst hrun; simp [refused, Result.carriesCert] at hc
      · split at hrun
        · simp at hrun
        · simp at hrun; subst hrun; simp [refused, Result.carriesCert] at hc
        · simp at hrun
        · rename_i hdec
          obtain ⟨hin, henv, _⟩ := decrypt_csr F q t hdec
          have hsign : ∀ n nf, (signCSR q n nf).carriesCert = true → q.signOk = true := by
            intro n nf hcc
            unfold signCSR at hcc
            split at hcc
            · simp [Result.carriesCert, failureReply] at hcc
            · simp_all
          refine ⟨t, hmt, hin, henv, ?_, ?_⟩
          · split at hrun
            · split at hrun
              · simp at hrun; subst hrun; simp [Result.carriesCert, failureReply] at hc
              · simp at hrun; subst hrun; exact hsign _ _ hc
            · simp at hrun; subst hrun; exact hsign _ _ hc
          · intro hmust
            simp only [hmust, if_true] at hrun
            split at hrun
            · simp at hrun; subst hrun; simp [Result.carriesCert, failureReply] at hc
            · rename_i n hv; exact ⟨n, hv⟩

/-! ## 1. `challenge_required` -/

/-- Pointwise form: if this request's message type is checked whenever it yields a CSR, then a
    certificate (in the reply or in the database) implies an accepted challenge. -/
theorem challenge_required_at (F : Facts) (c : Config) (q : Req) (res : Result)
    (hcov : ∀ t, q.mt = some t → t ∈ F.decCsr → mustCheck F t = true)
    (hrun : pkiOperation F c q = .val res) (hc : res.carriesCert = true) :
    Accepted c q := by
  obtain ⟨t, hmt, hin, _, _, hchk⟩ := carries_cert_path F c q res hrun hc
  obtain ⟨n, hv⟩ := hchk (hcov t hmt hin)
  exact validateChallenge_sound c q n hv

/-- **The model theorem `T_csr ⊆ T_checked ⇒ …`**: for any dispatch tables in which every type
    that yields a CSR is challenge-checked, for every message type, challenge, configuration and
    encoding: a reply or database entry carrying a certificate implies that the configured secret
    or webhook accepted the challenge. (With method `none` the conclusion still says something: the
    code compares with the empty secret.) -/
theorem challenge_required_of_subset (F : Facts)
    (hsub : ∀ t ∈ F.decCsr, mustCheck F t = true)
    (c : Config) (q : Req) (res : Result)
    (hrun : pkiOperation F c q = .val res) (hc : res.carriesCert = true) :
    Accepted c q :=
  challenge_required_at F c q res (fun t _ hin => hsub t hin) hrun hc

/-- The clause of the property, as a statement about dispatch tables `F`. -/
def ChallengeRequired (F : Facts) : Prop :=
  ∀ (c : Config) (q : Req) (res : Result),
    selectValidationMethod c ≠ .none →
    pkiOperation F c q = .val res → res.carriesCert = true → Accepted c q

/-- D4 witness: challenge `s3cret` configured, `UpdateReq` with a valid CSR and no challenge. -/
def d4Config : Config := { secret := [115, 51, 99, 114, 101, 116], hooks := [] }
def d4Req : Req :=
  { httpOk := true, p7Ok := true, tidOk := true, mt := some tUpdateReq, sn := .ok, st := none,
    rn := .none, fi := .none, innerOk := true, decOk := true, env := .csr, cp := [],
    degen := none, signOk := true, certs := [true], signer := some 0 }

/-- **`challenge_required`, full strength, for the tree as it stands**: for every message type,
    challenge value, validation method and encoding, when a secret or a challenge webhook is
    configured, a certificate in the reply or in the database implies that the secret or webhook
    accepted the request's challenge. (`T_csr ⊆ T_checked` is decided on the tables the `facts` line
    re-extracts from the source on every run.) -/
theorem challenge_required : ChallengeRequired asCoded := by
  intro c q res _ hrun hc
  exact challenge_required_of_subset asCoded (by decide) c q res hrun hc

/-- The current tables are exactly the old ones with the two general repairs applied
    (challenge checked for every type that yields a CSR; CertRep case refused). -/
theorem asCoded_is_the_repair :
    asCoded = withCertRepRefused (withCheckOnEveryCsrType asCodedBefore) := by decide

/-- **Historic refutation (D4, fixed by 3a8a2fc)**: with the tables before the fix the clause was
    false — `UpdateReq ∈ T_csr \ T_checked`: the request above was answered with a certificate. -/
theorem challenge_required_refuted_before : ¬ ChallengeRequired asCodedBefore := by
  intro h
  have := h d4Config d4Req
    { out := .reply (successReply d4Req), hookCalls := 0, stored := 1, notifyCalls := 0 } (by decide) (by decide) (by decide)
  simp [Accepted, selectValidationMethod, challengeHooks, d4Config, d4Req] at this

/-- **Historic partial**: before the fix the clause held for every request whose message type is
    not `UpdateReq`. -/
theorem challenge_required_partial_before (c : Config) (q : Req) (res : Result)
    (hne : q.mt ≠ some tUpdateReq)
    (hrun : pkiOperation asCodedBefore c q = .val res) (hc : res.carriesCert = true) :
    Accepted c q := by
  apply challenge_required_at asCodedBefore c q res _ hrun hc
  intro t hmt hin
  have : t = tRenewalReq ∨ t = tUpdateReq ∨ t = tPKCSReq := by
    simpa [asCodedBefore] using hin
  rcases this with rfl | rfl | rfl
  · decide
  · exact absurd hmt hne
  · decide

/-- The general repair (validate for every type that yields a CSR) makes the clause true whatever
    the CSR set is: the subset condition holds by construction. -/
theorem challenge_required_fixed (F : Facts) : ChallengeRequired (withCheckOnEveryCsrType F) := by
  intro c q res _ hrun hc
  refine challenge_required_of_subset _ ?_ c q res hrun hc
  intro t ht
  simp only [mustCheck, withCheckOnEveryCsrType] at ht ⊢
  simp [ht]

/-- The witness of D4 on the tree as it stands: the same request is now refused. -/
example : pkiOperation asCoded d4Config d4Req
    = .val { out := .reply failureReply, hookCalls := 0, stored := 0, notifyCalls := 0 } := by decide

/-- The hypotheses of `challenge_required` are met by a real enrolment
    (PKCSReq, right challenge, certificate issued). -/
example : ∃ res, pkiOperation asCoded d4Config { d4Req with mt := some tPKCSReq, cp := d4Config.secret } = .val res
    ∧ res.carriesCert = true :=
  ⟨{ out := .reply (successReply d4Req), hookCalls := 0, stored := 1, notifyCalls := 0 }, by decide, by decide⟩

/-- Surrounding whitespace is not forgiven: `" s3cret"` is refused for PKCSReq. -/
example : pkiOperation asCoded d4Config { d4Req with mt := some tPKCSReq, cp := 32 :: d4Config.secret }
    = .val { out := .reply failureReply, hookCalls := 0, stored := 0, notifyCalls := 0 } := by decide

/-- Completeness (no lock-out): a CSR-type request with an accepted challenge, which the
    authority signs and can encrypt, is answered with the certificate. -/
theorem accepted_enrols (c : Config) (q : Req) (t : MsgType)
    (hq : q.httpOk = true ∧ q.p7Ok = true ∧ q.tidOk = true ∧ q.mt = some t ∧ q.sn = .ok ∧
      q.innerOk = true ∧ q.decOk = true ∧ q.env = .csr ∧ q.signOk = true ∧ q.encOk = true)
    (ht : t = tPKCSReq ∨ t = tRenewalReq ∨ t = tUpdateReq)
    (hacc : Accepted c q) :
    ∃ n, pkiOperation asCoded c q =
      .val { out := .reply (successReply q), hookCalls := n, stored := 1, notifyCalls := runNotify (notifyHooks c) } := by
  obtain ⟨h1, h2, h3, h4, h5, h6, h7, h8, h9, h10⟩ := hq
  obtain ⟨n, hv⟩ := validateChallenge_complete c q hacc
  rcases ht with rfl | rfl | rfl
  · refine ⟨n, ?_⟩
    simp [pkiOperation, parse, parseMessageType, decrypt, mustCheck, signCSR, asCoded, h1, h2, h3, h4, h5, h6,
      h7, h8, h9, h10, hv, tPKCSReq, tRenewalReq, tUpdateReq, tCertRep, tCertPoll, tGetCert, tGetCRL]
  · refine ⟨n, ?_⟩
    simp [pkiOperation, parse, parseMessageType, decrypt, mustCheck, signCSR, asCoded, h1, h2, h3, h4, h5, h6,
      h7, h8, h9, h10, hv, tPKCSReq, tRenewalReq, tUpdateReq, tCertRep, tCertPoll, tGetCert, tGetCRL]
  · refine ⟨n, ?_⟩
    simp [pkiOperation, parse, parseMessageType, decrypt, mustCheck, signCSR, asCoded, h1, h2, h3, h4, h5, h6,
      h7, h8, h9, h10, hv, tPKCSReq, tRenewalReq, tUpdateReq, tCertRep, tCertPoll, tGetCert, tGetCRL]

/-! ## 2. `no_crash_on_type` -/

/-- For dispatch tables in which no type the parser accepts reaches the CertRep case or falls
    out of the switch, the PKI operation never aborts, whatever the request. -/
theorem no_crash_of_tables (F : Facts)
    (hcov : ∀ t, t ∈ F.parsedCertRep ∨ t ∈ F.parsedCsr →
      t ∉ F.decCertRep ∧ (t ∈ F.decCsr ∨ t ∈ F.decErr ∨ F.decDefaultErr = true))
    (c : Config) (q : Req) : pkiOperation F c q ≠ .crash := by
  unfold pkiOperation
  split
  · simp
  · split
    · simp
    · rename_i t hmt
      split
      · simp
      · rename_i hp
        have hacc : t ∈ F.parsedCertRep ∨ t ∈ F.parsedCsr := by
          unfold parse at hp
          simp only [hmt] at hp
          unfold parseMessageType at hp
          by_cases h1 : t ∈ F.parsedCertRep
          · exact .inl h1
          · by_cases h2 : t ∈ F.parsedCsr
            · exact .inr h2
            · simp [h1, h2] at hp
        obtain ⟨hnc, hrest⟩ := hcov t hacc
        have hd : decrypt F q t ≠ .crash ∧ decrypt F q t ≠ .val .nothing := by
          unfold decrypt
          split
          · simp
          · split
            · simp
            · split
              · split <;> simp
              · split
                · simp
                · rename_i h3 h4
                  rcases hrest with h | h | h
                  · exact absurd h h3
                  · exact absurd h h4
                  · simp [h]
        split
        · rename_i hcr; exact absurd hcr hd.1
        · simp
        · rename_i hno; exact absurd hno hd.2
        · split
          · split <;> simp
          · simp

/-- The clause, as a statement about dispatch tables. -/
def NoCrashOnType (F : Facts) : Prop := ∀ (c : Config) (q : Req), pkiOperation F c q ≠ .crash

/-- D5 witness: a `CertRep` *request* (pkiStatus SUCCESS, recipientNonce present) whose envelope
    decrypts to a degenerate PKCS#7 with one certificate. -/
def d5Req : Req :=
  { httpOk := true, p7Ok := true, tidOk := true, mt := some tCertRep, sn := .ok, st := some statusSuccess,
    rn := .ok, fi := .none, innerOk := true, decOk := true, env := .nocsr, cp := [],
    degen := some 1, signOk := false, certs := [true], signer := some 0 }

/-- **`no_crash_on_type`, full strength, for the tree as it stands**: no request, of whatever
    message type the parser accepts (or not), aborts the PKI operation. -/
theorem no_crash_on_type : NoCrashOnType asCoded := by
  intro c q
  exact no_crash_of_tables asCoded (by
    intro t ht
    have : t = tCertRep ∨ t = tRenewalReq ∨ t = tUpdateReq ∨ t = tPKCSReq := by
      simpa [asCoded] using ht
    rcases this with rfl | rfl | rfl | rfl <;> decide) c q

/-- **Historic refutation (D5, fixed by 1587447)**: before the fix a `CertRep` request that passes
    the parser aborted the handler. -/
theorem no_crash_on_type_refuted_before : ¬ NoCrashOnType asCodedBefore := by
  intro h
  exact h { secret := [], hooks := [] } d5Req (by decide)

/-- The general repair (the CertRep case returns an error) applied to the old tables. -/
theorem no_crash_on_type_fixed : NoCrashOnType (withCertRepRefused asCodedBefore) := by
  intro c q
  exact no_crash_of_tables _ (by
    intro t ht
    have : t = tCertRep ∨ t = tRenewalReq ∨ t = tUpdateReq ∨ t = tPKCSReq := by
      simpa [withCertRepRefused, asCodedBefore] using ht
    rcases this with rfl | rfl | rfl | rfl <;> decide) c q

/-- **Historic partial**: before the fix every request whose type is not `CertRep` was handled
    without abort. -/
theorem no_crash_on_type_partial_before (c : Config) (q : Req) (hne : q.mt ≠ some tCertRep) :
    pkiOperation asCodedBefore c q ≠ .crash := by
  -- same run under the table that refuses CertRep: the two agree off CertRep
  have hfix : pkiOperation (withCertRepRefused asCodedBefore) c q ≠ .crash := no_crash_on_type_fixed c q
  have hsame : pkiOperation asCodedBefore c q = pkiOperation (withCertRepRefused asCodedBefore) c q := by
    unfold pkiOperation
    cases hmt : q.mt with
    | none => rfl
    | some t =>
      have htne : t ≠ tCertRep := fun e => hne (by rw [hmt, e])
      have hdec : decrypt asCodedBefore q t = decrypt (withCertRepRefused asCodedBefore) q t := by
        unfold decrypt
        simp [withCertRepRefused, asCodedBefore, htne]
      have hparse : parse asCodedBefore q = parse (withCertRepRefused asCodedBefore) q := rfl
      simp only [hdec, hparse]
      rfl
  rw [hsame]; exact hfix

/-- The witness of D5 on the tree as it stands: refused with HTTP 500, no abort; and a CSR-type
    request is fully processed (the theorem is about real runs). -/
example : pkiOperation asCoded { secret := [], hooks := [] } d5Req = .val refused ∧
    pkiOperation asCoded d4Config d4Req ≠ .crash := by decide

/-! ## 3. `reply_shapes` -/

/-- Every answer, for every dispatch table, request and configuration:
    * no SCEP reply (HTTP 500) ⇒ nothing stored;
    * every SCEP reply is signed by the CA's SCEP signer;
    * a failure reply carries failInfo badRequest and **no certificate**, neither as content nor next
      to the signer certificate, and is not an envelope;
    * a success reply carries exactly the one issued certificate, enveloped for every certificate the
      request carried and for nobody else, and exactly one certificate was stored; it is only produced for a CSR-type request with a valid CSR that the
      authority signed;
    * at most one certificate is stored per request, and only when the authority signed. -/
theorem reply_shapes (F : Facts) (c : Config) (q : Req) (res : Result)
    (hrun : pkiOperation F c q = .val res) :
    res.stored ≤ 1 ∧ (res.stored = 1 → q.signOk = true) ∧
    match res.out with
    | .http500 => res.stored = 0 ∧ res.hookCalls = 0 ∧ res.notifyCalls = 0
    | .reply r =>
      r.signedByCA = true ∧
      (r.status = .failure → r.failInfo = some 2 ∧ r.inner = 0 ∧ r.outer = 0 ∧ r.encrypted = false ∧
        r.recipients = []) ∧
      (r.status = .success → r.inner = 1 ∧ r.outer = 1 ∧ r.encrypted = true ∧
        r.recipients = List.range q.certs.length ∧ res.stored = 1 ∧
        q.env = .csr ∧ q.encOk = true ∧ ∃ t, q.mt = some t ∧ t ∈ F.decCsr) := by
  have hsign : ∀ n nf t, q.mt = some t → t ∈ F.decCsr → q.env = .csr →
      (signCSR q n nf).stored ≤ 1 ∧ ((signCSR q n nf).stored = 1 → q.signOk = true) ∧
      match (signCSR q n nf).out with
      | .http500 => (signCSR q n nf).stored = 0 ∧ (signCSR q n nf).hookCalls = 0 ∧ (signCSR q n nf).notifyCalls = 0
      | .reply r =>
        r.signedByCA = true ∧
        (r.status = .failure → r.failInfo = some 2 ∧ r.inner = 0 ∧ r.outer = 0 ∧ r.encrypted = false ∧
          r.recipients = []) ∧
        (r.status = .success → r.inner = 1 ∧ r.outer = 1 ∧ r.encrypted = true ∧
          r.recipients = List.range q.certs.length ∧ (signCSR q n nf).stored = 1 ∧
          q.env = .csr ∧ q.encOk = true ∧ ∃ t, q.mt = some t ∧ t ∈ F.decCsr) := by
    intro n nf t hmt hin henv
    unfold signCSR
    split
    · simp [failureReply]
    · split
      · simp_all [failureReply]
      · simp_all [successReply]
  unfold pkiOperation at hrun
  split at hrun
  · simp at hrun; subst hrun; simp [refused]
  · split at hrun
    · simp at hrun; subst hrun; simp [refused]
    · rename_i t hmt
      split at hrun
      · simp at hrun; subst hrun; simp [refused]
      · split at hrun
        · simp at hrun
        · simp at hrun; subst hrun; simp [refused]
        · simp at hrun
        · rename_i hdec
          obtain ⟨hin, henv, _⟩ := decrypt_csr F q t hdec
          split at hrun
          · split at hrun
            · simp at hrun; subst hrun; simp [failureReply]
            · simp at hrun; subst hrun; exact hsign _ _ t hmt hin henv
          · simp at hrun; subst hrun; exact hsign _ _ t hmt hin henv

/-- Corollary in the property's words: a reply that is not a success carries no certificate. -/
theorem failure_replies_carry_no_certificate (F : Facts) (c : Config) (q : Req) (res : Result) (r : Reply)
    (hrun : pkiOperation F c q = .val res) (hout : res.out = .reply r) (hf : r.status = .failure) :
    r.inner = 0 ∧ r.outer = 0 := by
  have h := (reply_shapes F c q res hrun).2.2
  rw [hout] at h
  exact ⟨(h.2.1 hf).2.1, (h.2.1 hf).2.2.1⟩

/-- Both shapes occur (the implications above are not vacuous). -/
example : (∃ res r, pkiOperation asCoded d4Config { d4Req with mt := some tPKCSReq } = .val res ∧
            res.out = .reply r ∧ r.status = .failure) ∧
          (∃ res r, pkiOperation asCoded d4Config { d4Req with mt := some tPKCSReq, cp := d4Config.secret } = .val res ∧
            res.out = .reply r ∧ r.status = .success) :=
  ⟨⟨{ out := .reply failureReply, hookCalls := 0, stored := 0, notifyCalls := 0 }, failureReply, by decide, rfl, rfl⟩,
   ⟨{ out := .reply (successReply d4Req), hookCalls := 0, stored := 1, notifyCalls := 0 }, successReply d4Req, by decide, rfl, rfl⟩⟩

/-- **"Successful replies are encrypted to the requester"**: in a success reply the issued
    certificate is enveloped for the certificate whose key signed the request, wherever that
    certificate stands in the request's certificate list, and for no certificate outside the request.
    (`hi`: the signer certificate is one of the request's certificates — what `p7.Verify` establishes.) -/
theorem success_encrypted_to_requester (F : Facts) (c : Config) (q : Req) (res : Result) (r : Reply) (i : Nat)
    (hrun : pkiOperation F c q = .val res) (hout : res.out = .reply r) (hs : r.status = .success)
    (hsig : q.signer = some i) (hi : i < q.certs.length) :
    i ∈ r.recipients ∧ (∀ j ∈ r.recipients, j < q.certs.length) ∧ r.encrypted = true := by
  have _ := hsig
  have h := (reply_shapes F c q res hrun).2.2
  rw [hout] at h
  obtain ⟨_, _, henc, hrc, _⟩ := h.2.2 hs
  rw [hrc]
  exact ⟨List.mem_range.mpr hi, fun j hj => List.mem_range.mp hj, henc⟩

/-- A request that lists another certificate ahead of its signer certificate: the requester
    (position 1) is a recipient of the success reply. -/
def twoCertReq : Req :=
  { d4Req with mt := some tPKCSReq, cp := d4Config.secret, certs := [true, true], signer := some 1 }

example : ∃ res r, pkiOperation asCoded d4Config twoCertReq = .val res ∧
    res.out = .reply r ∧ r.status = .success ∧ 1 ∈ r.recipients :=
  ⟨{ out := .reply (successReply twoCertReq), hookCalls := 0, stored := 1, notifyCalls := 0 },
   successReply twoCertReq, by decide, rfl, rfl, by decide⟩

/-! ## 4. validation method and webhook calls -/

/-- `selectValidationMethod`: no validation exactly when neither a usable challenge webhook nor a
    secret is configured (a webhook of another kind or for SSH certificates does not count). -/
theorem method_none_iff (c : Config) :
    selectValidationMethod c = .none ↔ challengeHooks c = [] ∧ c.secret = [] := by
  unfold selectValidationMethod
  constructor
  · intro h
    split at h
    · simp at h
    · split at h
      · simp at h
      · rename_i h1 h2
        refine ⟨?_, by simpa using h2⟩
        cases hc : challengeHooks c with
        | nil => rfl
        | cons x xs => simp [hc] at h1
  · rintro ⟨h1, h2⟩
    simp [h1, h2]

/-- A configured webhook takes precedence over a configured secret: the secret itself is then
    not an accepted challenge unless the webhook says so. -/
theorem webhook_precedes_secret (c : Config) (h : challengeHooks c ≠ []) :
    selectValidationMethod c = .webhook := by
  unfold selectValidationMethod
  cases hc : challengeHooks c with
  | nil => exact absurd hc h
  | cons x xs => simp

/-- Challenge webhooks are consulted only for message types in the checked set, and never more
    often than there are challenge webhooks. -/
theorem hooks_only_when_checked (F : Facts) (c : Config) (q : Req) (res : Result)
    (hrun : pkiOperation F c q = .val res) (hpos : res.hookCalls > 0) :
    (∃ t, q.mt = some t ∧ mustCheck F t = true) ∧ res.hookCalls ≤ (challengeHooks c).length := by
  have hv : ∀ b n, validateChallenge c q.cp = (b, n) → n ≤ (challengeHooks c).length := by
    intro b n h
    unfold validateChallenge at h
    split at h
    · split at h
      · rename_i n' hr
        simp at h
        -- an erroring hook stops the loop: calls ≤ length
        have : ∀ (hs : List Hook) (a k : Nat) (o : Option Nat) (m : Nat),
            runHooks hs a k = (o, m) → m ≤ k + hs.length := by
          intro hs
          induction hs with
          | nil => intro a k o m h; simp [runHooks] at h; omega
          | cons x xs ih =>
            intro a k o m h
            unfold runHooks at h
            cases hx : x.res <;> simp [hx] at h
            · have := ih _ _ _ _ h; simp; omega
            · have := ih _ _ _ _ h; simp; omega
            · simp; omega
        have := this _ _ _ _ _ hr
        omega
      · rename_i a n' hr
        simp at h
        obtain ⟨_, h2, _, _⟩ := runHooks_some _ _ _ _ _ hr
        omega
    · simp at h; omega
  unfold pkiOperation at hrun
  split at hrun
  · simp at hrun; subst hrun; simp [refused] at hpos
  · split at hrun
    · simp at hrun; subst hrun; simp [refused] at hpos
    · rename_i t hmt
      split at hrun
      · simp at hrun; subst hrun; simp [refused] at hpos
      · split at hrun
        · simp at hrun
        · simp at hrun; subst hrun; simp [refused] at hpos
        · simp at hrun
        · split at hrun
          · rename_i hmust
            refine ⟨⟨t, hmt, hmust⟩, ?_⟩
            split at hrun
            · rename_i n hvv
              simp at hrun; subst hrun; exact hv _ _ hvv
            · rename_i n hvv
              simp at hrun; subst hrun
              rw [signCSR_hookCalls]; exact hv _ _ hvv
          · simp at hrun; subst hrun
            rw [signCSR_hookCalls] at hpos; omega

end Verif.SCEP

namespace Verif.SCEP
open Verif

/-! ## 5. the provisioner object: `Init`, any number of times -/

/-- `Init` does not touch the configuration (`ChallengePassword`, `Options.Webhooks`). -/
theorem init_keeps_config (p : Prov) : (init p).cfg = p.cfg := rfl

theorem initN_keeps_config (n : Nat) (p : Prov) : (initN n p).cfg = p.cfg := by
  induction n generalizing p with
  | zero => rfl
  | succ n ih => simp [initN, ih, init_keeps_config]

/-- After one or more `Init`s the controllers are exactly the configured SCEPCHALLENGE / NOTIFYING
    webhooks for X.509, in configured order — whatever the object held before. -/
theorem initN_controllers (n : Nat) (p : Prov) :
    initN (n + 1) p = { cfg := p.cfg, chal := challengeHooks p.cfg, notif := notifyHooks p.cfg } := by
  induction n generalizing p with
  | zero => rfl
  | succ n ih =>
    have := ih (init p)
    simp only [initN] at this ⊢
    rw [this]
    rfl

/-- Every webhook the challenge controller holds is a configured challenge webhook; in particular a
    notification webhook never decides a challenge. -/
theorem challenge_controller_sound (n : Nat) (c : Config) :
    ∀ h ∈ (initN (n + 1) (Prov.new c)).chal, h ∈ c.hooks ∧ h.kind = .scep := by
  rw [initN_controllers]
  intro h hh
  simp only [Prov.new, challengeHooks, List.mem_filter, isChallengeHook, Bool.and_eq_true, beq_iff_eq] at hh
  exact ⟨hh.1, hh.2.1⟩

/-- …and holds all of them: a configured challenge webhook is never dropped by (re-)initialisation. -/
theorem challenge_controller_complete (n : Nat) (c : Config) (h : Hook)
    (hin : h ∈ c.hooks) (hch : isChallengeHook h = true) :
    h ∈ (initN (n + 1) (Prov.new c)).chal := by
  rw [initN_controllers]
  simp [Prov.new, challengeHooks, List.mem_filter, hin, hch]

/-- The handlers, which run on the controllers of an object initialised any number (≥ 1) of times,
    behave as `pkiOperation` on the configuration. -/
theorem pkiOperationP_initialised (F : Facts) (n : Nat) (c : Config) (q : Req) :
    pkiOperationP F (initN (n + 1) (Prov.new c)) q = pkiOperation F c q := by
  rw [initN_controllers]
  rfl

/-- **`challenge_required` for the provisioner object**: however often the provisioner was
    initialised, whatever other webhooks (notification, other kinds, in any order) are configured next
    to the challenge webhooks: a certificate implies that the configured secret or the *configured
    challenge webhooks* accepted the challenge. -/
theorem challenge_required_any_inits (n : Nat) (c : Config) (q : Req) (res : Result)
    (hm : selectValidationMethod c ≠ .none)
    (hrun : pkiOperationP asCoded (initN (n + 1) (Prov.new c)) q = .val res)
    (hc : res.carriesCert = true) : Accepted c q := by
  rw [pkiOperationP_initialised] at hrun
  exact challenge_required c q res hm hrun hc

/-- Notification webhooks are called only once the request got as far as signing, never for a refused
    challenge, and never more often than there are notification webhooks. -/
theorem notify_only_after_signing (F : Facts) (c : Config) (q : Req) (res : Result)
    (hrun : pkiOperation F c q = .val res) (hpos : res.notifyCalls > 0) :
    (∃ t, q.mt = some t ∧ t ∈ F.decCsr) ∧ q.env = .csr ∧
    (∀ t, q.mt = some t → mustCheck F t = true → ∃ k, validateChallenge c q.cp = (true, k)) ∧
    res.notifyCalls ≤ (notifyHooks c).length := by
  have hle : ∀ hs : List Hook, runNotify hs ≤ hs.length := by
    intro hs
    induction hs with
    | nil => simp [runNotify]
    | cons x xs ih =>
      unfold runNotify
      cases x.res <;> simp <;> omega
  have hnf : ∀ k nf, (signCSR q k nf).notifyCalls = nf := by
    intro k nf
    unfold signCSR
    split
    · rfl
    · split <;> rfl
  unfold pkiOperation at hrun
  split at hrun
  · simp at hrun; subst hrun; simp [refused] at hpos
  · split at hrun
    · simp at hrun; subst hrun; simp [refused] at hpos
    · rename_i t hmt
      split at hrun
      · simp at hrun; subst hrun; simp [refused] at hpos
      · split at hrun
        · simp at hrun
        · simp at hrun; subst hrun; simp [refused] at hpos
        · simp at hrun
        · rename_i hdec
          obtain ⟨hin, henv, _⟩ := decrypt_csr F q t hdec
          split at hrun
          · split at hrun
            · simp at hrun; subst hrun; simp at hpos
            · rename_i k hv
              simp at hrun; subst hrun
              refine ⟨⟨t, hmt, hin⟩, henv, ?_, ?_⟩
              · intro t' ht' _
                exact ⟨k, hv⟩
              · rw [hnf]; exact hle _
          · rename_i hnm
            simp at hrun; subst hrun
            refine ⟨⟨t, hmt, hin⟩, henv, ?_, ?_⟩
            · intro t' ht' hm'
              rw [hmt] at ht'
              cases ht'
              exact absurd hm' hnm
            · rw [hnf]; exact hle _

/-- A challenge webhook that refuses, followed by a notification webhook that would answer
    "allow": the request is refused and neither is the notification webhook consulted. -/
example : pkiOperationP asCoded
    (initN 2 (Prov.new { secret := [], hooks := [⟨.scep, .x509, .deny, .deny⟩, ⟨.notify, .x509, .allow, .allow⟩] }))
    { d4Req with mt := some tPKCSReq }
    = .val { out := .reply failureReply, hookCalls := 1, stored := 0, notifyCalls := 0 } := by decide

end Verif.SCEP

namespace Verif.SCEP
open Verif

/-! ## 6. the HTTP layer: routes, operations, key selection, GetCACert / GetCACaps -/

theorem finishPki_carries (S : Server) (p : Prov) (r : Result)
    (hc : (finishPki S p r).carriesCert = true) : r.carriesCert = true := by
  unfold finishPki Served.carriesCert pkiOut at hc
  unfold Result.carriesCert
  cases ho : r.out with
  | http500 => simpa [ho] using hc
  | reply rp =>
    simp only [ho] at hc ⊢
    cases hs : selectPair S.provPair S.dfltSigner with
    | none => simp [hs] at hc; simp [hc]
    | some w => simpa [hs] using hc

/-- A certificate comes only out of the PKI operation: the request matched a route, named a SCEP
    provisioner, was dispatched to `operation=PKIOperation`, and the PKI operation itself (run with
    the selected decrypter) produced it. -/
theorem cert_only_via_pki (F : Facts) (R : List RouteEntry) (S : Server) (p : Prov) (h : HttpReq) (q : Req)
    (sv : Served) (hrun : serve F R S p h q = .val sv) (hc : sv.carriesCert = true) :
    (∃ hd, routeOf R h.meth h.path = .handler hd ∧ dispatchOp hd h = some .pki) ∧
    h.lookup = .scep ∧
    ∃ res, pkiOperationP F p (withSelectedDecrypter S h q) = .val res ∧ res.carriesCert = true := by
  unfold serve at hrun
  split at hrun
  · simp at hrun; subst hrun; simp [Served.plain, Served.carriesCert] at hc
  · simp at hrun; subst hrun; simp [Served.plain, Served.carriesCert] at hc
  · rename_i hd hroute
    split at hrun
    · simp at hrun; subst hrun; simp [Served.plain, Served.carriesCert] at hc
    · rename_i hlook
      split at hrun
      · simp at hrun; subst hrun
        unfold caCertAnswer at hc
        split at hc <;> simp [Served.plain, Served.carriesCert] at hc
      · simp at hrun; subst hrun; simp [Served.plain, Served.carriesCert] at hc
      · rename_i hop
        refine ⟨⟨hd, hroute, hop⟩, by simpa using hlook, ?_⟩
        split at hrun
        · simp at hrun
        · rename_i r hr
          simp at hrun; subst hrun
          exact ⟨r, hr, finishPki_carries S p r hc⟩
      · simp at hrun; subst hrun; simp [Served.plain, Served.carriesCert] at hc

/-- **`challenge_required` at the HTTP boundary**: for every method, path, operation, provisioner
    lookup result, key-pair configuration of provisioner and authority, number of Inits, message
    type, challenge and webhook behaviour (retries included): if a secret or a challenge webhook is
    configured, an answer or database entry carrying a certificate implies that the configured secret
    or configured challenge webhooks accepted the request's challenge. -/
theorem challenge_required_http (R : List RouteEntry) (S : Server) (n : Nat) (c : Config) (h : HttpReq)
    (q : Req) (sv : Served) (hm : selectValidationMethod c ≠ .none)
    (hrun : serve asCoded R S (initN (n + 1) (Prov.new c)) h q = .val sv)
    (hc : sv.carriesCert = true) : Accepted c q := by
  obtain ⟨_, _, res, hres, hcc⟩ := cert_only_via_pki asCoded R S _ h q sv hrun hc
  exact challenge_required_any_inits n c (withSelectedDecrypter S h q) res hm hres hcc

/-- No HTTP request aborts the handlers. -/
theorem no_crash_http (R : List RouteEntry) (S : Server) (n : Nat) (c : Config) (h : HttpReq) (q : Req) :
    serve asCoded R S (initN (n + 1) (Prov.new c)) h q ≠ .crash := by
  unfold serve
  split
  · simp
  · simp
  · split
    · simp
    · split
      · simp
      · simp
      · have hnc := no_crash_on_type c (withSelectedDecrypter S h q)
        rw [← pkiOperationP_initialised asCoded n c] at hnc
        split
        · rename_i hcr; exact absurd hcr hnc
        · simp
      · simp

/-- With the route table as coded: only GET and POST reach a handler (HEAD is routed to `Get`, which
    refuses the method), only below "/scep/{name}", and `Post` serves nothing but the PKI operation. -/
theorem dispatch_as_coded (h : HttpReq) (hd : HandlerId) (op : Op)
    (hr : routeOf routesAsCoded h.meth h.path = .handler hd) (hop : dispatchOp hd h = some op) :
    h.path ≠ .root ∧ h.queryOk = true ∧ op = h.op ∧
    ((h.meth = .get ∧ hd = .get ∧ (op = .caCert ∨ op = .caCaps ∨ op = .pki)) ∨
     (h.meth = .post ∧ hd = .post ∧ op = .pki)) := by
  obtain ⟨meth, path, lookup, queryOk, o, dp, dd⟩ := h
  cases meth <;> cases path <;> cases hd <;> cases queryOk <;> cases o <;>
    simp [routeOf, routesAsCoded, RouteEntry.matchesPath, dispatchOp] at hr hop ⊢ <;>
    (try (subst hop; simp))

/-- The shape of a reply to the PKI operation: signed with the provisioner's own key pair exactly
    when the provisioner has both certificate and key, otherwise with the authority's; and the request
    was decrypted with the pair of the same owner when the authority's two pairs are both complete. -/
theorem reply_signed_by_selected (F : Facts) (R : List RouteEntry) (S : Server) (p : Prov) (h : HttpReq)
    (q : Req) (sv : Served) (rp : Reply) (w : Which)
    (hrun : serve F R S p h q = .val sv) (hout : sv.out = .pkiReply rp w) :
    selectPair S.provPair S.dfltSigner = some w ∧
    (w = .prov ↔ (S.provPair.cert = true ∧ S.provPair.key = true)) ∧
    (selectPair S.provPair S.dfltDecrypter = some .prov ↔ w = .prov) := by
  have hsel : selectPair S.provPair S.dfltSigner = some w := by
    unfold serve at hrun
    split at hrun
    · simp at hrun; subst hrun; simp [Served.plain] at hout
    · simp at hrun; subst hrun; simp [Served.plain] at hout
    · split at hrun
      · simp at hrun; subst hrun; simp [Served.plain] at hout
      · split at hrun
        · simp at hrun; subst hrun
          unfold caCertAnswer at hout
          split at hout <;> simp [Served.plain] at hout
        · simp at hrun; subst hrun; simp [Served.plain] at hout
        · split at hrun
          · simp at hrun
          · rename_i r hr
            simp at hrun; subst hrun
            simp only [finishPki, pkiOut] at hout
            cases ho : r.out with
            | http500 => simp [ho] at hout
            | reply rp' =>
              simp only [ho] at hout
              cases hs : selectPair S.provPair S.dfltSigner with
              | none => simp [hs] at hout
              | some w' => simp [hs] at hout; rw [hout.2]
        · simp at hrun; subst hrun; simp [Served.plain] at hout
  refine ⟨hsel, ?_, ?_⟩
  · unfold selectPair at hsel
    cases hc : S.provPair.cert <;> cases hk : S.provPair.key <;> simp [hc, hk] at hsel ⊢
    · intro e; rw [e] at hsel; cases hsel.2
    · exact hsel.symm
  · unfold selectPair at hsel ⊢
    cases hc : S.provPair.cert <;> cases hk : S.provPair.key <;> simp [hc, hk] at hsel ⊢
    · intro e; rw [e] at hsel; cases hsel.2
    · exact hsel.symm

/-- **The decrypter is the advertised one**: whenever a decrypter is selected, its certificate is
    the first certificate `GetCACert` returns (the one an RFC 8894 client encrypts to), provided the
    authority has an intermediate (its default decrypter certificate). -/
theorem decrypter_is_advertised (S : Server) (w : Which)
    (hsel : selectPair S.provPair S.dfltDecrypter = some w) (hint : S.nInter > 0) :
    (caCertificates S).head? = some (tagOf w) := by
  unfold selectPair at hsel
  unfold caCertificates
  cases hc : S.provPair.cert <;> cases hk : S.provPair.key <;> simp [hc, hk] at hsel
  · obtain ⟨_, hsel⟩ := hsel
    subst hsel
    obtain ⟨k, hk'⟩ : ∃ k, S.nInter = k + 1 := ⟨S.nInter - 1, by omega⟩
    simp [tagOf, hk', List.range_succ_eq_map]
    split <;> simp
  · subst hsel
    simp [tagOf]
    split <;> split <;> simp

/-- `GetCACert`: a single certificate is sent raw, several as a degenerate PKCS#7; never an empty
    answer; the provisioner's decrypter certificate, when there is one, comes first and the roots only
    when asked for. -/
theorem cacert_shape (F : Facts) (R : List RouteEntry) (S : Server) (p : Prov) (h : HttpReq) (q : Req)
    (sv : Served) (ra : Bool) (certs : List CertTag)
    (hrun : serve F R S p h q = .val sv) (hout : sv.out = .caCert ra certs) :
    certs = caCertificates S ∧ certs ≠ [] ∧ (ra = true ↔ certs.length > 1) ∧
    sv.stored = 0 ∧ sv.hookCalls = 0 ∧
    (S.includeRoot = false → ∀ i, CertTag.root i ∉ certs) := by
  have hroots : S.includeRoot = false → ∀ i, CertTag.root i ∉ caCertificates S := by
    intro hr i
    unfold caCertificates
    simp [hr]
    split <;> split <;> simp
  unfold serve at hrun
  split at hrun
  · simp at hrun; subst hrun; simp [Served.plain] at hout
  · simp at hrun; subst hrun; simp [Served.plain] at hout
  · split at hrun
    · simp at hrun; subst hrun; simp [Served.plain] at hout
    · split at hrun
      · simp at hrun; subst hrun
        unfold caCertAnswer at hout ⊢
        split at hout
        · simp [Served.plain] at hout
        · rename_i hne
          simp [Served.plain] at hout
          obtain ⟨h1, h2⟩ := hout
          subst h2
          simp only [hne]
          refine ⟨trivial, by simpa using hne, ?_, rfl, rfl, hroots⟩
          rw [← h1]; simp
      · simp at hrun; subst hrun; simp [Served.plain] at hout
      · split at hrun
        · simp at hrun
        · rename_i r hr
          simp at hrun; subst hrun
          simp only [finishPki, pkiOut] at hout
          cases ho : r.out with
          | http500 => simp [ho] at hout
          | reply rp' =>
            simp only [ho] at hout
            cases hs : selectPair S.provPair S.dfltSigner <;> simp [hs] at hout
      · simp at hrun; subst hrun; simp [Served.plain] at hout

/-- `GetCACaps`: the configured capabilities, or the default list when none are configured. -/
theorem cacaps_shape (S : Server) :
    (S.caps = [] → caCaps S = defaultCapabilities) ∧ (S.caps ≠ [] → caCaps S = S.caps) := by
  unfold caCaps
  constructor
  · intro h; simp [h]
  · intro h
    cases hc : S.caps with
    | nil => exact absurd hc h
    | cons x xs => simp

/-! ### webhook retries -/

/-- `DoWithContext`: the webhook's verdict is "allow" exactly when the first exchange says so, or the
    first exchange ended in a 5xx and the retry says so; a second 5xx, any 4xx and any undecodable
    body are errors; never more than two requests, and a second one only after a 5xx. -/
theorem webhook_retry (h : Hook) :
    (h.res = .allow ↔ (h.first = .allow ∨ (h.first = .s5xx ∧ h.second = .allow))) ∧
    (h.res = .deny ↔ (h.first = .deny ∨ (h.first = .s5xx ∧ h.second = .deny))) ∧
    1 ≤ h.tries ∧ h.tries ≤ 2 ∧ (h.tries = 2 ↔ h.first = .s5xx) := by
  obtain ⟨k, ct, f, s2⟩ := h
  cases f <;> cases s2 <;> simp [Hook.res, Hook.tries, doWebhook]

/-- The HTTP requests of a validation: at least one and at most two per webhook consulted. -/
theorem hooksHttp_bounds (hs : List Hook) (a n : Nat) (o : Option Nat) (m : Nat)
    (hr : runHooks hs a n = (o, m)) : m - n ≤ hooksHttp hs ∧ hooksHttp hs ≤ 2 * (m - n) ∧ n ≤ m := by
  induction hs generalizing a n with
  | nil => simp [runHooks] at hr; simp [hooksHttp, hr.2]
  | cons x xs ih =>
    have ht := (webhook_retry x).2.2
    unfold runHooks at hr
    unfold hooksHttp
    cases hx : x.res <;> simp [hx] at hr ⊢
    · have := ih _ _ hr; omega
    · have := ih _ _ hr; omega
    · omega

/-- A webhook that first answers 503 and then "allow" accepts the challenge with two requests; two
    503s refuse it. -/
example :
    validateChallenge { secret := [], hooks := [⟨.scep, .x509, .s5xx, .allow⟩] } [] = (true, 1) ∧
    hooksHttp [⟨.scep, .x509, .s5xx, .allow⟩] = 2 ∧
    validateChallenge { secret := [], hooks := [⟨.scep, .x509, .s5xx, .s5xx⟩] } [] = (false, 1) := by decide

/-- The HTTP theorems are about real runs: a GET PKIOperation on "/scep/name" with the right
    challenge is answered with a certificate signed by the provisioner's own key pair. -/
def exServer : Server :=
  { provPair := ⟨true, true⟩, dfltDecrypter := ⟨true, false⟩, dfltSigner := ⟨true, true⟩, nInter := 1, nRoots := 1,
    excludeIntermediate := false, includeRoot := false, caps := [], encAlg := 2 }
def exHttp : HttpReq :=
  { meth := .get, path := .name, lookup := .scep, queryOk := true, op := .pki, decProv := true, decDflt := false }

example : serve asCoded routesAsCoded exServer (initN 1 (Prov.new d4Config)) exHttp
      { d4Req with mt := some tPKCSReq, cp := d4Config.secret, decOk := false } =
    .val { out := .pkiReply (successReply d4Req) .prov, hookCalls := 0, hookHttp := 0, stored := 1, notifyCalls := 0 } := by
  decide

example : serve asCoded routesAsCoded exServer (initN 1 (Prov.new d4Config)) { exHttp with op := .caCert } d4Req =
    .val (.plain (.caCert true [.provDecrypter, .inter 0])) := by decide

end Verif.SCEP

namespace Verif.SCEP
open Verif

/-! ## 7. the names of the issued certificate -/

/-- Every name of the issued certificate is a name the CSR carried: each subject alternative name
    is one of the CSR's SANs (or, for a CSR without SANs, its common name) and none of those is left
    out; the subject common name is the CSR's, or — only with `forceCN` and an empty common name — the
    first DNS name. -/
theorem issued_names_from_csr (forceCN : Bool) (n : CsrNames) (c : Issued) (h : issue forceCN n = some c) :
    (∀ x, x ∈ c.dns ++ c.emails ++ c.ips ++ c.uris ↔ ∃ k, (k, x) ∈ templateSans n) ∧
    (∀ k x, (k, x) ∈ templateSans n → (n.sans ≠ [] ∧ (k, x) ∈ n.sans) ∨ (n.sans = [] ∧ x = n.cn)) ∧
    (c.cn = n.cn ∨ (forceCN = true ∧ n.cn = [] ∧ c.dns.head? = some c.cn)) := by
  unfold issue at h
  simp only [Option.map_eq_some_iff] at h
  obtain ⟨cn, hcn, rfl⟩ := h
  refine ⟨?_, ?_, ?_⟩
  · intro x
    simp only [ofKind, List.mem_append, List.mem_map, List.mem_filter, beq_iff_eq]
    constructor
    · rintro (((⟨⟨k, y⟩, ⟨hm, _⟩, rfl⟩ | ⟨⟨k, y⟩, ⟨hm, _⟩, rfl⟩) | ⟨⟨k, y⟩, ⟨hm, _⟩, rfl⟩) | ⟨⟨k, y⟩, ⟨hm, _⟩, rfl⟩) <;>
        exact ⟨k, hm⟩
    · rintro ⟨k, hm⟩
      cases k
      · exact .inl (.inl (.inl ⟨(.dns, x), ⟨hm, rfl⟩, rfl⟩))
      · exact .inl (.inl (.inr ⟨(.email, x), ⟨hm, rfl⟩, rfl⟩))
      · exact .inl (.inr ⟨(.ip, x), ⟨hm, rfl⟩, rfl⟩)
      · exact .inr ⟨(.uri, x), ⟨hm, rfl⟩, rfl⟩
  · intro k x hm
    unfold templateSans at hm
    split at hm
    · rename_i he
      simp at hm
      exact .inr ⟨by simpa using he, hm.2⟩
    · rename_i he
      exact .inl ⟨by simpa using he, hm⟩
  · split at hcn
    · rename_i hf
      simp only [Bool.and_eq_true, List.isEmpty_iff] at hf
      exact .inr ⟨hf.1, hf.2, hcn⟩
    · simp at hcn; exact .inl hcn.symm

/-- `forceCN` refuses exactly the CSR with an empty common name and no DNS name. -/
theorem issue_refuses_iff (forceCN : Bool) (n : CsrNames) :
    issue forceCN n = none ↔ (forceCN = true ∧ n.cn = [] ∧ ofKind .dns (templateSans n) = []) := by
  unfold issue
  simp only [Option.map_eq_none_iff]
  split
  · rename_i hf
    simp only [Bool.and_eq_true, List.isEmpty_iff] at hf
    simp [hf.1, hf.2, List.head?_eq_none_iff]
  · rename_i hf
    simp only [Bool.and_eq_true, List.isEmpty_iff, not_and] at hf
    simp
    intro h1 h2
    exact absurd h2 (hf h1)

/-- a CSR whose DNS name parses as an IP address: the certificate carries it as an IP address, and
    still no name the CSR did not carry -/
example : issue false { cn := s "dev", sans := [(.ip, s "192.0.2.7"), (.dns, s "a.example")], cnKind := .dns } =
    some { cn := s "dev", dns := [s "a.example"], emails := [], ips := [s "192.0.2.7"], uris := [] } := by decide

end Verif.SCEP

namespace Verif.SCEP
open Verif

/-! ## 8. "Any other request is answered with a signed failure reply" -/

/-- A request that reaches the challenge check (decoded, parsed, decrypted to a valid CSR of a CSR
    type) and whose challenge the configured secret or webhooks do not accept is answered with the
    failure CertRep (badRequest, no certificate), nothing is stored and nobody is notified. -/
theorem rejected_challenge_failure_reply (c : Config) (q : Req) (t : MsgType)
    (hh : q.httpOk = true) (hmt : q.mt = some t) (hp : parse asCoded q ≠ .rejected)
    (hdec : decrypt asCoded q t = .val .csr) (hv : (validateChallenge c q.cp).1 = false) :
    pkiOperation asCoded c q =
      .val { out := .reply failureReply, hookCalls := (validateChallenge c q.cp).2, stored := 0, notifyCalls := 0 } := by
  have hin := (decrypt_csr asCoded q t hdec).1
  have hmust : mustCheck asCoded t = true := by
    have : t = tRenewalReq ∨ t = tUpdateReq ∨ t = tPKCSReq := by simpa [asCoded] using hin
    rcases this with rfl | rfl | rfl <;> decide
  unfold pkiOperation
  simp only [hh, hmt, hdec, hmust]
  cases hpp : parse asCoded q with
  | rejected => exact absurd hpp hp
  | certRep =>
    cases hvv : validateChallenge c q.cp with
    | mk b k => simp [hvv] at hv; subst hv; simp
  | csrReq =>
    cases hvv : validateChallenge c q.cp with
    | mk b k => simp [hvv] at hv; subst hv; simp

/-- …and at the HTTP boundary, GET and POST alike: the client receives that CertRep, signed with the
    key pair `selectSigner` selects (not a bare HTTP error), whenever a signer can be selected. -/
theorem rejected_challenge_answered_http (S : Server) (n : Nat) (c : Config) (h : HttpReq) (q : Req)
    (hd : HandlerId) (t : MsgType) (w : Which)
    (hroute : routeOf routesAsCoded h.meth h.path = .handler hd) (hl : h.lookup = .scep)
    (hop : dispatchOp hd h = some .pki) (hsig : selectPair S.provPair S.dfltSigner = some w)
    (hh : q.httpOk = true) (hmt : q.mt = some t)
    (hp : parse asCoded (withSelectedDecrypter S h q) ≠ .rejected)
    (hdec : decrypt asCoded (withSelectedDecrypter S h q) t = .val .csr)
    (hv : (validateChallenge c q.cp).1 = false) :
    ∃ sv, serve asCoded routesAsCoded S (initN (n + 1) (Prov.new c)) h q = .val sv ∧
      sv.out = .pkiReply failureReply w ∧ sv.stored = 0 ∧ sv.notifyCalls = 0 := by
  have hrun := rejected_challenge_failure_reply c (withSelectedDecrypter S h q) t
    (by simpa [withSelectedDecrypter] using hh) (by simpa [withSelectedDecrypter] using hmt) hp hdec
    (by simpa [withSelectedDecrypter] using hv)
  rw [← pkiOperationP_initialised asCoded n c] at hrun
  unfold serve
  simp only [hroute, hl, hop, hrun]
  refine ⟨_, rfl, ?_, rfl, rfl⟩
  simp [finishPki, pkiOut, hsig]

/-- the hypotheses are met by an ordinary GET enrolment with a wrong challenge -/
example : ∃ sv, serve asCoded routesAsCoded exServer (initN 1 (Prov.new d4Config)) exHttp
      { d4Req with mt := some tPKCSReq, cp := [120] } = .val sv ∧ sv.out = .pkiReply failureReply .prov :=
  ⟨{ out := .pkiReply failureReply .prov, hookCalls := 0, hookHttp := 0, stored := 0, notifyCalls := 0 }, by decide, rfl⟩

end Verif.SCEP

namespace Verif.SCEP
open Verif

/-! ## 9. configuration conversions (ca.json ⇄ admin database) keep the challenge in force;
       mis-spelt webhooks never initialise -/

/-- every webhook's certificate type is a certificate type (or unset) -/
def certTypesSpelt (c : Config) : Prop := ∀ h ∈ c.hooks, h.ct ≠ .unknown

theorem isChallengeHook_rt (h : Hook) (hv : h.ct ≠ .unknown) : isChallengeHook (rtHook h) = isChallengeHook h := by
  obtain ⟨k, ct, f, s2⟩ := h
  cases k <;> cases ct <;> first | rfl | exact absurd rfl hv

theorem isNotifyHook_rt (h : Hook) (hv : h.ct ≠ .unknown) : isNotifyHook (rtHook h) = isNotifyHook h := by
  obtain ⟨k, ct, f, s2⟩ := h
  cases k <;> cases ct <;> first | rfl | exact absurd rfl hv

theorem res_rt (h : Hook) : (rtHook h).res = h.res := rfl

theorem filter_map_rt (f : Hook → Bool) (l : List Hook) (hf : ∀ h ∈ l, f (rtHook h) = f h) :
    (l.map rtHook).filter f = (l.filter f).map rtHook := by
  induction l with
  | nil => rfl
  | cons x xs ih =>
    have hx := hf x List.mem_cons_self
    have hxs := ih (fun h hh => hf h (List.mem_cons_of_mem _ hh))
    simp only [List.map_cons, List.filter_cons, hx]
    split <;> simp [hxs]

theorem challengeHooks_roundTrip (p : ProvCfg) (hv : certTypesSpelt p.cfg) :
    challengeHooks (roundTrip p).cfg = (challengeHooks p.cfg).map rtHook := by
  simp only [challengeHooks, roundTrip]
  exact filter_map_rt _ _ (fun h hh => isChallengeHook_rt h (hv h hh))

theorem notifyHooks_roundTrip (p : ProvCfg) (hv : certTypesSpelt p.cfg) :
    notifyHooks (roundTrip p).cfg = (notifyHooks p.cfg).map rtHook := by
  simp only [notifyHooks, roundTrip]
  exact filter_map_rt _ _ (fun h hh => isNotifyHook_rt h (hv h hh))

theorem runHooks_map_rt (l : List Hook) (a n : Nat) : runHooks (l.map rtHook) a n = runHooks l a n := by
  induction l generalizing a n with
  | nil => rfl
  | cons x xs ih =>
    simp only [List.map_cons, runHooks, res_rt]
    cases x.res <;> simp [ih]

theorem runNotify_map_rt (l : List Hook) : runNotify (l.map rtHook) = runNotify l := by
  induction l with
  | nil => rfl
  | cons x xs ih =>
    simp only [List.map_cons, runNotify, res_rt]
    cases x.res <;> simp [ih]

theorem selectValidationMethod_roundTrip (p : ProvCfg) (hv : certTypesSpelt p.cfg) :
    selectValidationMethod (roundTrip p).cfg = selectValidationMethod p.cfg := by
  unfold selectValidationMethod
  rw [challengeHooks_roundTrip p hv]
  simp only [List.length_map]
  rfl

theorem validateChallenge_roundTrip (p : ProvCfg) (hv : certTypesSpelt p.cfg) (cp : Str) :
    validateChallenge (roundTrip p).cfg cp = validateChallenge p.cfg cp := by
  unfold validateChallenge
  rw [selectValidationMethod_roundTrip p hv, challengeHooks_roundTrip p hv, runHooks_map_rt]
  rfl

/-- **A provisioner that went through the admin database behaves as configured**: the PKI operation
    on `ProvisionerToCertificates (ProvisionerToLinkedca p)` is the PKI operation on `p`, for every
    request — provided every webhook's certificate type is spelt as one (a mis-spelt one comes back
    as "ALL": see `misspelt_certtype_activated_by_conversion`). -/
theorem pkiOperation_roundTrip (F : Facts) (p : ProvCfg) (hv : certTypesSpelt p.cfg) (q : Req) :
    pkiOperation F (roundTrip p).cfg q = pkiOperation F p.cfg q := by
  unfold pkiOperation
  simp only [validateChallenge_roundTrip p hv, notifyHooks_roundTrip p hv, runNotify_map_rt]

theorem accepted_roundTrip (p : ProvCfg) (hv : certTypesSpelt p.cfg) (q : Req) :
    Accepted (roundTrip p).cfg q ↔ Accepted p.cfg q := by
  unfold Accepted
  rw [selectValidationMethod_roundTrip p hv, challengeHooks_roundTrip p hv]
  cases selectValidationMethod p.cfg <;> simp [roundTrip, res_rt]
  intro _
  constructor
  · rintro ⟨h, ⟨a, ha, rfl⟩, hr⟩
    exact ⟨a, ha, by simpa [res_rt] using hr⟩
  · rintro ⟨a, ha, hr⟩
    exact ⟨rtHook a, ⟨a, ha, rfl⟩, by simpa [res_rt] using hr⟩

/-- after one conversion every certificate type is spelt -/
theorem certTypesSpelt_roundTrip (p : ProvCfg) : certTypesSpelt (roundTrip p).cfg := by
  intro h hh
  simp only [roundTrip, List.mem_map] at hh
  obtain ⟨x, _, rfl⟩ := hh
  obtain ⟨k, ct, f, s2⟩ := x
  cases ct <;> simp [rtHook, rtCertType]

/-- nothing else of the configuration changes, and a second conversion changes nothing more -/
theorem roundTrip_fields (p : ProvCfg) :
    (roundTrip p).cfg.secret = p.cfg.secret ∧ (roundTrip p).forceCN = p.forceCN ∧ (roundTrip p).caps = p.caps ∧
    (roundTrip p).includeRoot = p.includeRoot ∧ (roundTrip p).excludeIntermediate = p.excludeIntermediate ∧
    (roundTrip p).minKeyLen = p.minKeyLen ∧ (roundTrip p).encAlg = p.encAlg ∧
    (roundTrip p).decCert = p.decCert ∧ (roundTrip p).decKey = p.decKey ∧
    (roundTrip p).cfg.hooks.length = p.cfg.hooks.length ∧
    (∀ h ∈ (roundTrip p).cfg.hooks, ∃ x ∈ p.cfg.hooks, h.kind = x.kind ∧ h.res = x.res) ∧
    roundTrip (roundTrip p) = roundTrip p := by
  refine ⟨rfl, rfl, rfl, rfl, rfl, rfl, rfl, rfl, rfl, by simp [roundTrip], ?_, ?_⟩
  · intro h hh
    simp only [roundTrip, List.mem_map] at hh
    obtain ⟨x, hx, rfl⟩ := hh
    exact ⟨x, hx, rfl, rfl⟩
  · simp only [roundTrip, List.map_map]
    congr 2
    apply List.map_congr_left
    intro h _
    obtain ⟨k, ct, f, s2⟩ := h
    cases ct <;> rfl

/-- **`challenge_required` for a provisioner migrated to / loaded from the admin database** any number
    of times and initialised any number of times. -/
theorem challenge_required_after_conversions (k n : Nat) (p : ProvCfg) (hv : certTypesSpelt p.cfg) (q : Req)
    (res : Result) (hm : selectValidationMethod p.cfg ≠ .none)
    (hrun : pkiOperationP asCoded (initN (n + 1) (Prov.new (roundTrips k p).cfg)) q = .val res)
    (hc : res.carriesCert = true) : Accepted p.cfg q := by
  induction k generalizing p with
  | zero => exact challenge_required_any_inits n p.cfg q res hm hrun hc
  | succ k ih =>
    have := ih (roundTrip p) (certTypesSpelt_roundTrip p) (by rwa [selectValidationMethod_roundTrip p hv])
      (by simpa [roundTrips] using hrun)
    exact (accepted_roundTrip p hv q).mp this

/-- `Init` refuses exactly: a webhook with a mis-spelt kind or certificate type, an encryption
    algorithm identifier above 4, a key length that is not a multiple of 8; otherwise it only sets
    the default minimum key length. -/
theorem initDefaults_spec (p : ProvCfg) :
    (initDefaults p = none ↔
      ((∃ h ∈ p.cfg.hooks, h.kind = .unknown ∨ h.ct = .unknown) ∨ p.encAlg > 4 ∨ p.minKeyLen % 8 ≠ 0)) ∧
    (∀ p', initDefaults p = some p' → p'.cfg = p.cfg ∧ p'.minKeyLen ≠ 0 ∧ (p.minKeyLen ≠ 0 → p'.minKeyLen = p.minKeyLen)) := by
  have hall : p.cfg.hooks.all Hook.wellSpelt = true ↔ ¬ ∃ h ∈ p.cfg.hooks, h.kind = .unknown ∨ h.ct = .unknown := by
    simp only [List.all_eq_true, Hook.wellSpelt, Bool.and_eq_true, bne_iff_ne, ne_eq]
    constructor
    · rintro h ⟨x, hx, hor⟩
      rcases hor with e | e
      · exact (h x hx).1 e
      · exact (h x hx).2 e
    · intro h x hx
      exact ⟨fun e => h ⟨x, hx, .inl e⟩, fun e => h ⟨x, hx, .inr e⟩⟩
  unfold initDefaults
  constructor
  · split
    · rename_i hb
      have : ¬ (p.cfg.hooks.all Hook.wellSpelt = true) := by simpa using hb
      have := (not_congr hall).mp this
      simp only [Classical.not_not] at this
      simp [this]
    · rename_i hb
      have hb' : p.cfg.hooks.all Hook.wellSpelt = true := by simpa using hb
      have hne := hall.mp hb'
      split
      · simp [*]
      · split
        · simp [*]
        · simp only [reduceCtorEq, false_iff, not_or]
          refine ⟨hne, by omega, by omega⟩
  · intro p' h
    split at h
    · simp at h
    · split at h
      · simp at h
      · split at h
        · simp at h
        · simp only [Option.some.injEq] at h
          subst h
          refine ⟨rfl, ?_, ?_⟩
          · simp only; split <;> omega
          · intro hne; simp [hne]

/-- **A mis-spelt webhook never lets a certificate out.** A provisioner configured with a webhook
    whose kind or certificate type is mis-spelt (e.g. `"kind": "scepchallenge"`, which would silently
    never have been consulted) does not initialise; `lookupProvisioner` then does not find a SCEP
    provisioner and no request to it is answered with a certificate, stored or sent. -/
theorem misspelt_webhook_never_issues (F : Facts) (R : List RouteEntry) (S : Server) (pr : Prov) (p : ProvCfg)
    (h : HttpReq) (q : Req) (sv : Served)
    (hbad : ∃ x ∈ p.cfg.hooks, x.kind = .unknown ∨ x.ct = .unknown)
    (hl : h.lookup = lookupOf .scep p)
    (hrun : serve F R S pr h q = .val sv) : sv.carriesCert = false := by
  have hnone : initDefaults p = none := (initDefaults_spec p).1.mpr (.inl hbad)
  have hlk : h.lookup = .otherType := by simp [hl, lookupOf, hnone]
  cases hc : sv.carriesCert with
  | false => rfl
  | true =>
    have := (cert_only_via_pki F R S pr h q sv hrun hc).2.1
    rw [hlk] at this
    cases this

/-- **`challenge_required` for whatever is written in the configuration**: for every configuration
    `p` (well spelt or not, converted `k` times, initialised `n+1` times), every HTTP request whose
    provisioner name resolves to it: a certificate implies that the configuration initialises (in
    particular every webhook kind and certificate type is spelt as one) and — when a secret or a
    challenge webhook is configured — that it accepted the challenge. -/
theorem challenge_required_configured (R : List RouteEntry) (S : Server) (n : Nat) (p : ProvCfg)
    (h : HttpReq) (q : Req) (sv : Served)
    (hl : h.lookup = lookupOf .scep p)
    (hrun : serve asCoded R S (initN (n + 1) (Prov.new p.cfg)) h q = .val sv)
    (hc : sv.carriesCert = true) :
    (∀ x ∈ p.cfg.hooks, x.kind ≠ .unknown ∧ x.ct ≠ .unknown) ∧
    (selectValidationMethod p.cfg ≠ .none → Accepted p.cfg q) := by
  constructor
  · intro x hx
    by_cases hb : x.kind = .unknown ∨ x.ct = .unknown
    · have := misspelt_webhook_never_issues asCoded R S _ p h q sv ⟨x, hx, hb⟩ hl hrun
      rw [hc] at this; cases this
    · exact ⟨fun e => hb (.inl e), fun e => hb (.inr e)⟩
  · intro hm
    exact challenge_required_http R S n p.cfg h q sv hm hrun hc

def exProvCfg : ProvCfg where
  cfg := { secret := [], hooks := [⟨.scep, .unset, .deny, .deny⟩] }
  forceCN := false
  caps := []
  includeRoot := false
  excludeIntermediate := false
  minKeyLen := 0
  encAlg := 2
  decCert := false
  decKey := false

example : (roundTrip exProvCfg).cfg.hooks = [⟨.scep, .all, .deny, .deny⟩] ∧
    (initDefaults exProvCfg).map (·.minKeyLen) = some 2048 := by decide

/-- a challenge webhook with a mis-spelt kind: the provisioner does not initialise, before and
    after a conversion (the admin database stores NO_KIND, which is refused as well) -/
example :
    initDefaults { exProvCfg with cfg := { secret := [], hooks := [⟨.unknown, .x509, .deny, .deny⟩] } } = none ∧
    initDefaults (roundTrip { exProvCfg with cfg := { secret := [], hooks := [⟨.unknown, .x509, .deny, .deny⟩] } }) = none := by
  decide

/-- a challenge webhook with a mis-spelt certificate type: refused as configured, but the admin
    database stores "ALL" for it, so the migrated provisioner initialises with the webhook in force -/
theorem misspelt_certtype_activated_by_conversion :
    initDefaults { exProvCfg with cfg := { secret := [], hooks := [⟨.scep, .unknown, .deny, .deny⟩] } } = none ∧
    (initDefaults (roundTrip { exProvCfg with cfg := { secret := [], hooks := [⟨.scep, .unknown, .deny, .deny⟩] } })).map
      (fun r => challengeHooks r.cfg) = some [⟨.scep, .all, .deny, .deny⟩] := by decide

end Verif.SCEP

namespace Verif.SCEP
open Verif

/-! ## 10. the provisioner's own key material -/

/-- **The provisioner's signer is its decrypter key, and that key is the one its certificate
    certifies**, whatever combination of `decrypterKeyPEM`, `decrypterKey` (URI) and certificate is
    configured: a CertRep signed with the provisioner's own pair therefore verifies under the
    certificate it names — the certificate `GetCACert` lists first (`decrypter_is_advertised`). A
    left-over PEM next to a URI never signs. -/
theorem init_signer_is_certified_key (k : KeyCfg) (st : KeyState) (h : initKeys k = some st) :
    st.signer = st.decrypter ∧ st.cert = k.cert ∧
    (∀ d, st.decrypter = some d → st.cert = some d ∧ st.signatureVerifies = true) ∧
    (st.decrypter = match k.uri with | some u => some u | none => k.pem) := by
  unfold initKeys at h
  cases hu : k.uri <;> cases hp : k.pem <;> cases hc : k.cert <;> simp [hu, hp, hc] at h
  all_goals first
    | (subst h; simp [KeyState.signatureVerifies])
    | (obtain ⟨he, rfl⟩ := h; subst he; simp [KeyState.signatureVerifies])

/-- `Init` fails on the key material exactly when there is a decrypter key without a certificate or
    with a certificate of another key. -/
theorem initKeys_fails_iff (k : KeyCfg) :
    initKeys k = none ↔
      ∃ d, (match k.uri with | some u => some u | none => k.pem) = some d ∧ k.cert ≠ some d := by
  unfold initKeys
  cases hu : k.uri <;> cases hp : k.pem <;> cases hc : k.cert <;> simp [hu, hp, hc]
  all_goals first | omega | (constructor <;> intro h <;> first | exact h | exact fun e => h e.symm | exact fun e => h e.symm)

/-- URI key 1 certified, stale PEM key 2: decrypter and signer are key 1 -/
example : initKeys { cert := some 1, pem := some 2, uri := some 1 } =
    some { decrypter := some 1, signer := some 1, cert := some 1 } := by decide

end Verif.SCEP

namespace Verif.SCEP
open Verif

/-! ## 11. the running CA: both listeners serve the configuration of the last reload -/

/-- After `Reload` every listener the CA has serves the new configuration. -/
theorem reload_replaces_every_listener {α : Type} (new : α) (r : Running α) (l : Listener) (x : α)
    (h : (caReload new r).served l = some x) : x = new := by
  cases l
  · simp [caReload, Running.served] at h; exact h.symm
  · simp only [caReload, Running.served, Option.map_eq_some_iff] at h
    obtain ⟨_, _, rfl⟩ := h; rfl

/-- …and it keeps the listeners it had. -/
theorem reload_keeps_listeners {α : Type} (new : α) (r : Running α) (l : Listener) :
    ((caReload new r).served l).isSome = (r.served l).isSome := by
  cases l <;> simp [caReload, Running.served]

theorem served_after_reloads_ne {α : Type} (r : Running α) (cfgs : List α) (hne : cfgs ≠ []) (l : Listener) (x : α)
    (h : (cfgs.foldl (fun r c => caReload c r) r).served l = some x) : x = cfgs.getLast hne := by
  induction cfgs generalizing r with
  | nil => exact absurd rfl hne
  | cons c cs ih =>
    cases cs with
    | nil =>
      simp only [List.foldl_cons, List.foldl_nil] at h
      simpa using reload_replaces_every_listener c r l x h
    | cons d ds =>
      simp only [List.foldl_cons] at h ih
      have := ih (caReload c r) (by simp) h
      simpa using this

/-- After any sequence of reloads, what a listener serves is the configuration of the last one
    (the start configuration if there was none). -/
theorem served_after_reloads {α : Type} (c0 : α) (ins : Bool) (cfgs : List α) (l : Listener) (x : α)
    (h : (cfgs.foldl (fun r c => caReload c r) (caStart c0 ins)).served l = some x) :
    x = (c0 :: cfgs).getLast (by simp) := by
  cases cfgs with
  | nil =>
    cases l
    · simp [caStart, Running.served] at h; simpa using h.symm
    · simp only [caStart, Running.served, List.foldl_nil] at h
      split at h <;> simp at h
      simpa using h.symm
  | cons c cs =>
    have := served_after_reloads_ne (caStart c0 ins) (c :: cs) (by simp) l x h
    simpa using this

/-- **`challenge_required` on a running CA**: on the TLS listener and on the plain-HTTP listener
    alike, after any number of reloads with changed configurations, a certificate implies that the
    secret or challenge webhooks of the *latest* configuration accepted the challenge (an old secret
    stops working with the reload that removes it). -/
theorem challenge_required_served (R : List RouteEntry) (S : Server) (n : Nat) (c0 : Config) (ins : Bool)
    (cfgs : List Config) (l : Listener) (c : Config) (h : HttpReq) (q : Req) (sv : Served)
    (hserved : (cfgs.foldl (fun r c => caReload c r) (caStart c0 ins)).served l = some c)
    (hm : selectValidationMethod ((c0 :: cfgs).getLast (by simp)) ≠ .none)
    (hrun : serve asCoded R S (initN (n + 1) (Prov.new c)) h q = .val sv)
    (hc : sv.carriesCert = true) : Accepted ((c0 :: cfgs).getLast (by simp)) q := by
  have hlast := served_after_reloads c0 ins cfgs l c hserved
  subst hlast
  exact challenge_required_http R S n _ h q sv hm hrun hc

/-- secret rotated by a reload: on the insecure listener the old secret is refused afterwards -/
example :
    ((caReload (α := Config) { secret := [110], hooks := [] }
        (caStart { secret := [111], hooks := [] } true)).served .insecure) =
      some { secret := [110], hooks := [] } := by decide

end Verif.SCEP
