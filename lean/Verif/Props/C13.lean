import Verif.Model.AcmeSans
/-!
  C13 — an ACME certificate covers exactly the validated identifiers of its order.

  All statements are about `Verif.AcmeSans` (the model of acme.canonicalize, (*Order).sans, the
  name part of (*Order).Finalize and api.NewOrderRequest.Validate, tied to the code by the C13
  correspondence check, which also inspects the leaf a real authority issues).

  Sections: 1. order on byte strings and `sortU`; 2. the comparison loops of `sans`;
  3. what an accepted finalization means; 4. the property theorems.
  "Backed by a valid authorization of the same account" is C10 (`order_ready_cause`,
  `authz_owner`): an order is finalized only from `ready`.
-/
namespace Verif.AcmeSans
open Verif

/-! ## 1. byte order, `sortU` -/

theorem ltBytes_irrefl (a : List Nat) : ltBytes a a = false := by
  induction a with
  | nil => rfl
  | cons x xs ih => simp [ltBytes, ih]

theorem ltBytes_trans : ∀ (a b c : List Nat), ltBytes a b = true → ltBytes b c = true → ltBytes a c = true
  | [], [], _, h, _ => by simp [ltBytes] at h
  | [], _ :: _, [], _, h => by simp [ltBytes] at h
  | [], _ :: _, _ :: _, _, _ => by simp [ltBytes]
  | _ :: _, [], _, h, _ => by simp [ltBytes] at h
  | _ :: _, _ :: _, [], _, h => by simp [ltBytes] at h
  | x :: xs, y :: ys, z :: zs, h1, h2 => by
    simp [ltBytes] at h1 h2 ⊢
    rcases h1 with h1 | ⟨e1, h1⟩
    · rcases h2 with h2 | ⟨e2, _⟩
      · left; omega
      · left; omega
    · rcases h2 with h2 | ⟨e2, h2⟩
      · left; omega
      · right; exact ⟨by omega, ltBytes_trans xs ys zs h1 h2⟩

theorem ltBytes_total : ∀ (a b : List Nat), ltBytes a b = false → a ≠ b → ltBytes b a = true
  | [], [], _, h => by simp at h
  | [], _ :: _, h, _ => by simp [ltBytes] at h
  | _ :: _, [], _, _ => by simp [ltBytes]
  | x :: xs, y :: ys, h, hne => by
    simp [ltBytes] at h ⊢
    rcases h with ⟨h1, h2⟩
    by_cases e : x = y
    · right
      refine ⟨e.symm, ltBytes_total xs ys ?_ ?_⟩
      · cases hh : ltBytes xs ys
        · rfl
        · exact absurd hh (by simpa using h2 e)
      · intro exy; exact hne (by rw [e, exy])
    · left; omega

theorem ltBytes_asymm (a b : List Nat) (h : ltBytes a b = true) : ltBytes b a = false := by
  cases hb : ltBytes b a
  · rfl
  · have := ltBytes_trans a b a h hb
    rw [ltBytes_irrefl] at this; cases this

/-- strictly increasing -/
def Sorted (l : List (List Nat)) : Prop := l.Pairwise (fun a b => ltBytes a b = true)

theorem insertU_mem (x z : List Nat) (l : List (List Nat)) : z ∈ insertU x l ↔ z = x ∨ z ∈ l := by
  induction l with
  | nil => simp [insertU]
  | cons y ys ih =>
    unfold insertU
    split
    · simp
    · split
      · rename_i h; subst h; simp
      · simp [ih]; constructor
        · rintro (h | h | h) <;> simp [h]
        · rintro (h | h | h) <;> simp [h]

theorem insertU_sorted (x : List Nat) (l : List (List Nat)) (h : Sorted l) : Sorted (insertU x l) := by
  induction l with
  | nil => simp [insertU, Sorted]
  | cons y ys ih =>
    unfold insertU
    have hy := List.pairwise_cons.mp h
    split
    · rename_i hlt
      refine List.pairwise_cons.mpr ⟨?_, h⟩
      intro z hz
      rcases List.mem_cons.mp hz with rfl | hz
      · exact hlt
      · exact ltBytes_trans _ _ _ hlt (hy.1 z hz)
    · split
      · exact h
      · rename_i hnlt hne
        refine List.pairwise_cons.mpr ⟨?_, ih hy.2⟩
        intro z hz
        rcases (insertU_mem x z ys).mp hz with rfl | hz
        · exact ltBytes_total _ _ (by simpa using hnlt) hne
        · exact hy.1 z hz

theorem sortU_mem (z : List Nat) (l : List (List Nat)) : z ∈ sortU l ↔ z ∈ l := by
  induction l with
  | nil => simp [sortU]
  | cons y ys ih =>
    have : sortU (y :: ys) = insertU y (sortU ys) := rfl
    rw [this, insertU_mem, ih]; simp

theorem sortU_sorted (l : List (List Nat)) : Sorted (sortU l) := by
  induction l with
  | nil => simp [sortU, Sorted]
  | cons y ys ih => exact insertU_sorted y _ ih

/-- a strictly increasing list is determined by its elements -/
theorem sorted_ext : ∀ (l₁ l₂ : List (List Nat)), Sorted l₁ → Sorted l₂ → (∀ z, z ∈ l₁ ↔ z ∈ l₂) → l₁ = l₂
  | [], [], _, _, _ => rfl
  | [], y :: ys, _, _, h => by have := (h y).mpr (by simp); simp at this
  | x :: xs, [], _, _, h => by have := (h x).mp (by simp); simp at this
  | x :: xs, y :: ys, h1, h2, h => by
    have p1 := List.pairwise_cons.mp h1
    have p2 := List.pairwise_cons.mp h2
    have hxy : x = y := by
      rcases List.mem_cons.mp ((h x).mp (by simp)) with e | hx
      · exact e
      · rcases List.mem_cons.mp ((h y).mpr (by simp)) with e | hy
        · exact e.symm
        · have a := p2.1 x hx
          have b := p1.1 y hy
          rw [ltBytes_asymm _ _ a] at b; cases b
    subst hxy
    congr 1
    refine sorted_ext xs ys p1.2 p2.2 ?_
    intro z
    constructor
    · intro hz
      rcases List.mem_cons.mp ((h z).mp (List.mem_cons_of_mem _ hz)) with e | hz'
      · subst e; have := p1.1 z hz; rw [ltBytes_irrefl] at this; cases this
      · exact hz'
    · intro hz
      rcases List.mem_cons.mp ((h z).mpr (List.mem_cons_of_mem _ hz)) with e | hz'
      · subst e; have := p2.1 z hz; rw [ltBytes_irrefl] at this; cases this
      · exact hz'

theorem posLoop_nocrash {α : Type} (eq : α → α → Bool) (mk : α → San) (ys : List α) (total : Nat) :
    ∀ (xs : List α) (i index : Nat) (acc : List San),
      i + xs.length ≤ ys.length → index + xs.length ≤ total →
      posLoop eq mk ys total xs i index acc ≠ .crash := by
  intro xs
  induction xs with
  | nil => intro i index acc _ _; simp [posLoop]
  | cons x xs ih =>
    intro i index acc h1 h2
    simp at h1 h2
    unfold posLoop
    have hi : i < ys.length := by omega
    rw [List.getElem?_eq_getElem hi]
    simp only
    split
    · simp
    · rw [if_pos (by omega)]
      exact ih (i + 1) (index + 1) _ (by omega) (by omega)

theorem posLoop_ok {α : Type} (eq : α → α → Bool) (mk : α → San) (ys : List α) (total : Nat) :
    ∀ (xs : List α) (i index : Nat) (acc : List San) (index' : Nat) (acc' : List San),
      posLoop eq mk ys total xs i index acc = .val (some (index', acc')) →
      index' = index + xs.length ∧ acc' = acc ++ xs.map mk ∧
      ∀ j (h : j < xs.length), ∃ y, ys[i + j]? = some y ∧ eq xs[j] y = true := by
  intro xs
  induction xs with
  | nil =>
    intro i index acc index' acc' h
    simp [posLoop] at h
    simp [h.1, h.2]
  | cons x xs ih =>
    intro i index acc index' acc' h
    unfold posLoop at h
    cases hy : ys[i]? with
    | none => simp [hy] at h
    | some y =>
      simp only [hy] at h
      by_cases he : eq x y = true
      · simp [he] at h
        by_cases ht : index < total
        · rw [if_pos ht] at h
          obtain ⟨a, b, c⟩ := ih _ _ _ _ _ h
          refine ⟨by simp [a]; omega, by simp [b], ?_⟩
          intro j hj
          cases j with
          | zero => exact ⟨y, by simpa using hy, by simpa using he⟩
          | succ j =>
            have := c j (by simpa using hj)
            simpa [Nat.add_assoc, Nat.add_comm 1 j] using this
        · rw [if_neg ht] at h; cases h
      · simp [he] at h


theorem to16_idem (x : Ip) : to16 (to16 x) = to16 x := by
  unfold to16
  by_cases h : x.length = 4
  · simp [h, v4InV6Prefix]
  · simp [h]

theorem to16_nil (x : Ip) : to16 x = [] ↔ x = [] := by
  unfold to16
  by_cases h : x.length = 4
  · simp [h, v4InV6Prefix]; intro e; simp [e] at h
  · simp [h]

theorem uniqueSortedIPs_fix (l : List Ip) : ∀ y ∈ uniqueSortedIPs l, to16 y = y := by
  intro y hy
  have := (sortU_mem y _).mp hy
  obtain ⟨x, _, rfl⟩ := List.mem_map.mp this
  exact to16_idem x

structure SansOk (ids : List Identifier) (c : Csr) (l : List San) : Prop where
  noEmail : c.emails = 0
  noUri : c.uris = 0
  noWire : isWire ids = false
  dns : c.dns = uniqueSortedLowerNames (valuesOf .dns ids)
  ips : c.ips.map to16 = uniqueSortedIPs (ipsOf ids)
  csrIpsNonNil : ∀ x ∈ c.ips, x ≠ []
  orderIpsNonNil : ∀ y ∈ uniqueSortedIPs (ipsOf ids), y ≠ []
  out : l = c.dns.map San.dns ++ c.ips.map (fun x => San.ip (to16 x))

theorem sans_ok (ids : List Identifier) (c : Csr) (l : List San)
    (h : sans ids c = .val (.ok l)) : SansOk ids c l := by
  unfold sans at h
  by_cases he : c.emails > 0
  · simp [he] at h
  rw [if_neg he] at h
  by_cases hw : isWire ids = true
  · simp [hw] at h
  rw [if_neg hw] at h
  split at h
  · cases h
  simp only at h
  split at h
  · cases h
  rename_i hlen
  split at h
  · cases h
  · cases h
  rename_i index acc hd
  split at h
  · cases h
  rename_i hlen2
  split at h
  · cases h
  · cases h
  rename_i index2 acc2 hi
  split at h
  · cases h
  rename_i hu
  simp at h hu hlen hlen2
  obtain ⟨_, hacc, hdj⟩ := posLoop_ok _ _ _ _ _ _ _ _ _ _ hd
  obtain ⟨_, hacc2, hij⟩ := posLoop_ok _ _ _ _ _ _ _ _ _ _ hi
  have hdns : c.dns = uniqueSortedLowerNames (valuesOf .dns ids) := by
    apply List.ext_getElem hlen
    intro j h1 h2
    obtain ⟨y, hy, e⟩ := hdj j h1
    simp at hy e
    rw [List.getElem?_eq_getElem h2] at hy
    simp at hy
    rw [e, hy]
  have hfix := uniqueSortedIPs_fix (ipsOf ids)
  have hips : c.ips.map to16 = uniqueSortedIPs (ipsOf ids) := by
    apply List.ext_getElem (by simpa using hlen2)
    intro j h1 h2
    have h1' : j < c.ips.length := by simpa using h1
    obtain ⟨y, hy, e⟩ := hij j h1'
    simp at hy
    rw [List.getElem?_eq_getElem h2] at hy
    simp at hy
    subst hy
    simp [ipsAreEqual] at e
    simp
    rw [e.2, hfix _ (List.getElem_mem h2)]
  refine ⟨by omega, hu, by simpa using hw, hdns, hips, ?_, ?_, ?_⟩
  · intro x hx
    obtain ⟨j, hj, rfl⟩ := List.getElem_of_mem hx
    obtain ⟨y, _, e⟩ := hij j hj
    simp [ipsAreEqual] at e
    exact e.1.1
  · intro y hy
    obtain ⟨j, hj, rfl⟩ := List.getElem_of_mem hy
    obtain ⟨y', hy', e⟩ := hij j (by omega)
    simp at hy'
    rw [List.getElem?_eq_getElem hj] at hy'
    simp at hy'
    subst hy'
    simp [ipsAreEqual] at e
    exact e.1.2
  · subst h; rw [hacc2, hacc]; simp

theorem sans_total (ids : List Identifier) (c : Csr) : sans ids c ≠ .crash := by
  unfold sans
  split
  · simp
  split
  · simp
  split
  · simp
  simp only
  split
  · simp
  rename_i hlen
  simp at hlen
  have n1 := posLoop_nocrash (fun a b => a == b) San.dns (uniqueSortedLowerNames (valuesOf .dns ids))
    (c.dns.length + c.ips.length + c.uris) c.dns 0 0 [] (by omega) (by omega)
  split
  · rename_i hc; exact absurd hc n1
  · simp
  rename_i index acc hd
  split
  · simp
  rename_i hlen2
  simp at hlen2
  obtain ⟨hidx, _, _⟩ := posLoop_ok _ _ _ _ _ _ _ _ _ _ hd
  have n2 := posLoop_nocrash ipsAreEqual (fun x => San.ip (to16 x)) (uniqueSortedIPs (ipsOf ids))
    (c.dns.length + c.ips.length + c.uris) c.ips 0 index acc (by omega) (by omega)
  split
  · rename_i hc; exact absurd hc n2
  · simp
  split <;> simp


/-! finalize -/

theorem lower_nil (a : Str) : Str.lower a = [] ↔ a = [] := by
  simp [Str.lower]

theorem usl_mem (names : List Str) (x : Str) :
    x ∈ uniqueSortedLowerNames names ↔ x ≠ [] ∧ ∃ n ∈ names, Str.lower n = x := by
  unfold uniqueSortedLowerNames
  rw [sortU_mem]
  simp [List.mem_filter, List.mem_map]
  constructor
  · rintro ⟨⟨n, hn, rfl⟩, h⟩; exact ⟨by simpa [Str.lower] using h, n, hn, rfl⟩
  · rintro ⟨h, n, hn, rfl⟩; exact ⟨⟨n, hn, rfl⟩, by simpa [Str.lower] using h⟩

theorem usi_mem (ips : List Ip) (x : Ip) :
    x ∈ uniqueSortedIPs ips ↔ ∃ i ∈ ips, to16 i = x := by
  unfold uniqueSortedIPs
  rw [sortU_mem]; simp [List.mem_map]

/-- the fingerprint gate of Finalize -/
def fpGate (azFps : List Str) (csrFp : Option Str) : Prop :=
  firstFingerprint azFps ≠ [] → csrFp = some (firstFingerprint azFps)

theorem accept_inv (ids : List Identifier) (azFps : List Str) (csrFp : Option Str) (c : Csr)
    (a : Bool) (cn : Str) (l : List San)
    (h : finalizeNames ids azFps csrFp c = .val (.accept a cn l)) :
    fpGate azFps csrFp ∧ isWire ids = false ∧ cn = c.cn ∧
    ((a = true ∧ ∃ p, firstPid ids = some p ∧ p.value ≠ [] ∧ l = [San.pid p.value] ∧ (c.cn = [] ∨ c.cn = p.value)) ∨
     (a = false ∧ (∀ p, firstPid ids = some p → p.value = [] ∧ c.cn = []) ∧ sans ids (canonicalize c) = .val (.ok l))) := by
  unfold finalizeNames at h
  simp only at h
  split at h
  · cases h
  rename_i g1
  split at h
  · cases h
  rename_i g2
  have hg : fpGate azFps csrFp := by
    intro hne
    cases hc : csrFp with
    | none => exact absurd ⟨hne, hc⟩ g1
    | some v =>
      by_cases e : some v = some (firstFingerprint azFps)
      · exact e
      · exact absurd ⟨hne, by rw [hc]; exact e⟩ g2
  split at h
  · cases h
  rename_i hw
  have hcn : (canonicalize c).cn = c.cn := by simp [canonicalize]
  rw [hcn] at h
  refine ⟨hg, by simpa using hw, ?_⟩
  have hsans : finOfSans c.cn (sans ids (canonicalize c)) = .val (.accept a cn l) →
      a = false ∧ cn = c.cn ∧ sans ids (canonicalize c) = .val (.ok l) := by
    intro h
    cases hs : sans ids (canonicalize c) with
    | crash => simp [hs, finOfSans] at h
    | val v =>
      cases v <;> simp [hs, finOfSans] at h
      exact ⟨h.1, h.2.1.symm, by rw [h.2.2]⟩
  cases hp : firstPid ids with
  | none =>
    simp [hp] at h
    obtain ⟨h1, h2, h3⟩ := hsans h
    exact ⟨h2, .inr ⟨h1, by simp, h3⟩⟩
  | some p =>
    simp [hp] at h
    split at h
    · cases h
    rename_i hcn2
    split at h
    · rename_i hv
      obtain ⟨h1, h2, h3⟩ := hsans h
      refine ⟨h2, .inr ⟨h1, ?_, h3⟩⟩
      intro q hq
      cases hq
      refine ⟨hv, ?_⟩
      by_cases e : c.cn = []
      · exact e
      · exact absurd ⟨e, by rw [hv]; exact e⟩ hcn2
    · rename_i hv
      simp at h
      refine ⟨h.2.1.symm, .inl ⟨h.1, p, rfl, hv, h.2.2.symm, ?_⟩⟩
      by_cases e : c.cn = []
      · exact .inl e
      · exact .inr (by
          by_cases e2 : c.cn = p.value
          · exact e2
          · exact absurd ⟨e, e2⟩ hcn2)


theorem canon_dns_mem (c : Csr) (x : Str) :
    x ∈ (canonicalize c).dns ↔
      x ≠ [] ∧ ((∃ n ∈ c.dns, Str.lower n = x) ∨ (c.cn ≠ [] ∧ c.cnIp = [] ∧ Str.lower c.cn = x)) := by
  simp only [canonicalize]
  rw [usl_mem]
  by_cases h : c.cn ≠ [] ∧ c.cnIp = []
  · rw [if_pos h]
    simp only [List.mem_append, List.mem_singleton]
    constructor
    · rintro ⟨hx, n, hn | rfl, e⟩
      · exact ⟨hx, .inl ⟨n, hn, e⟩⟩
      · exact ⟨hx, .inr ⟨h.1, h.2, e⟩⟩
    · rintro ⟨hx, ⟨n, hn, e⟩ | ⟨_, _, e⟩⟩
      · exact ⟨hx, n, .inl hn, e⟩
      · exact ⟨hx, c.cn, .inr rfl, e⟩
  · rw [if_neg h]
    constructor
    · rintro ⟨hx, n, hn, e⟩; exact ⟨hx, .inl ⟨n, hn, e⟩⟩
    · rintro ⟨hx, ⟨n, hn, e⟩ | ⟨a, b, _⟩⟩
      · exact ⟨hx, n, hn, e⟩
      · exact absurd ⟨a, b⟩ h

theorem canon_ips_mem (c : Csr) (x : Ip) :
    x ∈ (canonicalize c).ips ↔
      (∃ i ∈ c.ips, to16 i = x) ∨ (c.cn ≠ [] ∧ c.cnIp ≠ [] ∧ to16 c.cnIp = x) := by
  simp only [canonicalize]
  rw [usi_mem]
  by_cases h : c.cn ≠ [] ∧ c.cnIp ≠ []
  · rw [if_pos h]
    simp only [List.mem_append, List.mem_singleton]
    constructor
    · rintro ⟨i, hi | rfl, e⟩
      · exact .inl ⟨i, hi, e⟩
      · exact .inr ⟨h.1, h.2, e⟩
    · rintro (⟨i, hi, e⟩ | ⟨_, _, e⟩)
      · exact ⟨i, .inl hi, e⟩
      · exact ⟨c.cnIp, .inr rfl, e⟩
  · rw [if_neg h]
    constructor
    · rintro ⟨i, hi, e⟩; exact .inl ⟨i, hi, e⟩
    · rintro (⟨i, hi, e⟩ | ⟨a, b, _⟩)
      · exact ⟨i, hi, e⟩
      · exact absurd ⟨a, b⟩ h

/-- What an accepted, non-attested finalization hands to the leaf template. -/
structure LeafNames (ids : List Identifier) (c : Csr) (cn : Str) (l : List San) : Prop where
  /-- the SAN list is a function of the order's identifiers alone -/
  list : l = (uniqueSortedLowerNames (valuesOf .dns ids)).map San.dns ++
             (uniqueSortedIPs (ipsOf ids)).map San.ip
  /-- the canonical CSR names are exactly the canonical order names -/
  csrDns : (canonicalize c).dns = uniqueSortedLowerNames (valuesOf .dns ids)
  csrIps : (canonicalize c).ips = uniqueSortedIPs (ipsOf ids)
  ipParsed : ∀ id ∈ ids, id.typ = .ip → id.ip ≠ []
  cnRaw : cn = c.cn
  noEmail : c.emails = 0
  noUri : c.uris = 0
  noWire : isWire ids = false
  noFirstPid : ∀ p, firstPid ids = some p → p.value = [] ∧ c.cn = []

theorem valuesOf_mem (t : IdType) (ids : List Identifier) (v : Str) :
    v ∈ valuesOf t ids ↔ ∃ id ∈ ids, id.typ = t ∧ id.value = v := by
  simp [valuesOf, List.mem_map, List.mem_filter, and_assoc]

theorem ipsOf_mem (ids : List Identifier) (v : Ip) :
    v ∈ ipsOf ids ↔ ∃ id ∈ ids, id.typ = .ip ∧ id.ip = v := by
  simp [ipsOf, List.mem_map, List.mem_filter, and_assoc]

theorem leafNames_of_accept (ids : List Identifier) (azFps : List Str) (csrFp : Option Str) (c : Csr)
    (cn : Str) (l : List San)
    (h : finalizeNames ids azFps csrFp c = .val (.accept false cn l)) : LeafNames ids c cn l := by
  obtain ⟨_, hw, hcn, hcase⟩ := accept_inv _ _ _ _ _ _ _ h
  rcases hcase with ⟨ht, _⟩ | ⟨_, hp, hs⟩
  · cases ht
  have ok := sans_ok _ _ _ hs
  have hfix : (canonicalize c).ips.map to16 = (canonicalize c).ips := by
    have : ∀ y ∈ (canonicalize c).ips, to16 y = y := by
      intro y hy; exact uniqueSortedIPs_fix _ y (by simpa [canonicalize] using hy)
    exact List.map_congr_left this |>.trans (List.map_id _)
  have hips : (canonicalize c).ips = uniqueSortedIPs (ipsOf ids) := by rw [← hfix]; exact ok.ips
  refine ⟨?_, ok.dns, hips, ?_, hcn, by simpa [canonicalize] using ok.noEmail,
    by simpa [canonicalize] using ok.noUri, hw, hp⟩
  · rw [ok.out, ok.dns, ← ok.ips, List.map_map]; rfl
  · intro id hid ht hnil
    have : to16 id.ip ∈ uniqueSortedIPs (ipsOf ids) := (usi_mem _ _).mpr ⟨id.ip, (ipsOf_mem _ _).mpr ⟨id, hid, ht, rfl⟩, rfl⟩
    exact ok.orderIpsNonNil _ this ((to16_nil _).mpr hnil)


/-! ## property theorems -/

/-- **finalize_names.** An accepted finalization of an order without permanent identifier gives
    the leaf template: as DNS names exactly the order's DNS identifiers (lower-cased), as IP
    addresses exactly the order's IP identifiers (by value, every one of them a parsed address),
    no other kind of name; the common name is the CSR's and is empty or one of those names;
    the CSR had no e-mail address and no URI. -/
theorem finalize_names (ids : List Identifier) (azFps : List Str) (csrFp : Option Str) (c : Csr)
    (cn : Str) (l : List San)
    (h : finalizeNames ids azFps csrFp c = .val (.accept false cn l)) :
    (∀ x, San.dns x ∈ l ↔ x ≠ [] ∧ ∃ id ∈ ids, id.typ = .dns ∧ Str.lower id.value = x) ∧
    (∀ x, San.ip x ∈ l ↔ ∃ id ∈ ids, id.typ = .ip ∧ id.ip ≠ [] ∧ to16 id.ip = x) ∧
    (∀ v, San.pid v ∉ l) ∧
    cn = c.cn ∧
    (cn = [] ∨ (c.cnIp = [] ∧ San.dns (Str.lower cn) ∈ l) ∨ (c.cnIp ≠ [] ∧ San.ip (to16 c.cnIp) ∈ l)) ∧
    c.emails = 0 ∧ c.uris = 0 := by
  have L := leafNames_of_accept _ _ _ _ _ _ h
  have hd : ∀ x, San.dns x ∈ l ↔ x ∈ uniqueSortedLowerNames (valuesOf .dns ids) := by
    intro x; rw [L.list]; simp
  have hi : ∀ x, San.ip x ∈ l ↔ x ∈ uniqueSortedIPs (ipsOf ids) := by
    intro x; rw [L.list]; simp
  refine ⟨?_, ?_, ?_, L.cnRaw, ?_, L.noEmail, L.noUri⟩
  · intro x
    rw [hd, usl_mem]
    constructor
    · rintro ⟨hx, n, hn, e⟩
      obtain ⟨id, hid, ht, hv⟩ := (valuesOf_mem _ _ _).mp hn
      exact ⟨hx, id, hid, ht, by rw [hv]; exact e⟩
    · rintro ⟨hx, id, hid, ht, e⟩
      exact ⟨hx, id.value, (valuesOf_mem _ _ _).mpr ⟨id, hid, ht, rfl⟩, e⟩
  · intro x
    rw [hi, usi_mem]
    constructor
    · rintro ⟨i, hin, e⟩
      obtain ⟨id, hid, ht, hv⟩ := (ipsOf_mem _ _).mp hin
      exact ⟨id, hid, ht, L.ipParsed id hid ht, by rw [hv]; exact e⟩
    · rintro ⟨id, hid, ht, _, e⟩
      exact ⟨id.ip, (ipsOf_mem _ _).mpr ⟨id, hid, ht, rfl⟩, e⟩
  · intro v; rw [L.list]; simp
  · rw [L.cnRaw]
    by_cases e : c.cn = []
    · exact .inl e
    · right
      by_cases e2 : c.cnIp = []
      · left
        refine ⟨e2, (hd _).mpr ?_⟩
        rw [← L.csrDns, canon_dns_mem]
        exact ⟨by simpa [Str.lower] using e, .inr ⟨e, e2, rfl⟩⟩
      · right
        refine ⟨e2, (hi _).mpr ?_⟩
        rw [← L.csrIps, canon_ips_mem]
        exact .inr ⟨e, e2, rfl⟩

/-- A CSR that does not name exactly the order's identifiers. -/
inductive Mismatch (ids : List Identifier) (c : Csr) : Prop where
  /-- a DNS SAN that is no identifier of the order -/
  | addDns (n : Str) (h : n ∈ c.dns) (hne : n ≠ [])
      (hno : ∀ id ∈ ids, id.typ = .dns → Str.lower id.value ≠ Str.lower n)
  /-- an IP SAN that is no identifier of the order -/
  | addIp (i : Ip) (h : i ∈ c.ips) (hno : ∀ id ∈ ids, id.typ = .ip → to16 id.ip ≠ to16 i)
  /-- a common name (not an IP) that is no DNS identifier -/
  | cnDns (hcn : c.cn ≠ []) (hip : c.cnIp = [])
      (hno : ∀ id ∈ ids, id.typ = .dns → Str.lower id.value ≠ Str.lower c.cn)
  /-- a common name that parses as an IP and is no IP identifier -/
  | cnIp (hcn : c.cn ≠ []) (hip : c.cnIp ≠ [])
      (hno : ∀ id ∈ ids, id.typ = .ip → to16 id.ip ≠ to16 c.cnIp)
  /-- a DNS identifier that is neither a SAN nor the common name -/
  | omitDns (id : Identifier) (h : id ∈ ids) (ht : id.typ = .dns) (hne : id.value ≠ [])
      (hno : ∀ n ∈ c.dns, Str.lower n ≠ Str.lower id.value)
      (hcn : ¬(c.cnIp = [] ∧ Str.lower c.cn = Str.lower id.value))
  /-- an IP identifier that is neither a SAN nor the common name -/
  | omitIp (id : Identifier) (h : id ∈ ids) (ht : id.typ = .ip)
      (hno : ∀ i ∈ c.ips, to16 i ≠ to16 id.ip)
      (hcn : ¬(c.cn ≠ [] ∧ c.cnIp ≠ [] ∧ to16 c.cnIp = to16 id.ip))
  | email (h : c.emails > 0)
  | uri (h : c.uris > 0)

/-- **add_or_omit_refused** (orders without permanent identifier): a CSR that adds or omits an
    identifier, in its SANs or through its common name, or carries an e-mail address or URI,
    is never accepted. -/
theorem add_or_omit_refused (ids : List Identifier) (azFps : List Str) (csrFp : Option Str) (c : Csr)
    (m : Mismatch ids c) (cn : Str) (l : List San) :
    finalizeNames ids azFps csrFp c ≠ .val (.accept false cn l) := by
  intro h
  have L := leafNames_of_accept _ _ _ _ _ _ h
  have hd : ∀ x, x ∈ (canonicalize c).dns ↔ x ≠ [] ∧ ∃ id ∈ ids, id.typ = .dns ∧ Str.lower id.value = x := by
    intro x
    rw [L.csrDns, usl_mem]
    constructor
    · rintro ⟨hx, n, hn, e⟩
      obtain ⟨id, hid, ht, hv⟩ := (valuesOf_mem _ _ _).mp hn
      exact ⟨hx, id, hid, ht, by rw [hv]; exact e⟩
    · rintro ⟨hx, id, hid, ht, e⟩
      exact ⟨hx, id.value, (valuesOf_mem _ _ _).mpr ⟨id, hid, ht, rfl⟩, e⟩
  have hi : ∀ x, x ∈ (canonicalize c).ips ↔ ∃ id ∈ ids, id.typ = .ip ∧ to16 id.ip = x := by
    intro x
    rw [L.csrIps, usi_mem]
    constructor
    · rintro ⟨i, hin, e⟩
      obtain ⟨id, hid, ht, hv⟩ := (ipsOf_mem _ _).mp hin
      exact ⟨id, hid, ht, by rw [hv]; exact e⟩
    · rintro ⟨id, hid, ht, e⟩
      exact ⟨id.ip, (ipsOf_mem _ _).mpr ⟨id, hid, ht, rfl⟩, e⟩
  cases m with
  | addDns n hn hne hno =>
    have : Str.lower n ∈ (canonicalize c).dns :=
      (canon_dns_mem _ _).mpr ⟨by simpa [Str.lower] using hne, .inl ⟨n, hn, rfl⟩⟩
    obtain ⟨_, id, hid, ht, e⟩ := (hd _).mp this
    exact hno id hid ht e
  | addIp i hin hno =>
    have : to16 i ∈ (canonicalize c).ips := (canon_ips_mem _ _).mpr (.inl ⟨i, hin, rfl⟩)
    obtain ⟨id, hid, ht, e⟩ := (hi _).mp this
    exact hno id hid ht e
  | cnDns hcn hip hno =>
    have : Str.lower c.cn ∈ (canonicalize c).dns :=
      (canon_dns_mem _ _).mpr ⟨by simpa [Str.lower] using hcn, .inr ⟨hcn, hip, rfl⟩⟩
    obtain ⟨_, id, hid, ht, e⟩ := (hd _).mp this
    exact hno id hid ht e
  | cnIp hcn hip hno =>
    have : to16 c.cnIp ∈ (canonicalize c).ips := (canon_ips_mem _ _).mpr (.inr ⟨hcn, hip, rfl⟩)
    obtain ⟨id, hid, ht, e⟩ := (hi _).mp this
    exact hno id hid ht e
  | omitDns id hid ht hne hno hcn =>
    have : Str.lower id.value ∈ (canonicalize c).dns :=
      (hd _).mpr ⟨by simpa [Str.lower] using hne, id, hid, ht, rfl⟩
    rcases (canon_dns_mem _ _).mp this with ⟨_, ⟨n, hn, e⟩ | ⟨_, b, e⟩⟩
    · exact hno n hn e
    · exact hcn ⟨b, e⟩
  | omitIp id hid ht hno hcn =>
    have : to16 id.ip ∈ (canonicalize c).ips := (hi _).mpr ⟨id, hid, ht, rfl⟩
    rcases (canon_ips_mem _ _).mp this with ⟨i, hin, e⟩ | ⟨a, b, e⟩
    · exact hno i hin e
    · exact hcn ⟨a, b, e⟩
  | email he => have := L.noEmail; omega
  | uri hu => have := L.noUri; omega

/-- **attested.** An accepted finalization of an order with a permanent identifier uses the
    attested template, with the first permanent identifier as the only name, a common name that
    is empty or that identifier; and whenever an authorization of the order carries an attested
    key fingerprint, the CSR key has that fingerprint (this half holds for every accepted
    finalization). -/
theorem attested (ids : List Identifier) (azFps : List Str) (csrFp : Option Str) (c : Csr)
    (a : Bool) (cn : Str) (l : List San)
    (h : finalizeNames ids azFps csrFp c = .val (.accept a cn l)) :
    (firstFingerprint azFps ≠ [] → csrFp = some (firstFingerprint azFps)) ∧
    (a = true ↔ ∃ p, firstPid ids = some p ∧ p.value ≠ []) ∧
    (a = true → ∃ p, firstPid ids = some p ∧ p.value ≠ [] ∧ l = [San.pid p.value] ∧
        cn = c.cn ∧ (cn = [] ∨ cn = p.value)) := by
  obtain ⟨hg, _, hcn, hcase⟩ := accept_inv _ _ _ _ _ _ _ h
  refine ⟨hg, ?_, ?_⟩
  · rcases hcase with ⟨ht, p, hp, hv, _⟩ | ⟨hf, hp, _⟩
    · exact ⟨fun _ => ⟨p, hp, hv⟩, fun _ => ht⟩
    · constructor
      · intro ht; rw [hf] at ht; cases ht
      · rintro ⟨p, hp', hv⟩; exact absurd (hp p hp').1 hv
  · intro ht
    rcases hcase with ⟨_, p, hp, hv, hl, hc⟩ | ⟨hf, _, _⟩
    · exact ⟨p, hp, hv, hl, hcn, by rw [hcn]; exact hc⟩
    · rw [hf] at ht; cases ht

/-- **finalizeNames_total**: no identifier list and no CSR makes the name handling abort
    (index expressions of `sans` stay in range). -/
theorem finalizeNames_total (ids : List Identifier) (azFps : List Str) (csrFp : Option Str) (c : Csr) :
    finalizeNames ids azFps csrFp c ≠ .crash := by
  have key : ∀ cn, finOfSans cn (sans ids (canonicalize c)) ≠ .crash := by
    intro cn
    have := sans_total ids (canonicalize c)
    cases hs : sans ids (canonicalize c) with
    | crash => exact absurd hs this
    | val v => cases v <;> simp [finOfSans]
  unfold finalizeNames
  simp only
  repeat' split
  all_goals first | exact key _ | simp

/-- **validate_ok**: what `NewOrderRequest.Validate` guarantees about an accepted identifier list. -/
theorem validate_ok (ids : List Identifier) (h : validate ids = .ok) :
    ids ≠ [] ∧ ∀ id ∈ ids,
      (id.typ = .dns ∧ id.sanitizeOk = true) ∨ (id.typ = .ip ∧ id.ip ≠ []) ∨ (id.typ = .pid ∧ id.value ≠ []) := by
  unfold validate at h
  split at h
  · cases h
  rename_i hne
  split at h
  · cases h
  rename_i hany
  split at h
  · cases h
  rename_i hw
  refine ⟨hne, ?_⟩
  intro id hid
  simp at hany
  have := hany id hid
  simp [isWire] at hw
  have w := hw id hid
  cases ht : id.typ <;> simp [ht] at this w ⊢
  · exact this
  · exact this
  · exact this

/-- for an identifier list that passed `Validate`, `sans` answers a list or "bad CSR", never a
    server error -/
theorem validated_sans (ids : List Identifier) (c : Csr) (h : validate ids = .ok) :
    sans ids c = .val .badCSR ∨ ∃ l, sans ids c = .val (.ok l) := by
  obtain ⟨_, hall⟩ := validate_ok ids h
  have hw : isWire ids = false := by
    simp [isWire]
    intro id hid
    rcases hall id hid with ⟨t, _⟩ | ⟨t, _⟩ | ⟨t, _⟩ <;> simp [t]
  have ho : ids.any (·.typ = .other) = false := by
    simp
    intro id hid
    rcases hall id hid with ⟨t, _⟩ | ⟨t, _⟩ | ⟨t, _⟩ <;> simp [t]
  have nt := sans_total ids c
  cases hs : sans ids c with
  | crash => exact absurd hs nt
  | val v =>
    cases v with
    | ok l => exact .inr ⟨l, rfl⟩
    | badCSR => exact .inl rfl
    | ise =>
      exfalso
      unfold sans at hs
      simp only [hw, ho] at hs
      repeat' split at hs
      all_goals simp_all
    | unmodelled =>
      exfalso
      unfold sans at hs
      simp only [hw, ho] at hs
      repeat' split at hs
      all_goals simp_all


theorem sorted_nodup (l : List (List Nat)) (h : Sorted l) : l.Nodup := by
  unfold Sorted at h
  refine List.Pairwise.imp ?_ h
  intro a b hab e
  subst e
  rw [ltBytes_irrefl] at hab; cases hab

/-- **sort_unique (names).** `uniqueSortedLowerNames` returns the strictly increasing (hence
    duplicate-free) list of the non-empty lower-cased input names, and that list is the only
    one with these two properties — so the Go implementation (map, collect in random order,
    sort.Strings) is pinned down by them. -/
theorem uniqueSortedLowerNames_spec (names : List Str) :
    Sorted (uniqueSortedLowerNames names) ∧ (uniqueSortedLowerNames names).Nodup ∧
    (∀ x, x ∈ uniqueSortedLowerNames names ↔ x ≠ [] ∧ ∃ n ∈ names, Str.lower n = x) ∧
    ∀ l', Sorted l' → (∀ x, x ∈ l' ↔ x ≠ [] ∧ ∃ n ∈ names, Str.lower n = x) →
      l' = uniqueSortedLowerNames names := by
  have hs : Sorted (uniqueSortedLowerNames names) := sortU_sorted _
  refine ⟨hs, sorted_nodup _ hs, usl_mem names, ?_⟩
  intro l' hl' hm
  exact sorted_ext _ _ hl' hs (fun z => by rw [hm, usl_mem])

/-- **sort_unique (addresses).** -/
theorem uniqueSortedIPs_spec (ips : List Ip) :
    Sorted (uniqueSortedIPs ips) ∧ (uniqueSortedIPs ips).Nodup ∧
    (∀ x, x ∈ uniqueSortedIPs ips ↔ ∃ i ∈ ips, to16 i = x) ∧
    ∀ l', Sorted l' → (∀ x, x ∈ l' ↔ ∃ i ∈ ips, to16 i = x) → l' = uniqueSortedIPs ips := by
  have hs : Sorted (uniqueSortedIPs ips) := sortU_sorted _
  refine ⟨hs, sorted_nodup _ hs, usi_mem ips, ?_⟩
  intro l' hl' hm
  exact sorted_ext _ _ hl' hs (fun z => by rw [hm, usi_mem])

/-- `add_or_omit_refused` at full strength (for every order) is false as the code stands: an
    order with a permanent identifier accepts a CSR that carries a foreign DNS name and an
    e-mail address (they are dropped, not refused). -/
theorem add_or_omit_refused_attested_counterexample :
    ∃ ids azFps csrFp c a cn l, Mismatch ids c ∧ finalizeNames ids azFps csrFp c = .val (.accept a cn l) :=
  ⟨[{ typ := .pid, value := s "dev1" }], [s "fp"], some (s "fp"),
   { cn := [], cnIp := [], dns := [s "evil.example.net"], ips := [], emails := 1, uris := 0 },
   true, [], [San.pid (s "dev1")], .email (by decide), by decide⟩

/-- **add_or_omit_refused_partial**: with the extra hypothesis that the order has no (non-empty)
    permanent identifier, a mismatching CSR is never accepted in any form. -/
theorem add_or_omit_refused_partial (ids : List Identifier) (azFps : List Str) (csrFp : Option Str)
    (c : Csr) (m : Mismatch ids c) (hp : ∀ p, firstPid ids = some p → p.value = [])
    (a : Bool) (cn : Str) (l : List San) :
    finalizeNames ids azFps csrFp c ≠ .val (.accept a cn l) := by
  intro h
  cases a with
  | false => exact add_or_omit_refused ids azFps csrFp c m cn l h
  | true =>
    obtain ⟨p, hp', hv, _⟩ := (attested _ _ _ _ _ _ _ h).2.2 rfl
    exact hv (hp p hp')

/-- "The certificate covers exactly the order's identifiers" is false for orders that mix a
    permanent identifier with other identifiers (`NewOrderRequest.Validate` admits them): the DNS
    identifier is dropped from the accepted name list. -/
theorem mixed_order_drops_identifiers :
    ∃ ids azFps csrFp c cn l, validate ids = .ok ∧
      finalizeNames ids azFps csrFp c = .val (.accept true cn l) ∧
      ∃ id ∈ ids, id.typ = .dns ∧ San.dns (Str.lower id.value) ∉ l :=
  ⟨[{ typ := .pid, value := s "dev1" }, { typ := .dns, value := s "a.example.com" }],
   [s "fp", []], some (s "fp"),
   { cn := [], cnIp := [], dns := [s "a.example.com"], ips := [], emails := 0, uris := 0 },
   [], [San.pid (s "dev1")], by decide, by decide,
   ⟨{ typ := .dns, value := s "a.example.com" }, by decide, rfl, by decide⟩⟩

/-- the hypotheses of `finalize_names` are met by a non-trivial case: mixed-case duplicate DNS
    identifiers, an IPv4 identifier written as IPv4-in-IPv6, the name only in the common name -/
example :
    finalizeNames
      [{ typ := .dns, value := s "A.example.com" }, { typ := .dns, value := s "a.EXAMPLE.com" },
       { typ := .ip, value := s "::ffff:10.0.0.1", ip := v4InV6Prefix ++ [10, 0, 0, 1] }]
      [[], [], []] (some (s "k"))
      { cn := s "a.example.COM", cnIp := [], dns := [], ips := [[10, 0, 0, 1]], emails := 0, uris := 0 }
    = .val (.accept false (s "a.example.COM")
        [San.dns (s "a.example.com"), San.ip (v4InV6Prefix ++ [10, 0, 0, 1])]) := by decide

/-- `Mismatch` is inhabited by each kind of deviation; e.g. an omitted identifier -/
example : Mismatch [{ typ := .dns, value := s "a.example.com" }, { typ := .dns, value := s "b.example.com" }]
    { cn := [], cnIp := [], dns := [s "a.example.com"], ips := [], emails := 0, uris := 0 } :=
  .omitDns { typ := .dns, value := s "b.example.com" } (by decide) rfl (by decide) (by decide) (by decide)

/-- `attested` with `a = true` is met by the ordinary device-attest order -/
example :
    finalizeNames [{ typ := .pid, value := s "dev1" }] [s "fp"] (some (s "fp"))
      { cn := s "dev1", cnIp := [], dns := [], ips := [], emails := 0, uris := 0 }
    = .val (.accept true (s "dev1") [San.pid (s "dev1")]) := by decide

/-- and the attested key is enforced: another CSR key is refused -/
example :
    finalizeNames [{ typ := .pid, value := s "dev1" }] [s "fp"] (some (s "other"))
      { cn := s "dev1", cnIp := [], dns := [], ips := [], emails := 0, uris := 0 }
    = .val .unauthorized := by decide

example : validate [{ typ := .dns, value := s "*.example.com" }, { typ := .ip, value := s "10.0.0.1", ip := v4InV6Prefix ++ [10, 0, 0, 1] }] = .ok := by decide

/-! ## 5. api.NewOrder: one authorization per identifier -/

/-- **order_authz_cover**: `api.NewOrder` stores exactly one authorization per order identifier, in
    order; the i-th authorization backs the i-th identifier (same type, same name, same wildcard
    flag), and a wildcard authorization offers dns-01 only. With C10's
    `finalizable_order_authorizations` (a finalizable order's authorizations are all valid and owned
    by the order's account) this is "each identifier is backed by a valid authorization of the same
    account". -/
theorem order_authz_cover (enabled : List ChalType) (ids : List Identifier) :
    (newOrderAuthzs enabled ids).length = ids.length ∧
    ∀ (i : Nat) (id : Identifier), ids[i]? = some id →
      ∃ a, (newOrderAuthzs enabled ids)[i]? = some a ∧ backs a id = true ∧
        a.value = trimIfWildcard id.value ∧
        (a.wildcard = true → ∀ c ∈ a.chals, c = .dns01 ∨ a.typ ≠ .dns) := by
  refine ⟨by simp [newOrderAuthzs], ?_⟩
  intro i id h
  refine ⟨newAuthorization enabled id, by simp [newOrderAuthzs, h], by simp [backs, newAuthorization], rfl, ?_⟩
  intro hw c hc
  simp [newAuthorization] at hw hc
  cases ht : id.typ <;> simp [newAuthorization, challengeTypes, ht, hw] at hc ⊢
  exact hc.1

/-- a base name's authorization does not back the wildcard name and vice versa: sharing one
    authorization between `example.com` and `*.example.com` leaves one of them unbacked -/
theorem backs_wildcard_distinct (a : AuthzSpec) (x y : Identifier)
    (hx : backs a x = true) (hy : backs a y = true) : isWildcard x.value = isWildcard y.value := by
  simp [backs] at hx hy
  rw [← hx.1.2, ← hy.1.2]

example : backs (newAuthorization [.dns01, .http01] { typ := .dns, value := s "example.com" })
    { typ := .dns, value := s "*.example.com" } = false := by decide
example : newOrderAuthzs [.dns01, .http01, .tlsalpn01] [{ typ := .dns, value := s "a.io" }, { typ := .dns, value := s "*.a.io" }] =
    [⟨.dns, s "a.io", false, [.dns01, .http01, .tlsalpn01]⟩, ⟨.dns, s "a.io", true, [.dns01]⟩] := by decide

end Verif.AcmeSans
