import Verif.Model.AcmeSans
/-!
  C13 — an ACME certificate covers exactly the validated identifiers of its order.

  All statements are about `Verif.AcmeSans` (the model of acme.canonicalize, (*Order).sans, the
  name part of (*Order).Finalize and api.NewOrderRequest.Validate, tied to the code by the C13
  correspondence check, which also inspects the leaf a real authority issues).

  Sections: 1. order on byte strings and `sortU`; 2. the comparison loops of `sans`;
  3. what an accepted finalization means; 4. the property theorems.
  "Backed by a valid authorization of the same account" is C10 (`order_ready_cause`,
  `authz_owner`): an order is finalized only from `ready`.
-/
namespace Verif.AcmeSans
open Verif

/-! ## 1. byte order, `sortU` -/

theorem ltBytes_irrefl (a : List Nat) : ltBytes a a = false := by
  induction a with
  | nil => rfl
  | cons x xs ih => simp [ltBytes, ih]

theorem ltBytes_trans : ∀ (a b c : List Nat), ltBytes a b = true → ltBytes b c = true → ltBytes a c = true
  | [], [], _, h, _ => by simp [ltBytes] at h
  | [], _ :: _, [], _, h => by simp [ltBytes] at h
  | [], _ :: _, _ :: _, _, _ => by simp [ltBytes]
  | _ :: _, [], _, h, _ => by simp [ltBytes] at h
  | _ :: _, _ :: _, [], _, h => by simp [ltBytes] at h
  | x :: xs, y :: ys, z :: zs, h1, h2 => by
    simp [ltBytes] at h1 h2 ⊢
    rcases h1 with h1 | ⟨e1, h1⟩
    · rcases h2 with h2 | ⟨e2, _⟩
      · left; omega
      · left; omega
    · rcases h2 with h2 | ⟨e2, h2⟩
      · left; omega
      · right; exact ⟨by omega, ltBytes_trans xs ys zs h1 h2⟩

theorem ltBytes_total : ∀ (a b : List Nat), ltBytes a b = false → a ≠ b → ltBytes b a = true
  | [], [], _, h => by simp at h
  | [], _ :: _, h, _ => by simp [ltBytes] at h
  | _ :: _, [], _, _ => by simp [ltBytes]
  | x :: xs, y :: ys, h, hne => by
    simp [ltBytes] at h ⊢
    rcases h with ⟨h1, h2⟩
    by_cases e : x = y
    · right
      refine ⟨e.symm, ltBytes_total xs ys ?_ ?_⟩
      · cases hh : ltBytes xs ys
        · rfl
        · exact absurd hh (by simpa using h2 e)
      · intro exy; exact hne (by rw [e, exy])
    · left; omega

theorem ltBytes_asymm (a b : List Nat) (h : ltBytes a b = true) : ltBytes b a = false := by
  cases hb : ltBytes b a
  · rfl
  · have := ltBytes_trans a b a h hb
    rw [ltBytes_irrefl] at this; cases this

/-- strictly increasing -/
def Sorted (l : List (List Nat)) : Prop := l.Pairwise (fun a b => ltBytes a b = true)

theorem insertU_mem (x z : List Nat) (l : List (List Nat)) : z ∈ insertU x l ↔ z = x ∨ z ∈ l := by
  induction l with
  | nil => simp [insertU]
  | cons y ys ih =>
    unfold insertU
    split
    · simp
    · split
      · rename_i h; subst h; simp
      · simp [ih]; constructor
        · rintro (h | h | h) <;> simp [h]
        · rintro (h | h | h) <;> simp [h]

theorem insertU_sorted (x : List Nat) (l : List (List Nat)) (h : Sorted l) : Sorted (insertU x l) := by
  induction l with
  | nil => simp [insertU, Sorted]
  | cons y ys ih =>
    unfold insertU
    have hy := List.pairwise_cons.mp h
    split
    · rename_i hlt
      refine List.pairwise_cons.mpr ⟨?_, h⟩
      intro z hz
      rcases List.mem_cons.mp hz with rfl | hz
      · exact hlt
      · exact ltBytes_trans _ _ _ hlt (hy.1 z hz)
    · split
      · exact h
      · rename_i hnlt hne
        refine List.pairwise_cons.mpr ⟨?_, ih hy.2⟩
        intro z hz
        rcases (insertU_mem x z ys).mp hz with rfl | hz
        · exact ltBytes_total _ _ (by simpa using hnlt) hne
        · exact hy.1 z hz

theorem sortU_mem (z : List Nat) (l : List (List Nat)) : z ∈ sortU l ↔ z ∈ l := by
  induction l with
  | nil => simp [sortU]
  | cons y ys ih =>
    have : sortU (y :: ys) = insertU y (sortU ys) := rfl
    rw [this, insertU_mem, ih]; simp

theorem sortU_sorted (l : List (List Nat)) : Sorted (sortU l) := by
  induction l with
  | nil => simp [sortU, Sorted]
  | cons y ys ih => exact insertU_sorted y _ ih

/-- a strictly increasing list is determined by its elements -/
theorem sorted_ext : ∀ (l₁ l₂ : List (List Nat)), Sorted l₁ → Sorted l₂ → (∀ z, z ∈ l₁ ↔ z ∈ l₂) → l₁ = l₂
  | [], [], _, _, _ => rfl
  | [], y :: ys, _, _, h => by have := (h y).mpr (by simp); simp at this
  | x :: xs, [], _, _, h => by have := (h x).mp (by simp); simp at this
  | x :: xs, y :: ys, h1, h2, h => by
    have p1 := List.pairwise_cons.mp h1
    have p2 := List.pairwise_cons.mp h2
    have hxy : x = y := by
      rcases List.mem_cons.mp ((h x).mp (by simp)) with e | hx
      · exact e
      · rcases List.mem_cons.mp ((h y).mpr (by simp)) with e | hy
        · exact e.symm
        · have a := p2.1 x hx
          have b := p1.1 y hy
          rw [ltBytes_asymm _ _ a] at b; cases b
    subst hxy
    congr 1
    refine sorted_ext xs ys p1.2 p2.2 ?_
    intro z
    constructor
    · intro hz
      rcases List.mem_cons.mp ((h z).mp (List.mem_cons_of_mem _ hz)) with e | hz'
      · subst e; have := p1.1 z hz; rw [ltBytes_irrefl] at this; cases this
      · exact hz'
    · intro hz
      rcases List.mem_cons.mp ((h z).mpr (List.mem_cons_of_mem _ hz)) with e | hz'
      · subst e; have := p2.1 z hz; rw [ltBytes_irrefl] at this; cases this
      · exact hz'

theorem posLoop_nocrash {α : Type} (eq : α → α → Bool) (mk : α → San) (ys : List α) (total : Nat) :
    ∀ (xs : List α) (i index : Nat) (acc : List San),
      i + xs.length ≤ ys.length → index + xs.length ≤ total →
      posLoop eq mk ys total xs i index acc ≠ .crash := by
  intro xs
  induction xs with
  | nil => intro i index acc _ _; simp [posLoop]
  | cons x xs ih =>
    intro i index acc h1 h2
    simp at h1 h2
    unfold posLoop
    have hi : i < ys.length := by omega
    rw [List.getElem?_eq_getElem hi]
    simp only
    split
    · simp
    · rw [if_pos (by omega)]
      exact ih (i + 1) (index + 1) _ (by omega) (by omega)

theorem posLoop_ok {α : Type} (eq : α → α → Bool) (mk : α → San) (ys : List α) (total : Nat) :
    ∀ (xs : List α) (i index : Nat) (acc : List San) (index' : Nat) (acc' : List San),
      posLoop eq mk ys total xs i index acc = .val (some (index', acc')) →
      index' = index + xs.length ∧ acc' = acc ++ xs.map mk ∧
      ∀ j (h : j < xs.length), ∃ y, ys[i + j]? = some y ∧ eq xs[j] y = true := by
  intro xs
  induction xs with
  | nil =>
    intro i index acc index' acc' h
    simp [posLoop] at h
    simp [h.1, h.2]
  | cons x xs ih =>
    intro i index acc index' acc' h
    unfold posLoop at h
    cases hy : ys[i]? with
    | none => simp [hy] at h
    | some y =>
      simp only [hy] at h
      by_cases he : eq x y = true
      · simp [he] at h
        by_cases ht : index < total
        · rw [if_pos ht] at h
          obtain ⟨a, b, c⟩ := ih _ _ _ _ _ h
          refine ⟨by simp [a]; omega, by simp [b], ?_⟩
          intro j hj
          cases j with
          | zero => exact ⟨y, by simpa using hy, by simpa using he⟩
          | succ j =>
            have := c j (by simpa using hj)
            simpa [Nat.add_assoc, Nat.add_comm 1 j] using this
        · rw [if_neg ht] at h; cases h
      · simp [he] at h


theorem to16_idem (x : Ip) : to16 (to16 x) = to16 x := by
  unfold to16
  by_cases h : x.length = 4
  · simp [h, v4InV6Prefix]
  · simp [h]

theorem to16_nil (x : Ip) : to16 x = [] ↔ x = [] := by
  unfold to16
  by_cases h : x.length = 4
  · simp [h, v4InV6Prefix]; intro e; simp [e] at h
  · simp [h]

theorem uniqueSortedIPs_fix (l : List Ip) : ∀ y ∈ uniqueSortedIPs l, to16 y = y := by
  intro y hy
  have := (sortU_mem y _).mp hy
  obtain ⟨x, _, rfl⟩ := List.mem_map.mp this
  exact to16_idem x

/-- no Wire identifier: the identifier loop of `sans` yields no URI -/
theorem wireUris_not_wire : ∀ (ids : List Identifier) (tmp : List Str),
    isWire ids = false → wireUris ids = some tmp → tmp = [] := by
  intro ids
  induction ids with
  | nil => intro tmp _ h; simp [wireUris] at h; exact h
  | cons id rest ih =>
    intro tmp hw h
    simp [isWire] at hw
    have hr : isWire rest = false := by simp [isWire]; exact hw.2
    unfold wireUris at h
    cases ht : id.typ <;> simp [ht] at h hw
    · exact ih tmp hr h
    · exact ih tmp hr h
    · exact ih tmp hr h

/-- What a successful `sans` means; `tmp` = the URIs of the order's Wire identifiers in order. -/
structure SansOk (ids : List Identifier) (c : Csr) (tmp : List Str) (l : List San) : Prop where
  noEmail : c.emails = 0
  uriCount : c.uris = tmp.length
  uris : sortU c.uriStrs = sortU tmp
  dns : c.dns = uniqueSortedLowerNames (valuesOf .dns ids)
  ips : c.ips.map to16 = uniqueSortedIPs (ipsOf ids)
  csrIpsNonNil : ∀ x ∈ c.ips, x ≠ []
  orderIpsNonNil : ∀ y ∈ uniqueSortedIPs (ipsOf ids), y ≠ []
  out : l = c.dns.map San.dns ++ c.ips.map (fun x => San.ip (to16 x)) ++ (sortU tmp).map San.uri

theorem sans_ok (ids : List Identifier) (c : Csr) (l : List San)
    (h : sans ids c = .val (.ok l)) : ∃ tmp, wireUris ids = some tmp ∧ SansOk ids c tmp l := by
  unfold sans at h
  by_cases he : c.emails > 0
  · simp [he] at h
  rw [if_neg he] at h
  cases hwu : wireUris ids with
  | none => simp [hwu] at h
  | some tmp =>
  simp only [hwu] at h
  refine ⟨tmp, rfl, ?_⟩
  split at h
  · cases h
  rename_i hlen
  split at h
  · cases h
  · cases h
  rename_i index acc hd
  split at h
  · cases h
  rename_i hlen2
  split at h
  · cases h
  · cases h
  rename_i index2 acc2 hi
  split at h
  · cases h
  rename_i hu
  split at h
  · cases h
  rename_i hlen3
  split at h
  · cases h
  · cases h
  rename_i index3 acc3 hui
  simp at h hu hlen hlen2 hlen3
  obtain ⟨hx1, hacc, hdj⟩ := posLoop_ok _ _ _ _ _ _ _ _ _ _ hd
  obtain ⟨hx2, hacc2, hij⟩ := posLoop_ok _ _ _ _ _ _ _ _ _ _ hi
  obtain ⟨hx3, hacc3, huj⟩ := posLoop_ok _ _ _ _ _ _ _ _ _ _ hui
  have hdns : c.dns = uniqueSortedLowerNames (valuesOf .dns ids) := by
    apply List.ext_getElem hlen
    intro j h1 h2
    obtain ⟨y, hy, e⟩ := hdj j h1
    simp at hy e
    rw [List.getElem?_eq_getElem h2] at hy
    simp at hy
    rw [e, hy]
  have huris : sortU c.uriStrs = sortU tmp := by
    apply List.ext_getElem hlen3
    intro j h1 h2
    obtain ⟨y, hy, e⟩ := huj j h1
    simp at hy e
    rw [List.getElem?_eq_getElem h2] at hy
    simp at hy
    rw [e, hy]
  have hfix := uniqueSortedIPs_fix (ipsOf ids)
  have hips : c.ips.map to16 = uniqueSortedIPs (ipsOf ids) := by
    apply List.ext_getElem (by simpa using hlen2)
    intro j h1 h2
    have h1' : j < c.ips.length := by simpa using h1
    obtain ⟨y, hy, e⟩ := hij j h1'
    simp at hy
    rw [List.getElem?_eq_getElem h2] at hy
    simp at hy
    subst hy
    simp [ipsAreEqual] at e
    simp
    rw [e.2, hfix _ (List.getElem_mem h2)]
  refine ⟨by omega, hu, huris, hdns, hips, ?_, ?_, ?_⟩
  · intro x hx
    obtain ⟨j, hj, rfl⟩ := List.getElem_of_mem hx
    obtain ⟨y, _, e⟩ := hij j hj
    simp [ipsAreEqual] at e
    exact e.1.1
  · intro y hy
    obtain ⟨j, hj, rfl⟩ := List.getElem_of_mem hy
    obtain ⟨y', hy', e⟩ := hij j (by omega)
    simp at hy'
    rw [List.getElem?_eq_getElem hj] at hy'
    simp at hy'
    subst hy'
    simp [ipsAreEqual] at e
    exact e.1.2
  · subst h
    rw [hacc3, hacc2, hacc, huris]
    simp

theorem sans_total (ids : List Identifier) (c : Csr) : sans ids c ≠ .crash := by
  unfold sans
  split
  · simp
  split
  · simp
  rename_i tmp hwu
  simp only
  split
  · simp
  rename_i hlen
  simp at hlen
  have n1 := posLoop_nocrash (fun a b => a == b) San.dns (uniqueSortedLowerNames (valuesOf .dns ids))
    (c.dns.length + c.ips.length + c.uris) c.dns 0 0 [] (by omega) (by omega)
  split
  · rename_i hc; exact absurd hc n1
  · simp
  rename_i index acc hd
  split
  · simp
  rename_i hlen2
  simp at hlen2
  obtain ⟨hidx, _, _⟩ := posLoop_ok _ _ _ _ _ _ _ _ _ _ hd
  have n2 := posLoop_nocrash ipsAreEqual (fun x => San.ip (to16 x)) (uniqueSortedIPs (ipsOf ids))
    (c.dns.length + c.ips.length + c.uris) c.ips 0 index acc (by omega) (by omega)
  split
  · rename_i hc; exact absurd hc n2
  · simp
  rename_i index2 acc2 hi
  obtain ⟨hidx2, _, _⟩ := posLoop_ok _ _ _ _ _ _ _ _ _ _ hi
  split
  · simp
  split
  · simp
  rename_i hlen3
  simp at hlen3
  -- the de-duplicated CSR list is no longer than the CSR list
  have hle : (sortU c.uriStrs).length ≤ c.uris := by
    have : ∀ (l : List (List Nat)), (sortU l).length ≤ l.length := by
      intro l
      induction l with
      | nil => simp [sortU]
      | cons x xs ih =>
        have hi : ∀ (y : List Nat) (m : List (List Nat)), (insertU y m).length ≤ m.length + 1 := by
          intro y m
          induction m with
          | nil => simp [insertU]
          | cons z zs ihz => unfold insertU; split <;> (try split) <;> simp <;> omega
        have : sortU (x :: xs) = insertU x (sortU xs) := rfl
        rw [this]; have := hi x (sortU xs); simp; omega
    exact this c.uriStrs
  have n3 := posLoop_nocrash (fun a b => a == b) San.uri (sortU tmp)
    (c.dns.length + c.ips.length + c.uris) (sortU c.uriStrs) 0 index2 acc2 (by omega) (by omega)
  split
  · rename_i hc; exact absurd hc n3
  · simp
  · simp

/-! finalize -/

theorem lower_nil (a : Str) : Str.lower a = [] ↔ a = [] := by
  simp [Str.lower]

theorem usl_mem (names : List Str) (x : Str) :
    x ∈ uniqueSortedLowerNames names ↔ x ≠ [] ∧ ∃ n ∈ names, Str.lower n = x := by
  unfold uniqueSortedLowerNames
  rw [sortU_mem]
  simp [List.mem_filter, List.mem_map]
  constructor
  · rintro ⟨⟨n, hn, rfl⟩, h⟩; exact ⟨by simpa [Str.lower] using h, n, hn, rfl⟩
  · rintro ⟨h, n, hn, rfl⟩; exact ⟨⟨n, hn, rfl⟩, by simpa [Str.lower] using h⟩

theorem usi_mem (ips : List Ip) (x : Ip) :
    x ∈ uniqueSortedIPs ips ↔ ∃ i ∈ ips, to16 i = x := by
  unfold uniqueSortedIPs
  rw [sortU_mem]; simp [List.mem_map]

/-- the fingerprint gate of Finalize -/
def fpGate (azFps : List Str) (csrFp : Option Str) : Prop :=
  firstFingerprint azFps ≠ [] → csrFp = some (firstFingerprint azFps)

theorem finOfSans_accept {cn cn' : Str} {r : M SansOut} {a : Bool} {l : List San}
    (h : finOfSans cn r = .val (.accept a cn' l)) : a = false ∧ cn' = cn ∧ r = .val (.ok l) := by
  cases r with
  | crash => simp [finOfSans] at h
  | val v => cases v <;> simp [finOfSans] at h; exact ⟨h.1, h.2.1.symm, by rw [h.2.2]⟩

theorem finOfSansAttested_accept {cn cn' pid : Str} {r : M SansOut} {a : Bool} {l : List San}
    (h : finOfSansAttested cn pid r = .val (.accept a cn' l)) :
    a = true ∧ cn' = cn ∧ l = [San.pid pid] ∧ ∃ l', r = .val (.ok l') := by
  cases r with
  | crash => simp [finOfSansAttested] at h
  | val v =>
    cases v <;> simp [finOfSansAttested] at h
    rename_i l'
    exact ⟨h.1, h.2.1.symm, h.2.2.symm, l', rfl⟩

/-- What any acceptance means (both branches): the fingerprint gate, no Wire identifier, the
    subject's common name is the CSR's; the attested template iff the order has a non-empty first
    permanent identifier, which is then the only name and equals a non-empty common name; and in
    BOTH branches the name comparison `sans` succeeded on the canonical CSR. -/
theorem accept_inv (ids : List Identifier) (azFps : List Str) (csrFp : Option Str) (c : Csr)
    (a : Bool) (cn : Str) (l : List San)
    (h : finalizeNames ids azFps csrFp c = .val (.accept a cn l)) :
    fpGate azFps csrFp ∧ isWire ids = false ∧ cn = c.cn ∧
    (c.cn = [] ∨ c.cn = pidOf ids ∨ firstPid ids = none) ∧
    ((a = true ∧ pidOf ids ≠ [] ∧ firstFingerprint azFps ≠ [] ∧ l = [San.pid (pidOf ids)] ∧
        ∃ l', sans ids (canonFor (pidOf ids) c) = .val (.ok l')) ∨
     (a = false ∧ pidOf ids = [] ∧ sans ids (canonFor (pidOf ids) c) = .val (.ok l))) := by
  unfold finalizeNames at h
  simp only at h
  split at h
  · cases h
  rename_i g1
  split at h
  · cases h
  rename_i g2
  have hg : fpGate azFps csrFp := by
    intro hne
    cases hc : csrFp with
    | none => exact absurd ⟨hne, hc⟩ g1
    | some v =>
      by_cases e : some v = some (firstFingerprint azFps)
      · exact e
      · exact absurd ⟨hne, by rw [hc]; exact e⟩ g2
  split at h
  · cases h
  rename_i hcn
  have hcn' : c.cn = [] ∨ c.cn = pidOf ids ∨ firstPid ids = none := by
    by_cases e1 : c.cn = []
    · exact .inl e1
    by_cases e2 : c.cn = pidOf ids
    · exact .inr (.inl e2)
    right; right
    cases hf : firstPid ids with
    | none => rfl
    | some p => exact absurd ⟨by simp [hf], e1, e2⟩ hcn
  split at h
  · -- a Wire order is never answered with `accept`
    exfalso
    cases hws : wireSubject ids (canonFor (pidOf ids) c) with
    | error e => cases e <;> simp [hws] at h
    | ok p =>
      obtain ⟨cn', org⟩ := p
      simp only [hws] at h
      cases hs : sans ids (canonFor (pidOf ids) c) with
      | crash => simp [hs, finOfSansWire] at h
      | val v => cases v <;> simp [hs, finOfSansWire] at h
  rename_i hw
  split at h
  · rename_i hv
    split at h
    · cases h
    rename_i hfp
    obtain ⟨h1, h2, h3, h4⟩ := finOfSansAttested_accept h
    exact ⟨hg, by simpa using hw, h2, hcn', .inl ⟨h1, hv, hfp, h3, h4⟩⟩
  · rename_i hv
    obtain ⟨h1, h2, h3⟩ := finOfSans_accept h
    exact ⟨hg, by simpa using hw, h2, hcn', .inr ⟨h1, by simpa using hv, h3⟩⟩

theorem canonB_dns_mem (b : Bool) (c : Csr) (x : Str) :
    x ∈ (canonB b c).dns ↔
      x ≠ [] ∧ ((∃ n ∈ c.dns, Str.lower n = x) ∨
        (b = false ∧ c.cn ≠ [] ∧ c.cnIp = [] ∧ Str.lower c.cn = x)) := by
  cases b
  · simp only [canonB, canonicalize]
    rw [usl_mem]
    by_cases h : c.cn ≠ [] ∧ c.cnIp = []
    · simp only [Bool.false_eq_true, if_false]
      rw [if_pos h]
      simp only [List.mem_append, List.mem_singleton]
      constructor
      · rintro ⟨hx, n, hn | rfl, e⟩
        · exact ⟨hx, .inl ⟨n, hn, e⟩⟩
        · exact ⟨hx, .inr ⟨trivial, h.1, h.2, e⟩⟩
      · rintro ⟨hx, ⟨n, hn, e⟩ | ⟨_, _, _, e⟩⟩
        · exact ⟨hx, n, .inl hn, e⟩
        · exact ⟨hx, c.cn, .inr rfl, e⟩
    · simp only [Bool.false_eq_true, if_false]
      rw [if_neg h]
      constructor
      · rintro ⟨hx, n, hn, e⟩; exact ⟨hx, .inl ⟨n, hn, e⟩⟩
      · rintro ⟨hx, ⟨n, hn, e⟩ | ⟨_, a, b, _⟩⟩
        · exact ⟨hx, n, hn, e⟩
        · exact absurd ⟨a, b⟩ h
  · simp only [canonB, canonicalize, if_true]
    rw [usl_mem]
    simp

theorem canonB_ips_mem (b : Bool) (c : Csr) (x : Ip) :
    x ∈ (canonB b c).ips ↔
      (∃ i ∈ c.ips, to16 i = x) ∨ (b = false ∧ c.cn ≠ [] ∧ c.cnIp ≠ [] ∧ to16 c.cnIp = x) := by
  cases b
  · simp only [canonB, canonicalize]
    rw [usi_mem]
    by_cases h : c.cn ≠ [] ∧ c.cnIp ≠ []
    · simp only [Bool.false_eq_true, if_false]
      rw [if_pos h]
      simp only [List.mem_append, List.mem_singleton]
      constructor
      · rintro ⟨i, hi | rfl, e⟩
        · exact .inl ⟨i, hi, e⟩
        · exact .inr ⟨trivial, h.1, h.2, e⟩
      · rintro (⟨i, hi, e⟩ | ⟨_, _, _, e⟩)
        · exact ⟨i, .inl hi, e⟩
        · exact ⟨c.cnIp, .inr rfl, e⟩
    · simp only [Bool.false_eq_true, if_false]
      rw [if_neg h]
      constructor
      · rintro ⟨i, hi, e⟩; exact .inl ⟨i, hi, e⟩
      · rintro (⟨i, hi, e⟩ | ⟨_, a, b, _⟩)
        · exact ⟨i, hi, e⟩
        · exact absurd ⟨a, b⟩ h
  · simp only [canonB, canonicalize, if_true]
    rw [usi_mem]
    simp

theorem canonB_fields (b : Bool) (c : Csr) :
    (canonB b c).emails = c.emails ∧ (canonB b c).uris = c.uris ∧ (canonB b c).cn = c.cn := by
  cases b <;> simp [canonB, canonicalize, Csr.uris]

theorem canonB_ips_fix (b : Bool) (c : Csr) : ∀ y ∈ (canonB b c).ips, to16 y = y := by
  intro y hy
  cases b <;> exact uniqueSortedIPs_fix _ y (by simpa [canonB, canonicalize] using hy)

/-- What the successful name comparison on the canonical CSR means, for either branch. -/
structure NamesMatch (ids : List Identifier) (b : Bool) (c : Csr) : Prop where
  /-- the canonical CSR names are exactly the canonical order names -/
  csrDns : (canonB b c).dns = uniqueSortedLowerNames (valuesOf .dns ids)
  csrIps : (canonB b c).ips = uniqueSortedIPs (ipsOf ids)
  ipParsed : ∀ id ∈ ids, id.typ = .ip → id.ip ≠ []
  noEmail : c.emails = 0
  noUri : c.uris = 0

theorem valuesOf_mem (t : IdType) (ids : List Identifier) (v : Str) :
    v ∈ valuesOf t ids ↔ ∃ id ∈ ids, id.typ = t ∧ id.value = v := by
  simp [valuesOf, List.mem_map, List.mem_filter, and_assoc]

theorem ipsOf_mem (ids : List Identifier) (v : Ip) :
    v ∈ ipsOf ids ↔ ∃ id ∈ ids, id.typ = .ip ∧ id.ip = v := by
  simp [ipsOf, List.mem_map, List.mem_filter, and_assoc]

theorem namesMatch_of_sans (ids : List Identifier) (b : Bool) (c : Csr) (l : List San)
    (hw : isWire ids = false) (hs : sans ids (canonB b c) = .val (.ok l)) :
    NamesMatch ids b c ∧
    l = (uniqueSortedLowerNames (valuesOf .dns ids)).map San.dns ++ (uniqueSortedIPs (ipsOf ids)).map San.ip := by
  obtain ⟨tmp, htmp, ok⟩ := sans_ok _ _ _ hs
  have ht0 : tmp = [] := wireUris_not_wire ids tmp hw htmp
  subst ht0
  have hnoUri : (canonB b c).uris = 0 := by simpa using ok.uriCount
  obtain ⟨fe, fu, _⟩ := canonB_fields b c
  have hfix : (canonB b c).ips.map to16 = (canonB b c).ips :=
    (List.map_congr_left (canonB_ips_fix b c)).trans (List.map_id _)
  have hips : (canonB b c).ips = uniqueSortedIPs (ipsOf ids) := by rw [← hfix]; exact ok.ips
  refine ⟨⟨ok.dns, hips, ?_, by rw [← fe]; exact ok.noEmail, by rw [← fu]; exact hnoUri⟩, ?_⟩
  · intro id hid ht hnil
    have : to16 id.ip ∈ uniqueSortedIPs (ipsOf ids) :=
      (usi_mem _ _).mpr ⟨id.ip, (ipsOf_mem _ _).mpr ⟨id, hid, ht, rfl⟩, rfl⟩
    exact ok.orderIpsNonNil _ this ((to16_nil _).mpr hnil)
  · rw [ok.out, ok.dns, ← ok.ips, List.map_map]; simp [sortU]

/-- the blanking flag Finalize uses -/
def blankOf (ids : List Identifier) (c : Csr) : Bool := decide (pidOf ids ≠ [] ∧ c.cn = pidOf ids)

theorem canonFor_eq (ids : List Identifier) (c : Csr) : canonFor (pidOf ids) c = canonB (blankOf ids c) c := rfl

/-! ## property theorems -/

/-- **finalize_names.** An accepted finalization of an order without permanent identifier gives
    the leaf template: as DNS names exactly the order's DNS identifiers (lower-cased), as IP
    addresses exactly the order's IP identifiers (by value, every one of them a parsed address),
    no other kind of name; the common name is the CSR's and is empty or one of those names;
    the CSR had no e-mail address and no URI. -/
theorem finalize_names (ids : List Identifier) (azFps : List Str) (csrFp : Option Str) (c : Csr)
    (cn : Str) (l : List San)
    (h : finalizeNames ids azFps csrFp c = .val (.accept false cn l)) :
    (∀ x, San.dns x ∈ l ↔ x ≠ [] ∧ ∃ id ∈ ids, id.typ = .dns ∧ Str.lower id.value = x) ∧
    (∀ x, San.ip x ∈ l ↔ ∃ id ∈ ids, id.typ = .ip ∧ id.ip ≠ [] ∧ to16 id.ip = x) ∧
    (∀ v, San.pid v ∉ l) ∧
    cn = c.cn ∧
    (cn = [] ∨ (c.cnIp = [] ∧ San.dns (Str.lower cn) ∈ l) ∨ (c.cnIp ≠ [] ∧ San.ip (to16 c.cnIp) ∈ l)) ∧
    c.emails = 0 ∧ c.uris = 0 := by
  obtain ⟨_, hwire, hcn, _, hcase⟩ := accept_inv _ _ _ _ _ _ _ h
  rcases hcase with ⟨ht, _⟩ | ⟨_, hp, hs⟩
  · cases ht
  have hb : blankOf ids c = false := by simp [blankOf, hp]
  rw [canonFor_eq, hb] at hs
  obtain ⟨N, hl⟩ := namesMatch_of_sans _ _ _ _ hwire hs
  have hd : ∀ x, San.dns x ∈ l ↔ x ∈ uniqueSortedLowerNames (valuesOf .dns ids) := by
    intro x; rw [hl]; simp
  have hi : ∀ x, San.ip x ∈ l ↔ x ∈ uniqueSortedIPs (ipsOf ids) := by
    intro x; rw [hl]; simp
  refine ⟨?_, ?_, ?_, hcn, ?_, N.noEmail, N.noUri⟩
  · intro x
    rw [hd, usl_mem]
    constructor
    · rintro ⟨hx, n, hn, e⟩
      obtain ⟨id, hid, ht, hv⟩ := (valuesOf_mem _ _ _).mp hn
      exact ⟨hx, id, hid, ht, by rw [hv]; exact e⟩
    · rintro ⟨hx, id, hid, ht, e⟩
      exact ⟨hx, id.value, (valuesOf_mem _ _ _).mpr ⟨id, hid, ht, rfl⟩, e⟩
  · intro x
    rw [hi, usi_mem]
    constructor
    · rintro ⟨i, hin, e⟩
      obtain ⟨id, hid, ht, hv⟩ := (ipsOf_mem _ _).mp hin
      exact ⟨id, hid, ht, N.ipParsed id hid ht, by rw [hv]; exact e⟩
    · rintro ⟨id, hid, ht, _, e⟩
      exact ⟨id.ip, (ipsOf_mem _ _).mpr ⟨id, hid, ht, rfl⟩, e⟩
  · intro v; rw [hl]; simp
  · rw [hcn]
    by_cases e : c.cn = []
    · exact .inl e
    · right
      by_cases e2 : c.cnIp = []
      · left
        refine ⟨e2, (hd _).mpr ?_⟩
        rw [← N.csrDns, canonB_dns_mem]
        exact ⟨by simpa [Str.lower] using e, .inr ⟨rfl, e, e2, rfl⟩⟩
      · right
        refine ⟨e2, (hi _).mpr ?_⟩
        rw [← N.csrIps, canonB_ips_mem]
        exact .inr ⟨rfl, e, e2, rfl⟩

/-- A CSR that does not name exactly the order's identifiers. A common name that repeats the
    order's permanent identifier is not a name of its own (it is what the attested certificate is
    about), so the two common-name deviations exclude that case. -/
inductive Mismatch (ids : List Identifier) (c : Csr) : Prop where
  /-- a DNS SAN that is no identifier of the order -/
  | addDns (n : Str) (h : n ∈ c.dns) (hne : n ≠ [])
      (hno : ∀ id ∈ ids, id.typ = .dns → Str.lower id.value ≠ Str.lower n)
  /-- an IP SAN that is no identifier of the order -/
  | addIp (i : Ip) (h : i ∈ c.ips) (hno : ∀ id ∈ ids, id.typ = .ip → to16 id.ip ≠ to16 i)
  /-- a common name (not an IP, not the permanent identifier) that is no DNS identifier -/
  | cnDns (hcn : c.cn ≠ []) (hip : c.cnIp = []) (hpid : c.cn ≠ pidOf ids)
      (hno : ∀ id ∈ ids, id.typ = .dns → Str.lower id.value ≠ Str.lower c.cn)
  /-- a common name that parses as an IP (not the permanent identifier) and is no IP identifier -/
  | cnIp (hcn : c.cn ≠ []) (hip : c.cnIp ≠ []) (hpid : c.cn ≠ pidOf ids)
      (hno : ∀ id ∈ ids, id.typ = .ip → to16 id.ip ≠ to16 c.cnIp)
  /-- a DNS identifier that is neither a SAN nor the common name -/
  | omitDns (id : Identifier) (h : id ∈ ids) (ht : id.typ = .dns) (hne : id.value ≠ [])
      (hno : ∀ n ∈ c.dns, Str.lower n ≠ Str.lower id.value)
      (hcn : ¬(c.cnIp = [] ∧ Str.lower c.cn = Str.lower id.value))
  /-- an IP identifier that is neither a SAN nor the common name -/
  | omitIp (id : Identifier) (h : id ∈ ids) (ht : id.typ = .ip)
      (hno : ∀ i ∈ c.ips, to16 i ≠ to16 id.ip)
      (hcn : ¬(c.cn ≠ [] ∧ c.cnIp ≠ [] ∧ to16 c.cnIp = to16 id.ip))
  | email (h : c.emails > 0)
  | uri (h : c.uris > 0)

/-- **add_or_omit_refused** (every order, attested or not; full strength since /repo cde9cd9): a CSR
    that adds or omits a dns/ip identifier, in its SANs or through its common name, or carries an
    e-mail address or URI, is never accepted in any form. -/
theorem add_or_omit_refused (ids : List Identifier) (azFps : List Str) (csrFp : Option Str) (c : Csr)
    (m : Mismatch ids c) (a : Bool) (cn : Str) (l : List San) :
    finalizeNames ids azFps csrFp c ≠ .val (.accept a cn l) := by
  intro h
  obtain ⟨_, hwire, _, hcnr, hcase⟩ := accept_inv _ _ _ _ _ _ _ h
  have hs : ∃ l', sans ids (canonB (blankOf ids c) c) = .val (.ok l') := by
    rcases hcase with ⟨_, _, _, _, l', hs⟩ | ⟨_, _, hs⟩
    · exact ⟨l', by rw [← canonFor_eq]; exact hs⟩
    · exact ⟨l, by rw [← canonFor_eq]; exact hs⟩
  obtain ⟨l', hs⟩ := hs
  obtain ⟨N, _⟩ := namesMatch_of_sans _ _ _ _ hwire hs
  -- when the common name is not the permanent identifier it is not blanked
  have hblank : c.cn ≠ pidOf ids → blankOf ids c = false := by
    intro hne; simp [blankOf, hne]
  have hd : ∀ x, x ∈ (canonB (blankOf ids c) c).dns ↔ x ≠ [] ∧ ∃ id ∈ ids, id.typ = .dns ∧ Str.lower id.value = x := by
    intro x
    rw [N.csrDns, usl_mem]
    constructor
    · rintro ⟨hx, n, hn, e⟩
      obtain ⟨id, hid, ht, hv⟩ := (valuesOf_mem _ _ _).mp hn
      exact ⟨hx, id, hid, ht, by rw [hv]; exact e⟩
    · rintro ⟨hx, id, hid, ht, e⟩
      exact ⟨hx, id.value, (valuesOf_mem _ _ _).mpr ⟨id, hid, ht, rfl⟩, e⟩
  have hi : ∀ x, x ∈ (canonB (blankOf ids c) c).ips ↔ ∃ id ∈ ids, id.typ = .ip ∧ to16 id.ip = x := by
    intro x
    rw [N.csrIps, usi_mem]
    constructor
    · rintro ⟨i, hin, e⟩
      obtain ⟨id, hid, ht, hv⟩ := (ipsOf_mem _ _).mp hin
      exact ⟨id, hid, ht, by rw [hv]; exact e⟩
    · rintro ⟨id, hid, ht, e⟩
      exact ⟨id.ip, (ipsOf_mem _ _).mpr ⟨id, hid, ht, rfl⟩, e⟩
  cases m with
  | addDns n hn hne hno =>
    have : Str.lower n ∈ (canonB (blankOf ids c) c).dns :=
      (canonB_dns_mem _ _ _).mpr ⟨by simpa [Str.lower] using hne, .inl ⟨n, hn, rfl⟩⟩
    obtain ⟨_, id, hid, ht, e⟩ := (hd _).mp this
    exact hno id hid ht e
  | addIp i hin hno =>
    have : to16 i ∈ (canonB (blankOf ids c) c).ips := (canonB_ips_mem _ _ _).mpr (.inl ⟨i, hin, rfl⟩)
    obtain ⟨id, hid, ht, e⟩ := (hi _).mp this
    exact hno id hid ht e
  | cnDns hcn hip hpid hno =>
    have : Str.lower c.cn ∈ (canonB (blankOf ids c) c).dns :=
      (canonB_dns_mem _ _ _).mpr ⟨by simpa [Str.lower] using hcn, .inr ⟨hblank hpid, hcn, hip, rfl⟩⟩
    obtain ⟨_, id, hid, ht, e⟩ := (hd _).mp this
    exact hno id hid ht e
  | cnIp hcn hip hpid hno =>
    have : to16 c.cnIp ∈ (canonB (blankOf ids c) c).ips :=
      (canonB_ips_mem _ _ _).mpr (.inr ⟨hblank hpid, hcn, hip, rfl⟩)
    obtain ⟨id, hid, ht, e⟩ := (hi _).mp this
    exact hno id hid ht e
  | omitDns id hid ht hne hno hcn =>
    have : Str.lower id.value ∈ (canonB (blankOf ids c) c).dns :=
      (hd _).mpr ⟨by simpa [Str.lower] using hne, id, hid, ht, rfl⟩
    rcases (canonB_dns_mem _ _ _).mp this with ⟨_, ⟨n, hn, e⟩ | ⟨_, _, b, e⟩⟩
    · exact hno n hn e
    · exact hcn ⟨b, e⟩
  | omitIp id hid ht hno hcn =>
    have : to16 id.ip ∈ (canonB (blankOf ids c) c).ips := (hi _).mpr ⟨id, hid, ht, rfl⟩
    rcases (canonB_ips_mem _ _ _).mp this with ⟨i, hin, e⟩ | ⟨_, a, b, e⟩
    · exact hno i hin e
    · exact hcn ⟨a, b, e⟩
  | email he => have := N.noEmail; omega
  | uri hu => have := N.noUri; omega

/-- **attested.** Any accepted finalization: whenever an authorization of the order carries an
    attested key fingerprint, the CSR key has that fingerprint. The attested template is used iff
    the order has a non-empty first permanent identifier; then (since /repo 4f1731b) a fingerprint IS
    recorded on one of the order's authorizations and the CSR key has it, that identifier is the only name
    given to the template, the common name is empty or equal to it, and the CSR's DNS/IP names
    (that common name aside) are exactly the order's dns/ip identifiers, with no e-mail or URI. -/
theorem attested (ids : List Identifier) (azFps : List Str) (csrFp : Option Str) (c : Csr)
    (a : Bool) (cn : Str) (l : List San)
    (h : finalizeNames ids azFps csrFp c = .val (.accept a cn l)) :
    (firstFingerprint azFps ≠ [] → csrFp = some (firstFingerprint azFps)) ∧
    (a = true ↔ pidOf ids ≠ []) ∧
    (a = true → csrFp = some (firstFingerprint azFps) ∧ firstFingerprint azFps ≠ [] ∧
        l = [San.pid (pidOf ids)] ∧ cn = c.cn ∧ (cn = [] ∨ cn = pidOf ids) ∧
        NamesMatch ids (blankOf ids c) c) := by
  obtain ⟨hg, hwire, hcn, hcnr, hcase⟩ := accept_inv _ _ _ _ _ _ _ h
  refine ⟨hg, ?_, ?_⟩
  · rcases hcase with ⟨ht, hv, _⟩ | ⟨hf, hp, _⟩
    · exact ⟨fun _ => hv, fun _ => ht⟩
    · exact ⟨fun ht => (by rw [hf] at ht; cases ht), fun hv => absurd hp hv⟩
  · intro ht
    rcases hcase with ⟨_, hv, hfp, hl, l', hs⟩ | ⟨hf, _, _⟩
    · rw [canonFor_eq] at hs
      refine ⟨hg hfp, hfp, hl, hcn, ?_, (namesMatch_of_sans _ _ _ _ hwire hs).1⟩
      rw [hcn]
      rcases hcnr with e | e | e
      · exact .inl e
      · exact .inr e
      · exfalso; apply hv; simp [pidOf, e]
    · rw [hf] at ht; cases ht

/-- **finalizeNames_total**: no identifier list and no CSR makes the name handling abort
    (index expressions of `sans` stay in range). -/
theorem finalizeNames_total (ids : List Identifier) (azFps : List Str) (csrFp : Option Str) (c : Csr) :
    finalizeNames ids azFps csrFp c ≠ .crash := by
  have key : ∀ cn x, finOfSans cn (sans ids x) ≠ .crash := by
    intro cn x
    have := sans_total ids x
    cases hs : sans ids x with
    | crash => exact absurd hs this
    | val v => cases v <;> simp [finOfSans]
  have key2 : ∀ cn p x, finOfSansAttested cn p (sans ids x) ≠ .crash := by
    intro cn p x
    have := sans_total ids x
    cases hs : sans ids x with
    | crash => exact absurd hs this
    | val v => cases v <;> simp [finOfSansAttested]
  have key3 : ∀ cn o x, finOfSansWire cn o (sans ids x) ≠ .crash := by
    intro cn o x
    have := sans_total ids x
    cases hs : sans ids x with
    | crash => exact absurd hs this
    | val v => cases v <;> simp [finOfSansWire]
  unfold finalizeNames
  simp only
  repeat' split
  all_goals first | exact key _ _ | exact key2 _ _ _ | exact key3 _ _ _ | simp

/-- **validate_ok**: what `NewOrderRequest.Validate` guarantees about an accepted identifier list. -/
theorem validate_ok (ids : List Identifier) (h : validate ids = .ok) :
    ids ≠ [] ∧ ∀ id ∈ ids,
      (id.typ = .dns ∧ id.sanitizeOk = true) ∨ (id.typ = .ip ∧ id.ip ≠ []) ∨ (id.typ = .pid ∧ id.value ≠ []) := by
  unfold validate at h
  split at h
  · cases h
  rename_i hne
  split at h
  · cases h
  rename_i hany
  split at h
  · cases h
  rename_i hw
  refine ⟨hne, ?_⟩
  intro id hid
  simp at hany
  have := hany id hid
  simp [isWire] at hw
  have w := hw id hid
  cases ht : id.typ <;> simp [ht] at this w ⊢
  · exact this
  · exact this
  · exact this

/-- for an identifier list that passed `Validate`, `sans` answers a list or "bad CSR", never a
    server error -/
theorem validated_sans (ids : List Identifier) (c : Csr) (h : validate ids = .ok) :
    sans ids c = .val .badCSR ∨ ∃ l, sans ids c = .val (.ok l) := by
  obtain ⟨_, hall⟩ := validate_ok ids h
  have hw : isWire ids = false := by
    simp [isWire]
    intro id hid
    rcases hall id hid with ⟨t, _⟩ | ⟨t, _⟩ | ⟨t, _⟩ <;> simp [t]
  have hwu : wireUris ids = some [] := by
    have gen : ∀ (l : List Identifier), (∀ id ∈ l, id.typ = .dns ∨ id.typ = .ip ∨ id.typ = .pid) → wireUris l = some [] := by
      intro l
      induction l with
      | nil => intro _; rfl
      | cons x xs ih =>
        intro hx
        have hr := ih (fun id hid => hx id (List.mem_cons_of_mem _ hid))
        unfold wireUris
        rcases hx x List.mem_cons_self with t | t | t <;> simp [t, hr]
    apply gen
    intro id hid
    rcases hall id hid with ⟨t, _⟩ | ⟨t, _⟩ | ⟨t, _⟩
    · exact .inl t
    · exact .inr (.inl t)
    · exact .inr (.inr t)
  have nt := sans_total ids c
  cases hs : sans ids c with
  | crash => exact absurd hs nt
  | val v =>
    cases v with
    | ok l => exact .inr ⟨l, rfl⟩
    | badCSR => exact .inl rfl
    | ise =>
      exfalso
      unfold sans at hs
      simp only [hwu] at hs
      repeat' split at hs
      all_goals simp_all
    | unmodelled =>
      exfalso
      unfold sans at hs
      simp only [hwu] at hs
      repeat' split at hs
      all_goals simp_all


theorem sorted_nodup (l : List (List Nat)) (h : Sorted l) : l.Nodup := by
  unfold Sorted at h
  refine List.Pairwise.imp ?_ h
  intro a b hab e
  subst e
  rw [ltBytes_irrefl] at hab; cases hab

/-- **sort_unique (names).** `uniqueSortedLowerNames` returns the strictly increasing (hence
    duplicate-free) list of the non-empty lower-cased input names, and that list is the only
    one with these two properties — so the Go implementation (map, collect in random order,
    sort.Strings) is pinned down by them. -/
theorem uniqueSortedLowerNames_spec (names : List Str) :
    Sorted (uniqueSortedLowerNames names) ∧ (uniqueSortedLowerNames names).Nodup ∧
    (∀ x, x ∈ uniqueSortedLowerNames names ↔ x ≠ [] ∧ ∃ n ∈ names, Str.lower n = x) ∧
    ∀ l', Sorted l' → (∀ x, x ∈ l' ↔ x ≠ [] ∧ ∃ n ∈ names, Str.lower n = x) →
      l' = uniqueSortedLowerNames names := by
  have hs : Sorted (uniqueSortedLowerNames names) := sortU_sorted _
  refine ⟨hs, sorted_nodup _ hs, usl_mem names, ?_⟩
  intro l' hl' hm
  exact sorted_ext _ _ hl' hs (fun z => by rw [hm, usl_mem])

/-- **sort_unique (addresses).** -/
theorem uniqueSortedIPs_spec (ips : List Ip) :
    Sorted (uniqueSortedIPs ips) ∧ (uniqueSortedIPs ips).Nodup ∧
    (∀ x, x ∈ uniqueSortedIPs ips ↔ ∃ i ∈ ips, to16 i = x) ∧
    ∀ l', Sorted l' → (∀ x, x ∈ l' ↔ ∃ i ∈ ips, to16 i = x) → l' = uniqueSortedIPs ips := by
  have hs : Sorted (uniqueSortedIPs ips) := sortU_sorted _
  refine ⟨hs, sorted_nodup _ hs, usi_mem ips, ?_⟩
  intro l' hl' hm
  exact sorted_ext _ _ hl' hs (fun z => by rw [hm, usi_mem])

/-- the name part of Finalize as it was before /repo cde9cd9: the attested branch never called
    `o.sans` and the common name was always folded into the names -/
def finalizeNamesPre (ids : List Identifier) (azFps : List Str) (csrFp : Option Str) (c0 : Csr) : M FinOut :=
  let fp := firstFingerprint azFps
  if fp ≠ [] ∧ csrFp = none then .val .ise
  else if fp ≠ [] ∧ csrFp ≠ some fp then .val .unauthorized
  else
    let c := canonicalize c0
    if isWire ids then .val .unmodelled
    else if (firstPid ids).isSome ∧ c.cn ≠ [] ∧ c.cn ≠ pidOf ids then .val .badCSR
    else if pidOf ids ≠ [] then .val (.accept true c.cn [San.pid (pidOf ids)])
    else finOfSans c.cn (sans ids c)

/-- historic (C13-F1, repaired by cde9cd9): before the fix an order with a permanent identifier
    accepted a CSR carrying a foreign DNS name and an e-mail address (they were dropped, not
    refused); the repaired code refuses it. -/
theorem attested_extra_names_historic :
    ∃ ids azFps csrFp c a cn l, Mismatch ids c ∧
      finalizeNamesPre ids azFps csrFp c = .val (.accept a cn l) ∧
      finalizeNames ids azFps csrFp c = .val .badCSR :=
  ⟨[{ typ := .pid, value := s "dev1" }], [s "fp"], some (s "fp"),
   { cn := [], cnIp := [], dns := [s "evil.example.net"], ips := [], emails := 1 },
   true, [], [San.pid (s "dev1")], .email (by decide), by decide, by decide⟩

/-- "The certificate covers exactly the order's identifiers" is false for orders that mix a
    permanent identifier with other identifiers (`NewOrderRequest.Validate` admits them): the DNS
    identifier is dropped from the accepted name list. -/
theorem mixed_order_drops_identifiers :
    ∃ ids azFps csrFp c cn l, validate ids = .ok ∧
      finalizeNames ids azFps csrFp c = .val (.accept true cn l) ∧
      ∃ id ∈ ids, id.typ = .dns ∧ San.dns (Str.lower id.value) ∉ l :=
  ⟨[{ typ := .pid, value := s "dev1" }, { typ := .dns, value := s "a.example.com" }],
   [s "fp", []], some (s "fp"),
   { cn := [], cnIp := [], dns := [s "a.example.com"], ips := [], emails := 0 },
   [], [San.pid (s "dev1")], by decide, by decide,
   ⟨{ typ := .dns, value := s "a.example.com" }, by decide, rfl, by decide⟩⟩

/-- the hypotheses of `finalize_names` are met by a non-trivial case: mixed-case duplicate DNS
    identifiers, an IPv4 identifier written as IPv4-in-IPv6, the name only in the common name -/
example :
    finalizeNames
      [{ typ := .dns, value := s "A.example.com" }, { typ := .dns, value := s "a.EXAMPLE.com" },
       { typ := .ip, value := s "::ffff:10.0.0.1", ip := v4InV6Prefix ++ [10, 0, 0, 1] }]
      [[], [], []] (some (s "k"))
      { cn := s "a.example.COM", cnIp := [], dns := [], ips := [[10, 0, 0, 1]], emails := 0 }
    = .val (.accept false (s "a.example.COM")
        [San.dns (s "a.example.com"), San.ip (v4InV6Prefix ++ [10, 0, 0, 1])]) := by decide

/-- `Mismatch` is inhabited by each kind of deviation; e.g. an omitted identifier -/
example : Mismatch [{ typ := .dns, value := s "a.example.com" }, { typ := .dns, value := s "b.example.com" }]
    { cn := [], cnIp := [], dns := [s "a.example.com"], ips := [], emails := 0 } :=
  .omitDns { typ := .dns, value := s "b.example.com" } (by decide) rfl (by decide) (by decide) (by decide)

/-- `attested` with `a = true` is met by the ordinary device-attest order -/
example :
    finalizeNames [{ typ := .pid, value := s "dev1" }] [s "fp"] (some (s "fp"))
      { cn := s "dev1", cnIp := [], dns := [], ips := [], emails := 0 }
    = .val (.accept true (s "dev1") [San.pid (s "dev1")]) := by decide

/-- a mixed order must list its other identifiers in the CSR (and nothing else) -/
example :
    finalizeNames [{ typ := .pid, value := s "dev1" }, { typ := .dns, value := s "a.example.com" }] [s "fp", []] (some (s "fp"))
      { cn := s "dev1", cnIp := [], dns := [], ips := [], emails := 0 } = .val .badCSR ∧
    finalizeNames [{ typ := .pid, value := s "dev1" }] [s "fp"] (some (s "fp"))
      { cn := s "dev1", cnIp := [], dns := [s "evil.example.net"], ips := [], emails := 0 } = .val .badCSR := by decide

/-- and the attested key is enforced: another CSR key is refused -/
example :
    finalizeNames [{ typ := .pid, value := s "dev1" }] [s "fp"] (some (s "other"))
      { cn := s "dev1", cnIp := [], dns := [], ips := [], emails := 0 }
    = .val .unauthorized := by decide

example : validate [{ typ := .dns, value := s "*.example.com" }, { typ := .ip, value := s "10.0.0.1", ip := v4InV6Prefix ++ [10, 0, 0, 1] }] = .ok := by decide

/-! ## 5. api.NewOrder: one authorization per identifier -/

/-- **order_authz_cover** (since /repo 77ebdfa without a proviso): `api.NewOrder` stores exactly one
    authorization per order identifier, in order; the i-th authorization backs the i-th identifier
    (same type, same name; only a dns name has a wildcard form, every other identifier is kept as
    it is and not flagged), and a wildcard authorization is for a dns name and offers dns-01 only.
    With C10's `finalizable_order_authorizations` (a finalizable order's authorizations are all
    valid and owned by the order's account) this is "each identifier is backed by a valid
    authorization of the same account". -/
theorem order_authz_cover (enabled : List ChalType) (ids : List Identifier) :
    (newOrderAuthzs enabled ids).length = ids.length ∧
    ∀ (i : Nat) (id : Identifier), ids[i]? = some id →
      ∃ a, (newOrderAuthzs enabled ids)[i]? = some a ∧ backs a id = true ∧
        (id.typ ≠ .dns → a.value = id.value ∧ a.wildcard = false) ∧
        (id.typ = .dns → a.value = trimIfWildcard id.value) ∧
        (a.wildcard = true → a.typ = .dns ∧ ∀ c ∈ a.chals, c = .dns01) := by
  refine ⟨by simp [newOrderAuthzs], ?_⟩
  intro i id h
  refine ⟨newAuthorization enabled id, by simp [newOrderAuthzs, h], ?_, ?_, ?_, ?_⟩
  · by_cases ht : id.typ = .dns
    · by_cases hw : isWildcard id.value = true
      · simp [backs, newAuthorization, wildcardOf, ht, hw, trimIfWildcard]
      · simp [backs, newAuthorization, wildcardOf, ht, hw, trimIfWildcard]
    · simp [backs, newAuthorization, wildcardOf, ht]
  · intro ht
    simp [newAuthorization, wildcardOf, ht]
  · intro ht
    by_cases hw : isWildcard id.value = true <;> simp [newAuthorization, wildcardOf, ht, hw, trimIfWildcard]
  · intro hw
    simp [newAuthorization, wildcardOf] at hw
    refine ⟨by simp [newAuthorization, hw.1], ?_⟩
    intro c hc
    simp [newAuthorization, wildcardOf, challengeTypes, hw.1, hw.2] at hc
    exact hc.1

/-- **pid_wildcard_unbacked_historic** (finding C13-F4, fixed in /repo 77ebdfa): `newAuthorization`
    used to strip a leading `*.` from an identifier of EVERY type. For the permanent identifier
    `*.1234` the stored authorization and its device-attest-01 challenge were for `1234` (the
    attestation had to name `1234`), while the order kept `*.1234` and Finalize wrote `*.1234` into
    the certificate: a name that no authorization backed. The repaired function keeps the
    identifier as it is. -/
theorem pid_wildcard_unbacked_historic :
    let id : Identifier := { typ := .pid, value := s "*.1234" }
    let a := newAuthorizationHistoric [.deviceAttest01] id
    a.value = s "1234" ∧ a.chals = [.deviceAttest01] ∧ backs a id = false ∧
    backs { a with wildcard := false } { typ := .pid, value := s "1234" } = true ∧
    -- now
    newAuthorization [.deviceAttest01] id = ⟨.pid, s "*.1234", false, [.deviceAttest01]⟩ ∧
    backs (newAuthorization [.deviceAttest01] id) id = true := by decide

/-- a base name's authorization does not back the wildcard name and vice versa: sharing one
    authorization between `example.com` and `*.example.com` leaves one of them unbacked -/
theorem backs_wildcard_distinct (a : AuthzSpec) (x y : Identifier) (hdx : x.typ = .dns) (hdy : y.typ = .dns)
    (hx : backs a x = true) (hy : backs a y = true) : isWildcard x.value = isWildcard y.value := by
  simp [backs, hdx, hdy] at hx hy
  rw [← hx.2.1, ← hy.2.1]

example : backs (newAuthorization [.dns01, .http01] { typ := .dns, value := s "example.com" })
    { typ := .dns, value := s "*.example.com" } = false := by decide
example : newOrderAuthzs [.dns01, .http01, .tlsalpn01] [{ typ := .dns, value := s "a.io" }, { typ := .dns, value := s "*.a.io" }] =
    [⟨.dns, s "a.io", false, [.dns01, .http01, .tlsalpn01]⟩, ⟨.dns, s "a.io", true, [.dns01]⟩] := by decide

/-! ## 6. Wire orders -/

def isWireId (id : Identifier) : Bool := id.typ = .wireUser || id.typ = .wireDevice

theorem wireLoop_spec (c : Csr) : ∀ (ids : List Identifier) (st st' : WS), wireLoop c ids st = .ok st' →
    st'.others = st.others + (ids.filter (fun i => !isWireId i)).length ∧
    ((st'.cn = st.cn ∧ st'.org = st.org) ∨
      ∃ id ∈ ids, id.typ = .wireUser ∧ id.wire.parsed = true ∧ st'.cn = id.wire.name ∧ st'.org = id.wire.domain ∧
        scanDisplay id.wire.name c.displayNames false = .ok true ∧
        ∃ o rest, c.orgs = o :: rest ∧ Str.foldEq o id.wire.domain = true) := by
  intro ids
  induction ids with
  | nil => intro st st' h; simp [wireLoop] at h; subst h; simp
  | cons id rest ih =>
    intro st st' h
    unfold wireLoop at h
    cases ht : id.typ <;> simp only [ht] at h
    case wireUser =>
      split at h
      · cases h
      rename_i hp
      split at h
      · cases h
      · cases h
      rename_i hscan
      split at h
      · cases h
      rename_i o rs horg
      split at h
      · cases h
      rename_i hfe
      obtain ⟨a, b⟩ := ih _ _ h
      refine ⟨by simp [isWireId, ht] at a ⊢; exact a, ?_⟩
      rcases b with ⟨b1, b2⟩ | ⟨id', hid', r⟩
      · right
        exact ⟨id, List.mem_cons_self, ht, by simpa using hp, b1, b2, hscan, o, rs, horg, by simpa using hfe⟩
      · exact .inr ⟨id', List.mem_cons_of_mem _ hid', r⟩
    case wireDevice =>
      obtain ⟨a, b⟩ := ih _ _ h
      refine ⟨by simp [isWireId, ht] at a ⊢; exact a, ?_⟩
      rcases b with b | ⟨id', hid', r⟩
      · exact .inl b
      · exact .inr ⟨id', List.mem_cons_of_mem _ hid', r⟩
    all_goals
      obtain ⟨a, b⟩ := ih _ _ h
      refine ⟨by simp [isWireId, ht] at a ⊢; omega, ?_⟩
      rcases b with b | ⟨id', hid', r⟩
      · exact .inl b
      · exact .inr ⟨id', List.mem_cons_of_mem _ hid', r⟩

/-- every display-name attribute the scan accepted is the string `name` -/
theorem scanDisplay_ok (name : Str) : ∀ (l : List (Option Str)) (f : Bool), scanDisplay name l f = .ok true →
    (∀ e ∈ l, e = some name) ∧ (l ≠ [] ∨ f = true) := by
  intro l
  induction l with
  | nil => intro f h; simp [scanDisplay] at h; exact ⟨by simp, .inr h⟩
  | cons e rest ih =>
    intro f h
    cases e with
    | none => simp [scanDisplay] at h
    | some v =>
      simp only [scanDisplay] at h
      split at h
      · cases h
      rename_i hv
      have := (ih true h).1
      exact ⟨by intro x hx; rcases List.mem_cons.mp hx with rfl | hx; simpa using hv; exact this x hx, .inl (by simp)⟩

/-- what the identifier loop of `sans` establishes when it succeeds -/
def WireUrisSpec (ids : List Identifier) (tmp : List Str) : Prop :=
  (∀ id ∈ ids, id.typ ≠ .other) ∧
  (∀ id ∈ ids, isWireId id = true → id.wire.parsed = true ∧ ∃ u, id.wire.uri = some u ∧ u ∈ tmp) ∧
  (∀ u ∈ tmp, ∃ id ∈ ids, isWireId id = true ∧ id.wire.uri = some u)

theorem wireUris_mem : ∀ (ids : List Identifier) (tmp : List Str), wireUris ids = some tmp →
    WireUrisSpec ids tmp := by
  intro ids
  induction ids with
  | nil => intro tmp h; simp [wireUris] at h; subst h; simp [WireUrisSpec]
  | cons id rest ih =>
    intro tmp h
    unfold wireUris at h
    have plain : isWireId id = false → id.typ ≠ .other → wireUris rest = some tmp → WireUrisSpec (id :: rest) tmp := by
      intro hnw hno hr
      obtain ⟨a, b, c⟩ := ih tmp hr
      exact ⟨by intro x hx; rcases List.mem_cons.mp hx with rfl | hx; exact hno; exact a x hx,
        by intro x hx hwx; rcases List.mem_cons.mp hx with rfl | hx; simp [hnw] at hwx; exact b x hx hwx,
        by intro u hu; obtain ⟨x, hx, r⟩ := c u hu; exact ⟨x, List.mem_cons_of_mem _ hx, r⟩⟩
    have wirecase : isWireId id = true → (if (!id.wire.parsed) = true then none else
        match id.wire.uri with | none => none | some u => Option.map (fun x => u :: x) (wireUris rest)) = some tmp →
        WireUrisSpec (id :: rest) tmp := by
      intro hwi h
      split at h
      · cases h
      rename_i hp
      cases hu : id.wire.uri with
      | none => simp [hu] at h
      | some u =>
        simp only [hu] at h
        cases hr : wireUris rest with
        | none => simp [hr] at h
        | some t =>
          simp [hr] at h
          subst h
          obtain ⟨a, b, c⟩ := ih t hr
          exact ⟨by intro x hx; rcases List.mem_cons.mp hx with rfl | hx
                    · intro e; simp [isWireId, e] at hwi
                    · exact a x hx,
            by intro x hx hwx; rcases List.mem_cons.mp hx with rfl | hx
               · exact ⟨by simpa using hp, u, hu, by simp⟩
               · obtain ⟨p, v, hv, hm⟩ := b x hx hwx; exact ⟨p, v, hv, List.mem_cons_of_mem _ hm⟩,
            by intro v hv; rcases List.mem_cons.mp hv with rfl | hv
               · exact ⟨id, List.mem_cons_self, hwi, hu⟩
               · obtain ⟨x, hx, r⟩ := c v hv; exact ⟨x, List.mem_cons_of_mem _ hx, r⟩⟩
    cases ht : id.typ <;> simp only [ht] at h
    · exact plain (by simp [isWireId, ht]) (by simp [ht]) h
    · exact plain (by simp [isWireId, ht]) (by simp [ht]) h
    · exact plain (by simp [isWireId, ht]) (by simp [ht]) h
    · exact wirecase (by simp [isWireId, ht]) h
    · exact wirecase (by simp [isWireId, ht]) h
    · cases h


/-- **wire_names.** An accepted finalization of a Wire order (answer `acceptWire`): the
    attested-key gate held; every identifier is a Wire identifier that parsed and whose handle /
    client id is a URL; the CSR has no e-mail address, no DNS name, no IP address and no common
    name that would become one; its URIs are, as sets, exactly the URIs of the order's identifiers
    and as many as there are identifiers; the URI SANs given to the template are exactly those
    URIs; no DNS, IP or permanent-identifier SAN; the template subject is empty or is the name and
    domain of a user identifier of the order, every display-name attribute of the CSR being that
    name (at least one) and the CSR's first Organization its domain (ASCII case aside). -/
theorem wire_names (ids : List Identifier) (azFps : List Str) (csrFp : Option Str) (c : Csr)
    (cn org : Str) (l : List San)
    (h : finalizeNames ids azFps csrFp c = .val (.acceptWire cn org l)) :
    ∃ tmp, wireUris ids = some tmp ∧ WireUrisSpec ids tmp ∧
      fpGate azFps csrFp ∧
      (∀ id ∈ ids, isWireId id = true) ∧
      c.emails = 0 ∧ c.uris = tmp.length ∧
      (∀ u, u ∈ c.uriStrs ↔ u ∈ tmp) ∧
      (∀ u, San.uri u ∈ l ↔ u ∈ tmp) ∧
      (∀ x, San.dns x ∉ l ∧ San.ip x ∉ l ∧ San.pid x ∉ l) ∧
      (c.dns.all (fun n => n == []) = true ∧ c.ips = []) ∧
      ((cn = [] ∧ org = []) ∨
        ∃ id ∈ ids, id.typ = .wireUser ∧ cn = id.wire.name ∧ org = id.wire.domain ∧
          (∀ e ∈ c.displayNames, e = some cn) ∧ c.displayNames ≠ [] ∧
          ∃ o rest, c.orgs = o :: rest ∧ Str.foldEq o org = true) := by
  unfold finalizeNames at h
  simp only at h
  split at h
  · cases h
  rename_i g1
  split at h
  · cases h
  rename_i g2
  have hg : fpGate azFps csrFp := by
    intro hne
    cases hc : csrFp with
    | none => exact absurd ⟨hne, hc⟩ g1
    | some v =>
      by_cases e : some v = some (firstFingerprint azFps)
      · exact e
      · exact absurd ⟨hne, by rw [hc]; exact e⟩ g2
  split at h
  · cases h
  split at h
  rotate_left
  · -- not a Wire order: the answer is `accept`, never `acceptWire`
    exfalso
    split at h
    · split at h
      · cases h
      cases hs : sans ids (canonFor (pidOf ids) c) with
      | crash => simp [hs, finOfSansAttested] at h
      | val v => cases v <;> simp [hs, finOfSansAttested] at h
    · cases hs : sans ids (canonFor (pidOf ids) c) with
      | crash => simp [hs, finOfSans] at h
      | val v => cases v <;> simp [hs, finOfSans] at h
  rename_i hw
  cases hws : wireSubject ids (canonFor (pidOf ids) c) with
  | error e => cases e <;> simp [hws] at h
  | ok p =>
    obtain ⟨cn', org'⟩ := p
    simp only [hws] at h
    cases hs : sans ids (canonFor (pidOf ids) c) with
    | crash => simp [hs, finOfSansWire] at h
    | val v =>
      cases v <;> simp [hs, finOfSansWire] at h
      rename_i l'
      obtain ⟨rfl, rfl, rfl⟩ := h
      obtain ⟨tmp, htmp, ok⟩ := sans_ok _ _ _ hs
      have spec := wireUris_mem ids tmp htmp
      rw [canonFor_eq] at ok hws
      obtain ⟨fe, fu, fc⟩ := canonB_fields (blankOf ids c) c
      -- the subject loop: no identifier of another kind
      unfold wireSubject at hws
      cases hl : wireLoop (canonB (blankOf ids c) c) ids {} with
      | error e => simp [hl] at hws
      | ok st =>
        simp only [hl] at hws
        split at hws
        · cases hws
        rename_i hcnt
        simp at hws
        obtain ⟨rfl, rfl⟩ := hws
        obtain ⟨hoth, hsub⟩ := wireLoop_spec _ ids {} st hl
        have hnone : (ids.filter (fun i => !isWireId i)) = [] := by
          have : st.others = 0 := by
            by_cases e : st.others = 0
            · exact e
            · exact absurd (.inl (by omega)) hcnt
          simp at hoth
          rw [this] at hoth
          exact List.eq_nil_of_length_eq_zero (by omega)
        have hall : ∀ id ∈ ids, isWireId id = true := by
          intro id hid
          by_cases e : isWireId id = true
          · exact e
          · have : id ∈ ids.filter (fun i => !isWireId i) := List.mem_filter.mpr ⟨hid, by simpa using e⟩
            rw [hnone] at this; cases this
        -- hence no dns / ip identifiers: the order's name lists are empty
        have hnd : valuesOf .dns ids = [] := by
          simp [valuesOf, List.filter_eq_nil_iff]
          intro id hid ht; have := hall id hid; simp [isWireId, ht] at this
        have hni : ipsOf ids = [] := by
          simp [ipsOf, List.filter_eq_nil_iff]
          intro id hid ht; have := hall id hid; simp [isWireId, ht] at this
        have hd0 : (canonB (blankOf ids c) c).dns = [] := by rw [ok.dns, hnd]; rfl
        have hi0 : (canonB (blankOf ids c) c).ips = [] := by
          have := ok.ips; rw [hni] at this
          simpa [uniqueSortedIPs, sortU] using this
        have hsu : ∀ u, u ∈ c.uriStrs ↔ u ∈ tmp := by
          intro u
          have e1 : (canonB (blankOf ids c) c).uriStrs = c.uriStrs := by cases blankOf ids c <;> simp [canonB, canonicalize]
          rw [← sortU_mem u c.uriStrs, ← sortU_mem u tmp, ← e1, ok.uris]
        refine ⟨tmp, htmp, spec, hg, hall, by rw [← fe]; exact ok.noEmail, by rw [← fu]; exact ok.uriCount, hsu, ?_, ?_, ?_, ?_⟩
        · intro u; rw [ok.out, hd0, hi0]; simp [sortU_mem]
        · intro x; rw [ok.out, hd0, hi0]; simp
        · -- canonical DNS list empty: every CSR DNS name is empty; canonical IP list empty: no CSR IP
          constructor
          · simp only [List.all_eq_true]
            intro n hn
            by_cases e : n = []
            · simp [e]
            · exfalso
              have : Str.lower n ∈ (canonB (blankOf ids c) c).dns :=
                (canonB_dns_mem _ _ _).mpr ⟨by simpa [Str.lower] using e, .inl ⟨n, hn, rfl⟩⟩
              rw [hd0] at this; cases this
          · cases hc : c.ips with
            | nil => rfl
            | cons i is =>
              exfalso
              have : to16 i ∈ (canonB (blankOf ids c) c).ips :=
                (canonB_ips_mem _ _ _).mpr (.inl ⟨i, by rw [hc]; simp, rfl⟩)
              rw [hi0] at this; cases this
        · rcases hsub with ⟨e1, e2⟩ | ⟨id, hid, ht, _, e1, e2, hscan, o, rest, horg, hfe⟩
          · exact .inl ⟨e1, e2⟩
          · right
            obtain ⟨hallname, hne⟩ := scanDisplay_ok _ _ _ hscan
            have ed : (canonB (blankOf ids c) c).displayNames = c.displayNames := by cases blankOf ids c <;> simp [canonB, canonicalize]
            have eo : (canonB (blankOf ids c) c).orgs = c.orgs := by cases blankOf ids c <;> simp [canonB, canonicalize]
            rw [ed] at hallname hne
            rw [eo] at horg
            refine ⟨id, hid, ht, e1, e2, by rw [e1]; exact hallname, ?_, o, rest, horg, by rw [e2]; exact hfe⟩
            rcases hne with hne | hne
            · exact hne
            · cases hne

/-- the hypothesis of `wire_names` is met by the ordinary Wire order -/
example :
    let user : Identifier := { typ := .wireUser, value := s "u", wire := { parsed := true, name := s "Alice", domain := s "wire.com", uri := some (s "wireapp://%40alice@wire.com") } }
    let dev : Identifier := { typ := .wireDevice, value := s "d", wire := { parsed := true, name := s "Alice", domain := s "wire.com", uri := some (s "wireapp://a!b@wire.com") } }
    finalizeNames [user, dev] [[], []] (some (s "k"))
      { cn := [], cnIp := [], dns := [], ips := [], emails := 0, uriStrs := [s "wireapp://a!b@wire.com", s "wireapp://%40alice@wire.com"],
        displayNames := [some (s "Alice")], orgs := [s "WIRE.com"] }
    = .val (.acceptWire (s "Alice") (s "wire.com") [San.uri (s "wireapp://%40alice@wire.com"), San.uri (s "wireapp://a!b@wire.com")]) := by
  decide

/-- **wire_unwritten_slot_historic** (finding C13-F3, found by the correspondence, reproduced end to
    end, fixed in /repo 167bc71): when handle and client id of a Wire order are the same URI and the
    CSR repeats it, the SAN list `sans` handed to the template had an entry that was never written —
    the slice was sized by `len(csr.URIs)` before de-duplication and returned whole — and the issued
    certificate carried an empty DNS name. (Before /repo b009637 this case indexed out of range.)
    The repaired function returns the written entries only. -/
theorem wire_unwritten_slot_historic :
    let user : Identifier := { typ := .wireUser, value := s "u", wire := { parsed := true, name := s "A", domain := s "w", uri := some (s "wireapp://x") } }
    let dev : Identifier := { typ := .wireDevice, value := s "d", wire := { parsed := true, name := s "A", domain := s "w", uri := some (s "wireapp://x") } }
    let c : Csr := { cn := [], cnIp := [], dns := [], ips := [], emails := 0, uriStrs := [s "wireapp://x", s "wireapp://x"], displayNames := [some (s "A")], orgs := [s "w"] }
    sansHistoric [user, dev] c = .val (.ok [San.uri (s "wireapp://x"), San.empty]) ∧
    sans [user, dev] c = .val (.ok [San.uri (s "wireapp://x")]) ∧
    finalizeNames [user, dev] [[], []] (some (s "k")) c = .val (.acceptWire (s "A") (s "w") [San.uri (s "wireapp://x")]) := by
  decide

/-- **wire_no_empty_slot** (since /repo 167bc71 without a hypothesis on the order's URIs): no SAN of an
    accepted Wire order is an unwritten slot; together with `wire_names` the SANs are exactly the
    de-duplicated URIs of the identifiers. -/
theorem wire_no_empty_slot (ids : List Identifier) (azFps : List Str) (csrFp : Option Str) (c : Csr)
    (cn org : Str) (l : List San)
    (h : finalizeNames ids azFps csrFp c = .val (.acceptWire cn org l)) : San.empty ∉ l := by
  unfold finalizeNames at h
  simp only at h
  repeat' split at h
  all_goals try cases h
  all_goals
    first
    | (rename_i hws
       cases hs : sans ids (canonFor (pidOf ids) c) with
       | crash => simp [hs, finOfSansWire] at h
       | val v =>
         cases v <;> simp [hs, finOfSansWire] at h
         obtain ⟨tmp', htmp', ok⟩ := sans_ok _ _ _ hs
         rw [← h.2.2, ok.out]
         simp)
    | (cases hs : sans ids (canonFor (pidOf ids) c) with
       | crash => simp [hs, finOfSans, finOfSansAttested] at h
       | val v => cases v <;> simp [hs, finOfSans, finOfSansAttested] at h)

/-- **force_cn_is_a_name** (provisioner option forceCN): the common name of the certificate is the
    template's, or, when that is empty, one of the certificate's DNS names as it is (never a prefix
    or any other string); without a DNS name nothing is signed. With `finalize_names` (the DNS names
    are the order's dns identifiers) a forced common name is an order identifier. -/
theorem force_cn_is_a_name (force : Bool) (cn cn' : Str) (sans : List San)
    (h : forceCommonName force cn sans = some cn') :
    cn' = cn ∨ (force = true ∧ cn = [] ∧ San.dns cn' ∈ sans) := by
  unfold forceCommonName at h
  split at h
  · rename_i hf
    simp at hf
    cases hl : sans.filterMap dnsOf with
    | nil => rw [hl] at h; cases h
    | cons d rest =>
      rw [hl] at h
      injection h with h
      subst h
      right
      refine ⟨hf.1, hf.2, ?_⟩
      have hm : d ∈ sans.filterMap dnsOf := by rw [hl]; simp
      obtain ⟨x, hx, e⟩ := List.mem_filterMap.mp hm
      cases x <;> simp [dnsOf] at e
      subst e
      exact hx
  · left
    simpa using h.symm

example : forceCommonName true [] [San.ip (s "x"), San.dns (s "zz.example.com"), San.dns (s "a.io")] = some (s "zz.example.com") ∧
    forceCommonName true [] [San.ip (s "x")] = none ∧ forceCommonName true (s "A.io") [San.dns (s "a.io")] = some (s "A.io") ∧
    forceCommonName false [] [San.dns (s "a.io")] = some [] := by decide

end Verif.AcmeSans
