import Verif.Model.OTT
/-!
  C02 — a one-time token authorizes at most one operation, ever.

  Property theorems about `Verif.OTT` (model of `authorizeToken` / `UseToken` / the used-token
  table, tied to /repo by the C02 correspondence stages).  All history theorems quantify over
  every list of requests, every initial table and every event list (`Store.Ev`: any thread steps
  next, or the process restarts), i.e. over all interleavings of the atomic steps and all
  placements of restarts.
-/
namespace Verif.OTT
open Verif Verif.Store

/-! ## step facts -/

theorem step_inp (g : G) (r : Req) : (step g r).2.inp = r.inp := by
  unfold step
  split
  · rfl
  · split <;> (try split) <;> (try split) <;> simp

theorem step_key (g : G) (r : Req) : (step g r).2.key = r.key := by
  unfold Req.key; rw [step_inp]

/-- A step either leaves the table alone and does not change who inserted what, or it is the
    successful CAS of this request on an absent key. -/
theorem step_cases (g : G) (r : Req) :
    ((step g r).1 = g ∧ (step g r).2.inserted = r.inserted) ∨
    (∃ k', r.key = some k' ∧ has g.store k' = false ∧
      (step g r).1 = { g with store := (casNil g.store k' ()).1 } ∧ (step g r).2.inserted = true) := by
  unfold step
  split
  · left; simp
  · split
    · left; split <;> simp
    · left; split <;> (try split) <;> simp
    · split
      · left; simp
      · rename_i k' hk
        split
        · right
          refine ⟨k', hk, ?_, by simp, by simp⟩
          rename_i hc
          have := (casNil_swapped g.store k' ()).1 hc
          simp [has, this]
        · left; simp
    · left; split <;> simp
    · left; simp

theorem restartL_inserted (k : Str) (r : Req) : insertedWith k (restartL r) = insertedWith k r := by
  unfold restartL insertedWith Req.key
  split <;> simp

/-! ## 1. at most one request per token id gets past the CAS (persistent store) -/

/-- Invariant: for key `k`, at most one request has inserted, and none while `k` is absent. -/
def Inv (k : Str) (s : G × List Req) : Prop :=
  s.1.persistent = true ∧ s.2.countP (insertedWith k) ≤ 1 ∧
    (has s.1.store k = false → s.2.countP (insertedWith k) = 0)

theorem inv_exec (k : Str) (s : G × List Req) (e : Ev) : Inv k s → Inv k (machine.exec s e) := by
  intro ⟨hp, h1, h0⟩
  cases e with
  | restart now =>
    simp only [Machine.exec, machine, Inv, restartG, hp, if_true]
    have : (List.map restartL s.2).countP (insertedWith k) = s.2.countP (insertedWith k) := by
      rw [List.countP_map]
      congr 1
      funext r
      exact restartL_inserted k r
    rw [this]
    exact ⟨trivial, h1, h0⟩
  | step t =>
    simp only [Machine.exec, machine]
    cases hr : s.2[t]? with
    | none => exact ⟨hp, h1, h0⟩
    | some r =>
      show Inv k ((step s.1 r).1, s.2.set t (step s.1 r).2)
      unfold Inv; dsimp only
      have hkey := step_key s.1 r
      rcases step_cases s.1 r with ⟨hg, hi⟩ | ⟨k', hk', hno, hg, hi⟩
      · have hsame : insertedWith k (step s.1 r).2 = insertedWith k r := by
          unfold insertedWith; rw [hi, hkey]
        refine ⟨by rw [hg]; exact hp, ?_, ?_⟩
        · rw [countP_set_same _ _ _ _ _ hr hsame]; exact h1
        · rw [hg, countP_set_same _ _ _ _ _ hr hsame]; exact h0
      · have hc := countP_set (insertedWith k) s.2 t r (step s.1 r).2 hr
        by_cases hkk : k = k'
        · subst hkk
          have hz := h0 hno
          refine ⟨by rw [hg]; exact hp, ?_, ?_⟩
          · rw [hz] at hc; split at hc <;> split at hc <;> omega
          · rw [hg]; simp only []
            rw [has_casNil_same]; intro h; cases h
        · have hx : insertedWith k (step s.1 r).2 = false := by
            unfold insertedWith; rw [hkey, hk']; simp; intro _; exact fun h => hkk h.symm
          have ha : insertedWith k r = false := by
            unfold insertedWith; rw [hk']; simp; intro _; exact fun h => hkk h.symm
          rw [hx, ha] at hc
          simp at hc
          refine ⟨by rw [hg]; exact hp, by omega, ?_⟩
          rw [hg]; simp only []
          rw [has_casNil_other _ _ _ _ hkk, hc]; exact h0

theorem fresh_count_zero (p : Req → Bool) (rs : List Req) (h : ∀ r ∈ rs, p r = false) :
    rs.countP p = 0 := by
  rw [List.countP_eq_zero]; intro a ha; rw [h a ha]; simp

/-- **at_most_one.** With a persistent store: for every set of requests (any mix of token ids,
    provisioners, fresh and replayed tokens — `rs` is arbitrary, not yet arrived), every initial
    table, every interleaving of their atomic steps and every placement of restarts, at most one
    request gets its record for token id `k` stored, i.e. gets past the CAS under that id. -/
theorem at_most_one (g : G) (hp : g.persistent = true) (rs : List Req) (hfresh : ∀ r ∈ rs, r.fresh)
    (k : Str) (evs : List Ev) :
    (machine.run (g, rs) evs).2.countP (insertedWith k) ≤ 1 := by
  have h0 : rs.countP (insertedWith k) = 0 :=
    fresh_count_zero _ rs (fun r hr => by unfold insertedWith; rw [(hfresh r hr).2.1]; rfl)
  have := Machine.run_inv machine (Inv k) (fun s e h => inv_exec k s e h) evs (g, rs)
    ⟨hp, by rw [h0]; omega, fun _ => h0⟩
  exact this.2.1

/-! ## 2. per-request facts: an answer needs a record; crash points -/

/-- past step 2 means inserted or exempt; an "authorized" answer means past step 2 -/
def Loc (r : Req) : Prop :=
  (r.pc ≥ 3 → r.past = true) ∧ (r.past = true → r.inserted = true ∨ r.key = none) ∧
  (r.out = .authorized → r.pc ≥ 3) ∧ (r.inserted = true → r.key.isSome = true)

theorem loc_fresh (r : Req) (h : r.fresh) : Loc r := by
  obtain ⟨h1, h2, h3, h4⟩ := h
  unfold Loc; simp [h1, h2, h3, h4]

theorem loc_step (g : G) (r : Req) : Loc r → Loc (step g r).2 := by
  unfold Loc step Req.key
  intro ⟨a, b, c, d⟩
  split
  · exact ⟨a, b, c, d⟩
  · split <;> grind

theorem loc_restart (r : Req) : Loc r → Loc (restartL r) := by
  unfold Loc restartL Req.key
  grind

theorem loc_exec (s : G × List Req) (e : Ev) (h : ∀ r ∈ s.2, Loc r) : ∀ r ∈ (machine.exec s e).2, Loc r := by
  cases e with
  | restart now =>
    simp only [Machine.exec, machine]
    intro r hr
    rcases List.mem_map.1 hr with ⟨r', hr', rfl⟩
    exact loc_restart r' (h r' hr')
  | step t =>
    simp only [Machine.exec, machine]
    cases hr : s.2[t]? with
    | none => exact h
    | some r =>
      exact forall_set Loc s.2 t _ h (loc_step s.1 r (h r (mem_of_getElem? _ _ _ hr)))

theorem loc_run (g : G) (rs : List Req) (hfresh : ∀ r ∈ rs, r.fresh) (evs : List Ev) :
    ∀ r ∈ (machine.run (g, rs) evs).2, Loc r :=
  Machine.run_inv machine (fun s => ∀ r ∈ s.2, Loc r) (fun s e h => loc_exec s e h) evs (g, rs)
    (fun r hr => loc_fresh r (hfresh r hr))

/-- **authorized_at_most_one.** Same quantifiers as `at_most_one`: among all requests that are
    subject to the one-time rule under token id `k`, at most one is answered "authorized". -/
theorem authorized_at_most_one (g : G) (hp : g.persistent = true) (rs : List Req)
    (hfresh : ∀ r ∈ rs, r.fresh) (k : Str) (evs : List Ev) :
    (machine.run (g, rs) evs).2.countP (authorizedWith k) ≤ 1 := by
  refine Nat.le_trans (List.countP_mono_left ?_) (at_most_one g hp rs hfresh k evs)
  intro r hr ha
  obtain ⟨a, b, c, d⟩ := loc_run g rs hfresh evs r hr
  unfold authorizedWith at ha
  simp at ha
  unfold insertedWith
  have hk : r.key = some k := ha.2
  rcases b (a (c ha.1)) with h | h
  · simp [h, hk]
  · rw [hk] at h; cases h

/-- durable-record invariant: whoever inserted, its key is in the table -/
def Rec (s : G × List Req) : Prop :=
  s.1.persistent = true ∧ ∀ r ∈ s.2, r.inserted = true → ∃ k, r.key = some k ∧ has s.1.store k = true

theorem rec_exec (s : G × List Req) (e : Ev) : Rec s → Rec (machine.exec s e) := by
  intro ⟨hp, h⟩
  cases e with
  | restart now =>
    simp only [Machine.exec, machine, Rec, restartG, hp, if_true]
    refine ⟨trivial, ?_⟩
    intro r hr hi
    rcases List.mem_map.1 hr with ⟨r', hr', rfl⟩
    have : (restartL r').inserted = r'.inserted ∧ (restartL r').key = r'.key := by
      unfold restartL Req.key; split <;> simp
    rw [this.1] at hi; rw [this.2]
    exact h r' hr' hi
  | step t =>
    simp only [Machine.exec, machine]
    cases hr : s.2[t]? with
    | none => exact ⟨hp, h⟩
    | some r =>
      show Rec ((step s.1 r).1, s.2.set t (step s.1 r).2)
      unfold Rec; dsimp only
      have hkey := step_key s.1 r
      have hmem := mem_of_getElem? _ _ _ hr
      rcases step_cases s.1 r with ⟨hg, hi⟩ | ⟨k', hk', hno, hg, hi⟩
      · refine ⟨by rw [hg]; exact hp, ?_⟩
        rw [hg]
        refine forall_set (fun r => r.inserted = true → ∃ k, r.key = some k ∧ has s.1.store k = true) s.2 t _ h ?_
        rw [hi, hkey]; exact h r hmem
      · refine ⟨by rw [hg]; exact hp, ?_⟩
        rw [hg]; dsimp only
        refine forall_set (fun r => r.inserted = true → ∃ k, r.key = some k ∧ has (casNil s.1.store k' ()).1 k = true) s.2 t _ ?_ ?_
        · intro y hy hyi
          obtain ⟨k, hk, hh⟩ := h y hy hyi
          exact ⟨k, hk, has_casNil_mono _ _ _ _ hh⟩
        · intro _; exact ⟨k', by rw [hkey]; exact hk', has_casNil_same _ _ _⟩

/-- **crash_points.** With a persistent store, stop the process after any prefix of any
    interleaving (the event list is arbitrary, so its end is an arbitrary stop point) and restart
    it: every request that got past step 2 under a token id `k` — in particular every request
    that was answered "authorized" — has its record in the table the new process starts from.
    Hence no stop point leaves an answer without a record. -/
theorem crash_points (g : G) (hp : g.persistent = true) (rs : List Req) (hfresh : ∀ r ∈ rs, r.fresh)
    (evs : List Ev) (now : Nat) (r : Req) (k : Str)
    (hr : r ∈ (machine.run (g, rs) evs).2) (hk : r.key = some k)
    (hpast : r.past = true ∨ r.out = .authorized) :
    has (restartG now (machine.run (g, rs) evs).1).store k = true := by
  have hrec := Machine.run_inv machine Rec (fun s e h => rec_exec s e h) evs (g, rs)
    ⟨hp, fun r hr hi => by rw [(hfresh r hr).2.1] at hi; cases hi⟩
  obtain ⟨a, b, c, d⟩ := loc_run g rs hfresh evs r hr
  have hpast' : r.past = true := by
    rcases hpast with h | h
    · exact h
    · exact a (c h)
  have hins : r.inserted = true := by
    rcases b hpast' with h | h
    · exact h
    · rw [hk] at h; cases h
  obtain ⟨k2, hk2, hh⟩ := hrec.2 r hr hins
  rw [hk] at hk2; cases hk2
  simp only [restartG, hrec.1, if_true]; exact hh

/-! ## 3. the exceptions are exactly the documented ones -/

theorem key_none_iff (i : Inp) :
    i.key = none ↔ i.skip = true ∨ i.idr = .reuse ∨ i.idr = .err := by
  unfold Inp.key useKey
  cases hs : i.skip <;> cases hi : i.idr with
  | id k => cases k <;> simp
  | reuse => simp
  | err => simp

theorem getTokenID_reuse_iff (ty : PType) (t : Tok) :
    getTokenID ty t = .reuse ↔ ty = .azure true ∧ t.parses = true := by
  cases ty <;> simp [getTokenID] <;> grind

/-- every way `GetTokenID` errs: the three types that never give an id, an unparsable string,
    or (AWS only) a token its own validation rejects -/
theorem getTokenID_err_iff (ty : PType) (t : Tok) :
    getTokenID ty t = .err ↔
      ty = .k8ssa ∨ ty = .acme ∨ ty = .scep ∨ ((∃ d, ty = .aws d) ∧ t.awsValid = false) ∨
      ((∀ d, ty ≠ .aws d) ∧ t.parses = false) := by
  cases ty <;> simp [getTokenID] <;> grind

/-- **reuse_iff_configured.** A configured provisioner answers `ErrAllowTokenReuse` exactly when it is an
    Azure provisioner whose configuration says `disableTrustOnFirstUse` (and the token parses); no other
    configuration field — in particular not `disableCustomSANs` — has any influence on the token id. -/
theorem reuse_iff_configured (c : PCfg) (t : Tok) :
    (getTokenID (ptypeOf c) t = .reuse ↔ c.kind = .azure ∧ c.disableTrustOnFirstUse = true ∧ t.parses = true) ∧
    ptypeOf c = ptypeOf { c with disableCustomSANs := !c.disableCustomSANs } := by
  refine ⟨?_, by unfold ptypeOf; rfl⟩
  rw [getTokenID_reuse_iff]
  unfold ptypeOf
  cases c with
  | mk k d s => cases k <;> cases d <;> simp

/-- **tokenid_record_independent.** The id a token is recorded under depends on the provisioner's type, its
    `disableTrustOnFirstUse` switch and the token — not on `disableCustomSANs` and not on the record of the provisioner in the admin
    database: a provisioner that is migrated, or removed and created again with the same configuration, keeps every used token used. -/
theorem tokenid_record_independent (c1 c2 : PCfg) (t : Tok) (psha : Str) (hk : c1.kind = c2.kind)
    (hd : c1.disableTrustOnFirstUse = c2.disableTrustOnFirstUse) :
    useKey (getTokenID (ptypeOf c1) t) psha = useKey (getTokenID (ptypeOf c2) t) psha := by
  unfold ptypeOf; rw [hk, hd]

/-- **exceptions_exact.** In every history, a request that got past step 2 *without* its own
    CAS storing a record is one of: the skip-reuse context (identity certificate issued
    alongside an SSH certificate), a provisioner whose `GetTokenID` answers
    `ErrAllowTokenReuse` (Azure with TOFU disabled), or a `GetTokenID` error
    (K8sSA/ACME/SCEP always; any type on an unparsable string; AWS on a token it rejects). -/
theorem exceptions_exact (g : G) (rs : List Req) (hfresh : ∀ r ∈ rs, r.fresh) (evs : List Ev)
    (r : Req) (hr : r ∈ (machine.run (g, rs) evs).2)
    (hpast : r.past = true ∨ r.out = .authorized) (hni : r.inserted = false) :
    r.inp.skip = true ∨ r.inp.idr = .reuse ∨ r.inp.idr = .err := by
  obtain ⟨a, b, c, d⟩ := loc_run g rs hfresh evs r hr
  have hpast' : r.past = true := by
    rcases hpast with h | h
    · exact h
    · exact a (c h)
  rcases b hpast' with h | h
  · rw [hni] at h; cases h
  · exact (key_none_iff r.inp).1 h

/-- For the parse-based types an erroring `GetTokenID` means the string does not parse, so (the
    provisioner's validation parses the same string first: hypothesis `hv`) the request is
    refused at step 3 anyway: no authorization escapes the one-time rule through that error. -/
theorem tokenid_err_rejects (ty : PType) (t : Tok) (valid : Bool)
    (hty : ty ≠ .k8ssa ∧ ty ≠ .acme ∧ ty ≠ .scep ∧ ∀ d, ty ≠ .aws d)
    (hv : valid = true → t.parses = true)
    (herr : getTokenID ty t = .err) : valid = false := by
  rcases (getTokenID_err_iff ty t).1 herr with h | h | h | ⟨⟨d, h⟩, _⟩ | ⟨_, h⟩
  · exact absurd h hty.1
  · exact absurd h hty.2.1
  · exact absurd h hty.2.2.1
  · exact absurd h (hty.2.2.2 d)
  · cases hvv : valid
    · rfl
    · rw [hv hvv] at h; cases h

/-! ## 3b. without a database: the issued-at check, under the hypothesis the code tests -/

/-- a request that still has the issued-at check ahead of it and whose token is older than the
    current start never gets past that check -/
theorem step_blocked (g : G) (r : Req) (hchk : g.iatCheck = true) (i : Nat) (hi : r.inp.iat = some i)
    (hlt : i < g.start) (hp : r.out = .pending → r.pc ≤ 1) :
    ((step g r).2.out = .pending → (step g r).2.pc ≤ 1) ∧ (step g r).1 = g ∧ (step g r).2.inserted = r.inserted := by
  unfold step
  split
  · exact ⟨hp, rfl, rfl⟩
  · rename_i hpend
    have hpend : r.out = .pending := by simpa using hpend
    have := hp hpend
    have h01 : r.pc = 0 ∨ r.pc = 1 := by omega
    rcases h01 with h0 | h1
    · rw [h0]; simp only []; cases r.inp.lookupOK <;> simp
    · rw [h1]; simp [hchk, hi, hlt]

def InvN (k : Str) (bound : Nat) (s : G × List Req) : Prop :=
  s.1.persistent = false ∧ s.1.iatCheck = true ∧
  (∀ r ∈ s.2, r.key = some k → ∃ i, r.inp.iat = some i ∧ i ≤ bound) ∧
  s.2.countP (insertedWith k) ≤ 1 ∧
  (bound < s.1.start → ∀ r ∈ s.2, r.key = some k → r.out = .pending → r.pc ≤ 1) ∧
  (¬ bound < s.1.start → has s.1.store k = false → s.2.countP (insertedWith k) = 0)

theorem invN_exec (k : Str) (bound : Nat) (s : G × List Req) (e : Ev)
    (he : ∀ now, e = .restart now → bound < now) : InvN k bound s → InvN k bound (machine.exec s e) := by
  intro ⟨hp, hchk, hiat, h1, hafter, hbefore⟩
  cases e with
  | restart now =>
    have hnow := he now rfl
    simp only [Machine.exec, machine, InvN, restartG]
    have hcnt : (List.map restartL s.2).countP (insertedWith k) = s.2.countP (insertedWith k) := by
      rw [List.countP_map]; congr 1; funext r; exact restartL_inserted k r
    refine ⟨hp, hchk, ?_, by rw [hcnt]; exact h1, ?_, fun h => absurd hnow h⟩
    · intro r hr hk
      rcases List.mem_map.1 hr with ⟨r', hr', rfl⟩
      have : (restartL r').inp = r'.inp := by unfold restartL; split <;> simp
      have hk' : r'.key = some k := by unfold Req.key at hk ⊢; rw [this] at hk; exact hk
      rw [this]; exact hiat r' hr' hk'
    · intro _ r hr hk hpend
      rcases List.mem_map.1 hr with ⟨r', hr', rfl⟩
      revert hpend
      unfold restartL
      split
      · simp
      · rename_i hn; intro hpend
        cases hpc : r'.pc with
        | zero => omega
        | succ n => exact absurd ⟨hpend, by omega⟩ hn
  | step t =>
    simp only [Machine.exec, machine]
    cases hr : s.2[t]? with
    | none => exact ⟨hp, hchk, hiat, h1, hafter, hbefore⟩
    | some r =>
      show InvN k bound ((step s.1 r).1, s.2.set t (step s.1 r).2)
      unfold InvN; dsimp only
      have hmem := mem_of_getElem? _ _ _ hr
      have hkey := step_key s.1 r
      have hinp := step_inp s.1 r
      have hiat' : ∀ y ∈ s.2.set t (step s.1 r).2, y.key = some k → ∃ i, y.inp.iat = some i ∧ i ≤ bound :=
        forall_set _ s.2 t _ hiat (by rw [hkey, hinp]; exact hiat r hmem)
      by_cases hmode : bound < s.1.start
      · -- after a restart that is later than every token of id k
        by_cases hrk : r.key = some k
        · obtain ⟨i, hi, hib⟩ := hiat r hmem hrk
          obtain ⟨hb1, hb2, hb3⟩ := step_blocked s.1 r hchk i hi (by omega) (hafter hmode r hmem hrk)
          have hsame : insertedWith k (step s.1 r).2 = insertedWith k r := by
            unfold insertedWith; rw [hb3, hkey]
          rw [hb2]
          refine ⟨hp, hchk, hiat', by rw [countP_set_same _ _ _ _ _ hr hsame]; exact h1, ?_, fun h => absurd hmode h⟩
          intro _
          exact forall_set _ s.2 t _ (hafter hmode) (fun _ => hb1)
        · -- another id: its CAS does not count for k
          have hx : insertedWith k (step s.1 r).2 = false := by
            unfold insertedWith; rw [hkey]; simp; intro _; exact hrk
          have ha : insertedWith k r = false := by
            unfold insertedWith; simp; intro _; exact hrk
          have hstart : (step s.1 r).1.start = s.1.start ∧ (step s.1 r).1.persistent = s.1.persistent ∧ (step s.1 r).1.iatCheck = s.1.iatCheck := by
            rcases step_cases s.1 r with ⟨hg, _⟩ | ⟨k', _, _, hg, _⟩ <;> rw [hg] <;> simp
          refine ⟨by rw [hstart.2.1]; exact hp, by rw [hstart.2.2]; exact hchk, hiat',
            by rw [countP_set_same _ _ _ _ _ hr (by rw [hx, ha])]; exact h1, ?_, fun h => absurd (by rw [hstart.1]; exact hmode) h⟩
          intro _
          exact forall_set _ s.2 t _ (hafter hmode) (fun hk => absurd (by rw [hkey] at hk; exact hk) hrk)
      · -- no such restart yet: the table argument of the persistent case
        have hI : Inv k ({ s.1 with persistent := true }, s.2) := ⟨rfl, h1, hbefore hmode⟩
        have hstep : step { s.1 with persistent := true } r = ({ (step s.1 r).1 with persistent := true }, (step s.1 r).2) := by
          unfold step; (repeat' split) <;> simp_all <;> omega
        have := inv_exec k ({ s.1 with persistent := true }, s.2) (.step t) hI
        simp only [Machine.exec, machine, hr, hstep] at this
        obtain ⟨_, c1, c0⟩ := this
        have hstart : (step s.1 r).1.start = s.1.start ∧ (step s.1 r).1.persistent = s.1.persistent ∧ (step s.1 r).1.iatCheck = s.1.iatCheck := by
          rcases step_cases s.1 r with ⟨hg, _⟩ | ⟨k', _, _, hg, _⟩ <;> rw [hg] <;> simp
        refine ⟨by rw [hstart.2.1]; exact hp, by rw [hstart.2.2]; exact hchk, hiat', c1,
          fun h => absurd (by rw [hstart.1] at h; exact h) hmode, fun _ => c0⟩

/-- **no_db_restart_partial.** Without a database (the table is emptied by every restart), with
    the issued-at check on: if every restart of the history falls into a second strictly later
    than the `iat` of every token presented under id `k` — the hypothesis is exactly what the
    code tests, `iat < startTime` on whole seconds — then again at most one request gets past
    the CAS under `k`, for every interleaving and placement of such restarts. The same-second
    case is `no_db_same_second_replay`. -/
theorem no_db_restart_partial (g : G) (hnp : g.persistent = false) (hchk : g.iatCheck = true)
    (rs : List Req) (hfresh : ∀ r ∈ rs, r.fresh) (k : Str) (bound : Nat)
    (hiat : ∀ r ∈ rs, r.key = some k → ∃ i, r.inp.iat = some i ∧ i ≤ bound)
    (evs : List Ev) (hrs : ∀ e ∈ evs, ∀ now, e = .restart now → bound < now) :
    (machine.run (g, rs) evs).2.countP (insertedWith k) ≤ 1 := by
  have h0 : rs.countP (insertedWith k) = 0 :=
    fresh_count_zero _ rs (fun r hr => by unfold insertedWith; rw [(hfresh r hr).2.1]; rfl)
  have := Machine.run_inv_of machine (InvN k bound) (fun e => ∀ now, e = .restart now → bound < now)
    (fun s e he h => invN_exec k bound s e he h) evs (g, rs) hrs
    ⟨hnp, hchk, hiat, by rw [h0]; omega, fun _ r hr _ _ => by rw [(hfresh r hr).1]; omega, fun _ _ => h0⟩
  exact this.2.2.2.1

/-! ## 3c. configuration reloads are not restarts -/

theorem step_persistent_irrelevant (g : G) (r : Req) (b : Bool) :
    step { g with persistent := b } r = ({ (step g r).1 with persistent := b }, (step g r).2) := by
  unfold step; (repeat' split) <;> simp_all <;> omega

/-- **reload_at_most_one.** In a running process — with or without a database — whose configuration is reloaded any
    number of times at any moments (the used-token table is handed over to the new authority; requests in flight
    continue): for every set of requests and every interleaving, at most one request stores the record of a token
    id. In particular a CA without a database does not forget used tokens on SIGHUP. -/
theorem reload_at_most_one (g : G) (rs : List Req) (hfresh : ∀ r ∈ rs, r.fresh) (k : Str) (evs : List Ev) :
    (machineReload.run (g, rs) evs).2.countP (insertedWith k) ≤ 1 := by
  have h0 : rs.countP (insertedWith k) = 0 :=
    fresh_count_zero _ rs (fun r hr => by unfold insertedWith; rw [(hfresh r hr).2.1]; rfl)
  have := Machine.run_inv machineReload
    (fun s => s.2.countP (insertedWith k) ≤ 1 ∧ (has s.1.store k = false → s.2.countP (insertedWith k) = 0))
    (fun s e ⟨h1, h2⟩ => by
      cases e with
      | restart now =>
        have hm : (machineReload.exec s (.restart now)).2 = s.2 := by simp [Machine.exec, machineReload]
        have hg : (machineReload.exec s (.restart now)).1.store = s.1.store := by simp [Machine.exec, machineReload]
        rw [hm, hg]; exact ⟨h1, h2⟩
      | step t =>
        have hI : Inv k ({ s.1 with persistent := true }, s.2) := ⟨rfl, h1, h2⟩
        have := inv_exec k ({ s.1 with persistent := true }, s.2) (.step t) hI
        simp only [Machine.exec, machine, machineReload] at this ⊢
        cases hr : s.2[t]? with
        | none => exact ⟨h1, h2⟩
        | some r =>
          simp only [hr, step_persistent_irrelevant] at this
          exact ⟨this.2.1, this.2.2⟩)
    evs (g, rs) ⟨by rw [h0]; omega, fun _ => h0⟩
  exact this.1

/-! ## 4. what the code as it stands does not give (D12) -/

def mkReq (iat : Option Nat) (idr : IdR) (sha : Str) : Req :=
  { inp := { lookupOK := true, iat := iat, idr := idr, sha := sha, skip := false, valid := true } }

/-- **D12a (refutation).** Without a database the used-token table dies with the process and the
    issued-at test is `iat < startTime` on whole seconds: a token minted in second 100, used,
    and replayed after a restart that also falls into second 100 is authorized twice. -/
theorem no_db_same_second_replay :
    ∃ (g : G) (rs : List Req) (evs : List Ev), g.persistent = false ∧ g.iatCheck = true ∧
      (∀ r ∈ rs, r.fresh) ∧
      (machine.run (g, rs) evs).2.countP (authorizedWith (s "jti-1")) = 2 :=
  ⟨{ store := [], persistent := false, iatCheck := true, start := 100 },
   [mkReq (some 100) (.id (s "jti-1")) [1], mkReq (some 100) (.id (s "jti-1")) [1]],
   [.step 0, .step 0, .step 0, .step 0, .restart 100, .step 1, .step 1, .step 1, .step 1],
   by decide⟩

/-- **D12b (historic refutation; fixed in /repo by c4bb6a3).** Two presentations with an empty id whose
    fallback hashes differ are two ids, and both are authorized even with a persistent store. Before c4bb6a3 the
    fallback hash was taken over the *presented string*, and go-jose accepts many spellings of one token (`tok`,
    `tok\n`, ` tok`, `tok=`, JSON serialization with an unprotected header, ECDSA signature (r, n-s)), so one
    token was authorized once per spelling. Since the fix the hash is over the signed payload, which all spellings
    share: `same_payload_one_authorization`. -/
theorem respelled_token_twice :
    ∃ (g : G) (rs : List Req) (evs : List Ev), g.persistent = true ∧ (∀ r ∈ rs, r.fresh) ∧
      (∀ r ∈ rs, r.inp.idr = .id []) ∧
      ((machine.run (g, rs) evs).2.countP (fun r => r.out == .authorized)) = 2 :=
  ⟨{ store := [], persistent := true, iatCheck := true, start := 100 },
   [mkReq (some 100) (.id []) [0xaa], mkReq (some 100) (.id []) [0xbb]],
   [.step 0, .step 0, .step 0, .step 0, .step 1, .step 1, .step 1, .step 1],
   by decide⟩

/-- **D12c (refutation, open).** GCP and AWS provisioners with trust on first use disabled return the hash of the
    *presented string* as token id themselves (`GetTokenID`), so c4bb6a3 does not reach them: two spellings of one
    token (same payload hash, different string hash) get different ids — and by `respelled_token_twice`-style
    runs both are authorized. -/
theorem cloud_no_tofu_keyed_by_string (t1 t2 : Tok) (hp1 : t1.parses = true) (hp2 : t2.parses = true)
    (hv1 : t1.awsValid = true) (hv2 : t2.awsValid = true) (_hsame : t1.psha = t2.psha) (hdiff : t1.sha ≠ t2.sha)
    (hne1 : t1.sha ≠ []) (hne2 : t2.sha ≠ []) :
    useKey (getTokenID (.gcp true) t1) t1.psha ≠ useKey (getTokenID (.gcp true) t2) t2.psha ∧
    useKey (getTokenID (.aws true) t1) t1.psha ≠ useKey (getTokenID (.aws true) t2) t2.psha := by
  simp only [getTokenID, hp1, hp2, hv1, hv2]
  cases h1 : t1.sha with
  | nil => exact absurd h1 hne1
  | cons a as =>
    cases h2 : t2.sha with
    | nil => exact absurd h2 hne2
    | cons b bs =>
      simp [useKey]
      intro ha hb; apply hdiff; rw [h1, h2, ha, hb]

/-- **renew_token_single_use.** For a certificate issued by a provisioner of *any* type, the renew token is recorded
    under a key (its jti, or its payload hash when it has none) that does not depend on that type: it is never exempt
    from the one-time rule, so `at_most_one` / `authorized_at_most_one` / `crash_points` apply to renew tokens of every
    issuer — with a persistent store at most one presentation is authorized, for every interleaving and restart
    placement. -/
theorem renew_token_single_use (ty : PType) (t : Tok) :
    (useKey (renewIdR ty t) t.psha).isSome = true ∧ renewIdR ty t = renewIdR .jwk t ∧
    (t.jti ≠ [] → useKey (renewIdR ty t) t.psha = some t.jti) ∧ (t.jti = [] → useKey (renewIdR ty t) t.psha = some t.psha) := by
  unfold renewIdR useKey
  cases h : t.jti <;> simp

theorem renew_tokens_at_most_one (g : G) (hp : g.persistent = true) (rs : List Req) (hfresh : ∀ r ∈ rs, r.fresh)
    (ty : PType) (t : Tok) (evs : List Ev) :
    ∃ k, useKey (renewIdR ty t) t.psha = some k ∧
      (machine.run (g, rs) evs).2.countP (authorizedWith k) ≤ 1 := by
  obtain ⟨h1, _⟩ := renew_token_single_use ty t
  cases hk : useKey (renewIdR ty t) t.psha with
  | none => rw [hk] at h1; cases h1
  | some k => exact ⟨k, rfl, authorized_at_most_one g hp rs hfresh k evs⟩

/-- **D12d (historic refutation; fixed in /repo by the commit "make renew tokens single-use whatever provisioner issued
    the certificate").** Before the fix `AuthorizeRenewToken` asked the provisioner of the *certificate* for the id of the
    renew token (`renewIdROld`). For a certificate issued by an ACME, SCEP or K8sSA provisioner that call fails,
    `UseToken` recorded nothing, and the same renew token was authorized any number of times. -/
theorem renew_token_replayable_for_idless_issuers :
    (∀ t, renewIdROld .acme t = .err ∧ renewIdROld .scep t = .err ∧ renewIdROld .k8ssa t = .err) ∧
    ∃ (g : G) (rs : List Req) (evs : List Ev), g.persistent = true ∧ (∀ r ∈ rs, r.fresh) ∧
      (∀ r ∈ rs, r.inp.idr = .err ∧ r.inp.skip = false) ∧
      (machine.run (g, rs) evs).2.countP (fun r => r.out == .authorized) = 3 :=
  ⟨fun _ => ⟨rfl, rfl, rfl⟩,
   { store := [], persistent := true, iatCheck := true, start := 100 },
   [mkReq none .err [1], mkReq none .err [1], mkReq none .err [1]],
   [.step 0, .step 0, .step 0, .step 0, .step 1, .step 1, .step 1, .step 1, .step 2, .step 2, .step 2, .step 2],
   by decide⟩

/-- **same_payload_one_authorization.** All presentations of a token without id that carry the same signed
    payload (same fallback hash `h`) share the key `h`: with a persistent store at most one of them is authorized,
    for every interleaving and restart placement — whatever spelling each used. -/
theorem same_payload_one_authorization (g : G) (hp : g.persistent = true) (rs : List Req)
    (hfresh : ∀ r ∈ rs, r.fresh) (h : Str) (evs : List Ev) :
    (machine.run (g, rs) evs).2.countP (fun r => r.out == .authorized && r.inp.idr == .id [] && r.inp.sha == h && !r.inp.skip) ≤ 1 := by
  refine Nat.le_trans (List.countP_mono_left ?_) (authorized_at_most_one g hp rs hfresh h evs)
  intro r _ hr
  simp at hr
  unfold authorizedWith Req.key Inp.key useKey
  simp [hr.1.1.1, hr.1.1.2, hr.1.2, hr.2]

/-! ## non-vacuity: the hypotheses are met by runs in which something happens -/

example : (machine.run ({ store := [], persistent := true, iatCheck := true, start := 100 },
    [mkReq (some 100) (.id (s "a")) [1], mkReq (some 101) (.id (s "a")) [1]])
    [.step 0, .step 1, .step 1, .step 0, .step 1, .step 0, .restart 105, .step 0, .step 1]).2.map (·.out)
    = [.denyUsed, .dropped] := by decide

example : (machine.run ({ store := [], persistent := true, iatCheck := true, start := 100 },
    [mkReq (some 100) (.id (s "a")) [1], mkReq (some 101) (.id (s "a")) [1]])
    [.step 0, .step 1, .step 1, .step 0, .step 1, .step 0, .step 0, .step 1]).2.map (·.out)
    = [.denyUsed, .authorized] := by decide

example : ∃ evs, (machine.run ({ store := [], persistent := false, iatCheck := true, start := 100 },
    [mkReq (some 100) (.id (s "a")) [1], mkReq (some 100) (.id (s "a")) [1]]) evs).2.map (·.out)
    = [.authorized, .denyIat] :=
  ⟨[.step 0, .step 0, .step 0, .step 0, .restart 101, .step 1, .step 1, .step 1, .step 1], by decide⟩


example : (machineReload.run ({ store := [], persistent := false, iatCheck := true, start := 100 },
    [mkReq none (.id (s "a")) [1], mkReq none (.id (s "a")) [1]])
    [.step 0, .step 0, .step 0, .step 0, .restart 105, .step 1, .step 1, .step 1, .step 1]).2.map (·.out)
    = [.authorized, .denyUsed] := by decide


/-! ## the SSH sign handler with an identity CSR: two authorizations of one token in one HTTP request -/

theorem restartL_inp (r : Req) : (restartL r).inp = r.inp := by
  unfold restartL; split <;> rfl

theorem restartL_fresh (r : Req) (h : r.fresh) : (restartL r).fresh := by
  obtain ⟨h1, h2, h3, h4⟩ := h
  unfold restartL Req.fresh; simp [h1, h2, h3, h4]

theorem restartL_authorized (r : Req) (h : r.out = .authorized) : (restartL r).out = .authorized := by
  unfold restartL; simp [h]

def aIns (k : Str) (h : HReq) : Bool := insertedWith k h.a

/-- per HTTP request: `a` obeys the per-request facts, `b` is exempt, and `b` has not moved unless `a` was authorized -/
def HLoc (h : HReq) : Prop := Loc h.a ∧ h.b.inp.skip = true ∧ (h.b.fresh ∨ h.a.out = .authorized)

def HInv (k : Str) (s : G × List HReq) : Prop :=
  s.1.persistent = true ∧ s.2.countP (aIns k) ≤ 1 ∧ (has s.1.store k = false → s.2.countP (aIns k) = 0) ∧
    ∀ h ∈ s.2, HLoc h

theorem hinv_exec (k : Str) (s : G × List HReq) (e : Ev) : HInv k s → HInv k (hmachine.exec s e) := by
  intro ⟨hp, h1, h0, hl⟩
  cases e with
  | restart now =>
    simp only [Machine.exec, hmachine, HInv, restartG, hp, if_true]
    have : (List.map hrestartL s.2).countP (aIns k) = s.2.countP (aIns k) := by
      rw [List.countP_map]
      congr 1
      funext h
      exact restartL_inserted k h.a
    rw [this]
    refine ⟨trivial, h1, h0, ?_⟩
    intro h hh
    rcases List.mem_map.1 hh with ⟨h', hh', rfl⟩
    obtain ⟨la, lb, lc⟩ := hl h' hh'
    refine ⟨loc_restart _ la, by simp only [hrestartL]; rw [restartL_inp]; exact lb, ?_⟩
    rcases lc with lc | lc
    · left; exact restartL_fresh _ lc
    · right; exact restartL_authorized _ lc
  | step t =>
    simp only [Machine.exec, hmachine]
    cases hr : s.2[t]? with
    | none => exact ⟨hp, h1, h0, hl⟩
    | some h =>
      have hmem := mem_of_getElem? _ _ _ hr
      obtain ⟨la, lb, lc⟩ := hl h hmem
      show HInv k ((hstep s.1 h).1, s.2.set t (hstep s.1 h).2)
      unfold hstep
      split
      · -- the first authorization steps
        rename_i hpend
        have hbf : h.b.fresh := by
          rcases lc with lc | lc
          · exact lc
          · rw [lc] at hpend; cases hpend
        have hloc : HLoc { h with a := (step s.1 h.a).2 } := ⟨loc_step s.1 h.a la, lb, Or.inl hbf⟩
        unfold HInv; dsimp only
        have hkey := step_key s.1 h.a
        rcases step_cases s.1 h.a with ⟨hg, hi⟩ | ⟨k', hk', hno, hg, hi⟩
        · have hsame : aIns k { h with a := (step s.1 h.a).2 } = aIns k h := by
            unfold aIns insertedWith; dsimp only; rw [hi, hkey]
          refine ⟨by rw [hg]; exact hp, ?_, ?_, forall_set HLoc s.2 t _ hl hloc⟩
          · rw [countP_set_same _ _ _ _ _ hr hsame]; exact h1
          · rw [hg, countP_set_same _ _ _ _ _ hr hsame]; exact h0
        · have hc := countP_set (aIns k) s.2 t h { h with a := (step s.1 h.a).2 } hr
          by_cases hkk : k = k'
          · subst hkk
            have hz := h0 hno
            refine ⟨by rw [hg]; exact hp, ?_, ?_, forall_set HLoc s.2 t _ hl hloc⟩
            · rw [hz] at hc; split at hc <;> split at hc <;> omega
            · rw [hg]; simp only []
              rw [has_casNil_same]; intro h; cases h
          · have hx : aIns k { h with a := (step s.1 h.a).2 } = false := by
              unfold aIns insertedWith; dsimp only; rw [hkey, hk']; simp; intro _; exact fun h => hkk h.symm
            have ha : aIns k h = false := by
              unfold aIns insertedWith; rw [hk']; simp; intro _; exact fun h => hkk h.symm
            rw [hx, ha] at hc
            simp at hc
            refine ⟨by rw [hg]; exact hp, by omega, ?_, forall_set HLoc s.2 t _ hl hloc⟩
            rw [hg]; simp only []
            rw [has_casNil_other _ _ _ _ hkk, hc]; exact h0
      · split
        · -- the second authorization steps: exempt, the table is not touched
          rename_i hauth
          have hbkey : h.b.key = none := by unfold Req.key Inp.key; simp [lb]
          have hg : (step s.1 h.b).1 = s.1 := by
            rcases step_cases s.1 h.b with ⟨hg, _⟩ | ⟨k', hk', _⟩
            · exact hg
            · rw [hbkey] at hk'; cases hk'
          have hloc : HLoc { h with b := (step s.1 h.b).2 } :=
            ⟨la, by dsimp only; rw [step_inp]; exact lb, Or.inr hauth.1⟩
          have hsame : aIns k { h with b := (step s.1 h.b).2 } = aIns k h := rfl
          unfold HInv; dsimp only
          refine ⟨by rw [hg]; exact hp, ?_, ?_, forall_set HLoc s.2 t _ hl hloc⟩
          · rw [countP_set_same _ _ _ _ _ hr hsame]; exact h1
          · rw [hg, countP_set_same _ _ _ _ _ hr hsame]; exact h0
        · unfold HInv; dsimp only
          refine ⟨hp, ?_, ?_, forall_set HLoc s.2 t _ hl ⟨la, lb, lc⟩⟩
          · rw [countP_set_same _ _ _ _ _ hr rfl]; exact h1
          · rw [countP_set_same _ _ _ _ _ hr rfl]; exact h0

/-- **handler_at_most_one.** The SSH sign handler authorizes one token twice when the body carries an identity CSR, the
    second time exempt from the one-time rule. With a persistent store, for every set of such HTTP requests (any tokens,
    with and without identity CSR), every interleaving of the atomic steps of their authorizations and every placement of
    restarts: at most one HTTP request per token id gets anything (SSH certificate or identity certificate) — the exempt
    authorization never serves a request whose own first authorization did not store the record. -/
theorem handler_at_most_one (g : G) (hp : g.persistent = true) (hs : List HReq) (hwf : ∀ h ∈ hs, h.wf)
    (k : Str) (evs : List Ev) :
    (hmachine.run (g, hs) evs).2.countP (served k) ≤ 1 := by
  have h0 : hs.countP (aIns k) = 0 := by
    rw [List.countP_eq_zero]
    intro h hh
    unfold aIns insertedWith; rw [(hwf h hh).1.2.1]; simp
  have hinv := Machine.run_inv hmachine (HInv k) (fun s e h => hinv_exec k s e h) evs (g, hs)
    ⟨hp, by rw [h0]; omega, fun _ => h0, fun h hh => ⟨loc_fresh _ (hwf h hh).1, (hwf h hh).2.2, Or.inl (hwf h hh).2.1⟩⟩
  refine Nat.le_trans (List.countP_mono_left ?_) hinv.2.1
  intro h hh hsv
  obtain ⟨⟨a, b, c, d⟩, _, lc⟩ := hinv.2.2.2 h hh
  unfold served at hsv
  simp at hsv
  have hk : h.a.key = some k := hsv.2
  have hauth : h.a.out = .authorized := by
    rcases hsv.1 with h1 | h1
    · exact h1
    · rcases lc with lc | lc
      · rw [lc.2.2.2] at h1; cases h1
      · exact lc
  unfold aIns insertedWith
  rcases b (a (c hauth)) with h | h
  · simp [h, hk]
  · rw [hk] at h; cases h

/-- the exempt authorization alone would serve any number of requests: what `handler_at_most_one` rests on is the order
    inside the handler -/
theorem skip_alone_unbounded (g : G) (r : Req) (hf : r.fresh) (hs : r.inp.skip = true) (hl : r.inp.lookupOK = true)
    (hi : r.inp.iat = none) (hv : r.inp.valid = true) :
    (step (step (step (step g r).1 (step g r).2).1 (step (step g r).1 (step g r).2).2).1
      (step (step (step g r).1 (step g r).2).1 (step (step g r).1 (step g r).2).2).2).2.out = .authorized ∧
    (step (step (step (step g r).1 (step g r).2).1 (step (step g r).1 (step g r).2).2).1
      (step (step (step g r).1 (step g r).2).1 (step (step g r).1 (step g r).2).2).2).1 = g := by
  obtain ⟨h1, h2, h3, h4⟩ := hf
  cases r with
  | mk inp pc ins past out =>
    simp only at h1 h2 h3 h4 hs hl hi hv
    subst h1 h2 h3 h4
    cases hc : g.iatCheck <;> simp [step, Req.key, Inp.key, hs, hl, hi, hv, hc]

end Verif.OTT
