import Verif.Model.SSH
import Verif.Props.C03
/-!
  C14 — SSH certificates carry only the authorized type, identity and principals.

  Property theorems only; statements are about `Verif.SSH.sshSign`, `popRenew`, `popRekey`,
  `popAuthorize` (the model of Authorize + SignSSH / RenewSSH / RekeySSH), tied to the code by
  the end-to-end correspondence check harness/cmd/c14 <-> lean/Driver/C14.lean.
-/
namespace Verif.SSH
open Verif

/-- what a JWK / X5C token states: type (user when absent), key id and principals (the subject
    when absent) -/
def tokenCert (sub : Str) (o : Opts) (ct : CT) : Cert :=
  ⟨ct.num, if o.keyID = [] then sub else o.keyID,
   if o.principals.length > 0 then o.principals else [sub]⟩

/-- the certificate type a token's `certType` string denotes -/
def tokenType (o : Opts) : Option CT :=
  if o.certType = [] then some .user else certTypeFromString o.certType

/-! ## inversion lemmas -/

theorem authorizeSign_ok {prov : Prov} {t : Token} {o : Oidc} {p : Plan}
    (h : authorizeSign prov t o = .ok p) : t.sub ≠ [] ∧ authorizeClaims prov t o = .ok p := by
  unfold authorizeSign at h
  split at h
  · cases h
  · rename_i hs; exact ⟨hs, h⟩

theorem authorizeSign_tok (prov : Prov) (hp : prov = .jwk ∨ prov = .x5c) (t : Token) (o : Oidc) (p : Plan)
    (h : authorizeSign prov t o = .ok p) :
    ∃ opts ct, t.ssh = some opts ∧ tokenType opts = some ct ∧
      p = { checks := [.matches opts, .matches ⟨[], t.sub, []⟩],
            data := ⟨ct, if opts.keyID = [] then t.sub else opts.keyID,
                     if opts.principals.length > 0 then opts.principals else [t.sub]⟩,
            tpl := .default } := by
  have h := (authorizeSign_ok h).2
  rcases hp with rfl | rfl <;>
  · simp only [authorizeClaims] at h
    cases hs : t.ssh with
    | none => simp [hs] at h
    | some opts =>
      simp only [hs] at h
      cases hc : (if opts.certType = [] then some CT.user else certTypeFromString opts.certType) with
      | none => simp [hc] at h
      | some ct =>
        simp only [hc] at h
        injection h with h
        exact ⟨opts, ct, rfl, hc, h.symm⟩

/-- what a Nebula plan looks like: default template, host type, key id and principals from the
    token's options when present (and then every principal certified by the Nebula certificate),
    else the subject and the certificate's name and addresses -/
theorem authorizeClaims_nebula {t : Token} {o : Oidc} {p : Plan} (h : authorizeClaims .nebula t o = .ok p) :
    p.tpl = .default ∧ p.data.ct = .host ∧
    ((t.ssh = none ∧ p.data.keyID = t.sub ∧ p.data.principals = o.nebName :: o.nebIPs) ∨
     (∃ opts, t.ssh = some opts ∧ nebPrincipalsValid o opts.principals = true ∧
        (opts.certType = [] ∨ opts.certType = sHost) ∧
        p.data.keyID = (if opts.keyID = [] then t.sub else opts.keyID) ∧
        p.data.principals = (if opts.principals.length > 0 then opts.principals else o.nebName :: o.nebIPs))) := by
  simp only [authorizeClaims] at h
  cases hs : t.ssh with
  | none =>
    simp only [hs] at h
    injection h with h; subst h
    exact ⟨rfl, rfl, .inl ⟨rfl, rfl, rfl⟩⟩
  | some opts =>
    simp only [hs] at h
    split at h
    · cases h
    · rename_i hv
      split at h
      · cases h
      · rename_i hc
        injection h with h; subst h
        refine ⟨rfl, rfl, .inr ⟨opts, rfl, by simpa using hv, ?_, rfl, rfl⟩⟩
        by_cases h1 : opts.certType = []
        · exact .inl h1
        · by_cases h2 : opts.certType = sHost
          · exact .inr h2
          · exact absurd ⟨h1, h2⟩ hc

theorem signSSH_issued {ca : CAKeys} {p : Plan} {req : Opts} {key : KeyClass} {tv rv : RVal} {c : Cert} {sg : Signer}
    (h : signSSH ca p req key tv rv = .issued c sg) :
    validateOpts req = true ∧ checkOpts req p.checks = none ∧ applyTemplate p req = .cert c ∧
    selectSigner ca c.ct 500 = .inr sg ∧ keyStatus key = none ∧ c.keyID ≠ [] ∧
    storeOK ca c.principals = true ∧
    (ca.emptyPrincipalCheck = true → [] ∉ c.principals) ∧
    validityMismatch tv rv = false ∧ modifyValidityBad rv = false := by
  unfold signSSH at h
  split at h
  · cases h
  · rename_i hv
    split at h
    · cases h
    · rename_i hc
      split at h
      · cases h
      · rename_i hvm
        split at h
        · cases h
        · rename_i c' ht
          split at h
          · cases h
          · rename_i hmv
            split at h
            · cases h
            · rename_i sg' hs
              split at h
              · cases h
              · rename_i hk
                split at h
                · cases h
                · split at h
                  · cases h
                  · split at h
                    · cases h
                    · rename_i hid hep hst
                      injection h with h1 h2
                      subst h1 h2
                      exact ⟨by simpa using hv, hc, ht, hs, hk, hid, by simpa using hst, by simpa using hep,
                        by simpa using hvm, by simpa using hmv⟩

theorem sshSign_issued {ca : CAKeys} {prov : Prov} {t : Token} {o : Oidc} {req : Opts} {key : KeyClass} {rv : RVal}
    {c : Cert} {sg : Signer} (h : sshSign ca prov t o req key rv = .issued c sg) :
    ∃ p, authorizeSign prov t o = .ok p ∧ signSSH ca p req key ⟨o.tva, o.tvb⟩ rv = .issued c sg := by
  unfold sshSign at h
  split at h
  · cases h
  · split at h
    · cases h
    · rename_i p hp
      exact ⟨p, hp, h⟩

theorem selectSigner_inr {ca : CAKeys} {ct u : Nat} {sg : Signer} (h : selectSigner ca ct u = .inr sg) :
    (ct = 1 ∧ sg = .userKey ∧ ca.user = true) ∨ (ct = 2 ∧ sg = .hostKey ∧ ca.host = true) := by
  unfold selectSigner at h
  split at h
  · split at h
    · injection h with h; exact .inl ⟨by assumption, h.symm, by assumption⟩
    · cases h
  · split at h
    · split at h
      · injection h with h; exact .inr ⟨by assumption, h.symm, by assumption⟩
      · cases h
    · cases h

/-! ## 1. ssh_cert_fields -/

/-- **ssh_cert_fields.** A certificate issued for a JWK or X5C token has the type, key id and
    principals stated in the token (user / the subject / the subject when absent) — for every
    request-option record, every key and every signer configuration. -/
theorem ssh_cert_fields (ca : CAKeys) (prov : Prov) (hp : prov = .jwk ∨ prov = .x5c) (t : Token) (o : Oidc)
    (req : Opts) (key : KeyClass) (rv : RVal) (c : Cert) (sg : Signer)
    (h : sshSign ca prov t o req key rv = .issued c sg) :
    ∃ opts ct, t.ssh = some opts ∧ tokenType opts = some ct ∧ c = tokenCert t.sub opts ct := by
  obtain ⟨p, hp', hs⟩ := sshSign_issued h
  obtain ⟨opts, ct, h1, h2, rfl⟩ := authorizeSign_tok prov hp t o p hp'
  obtain ⟨_, _, ht, _⟩ := signSSH_issued hs
  simp only [applyTemplate] at ht
  injection ht with ht
  exact ⟨opts, ct, h1, h2, ht.symm⟩

example :
    sshSign ⟨true, true, true, false⟩ .jwk ⟨s "alice", some ⟨s "host", [], [s "a.example.com", s "b.example.com"]⟩⟩ ⟨[], [], [], [], [], none, none⟩
      ⟨[], s "attacker", [s "A.example.com"]⟩ .ok noVal
    = .issued ⟨2, s "alice", [s "a.example.com", s "b.example.com"]⟩ .hostKey := by decide

/-- **nebula_ssh_fields.** A certificate issued for a Nebula token is a *host* certificate signed
    with the host key; its principals are the token's — each of which is the Nebula certificate's
    name or parses as one of its addresses — or, when the token lists none, the certificate's name
    and addresses; the key id is the token's or the subject. -/
theorem nebula_ssh_fields (ca : CAKeys) (t : Token) (o : Oidc) (req : Opts) (key : KeyClass) (rv : RVal)
    (c : Cert) (sg : Signer) (h : sshSign ca .nebula t o req key rv = .issued c sg) :
    c.ct = 2 ∧ sg = .hostKey ∧
    ((t.ssh = none ∧ c.keyID = t.sub ∧ c.principals = o.nebName :: o.nebIPs) ∨
     (∃ opts, t.ssh = some opts ∧ nebPrincipalsValid o opts.principals = true ∧
        c.keyID = (if opts.keyID = [] then t.sub else opts.keyID) ∧
        c.principals = (if opts.principals.length > 0 then opts.principals else o.nebName :: o.nebIPs))) := by
  obtain ⟨p, hp, hs⟩ := sshSign_issued h
  obtain ⟨_, _, ht, hsel, _⟩ := signSSH_issued hs
  obtain ⟨h1, h2, h3⟩ := authorizeClaims_nebula (authorizeSign_ok hp).2
  simp only [applyTemplate, h1] at ht
  injection ht with ht
  subst ht
  have hct : p.data.ct.num = 2 := by rw [h2]; rfl
  refine ⟨hct, ?_, ?_⟩
  · rcases selectSigner_inr hsel with ⟨h4, _, _⟩ | ⟨_, h5, _⟩
    · simp only at h4; omega
    · exact h5
  · rcases h3 with ⟨a, b, c⟩ | ⟨opts, a, b, _, d, e⟩
    · exact .inl ⟨a, b, c⟩
    · exact .inr ⟨opts, a, b, d, e⟩

/-- every principal the Nebula validator lets through is the certificate's name or one of its
    addresses (as canonical text of `net.ParseIP`) -/
theorem nebPrincipalsValid_sound (o : Oidc) (ps : List Str)
    (h : nebPrincipalsValid o ps = true) :
    ∀ x ∈ ps.zip o.prinIP, x.1 = o.nebName ∨ ∃ a, x.2 = some a ∧ a ∈ o.nebIPs := by
  intro x hx
  unfold nebPrincipalsValid at h
  rw [List.all_eq_true] at h
  have := h x hx
  obtain ⟨p, ip⟩ := x
  simp only [Bool.or_eq_true, decide_eq_true_eq] at this
  rcases this with h1 | h1
  · exact .inl h1
  · cases ip with
    | none => simp at h1
    | some a => exact .inr ⟨a, rfl, by simpa using h1⟩

example :
    sshSign ⟨true, true, true, false⟩ .nebula ⟨s "host-a.neb", none⟩ ⟨[], [], s "host-a.neb", [s "10.1.1.7"], [], none, none⟩
      ⟨s "user", s "x", [s "root"]⟩ .ok noVal
    = .issued ⟨2, s "host-a.neb", [s "host-a.neb", s "10.1.1.7"]⟩ .hostKey := by decide

/-- a Nebula token that lists a foreign principal is not even authorized -/
example :
    sshSign ⟨true, true, true, false⟩ .nebula ⟨s "host-a.neb", some ⟨[], [], [s "other.neb"]⟩⟩
      ⟨[], [], s "host-a.neb", [s "10.1.1.7"], [none], none, none⟩ ⟨[], [], []⟩ .ok noVal = .refused 401 := by decide

/-! ## 2. request_cannot_extend -/

/-- **request_cannot_extend.** With the default template (JWK, X5C, OIDC non-administrator, Nebula) the
    request options can make the request fail but never change the result: any two requests
    that are both issued under the same token get the same certificate fields and signer. -/
theorem request_cannot_extend (ca : CAKeys) (prov : Prov) (hp : prov ≠ .oidc true) (hk : prov ≠ .k8ssa)
    (ha : ∀ d, prov ≠ .aws d) (t : Token) (o : Oidc)
    (req req' : Opts) (key key' : KeyClass) (rv rv' : RVal) (c c' : Cert) (sg sg' : Signer)
    (h : sshSign ca prov t o req key rv = .issued c sg)
    (h' : sshSign ca prov t o req' key' rv' = .issued c' sg') : c = c' ∧ sg = sg' := by
  obtain ⟨p, hp1, hs⟩ := sshSign_issued h
  obtain ⟨p', hp2, hs'⟩ := sshSign_issued h'
  rw [hp1] at hp2; injection hp2 with hp2; subst hp2
  obtain ⟨_, _, ht, hsel, _⟩ := signSSH_issued hs
  obtain ⟨_, _, ht', hsel', _⟩ := signSSH_issued hs'
  have hd : p.tpl = .default := by
    cases prov with
    | jwk =>
      obtain ⟨_, _, _, _, rfl⟩ := authorizeSign_tok .jwk (.inl rfl) t o p hp1; rfl
    | x5c =>
      obtain ⟨_, _, _, _, rfl⟩ := authorizeSign_tok .x5c (.inr rfl) t o p hp1; rfl
    | oidc a =>
      cases a with
      | true => exact absurd rfl hp
      | false => have := (authorizeSign_ok hp1).2; simp [authorizeClaims] at this; rw [← this]
    | nebula => exact (authorizeClaims_nebula (authorizeSign_ok hp1).2).1
    | k8ssa => exact absurd rfl hk
    | aws d => exact absurd rfl (ha d)
  simp only [applyTemplate, hd] at ht ht'
  rw [ht] at ht'; injection ht' with hcc
  subst hcc
  rw [hsel] at hsel'; injection hsel' with hsg
  exact ⟨rfl, hsg⟩

/-- what an accepted request may contain: its type is absent or the token's, and its principals
    are absent or (case-insensitively) among the token's — "repeat or omit" -/
theorem containsAllMembers_sound (g sub : List Str) (h : containsAllMembers g sub = true) :
    ∀ x ∈ sub, ∃ y ∈ g, Str.lower x = Str.lower y := by
  unfold containsAllMembers at h
  split at h
  · cases h
  · intro x hx
    rw [List.all_eq_true] at h
    have := h x hx
    simp only [List.contains_eq_mem, List.mem_map, decide_eq_true_eq] at this
    obtain ⟨y, hy, he⟩ := this
    exact ⟨y, hy, he.symm⟩

theorem accepted_request_shape (ca : CAKeys) (prov : Prov) (hp : prov = .jwk ∨ prov = .x5c) (t : Token) (o : Oidc)
    (req : Opts) (key : KeyClass) (rv : RVal) (c : Cert) (sg : Signer)
    (h : sshSign ca prov t o req key rv = .issued c sg) :
    ∃ opts, t.ssh = some opts ∧
      (req.certType = [] ∨ opts.certType = [] ∨ req.certType = opts.certType) ∧
      (req.principals = [] ∨ opts.principals = [] ∨
        ∀ x ∈ req.principals, ∃ y ∈ opts.principals, Str.lower x = Str.lower y) := by
  obtain ⟨p, hp', hs⟩ := sshSign_issued h
  obtain ⟨opts, ct, h1, _, rfl⟩ := authorizeSign_tok prov hp t o p hp'
  obtain ⟨_, hc, _⟩ := signSSH_issued hs
  refine ⟨opts, h1, ?_, ?_⟩
  · simp only [checkOpts] at hc
    split at hc
    · rename_i hm
      simp only [matchOpts, Bool.and_eq_true, Bool.not_eq_true'] at hm
      have := hm.1
      by_cases h1 : req.certType = []
      · exact .inl h1
      · by_cases h2 : opts.certType = []
        · exact .inr (.inl h2)
        · right; right
          simp [h1, h2] at this
          exact this.symm
    · cases hc
  · simp only [checkOpts] at hc
    split at hc
    · rename_i hm
      simp only [matchOpts, Bool.and_eq_true, Bool.not_eq_true'] at hm
      have := hm.2
      by_cases h1 : req.principals = []
      · exact .inl h1
      · by_cases h2 : opts.principals = []
        · exact .inr (.inl h2)
        · right; right
          have l1 : req.principals.length > 0 := List.length_pos_iff.mpr h1
          have l2 : opts.principals.length > 0 := List.length_pos_iff.mpr h2
          simp [l1, l2] at this
          exact containsAllMembers_sound _ _ this
    · cases hc

/-! ## 2b. validity overrides -/

/-- **request_validity_cannot_change.** For an issued certificate every bound the token fixes is
    either not mentioned by the request or repeated exactly; and a bound fixed by the token is the
    bound of the certificate (`certValidity`), whatever the request says — for every provisioner,
    token, request and key. (Which value the CA picks when nobody fixes a bound, and the duration
    limits, are C06.) -/
theorem request_validity_cannot_change (ca : CAKeys) (prov : Prov) (t : Token) (o : Oidc) (req : Opts)
    (key : KeyClass) (rv : RVal) (c : Cert) (sg : Signer)
    (h : sshSign ca prov t o req key rv = .issued c sg) :
    (∀ a b, o.tva = some a → rv.va = some b → a = b) ∧
    (∀ a b, o.tvb = some a → rv.vb = some b → a = b) ∧
    (∀ a, o.tva = some a → (certValidity ⟨o.tva, o.tvb⟩ rv).va = some a) ∧
    (∀ b, o.tvb = some b → (certValidity ⟨o.tva, o.tvb⟩ rv).vb = some b) := by
  obtain ⟨p, _, hs⟩ := sshSign_issued h
  obtain ⟨_, _, _, _, _, _, _, _, hvm, _⟩ := signSSH_issued hs
  simp only [validityMismatch, Bool.or_eq_false_iff] at hvm
  refine ⟨?_, ?_, ?_, ?_⟩
  · intro a b ha hb; have := hvm.1; simp [ha, hb] at this; exact this
  · intro a b ha hb; have := hvm.2; simp [ha, hb] at this; exact this
  · intro a ha; simp [certValidity, ha]
  · intro b hb; simp [certValidity, hb]

/-- a request that contradicts a bound of the token is refused -/
theorem request_validity_mismatch_refused (ca : CAKeys) (prov : Prov) (t : Token) (o : Oidc) (req : Opts)
    (key : KeyClass) (rv : RVal) (hm : validityMismatch ⟨o.tva, o.tvb⟩ rv = true) :
    ∃ st, sshSign ca prov t o req key rv = .refused st := by
  unfold sshSign
  split
  · exact ⟨401, rfl⟩
  · split
    · exact ⟨401, rfl⟩
    · unfold signSSH
      split
      · exact ⟨400, rfl⟩
      · split
        · rename_i st _; exact ⟨st, rfl⟩
        · exact ⟨403, by simp⟩

/-- the bounds of the request are used when the token is silent, and validAfter > validBefore in a
    request is refused -/
theorem request_validity_shape (ca : CAKeys) (prov : Prov) (t : Token) (o : Oidc) (req : Opts)
    (key : KeyClass) (rv : RVal) (c : Cert) (sg : Signer)
    (h : sshSign ca prov t o req key rv = .issued c sg) :
    modifyValidityBad rv = false ∧
    (o.tva = none → (certValidity ⟨o.tva, o.tvb⟩ rv).va = rv.va) ∧
    (o.tvb = none → (certValidity ⟨o.tva, o.tvb⟩ rv).vb = rv.vb) := by
  obtain ⟨p, _, hs⟩ := sshSign_issued h
  obtain ⟨_, _, _, _, _, _, _, _, _, hmv⟩ := signSSH_issued hs
  exact ⟨hmv, fun h1 => by simp [certValidity, h1], fun h1 => by simp [certValidity, h1]⟩

example :
    let t : Token := ⟨s "alice", some ⟨s "user", [], []⟩⟩
    let o : Oidc := ⟨[], [], [], [], [], some 3600, some 14400⟩
    sshSign ⟨true, true, true, true⟩ .jwk t o ⟨[], [], []⟩ .ok ⟨some 3600, none⟩ = .issued ⟨1, s "alice", [s "alice"]⟩ .userKey ∧
    sshSign ⟨true, true, true, true⟩ .jwk t o ⟨[], [], []⟩ .ok ⟨some 5400, none⟩ = .refused 403 ∧
    sshSign ⟨true, true, true, true⟩ .jwk t o ⟨[], [], []⟩ .ok ⟨none, some 18000⟩ = .refused 403 ∧
    certValidity ⟨o.tva, o.tvb⟩ ⟨some 3600, none⟩ = ⟨some 3600, some 14400⟩ := by decide

/-! ## 2c. K8sSA -/

/-- **k8ssa_fields_from_request.** A Kubernetes service-account token fixes nothing: type, key id
    and principals of the certificate are the request's, all three non-empty (request template +
    require-all validator); the signer still follows the type. Recorded as a fact: the property's
    "stated in the token" has no content for this provisioner. -/
theorem k8ssa_fields_from_request (ca : CAKeys) (t : Token) (o : Oidc) (req : Opts) (key : KeyClass) (rv : RVal)
    (c : Cert) (sg : Signer) (h : sshSign ca .k8ssa t o req key rv = .issued c sg) :
    certTypeFromString req.certType = some (if c.ct = 1 then CT.user else CT.host) ∧
    c.keyID = req.keyID ∧ c.principals = req.principals ∧ req.principals ≠ [] ∧ req.keyID ≠ [] := by
  obtain ⟨p, hp, hs⟩ := sshSign_issued h
  obtain ⟨_, hc, ht, _, _, hid, _⟩ := signSSH_issued hs
  have hp := (authorizeSign_ok hp).2
  simp only [authorizeClaims] at hp
  injection hp with hp
  subst hp
  simp only [applyTemplate] at ht
  simp only [checkOpts] at hc
  split at hc
  · rename_i hr
    simp only [requireAll, Bool.and_eq_true, decide_eq_true_eq] at hr
    cases hct : certTypeFromString req.certType with
    | none => simp [hct] at ht
    | some ct =>
      simp only [hct] at ht
      injection ht with ht
      subst ht
      refine ⟨?_, rfl, rfl, ?_, hr.1.2⟩
      · cases ct <;> simp [CT.num]
      · intro he; rw [he] at hr; simp at hr
  · cases hc

/-! ## 2c'. AWS instance identity -/

/-- **aws_dcs_principals.** AWS provisioner with `disableCustomSANs`: an issued certificate is a
    *host* certificate signed with the host key, its key id is the instance id, and every
    principal is (case-insensitively) one of the two names the signed identity document validates
    (the private IP and `ip-…compute.internal`; the list is never empty in the code) — for every
    request. -/
theorem aws_dcs_principals (ca : CAKeys) (t : Token) (o : Oidc) (req : Opts) (key : KeyClass) (rv : RVal)
    (c : Cert) (sg : Signer) (hval : o.usernames ≠ [])
    (h : sshSign ca (.aws true) t o req key rv = .issued c sg) :
    c.ct = 2 ∧ sg = .hostKey ∧ c.keyID = o.email ∧
    (∀ x ∈ c.principals, ∃ y ∈ o.usernames, Str.lower x = Str.lower y) := by
  obtain ⟨p, hp, hs⟩ := sshSign_issued h
  obtain ⟨_, hc, ht, hsel, _⟩ := signSSH_issued hs
  have hp := (authorizeSign_ok hp).2
  simp only [authorizeClaims] at hp
  injection hp with hp
  subst hp
  simp only [applyTemplate] at ht
  injection ht with ht
  subst ht
  refine ⟨rfl, ?_, rfl, ?_⟩
  · rcases selectSigner_inr hsel with ⟨h1, _, _⟩ | ⟨_, h2, _⟩
    · simp [CT.num] at h1
    · exact h2
  · simp only [if_true, List.nil_append, checkOpts] at hc
    split at hc
    · rename_i hm
      simp only [matchOpts, Bool.and_eq_true, Bool.not_eq_true'] at hm
      have hm2 := hm.2
      intro x hx
      simp only at hx
      by_cases hr : req.principals.length > 0
      · simp only [hr, if_true] at hx
        have hu : o.usernames.length > 0 := List.length_pos_iff.mpr hval
        simp [hr, hu] at hm2
        exact containsAllMembers_sound _ _ hm2 x hx
      · simp only [hr, if_false] at hx
        exact ⟨x, hx, rfl⟩
    · cases hc

/-! ## 2d. add-user certificate -/

/-- **adduser_fields.** The extra certificate `/ssh/sign` returns for an `addUserPublicKey` exists
    only next to a *user* certificate with a single principal (or two, the second an e-mail
    address); it never carries the subject's principals: its only principal is `provisioner`, its
    key id is `<first principal>-provisioner` and its forced command names that first principal. -/
theorem adduser_fields (subject : Cert) (a : AddUser) (h : signAddUser subject = some a) :
    subject.ct = 1 ∧
    (∃ p, (subject.principals = [p] ∨ ∃ b, subject.principals = [p, b] ∧ atAfterFirst b = true) ∧
      a.keyID = p ++ s "-" ++ addUserPrincipal ∧ a.forceCommand = addUserCommand p) ∧
    a.principals = [addUserPrincipal] := by
  unfold signAddUser at h
  split at h
  · rename_i hv
    simp only [validForAddUser, Bool.and_eq_true, decide_eq_true_eq] at hv
    obtain ⟨hct, hp⟩ := hv
    split at h
    · rename_i p rest hpr
      injection h with h; subst h
      refine ⟨hct, ⟨p, ?_, rfl, rfl⟩, rfl⟩
      rw [hpr] at hp
      cases rest with
      | nil => exact .inl hpr
      | cons b rest2 =>
        cases rest2 with
        | nil => exact .inr ⟨b, hpr, by simpa using hp⟩
        | cons _ _ => simp at hp
    · cases h
  · cases h

/-- a host certificate, or a user certificate with several principals, gets no add-user certificate -/
theorem adduser_none (subject : Cert) (h : subject.ct ≠ 1 ∨ subject.principals.length > 2 ∨ subject.principals = []) :
    signAddUser subject = none := by
  unfold signAddUser validForAddUser
  rcases h with h | h | h
  · simp [h]
  · match hp : subject.principals with
    | [] => simp
    | [_] => simp [hp] at h
    | [_, _] => simp [hp] at h
    | _ :: _ :: _ :: _ => simp
  · simp [h]

/-- **adduser_total.** The add-user step never aborts, with or without an `ssh` section in the
    configuration (since 0de53a5), and is `signAddUser`. -/
theorem adduser_total (sshSection : Bool) (subject : Cert) :
    signAddUserM true sshSection subject = .val (signAddUser subject) := by
  unfold signAddUserM
  cases signAddUser subject <;> rfl

/-- historic (before 0de53a5, `nilGuard = false`): on an authority whose SSH signers come from
    `WithSSHUserSigner` / `WithSSHHostSigner` and whose configuration has no `ssh` section, a sign
    request with an `addUserPublicKey` for a qualifying user certificate panicked in
    `getAddUserPrincipal` (nil `a.config.SSH`). -/
theorem adduser_crash_without_ssh_section :
    signAddUserM false false ⟨1, s "alice", [s "alice"]⟩ = .crash := by decide

example : signAddUser ⟨1, s "alice", [s "alice"]⟩ =
    some ⟨s "alice-provisioner", [s "provisioner"], s "sudo useradd -m alice; nc -q0 localhost 22"⟩ := by decide

/-! ## 2e. identity certificate -/

/-- **identity_names.** The X.509 identity certificate that /ssh/sign returns for an `identityCSR`
    (JWK / X5C token) names the token subject and nothing else the requester chose, except one
    `urn:uuid:` URI taken from the CSR: common name = subject, DNS / IP / e-mail names = the
    subject's classification, URIs = that classification's plus at most the CSR's `urn:uuid` URI;
    the key is the identity CSR's. For every identity CSR (its other URIs are ignored, any other
    foreign name refuses the request — `SignNames.csr_extra_refused`). -/
theorem identity_names (prov : Prov) (r : IdReq) (c : SignNames.Cert)
    (h : identityCert prov r = .issued c) :
    c.cn = r.sub.raw ∧ c.key = r.csr.key ∧
    c.dns = SignNames.ofKind .dns [r.sub] ∧ c.ips = SignNames.ofKind .ip [r.sub] ∧
    c.emails = SignNames.ofKind .email [r.sub] ∧
    (c.uris = SignNames.ofKind .uri [r.sub] ∨
      ∃ u, r.uuid = some u ∧ c.uris = SignNames.ofKind .uri [r.sub] ++ [u]) := by
  unfold identityCert at h
  generalize hs : SignNames.sign (idCfg prov r) (idTok r) _ none _ = res at h
  cases res with
  | unauthorized st => simp at h
  | refused st => simp at h
  | error => simp at h
  | issued c0 =>
    simp only [SignNames.Res.issued.injEq] at h
    subst h
    have hp : (idCfg prov r).prov = .jwk ∨ (idCfg prov r).prov = .x5c := by
      simp only [idCfg]; split <;> simp
    obtain ⟨hn, hcn, hk⟩ := SignNames.names_exact _ _ _ _ _ c0 hp hs
    have heff : SignNames.effSans (idTok r) = [r.sub] := by simp [SignNames.effSans, idTok]
    rw [heff] at hn
    have hv : ∀ k, SignNames.valsOf k c0.names = SignNames.ofKind k [r.sub] := by
      intro k; rw [hn]; exact SignNames.valsOf_createSANs k [r.sub]
    have hd : c0.dns = SignNames.ofKind .dns [r.sub] := by
      have := hv .dns
      simpa [SignNames.Cert.names, SignNames.valsOf_append, SignNames.valsOf_map] using this
    have hi : c0.ips = SignNames.ofKind .ip [r.sub] := by
      have := hv .ip
      simpa [SignNames.Cert.names, SignNames.valsOf_append, SignNames.valsOf_map] using this
    have he : c0.emails = SignNames.ofKind .email [r.sub] := by
      have := hv .email
      simpa [SignNames.Cert.names, SignNames.valsOf_append, SignNames.valsOf_map] using this
    have hu : c0.uris = SignNames.ofKind .uri [r.sub] := by
      have := hv .uri
      simpa [SignNames.Cert.names, SignNames.valsOf_append, SignNames.valsOf_map] using this
    refine ⟨by simpa [addUUID, idTok] using hcn, by simpa [addUUID] using hk, by simpa [addUUID] using hd,
      by simpa [addUUID] using hi, by simpa [addUUID] using he, ?_⟩
    cases hq : r.uuid with
    | none => left; simp [addUUID, hu]
    | some u =>
      simp only [addUUID]
      split
      · left; exact hu
      · right; exact ⟨u, rfl, by rw [hu]⟩

/-! ## 3. empty principals -/

/-- **empty_principal_refused.** A request that lists an empty principal is refused, whatever
    the token says. -/
theorem empty_principal_refused (ca : CAKeys) (prov : Prov) (t : Token) (o : Oidc) (req : Opts) (key : KeyClass) (rv : RVal)
    (he : [] ∈ req.principals) : ∃ st, sshSign ca prov t o req key rv = .refused st := by
  have hv : validateOpts req = false := by
    unfold validateOpts
    have : req.principals.all (fun x => decide (x ≠ [])) = false := by
      rw [List.all_eq_false]; exact ⟨[], he, by simp⟩
    rw [this]; simp
  unfold sshSign
  split
  · exact ⟨401, rfl⟩
  · split
    · exact ⟨401, rfl⟩
    · exact ⟨400, by simp [signSSH, hv]⟩

/-- **token_empty_principal_issued** (refutation of "empty principals are refused" for principals
    that come from the token): `SignSSHOptions.Validate` is applied to the request only; an empty
    principal in the token's `step.ssh.principals` reaches the certificate whenever the store
    accepts an empty key (no database configured). -/
theorem token_empty_principal_issued :
    ∃ ca t req c sg, sshSign ca .jwk t ⟨[], [], [], [], [], none, none⟩ req .ok noVal = .issued c sg ∧ [] ∈ c.principals :=
  ⟨⟨true, true, false, false⟩, ⟨s "alice", some ⟨s "user", [], [[]]⟩⟩, ⟨[], [], []⟩, ⟨1, s "alice", [[]]⟩, .userKey,
    by decide, by decide⟩

/-- the witness above with the repaired validator: refused -/
example :
    sshSign ⟨true, true, false, true⟩ .jwk ⟨s "alice", some ⟨s "user", [], [[]]⟩⟩ ⟨[], [], [], [], [], none, none⟩ ⟨[], [], []⟩ .ok noVal
    = .refused 403 := by decide

/-- **no_empty_principal.** With the repaired `sshCertDefaultValidator` (which refuses any `""` among
    the certificate's principals) no issued certificate has an empty principal — for every
    provisioner, token, request and template. -/
theorem no_empty_principal (ca : CAKeys) (prov : Prov) (t : Token) (o : Oidc)
    (req : Opts) (key : KeyClass) (rv : RVal) (c : Cert) (sg : Signer) (hfix : ca.emptyPrincipalCheck = true)
    (h : sshSign ca prov t o req key rv = .issued c sg) : [] ∉ c.principals := by
  obtain ⟨p, _, hs⟩ := sshSign_issued h
  obtain ⟨_, _, _, _, _, _, _, hep, _⟩ := signSSH_issued hs
  exact hep hfix

/-- **no_empty_principal_partial.** Under the extra hypothesis that the store refuses empty keys
    (bbolt) or that the token lists no empty principal, no issued certificate has one. -/
theorem no_empty_principal_partial (ca : CAKeys) (prov : Prov) (hp : prov = .jwk ∨ prov = .x5c) (t : Token) (o : Oidc)
    (req : Opts) (key : KeyClass) (rv : RVal) (c : Cert) (sg : Signer)
    (hx : ca.storeRejectsEmpty = true ∨ ∀ opts, t.ssh = some opts → [] ∉ opts.principals)
    (h : sshSign ca prov t o req key rv = .issued c sg) : [] ∉ c.principals := by
  obtain ⟨p, hp', hs⟩ := sshSign_issued h
  have hsub := (authorizeSign_ok hp').1
  obtain ⟨_, _, _, _, _, _, hst, _⟩ := signSSH_issued hs
  rcases hx with hx | hx
  · intro hm
    have : c.principals.any (fun x => decide (x = [])) = true := by
      rw [List.any_eq_true]; exact ⟨[], hm, by simp⟩
    simp [storeOK, hx, this] at hst
  · obtain ⟨opts, ct, h1, _, rfl⟩ := ssh_cert_fields ca prov hp t o req key rv c sg h
    have := hx opts h1
    simp only [tokenCert]
    split
    · exact this
    · intro hm; simp at hm; exact hsub hm

/-! ## 4. signer_by_type -/

/-- **signer_by_type.** Every issued certificate is a user certificate signed with the user key or
    a host certificate signed with the host key, and that key is configured — for every
    provisioner, token, request and template. -/
theorem signer_by_type (ca : CAKeys) (prov : Prov) (t : Token) (o : Oidc) (req : Opts) (key : KeyClass) (rv : RVal)
    (c : Cert) (sg : Signer) (h : sshSign ca prov t o req key rv = .issued c sg) :
    (c.ct = 1 ∧ sg = .userKey ∧ ca.user = true) ∨ (c.ct = 2 ∧ sg = .hostKey ∧ ca.host = true) := by
  obtain ⟨p, _, hs⟩ := sshSign_issued h
  obtain ⟨_, _, _, hsel, _⟩ := signSSH_issued hs
  exact selectSigner_inr hsel

/-- a missing key refuses: no user certificate without the user key, no host certificate without
    the host key -/
theorem missing_key_refused (ca : CAKeys) (prov : Prov) (t : Token) (o : Oidc) (req : Opts) (key : KeyClass) (rv : RVal)
    (c : Cert) (sg : Signer) (h : sshSign ca prov t o req key rv = .issued c sg) :
    (ca.user = false → c.ct ≠ 1) ∧ (ca.host = false → c.ct ≠ 2) := by
  rcases signer_by_type ca prov t o req key rv c sg h with ⟨h1, _, h3⟩ | ⟨h1, _, h3⟩
  · exact ⟨fun hf => by simp [h3] at hf, fun _ => by omega⟩
  · exact ⟨fun _ => by omega, fun hf => by simp [h3] at hf⟩

example : sshSign ⟨true, false, true, false⟩ .jwk ⟨s "h", some ⟨s "host", [], []⟩⟩ ⟨[], [], [], [], [], none, none⟩ ⟨[], [], []⟩ .ok noVal = .refused 501 := by decide

/-! ## 5. pop_requirements, renew_keeps -/

/-- permissions used by the examples: a critical option and no extension (typical host certificate) -/
def pEx : Perms := ⟨[(s "force-command", s "/bin/true")], []⟩

theorem popIssue_issued {cfg : PopCfg} {c : PopCert} {rev : Bool} {key : KeyClass} {rk : Bool}
    {c' : Cert} {p : Perms} {sg : Signer} (h : popIssue cfg c rev key rk = .issued c' p sg) :
    c.hasValidity = true ∧ rev = false ∧ selectSigner cfg.ca c.ct (if rk then 400 else 500) = .inr sg ∧
    c' = ⟨c.ct, c.keyID, c.principals⟩ ∧ p = c.perms := by
  unfold popIssue at h
  split at h
  · cases h
  · rename_i hv
    split at h
    · cases h
    · rename_i hr
      split at h
      · cases h
      · rename_i sg' hs
        split at h
        · cases h
        · split at h
          · cases h
          · injection h with h1 h2 h3
            subst h3
            exact ⟨by simpa using hv, by simpa using hr, hs, h1.symm, h2.symm⟩

theorem popAuthorize_true {cfg : PopCfg} {op : PopOp} {c : PopCert} {t : PopTok}
    (h : popAuthorize cfg op c t = true) :
    (c.ct = 1 → c.sigUser = true) ∧ (c.ct ≠ 1 → c.sigHost = true) ∧
    t.sigOK = true ∧ t.claimsOK = true ∧ t.audOK = true ∧ t.subNonEmpty = true ∧
    (op ≠ .renew → c.notYet = false ∧ c.expired = false) ∧
    (op = .revoke → t.subIsSerial = true) ∧
    (op ≠ .revoke → c.ct = 2) ∧
    (op = .renew → cfg.disableRenewal = false ∧ c.notYet = false ∧
        (c.expired = true → cfg.allowAfterExpiry = true)) := by
  unfold popAuthorize at h
  simp only [Bool.and_eq_true] at h
  obtain ⟨⟨⟨⟨⟨⟨hv, hf⟩, ht1⟩, ht2⟩, ht3⟩, ht4⟩, hg⟩ := h
  have hsig : (c.ct = 1 → c.sigUser = true) ∧ (c.ct ≠ 1 → c.sigHost = true) := by
    by_cases h1 : c.ct = 1 <;> simp [h1] at hf ⊢ <;> exact hf
  refine ⟨hsig.1, hsig.2, ht1, ht2, ht3, ht4, ?_, ?_, ?_, ?_⟩
  · intro hop
    simp [hop] at hv
    exact hv
  · intro hop; subst hop; simpa [opGate] using hg
  · intro hop
    cases op with
    | revoke => exact absurd rfl hop
    | rekey => simpa [opGate] using hg
    | renew => simp [opGate] at hg; exact hg.1.1.1
  · intro hop; subst hop
    simp [opGate] at hg
    obtain ⟨⟨⟨_, hd⟩, hn⟩, he⟩ := hg
    refine ⟨hd, hn, ?_⟩
    intro hex
    rcases he with he | he
    · rw [hex] at he; cases he
    · exact he

/-- **pop_requirements.** A renewal or rekey is only ever granted for a *host* certificate whose
    signature verifies under a configured *host* CA key, presented with a token that verifies
    under the certificate's own key (issuer, time, audience in order), which is not revoked and
    has a validity period. -/
theorem pop_requirements_renew (cfg : PopCfg) (c : PopCert) (t : PopTok) (rev : Bool)
    (c' : Cert) (p : Perms) (sg : Signer) (h : popRenew cfg c t rev = .issued c' p sg) :
    c.ct = 2 ∧ c.sigHost = true ∧ t.sigOK = true ∧ t.claimsOK = true ∧ t.audOK = true ∧
    rev = false ∧ c.hasValidity = true ∧ cfg.disableRenewal = false ∧ c.notYet = false := by
  unfold popRenew at h
  split at h
  · cases h
  · split at h
    · rename_i ha
      obtain ⟨_, h2, h3, h4, h5, _, _, _, h9, h10⟩ := popAuthorize_true ha
      obtain ⟨hv, hr, _⟩ := popIssue_issued h
      have hct := h9 (by simp)
      obtain ⟨hd, hn, _⟩ := h10 rfl
      exact ⟨hct, h2 (by omega), h3, h4, h5, hr, hv, hd, hn⟩
    · cases h

theorem pop_requirements_rekey (cfg : PopCfg) (c : PopCert) (t : PopTok) (rev : Bool) (key : KeyClass)
    (c' : Cert) (p : Perms) (sg : Signer) (h : popRekey cfg c t rev key = .issued c' p sg) :
    c.ct = 2 ∧ c.sigHost = true ∧ t.sigOK = true ∧ t.claimsOK = true ∧ t.audOK = true ∧
    rev = false ∧ c.hasValidity = true ∧ c.notYet = false ∧ c.expired = false := by
  unfold popRekey at h
  split at h
  · cases h
  · split at h
    · rename_i ha
      obtain ⟨_, h2, h3, h4, h5, _, h7, _, h9, _⟩ := popAuthorize_true ha
      obtain ⟨hv, hr, _⟩ := popIssue_issued h
      have hct := h9 (by simp)
      obtain ⟨hn, he⟩ := h7 (by simp)
      exact ⟨hct, h2 (by omega), h3, h4, h5, hr, hv, hn, he⟩
    · cases h

/-- revocation requests: the certificate verifies under a CA key *of its type* and the token
    under the certificate's key, and the subject is the certificate's serial -/
theorem pop_requirements_revoke (cfg : PopCfg) (c : PopCert) (t : PopTok)
    (h : popAuthorize cfg .revoke c t = true) :
    (c.ct = 1 → c.sigUser = true) ∧ (c.ct ≠ 1 → c.sigHost = true) ∧ t.sigOK = true ∧
    t.subIsSerial = true ∧ c.notYet = false ∧ c.expired = false := by
  obtain ⟨h1, h2, h3, _, _, _, h7, h8, _⟩ := popAuthorize_true h
  obtain ⟨hn, he⟩ := h7 (by simp)
  exact ⟨h1, h2, h3, h8 rfl, hn, he⟩

/-- **renew_keeps.** The renewed / rekeyed certificate keeps type, key id, principals and options
    of the old one and is signed with the host key. -/
theorem renew_keeps (cfg : PopCfg) (c : PopCert) (t : PopTok) (rev : Bool)
    (c' : Cert) (p : Perms) (sg : Signer) (h : popRenew cfg c t rev = .issued c' p sg) :
    c' = ⟨c.ct, c.keyID, c.principals⟩ ∧ p = c.perms ∧ sg = .hostKey ∧ cfg.ca.host = true := by
  have hreq := pop_requirements_renew cfg c t rev c' p sg h
  unfold popRenew at h
  split at h
  · cases h
  · split at h
    · obtain ⟨_, _, hs, hc, hp⟩ := popIssue_issued h
      rcases selectSigner_inr hs with ⟨h1, _, _⟩ | ⟨_, h2, h3⟩
      · omega
      · exact ⟨hc, hp, h2, h3⟩
    · cases h

theorem rekey_keeps (cfg : PopCfg) (c : PopCert) (t : PopTok) (rev : Bool) (key : KeyClass)
    (c' : Cert) (p : Perms) (sg : Signer) (h : popRekey cfg c t rev key = .issued c' p sg) :
    c' = ⟨c.ct, c.keyID, c.principals⟩ ∧ p = c.perms ∧ sg = .hostKey ∧ cfg.ca.host = true := by
  have hreq := pop_requirements_rekey cfg c t rev key c' p sg h
  unfold popRekey at h
  split at h
  · cases h
  · split at h
    · obtain ⟨_, _, hs, hc, hp⟩ := popIssue_issued h
      rcases selectSigner_inr hs with ⟨h1, _, _⟩ | ⟨_, h2, h3⟩
      · omega
      · exact ⟨hc, hp, h2, h3⟩
    · cases h

example :
    popRenew ⟨⟨true, true, true, false⟩, false, false⟩ ⟨2, s "h1", [s "h.example.com"], pEx, false, true, false, false, true⟩
      ⟨true, true, true, true, false⟩ false
    = .issued ⟨2, s "h1", [s "h.example.com"]⟩ pEx .hostKey := by decide

/-- a host certificate signed with the *user* CA key is not accepted -/
example :
    popRenew ⟨⟨true, true, true, false⟩, false, false⟩ ⟨2, s "h1", [], pEx, true, false, false, false, true⟩
      ⟨true, true, true, true, false⟩ false = .refused := by decide

/-! ## 6. OIDC -/

/-- a non-administrator single-sign-on user only gets a *user* certificate whose key id is the
    e-mail address (the subject without one) and whose principals are the names derived from it -/
theorem oidc_nonadmin_fields (ca : CAKeys) (t : Token) (o : Oidc) (req : Opts) (key : KeyClass) (rv : RVal)
    (c : Cert) (sg : Signer) (h : sshSign ca (.oidc false) t o req key rv = .issued c sg) :
    c.ct = 1 ∧ sg = .userKey ∧
    c.keyID = (if o.email = [] then t.sub else o.email) ∧
    c.principals = (if o.email = [] then [] else o.usernames) := by
  obtain ⟨p, hp, hs⟩ := sshSign_issued h
  obtain ⟨_, _, ht, hsel, _⟩ := signSSH_issued hs
  have hp := (authorizeSign_ok hp).2
  simp only [authorizeClaims] at hp
  injection hp with hp
  subst hp
  simp only [applyTemplate] at ht
  injection ht with ht
  subst ht
  have hct : (if o.email = [] then (⟨.user, t.sub, []⟩ : Data) else ⟨.user, o.email, o.usernames⟩).ct = .user := by
    split <;> rfl
  refine ⟨by simp [hct, CT.num], ?_, by split <;> rfl, by split <;> rfl⟩
  rcases selectSigner_inr hsel with ⟨_, h2, _⟩ | ⟨h1, _, _⟩
  · exact h2
  · simp [hct, CT.num] at h1

/-! ## further examples: the hypotheses of the theorems above are satisfiable -/

/-- two different requests under one token, both issued, same certificate (request_cannot_extend);
    the second one asks for other principals and another key id -/
example :
    let t : Token := ⟨s "alice", some ⟨s "user", [], []⟩⟩
    sshSign ⟨true, true, true, false⟩ .jwk t ⟨[], [], [], [], [], none, none⟩ ⟨[], [], []⟩ .ok noVal = .issued ⟨1, s "alice", [s "alice"]⟩ .userKey ∧
    sshSign ⟨true, true, true, false⟩ .jwk t ⟨[], [], [], [], [], none, none⟩ ⟨s "user", s "root", [s "root"]⟩ .ok noVal = .issued ⟨1, s "alice", [s "alice"]⟩ .userKey := by
  decide

/-- a request that tries to add a principal to the token's list is refused -/
example :
    sshSign ⟨true, true, true, false⟩ .x5c ⟨s "alice", some ⟨s "user", [], [s "alice"]⟩⟩ ⟨[], [], [], [], [], none, none⟩
      ⟨[], [], [s "alice", s "root"]⟩ .ok noVal = .refused 403 := by decide

/-- empty principal in the request (empty_principal_refused) -/
example :
    sshSign ⟨true, true, true, false⟩ .jwk ⟨s "alice", some ⟨s "user", [], []⟩⟩ ⟨[], [], [], [], [], none, none⟩
      ⟨[], [], [s "alice", []]⟩ .ok noVal = .refused 400 := by decide

/-- rekey of a valid host certificate (pop_requirements_rekey / rekey_keeps hypotheses are satisfiable) -/
example :
    popRekey ⟨⟨true, true, true, false⟩, false, false⟩ ⟨2, s "h1", [s "h.example.com"], pEx, false, true, false, false, true⟩
      ⟨true, true, true, true, false⟩ false .ok
    = .issued ⟨2, s "h1", [s "h.example.com"]⟩ pEx .hostKey := by decide

/-- a user certificate signed by the user key authorizes its own revocation, not a renewal -/
example :
    let c : PopCert := ⟨1, s "alice", [s "alice"], pEx, true, false, false, false, true⟩
    popAuthorize ⟨⟨true, true, true, false⟩, false, false⟩ .revoke c ⟨true, true, true, true, true⟩ = true ∧
    popRenew ⟨⟨true, true, true, false⟩, false, false⟩ c ⟨true, true, true, true, true⟩ false = .refused := by decide

/-- revoked host certificate: no renewal -/
example :
    popRenew ⟨⟨true, true, true, false⟩, false, false⟩ ⟨2, s "h1", [], pEx, false, true, false, false, true⟩
      ⟨true, true, true, true, false⟩ true = .refused := by decide

/-- OIDC non-administrator asking for a host certificate and foreign principals -/
example :
    sshSign ⟨true, true, true, false⟩ (.oidc false) ⟨s "123", none⟩ ⟨s "a@example.com", [s "a", s "a@example.com"], [], [], [], none, none⟩
      ⟨[], s "root", [s "root"]⟩ .ok noVal
    = .issued ⟨1, s "a@example.com", [s "a", s "a@example.com"]⟩ .userKey ∧
    sshSign ⟨true, true, true, false⟩ (.oidc false) ⟨s "123", none⟩ ⟨s "a@example.com", [s "a", s "a@example.com"], [], [], [], none, none⟩
      ⟨s "host", [], []⟩ .ok noVal = .refused 403 := by decide
end Verif.SSH
