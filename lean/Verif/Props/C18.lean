import Verif.Model.PanicSites
import Verif.Generated.PanicSites
/-!
  C18 — no client input can crash a request handler.

  What a theorem can carry here (DESIGN.md §6 C18):
  * totality theorems of the modelled cores live with their properties and are re-exported in
    `checks/C18.json` as obligations of this property too: C04 `validateNames_total`,
    `x509Allowed_total`, `sshAllowed_total`, `buildEngine_total` (policy engine and `policy.New`);
  * this file: the regenerated table of abort-capable sites on the request path is completely
    accounted for by the reviewed list below (`decide`), so a new `cast.*`/`panic`/`Must…` site,
    or a moved one, is an undischarged obligation.
  Everything else between the socket and those cores is exercised by the endpoint fuzzer
  (harness/cmd/c18), which is evidence, not proof.
-/
namespace Verif.PanicSites
open Verif.Generated.PanicSites

def wiringNote : String :=
  "installed in the request context by ca.buildContext (authority, databases, ACME db/linker/client, SCEP authority) or by the route's own middleware (provisioner, admin, external account key) before the handler runs; absent only if the server is wired differently, never because of client input"

def reviews : List Review := [
  -- context accessors (class-level: any function may call them)
  ⟨.must, "*", "MustFromContext", 0, .wiring wiringNote⟩,
  ⟨.must, "*", "MustDatabaseFromContext", 0, .wiring wiringNote⟩,
  ⟨.must, "*", "MustLinkerFromContext", 0, .wiring wiringNote⟩,
  ⟨.must, "*", "MustProvisionerFromContext", 0, .wiring wiringNote⟩,
  ⟨.must, "*", "MustAdminFromContext", 0, .wiring wiringNote⟩,
  ⟨.must, "*", "MustExternalAccountKeyFromContext", 0, .wiring wiringNote⟩,
  -- definitions of the aborting helpers
  ⟨.panic, "acme/common.go:MustProvisionerFromContext", "panic", 1, .helper⟩,
  ⟨.panic, "acme/db.go:MustDatabaseFromContext", "panic", 1, .helper⟩,
  ⟨.panic, "acme/linker.go:MustLinkerFromContext", "panic", 1, .helper⟩,
  ⟨.panic, "scep/authority.go:MustFromContext", "panic", 1, .helper⟩,
  ⟨.panic, "scep/provisioner.go:provisionerFromContext", "panic", 1, .wiring "the SCEP provisioner is put in the context by lookupProvisioner, which answers 4xx when it is missing"⟩,
  ⟨.panic, "authority/authority.go:MustFromContext", "panic", 1, .helper⟩,
  ⟨.panic, "db/db.go:MustFromContext", "panic", 1, .helper⟩,
  ⟨.panic, "internal/cast/cast.go:Uint", "panic", 1, .helper⟩,
  ⟨.panic, "internal/cast/cast.go:Int64", "panic", 1, .helper⟩,
  ⟨.panic, "internal/cast/cast.go:Uint64", "panic", 1, .helper⟩,
  ⟨.panic, "internal/cast/cast.go:Int32", "panic", 1, .helper⟩,
  ⟨.panic, "internal/cast/cast.go:Uint32", "panic", 1, .helper⟩,
  ⟨.panic, "internal/cast/cast.go:Uint16", "panic", 1, .helper⟩,
  ⟨.panic, "authority/export.go:mustMarshalToStruct", "panic", 2, .offline⟩,
  ⟨.panic, "authority/export.go:mustReadFileOrURI", "panic", 2, .offline⟩,
  ⟨.panic, "ca/tls.go:init", "panic", 5, .notClient "package init: parsing of constant OIDs at program start"⟩,
  -- checked conversions
  ⟨.cast, "acme/challenge.go:doTPMAttestationFormat", "cast.SafeInt32", 1, .guarded "Safe variant: returns an error"⟩,
  ⟨.cast, "authority/linkedca.go:linkedCaClient.Revoke", "cast.Int32", 1, .notClient "linked-CA deployments only (not anchored by any property); reason code validated by the revoke request"⟩,
  ⟨.cast, "authority/linkedca.go:linkedCaClient.RevokeSSH", "cast.Int32", 1, .notClient "linked-CA deployments only"⟩,
  ⟨.cast, "authority/linkedca.go:createProvisionerIdentity", "cast.Int32", 1, .notClient "provisioner type enumeration"⟩,
  ⟨.cast, "authority/provisioners.go:ProvisionerToLinkedca", "cast.Int32", 2, .notClient "configured key sizes / enumeration values"⟩,
  ⟨.cast, "authority/provisioner/collection.go:Collection.Store", "cast.Uint32", 1, .notClient "len(sorted): number of configured provisioners"⟩,
  ⟨.cast, "authority/provisioner/sign_ssh_options.go:sshParseString", "cast.Uint32", 1, .notClient "len(in) of an in-memory byte slice"⟩,
  ⟨.cast, "db/db.go:DB.GetSSHHostPrincipals", "cast.Int64", 1, .guarded "ValidBefore of a stored certificate that this CA issued; issued certificates passed the validity validator"⟩,
  ⟨.cast, "api/api.go:LogSSHCertificate", "cast.Int64", 2, .guarded "certificate just issued by this CA (passed sshCertValidityValidator: ValidBefore ≤ now + max + backdate)"⟩,
  ⟨.cast, "api/ssh.go:SSHSign", "cast.Int64", 2, .guarded "certificate just issued by this CA"⟩,
  ⟨.cast, "api/sshRekey.go:SSHRekey", "cast.Int64", 2, .guarded "reached only after RekeySSH succeeded: SSHPOP.authorizeToken gives ValidAfter ≤ now (safe conversion) and sshCertificateDuration gives ValidBefore − ValidAfter ≤ 292 years, so both bounds < 2^63"⟩,
  ⟨.cast, "api/sshRenew.go:SSHRenew", "cast.Int64", 2, .guarded "as SSHRekey, after RenewSSH succeeded"⟩,
  ⟨.cast, "authority/ssh.go:sshCertificateDuration", "cast.Int64", 1, .guarded "b334f43: argument tested ≤ MaxInt64 / 1e9 on the line before; ValidBefore < ValidAfter and longer periods return an error (400) — before that fix a forever-valid certificate accepted by SSHPOP panicked here"⟩,
  ⟨.cast, "authority/ssh.go:Authority.renewSSH", "cast.Uint64", 2, .guarded "wall clock − backdate and wall clock + duration − backdate with 0 ≤ duration ≤ 292 years (sshCertificateDuration): both after 1970"⟩,
  ⟨.cast, "authority/ssh.go:Authority.rekeySSH", "cast.Uint64", 2, .guarded "as renewSSH"⟩,
  ⟨.cast, "authority/provisioner/controller.go:DefaultAuthorizeSSHRenew", "cast.SafeInt64", 2, .guarded "Safe variant (fix 763c7e1): out-of-range bounds are answered 401"⟩,
  ⟨.cast, "authority/provisioner/sign_ssh_options.go:sshDefaultDuration.Modify", "cast.Uint64", 3, .notClient "wall clock and configured durations"⟩,
  ⟨.cast, "authority/provisioner/sign_ssh_options.go:sshLimitDuration.Modify", "cast.Uint64", 3, .notClient "wall clock, configured durations, NotAfter of the verified credential"⟩,
  ⟨.cast, "authority/provisioner/sign_ssh_options.go:sshLimitDuration.Modify", "cast.Int64", 2, .proved "C06 ssh validity model: ValidAfter/ValidBefore set by safe modifiers are < 2^63"⟩,
  ⟨.cast, "authority/provisioner/sign_ssh_options.go:sshCertValidityValidator.Valid", "cast.Uint64", 1, .notClient "wall clock"⟩,
  ⟨.cast, "authority/provisioner/sign_ssh_options.go:sshCertValidityValidator.Valid", "cast.Int64", 1, .proved "C06 ssh validity model"⟩,
  ⟨.cast, "authority/provisioner/sign_ssh_options.go:sshCertDefaultValidator.Valid", "cast.Uint64", 1, .notClient "wall clock"⟩,
  -- client-controlled values: converted with the Safe variants since fix fffcedb (D7)
  ⟨.cast, "authority/provisioner/sign_ssh_options.go:SignSSHOptions.ModifyValidity", "cast.SafeUint64", 2, .guarded "Safe variant: a time before 1970 is answered 400"⟩,
  ⟨.cast, "authority/provisioner/jwk.go:JWK.AuthorizeSSHSign", "cast.SafeUint64", 2, .guarded "Safe variant"⟩,
  ⟨.cast, "authority/provisioner/x5c.go:X5C.AuthorizeSSHSign", "cast.SafeUint64", 2, .guarded "Safe variant"⟩,
  ⟨.cast, "authority/provisioner/nebula.go:Nebula.AuthorizeSSHSign", "cast.SafeUint64", 2, .guarded "Safe variant"⟩,
  ⟨.cast, "authority/provisioner/sshpop.go:SSHPOP.authorizeToken", "cast.SafeInt64", 2, .guarded "Safe variant: out-of-range bounds of the presented certificate are answered 401"⟩
]

theorem sites_extracted : extractorOk = true := by decide

/-- **every abort-capable site of the current tree is accounted for** -/
theorem sites_covered : unaccounted reviews sites = [] := by decide +kernel

/-- no review is stale (each exact review still names a site with that many occurrences) -/
theorem reviews_current : stale reviews sites = [] := by decide +kernel

end Verif.PanicSites
