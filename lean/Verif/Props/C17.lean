import Verif.Model.FailClosed
/-!
  C17 — property theorems.  Every theorem quantifies over an arbitrary environment
  `e : Env` (fault function `e.f` over positions of the executed trace, in-process decisions
  `e.g`), so it covers every fault sequence.
-/
namespace Verif.FailClosed

/-! ### helper lemmas -/

theorem run_append (e : Env) (xs ys : List Kind) (s : St) :
    run e (xs ++ ys) s = (match run e xs s with
      | (s', true) => run e ys s'
      | (s', false) => (s', false)) := by
  induction xs generalizing s with
  | nil => simp [run]
  | cons k ks ih =>
    simp only [List.cons_append, run]
    cases h : exec e s k with
    | next s' => simp [ih]
    | abort s' => simp

theorem benign_cons_ok {ev : Ev} {l : List Ev} (h : ev.out = .ok ∨ ev.kind.tolerated = true) :
    benign (ev :: l) = benign l := by
  cases l with
  | nil => rcases h with h | h <;> simp [benign, h]
  | cons a l => simp [benign, h]

theorem benign_append {l1 l2 : List Ev} (h1 : benign l1 = true) (h2 : benign l2 = true) :
    benign (l1 ++ l2) = true := by
  induction l1 using benign.induct with
  | case1 => simpa using h2
  | case2 ev =>
    have hc : ev.out = .ok ∨ ev.kind.tolerated = true := by simpa [benign] using h1
    simp only [List.cons_append, List.nil_append]
    rw [benign_cons_ok hc]; exact h2
  | case3 ev ev2 rest hc ih =>
    simp only [benign, hc, if_true] at h1
    simp only [List.cons_append]
    rw [benign_cons_ok hc]; exact ih h1
  | case4 ev ev2 rest hc ih =>
    simp only [benign, hc, if_false, Bool.and_eq_true] at h1
    simp only [List.cons_append, benign, hc, if_false, Bool.and_eq_true]
    exact ⟨h1.1, ih h1.2⟩

theorem benign_mem {l : List Ev} (h : benign l = true) {ev : Ev} (hm : ev ∈ l) :
    ev.out = .ok ∨ ev.kind.tolerated = true ∨ (ev.kind.isWebhook = true ∧ ev.out = .error) := by
  induction l using benign.induct with
  | case1 => simp at hm
  | case2 x =>
    have hc : x.out = .ok ∨ x.kind.tolerated = true := by simpa [benign] using h
    simp at hm; subst hm
    rcases hc with hc | hc
    · exact Or.inl hc
    · exact Or.inr (Or.inl hc)
  | case3 x x2 rest hc ih =>
    simp only [benign, hc, if_true] at h
    rcases List.mem_cons.mp hm with rfl | hm'
    · rcases hc with hc | hc
      · exact Or.inl hc
      · exact Or.inr (Or.inl hc)
    · exact ih h hm'
  | case4 x x2 rest hc ih =>
    simp only [benign, hc, if_false, Bool.and_eq_true, beq_iff_eq] at h
    obtain ⟨⟨⟨⟨hw, he⟩, hk⟩, ho⟩, hb⟩ := h
    rcases List.mem_cons.mp hm with rfl | hm'
    · exact Or.inr (Or.inr ⟨hw, he⟩)
    · rcases List.mem_cons.mp hm' with rfl | hm''
      · exact Or.inl ho
      · exact ih hb hm''

/-- two consecutive failed attempts at a webhook never occur in a benign trace -/
theorem not_benign_double (k : Kind) (o : Outcome) (post : List Ev) (ho : o ≠ .ok) (hw : k.isWebhook = true) :
    ∀ (pre : List Ev), benign (pre ++ ⟨k, .error⟩ :: ⟨k, o⟩ :: post) = true → False := by
  have hk : k.tolerated = false := by cases k <;> simp_all [Kind.isWebhook, Kind.tolerated]
  intro pre
  induction pre using benign.induct with
  | case1 =>
    intro h
    simp [benign, hk, ho] at h
  | case2 x =>
    intro h
    by_cases hc : x.out = .ok ∨ x.kind.tolerated = true
    · simp only [List.cons_append, List.nil_append] at h
      rw [benign_cons_ok hc] at h
      simp [benign, hk, ho] at h
    · simp only [List.cons_append, List.nil_append, benign, hc, if_false, Bool.and_eq_true, beq_iff_eq] at h
      exact absurd h.1.2 (by simp)
  | case3 x x2 rest hc ih =>
    intro h
    simp only [List.cons_append] at h
    rw [benign_cons_ok hc] at h
    exact ih h
  | case4 x x2 rest hc ih =>
    intro h
    simp only [List.cons_append, benign, hc, if_false, Bool.and_eq_true] at h
    exact ih h.2

@[simp] theorem call_fst (e : Env) (s : St) (k : Kind) : (call e s k).1 = e.f s.log.length := rfl
@[simp] theorem call_log (e : Env) (s : St) (k : Kind) :
    (call e s k).2.log = s.log ++ [⟨k, e.f s.log.length⟩] := rfl
@[simp] theorem call_d (e : Env) (s : St) (k : Kind) : (call e s k).2.d = s.d := rfl
@[simp] theorem decide'_log (e : Env) (s : St) : (decide' e s).2.log = s.log := rfl
@[simp] theorem decide'_d (e : Env) (s : St) : (decide' e s).2.d = s.d := rfl
@[simp] theorem spend_log (s : St) : (spend s).log = s.log := rfl
@[simp] theorem addCert_log (s : St) (b : Bool) : (addCert s b).log = s.log := rfl
@[simp] theorem addRev_log (s : St) : (addRev s).log = s.log := rfl

theorem webhook_eq (e : Env) (s : St) (k : Kind) :
    webhook e s k =
      if e.f s.log.length = .error then
        (e.f (s.log.length + 1) == .ok, (call e (call e s k).2 k).2)
      else (e.f s.log.length == .ok, (call e s k).2) := by
  unfold webhook
  cases h : e.f s.log.length <;> simp [retryable, h]

theorem webhook_log (e : Env) (s : St) (k : Kind) :
    ∃ t, (webhook e s k).2.log = s.log ++ t ∧ (webhook e s k).2.d = s.d ∧ t.length ≤ 2 ∧
      (k.isWebhook = true → (webhook e s k).1 = true → benign t = true) := by
  have hk' : k.isWebhook = true → k.tolerated = false := by
    cases k <;> simp [Kind.isWebhook, Kind.tolerated]
  rw [webhook_eq]
  by_cases h1 : e.f s.log.length = .error
  · rw [if_pos h1]
    refine ⟨[⟨k, .error⟩, ⟨k, e.f (s.log.length + 1)⟩], by simp [h1], by simp, by simp, ?_⟩
    intro hw ho
    simp only [beq_iff_eq] at ho
    simp [benign, hw, hk' hw, ho]
  · rw [if_neg h1]
    refine ⟨[⟨k, e.f s.log.length⟩], by simp, by simp, by simp, ?_⟩
    intro _ ho
    simp only [beq_iff_eq] at ho
    simp [benign, ho]
/-- a step that lets the request continue appended only benign events -/
theorem execDB_next_benign {e : Env} {s s' : St} {k : Kind} (h : execDB e s k = .next s') :
    ∃ t, s'.log = s.log ++ t ∧ benign t = true := by
  cases k <;> simp only [execDB] at h
  case useToken =>
    split at h
    · split at h
      · cases h
      · cases h; rename_i ho _; simp at ho; exact ⟨_, call_log .., by simp [benign, ho]⟩
    · cases h
    · cases h
  case isRevoked =>
    split at h
    · cases h; rename_i hc; simp at hc; exact ⟨_, call_log .., by simp [benign, hc.1]⟩
    · cases h
  case readCert => cases h; exact ⟨_, call_log .., by simp [benign, Kind.tolerated]⟩
  case readData => cases h; exact ⟨_, call_log .., by simp [benign, Kind.tolerated]⟩
  case enrich =>
    split at h
    · cases h; rename_i hc
      obtain ⟨t, ht, _, _, hb⟩ := webhook_log e s .enrich
      exact ⟨t, ht, hb rfl hc⟩
    · cases h
  case authorize =>
    split at h
    · cases h; rename_i hc
      obtain ⟨t, ht, _, _, hb⟩ := webhook_log e s .authorize
      exact ⟨t, ht, hb rfl hc⟩
    · cases h
  case store =>
    split at h
    · cases h; rename_i ho; simp at ho; exact ⟨_, call_log .., by simp [benign, ho]⟩
    · cases h
    · cases h
  case storeRev =>
    split at h
    · split at h
      · cases h
      · cases h; rename_i ho _; simp at ho; exact ⟨_, call_log .., by simp [benign, ho]⟩
    · cases h
    · cases h
  case check => split at h <;> cases h; exact ⟨[], by simp, rfl⟩
  case casSign => split at h <;> cases h; exact ⟨[], by simp, rfl⟩
  case casRevoke => split at h <;> cases h; exact ⟨[], by simp, rfl⟩
  case acmeRead =>
    split at h
    · cases h; rename_i hc; simp at hc; exact ⟨_, call_log .., by simp [benign, hc]⟩
    · cases h
  case acmeStoreCert =>
    split at h
    · cases h; rename_i ho; simp at ho; exact ⟨_, call_log .., by simp [benign, ho]⟩
    · cases h
    · cases h
  case acmeIndex =>
    split at h
    · cases h; rename_i hc; simp at hc; exact ⟨_, call_log .., by simp [benign, hc]⟩
    · cases h
  case acmeUpdateOrder =>
    split at h
    · cases h; rename_i ho; simp at ho; exact ⟨_, call_log .., by simp [benign, ho]⟩
    · cases h
    · cases h

/-- `db.SimpleDB` makes no external call and changes nothing but the in-memory token set -/
theorem execMem_spec {s s' : St} {k : Kind} (h : execMem s k = .next s' ∨ execMem s k = .abort s') :
    s'.log = s.log ∧ s'.d.certs = s.d.certs ∧ s'.d.revoked = s.d.revoked ∧
    (s.d.tokenSpent = true → s'.d.tokenSpent = true) := by
  cases k <;> simp only [execMem] at h <;> (try split at h) <;> rcases h with h | h <;> cases h <;>
    simp [spend]

theorem exec_next_benign {e : Env} {s s' : St} {k : Kind} (h : exec e s k = .next s') :
    ∃ t, s'.log = s.log ++ t ∧ benign t = true := by
  unfold exec at h
  split at h
  · exact ⟨[], by simp [(execMem_spec (Or.inl h)).1], rfl⟩
  · exact execDB_next_benign h

theorem run_benign (e : Env) (ks : List Kind) (s : St)
    (hc : (run e ks s).2 = true) (hb : benign s.log = true) :
    benign (run e ks s).1.log = true := by
  induction ks generalizing s with
  | nil => simpa [run] using hb
  | cons k ks ih =>
    simp only [run] at hc ⊢
    cases h : exec e s k with
    | next s' =>
      simp only [h] at hc ⊢
      obtain ⟨t, ht, hbt⟩ := exec_next_benign h
      exact ih s' hc (by rw [ht]; exact benign_append hb hbt)
    | abort s' => simp [h] at hc

/-- what one step can do to the durable state and the trace: tables only grow, flags only
    get set, the trace is only extended -/
theorem execDB_mono {e : Env} {s s' : St} {k : Kind}
    (h : execDB e s k = .next s' ∨ execDB e s k = .abort s') :
    s.d.certs ≤ s'.d.certs ∧ (s.d.tokenSpent = true → s'.d.tokenSpent = true) ∧
    (s.d.revoked = true → s'.d.revoked = true) ∧ ∃ t, s'.log = s.log ++ t := by
  cases k <;> simp only [execDB] at h
  case enrich =>
    obtain ⟨t, ht, hd, _, _⟩ := webhook_log e s .enrich
    split at h <;> rcases h with h | h <;> cases h <;> simp [hd, ht]
  case authorize =>
    obtain ⟨t, ht, hd, _, _⟩ := webhook_log e s .authorize
    split at h <;> rcases h with h | h <;> cases h <;> simp [hd, ht]
  all_goals
    (repeat' split at h) <;> rcases h with h | h <;> cases h <;>
      simp [spend, addCert, addRev, call, decide']

theorem exec_mono {e : Env} {s s' : St} {k : Kind}
    (h : exec e s k = .next s' ∨ exec e s k = .abort s') :
    s.d.certs ≤ s'.d.certs ∧ (s.d.tokenSpent = true → s'.d.tokenSpent = true) ∧
    (s.d.revoked = true → s'.d.revoked = true) ∧ ∃ t, s'.log = s.log ++ t := by
  unfold exec at h
  split at h
  · obtain ⟨a, b, c, d⟩ := execMem_spec h
    exact ⟨by omega, d, by simp [c], [], by simp [a]⟩
  · exact execDB_mono h

theorem run_mono (e : Env) (ks : List Kind) (s : St) :
    s.d.certs ≤ (run e ks s).1.d.certs ∧ (s.d.tokenSpent = true → (run e ks s).1.d.tokenSpent = true) ∧
    (s.d.revoked = true → (run e ks s).1.d.revoked = true) ∧ ∃ t, (run e ks s).1.log = s.log ++ t := by
  induction ks generalizing s with
  | nil => exact ⟨Nat.le_refl _, id, id, [], by simp [run]⟩
  | cons k ks ih =>
    simp only [run]
    cases h : exec e s k with
    | next s' =>
      obtain ⟨a, b, c, t, ht⟩ := exec_mono (Or.inl h)
      obtain ⟨a', b', c', t', ht'⟩ := ih s'
      exact ⟨Nat.le_trans a a', fun x => b' (b x), fun x => c' (c x), t ++ t', by simp [ht', ht]⟩
    | abort s' =>
      obtain ⟨a, b, c, t, ht⟩ := exec_mono (Or.inr h)
      exact ⟨a, b, c, t, ht⟩

/-! ### the webhook client's decision -/

/-- `DoWithContext` + controller allow the request iff the first attempt is answered
    "allow", or it fails retryably (transport error / 5xx) and the second attempt is answered
    "allow".  A deadline, a denial (allow=false, 4xx) or an undecodable body on the deciding
    attempt refuse it. -/
theorem webhook_allows_iff (e : Env) (s : St) (k : Kind) :
    (webhook e s k).1 = true ↔
      e.f s.log.length = .ok ∨ (e.f s.log.length = .error ∧ e.f (s.log.length + 1) = .ok) := by
  rw [webhook_eq]
  cases h : e.f s.log.length <;> simp

/-- at most two attempts per webhook -/
theorem webhook_attempts (e : Env) (s : St) (k : Kind) :
    (webhook e s k).2.log.length ≤ s.log.length + 2 := by
  obtain ⟨t, ht, _, hl, _⟩ := webhook_log e s k
  rw [ht]; simp; omega

/-! ### fail closed -/

/-- **fail_closed.** For every operation, configuration, fault function and initial database
    state: if the client receives anything but an error, the trace of external calls the
    request made is benign — every call was answered `ok`, except reads whose failure the code
    ignores and retryable webhook failures immediately repaired by the retry. -/
theorem fail_closed (e : Env) (op : Op) (c : Cfg) (d : Durable)
    (h : client op (runOp e op c d) ≠ .error) :
    benign (runOp e op c d).1.log = true := by
  unfold client at h
  cases hc : (runOp e op c d).2 with
  | false => simp [hc] at h
  | true => exact run_benign e _ _ hc (by simp [init, benign])

/-- Contrapositive, per position and kind: a deadline, a denial or an undecodable answer at
    *any* position of the trace (other than an ignored read), and an error at any position
    that is not an ignored read or a webhook attempt, make the client outcome an error: no
    certificate, no acknowledged revocation. -/
theorem fail_closed_at (e : Env) (op : Op) (c : Cfg) (d : Durable) (ev : Ev)
    (hm : ev ∈ (runOp e op c d).1.log) (ht : ev.kind.tolerated = false)
    (hk : ev.out = .timeout ∨ ev.out = .deny ∨ ev.out = .malformed ∨
          (ev.out = .error ∧ ev.kind.isWebhook = false)) :
    client op (runOp e op c d) = .error ∧ client op (runOp e op c d) ≠ .certificate ∧
    client op (runOp e op c d) ≠ .revoked := by
  have : client op (runOp e op c d) = .error := by
    apply Classical.byContradiction
    intro hne
    have hb := fail_closed e op c d hne
    rcases benign_mem hb hm with h | h | ⟨hw, he⟩
    · rcases hk with hk | hk | hk | ⟨hk, _⟩ <;> simp [h] at hk
    · simp [ht] at h
    · rcases hk with hk | hk | hk | ⟨_, hk⟩
      · simp [he] at hk
      · simp [he] at hk
      · simp [he] at hk
      · simp [hw] at hk
  simp [this]

/-- A webhook whose two attempts both fail (a persistent outage) refuses the request. -/
theorem fail_closed_webhook_persistent (e : Env) (op : Op) (c : Cfg) (d : Durable)
    (pre post : List Ev) (k : Kind) (o : Outcome)
    (hl : (runOp e op c d).1.log = pre ++ ⟨k, .error⟩ :: ⟨k, o⟩ :: post) (ho : o ≠ .ok)
    (hw : k.isWebhook = true) :
    client op (runOp e op c d) = .error := by
  apply Classical.byContradiction
  intro hne
  have hb := fail_closed e op c d hne
  rw [hl] at hb
  exact not_benign_double k o post ho hw pre hb

/-! ### stored before returned -/

theorem run_store (e : Env) (hdb : e.db = true) (ks : List Kind) (s : St) (hmem : Kind.store ∈ ks)
    (hc : (run e ks s).2 = true) :
    (∃ pre post, (run e ks s).1.log = pre ++ ⟨.store, .ok⟩ :: post) ∧
    s.d.certs + 1 ≤ (run e ks s).1.d.certs := by
  induction ks generalizing s with
  | nil => simp at hmem
  | cons k ks ih =>
    simp only [run] at hc ⊢
    cases h : exec e s k with
    | abort s' => simp [h] at hc
    | next s' =>
      simp only [h] at hc ⊢
      by_cases hk : k = .store
      · subst hk
        have hs : s'.log = s.log ++ [⟨.store, .ok⟩] ∧ s'.d.certs = s.d.certs + 1 := by
          simp only [exec, hdb, Bool.true_eq_false, false_and, if_false, execDB, call, addCert] at h
          split at h
          · cases h; rename_i ho; simp [ho]
          · cases h
          · cases h
        obtain ⟨a, _, _, t, ht⟩ := run_mono e ks s'
        refine ⟨⟨s.log, t, ?_⟩, by omega⟩
        rw [ht, hs.1]; simp
      · have hm' : Kind.store ∈ ks := by
          rcases List.mem_cons.mp hmem with h' | h'
          · exact absurd h'.symm hk
          · exact h'
        obtain ⟨hx, hy⟩ := ih s' hm' hc
        obtain ⟨a, _, _, _, _⟩ := exec_mono (Or.inl h)
        exact ⟨hx, by omega⟩

theorem store_mem (op : Op) (c : Cfg) (h : op.revokes = false) : Kind.store ∈ steps op c := by
  cases op <;> simp [Op.revokes] at h <;>
    simp [steps, authorizeSteps, authorizeTokenSteps, signX509Steps, signSSHSteps, renewContextSteps,
      authorizeRenewSteps, storeRenewedSteps, renewSSHSteps, rekeySSHSteps, finalizeSteps, finalizePre, finalizePost, createCertificateSteps, updateOrderSteps]

/-- **stored_before_returned.** For every issuing operation (sign, renew, rekey, SSH sign /
    renew / rekey, ACME finalize), configuration, fault function and database state: if the
    client is handed a certificate and a database that stores certificates is configured, then
    earlier in the same trace the store call was made and answered `ok`, and the certificate
    table has grown. -/
theorem stored_before_returned (e : Env) (op : Op) (c : Cfg) (d : Durable) (hdb : e.db = true)
    (hop : op.revokes = false) (h : client op (runOp e op c d) = .certificate) :
    (∃ pre post, (runOp e op c d).1.log = pre ++ ⟨.store, .ok⟩ :: post) ∧
    d.certs + 1 ≤ (runOp e op c d).1.d.certs := by
  unfold client at h
  cases hc : (runOp e op c d).2 with
  | false => simp [hc] at h
  | true => exact run_store e hdb _ (init op d) (store_mem op c hop) hc

/-- Likewise a revocation is acknowledged only after the revocation record call was answered
    `ok`, and the record exists afterwards. -/
theorem revocation_stored_before_acknowledged (e : Env) (op : Op) (c : Cfg) (d : Durable)
    (h : client op (runOp e op c d) = .revoked) :
    ⟨.storeRev, .ok⟩ ∈ (runOp e op c d).1.log ∧ (runOp e op c d).1.d.revoked = true := by
  have gen : ∀ (ks : List Kind) (s : St), Kind.storeRev ∈ ks → (run e ks s).2 = true →
      ⟨.storeRev, .ok⟩ ∈ (run e ks s).1.log ∧ (run e ks s).1.d.revoked = true := by
    intro ks
    induction ks with
    | nil => intro s hm; simp at hm
    | cons k ks ih =>
      intro s hm hc
      simp only [run] at hc ⊢
      cases h : exec e s k with
      | abort s' => simp [h] at hc
      | next s' =>
        simp only [h] at hc ⊢
        by_cases hk : k = .storeRev
        · subst hk
          have hs : s'.log = s.log ++ [⟨.storeRev, .ok⟩] ∧ s'.d.revoked = true := by
            unfold exec at h
            split at h
            · simp [execMem] at h
            · simp only [execDB, call, addRev] at h
              split at h
              · split at h
                · cases h
                · cases h; rename_i ho _; simp [ho]
              · cases h
              · cases h
          obtain ⟨_, _, c', t, ht⟩ := run_mono e ks s'
          exact ⟨by rw [ht, hs.1]; simp, c' hs.2⟩
        · have hm' : Kind.storeRev ∈ ks := by
            rcases List.mem_cons.mp hm with h' | h'
            · exact absurd h'.symm hk
            · exact h'
          exact ih s' hm' hc
  unfold client at h
  cases hc : (runOp e op c d).2 with
  | false => simp [hc] at h
  | true =>
    have hr : op.revokes = true := by
      cases hr : op.revokes with
      | true => rfl
      | false => simp [hc, hr] at h
    have hm : Kind.storeRev ∈ steps op c := by
      cases op <;> simp [Op.revokes] at hr <;>
        simp [steps, authorizeSteps, authorizeTokenSteps, revokeTokenSteps, revokeMTLSSteps, revokeSSHSteps]
    exact gen _ (init op d) hm hc

/-! ### token spent -/

/-- the token record is the first thing a token operation does (before any validation) -/
theorem token_recorded_first (op : Op) (c : Cfg) (h : op.usesToken = true) :
    ∃ rest, steps op c = .useToken :: .check :: rest := by
  cases op <;> simp [Op.usesToken] at h <;> simp [steps, authorizeSteps, authorizeTokenSteps]

theorem exec_useToken_spends (e : Env) (s : St) (h0 : e.f s.log.length = .ok ∨ e.f s.log.length = .timeout) :
    ∃ s', (exec e s .useToken = .next s' ∨ exec e s .useToken = .abort s') ∧ s'.d.tokenSpent = true := by
  unfold exec
  split
  · simp only [execMem]
    cases hd : s.d.tokenSpent
    · exact ⟨spend s, Or.inl (by simp), by simp [spend]⟩
    · exact ⟨s, Or.inr (by simp), hd⟩
  simp only [execDB, call_fst]
  rcases h0 with h0 | h0 <;> rw [h0]
  · cases hd : s.d.tokenSpent
    · exact ⟨spend (call e s .useToken).2, Or.inl (by simp), by simp [spend]⟩
    · exact ⟨(call e s .useToken).2, Or.inr (by simp), by simp [hd]⟩
  · exact ⟨_, Or.inr rfl, by simp [spend]⟩

theorem exec_useToken_refuses (e : Env) (s : St) (hd : s.d.tokenSpent = true) :
    ∃ s', exec e s .useToken = .abort s' ∧ s'.d.certs = s.d.certs ∧ s'.d.revoked = s.d.revoked := by
  unfold exec
  split
  · exact ⟨s, by simp [execMem, hd], rfl, rfl⟩
  simp only [execDB, call_fst]
  cases e.f s.log.length <;> simp [hd, spend]

/-- Once the record call at position 0 was answered `ok` (or applied with the acknowledgement
    lost), the token is spent whatever happens afterwards — any later check, webhook or storage
    failure. -/
theorem token_spent_after_attempt (e : Env) (op : Op) (c : Cfg) (d : Durable)
    (hop : op.usesToken = true) (h0 : e.f 0 = .ok ∨ e.f 0 = .timeout) :
    (runOp e op c d).1.d.tokenSpent = true := by
  obtain ⟨rest, hs⟩ := token_recorded_first op c hop
  obtain ⟨s', hx, hsp⟩ := exec_useToken_spends e (init op d) (by simpa [init] using h0)
  simp only [runOp, hs]
  rw [run]
  rcases hx with hx | hx <;> rw [hx]
  · exact (run_mono e _ s').2.1 hsp
  · exact hsp

/-- A spent token is refused: whatever the environment does, the request ends in an error
    and stores no certificate and no revocation. -/
theorem spent_token_refused (e : Env) (op : Op) (c : Cfg) (d : Durable)
    (hop : op.usesToken = true) (hd : d.tokenSpent = true) :
    client op (runOp e op c d) = .error ∧ (runOp e op c d).1.d.certs = d.certs ∧
    (runOp e op c d).1.d.revoked = d.revoked := by
  obtain ⟨rest, hs⟩ := token_recorded_first op c hop
  obtain ⟨s', hx, h1, h2⟩ := exec_useToken_refuses e (init op d) (by simpa [init] using hd)
  simp only [runOp, hs, client]
  rw [run, hx]
  exact ⟨by simp, by simpa [init] using h1, by simpa [init] using h2⟩

/-- **token_spent.** A token whose record call was answered in a first attempt — whether that
    attempt then succeeded or failed at any later step under any faults — is refused by every
    later attempt, under any faults. -/
theorem token_spent (e e' : Env) (op : Op) (c c' : Cfg) (d : Durable)
    (hop : op.usesToken = true) (h0 : e.f 0 = .ok ∨ e.f 0 = .timeout) :
    client op (runOp e' op c' (runOp e op c d).1.d) = .error :=
  (spent_token_refused e' op c' _ hop (token_spent_after_attempt e op c d hop h0)).1

/-! ### no database configured (`db.SimpleDB`) -/

/-- a step that always refuses blocks every list that contains it -/
theorem run_blocked (e : Env) (k : Kind) (hk : ∀ s, ∃ s', exec e s k = .abort s') :
    ∀ (ks : List Kind) (s : St), k ∈ ks → (run e ks s).2 = false := by
  intro ks
  induction ks with
  | nil => intro s hm; simp at hm
  | cons a ks ih =>
    intro s hm
    simp only [run]
    cases hx : exec e s a with
    | abort s' => rfl
    | next s' =>
      rcases List.mem_cons.mp hm with rfl | hm'
      · obtain ⟨s'', h⟩ := hk s; rw [h] at hx; cases hx
      · exact ih s' hm'

/-- Without a database that stores revocations a revocation is never acknowledged
    (`ErrNotImplemented` → 501), whatever else happens. -/
theorem revoke_needs_db (e : Env) (op : Op) (c : Cfg) (d : Durable) (hdb : e.db = false)
    (hop : op.revokes = true) : client op (runOp e op c d) = .error := by
  have hm : Kind.storeRev ∈ steps op c := by
    cases op <;> simp [Op.revokes] at hop <;>
      simp [steps, authorizeSteps, authorizeTokenSteps, revokeTokenSteps, revokeMTLSSteps, revokeSSHSteps]
  have hb := run_blocked e .storeRev (fun s => ⟨s, by simp [exec, hdb, Kind.isStore, execMem]⟩)
    (steps op c) (init op d) hm
  simp [client, runOp, hb]

/-! ### the step lists and the source -/

/-- The three request paths through `Revoke` (token, mTLS, SSH) are sub-sequences of the
    function body in source order (which the harness re-derives from the Go source on every
    run and the driver compares with `revokeSourceOrder`). -/
theorem revoke_paths_in_source_order :
    revokeTokenSteps.isSublist revokeSourceOrder = true ∧
    revokeMTLSSteps.isSublist revokeSourceOrder = true ∧
    revokeSSHSteps.isSublist revokeSourceOrder = true := by decide

/-! ### hypotheses are satisfiable (non-trivial instances) -/

def allOk : Env := { f := fun _ => .ok, g := fun _ => true }
def noDB : Env := { allOk with db := false }

/-- `ErrNotImplemented` is tolerated: without a database the certificate is issued unrecorded -/
example : let r := runOp noDB .sign ⟨1, 1⟩ {}
    client .sign r = .certificate ∧ r.1.d.certs = 0 ∧ r.1.log.length = 2 := by decide
example : client .revoke (runOp noDB .revoke ⟨0, 0⟩ {}) = .error := by decide

example : client .sign (runOp allOk .sign ⟨2, 1⟩ {}) = .certificate := by decide
example : client .revoke (runOp allOk .revoke ⟨0, 0⟩ {}) = .revoked := by decide
example : (runOp allOk .sign ⟨2, 1⟩ {}).1.log.length = 5 := by decide
/-- a transient webhook failure repaired by the retry: certificate issued, trace benign -/
example : client .sign (runOp { allOk with f := fun n => if n = 2 then .error else .ok } .sign ⟨2, 1⟩ {}) = .certificate := by decide
/-- denial at the authorizing webhook: error, token spent, nothing stored -/
example : let r := runOp { allOk with f := fun n => if n = 3 then .deny else .ok } .sign ⟨2, 1⟩ {}
    client .sign r = .error ∧ r.1.d.tokenSpent = true ∧ r.1.d.certs = 0 := by decide
/-- store acknowledgement lost: error although the certificate reached the table -/
example : let r := runOp { allOk with f := fun n => if n = 1 then .timeout else .ok } .sign ⟨0, 0⟩ {}
    client .sign r = .error ∧ r.1.d.certs = 1 := by decide
/-- `fail_closed_at` applies: the event is in the trace -/
example : (⟨.authorize, .deny⟩ : Ev) ∈ (runOp { allOk with f := fun n => if n = 3 then .deny else .ok } .sign ⟨2, 1⟩ {}).1.log := by decide
/-- `token_spent` applies to an attempt that failed in validation -/
example : client .sign (runOp allOk .sign ⟨0, 0⟩ (runOp { allOk with g := fun i => i != 0 } .sign ⟨0, 0⟩ {}).1.d) = .error := by decide

end Verif.FailClosed
