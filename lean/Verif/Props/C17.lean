import Verif.Model.FailClosed
/-!
  C17 — property theorems.  Every theorem quantifies over an arbitrary environment
  `e : Env` (fault function `e.f` over positions of the executed trace, in-process decisions
  `e.g`, database or `db.SimpleDB`), so it covers every fault sequence.
-/
namespace Verif.FailClosed

/-! ### helper lemmas -/

theorem run_append (e : Env) (xs ys : List Kind) (s : St) :
    run e (xs ++ ys) s = (match run e xs s with
      | (s', true) => run e ys s'
      | (s', false) => (s', false)) := by
  induction xs generalizing s with
  | nil => simp [run]
  | cons k ks ih =>
    simp only [List.cons_append, run]
    cases h : exec e s k with
    | next s' => simp [ih]
    | abort s' => simp

theorem benign_cons_harmless {ev : Ev} {l : List Ev} (h : ev.harmless = true) :
    benign (ev :: l) = benign l := by
  cases l with
  | nil => simp [benign, h]
  | cons a l => simp [benign, h]

theorem benign_append {l1 l2 : List Ev} (h1 : benign l1 = true) (h2 : benign l2 = true) :
    benign (l1 ++ l2) = true := by
  induction l1 using benign.induct with
  | case1 => simpa using h2
  | case2 ev =>
    have hc : ev.harmless = true := by simpa [benign] using h1
    simp only [List.cons_append, List.nil_append]
    rw [benign_cons_harmless hc]; exact h2
  | case3 ev ev2 rest hc ih =>
    simp only [benign, hc, if_true] at h1
    simp only [List.cons_append]
    rw [benign_cons_harmless hc]; exact ih h1
  | case4 ev ev2 rest hc ih =>
    simp only [benign, hc, Bool.false_eq_true, if_false, Bool.and_eq_true] at h1
    simp only [List.cons_append, benign, hc, Bool.false_eq_true, if_false, Bool.and_eq_true]
    exact ⟨h1.1, ih h1.2⟩

/-- the events a benign trace may contain -/
theorem benign_mem {l : List Ev} (h : benign l = true) {ev : Ev} (hm : ev ∈ l) :
    ev.harmless = true ∨ (ev.kind.isWebhook = true ∧ ev.out = .error) := by
  induction l using benign.induct with
  | case1 => simp at hm
  | case2 x =>
    have hc : x.harmless = true := by simpa [benign] using h
    simp at hm; subst hm
    exact Or.inl hc
  | case3 x x2 rest hc ih =>
    simp only [benign, hc, if_true] at h
    rcases List.mem_cons.mp hm with rfl | hm'
    · exact Or.inl hc
    · exact ih h hm'
  | case4 x x2 rest hc ih =>
    simp only [benign, hc, Bool.false_eq_true, if_false, Bool.and_eq_true, beq_iff_eq] at h
    obtain ⟨⟨⟨⟨hw, he⟩, hk⟩, ho⟩, hb⟩ := h
    rcases List.mem_cons.mp hm with rfl | hm'
    · exact Or.inr ⟨hw, he⟩
    · rcases List.mem_cons.mp hm' with rfl | hm''
      · exact Or.inl ho
      · exact ih hb hm''

/-- two consecutive failed attempts at a webhook never occur in a benign trace -/
theorem not_benign_double (k : Kind) (o : Outcome) (post : List Ev)
    (h1 : (⟨k, .error⟩ : Ev).harmless = false) (h2 : (⟨k, o⟩ : Ev).harmless = false) :
    ∀ (pre : List Ev), benign (pre ++ ⟨k, .error⟩ :: ⟨k, o⟩ :: post) = true → False := by
  intro pre
  induction pre using benign.induct with
  | case1 =>
    intro h
    simp [benign, h1, h2] at h
  | case2 x =>
    intro h
    by_cases hc : x.harmless = true
    · simp only [List.cons_append, List.nil_append] at h
      rw [benign_cons_harmless hc] at h
      simp [benign, h1, h2] at h
    · simp only [List.cons_append, List.nil_append, benign, hc, Bool.false_eq_true, if_false, Bool.and_eq_true] at h
      simp [h1] at h
  | case3 x x2 rest hc ih =>
    intro h
    simp only [List.cons_append] at h
    rw [benign_cons_harmless hc] at h
    exact ih h
  | case4 x x2 rest hc ih =>
    intro h
    simp only [List.cons_append, benign, hc, Bool.false_eq_true, if_false, Bool.and_eq_true] at h
    exact ih h.2

@[simp] theorem call_fst (e : Env) (s : St) (k : Kind) : (call e s k).1 = e.f s.log.length := rfl
@[simp] theorem call_log (e : Env) (s : St) (k : Kind) :
    (call e s k).2.log = s.log ++ [⟨k, e.f s.log.length⟩] := rfl
@[simp] theorem call_d (e : Env) (s : St) (k : Kind) : (call e s k).2.d = s.d := rfl
@[simp] theorem call_allowed (e : Env) (s : St) (k : Kind) : (call e s k).2.allowed = s.allowed := rfl
@[simp] theorem decide'_log (e : Env) (s : St) : (decide' e s).2.log = s.log := rfl
@[simp] theorem decide'_d (e : Env) (s : St) : (decide' e s).2.d = s.d := rfl
@[simp] theorem decide'_allowed (e : Env) (s : St) : (decide' e s).2.allowed = s.allowed := rfl
@[simp] theorem spend_log (s : St) : (spend s).log = s.log := rfl
@[simp] theorem addCert_log (s : St) (b : Bool) : (addCert s b).log = s.log := rfl
@[simp] theorem addRev_log (s : St) : (addRev s).log = s.log := rfl
@[simp] theorem spend_allowed (s : St) : (spend s).allowed = s.allowed := rfl
@[simp] theorem addCert_allowed (s : St) (b : Bool) : (addCert s b).allowed = s.allowed := rfl
@[simp] theorem addRev_allowed (s : St) : (addRev s).allowed = s.allowed := rfl
@[simp] theorem signed_log (s : St) : (signed s).log = s.log := rfl
@[simp] theorem signed_d (s : St) : (signed s).d = s.d := rfl
@[simp] theorem signed_allowed (s : St) : (signed s).allowed = s.allowed := rfl

theorem attempt_eq (e : Env) (s : St) (k : Kind) :
    attempt e s k =
      if e.f s.log.length = .error then call e (call e s k).2 k else call e s k := by
  unfold attempt
  cases h : e.f s.log.length <;> simp [retryable, h]

/-- the webhook client appends one or two events and touches nothing else; when the deciding
    answer is harmless, so is what it appended -/
theorem attempt_log (e : Env) (s : St) (k : Kind) :
    ∃ t, (attempt e s k).2.log = s.log ++ t ∧ (attempt e s k).2.d = s.d ∧
      (attempt e s k).2.allowed = s.allowed ∧ t.length ≤ 2 ∧
      (k.isWebhook = true → (⟨k, (attempt e s k).1⟩ : Ev).harmless = true → benign t = true) := by
  rw [attempt_eq]
  by_cases h1 : e.f s.log.length = .error
  · rw [if_pos h1]
    refine ⟨[⟨k, .error⟩, ⟨k, e.f (s.log.length + 1)⟩], by simp [h1], by simp, by simp, by simp, ?_⟩
    intro hw ho
    simp only [call_fst, call_log, List.length_append, List.length_cons, List.length_nil] at ho
    by_cases hh : (⟨k, .error⟩ : Ev).harmless = true
    · rw [benign_cons_harmless hh]; simpa [benign] using ho
    · simp [benign, hh, hw, ho]
  · rw [if_neg h1]
    refine ⟨[⟨k, e.f s.log.length⟩], by simp, by simp, by simp, by simp, ?_⟩
    intro _ ho
    simpa [benign] using ho

theorem webhook_eq (e : Env) (s : St) (k : Kind) :
    webhook e s k = ((attempt e s k).1 == .ok, (attempt e s k).2) := rfl

theorem harmless_ok (k : Kind) : (⟨k, .ok⟩ : Ev).harmless = true := by simp [Ev.harmless]

/-- a step that lets the request continue appended only benign events -/
theorem execDB_next_benign {e : Env} {s s' : St} {k : Kind} (h : execDB e s k = .next s') :
    ∃ t, s'.log = s.log ++ t ∧ benign t = true := by
  cases k <;> simp only [execDB] at h
  case useToken =>
    split at h
    · split at h
      · cases h
      · cases h; rename_i ho _; simp at ho; exact ⟨_, call_log .., by simp [benign, Ev.harmless, ho]⟩
    · cases h
    · cases h
  case isRevoked =>
    split at h
    · cases h; rename_i hc; simp at hc; exact ⟨_, call_log .., by simp [benign, Ev.harmless, hc.1]⟩
    · cases h
  case readCert => cases h; exact ⟨_, call_log .., by simp [benign, Ev.harmless, Kind.tolerated]⟩
  case readData => cases h; exact ⟨_, call_log .., by simp [benign, Ev.harmless, Kind.tolerated]⟩
  case enrich =>
    by_cases hu : e.hooksUsable = false
    · rw [if_pos hu] at h; cases h
    rw [if_neg hu] at h
    split at h
    · cases h; rename_i hc
      obtain ⟨t, ht, _, _, _, hb⟩ := attempt_log e s .enrich
      simp only [webhook_eq, beq_iff_eq] at hc
      exact ⟨t, ht, hb rfl (by rw [hc]; exact harmless_ok _)⟩
    · cases h
  case authorize =>
    by_cases hu : e.hooksUsable = false
    · rw [if_pos hu] at h; cases h
    rw [if_neg hu] at h
    split at h
    · cases h; rename_i hc
      obtain ⟨t, ht, _, _, _, hb⟩ := attempt_log e s .authorize
      simp only [webhook_eq, beq_iff_eq] at hc
      exact ⟨t, ht, hb rfl (by rw [hc]; exact harmless_ok _)⟩
    · cases h
  case store =>
    split at h
    · cases h; rename_i ho; simp at ho; exact ⟨_, call_log .., by simp [benign, Ev.harmless, ho]⟩
    · cases h
    · cases h
  case storeRev =>
    split at h
    · split at h
      · cases h
      · cases h; rename_i ho _; simp at ho; exact ⟨_, call_log .., by simp [benign, Ev.harmless, ho]⟩
    · cases h
    · cases h
  case check => split at h <;> cases h; exact ⟨[], by simp, rfl⟩
  case sshSign => split at h <;> cases h; exact ⟨[], by simp, rfl⟩
  case casSign =>
    split at h
    · cases h; rename_i hc; simp at hc; exact ⟨_, call_log .., by simp [benign, Ev.harmless, hc]⟩
    · cases h
  case req t =>
    split at h
    · cases h; rename_i hc; simp at hc; exact ⟨_, call_log .., by simp [benign, Ev.harmless, hc]⟩
    · cases h
  case acmeStoreCert =>
    split at h
    · cases h; rename_i ho; simp at ho; exact ⟨_, call_log .., by simp [benign, Ev.harmless, ho]⟩
    · cases h
    · cases h
  case acmeUpdateOrder =>
    split at h
    · cases h; rename_i ho; simp at ho; exact ⟨_, call_log .., by simp [benign, Ev.harmless, ho]⟩
    · cases h
    · cases h
  case challenge =>
    by_cases hu : e.hooksUsable = false
    · rw [if_pos hu] at h; cases h
    rw [if_neg hu] at h
    obtain ⟨t, ht, _, _, _, hb⟩ := attempt_log e s .challenge
    split at h
    · cases h; rename_i ho; exact ⟨t, ht, hb rfl (by rw [ho]; exact harmless_ok _)⟩
    · cases h; rename_i ho; exact ⟨t, ht, hb rfl (by rw [ho]; simp [Ev.harmless])⟩
    · cases h
  case challengeDone => split at h <;> cases h; exact ⟨[], by simp, rfl⟩
  case arm => cases h; exact ⟨[], by simp, rfl⟩
  case refuse => cases h
  case withData => cases h; exact ⟨[], by simp, rfl⟩
  case notify =>
    by_cases hu : e.hooksUsable = false
    · rw [if_pos hu] at h; cases h; exact ⟨[], by simp, rfl⟩
    rw [if_neg hu] at h
    obtain ⟨t, ht, _, _, _, hb⟩ := attempt_log e s .notify
    split at h
    · cases h; exact ⟨[], by simp, rfl⟩
    · cases h; exact ⟨t, ht, hb rfl (by simp [Ev.harmless, Kind.tolerated])⟩

/-- `db.SimpleDB` makes no external call and changes nothing but the in-memory token set -/
theorem execMem_spec {s s' : St} {k : Kind} (h : execMem s k = .next s' ∨ execMem s k = .abort s') :
    s'.log = s.log ∧ s'.d.certs = s.d.certs ∧ s'.d.revoked = s.d.revoked ∧ s'.allowed = s.allowed ∧
    (s.d.tokenSpent = true → s'.d.tokenSpent = true) := by
  cases k <;> simp only [execMem] at h <;> (try split at h) <;> rcases h with h | h <;> cases h <;>
    simp [spend]

theorem exec_next_benign {e : Env} {s s' : St} {k : Kind} (h : exec e s k = .next s') :
    ∃ t, s'.log = s.log ++ t ∧ benign t = true := by
  unfold exec at h
  split at h
  · exact ⟨[], by simp [(execMem_spec (Or.inl h)).1], rfl⟩
  · exact execDB_next_benign h

theorem run_benign (e : Env) (ks : List Kind) (s : St)
    (hc : (run e ks s).2 = true) (hb : benign s.log = true) :
    benign (run e ks s).1.log = true := by
  induction ks generalizing s with
  | nil => simpa [run] using hb
  | cons k ks ih =>
    simp only [run] at hc ⊢
    cases h : exec e s k with
    | next s' =>
      simp only [h] at hc ⊢
      obtain ⟨t, ht, hbt⟩ := exec_next_benign h
      exact ih s' hc (by rw [ht]; exact benign_append hb hbt)
    | abort s' => simp [h] at hc

/-- what one step can do to the durable state and the trace: tables only grow, flags only
    get set, the trace is only extended -/
theorem execDB_mono {e : Env} {s s' : St} {k : Kind}
    (h : execDB e s k = .next s' ∨ execDB e s k = .abort s') :
    s.d.certs ≤ s'.d.certs ∧ (s.d.tokenSpent = true → s'.d.tokenSpent = true) ∧
    (s.d.revoked = true → s'.d.revoked = true) ∧ ∃ t, s'.log = s.log ++ t := by
  cases k <;> simp only [execDB] at h
  case enrich =>
    by_cases hu : e.hooksUsable = false
    · rw [if_pos hu] at h; rcases h with h | h <;> cases h <;> exact ⟨Nat.le_refl _, id, id, [], by simp⟩
    rw [if_neg hu] at h
    obtain ⟨t, ht, hd, _, _, _⟩ := attempt_log e s .enrich
    split at h <;> rcases h with h | h <;> cases h <;> simp [webhook_eq, hd, ht]
  case authorize =>
    by_cases hu : e.hooksUsable = false
    · rw [if_pos hu] at h; rcases h with h | h <;> cases h <;> exact ⟨Nat.le_refl _, id, id, [], by simp⟩
    rw [if_neg hu] at h
    obtain ⟨t, ht, hd, _, _, _⟩ := attempt_log e s .authorize
    split at h <;> rcases h with h | h <;> cases h <;> simp [webhook_eq, hd, ht]
  case challenge =>
    by_cases hu : e.hooksUsable = false
    · rw [if_pos hu] at h; rcases h with h | h <;> cases h <;> exact ⟨Nat.le_refl _, id, id, [], by simp⟩
    rw [if_neg hu] at h
    obtain ⟨t, ht, hd, _, _, _⟩ := attempt_log e s .challenge
    split at h <;> rcases h with h | h <;> cases h <;> simp [hd, ht]
  case notify =>
    by_cases hu : e.hooksUsable = false
    · rw [if_pos hu] at h; rcases h with h | h <;> cases h <;> exact ⟨Nat.le_refl _, id, id, [], by simp⟩
    rw [if_neg hu] at h
    obtain ⟨t, ht, hd, _, _, _⟩ := attempt_log e s .notify
    split at h <;> rcases h with h | h <;> cases h <;> simp [hd, ht]
  all_goals
    (repeat' split at h) <;> rcases h with h | h <;> cases h <;>
      simp [spend, addCert, addRev, signed, call, decide']

theorem exec_mono {e : Env} {s s' : St} {k : Kind}
    (h : exec e s k = .next s' ∨ exec e s k = .abort s') :
    s.d.certs ≤ s'.d.certs ∧ (s.d.tokenSpent = true → s'.d.tokenSpent = true) ∧
    (s.d.revoked = true → s'.d.revoked = true) ∧ ∃ t, s'.log = s.log ++ t := by
  unfold exec at h
  split at h
  · obtain ⟨a, b, c, _, d⟩ := execMem_spec h
    exact ⟨by omega, d, by simp [c], [], by simp [a]⟩
  · exact execDB_mono h

theorem run_mono (e : Env) (ks : List Kind) (s : St) :
    s.d.certs ≤ (run e ks s).1.d.certs ∧ (s.d.tokenSpent = true → (run e ks s).1.d.tokenSpent = true) ∧
    (s.d.revoked = true → (run e ks s).1.d.revoked = true) ∧ ∃ t, (run e ks s).1.log = s.log ++ t := by
  induction ks generalizing s with
  | nil => exact ⟨Nat.le_refl _, id, id, [], by simp [run]⟩
  | cons k ks ih =>
    simp only [run]
    cases h : exec e s k with
    | next s' =>
      obtain ⟨a, b, c, t, ht⟩ := exec_mono (Or.inl h)
      obtain ⟨a', b', c', t', ht'⟩ := ih s'
      exact ⟨Nat.le_trans a a', fun x => b' (b x), fun x => c' (c x), t ++ t', by simp [ht', ht]⟩
    | abort s' =>
      obtain ⟨a, b, c, t, ht⟩ := exec_mono (Or.inr h)
      exact ⟨a, b, c, t, ht⟩

/-! ### the whole request and its failure notification -/

/-- `NotifyFailure` only talks to the NOTIFYING webhooks -/
theorem notify_only (e : Env) (n : Nat) (s : St) :
    (run e (List.replicate n .notify) s).1.d = s.d ∧
    ∃ t, (run e (List.replicate n .notify) s).1.log = s.log ++ t := by
  induction n generalizing s with
  | zero => exact ⟨rfl, [], by simp [run]⟩
  | succ n ih =>
    obtain ⟨t, ht, hd, _, _, _⟩ := attempt_log e s .notify
    have hx : ∃ s', exec e s .notify = .next s' ∧ s'.d = s.d ∧ ∃ t, s'.log = s.log ++ t := by
      simp only [exec, Kind.isStore, Bool.false_eq_true, and_false, if_false, execDB]
      by_cases hu : e.hooksUsable = false
      · rw [if_pos hu]; exact ⟨_, rfl, rfl, [], by simp⟩
      rw [if_neg hu]
      split
      · exact ⟨s, rfl, rfl, [], by simp⟩
      · exact ⟨_, rfl, hd, t, ht⟩
    obtain ⟨s', hx, hd', t1, ht1⟩ := hx
    simp only [List.replicate_succ, run, hx]
    obtain ⟨a, t', ht'⟩ := ih s'
    exact ⟨by rw [a, hd'], t1 ++ t', by rw [ht', ht1]; simp⟩

theorem runOp_snd (e : Env) (op : Op) (c : Cfg) (d : Durable) :
    (runOp e op c d).2 = (run e (steps op c) (init op d)).2 := by
  unfold runOp
  simp only []
  split
  · rename_i h; exact h.1.symm
  · rfl

theorem runOp_d (e : Env) (op : Op) (c : Cfg) (d : Durable) :
    (runOp e op c d).1.d = (run e (steps op c) (init op d)).1.d := by
  unfold runOp
  simp only []
  split
  · exact (notify_only e c.n _).1
  · rfl

theorem runOp_ok (e : Env) (op : Op) (c : Cfg) (d : Durable) (h : (runOp e op c d).2 = true) :
    runOp e op c d = run e (steps op c) (init op d) := by
  rw [runOp_snd] at h
  unfold runOp
  simp [h]

theorem client_eq (e : Env) (op : Op) (c : Cfg) (d : Durable) :
    client op (runOp e op c d) = client op (run e (steps op c) (init op d)) := by
  simp [client, runOp_snd]

/-! ### the webhook client's decision -/

/-- `DoWithContext` + controller allow the request iff the first attempt is answered
    "allow", or it fails retryably (transport error / 5xx) and the second attempt is answered
    "allow".  A deadline, a denial (allow=false), an error status below 500 or an undecodable
    body on the deciding attempt refuse it. -/
theorem webhook_allows_iff (e : Env) (s : St) (k : Kind) :
    (webhook e s k).1 = true ↔
      e.f s.log.length = .ok ∨ (e.f s.log.length = .error ∧ e.f (s.log.length + 1) = .ok) := by
  rw [webhook_eq, attempt_eq]
  cases h : e.f s.log.length <;> simp [h]

/-- at most two attempts per webhook -/
theorem webhook_attempts (e : Env) (s : St) (k : Kind) :
    (webhook e s k).2.log.length ≤ s.log.length + 2 := by
  obtain ⟨t, ht, _, _, hl, _⟩ := attempt_log e s k
  rw [webhook_eq]; simp only []; rw [ht]; simp; omega

/-! ### fail closed -/

/-- **fail_closed.** For every operation, configuration, fault function and initial database
    state: if the client receives anything but an error, the trace of external calls the
    request made is benign — every call was answered `ok`, except calls whose failure the code
    ignores (certificate / data reads, NOTIFYING webhooks), an `allow=false` of one SCEP
    challenge webhook (another one allowed), and retryable webhook failures immediately
    repaired by the retry. -/
theorem fail_closed (e : Env) (op : Op) (c : Cfg) (d : Durable)
    (h : client op (runOp e op c d) ≠ .error) :
    benign (runOp e op c d).1.log = true := by
  unfold client at h
  cases hc : (runOp e op c d).2 with
  | false => simp [hc] at h
  | true =>
    rw [runOp_ok e op c d hc]
    rw [runOp_snd] at hc
    exact run_benign e _ _ hc (by simp [init, benign])

/-- Contrapositive, per position and kind: a deadline or an undecodable answer / error status at
    *any* position of the trace (other than a call whose failure is ignored), a denial anywhere
    but at a SCEP challenge webhook, and an error at any position that is not a webhook attempt,
    make the client outcome an error: no certificate, no acknowledged revocation. -/
theorem fail_closed_at (e : Env) (op : Op) (c : Cfg) (d : Durable) (ev : Ev)
    (hm : ev ∈ (runOp e op c d).1.log) (ht : ev.kind.tolerated = false)
    (hk : ev.out = .timeout ∨ (ev.out = .deny ∧ ev.kind ≠ .challenge) ∨ ev.out = .malformed ∨
          (ev.out = .error ∧ ev.kind.isWebhook = false)) :
    client op (runOp e op c d) = .error ∧ client op (runOp e op c d) ≠ .certificate ∧
    client op (runOp e op c d) ≠ .revoked := by
  have : client op (runOp e op c d) = .error := by
    apply Classical.byContradiction
    intro hne
    have hb := fail_closed e op c d hne
    rcases benign_mem hb hm with h | ⟨hw, he⟩
    · simp only [Ev.harmless, ht, Bool.or_false, Bool.or_eq_true, beq_iff_eq, Bool.and_eq_true] at h
      rcases h with h | ⟨h1, h2⟩
      · rcases hk with hk | ⟨hk, _⟩ | hk | ⟨hk, _⟩ <;> simp [h] at hk
      · rcases hk with hk | ⟨_, hk⟩ | hk | ⟨hk, _⟩
        · simp [h2] at hk
        · exact hk h1
        · simp [h2] at hk
        · simp [h2] at hk
    · rcases hk with hk | ⟨hk, _⟩ | hk | ⟨_, hk⟩
      · simp [he] at hk
      · simp [he] at hk
      · simp [he] at hk
      · simp [hw] at hk
  simp [this]

/-- A webhook the request depends on whose two attempts both fail (a persistent outage, or an
    outage followed by a refusal) refuses the request.  For a SCEP challenge webhook this is
    "the first webhook error aborts": a later webhook that would allow is never asked. -/
theorem fail_closed_webhook_persistent (e : Env) (op : Op) (c : Cfg) (d : Durable)
    (pre post : List Ev) (k : Kind) (o : Outcome)
    (hl : (runOp e op c d).1.log = pre ++ ⟨k, .error⟩ :: ⟨k, o⟩ :: post)
    (ho : (⟨k, o⟩ : Ev).harmless = false) (hw : k.tolerated = false) :
    client op (runOp e op c d) = .error := by
  apply Classical.byContradiction
  intro hne
  have hb := fail_closed e op c d hne
  rw [hl] at hb
  have h1 : (⟨k, .error⟩ : Ev).harmless = false := by simp [Ev.harmless, hw]
  exact not_benign_double k o post h1 ho pre hb

/-! ### stored before returned -/

theorem run_store (e : Env) (hdb : e.db = true) (ks : List Kind) (s : St) (hmem : Kind.store ∈ ks)
    (hc : (run e ks s).2 = true) :
    (∃ pre post, (run e ks s).1.log = pre ++ ⟨.store, .ok⟩ :: post) ∧
    s.d.certs + 1 ≤ (run e ks s).1.d.certs := by
  induction ks generalizing s with
  | nil => simp at hmem
  | cons k ks ih =>
    simp only [run] at hc ⊢
    cases h : exec e s k with
    | abort s' => simp [h] at hc
    | next s' =>
      simp only [h] at hc ⊢
      by_cases hk : k = .store
      · subst hk
        have hs : s'.log = s.log ++ [⟨.store, .ok⟩] ∧ s'.d.certs = s.d.certs + 1 := by
          simp only [exec, hdb, Bool.true_eq_false, false_and, if_false, execDB, call, addCert] at h
          split at h
          · cases h; rename_i ho; simp [ho]
          · cases h
          · cases h
        obtain ⟨a, _, _, t, ht⟩ := run_mono e ks s'
        refine ⟨⟨s.log, t, ?_⟩, by omega⟩
        rw [ht, hs.1]; simp
      · have hm' : Kind.store ∈ ks := by
          rcases List.mem_cons.mp hmem with h' | h'
          · exact absurd h'.symm hk
          · exact h'
        obtain ⟨hx, hy⟩ := ih s' hm' hc
        obtain ⟨a, _, _, _, _⟩ := exec_mono (Or.inl h)
        exact ⟨hx, by omega⟩

theorem store_mem (op : Op) (c : Cfg) (h : op.revokes = false) : Kind.store ∈ steps op c := by
  cases op <;> simp [Op.revokes] at h <;>
    simp [steps, stepsOf, authorizeSteps, authorizeTokenSteps, signX509Steps, signSSHSteps, renewContextSteps,
      authorizeRenewSteps, storeRenewedSteps, renewSSHSteps, rekeySSHSteps, finalizeSteps, finalizePre, finalizePost, createCertificateSteps, updateOrderSteps,
      pkiOperationSteps, signCSRSteps]

/-- **stored_before_returned.** For every issuing operation (sign, renew, rekey, SSH sign /
    renew / rekey, ACME finalize), configuration, fault function and database state: if the
    client is handed a certificate and a database that stores certificates is configured, then
    earlier in the same trace the store call was made and answered `ok`, and the certificate
    table has grown. -/
theorem stored_before_returned (e : Env) (op : Op) (c : Cfg) (d : Durable) (hdb : e.db = true)
    (hop : op.revokes = false) (h : client op (runOp e op c d) = .certificate) :
    (∃ pre post, (runOp e op c d).1.log = pre ++ ⟨.store, .ok⟩ :: post) ∧
    d.certs + 1 ≤ (runOp e op c d).1.d.certs := by
  unfold client at h
  cases hc : (runOp e op c d).2 with
  | false => simp [hc] at h
  | true =>
    rw [runOp_ok e op c d hc]
    rw [runOp_snd] at hc
    exact run_store e hdb _ (init op d) (store_mem op c hop) hc

/-- Likewise a revocation is acknowledged only after the revocation record call was answered
    `ok`, and the record exists afterwards. -/
theorem revocation_stored_before_acknowledged (e : Env) (op : Op) (c : Cfg) (d : Durable)
    (h : client op (runOp e op c d) = .revoked) :
    ⟨.storeRev, .ok⟩ ∈ (runOp e op c d).1.log ∧ (runOp e op c d).1.d.revoked = true := by
  have gen : ∀ (ks : List Kind) (s : St), Kind.storeRev ∈ ks → (run e ks s).2 = true →
      ⟨.storeRev, .ok⟩ ∈ (run e ks s).1.log ∧ (run e ks s).1.d.revoked = true := by
    intro ks
    induction ks with
    | nil => intro s hm; simp at hm
    | cons k ks ih =>
      intro s hm hc
      simp only [run] at hc ⊢
      cases h : exec e s k with
      | abort s' => simp [h] at hc
      | next s' =>
        simp only [h] at hc ⊢
        by_cases hk : k = .storeRev
        · subst hk
          have hs : s'.log = s.log ++ [⟨.storeRev, .ok⟩] ∧ s'.d.revoked = true := by
            unfold exec at h
            split at h
            · simp [execMem] at h
            · simp only [execDB, call, addRev] at h
              split at h
              · split at h
                · cases h
                · cases h; rename_i ho _; simp [ho]
              · cases h
              · cases h
          obtain ⟨_, _, c', t, ht⟩ := run_mono e ks s'
          exact ⟨by rw [ht, hs.1]; simp, c' hs.2⟩
        · have hm' : Kind.storeRev ∈ ks := by
            rcases List.mem_cons.mp hm with h' | h'
            · exact absurd h'.symm hk
            · exact h'
          exact ih s' hm' hc
  unfold client at h
  cases hc : (runOp e op c d).2 with
  | false => simp [hc] at h
  | true =>
    have hr : op.revokes = true := by
      cases hr : op.revokes with
      | true => rfl
      | false => simp [hc, hr] at h
    have hm : Kind.storeRev ∈ steps op c := by
      cases op <;> simp [Op.revokes] at hr <;>
        simp [steps, stepsOf, authorizeSteps, authorizeTokenSteps, revokeTokenSteps, revokeMTLSSteps, revokeSSHSteps,
          revokeTokenBase, revokeMTLSBase]
    rw [runOp_ok e op c d hc]
    rw [runOp_snd] at hc
    exact gen _ (init op d) hm hc

/-! ### token spent -/

/-- the token record is the first thing a token operation does (before any validation) -/
theorem token_recorded_first (op : Op) (c : Cfg) (h : op.usesToken = true) (hr : c.refused = false) :
    ∃ rest, steps op c = .useToken :: .check :: rest := by
  cases op <;> simp [Op.usesToken] at h <;> simp [steps, stepsOf, hr, authorizeSteps, authorizeTokenSteps]

/-- a provisioner that failed to initialise refuses every request, before the token is
    recorded and before any external call; nothing changes -/
theorem refused_refuses (e : Env) (op : Op) (c : Cfg) (d : Durable) (hr : c.refused = true) :
    client op (runOp e op c d) = .error ∧ (runOp e op c d).1.d = d ∧ (runOp e op c d).1.log = [] := by
  have hx : ∀ s, exec e s .refuse = .abort s := by intro s; simp [exec, Kind.isStore, execDB]
  have hrun : run e (steps op c) (init op d) = (init op d, false) := by
    simp [steps, hr, run, hx]
  refine ⟨?_, ?_, ?_⟩
  · rw [client_eq, hrun]; simp [client]
  · rw [runOp_d, hrun]; rfl
  · have hi : (init op d).armed = false := rfl
    unfold runOp
    simp only [hrun, hi, Bool.false_eq_true, and_false, if_false]
    rfl

theorem exec_useToken_spends (e : Env) (s : St) (h0 : e.f s.log.length = .ok ∨ e.f s.log.length = .timeout) :
    ∃ s', (exec e s .useToken = .next s' ∨ exec e s .useToken = .abort s') ∧ s'.d.tokenSpent = true := by
  unfold exec
  split
  · simp only [execMem]
    cases hd : s.d.tokenSpent
    · exact ⟨spend s, Or.inl (by simp), by simp [spend]⟩
    · exact ⟨s, Or.inr (by simp), hd⟩
  simp only [execDB, call_fst]
  rcases h0 with h0 | h0 <;> rw [h0]
  · cases hd : s.d.tokenSpent
    · exact ⟨spend (call e s .useToken).2, Or.inl (by simp), by simp [spend]⟩
    · exact ⟨(call e s .useToken).2, Or.inr (by simp), by simp [hd]⟩
  · exact ⟨_, Or.inr rfl, by simp [spend]⟩

theorem exec_useToken_refuses (e : Env) (s : St) (hd : s.d.tokenSpent = true) :
    ∃ s', exec e s .useToken = .abort s' ∧ s'.d.certs = s.d.certs ∧ s'.d.revoked = s.d.revoked := by
  unfold exec
  split
  · exact ⟨s, by simp [execMem, hd], rfl, rfl⟩
  simp only [execDB, call_fst]
  cases e.f s.log.length <;> simp [hd, spend]

/-- Once the record call at position 0 was answered `ok` (or applied with the acknowledgement
    lost), the token is spent whatever happens afterwards — any later check, webhook or storage
    failure. -/
theorem token_spent_after_attempt (e : Env) (op : Op) (c : Cfg) (d : Durable)
    (hop : op.usesToken = true) (hr : c.refused = false) (h0 : e.f 0 = .ok ∨ e.f 0 = .timeout) :
    (runOp e op c d).1.d.tokenSpent = true := by
  obtain ⟨rest, hs⟩ := token_recorded_first op c hop hr
  obtain ⟨s', hx, hsp⟩ := exec_useToken_spends e (init op d) (by simpa [init] using h0)
  rw [runOp_d, hs, run]
  rcases hx with hx | hx <;> rw [hx]
  · exact (run_mono e _ s').2.1 hsp
  · exact hsp

/-- A spent token is refused: whatever the environment does, the request ends in an error
    and stores no certificate and no revocation. -/
theorem spent_token_refused (e : Env) (op : Op) (c : Cfg) (d : Durable)
    (hop : op.usesToken = true) (hd : d.tokenSpent = true) :
    client op (runOp e op c d) = .error ∧ (runOp e op c d).1.d.certs = d.certs ∧
    (runOp e op c d).1.d.revoked = d.revoked := by
  cases hr : c.refused with
  | true =>
    obtain ⟨a, b, _⟩ := refused_refuses e op c d hr
    exact ⟨a, by rw [b], by rw [b]⟩
  | false =>
  obtain ⟨rest, hs⟩ := token_recorded_first op c hop hr
  obtain ⟨s', hx, h1, h2⟩ := exec_useToken_refuses e (init op d) (by simpa [init] using hd)
  rw [client_eq, runOp_d, hs, run, hx]
  exact ⟨by simp [client], by simpa [init] using h1, by simpa [init] using h2⟩

/-- **token_spent.** A token whose record call was answered in a first attempt — whether that
    attempt then succeeded or failed at any later step under any faults — is refused by every
    later attempt, under any faults. -/
theorem token_spent (e e' : Env) (op : Op) (c c' : Cfg) (d : Durable)
    (hop : op.usesToken = true) (hr : c.refused = false) (h0 : e.f 0 = .ok ∨ e.f 0 = .timeout) :
    client op (runOp e' op c' (runOp e op c d).1.d) = .error :=
  (spent_token_refused e' op c' _ hop (token_spent_after_attempt e op c d hop hr h0)).1

/-- **failure_persisting.** The failure may persist: the same request again under the very same
    environment (same faults at the same positions) is refused as well once the token was
    recorded. -/
theorem failure_persisting (e : Env) (op : Op) (c : Cfg) (d : Durable)
    (hop : op.usesToken = true) (hr : c.refused = false) (h0 : e.f 0 = .ok ∨ e.f 0 = .timeout) :
    client op (runOp e op c (runOp e op c d).1.d) = .error :=
  token_spent e e op c c d hop hr h0

theorem restart_keeps_database (d : Durable) : restart true d = d := rfl

/-- **token_spent_across_restart.** With a database, a restart of the authority between the
    attempts changes nothing: the recorded token is still refused, under any faults. -/
theorem token_spent_across_restart (e e' : Env) (op : Op) (c c' : Cfg) (d : Durable)
    (hop : op.usesToken = true) (hr : c.refused = false) (h0 : e.f 0 = .ok ∨ e.f 0 = .timeout) :
    client op (runOp e' op c' (restart true (runOp e op c d).1.d)) = .error := by
  rw [restart_keeps_database]; exact token_spent e e' op c c' d hop hr h0

/-- **token_spent_across_reload.** A reload of the CA between the attempts changes nothing, with
    or without a database: the recorded token is still refused, under any faults. -/
theorem token_spent_across_reload (e e' : Env) (op : Op) (c c' : Cfg) (d : Durable)
    (hop : op.usesToken = true) (hr : c.refused = false) (h0 : e.f 0 = .ok ∨ e.f 0 = .timeout) :
    client op (runOp e' op c' (reload (runOp e op c d).1.d)) = .error :=
  token_spent e e' op c c' d hop hr h0

/-- what a restart keeps of the other records -/
theorem restart_keeps_records (db : Bool) (d : Durable) :
    (restart db d).certs = d.certs ∧ (restart db d).revoked = d.revoked ∧ (restart db d).datas = d.datas := by
  cases db <;> simp [restart]

/-! ### no database configured (`db.SimpleDB`) -/

/-- a step that always refuses blocks every list that contains it -/
theorem run_blocked (e : Env) (k : Kind) (hk : ∀ s, ∃ s', exec e s k = .abort s') :
    ∀ (ks : List Kind) (s : St), k ∈ ks → (run e ks s).2 = false := by
  intro ks
  induction ks with
  | nil => intro s hm; simp at hm
  | cons a ks ih =>
    intro s hm
    simp only [run]
    cases hx : exec e s a with
    | abort s' => rfl
    | next s' =>
      rcases List.mem_cons.mp hm with rfl | hm'
      · obtain ⟨s'', h⟩ := hk s; rw [h] at hx; cases hx
      · exact ih s' hm'

theorem storeRev_mem (op : Op) (c : Cfg) (hop : op.revokes = true) : Kind.storeRev ∈ steps op c := by
  cases op <;> simp [Op.revokes] at hop <;>
    simp [steps, stepsOf, authorizeSteps, authorizeTokenSteps, revokeTokenSteps, revokeMTLSSteps, revokeSSHSteps,
      revokeTokenBase, revokeMTLSBase]

/-- Without a database that stores revocations a revocation is never acknowledged
    (`ErrNotImplemented` → 501), whatever else happens. -/
theorem revoke_needs_db (e : Env) (op : Op) (c : Cfg) (d : Durable) (hdb : e.db = false)
    (hop : op.revokes = true) : client op (runOp e op c d) = .error := by
  have hb := run_blocked e .storeRev (fun s => ⟨s, by simp [exec, hdb, Kind.isStore, execMem]⟩)
    (steps op c) (init op d) (storeRev_mem op c hop)
  rw [client_eq]
  simp [client, hb]

/-! ### unusable webhook definitions -/

/-- A provisioner whose webhook definitions cannot be used (URL template does not parse, the
    signing secret is not base64) refuses every request that would consult an enriching,
    authorizing or challenge webhook — before any call goes out. -/
theorem unusable_hooks_refuse (e : Env) (op : Op) (c : Cfg) (d : Durable) (hu : e.hooksUsable = false)
    (k : Kind) (hk : k = .enrich ∨ k = .authorize ∨ k = .challenge) (hm : k ∈ steps op c) :
    client op (runOp e op c d) = .error := by
  have hb := run_blocked e k (fun s => ⟨s, by
    rcases hk with rfl | rfl | rfl <;> simp [exec, Kind.isStore, execDB, hu]⟩) (steps op c) (init op d) hm
  rw [client_eq]
  simp [client, hb]

/-! ### which webhooks are consulted -/

/-- A webhook written without `certType`, or with `ALL`, is consulted for every request; one
    written for the other certificate type is not.  (So a denying or failing webhook without
    `certType` refuses the request: `fail_closed_at` applies to its events.) -/
theorem unset_cert_type_consulted (ctl : CertT) (c : Cfg) :
    c.consulted ctl .unset = c ∧ c.consulted ctl .all = c ∧ c.consulted .x509 .x509 = c ∧
    c.consulted .ssh .ssh = c ∧ (c.consulted .x509 .ssh).e = 0 ∧ (c.consulted .ssh .x509).a = 0 := by
  cases ctl <;> simp [Cfg.consulted, certTypeOK, spellingOK, viaAdminDB]

/-- in a benign trace a failed attempt is repaired by a harmless one at the same kind of call -/
theorem benign_repaired {l : List Ev} (h : benign l = true) {ev : Ev} (hm : ev ∈ l)
    (hh : ev.harmless = false) : ∃ ev2 ∈ l, ev2.kind = ev.kind ∧ ev2.harmless = true := by
  induction l using benign.induct with
  | case1 => simp at hm
  | case2 x =>
    have hc : x.harmless = true := by simpa [benign] using h
    simp at hm; subst hm; simp [hc] at hh
  | case3 x x2 rest hc ih =>
    simp only [benign, hc, if_true] at h
    rcases List.mem_cons.mp hm with rfl | hm'
    · simp [hc] at hh
    · obtain ⟨e2, he2, hk⟩ := ih h hm'
      exact ⟨e2, List.mem_cons_of_mem _ he2, hk⟩
  | case4 x x2 rest hc ih =>
    simp only [benign, hc, Bool.false_eq_true, if_false, Bool.and_eq_true, beq_iff_eq] at h
    obtain ⟨⟨⟨⟨_, _⟩, hk⟩, ho⟩, hb⟩ := h
    rcases List.mem_cons.mp hm with rfl | hm'
    · exact ⟨x2, by simp, hk, ho⟩
    · rcases List.mem_cons.mp hm' with rfl | hm''
      · simp [ho] at hh
      · obtain ⟨e2, he2, hk2⟩ := ih hb hm''
        exact ⟨e2, List.mem_cons_of_mem _ (List.mem_cons_of_mem _ he2), hk2⟩

/-- **standing_denial_refuses.** If an enriching or authorizing webhook was asked in the
    request and no call to a webhook of that kind was answered `ok` (a standing denial or outage,
    whatever the individual answers were), the client outcome is an error. -/
theorem standing_denial_refuses (e : Env) (op : Op) (c : Cfg) (d : Durable) (ev : Ev)
    (hm : ev ∈ (runOp e op c d).1.log) (hk : ev.kind = .enrich ∨ ev.kind = .authorize)
    (hall : ∀ x ∈ (runOp e op c d).1.log, x.kind = ev.kind → x.out ≠ .ok) :
    client op (runOp e op c d) = .error := by
  apply Classical.byContradiction
  intro hne
  have hb := fail_closed e op c d hne
  have hno : ev.harmless = false := by
    have h1 := hall ev hm rfl
    rcases hk with hk | hk <;> simp [Ev.harmless, hk, Kind.tolerated, h1]
  obtain ⟨e2, he2, hk2, hh2⟩ := benign_repaired hb hm hno
  have h2 := hall e2 he2 hk2
  rcases hk with hk | hk <;>
    simp [Ev.harmless, hk2, hk, Kind.tolerated, h2] at hh2

/-- **no_silent_skip.** For every spelling of a webhook's certificate type and kind, on both
    configuration sources: a provisioner with enriching / authorizing webhooks either consults
    them for the request, or is refused altogether (it failed to initialise), or the webhooks are
    written — in a spelling the code knows — for the other certificate type. -/
theorem no_silent_skip (c : Cfg) (ctl wh : CertT) (admin kindKnown : Bool) (hw : c.e + c.a ≠ 0) :
    (c.consulted ctl wh admin kindKnown).refused = true ∨ c.consulted ctl wh admin kindKnown = c ∨
    (kindKnown = true ∧ ctl ≠ .all ∧
      ((if admin then viaAdminDB wh else wh) = .x509 ∨ (if admin then viaAdminDB wh else wh) = .ssh) ∧
      (if admin then viaAdminDB wh else wh) ≠ ctl) := by
  have hw' : (c.e + c.a != 0) = true := by simpa using hw
  cases ctl <;> cases wh <;> cases admin <;> cases kindKnown <;>
    simp [Cfg.consulted, certTypeOK, spellingOK, viaAdminDB, hw']

/-- an unknown spelling (of the kind on either source, of the certificate type in ca.json) makes
    every request through the provisioner an error: nothing is issued, the token is not even
    recorded, no call goes out -/
theorem unknown_spelling_refuses (e : Env) (op : Op) (c : Cfg) (d : Durable) (ctl wh : CertT)
    (admin kindKnown : Bool) (hw : c.e + c.a ≠ 0)
    (hs : kindKnown = false ∨ (admin = false ∧ wh = .unknown)) :
    client op (runOp e op (c.consulted ctl wh admin kindKnown) d) = .error ∧
    (runOp e op (c.consulted ctl wh admin kindKnown) d).1.log = [] := by
  have hw' : (c.e + c.a != 0) = true := by simpa using hw
  have hr : (c.consulted ctl wh admin kindKnown).refused = true := by
    rcases hs with rfl | ⟨rfl, rfl⟩ <;> simp [Cfg.consulted, spellingOK, hw']
  obtain ⟨a, _, b⟩ := refused_refuses e op _ d hr
  exact ⟨a, b⟩

/-- The round trip of a provisioner through the admin database keeps the consultation decision
    for every certificate type the code knows, written or not. -/
theorem admin_db_keeps_consultation_partial (ctl wh : CertT) (hk : wh ≠ .unknown) :
    certTypeOK ctl (viaAdminDB wh) = certTypeOK ctl wh := by
  cases ctl <;> cases wh <;> simp_all [certTypeOK, viaAdminDB]

/-- Historic (before fix 219511c a webhook with `certType: "x509"` was accepted from ca.json and
    never consulted, while the same definition read back from the admin database was consulted for
    everything): the string comparison and the conversion still disagree on an unknown spelling —
    which is why `Webhook.validate` now refuses it before the comparison is ever made. -/
theorem admin_db_changes_unknown_cert_type :
    ¬ (∀ ctl wh, certTypeOK ctl (viaAdminDB wh) = certTypeOK ctl wh) := by
  intro h; exact absurd (h .x509 .unknown) (by decide)

/-! ### SCEP enrolment -/

/-- a step changes the allow counter only by a challenge webhook that answered `ok` -/
theorem exec_allowed {e : Env} {s s' : St} {k : Kind} (h : exec e s k = .next s') :
    s'.allowed = s.allowed ∨ ⟨.challenge, .ok⟩ ∈ s'.log := by
  unfold exec at h
  split at h
  · exact Or.inl (execMem_spec (Or.inl h)).2.2.2.1
  cases k <;> simp only [execDB] at h
  case challenge =>
    by_cases hu : e.hooksUsable = false
    · rw [if_pos hu] at h; cases h
    rw [if_neg hu] at h
    obtain ⟨t, ht, _, ha, _, _⟩ := attempt_log e s .challenge
    split at h
    · cases h; rename_i ho
      right
      -- the deciding answer is the last event appended
      have : (attempt e s .challenge).2.log = (attempt e s .challenge).2.log := rfl
      rw [attempt_eq] at ho ⊢
      by_cases h1 : e.f s.log.length = .error
      · rw [if_pos h1] at ho ⊢; simp at ho; simp [ho]
      · rw [if_neg h1] at ho ⊢; simp at ho; simp [ho]
    · cases h; exact Or.inl ha
    · cases h
  case enrich =>
    by_cases hu : e.hooksUsable = false
    · rw [if_pos hu] at h; cases h
    rw [if_neg hu] at h
    obtain ⟨_, _, _, ha, _, _⟩ := attempt_log e s .enrich
    split at h <;> cases h; exact Or.inl (by simpa [webhook_eq] using ha)
  case authorize =>
    by_cases hu : e.hooksUsable = false
    · rw [if_pos hu] at h; cases h
    rw [if_neg hu] at h
    obtain ⟨_, _, _, ha, _, _⟩ := attempt_log e s .authorize
    split at h <;> cases h; exact Or.inl (by simpa [webhook_eq] using ha)
  case notify =>
    by_cases hu : e.hooksUsable = false
    · rw [if_pos hu] at h; cases h; exact Or.inl rfl
    rw [if_neg hu] at h
    obtain ⟨_, _, _, ha, _, _⟩ := attempt_log e s .notify
    split at h <;> cases h
    · exact Or.inl rfl
    · exact Or.inl ha
  all_goals
    (repeat' split at h) <;> cases h <;> first | exact Or.inl rfl | simp

/-- **scep_challenge_accepted.** With SCEP challenge webhooks configured, a certificate is
    issued only if some challenge webhook answered `allow` in this very request. -/
theorem scep_challenge_accepted (e : Env) (c : Cfg) (d : Durable) (hch : c.ch ≠ 0)
    (h : client .scepEnroll (runOp e .scepEnroll c d) = .certificate) :
    ⟨.challenge, .ok⟩ ∈ (runOp e .scepEnroll c d).1.log := by
  have gen : ∀ (ks : List Kind) (s : St), (s.allowed = 0 ∨ ⟨.challenge, .ok⟩ ∈ s.log) →
      Kind.challengeDone ∈ ks → (run e ks s).2 = true → ⟨.challenge, .ok⟩ ∈ (run e ks s).1.log := by
    intro ks
    induction ks with
    | nil => intro s _ hm; simp at hm
    | cons k ks ih =>
      intro s hinv hm hc
      simp only [run] at hc ⊢
      cases hx : exec e s k with
      | abort s' => simp [hx] at hc
      | next s' =>
        simp only [hx] at hc ⊢
        obtain ⟨_, _, _, t, ht⟩ := exec_mono (Or.inl hx)
        have hinv' : s'.allowed = 0 ∨ ⟨.challenge, .ok⟩ ∈ s'.log := by
          rcases exec_allowed hx with ha | ha
          · rcases hinv with h0 | h0
            · exact Or.inl (by rw [ha, h0])
            · exact Or.inr (by rw [ht]; exact List.mem_append_left _ h0)
          · exact Or.inr ha
        by_cases hk : k = .challengeDone
        · subst hk
          have hs : s' = s ∧ s.allowed ≠ 0 := by
            simp only [exec, Kind.isStore, Bool.false_eq_true, and_false, if_false, execDB] at hx
            by_cases h0 : s.allowed = 0
            · simp [h0] at hx
            · simp [h0] at hx; exact ⟨hx.symm, h0⟩
          obtain ⟨_, _, _, t', ht'⟩ := run_mono e ks s'
          rcases hinv with h0 | h0
          · exact absurd h0 hs.2
          · rw [ht', hs.1]; exact List.mem_append_left _ h0
        · have hm' : Kind.challengeDone ∈ ks := by
            rcases List.mem_cons.mp hm with h' | h'
            · exact absurd h'.symm hk
            · exact h'
          exact ih s' hinv' hm' hc
  unfold client at h
  cases hc : (runOp e .scepEnroll c d).2 with
  | false => simp [hc] at h
  | true =>
    rw [runOp_ok e _ c d hc]
    rw [runOp_snd] at hc
    refine gen _ (init .scepEnroll d) (Or.inl (by simp [init])) ?_ hc
    simp [steps, stepsOf, pkiOperationSteps, validateChallengeSteps, hch]

/-! ### ACME finalize -/

theorem run_effect (e : Env) (k : Kind) (P : St → Prop)
    (hstep : ∀ s s', exec e s k = .next s' → P s')
    (hmono : ∀ (k' : Kind) s s', exec e s k' = .next s' → P s → P s') :
    ∀ (ks : List Kind) (s : St), k ∈ ks → (run e ks s).2 = true → P (run e ks s).1 := by
  have keep : ∀ (ks : List Kind) (s : St), P s → (run e ks s).2 = true → P (run e ks s).1 := by
    intro ks
    induction ks with
    | nil => intro s hp _; simpa [run] using hp
    | cons a ks ih =>
      intro s hp hc
      simp only [run] at hc ⊢
      cases hx : exec e s a with
      | abort s' => simp [hx] at hc
      | next s' => simp only [hx] at hc ⊢; exact ih s' (hmono a s s' hx hp) hc
  intro ks
  induction ks with
  | nil => intro s hm; simp at hm
  | cons a ks ih =>
    intro s hm hc
    simp only [run] at hc ⊢
    cases hx : exec e s a with
    | abort s' => simp [hx] at hc
    | next s' =>
      simp only [hx] at hc ⊢
      by_cases hk : a = k
      · subst hk; exact keep ks s' (hstep s s' hx) hc
      · have hm' : k ∈ ks := by
          rcases List.mem_cons.mp hm with h' | h'
          · exact absurd h'.symm hk
          · exact h'
        exact ih s' hm' hc

/-- **acme_certificate_complete.** A finalize request that succeeds has recorded the X.509
    certificate in the authority's table, the ACME certificate object, and the order as valid.
    Contrapositive (`fault_double_certificate`): whenever the X.509 certificate is stored but
    the ACME object or the order update is missing, the client got an error and no
    certificate — and a retried finalize of the still-ready order issues a second one. -/
theorem acme_certificate_complete (e : Env) (c : Cfg) (d : Durable) (hdb : e.db = true)
    (h : client .acmeFinalize (runOp e .acmeFinalize c d) = .certificate) :
    d.certs + 1 ≤ (runOp e .acmeFinalize c d).1.d.certs ∧
    (runOp e .acmeFinalize c d).1.d.orderValid = true := by
  refine ⟨(stored_before_returned e .acmeFinalize c d hdb rfl h).2, ?_⟩
  unfold client at h
  cases hc : (runOp e .acmeFinalize c d).2 with
  | false => simp [hc] at h
  | true =>
    rw [runOp_ok e _ c d hc]
    rw [runOp_snd] at hc
    refine run_effect e .acmeUpdateOrder (fun s => s.d.orderValid = true) ?_ ?_ _ _ ?_ hc
    · intro s s' hx
      simp only [exec, Kind.isStore, Bool.false_eq_true, and_false, if_false, execDB] at hx
      split at hx <;> cases hx; simp
    · intro k' s s' hx hp
      unfold exec at hx
      split at hx
      · cases k' <;> simp only [execMem] at hx <;> (try split at hx) <;> cases hx <;> simp_all [spend]
      · cases k' <;> simp only [execDB] at hx
        case enrich =>
          by_cases hu : e.hooksUsable = false
          · rw [if_pos hu] at hx; cases hx
          rw [if_neg hu] at hx
          obtain ⟨_, _, hd, _, _, _⟩ := attempt_log e s .enrich
          split at hx <;> cases hx; simp only [webhook_eq]; rw [hd]; exact hp
        case authorize =>
          by_cases hu : e.hooksUsable = false
          · rw [if_pos hu] at hx; cases hx
          rw [if_neg hu] at hx
          obtain ⟨_, _, hd, _, _, _⟩ := attempt_log e s .authorize
          split at hx <;> cases hx; simp only [webhook_eq]; rw [hd]; exact hp
        case challenge =>
          by_cases hu : e.hooksUsable = false
          · rw [if_pos hu] at hx; cases hx
          rw [if_neg hu] at hx
          obtain ⟨_, _, hd, _, _, _⟩ := attempt_log e s .challenge
          split at hx <;> cases hx <;> (show (attempt e s .challenge).2.d.orderValid = true) <;> rw [hd] <;> exact hp
        case notify =>
          by_cases hu : e.hooksUsable = false
          · rw [if_pos hu] at hx; cases hx; exact hp
          rw [if_neg hu] at hx
          obtain ⟨_, _, hd, _, _, _⟩ := attempt_log e s .notify
          split at hx <;> cases hx
          · exact hp
          · show (attempt e s .notify).2.d.orderValid = true
            rw [hd]; exact hp
        all_goals
          (repeat' split at hx) <;> cases hx <;>
            first
              | exact hp
              | simp_all [spend, addCert, addRev, signed, call, decide']
    · simp [steps, stepsOf, finalizeSteps, finalizePost, updateOrderSteps]

/-! ### every certificate made is stored -/

theorem attempt_counts (e : Env) (s : St) (k : Kind) :
    (attempt e s k).2.made = s.made ∧ (attempt e s k).2.unstored = s.unstored ∧ (attempt e s k).2.d = s.d := by
  rw [attempt_eq]; split <;> exact ⟨rfl, rfl, rfl⟩

/-- certificates made are never "lost from the books": what was signed is either written or
    still counted as unwritten -/
theorem exec_counts {e : Env} {s s' : St} {k : Kind} (hdb : e.db = true)
    (h : exec e s k = .next s' ∨ exec e s k = .abort s') :
    s.d.certs + s.unstored + s'.made ≤ s'.d.certs + s'.unstored + s.made ∧ s.made ≤ s'.made := by
  simp only [exec, hdb, Bool.true_eq_false, false_and, if_false] at h
  cases k <;> simp only [execDB] at h
  case enrich =>
    by_cases hu : e.hooksUsable = false
    · rw [if_pos hu] at h; rcases h with h | h <;> cases h <;> first | omega | (simp; omega) | simp
    rw [if_neg hu] at h
    obtain ⟨a, b, c⟩ := attempt_counts e s .enrich
    split at h <;> rcases h with h | h <;> cases h <;> simp only [webhook_eq] <;> rw [a, b, c] <;> omega
  case authorize =>
    by_cases hu : e.hooksUsable = false
    · rw [if_pos hu] at h; rcases h with h | h <;> cases h <;> first | omega | (simp; omega) | simp
    rw [if_neg hu] at h
    obtain ⟨a, b, c⟩ := attempt_counts e s .authorize
    split at h <;> rcases h with h | h <;> cases h <;> simp only [webhook_eq] <;> rw [a, b, c] <;> omega
  case challenge =>
    by_cases hu : e.hooksUsable = false
    · rw [if_pos hu] at h; rcases h with h | h <;> cases h <;> first | omega | (simp; omega) | simp
    rw [if_neg hu] at h
    obtain ⟨a, b, c⟩ := attempt_counts e s .challenge
    split at h <;> rcases h with h | h <;> cases h <;>
      (show s.d.certs + s.unstored + (attempt e s .challenge).2.made ≤
        (attempt e s .challenge).2.d.certs + (attempt e s .challenge).2.unstored + s.made ∧
        s.made ≤ (attempt e s .challenge).2.made) <;> rw [a, b, c] <;> omega
  case notify =>
    by_cases hu : e.hooksUsable = false
    · rw [if_pos hu] at h; rcases h with h | h <;> cases h <;> first | omega | (simp; omega) | simp
    rw [if_neg hu] at h
    obtain ⟨a, b, c⟩ := attempt_counts e s .notify
    split at h <;> rcases h with h | h <;> cases h
    · omega
    · show s.d.certs + s.unstored + (attempt e s .notify).2.made ≤
        (attempt e s .notify).2.d.certs + (attempt e s .notify).2.unstored + s.made ∧
        s.made ≤ (attempt e s .notify).2.made
      rw [a, b, c]; omega
  all_goals
    (repeat' split at h) <;> rcases h with h | h <;> cases h <;>
      simp [spend, addCert, addRev, signed, call, decide'] <;> omega

theorem run_counts (e : Env) (hdb : e.db = true) (ks : List Kind) (s : St) :
    s.d.certs + s.unstored + (run e ks s).1.made ≤ (run e ks s).1.d.certs + (run e ks s).1.unstored + s.made ∧
    s.made ≤ (run e ks s).1.made := by
  induction ks generalizing s with
  | nil => simp [run]
  | cons k ks ih =>
    simp only [run]
    cases h : exec e s k with
    | next s' =>
      obtain ⟨a, b⟩ := exec_counts hdb (Or.inl h)
      obtain ⟨a', b'⟩ := ih s'
      show s.d.certs + s.unstored + (run e ks s').1.made ≤ (run e ks s').1.d.certs + (run e ks s').1.unstored + s.made ∧
        s.made ≤ (run e ks s').1.made
      exact ⟨by omega, by omega⟩
    | abort s' => exact exec_counts hdb (Or.inr h)

/-- a step that lets the request continue moves the unwritten count as `pendingStep` says -/
theorem exec_pending {e : Env} {s s' : St} {k : Kind} (hdb : e.db = true)
    (h : exec e s k = .next s') : s'.unstored = pendingStep s.unstored k := by
  simp only [exec, hdb, Bool.true_eq_false, false_and, if_false] at h
  cases k <;> simp only [execDB] at h
  case enrich =>
    by_cases hu : e.hooksUsable = false
    · rw [if_pos hu] at h; cases h
    rw [if_neg hu] at h
    obtain ⟨_, b, _⟩ := attempt_counts e s .enrich
    split at h <;> cases h; simpa [webhook_eq, pendingStep] using b
  case authorize =>
    by_cases hu : e.hooksUsable = false
    · rw [if_pos hu] at h; cases h
    rw [if_neg hu] at h
    obtain ⟨_, b, _⟩ := attempt_counts e s .authorize
    split at h <;> cases h; simpa [webhook_eq, pendingStep] using b
  case challenge =>
    by_cases hu : e.hooksUsable = false
    · rw [if_pos hu] at h; cases h
    rw [if_neg hu] at h
    obtain ⟨_, b, _⟩ := attempt_counts e s .challenge
    split at h <;> cases h <;> (show (attempt e s .challenge).2.unstored = _) <;> simpa [pendingStep] using b
  case notify =>
    by_cases hu : e.hooksUsable = false
    · rw [if_pos hu] at h; cases h; rfl
    rw [if_neg hu] at h
    obtain ⟨_, b, _⟩ := attempt_counts e s .notify
    split at h <;> cases h
    · rfl
    · show (attempt e s .notify).2.unstored = _
      simpa [pendingStep] using b
  all_goals
    (repeat' split at h) <;> cases h <;> simp [pendingStep, spend, addCert, addRev, signed, call, decide']

theorem run_pending (e : Env) (hdb : e.db = true) (ks : List Kind) (s : St)
    (hc : (run e ks s).2 = true) : (run e ks s).1.unstored = pending ks s.unstored := by
  induction ks generalizing s with
  | nil => simp [run, pending]
  | cons k ks ih =>
    simp only [run] at hc ⊢
    cases h : exec e s k with
    | abort s' => simp [h] at hc
    | next s' =>
      simp only [h] at hc ⊢
      rw [ih s' hc, exec_pending hdb h]
      simp [pending]

theorem pending_append (xs ys : List Kind) (u : Nat) : pending (xs ++ ys) u = pending ys (pending xs u) := by
  simp [pending, List.foldl_append]

theorem pending_replicate (n : Nat) (k : Kind) (u : Nat) (hk : ∀ v, pendingStep v k = v) :
    pending (List.replicate n k) u = u := by
  induction n generalizing u with
  | zero => simp [pending]
  | succ n ih => simp only [List.replicate_succ, pending, List.foldl_cons, hk]; exact ih u

/-- in every operation each signing step is followed by its store step -/
theorem stepsOf_pending (op : Op) (c : Cfg) : pending (stepsOf op c) 0 = 0 := by
  have he : ∀ n u, pending (List.replicate n Kind.enrich) u = u := fun n u => pending_replicate n _ u (fun _ => rfl)
  have ha : ∀ n u, pending (List.replicate n Kind.authorize) u = u := fun n u => pending_replicate n _ u (fun _ => rfl)
  have hc : ∀ n u, pending (List.replicate n Kind.challenge) u = u := fun n u => pending_replicate n _ u (fun _ => rfl)
  have hn : ∀ n u, pending (List.replicate n Kind.notify) u = u := fun n u => pending_replicate n _ u (fun _ => rfl)
  have hr : ∀ n t u, pending (List.replicate n (Kind.req t)) u = u := fun n t u => pending_replicate n _ u (fun _ => rfl)
  have hz : ∀ n u, pending (authzUpdates n) u = u := by
    intro n
    induction n with
    | zero => intro u; simp [authzUpdates, pending]
    | succ n ih => intro u; simp only [authzUpdates, pending_append, ih]; simp [pending, pendingStep]
  have hus : ∀ u, pending (updateStatusSteps c) u = u := by
    intro u
    unfold updateStatusSteps
    split
    · simp only [pending_append, hz]; simp [pending, pendingStep]
    · simp [pending]
  have hid : ∀ u, pending (identityRenewSteps c) u = u := by
    intro u
    unfold identityRenewSteps
    split <;> simp [pending, pendingStep, renewContextSteps, authorizeRenewSteps, storeRenewedSteps]
  have hx : ∀ u, pending (signX509Steps c) u = u := by
    intro u
    simp only [signX509Steps, pending_append, he, ha]
    simp [pending, pendingStep]
  cases op <;>
    simp only [stepsOf, authorizeSteps, authorizeTokenSteps, signSSHSteps, renewContextSteps, authorizeRenewSteps,
      storeRenewedSteps, revokeTokenSteps, revokeMTLSSteps, revokeSSHSteps, revokeTokenBase, revokeMTLSBase,
      renewSSHSteps, rekeySSHSteps, finalizeSteps, finalizePre, finalizePost, finalizeHandlerPre,
      createCertificateSteps, updateOrderSteps, pkiOperationSteps, signCSRSteps, validateChallengeSteps,
      signSSHAddUserSteps, identitySteps, crlSteps, pending_append, he, ha, hc, hn, hr, hx, hus, hid] <;>
    (try split) <;> (try simp only [pending_append, he, ha, hc, hn, hr, hx, hus, hid]) <;> simp [pending, pendingStep]

theorem steps_pending (op : Op) (c : Cfg) : pending (steps op c) 0 = 0 := by
  unfold steps
  rw [pending_append]
  split
  · simpa [pending, pendingStep] using stepsOf_pending op c
  · simpa [pending] using stepsOf_pending op c

/-- **every_certificate_recorded.** With a database configured, when the client is handed
    certificates — one, or the three of the SSH sign handler (user, add-user, identity) —
    every certificate signed in the request was written by a store call that followed its
    signing, and the certificate tables grew by at least that many entries. -/
theorem every_certificate_recorded (e : Env) (op : Op) (c : Cfg) (d : Durable) (hdb : e.db = true)
    (h : client op (runOp e op c d) = .certificate) :
    (runOp e op c d).1.unstored = 0 ∧
    d.certs + (runOp e op c d).1.made ≤ (runOp e op c d).1.d.certs := by
  unfold client at h
  cases hc : (runOp e op c d).2 with
  | false => simp [hc] at h
  | true =>
    rw [runOp_ok e op c d hc]
    rw [runOp_snd] at hc
    have hp := run_pending e hdb _ (init op d) hc
    have hu : (init op d).unstored = 0 := rfl
    rw [hu, steps_pending] at hp
    obtain ⟨a, _⟩ := run_counts e hdb (steps op c) (init op d)
    have hm : (init op d).made = 0 := rfl
    have hd : (init op d).d = d := rfl
    rw [hu, hm, hd] at a
    exact ⟨hp, by omega⟩

/-! ### the step lists and the source -/

/-- every signer of package `authority` (the list is re-derived from the source on every run)
    stores what it signs before it returns, for any number of webhooks -/
theorem signers_store (c : Cfg) : ∀ p ∈ signerTable c, pending p.2 0 = 0 := by
  have he : ∀ n u, pending (List.replicate n Kind.enrich) u = u := fun n u => pending_replicate n _ u (fun _ => rfl)
  have ha : ∀ n u, pending (List.replicate n Kind.authorize) u = u := fun n u => pending_replicate n _ u (fun _ => rfl)
  intro p hp
  simp only [signerTable, List.mem_cons, List.mem_nil_iff, or_false] at hp
  rcases hp with rfl | rfl | rfl | rfl | rfl | rfl <;>
    simp only [signX509Steps, signSSHSteps, renewContextSteps, authorizeRenewSteps, storeRenewedSteps, renewSSHSteps,
      rekeySSHSteps, signSSHAddUserSteps, pending_append, he, ha] <;> simp [pending, pendingStep]

/-- every record-keeping function falls back to the local database after the linked-CA check
    (order re-derived from the source on every run), and the nosql admin store takes over none of
    the record-keeping methods -/
theorem local_db_always_consulted :
    storerOrder.all (fun p => p.2.getLast? == some "a.db") = true ∧ adminStoreMethods = [] := by decide

/-- every configurable provisioner type hands the signing code a webhook controller of the
    certificate type it issues (table re-derived from the source on every run), so the
    provisioner's enriching / authorizing webhooks are consulted whatever the provisioner type -/
theorem every_provisioner_type_consults_webhooks :
    hookControllers.all (fun p => nonIssuingTypes.contains p.1 ||
      (if p.2.1 == "AuthorizeSign" then p.2.2 == "X509" else p.2.2 == "SSH")) = true := by decide

/-- every handler that the caller table shows calling an issuing entry point is bound to routes
    that are modelled by an operation (routes and callers re-derived from the source) -/
theorem issuing_routes_modelled :
    routeTable.all (fun r =>
      ((callerTable { e := 1, a := 1 }).all fun p => !(p.1 == r.2.1) || !r.2.2.isEmpty)) = true := by decide

/-- the reloaded CA is always handed the open database (option list re-derived from the source) -/
theorem reload_hands_database_over : reloadOptions.contains "WithDatabase" = true := by decide

/-- the one-time-token provisioner types fail to give a token id only for a token that does not
    parse (table re-derived from the source): a parsable token, with or without jti, is recorded -/
theorem token_types_always_give_an_id :
    (["JWK", "X5C", "SSHPOP"].all fun t => tokenIDErrors.any fun p => p.1 == t && p.2.1 == 2 && !p.2.2) = true := by
  decide

/-- every SCEP message type that carries a certificate request has its challenge validated
    (both lists are re-derived from the source on every run) -/
theorem challenge_covers_csr_types : csrTypes.all (fun t => challengedTypes.contains t) = true := by decide

/-- every server-side caller of an issuing entry point (re-derived from the source on every
    run) is modelled: the entry point's segment is part of the operation's step list -/
theorem callers_modelled :
    (callerTable { e := 1, a := 1, identity := true }).all
      (fun p => p.2.2.2.isSublist (steps p.2.2.1 { e := 1, a := 1, identity := true })) = true := by decide


/-- The three request paths through `Revoke` (token, mTLS, SSH) are sub-sequences of the
    function body in source order (which the harness re-derives from the Go source on every
    run and the driver compares with `revokeSourceOrder`). -/
theorem revoke_paths_in_source_order :
    revokeTokenBase.isSublist revokeSourceOrder = true ∧
    revokeMTLSBase.isSublist revokeSourceOrder = true ∧
    revokeSSHSteps.isSublist revokeSourceOrder = true := by decide

/-! ### hypotheses are satisfiable (non-trivial instances) -/

def allOk : Env := { f := fun _ => .ok, g := fun _ => true }
def noDB : Env := { allOk with db := false }
def wh (e a : Nat) : Cfg := { e := e, a := a }

/-- `ErrNotImplemented` is tolerated: without a database the certificate is issued unrecorded -/
example : let r := runOp noDB .sign (wh 1 1) {}
    client .sign r = .certificate ∧ r.1.d.certs = 0 ∧ r.1.log.length = 3 := by decide
example : client .revoke (runOp noDB .revoke (wh 0 0) {}) = .error := by decide
/-- … while a reload keeps it: the used token is refused again although nothing is on disk -/
example : client .sign (runOp noDB .sign (wh 0 0) (reload (runOp noDB .sign (wh 0 0) {}).1.d)) = .error := by decide
/-- without a database the used-token set does not survive a restart (C02's subject, outside
    C17's "when a database is configured"): the same token is accepted again -/
example : client .sign (runOp noDB .sign (wh 0 0) (restart false (runOp noDB .sign (wh 0 0) {}).1.d)) = .certificate := by decide

example : client .sign (runOp allOk .sign (wh 2 1) {}) = .certificate := by decide
example : client .revoke (runOp allOk .revoke (wh 0 0) {}) = .revoked := by decide
example : (runOp allOk .sign (wh 2 1) {}).1.log.length = 6 := by decide
/-- a transient webhook failure repaired by the retry: certificate issued, trace benign -/
example : client .sign (runOp { allOk with f := fun n => if n = 2 then .error else .ok } .sign (wh 2 1) {}) = .certificate := by decide
/-- denial at the authorizing webhook: error, token spent, nothing stored -/
example : let r := runOp { allOk with f := fun n => if n = 3 then .deny else .ok } .sign (wh 2 1) {}
    client .sign r = .error ∧ r.1.d.tokenSpent = true ∧ r.1.d.certs = 0 := by decide
/-- store acknowledgement lost: error although the certificate reached the table -/
example : let r := runOp { allOk with f := fun n => if n = 2 then .timeout else .ok } .sign (wh 0 0) {}
    client .sign r = .error ∧ r.1.d.certs = 1 := by decide
/-- the CAS fails: error, nothing stored -/
example : let r := runOp { allOk with f := fun n => if n = 1 then .error else .ok } .sign (wh 0 0) {}
    client .sign r = .error ∧ r.1.d.certs = 0 := by decide
/-- `fail_closed_at` applies: the event is in the trace -/
example : (⟨.authorize, .deny⟩ : Ev) ∈ (runOp { allOk with f := fun n => if n = 3 then .deny else .ok } .sign (wh 2 1) {}).1.log := by decide
/-- `token_spent` applies to an attempt that failed in validation -/
example : client .sign (runOp allOk .sign (wh 0 0) (runOp { allOk with g := fun i => i != 0 } .sign (wh 0 0) {}).1.d) = .error := by decide
/-- revocation recorded, CRL regeneration fails: the client sees an error although the
    certificate is revoked (stored, not acknowledged) -/
example : let r := runOp { allOk with f := fun n => if n = 6 then .error else .ok } .revoke { e := 0, a := 0, crl := true } {}
    client .revoke r = .error ∧ r.1.d.revoked = true := by decide

/-- the SSH sign handler with add-user key and identity CSR: three certificates, three stores -/
example : let r := runOp allOk .sshSignFull (wh 1 1) {}
    client .sshSignFull r = .certificate ∧ r.1.made = 3 ∧ r.1.d.certs = 3 ∧ r.1.d.datas = 1 := by decide


/-- unusable webhook definitions: refused without a single external webhook call -/
example : let r := runOp { allOk with hooksUsable := false } .sign (wh 1 1) {}
    client .sign r = .error ∧ r.1.log = [⟨.useToken, .ok⟩] := by decide

/-! SCEP -/
def scep2 : Cfg := { e := 0, a := 0, ch := 2, n := 1 }
/-- two challenge webhooks, the first says no, the second allows: issued (any-of semantics) -/
example : client .scepEnroll (runOp { allOk with f := fun n => if n = 0 then .deny else .ok } .scepEnroll scep2 {}) = .certificate := by decide
/-- the first fails twice (outage), the second would allow: refused, the second is never asked -/
example : let r := runOp { allOk with f := fun n => if n ≤ 1 then .error else .ok } .scepEnroll scep2 {}
    client .scepEnroll r = .error ∧ r.1.log.length = 2 := by decide
/-- a requester to whom the reply cannot be encrypted (no RSA key): the certificate is signed
    and STORED, the client gets a failure reply, the NOTIFYING webhook is told of the failure -/
example : let r := runOp { allOk with g := fun i => i != 4 } .scepEnroll scep2 {}
    client .scepEnroll r = .error ∧ r.1.d.certs = 1 ∧ r.1.log.getLast? = some ⟨.notify, .ok⟩ := by decide
/-- a failing NOTIFYING webhook does not change the outcome -/
example : client .scepEnroll (runOp { allOk with f := fun n => if n ≥ 4 then .error else .ok } .scepEnroll scep2 {}) = .certificate := by decide

/-! ACME: which single faults leave an X.509 certificate in the authority's table without an
    ACME certificate object (`e = a = 0`; positions: 0 reply nonce, 1 nonce use, 2 account,
    3 order, 4 authorization, 5 its challenge, 6 CAS, 7 store, 8 ACME certificate, 9 serial index,
    10 order read, 11 order update): exactly a lost acknowledgement of the store (7) and a
    failed, not applied, write of the ACME certificate object (8).  Every later fault (9, 10, 11)
    leaves both objects and an order that is still `ready`. In all of them the client gets an
    error; finalizing again issues a second certificate. -/
def acmeFault (p : Nat) (o : Outcome) : St × Bool :=
  runOp { allOk with f := fun n => if n = p then o else .ok } .acmeFinalize (wh 0 0) {}

def acmeOrphan (p : Nat) (o : Outcome) : Bool :=
  (acmeFault p o).1.d.certs == 1 && (acmeFault p o).1.d.acmeCerts == 0

theorem fault_double_certificate :
    (List.range 13).all (fun p => [Outcome.error, .timeout, .deny, .malformed].all fun o =>
      (acmeOrphan p o == ((p == 7 && o == .timeout) || (p == 8 && o != .timeout))) &&
      -- stored and not handed out: every fault from the store's lost acknowledgement on
      (((acmeFault p o).1.d.certs == 1 && !(acmeFault p o).2) == ((p == 7 && o == .timeout) || (8 ≤ p && p ≤ 11)))) = true := by
  decide

end Verif.FailClosed
